(* Model of the Circuit construction API (circuitgraph/circuit.py): effects and checks in source
   order, partial effects before a raise included.  Validated against the real class
   (DESIGN.md A.8); the correspondence check of C07 re-validates it on every run. *)
From stdpp Require Import strings gmap sets pretty.
From CG Require Export Types.
Open Scope string_scope.

Inductive outcome := Done | Fail (e : exn).
Global Instance outcome_eq_dec : EqDecision outcome. Proof. solve_decision. Defined.

(* the type lists of circuit.py (primitive_gates .. add_no_fanin) come from the regenerated Gen_types.v *)
From CG Require Export Gen.Gen_types.

Definition is_in (t : option gtype) (l : list gtype) : bool := match t with Some t => bool_decide (t ∈ l) | None => false end.
Definition add_edge (c : circuit) (u v : string) : circuit := alter (upd_fi (λ s, {[u]} ∪ s)) v c.
Definition del_edge (c : circuit) (u v : string) : circuit := alter (upd_fi (λ s, s ∖ {[u]})) v c.
Definition pairs (us vs : list string) : list (string * string) := u ← us; v ← vs; [(u, v)].

(* connect(us, vs); us/vs already normalised to lists (a str argument is a one-element list;
   None / "" / [] are all falsy) *)
Definition connect_check (c : circuit) (us vs : list string) : bool :=
  negb (existsb (λ v, is_in (ty c v) conn_no_fanin
                   || (is_in (ty c v) conn_single_fanin && (1 <? size (fanin c v) + length us)%nat)) vs) &&
  negb (existsb (λ u, is_in (ty c u) conn_no_fanout
                   || (is_in (ty c u) conn_bbout &&
                        (existsb (λ v, negb (is_in (ty c v) [Buf])) vs || (1 <? size (fanout c u) + length vs)%nat))) us).
Definition connect_g (c : circuit) (us vs : list string) : circuit * outcome :=
  if bool_decide (us = []) || bool_decide (vs = []) then (c, Done) else
  if negb (forallb (λ n, bool_decide (n ∈ dom c)) (us ++ vs)) then (c, Fail ValueError) else
  if negb (connect_check c us vs) then (c, Fail ValueError) else
  (foldl (λ c' p, add_edge c' p.1 p.2) c (pairs us vs), Done).
Definition disconnect_g (c : circuit) (us vs : list string) : circuit :=
  foldl (λ c' p, del_edge c' p.1 p.2) c (pairs us vs).
(* remove: networkx remove_nodes_from drops incident edges, ignores missing nodes *)
Definition remove_g (c : circuit) (ns : list string) : circuit :=
  let s : gset string := list_to_set ns in
  upd_fi (λ fi, fi ∖ s) <$> filter (λ p, p.1 ∉ s) c.
Definition set_output_g (c : circuit) (ns : list string) (b : bool) : circuit * outcome :=
  foldl (λ st n, match st with
                 | (c', Done) => match c' !! n with
                               | Some i => (<[n := set_out b i]> c', Done)
                               | None => (c', Fail KeyError) end
                 | _ => st end) (c, Done) ns.
(* set_type(ns, t): ValueError if t not addable; KeyError on a missing node *)
Definition set_type_g (c : circuit) (ns : list string) (t : gtype) : circuit * outcome :=
  if negb (bool_decide (t ∈ addable_types)) then (c, Fail ValueError) else
  foldl (λ st n, match st with
                 | (c', Done) => match c' !! n with
                               | Some i => (<[n := retype t i]> c', Done)
                               | None => (c', Fail KeyError) end
                 | _ => st end) (c, Done) ns.

(* uid(n, blocked): n, else n_0 .. n_10, then n_70, n_490, ... *)
Fixpoint uid_loop (fuel : nat) (used : gset string) (n : string) (i : N) : string :=
  let cand := n ++ "_" ++ pretty i in
  match fuel with O => cand | S f =>
    if bool_decide (cand ∈ used) then uid_loop f used n (if (i <? 10)%N then (i + 1)%N else (i * 7)%N) else cand end.
Definition uid_in (used : gset string) (n : string) : string :=
  if bool_decide (n ∈ used) then uid_loop (S (size used)) used n 0%N else n.
Definition uid (c : circuit) (n : string) : string := uid_in (dom c) n.

Definition starts_digit (n : string) : bool :=
  match n with String a _ => let k := Ascii.nat_of_ascii a in (48 <=? k)%nat && (k <=? 57)%nat | EmptyString => false end.

Record add_flags := { af_out : bool; af_conn : bool; af_redef : bool; af_uid : bool }.
Definition af_default := {| af_out := false; af_conn := false; af_redef := false; af_uid := false |}.

(* the inner `self.add(f, "buf")` of add_connected_nodes (f is known to be absent) *)
Definition add_plain_buf (c : circuit) (f : string) : circuit * outcome :=
  if bool_decide (f = "") then (c, Fail ValueError) else
  if starts_digit f then (c, Fail ValueError) else
  (<[f := mk_node Buf false ∅]> c, Done).

(* add(n, t, fanin, fanout, output, add_connected_nodes, allow_redefinition, uid) *)
Definition add_g (c : circuit) (n : string) (t : gtype) (fi fo : list string) (fl : add_flags)
  : circuit * outcome * string :=
  let n := if af_uid fl then uid c n else n in
  if negb (af_uid fl) && bool_decide (n ∈ dom c) && negb (af_redef fl) then (c, Fail ValueError, n) else
  if negb (bool_decide (t ∈ supported_types)) then (c, Fail ValueError, n) else
  if (1 <? length fi)%nat && bool_decide (t ∈ add_single_fanin) then (c, Fail ValueError, n) else
  if negb (bool_decide (fi = [])) && bool_decide (t ∈ add_no_fanin) then (c, Fail ValueError, n) else
  if bool_decide (n = "") then (c, Fail ValueError, n) else
  if starts_digit n then (c, Fail ValueError, n) else
  (* graph.add_node on an existing node overwrites the attributes and keeps its edges *)
  let c1 := <[ n := mk_node t (af_out fl) (fanin c n) ]> c in
  let '(c1', o1) :=
    if af_conn fl then
      foldl (λ st f, match st with
                     | (g, Done) => if bool_decide (f ∈ dom g) then (g, Done) else add_plain_buf g f
                     | _ => st end) (c1, Done) (fi ++ fo)
    else (c1, Done) in
  match o1 with Fail e => (c1', Fail e, n) | Done =>
  (* edges n -> v that the first connect creates; they are taken back when the second connect is rejected *)
  let new_edges := filter (λ v, negb (bool_decide (n ∈ fanin c1' v))) fo in
  let '(c2, o) := connect_g c1' [n] fo in
  match o with Fail e => (c2, Fail e, n) | Done =>
    let '(c3, o3) := connect_g c2 fi [n] in
    match o3 with
    | Fail ValueError => (foldl (λ g v, del_edge g n v) c3 new_edges, o3, n)
    | _ => (c3, o3, n) end end end.

(* add_blackbox(bb, name, connections): registry first, then pins, then connections in dict order.
   ins/outs: iteration order of the blackbox's input and output sets *)
Definition pin (inst p : string) := inst ++ "." ++ p.
Definition add_blackbox (C : Circuit) (d : bbdef) (inst : string) (ins outs : list string) (conns : list (string * list string))
  : Circuit * outcome :=
  if bool_decide (inst ∈ dom (c_bbs C)) then (C, Fail ValueError) else
  let C1 := with_bbs C (<[inst := d]> (c_bbs C)) in
  (* state: graph, pins created by this call, outcome *)
  let mkpins := foldl (λ st pt, match st with
                  | (g, io, Done) => let '(g', o, nm) := add_g g (pin inst pt.1) pt.2 [] [] af_default in
                                     (g', match o with Done => nm :: io | _ => io end, o)
                  | _ => st end) (c_g C1, [], Done) (((λ p, (p, BbIn)) <$> ins) ++ ((λ p, (p, BbOut)) <$> outs)) in
  let '(g, io, o) := mkpins in
  let r := match o with
           | Fail e => (g, Fail e)
           | Done => foldl (λ st kv, match st with
               | (g, Done) =>
                  if bool_decide (kv.1 ∈ bb_in d) then connect_g g kv.2 [pin inst kv.1]
                  else if bool_decide (kv.1 ∈ bb_out d) then connect_g g [pin inst kv.1] kv.2
                  else (g, Fail ValueError)
               | _ => st end) (g, Done) conns
           end in
  match r.2 with
  | Fail ValueError => (with_g C (remove_g r.1 io), Fail ValueError)     (* rejected: pins and registry entry are taken back *)
  | _ => (with_g C1 r.1, r.2)
  end.

(* relabel with a prefix: all nodes and all fan-in references *)
Definition pre (p n : string) := p ++ "_" ++ n.
Global Instance pre_inj p : Inj (=) (=) (pre p).
Proof. intros a b H. unfold pre in H. by simplify_list_eq. Qed.
Definition rename_g (ρ : string → string) (c : circuit) : circuit :=
  kmap ρ (upd_fi (set_map ρ) <$> c).

(* graph.update(g): nodes of g overwrite attributes, edges are united *)
Definition update_g (c g : circuit) : circuit :=
  union_with (λ old new, Some {| n_ty := n_ty new; n_out := n_out new; n_fi := n_fi old ∪ n_fi new |}) c g.

(* add_subcircuit(sc, name, connections, strip_io) *)
Definition add_subcircuit_gen (strip : bool) (C SC : Circuit) (name : string) (conns : list (string * list string)) : Circuit * outcome :=
  if existsb (λ b, bool_decide (pre name b ∈ dom (c_bbs C))) (elements (dom (c_bbs SC))) then (C, Fail ValueError) else
  if existsb (λ n, bool_decide (pre name n ∈ dom (c_g C))) (elements (dom (c_g SC))) then (C, Fail ValueError) else
  let sin := inputs (c_g SC) in let sout := outputs (c_g SC) in
  if existsb (λ kv, negb (bool_decide (kv.1 ∈ sin)) && negb (bool_decide (kv.1 ∈ sout))) conns then (C, Fail ValueError) else
  let g0 := update_g (c_g C) (rename_g (pre name) (c_g SC)) in
  let g1 := if strip then set_fold (λ n g, alter (retype Buf) (pre name n) g) g0 sin else g0 in
  let g2 := if strip then set_fold (λ n g, alter unmark (pre name n) g) g1 sout else g1 in
  let bbs := map_fold (λ b d acc, <[pre name b := d]> acc) (c_bbs C) (c_bbs SC) in
  let r := foldl (λ st kv, match st with
             | (g, Done) => if bool_decide (kv.1 ∈ sin) then connect_g g kv.2 [pre name kv.1]
                          else connect_g g [pre name kv.1] kv.2
             | _ => st end) (g2, Done) conns in
  match r.2 with
  | Fail ValueError =>      (* rejected connection: the spliced copy and its blackbox entries are taken back *)
      ({| c_name := c_name C; c_g := remove_g r.1 (pre name <$> elements (dom (c_g SC))); c_bbs := c_bbs C |}, r.2)
  | _ => ({| c_name := c_name C; c_g := r.1; c_bbs := bbs |}, r.2)
  end.
Definition add_subcircuit := add_subcircuit_gen true.

(* fill_blackbox(name, c) *)
Definition pin_to_node (inst : string) (d : bbdef) (n : string) : string :=
  (* inst.p -> inst_p for the pins of this instance, identity elsewhere *)
  match list_find (λ p, n = pin inst p) (elements (bb_in d ∪ bb_out d)) with
  | Some (_, p) => pre inst p | None => n end.
Definition relabel_pins (inst : string) (d : bbdef) (c : circuit) : circuit :=
  (* used only when no inst_p name exists yet, so this is a clean rename *)
  map_fold (λ n i acc, <[pin_to_node inst d n := upd_fi (set_map (pin_to_node inst d)) i]> acc) ∅ c.
Definition fill_blackbox (C : Circuit) (inst : string) (SC : Circuit) : Circuit * outcome :=
  match c_bbs C !! inst with None => (C, Fail ValueError) | Some d =>
  if existsb (λ b, bool_decide (pre inst b ∈ dom (c_bbs C))) (elements (dom (c_bbs SC))) then (C, Fail ValueError) else
  if negb (bool_decide (inputs (c_g SC) = bb_in d)) then (C, Fail ValueError) else
  if negb (bool_decide (outputs (c_g SC) = bb_out d)) then (C, Fail ValueError) else
  if existsb (λ n, bool_decide (pre inst n ∈ dom (c_g C))) (elements (dom (c_g SC))) then (C, Fail ValueError) else
  (* a pin node that still exists must have its pin type; no output of SC may be a blackbox pin (fix a758c71) *)
  if existsb (λ p, match ty (c_g C) (pin inst p) with Some t => negb (bool_decide (t = BbIn)) | None => false end)
             (elements (bb_in d)) then (C, Fail ValueError) else
  if existsb (λ p, match ty (c_g C) (pin inst p) with Some t => negb (bool_decide (t = BbOut)) | None => false end
                   || is_in (ty (c_g SC) p) [BbIn; BbOut]) (elements (bb_out d)) then (C, Fail ValueError) else
  let g0 := relabel_pins inst d (c_g C) in
  let g1 := update_g g0 (rename_g (pre inst) (c_g SC)) in
  let g2 := set_fold (λ n g, alter (retype Buf) (pre inst n) g) g1 (bb_in d) in
  let g3 := set_fold (λ n g, alter unmark (pre inst n) g) g2 (bb_out d) in
  let bbs := map_fold (λ b e acc, <[pre inst b := e]> acc) (delete inst (c_bbs C)) (c_bbs SC) in
  ({| c_name := c_name C; c_g := g3; c_bbs := bbs |}, Done)
  end.

Inductive op :=
| OAdd (n : string) (t : gtype) (fi fo : list string) (out use_uid : bool)
| OConnect (us vs : list string) | ODisconnect (us vs : list string) | ORemove (ns : list string)
| OSetOutput (ns : list string) (b : bool)
| OAddBlackbox (d : bbdef) (inst : string) (ins outs : list string) (conns : list (string * list string))
| OAddSubcircuit (SC : Circuit) (name : string) (conns : list (string * list string))
| OFillBlackbox (inst : string) (SC : Circuit).

Definition step (C : Circuit) (o : op) : Circuit * outcome :=
  match o with
  | OAdd n t fi fo out u =>
      let '(g, oc, _) := add_g (c_g C) n t fi fo {| af_out := out; af_conn := false; af_redef := false; af_uid := u |} in (with_g C g, oc)
  | OConnect us vs => let '(g, oc) := connect_g (c_g C) us vs in (with_g C g, oc)
  | ODisconnect us vs => (with_g C (disconnect_g (c_g C) us vs), Done)
  | ORemove ns => (with_g C (remove_g (c_g C) ns), Done)
  | OSetOutput ns b => let '(g, oc) := set_output_g (c_g C) ns b in (with_g C g, oc)
  | OAddBlackbox d inst ins outs conns => add_blackbox C d inst ins outs conns
  | OAddSubcircuit SC name conns => add_subcircuit C SC name conns
  | OFillBlackbox inst SC => fill_blackbox C inst SC
  end.
