(* Constructors used by generated case files (kept short: Coq parses literals at ~40 KB/s). *)
From stdpp Require Import strings gmap sets.
From CG Require Export Types.
Open Scope string_scope.

Definition mk_g (l : list (string * gtype * bool * list string)) : circuit :=
  list_to_map ((λ p, (p.1.1.1, {| n_ty := p.1.1.2; n_out := p.1.2; n_fi := list_to_set p.2 |})) <$> l).
Definition mk_bb (n : string) (i o : list string) := {| bb_name := n; bb_in := list_to_set i; bb_out := list_to_set o |}.
Definition mk (name : string) (l : list (string * gtype * bool * list string)) (b : list (string * bbdef)) : Circuit :=
  {| c_name := name; c_g := mk_g l; c_bbs := list_to_map b |}.
Definition bad_indices {A} (f : A → bool) (l : list A) : list nat :=
  (λ p, p.1) <$> filter (λ p, f p.2 = false) (imap (λ i x, (i, x)) l).
Notation T := true (only parsing).
Notation F := false (only parsing).
Definition mk_val (l : list string) : string → bool := λ n, bool_decide (n ∈ (list_to_set l : gset string)).
