(* L1 disjoint union, L2 injective renaming. DESIGN.md A.7 *)
From stdpp Require Import strings gmap sets fin_sets.
From CG Require Export Sem Fold.
Open Scope string_scope.

Section rename.
  Context (ρ : string → string) `{!Inj (=) (=) ρ}.

  Definition ren_info (i : ninfo) : ninfo :=
    {| n_ty := n_ty i; n_out := n_out i; n_fi := set_map ρ (n_fi i) |}.
  Definition rename (c : circuit) : circuit := kmap ρ (ren_info <$> c).

  Lemma elements_set_map_perm (s : gset string) :
    elements (set_map ρ s : gset string) ≡ₚ ρ <$> elements s.
  Proof.
    induction s as [|x s Hx IH] using set_ind_L.
    - by rewrite set_map_empty, !elements_empty.
    - rewrite set_map_union_L, set_map_singleton_L.
      rewrite !elements_union_singleton; [|done|].
      + simpl. by rewrite IH.
      + intros [y [Hy Hin]]%elem_of_map. apply (inj ρ) in Hy. by subst.
  Qed.

  Lemma gate_val_rename t (v : val) (s : gset string) :
    gate_val t v (set_map ρ s) = gate_val t (v ∘ ρ) s.
  Proof.
    unfold gate_val. f_equal. fold (gfold t).
    change (gfold t (v <$> elements (set_map ρ s : gset string)) = gfold t ((v ∘ ρ) <$> elements s)).
    rewrite (gfold_perm t _ (v <$> (ρ <$> elements s))).
    - by rewrite <- list_fmap_compose.
    - apply fmap_Permutation, elements_set_map_perm.
  Qed.

  Lemma set_map_empty_iff (s : gset string) : (set_map ρ s : gset string) = ∅ ↔ s = ∅.
  Proof.
    split; [|intros ->; apply set_map_empty].
    intros H. apply set_eq. intros x. split; [|set_solver]. intros Hx. exfalso.
    assert (ρ x ∈ (set_map ρ s : gset string)) as Hin by (apply elem_of_map; eauto).
    rewrite H in Hin. set_solver.
  Qed.
  Lemma is_free_rename i : is_free (ren_info i) = is_free i.
  Proof.
    unfold is_free, ren_info; simpl. destruct (n_ty i); try done; apply bool_decide_ext, set_map_empty_iff.
  Qed.

  (* L2: consistent valuations of the renamed circuit are exactly the pull-backs *)
  Lemma consistent_rename c v : consistent (rename c) v ↔ consistent c (v ∘ ρ).
  Proof.
    unfold consistent, rename. split.
    - intros H n i Hn. specialize (H (ρ n) (ren_info i)).
      assert (Hk : (kmap ρ (ren_info <$> c) : circuit) !! ρ n = Some (ren_info i)).
      { rewrite lookup_kmap by apply _. by rewrite lookup_fmap, Hn. }
      specialize (H Hk). clear Hk.
      unfold node_ok in *. rewrite is_free_rename in H. destruct (is_free i); [done|].
      cbn [n_ty n_fi ren_info] in H. destruct (n_ty i); rewrite ?gate_val_rename in H; exact H.
    - intros H n' i' Hn'. apply lookup_kmap_Some in Hn' as (n & -> & Hn); [|done].
      rewrite lookup_fmap in Hn. destruct (c !! n) as [i|] eqn:Hc; simplify_eq/=.
      specialize (H n i Hc). unfold node_ok in *. rewrite is_free_rename. destruct (is_free i); [done|].
      cbn [n_ty n_fi ren_info]. destruct (n_ty i); rewrite ?gate_val_rename; exact H.
  Qed.
End rename.

(* L1: disjoint union *)
Lemma consistent_union c d v : dom c ## dom d →
  consistent (c ∪ d) v ↔ consistent c v ∧ consistent d v.
Proof.
  intros Hd. apply map_disjoint_dom in Hd. unfold consistent. split.
  - intros H. split; intros n i Hn; apply H.
    + by apply lookup_union_Some_l.
    + by apply lookup_union_Some_r.
  - intros [Hc Hdd] n i [Hn|Hn]%lookup_union_Some; eauto.
Qed.
