(* AC folds of gate operators; operand regrouping (L5). DESIGN.md A.2 *)
From stdpp Require Import strings gmap sets fin_sets.
From CG Require Export Sem.
Open Scope string_scope.

Lemma g_op_comm t a b : g_op t a b = g_op t b a. Proof. destruct t, a, b; reflexivity. Qed.
Lemma g_op_assoc t a b c : g_op t a (g_op t b c) = g_op t (g_op t a b) c. Proof. destruct t, a, b, c; reflexivity. Qed.
Lemma g_op_unit t a : g_op t a (g_unit t) = a. Proof. destruct t, a; reflexivity. Qed.

Definition gfold t (l : list bool) := foldr (g_op t) (g_unit t) l.
Lemma gfold_perm t l1 l2 : l1 ≡ₚ l2 → gfold t l1 = gfold t l2.
Proof.
  intros H. unfold gfold. apply (foldr_permutation (=) (g_op t) (g_unit t)); [|done].
  intros. rewrite !g_op_assoc. f_equal. apply g_op_comm.
Qed.

Lemma gfold_split t v (s : gset string) f : f ∈ s →
  gfold t (v <$> elements s) = g_op t (v f) (gfold t (v <$> elements (s ∖ {[f]}))).
Proof.
  intros Hf.
  rewrite (gfold_perm t (v <$> elements s) (v <$> (f :: elements (s ∖ {[f]})))); [done|].
  apply fmap_Permutation. rewrite <- elements_union_singleton by set_solver.
  f_equiv. (* elements respects ≡ *) 
  rewrite <- union_difference_singleton_L; done.
Qed.

(* L5: regrouping two operands f0 f1 of n behind a fresh node m computing the non-inverted base op *)
Lemma regroup t v (s : gset string) f0 f1 m :
  f0 ∈ s → f1 ∈ s → f0 ≠ f1 → m ∉ s →
  v m = g_op t (v f0) (v f1) →
  gate_val t v ({[m]} ∪ (s ∖ {[f0; f1]})) = gate_val t v s.
Proof.
  intros H0 H1 Hne Hm Hv.
  change (xorb (g_inv t) (gfold t (v <$> elements ({[m]} ∪ s ∖ {[f0; f1]}))) = xorb (g_inv t) (gfold t (v <$> elements s))). f_equal.
  rewrite (gfold_split t v _ m) by set_solver.
  rewrite (gfold_split t v s f0) by done.
  rewrite (gfold_split t v (s ∖ {[f0]}) f1) by set_solver.
  rewrite Hv, g_op_assoc. f_equal.
  f_equal. f_equal. f_equal. apply leibniz_equiv. set_solver.
Qed.
