(* Executable helpers shared by the property oracles (Run/*.v): decidable consistency, a checked
   acyclicity certificate, evaluation with size-derived fuel, enumeration of valuations.
   Every boolean here comes with the lemma that ties it to the Prop it decides, so an oracle verdict
   is a statement about `consistent` / `acyclic`, not about an ad-hoc simulator. *)
From stdpp Require Import strings gmap sets fin_sets.
From CG Require Export Sem.
Open Scope string_scope.

(* ---- decidable consistency ---- *)
Definition node_okb (v : val) (n : string) (i : ninfo) : bool :=
  if is_free i then true else
  match n_ty i with C0 => negb (v n) | C1 => v n | t => eqb (v n) (gate_val t v (n_fi i)) end.
Definition consistentb (c : circuit) (v : val) : bool :=
  forallb (λ p, node_okb v p.1 p.2) (map_to_list c).

Lemma node_okb_spec v n i : node_okb v n i = true ↔ node_ok v n i.
Proof.
  unfold node_okb, node_ok. destruct (is_free i); [done|].
  destruct (n_ty i); rewrite ?eqb_true_iff, ?negb_true_iff; done.
Qed.
Lemma consistentb_spec c v : consistentb c v = true ↔ consistent c v.
Proof.
  unfold consistentb, consistent. rewrite forallb_forall. split.
  - intros H n i Hn. apply node_okb_spec. apply (H (n, i)). by apply elem_of_list_In, elem_of_map_to_list.
  - intros H [n i] Hin. apply node_okb_spec, H. by apply elem_of_map_to_list, elem_of_list_In.
Qed.

(* ---- acyclicity certificate: a rank table computed by relaxation, then checked ---- *)
Definition rank_of (r : gmap string nat) (n : string) : nat := default 0 (r !! n).
Definition relax (c : circuit) (r : gmap string nat) : gmap string nat :=
  map_imap (λ n i, Some (set_fold (λ f acc, max acc (S (rank_of r f))) 0 (n_fi i))) c.
Fixpoint relax_n (k : nat) (c : circuit) (r : gmap string nat) : gmap string nat :=
  match k with O => r | S k => relax_n k c (relax c r) end.
Definition rank_table (c : circuit) : gmap string nat := relax_n (S (size c)) c ∅.
Definition check_rank (c : circuit) (r : gmap string nat) : bool :=
  bool_decide (map_Forall (λ n i, set_Forall (λ f, rank_of r f < rank_of r n) (n_fi i)) c).
Definition acyclicb (c : circuit) : bool := check_rank c (rank_table c).

Lemma check_rank_sound c r : check_rank c r = true → acyclic c.
Proof.
  unfold check_rank. rewrite bool_decide_eq_true. intros H. exists (rank_of r).
  intros n i f Hn Hf. exact (H n i Hn f Hf).
Qed.
Lemma acyclicb_sound c : acyclicb c = true → acyclic c.
Proof. apply check_rank_sound. Qed.

(* ---- evaluation with size-derived fuel; certified per use by consistentb ---- *)
Definition evalc (c : circuit) (a : val) : val := eval (S (S (size c))) c a.
(* when the result is consistent it is THE consistent valuation extending a on the free nodes *)
Lemma evalc_unique c a v : closed c → acyclic c → consistentb c (evalc c a) = true →
  consistent c v → agrees (free_nodes c) v a → agrees (dom c) v (evalc c a).
Proof.
  intros Hcl [rank Hr] Hc%consistentb_spec Hv Ha.
  eapply (consistent_unique c rank Hr); eauto.
  intros n Hn. rewrite Ha by done.
  unfold free_nodes in Hn. apply elem_of_dom in Hn as [i Hi].
  apply map_filter_lookup_Some in Hi as [Hi Hf]. symmetry. unfold evalc. by eapply eval_free.
Qed.

(* ---- valuations as lists of the names that are 1; enumeration of all valuations of a name list ---- *)
Definition val_of (ones : list string) : val := λ n, bool_decide (n ∈ (list_to_set ones : gset string)).
Fixpoint subsets (l : list string) : list (list string) :=
  match l with [] => [[]] | x :: r => let s := subsets r in s ++ ((x ::.) <$> s) end.
Definition all_vals (l : list string) : list val := val_of <$> subsets l.
Definition override (a : val) (l : list (string * bool)) : val :=
  λ n, match list_find (λ p, p.1 = n) l with Some (_, p) => p.2 | None => a n end.
Definition eq_on (l : list string) (v v' : val) : bool := forallb (λ n, eqb (v n) (v' n)) l.
Lemma eq_on_spec l v v' : eq_on l v v' = true ↔ ∀ n, n ∈ l → v n = v' n.
Proof.
  unfold eq_on. rewrite forallb_forall. setoid_rewrite eqb_true_iff. setoid_rewrite <- elem_of_list_In. done.
Qed.

Lemma subsets_sub r t : t ∈ subsets r → ∀ n, n ∈ t → n ∈ r.
Proof.
  revert t. induction r as [|y r IH]; simpl; intros t Ht n Hn.
  - apply elem_of_list_singleton in Ht. subst. by apply elem_of_nil in Hn.
  - apply elem_of_app in Ht as [Ht|Ht]; [right; by eapply IH|].
    apply elem_of_list_fmap in Ht as (t' & -> & Ht'). apply elem_of_cons in Hn as [->|Hn]; [left|right; by eapply IH].
Qed.
Lemma subsets_complete l (P : string → bool) : ∃ s', s' ∈ subsets l ∧ ∀ n, n ∈ l → (n ∈ s' ↔ P n = true).
Proof.
  induction l as [|x r (s' & Hin & Heq)].
  - exists []. split; [by apply elem_of_list_singleton|]. intros n Hn. by apply elem_of_nil in Hn.
  - destruct (decide (x ∈ r)) as [Hxr|Hxr].
    + exists s'. split; [simpl; apply elem_of_app; by left|]. intros n Hn. apply Heq.
      apply elem_of_cons in Hn as [->|Hn]; done.
    + destruct (P x) eqn:Hx.
      * exists (x :: s'). split; [simpl; apply elem_of_app; right; by apply elem_of_list_fmap_1|].
        intros n Hn. rewrite elem_of_cons. apply elem_of_cons in Hn as [->|Hn]; [tauto|].
        rewrite (Heq n Hn). split; [intros [->|?]; done|]. by right.
      * exists s'. split; [simpl; apply elem_of_app; by left|]. intros n Hn.
        apply elem_of_cons in Hn as [->|Hn]; [|by apply Heq].
        split; [|congruence]. intros Hin'. exfalso. apply Hxr. by eapply subsets_sub.
Qed.

(* every valuation coincides on l with one of the enumerated ones *)
Lemma all_vals_complete l (v : val) : ∃ w, w ∈ all_vals l ∧ ∀ n, n ∈ l → w n = v n.
Proof.
  destruct (subsets_complete l v) as (s' & Hin & Heq).
  exists (val_of s'). split; [unfold all_vals; by apply elem_of_list_fmap_1|].
  intros n Hn. unfold val_of. specialize (Heq n Hn).
  destruct (v n) eqn:E.
  - apply bool_decide_eq_true. rewrite elem_of_list_to_set. tauto.
  - apply bool_decide_eq_false. rewrite elem_of_list_to_set. intros H. apply Heq in H. done.
Qed.
