(* Semantic core: consistent valuations of a circuit, executable evaluation, unique extension
   on acyclic circuits.  (Validated in DESIGN.md appendix A.1.) *)
From stdpp Require Import strings gmap sets fin_sets.
From CG Require Export Types.
Open Scope string_scope.

Definition val := string → bool.

(* op / unit / inverted view *)
Definition g_op (t : gtype) : bool → bool → bool :=
  match t with And | Nand => andb | Or | Nor => orb | _ => xorb end.
Definition g_unit (t : gtype) : bool := match t with And | Nand => true | _ => false end.
Definition g_inv (t : gtype) : bool := match t with Nand | Nor | Xnor | Not => true | _ => false end.
Definition is_gate (t : gtype) : bool :=
  match t with Buf | And | Or | Xor | Not | Nand | Nor | Xnor | BbIn => true | _ => false end.
(* buf/not/bb_input: xor-fold over the (single) operand = the operand itself, so one formula serves all gates *)
Definition gate_val (t : gtype) (v : val) (s : gset string) : bool :=
  xorb (g_inv t) (foldr (g_op t) (g_unit t) (v <$> elements s)).

(* free nodes: inputs, blackbox outputs, x constants, and undriven single-operand nodes (as in sat.cnf) *)
Definition is_free (i : ninfo) : bool :=
  match n_ty i with
  | Input | BbOut | CX => true
  | Buf | Not | BbIn => bool_decide (n_fi i = ∅)
  | _ => false end.

Definition node_ok (v : val) (n : string) (i : ninfo) : Prop :=
  if is_free i then True else
  match n_ty i with C0 => v n = false | C1 => v n = true | t => v n = gate_val t v (n_fi i) end.
Definition consistent (c : circuit) (v : val) : Prop := ∀ n i, c !! n = Some i → node_ok v n i.

Definition agrees (S : gset string) (v v' : val) : Prop := ∀ n, n ∈ S → v n = v' n.
Definition free_nodes (c : circuit) : gset string := dom (filter (λ p, is_free p.2 = true) c).
Definition acyclic (c : circuit) : Prop :=
  ∃ rank : string → nat, ∀ n i f, c !! n = Some i → f ∈ n_fi i → rank f < rank n.

Lemma gate_val_ext t v v' s : agrees s v v' → gate_val t v s = gate_val t v' s.
Proof.
  intros H. unfold gate_val. f_equal. f_equal.
  apply list_fmap_ext. intros ? x Hx. apply H. apply elem_of_elements. by eapply elem_of_list_lookup_2.
Qed.

(* executable evaluation *)
Fixpoint eval (fuel : nat) (c : circuit) (a : val) (n : string) : bool :=
  match fuel with
  | O => a n
  | S f => match c !! n with
           | None => a n
           | Some i => if is_free i then a n else
                       match n_ty i with C0 => false | C1 => true | t => gate_val t (eval f c a) (n_fi i) end
           end
  end.

Section acyc.
  Context (c : circuit) (rank : string → nat).
  Hypothesis Hrank : ∀ n i f, c !! n = Some i → f ∈ n_fi i → rank f < rank n.

  Lemma eval_stable_aux a : ∀ k n f f', rank n = k → rank n < f → rank n < f' → eval f c a n = eval f' c a n.
  Proof.
    intros k. induction (lt_wf k) as [k _ IH]. intros n f f' <- Hf Hf'.
    destruct f as [|f]; [lia|]. destruct f' as [|f']; [lia|]. simpl.
    destruct (c !! n) as [i|] eqn:Hn; [|done].
    destruct (is_free i); [done|].
    assert (Hg : ∀ t, gate_val t (eval f c a) (n_fi i) = gate_val t (eval f' c a) (n_fi i)).
    { intros t. apply gate_val_ext. intros x Hx. pose proof (Hrank n i x Hn Hx).
      eapply (IH (rank x)); [lia|reflexivity|lia|lia]. }
    destruct (n_ty i); auto.
  Qed.
  Lemma eval_stable a f f' n : rank n < f → rank n < f' → eval f c a n = eval f' c a n.
  Proof. by apply eval_stable_aux with (k := rank n). Qed.

  Lemma eval_consistent a B : (∀ n, n ∈ dom c → rank n < B) → closed c → consistent c (eval (S B) c a).
  Proof.
    intros HB Hcl n i Hn. unfold node_ok.
    assert (Hfix : eval (S B) c a n = if is_free i then a n else
              match n_ty i with C0 => false | C1 => true | t => gate_val t (eval B c a) (n_fi i) end).
    { simpl. by rewrite Hn. }
    destruct (is_free i) eqn:Hfree; [done|].
    assert (Hg : ∀ t, gate_val t (eval B c a) (n_fi i) = gate_val t (eval (S B) c a) (n_fi i)).
    { intros t. apply gate_val_ext. intros x Hx.
      assert (x ∈ dom c) by (eapply Hcl; eauto).
      pose proof (Hrank n i x Hn Hx). assert (rank n < B) by (apply HB; by apply elem_of_dom).
      apply eval_stable; lia. }
    rewrite Hfix. destruct (n_ty i); auto.
  Qed.

  Lemma eval_free a f n i : c !! n = Some i → is_free i = true → eval (S f) c a n = a n.
  Proof. intros Hn Hf. simpl. by rewrite Hn, Hf. Qed.

  Lemma consistent_unique v v' : closed c → consistent c v → consistent c v' →
    agrees (free_nodes c) v v' → agrees (dom c) v v'.
  Proof.
    intros Hcl Hv Hv' Hfree.
    assert (∀ k n, rank n = k → n ∈ dom c → v n = v' n) as Haux; [|by intros n; eapply Haux].
    intros k. induction (lt_wf k) as [k _ IH]. intros n <- Hd.
    apply elem_of_dom in Hd as [i Hn].
    pose proof (Hv n i Hn) as H1. pose proof (Hv' n i Hn) as H2. unfold node_ok in *.
    destruct (is_free i) eqn:Hf.
    - apply Hfree. unfold free_nodes. apply elem_of_dom. exists i. by apply map_filter_lookup_Some.
    - assert (Hg : ∀ t, gate_val t v (n_fi i) = gate_val t v' (n_fi i)).
      { intros t. apply gate_val_ext. intros x Hx. eapply (IH (rank x)); [eauto|reflexivity|eauto]. }
      destruct (n_ty i); rewrite ?H1, ?H2; auto.
  Qed.
End acyc.

Theorem unique_extension c : closed c → acyclic c →
  ∀ a : val, ∃ v, consistent c v ∧ agrees (free_nodes c) v a ∧
     ∀ v', consistent c v' → agrees (free_nodes c) v' a → agrees (dom c) v v'.
Proof.
  intros Hcl [rank Hrank] a.
  assert (HB : ∃ B, ∀ n, n ∈ dom c → rank n < B).
  { clear. induction c as [|n i m Hn IH] using map_ind.
    - exists 0. set_solver.
    - destruct IH as [B HB]. exists (S (max B (rank n))). intros x. rewrite dom_insert, elem_of_union, elem_of_singleton.
      intros [->|Hx]; [lia|]. specialize (HB x Hx). lia. }
  destruct HB as [B HB].
  exists (eval (S B) c a). split; [|split].
  - by eapply eval_consistent.
  - intros n Hn. unfold free_nodes in Hn. apply elem_of_dom in Hn as [i Hi].
    apply map_filter_lookup_Some in Hi as [Hi Hf]. by eapply eval_free.
  - intros v' Hv' Ha. eapply consistent_unique; eauto; [by eapply eval_consistent|].
    intros n Hn. rewrite Ha by done.
    unfold free_nodes in Hn. apply elem_of_dom in Hn as [i Hi].
    apply map_filter_lookup_Some in Hi as [Hi Hf]. by eapply eval_free.
Qed.
