(* Carrier types of the circuitgraph model: node types, node records, graphs, blackbox registry.
   A networkx DiGraph with node attributes `type`/`output` is a finite map from names to
   (type, output mark, fan-in set); fan-out is derived. *)
From stdpp Require Export strings gmap sets fin_sets pretty.
Open Scope string_scope.

(* Unsup: a `type` attribute outside supported_types; NoTy: no `type` attribute at all
   (both only constructible directly on the DiGraph; relevant for lint, C20, C07) *)
Inductive gtype := Buf | And | Or | Xor | Not | Nand | Nor | Xnor | C0 | C1 | CX | Input | BbIn | BbOut | Unsup | NoTy.
Global Instance gtype_eq_dec : EqDecision gtype. Proof. solve_decision. Defined.
Record ninfo := { n_ty : gtype; n_out : bool; n_fi : gset string }.
Global Instance ninfo_eq_dec : EqDecision ninfo. Proof. solve_decision. Defined.
Notation circuit := (gmap string ninfo).
Record bbdef := { bb_name : string; bb_in : gset string; bb_out : gset string }.
Global Instance bbdef_eq_dec : EqDecision bbdef. Proof. solve_decision. Defined.
Record Circuit := { c_name : string; c_g : circuit; c_bbs : gmap string bbdef }.
Global Instance Circuit_eq_dec : EqDecision Circuit. Proof. solve_decision. Defined.

Inductive exn := ValueError | KeyError | IndexError | NotImplementedError | StopIteration | OtherError.
Global Instance exn_eq_dec : EqDecision exn. Proof. solve_decision. Defined.
(* result of a model function: value, Python exception, malformed recorded order, fuel exhausted *)
Inductive res (A : Type) := Ok (a : A) | Raise (e : exn) | BadOrder | OutOfFuel.
Arguments Ok {A}. Arguments Raise {A}. Arguments BadOrder {A}. Arguments OutOfFuel {A}.
Global Instance res_eq_dec `{EqDecision A} : EqDecision (res A). Proof. solve_decision. Defined.
Definition rbind {A B} (x : res A) (f : A → res B) : res B :=
  match x with Ok a => f a | Raise e => Raise e | BadOrder => BadOrder | OutOfFuel => OutOfFuel end.
Definition rmap {A B} (f : A → B) (x : res A) : res B := rbind x (λ a, Ok (f a)).

Definition with_g (C : Circuit) (g : circuit) := {| c_name := c_name C; c_g := g; c_bbs := c_bbs C |}.
Definition with_bbs (C : Circuit) b := {| c_name := c_name C; c_g := c_g C; c_bbs := b |}.
Definition with_name (C : Circuit) s := {| c_name := s; c_g := c_g C; c_bbs := c_bbs C |}.

(* ---- queries ---- *)
Definition fanin (c : circuit) (n : string) : gset string := default ∅ (n_fi <$> c !! n).
Definition fanout (c : circuit) (n : string) : gset string := dom (filter (λ p, n ∈ n_fi p.2) c).
Definition ty (c : circuit) (n : string) : option gtype := n_ty <$> (c !! n).
Definition of_type (c : circuit) (P : gtype → bool) : gset string := dom (filter (λ p, P (n_ty p.2) = true) c).
Definition is_ty (t u : gtype) : bool := bool_decide (t = u).
Definition inputs (c : circuit) : gset string := of_type c (is_ty Input).
Definition outputs (c : circuit) : gset string := dom (filter (λ p, n_out p.2 = true) c).
Definition startpoints (c : circuit) : gset string := of_type c (λ t, is_ty Input t || is_ty BbOut t).
Definition endpoints (c : circuit) : gset string := outputs c ∪ of_type c (is_ty BbIn).
Definition closed (c : circuit) : Prop := ∀ n i f, c !! n = Some i → f ∈ n_fi i → f ∈ dom c.
Definition closedb (c : circuit) : bool :=
  bool_decide (map_Forall (λ _ i, n_fi i ⊆ dom c) c).
Definition bb_free (C : Circuit) : Prop := c_bbs C = ∅.
Definition no_x (c : circuit) : Prop := of_type c (is_ty CX) = ∅.

Definition upd_fi (f : gset string → gset string) (i : ninfo) := {| n_ty := n_ty i; n_out := n_out i; n_fi := f (n_fi i) |}.
Definition retype (t : gtype) (i : ninfo) := {| n_ty := t; n_out := n_out i; n_fi := n_fi i |}.
Definition set_out (b : bool) (i : ninfo) := {| n_ty := n_ty i; n_out := b; n_fi := n_fi i |}.
Definition unmark (i : ninfo) := set_out false i.
Definition mk_node (t : gtype) (o : bool) (fi : gset string) := {| n_ty := t; n_out := o; n_fi := fi |}.

Lemma closedb_spec c : closedb c = true ↔ closed c.
Proof.
  unfold closedb, closed. rewrite bool_decide_eq_true. unfold map_Forall. split.
  - intros H n i f Hn Hf. eapply H; eauto.
  - intros H n i Hn f Hf. eapply H; eauto.
Qed.

Lemma elem_of_fanin c n f : f ∈ fanin c n ↔ ∃ i, c !! n = Some i ∧ f ∈ n_fi i.
Proof.
  unfold fanin. destruct (c !! n) as [i|]; simpl.
  - split; [eauto|]. by intros (? & [= <-] & ?).
  - split; [set_solver|]. by intros (? & ? & _).
Qed.
Lemma elem_of_fanout c n m : m ∈ fanout c n ↔ ∃ i, c !! m = Some i ∧ n ∈ n_fi i.
Proof.
  unfold fanout. rewrite elem_of_dom. split.
  - intros [i Hi]. apply map_filter_lookup_Some in Hi as [? ?]. eauto.
  - intros (i & ? & ?). exists i. by apply map_filter_lookup_Some.
Qed.
Lemma elem_of_of_type c P n : n ∈ of_type c P ↔ ∃ i, c !! n = Some i ∧ P (n_ty i) = true.
Proof.
  unfold of_type. rewrite elem_of_dom. split.
  - intros [i Hi]. apply map_filter_lookup_Some in Hi as [? ?]. eauto.
  - intros (i & ? & ?). exists i. by apply map_filter_lookup_Some.
Qed.
Lemma elem_of_outputs c n : n ∈ outputs c ↔ ∃ i, c !! n = Some i ∧ n_out i = true.
Proof.
  unfold outputs. rewrite elem_of_dom. split.
  - intros [i Hi]. apply map_filter_lookup_Some in Hi as [? ?]. eauto.
  - intros (i & ? & ?). exists i. by apply map_filter_lookup_Some.
Qed.
Lemma elem_of_inputs c n : n ∈ inputs c ↔ ∃ i, c !! n = Some i ∧ n_ty i = Input.
Proof.
  unfold inputs. rewrite elem_of_of_type. unfold is_ty. setoid_rewrite bool_decide_eq_true.
  split; intros (i & ? & ?); eauto.
Qed.
