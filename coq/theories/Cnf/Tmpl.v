(* Tseitin clause templates for and/nand/or/nor, all arities. DESIGN.md A.6 *)
From stdpp Require Import strings gmap sets fin_sets.
From CG Require Export Sem Fold.
Open Scope string_scope.

Definition lit := (bool * string)%type.          (* (sign, variable) *)
Definition clause := list lit.
Definition asg := string → bool.
Definition sat_lit (a : asg) (l : lit) : bool := eqb (a l.2) l.1.
Definition sat_clause (a : asg) (cl : clause) : bool := existsb (sat_lit a) cl.
Definition sat_cnf (a : asg) (f : list clause) : bool := forallb (sat_clause a) f.

(* templates as the translator would emit them: signs only *)
Record tmpl := { per_n : bool; per_f : bool; all_n : bool; all_f : bool }.
Definition tmpl_of (t : gtype) : option tmpl :=
  match t with
  | And  => Some {| per_n := false; per_f := true;  all_n := true;  all_f := false |}
  | Nand => Some {| per_n := true;  per_f := true;  all_n := false; all_f := false |}
  | Or   => Some {| per_n := true;  per_f := false; all_n := false; all_f := true  |}
  | Nor  => Some {| per_n := false; per_f := false; all_n := true;  all_f := true  |}
  | _ => None end.
Definition inst (tm : tmpl) (n : string) (fs : list string) : list clause :=
  map (λ f, [(per_n tm, n); (per_f tm, f)]) fs ++ [ (all_n tm, n) :: map (λ f, (all_f tm, f)) fs ].

(* semantic correctness condition on a template, decidable by inspection of 4 booleans *)
Definition tmpl_ok (t : gtype) (tm : tmpl) : bool :=
  let cv := negb (g_unit t) in                      (* controlling operand value *)
  let out_cv := xorb (g_inv t) cv in                (* output when some operand is controlling *)
  eqb (per_f tm) (negb cv) && eqb (per_n tm) out_cv && eqb (all_f tm) cv && eqb (all_n tm) (negb out_cv).

Definition is_andor (t : gtype) : bool := match t with And | Nand | Or | Nor => true | _ => false end.
Lemma gfold_and_or t (l : list bool) : is_andor t = true →
  gfold t l = if existsb (eqb (negb (g_unit t))) l then negb (g_unit t) else g_unit t.
Proof.
  intros Hop. unfold gfold. induction l as [|b l IH]; simpl; [done|].
  rewrite IH. clear IH.
  destruct t; try discriminate; simpl; destruct b; simpl; try done; by destruct (existsb _ l).
Qed.

Section inst.
  Context (a : asg) (n : string) (cv oc : bool).
  Lemma per_clauses fs :
    forallb (sat_clause a) (map (λ f, [(oc, n); (negb cv, f)]) fs)
    = if existsb (eqb cv) (a <$> fs) then eqb (a n) oc else true.
  Proof.
    induction fs as [|f fs IH]; simpl; [done|]. rewrite IH. clear IH.
    unfold sat_clause, sat_lit; simpl.
    destruct (a n), (a f), cv, oc, (existsb _ _); reflexivity.
  Qed.
  Lemma all_clause fs :
    sat_clause a ((negb oc, n) :: map (λ f, (cv, f)) fs)
    = eqb (a n) (negb oc) || existsb (eqb cv) (a <$> fs).
  Proof.
    unfold sat_clause. simpl. f_equal. 
    induction fs as [|f fs IH]; simpl; [done|]. rewrite IH. f_equal.
    unfold sat_lit; simpl. destruct (a f), cv; reflexivity.
  Qed.
End inst.

Lemma inst_correct t tm a n fs :
  is_andor t = true → tmpl_ok t tm = true →
  sat_cnf a (inst tm n fs) = eqb (a n) (xorb (g_inv t) (gfold t (a <$> fs))).
Proof.
  intros Hop Hok. rewrite (gfold_and_or t) by done.
  unfold tmpl_ok in Hok. apply andb_true_iff in Hok as [Hok H4]. apply andb_true_iff in Hok as [Hok H3].
  apply andb_true_iff in Hok as [H1 H2]. apply eqb_prop in H1, H2, H3, H4.
  unfold inst, sat_cnf. rewrite forallb_app. cbn [forallb]. rewrite andb_true_r.
  rewrite H1, H2, H3, H4. clear H1 H2 H3 H4.
  rewrite per_clauses, all_clause.
  destruct (existsb _ _), (a n), (g_inv t), (g_unit t); reflexivity.
Qed.

Lemma tmpl_table_ok : forallb (λ t, match tmpl_of t with Some tm => tmpl_ok t tm | None => true end)
  [And; Nand; Or; Nor] = true.
Proof. vm_compute. reflexivity. Qed.
