(* Types of the tables that gen/plugins/cnf.py regenerates from sat.cnf (Gen/Gen_cnf.v).
   A clause template is a list of signed literals over *roles*; the model instantiates roles by variables. *)
From stdpp Require Import strings.
From CG Require Import Types.

(* RN: the node n;  RF: the operand f of the loop / of `pop()`;  RA RB RC: the parameters of xor_clauses(a, b, c);
   RI: the inversion net ("xor_inv", n) *)
Inductive role := RN | RF | RA | RB | RC | RI.
Global Instance role_eq_dec : EqDecision role. Proof. solve_decision. Defined.
Definition tlit := (bool * role)%type.          (* (sign, role): true = positive literal *)
Definition tclause := list tlit.

Inductive branch :=
| BMulti (per_n per_f all_n all_f : bool)   (* for f in fanin: [per_n n, per_f f];  then [all_n n] + [all_f f for f in fanin] *)
| BSingle (cls : list tclause)              (* if c.fanin(n): f = c.fanin(n).pop(); clauses over RN, RF *)
| BParity                                   (* the xor chain; final step decided by `n_type == "xor"` *)
| BUnit (cls : list tclause).               (* clauses over RN only (constants, inputs) *)

Record cnf_tables := {
  t_demote : list (gtype * gtype);          (* type -> type used when the node has exactly one operand *)
  t_branches : list (gtype * branch);       (* the if/elif chain, in source order; no entry = the else branch *)
  t_xor : list tclause;                     (* body of xor_clauses(a, b, c) over RA RB RC *)
  t_xnor_inv : list tclause;                (* clauses tying n to the inversion net, over RN RI *)
  t_else : exn }.                           (* what the else branch raises *)
