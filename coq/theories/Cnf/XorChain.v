(* sat.cnf parity gates: chain of 2-input xors over auxiliary variables (structured keys, i.e. after the fix of defect 1) *)
From Coq Require Import String List Bool Arith Lia.
Import ListNotations.

Inductive var := VN (n : string) | VX (a b : var) | VI (n : string).
Definition lit := (bool * var)%type.
Definition clause := list lit.
Definition asg := var -> bool.
Definition sat_lit (a : asg) (l : lit) : bool := eqb (a (snd l)) (fst l).
Definition sat_clause (a : asg) (cl : clause) : bool := existsb (sat_lit a) cl.
Definition sat_cnf (a : asg) (f : list clause) : bool := forallb (sat_clause a) f.

(* xor_clauses(a, b, c) in the source: c = a xor b *)
Definition xor3 (x y c : var) : list clause :=
  [ [(false,c);(false,y);(false,x)]; [(false,c);(true,y);(true,x)]; [(true,c);(false,y);(true,x)]; [(true,c);(true,y);(false,x)] ].
Lemma xor3_sat a x y c : sat_cnf a (xor3 x y c) = eqb (a c) (xorb (a x) (a y)).
Proof. unfold xor3, sat_cnf, sat_clause, sat_lit; simpl. destruct (a c), (a x), (a y); reflexivity. Qed.

Lemma sat_cnf_app a f g : sat_cnf a (f ++ g) = sat_cnf a f && sat_cnf a g.
Proof. apply forallb_app. Qed.

(* the while loop, on the reversed list r = rev nets: nets[-1] = hd r, nets[-2] = second *)
Fixpoint chain (fuel : nat) (r : list var) : list var * list clause :=
  match fuel with O => (r, []) | S f =>
    match r with
    | y :: x :: (_ :: _) as rest' =>
        let rest := tl (tl r) in
        let res := chain f (rest ++ [VX x y]) in (fst res, xor3 x y (VX x y) ++ snd res)
    | _ => (r, []) end end.

Definition parity (a : asg) (l : list var) : bool := fold_right (fun v acc => xorb (a v) acc) false l.
Lemma parity_app a l1 l2 : parity a (l1 ++ l2) = xorb (parity a l1) (parity a l2).
Proof. induction l1; simpl; [destruct (parity a l2); reflexivity|]. rewrite IHl1. destruct (a a0), (parity a l1), (parity a l2); reflexivity. Qed.

(* the loop leaves exactly two nets when it starts with at least two *)
Lemma chain_two fuel r : 2 <= length r <= S (S fuel) -> length (fst (chain fuel r)) = 2.
Proof.
  revert r. induction fuel as [|f IH]; intros r Hl; simpl.
  - lia.
  - destruct r as [|y [|x [|z rest]]]; simpl in *; try lia.
    apply IH. simpl. rewrite app_length. simpl. lia.
Qed.

Lemma chain_sound a fuel r : sat_cnf a (snd (chain fuel r)) = true -> parity a (fst (chain fuel r)) = parity a r.
Proof.
  revert r. induction fuel as [|f IH]; intros r; [reflexivity|].
  destruct r as [|y [|x [|z rest]]]; cbn [chain tl fst snd]; try reflexivity.
  rewrite sat_cnf_app, xor3_sat. intros H. apply andb_true_iff in H as [H1 H2]. apply eqb_prop in H1.
  rewrite (IH _ H2). rewrite parity_app. simpl. rewrite H1.
  destruct (a x), (a y), (a z), (parity a rest); reflexivity.
Qed.

(* canonical extension of a node valuation to auxiliaries *)
Fixpoint ext (v : string -> bool) (x : var) : bool :=
  match x with VN n => v n | VX a b => xorb (ext v a) (ext v b) | VI n => negb (v n) end.
Lemma chain_complete v fuel r : sat_cnf (ext v) (snd (chain fuel r)) = true.
Proof.
  revert r. induction fuel as [|f IH]; intros r; [reflexivity|].
  destruct r as [|y [|x [|z rest]]]; cbn [chain tl fst snd]; try reflexivity.
  rewrite sat_cnf_app, xor3_sat, IH. simpl. rewrite eqb_reflx. reflexivity.
Qed.

(* the whole parity-gate encoding: ops = list(c.fanin(n)) in iteration order, at least two operands *)
Definition parity_gate (xnor : bool) (n : string) (ops : list string) : list clause :=
  let res := chain (length ops) (rev (map VN ops)) in
  match fst res with
  | [y; x] =>
      if xnor then snd res ++ xor3 x y (VI n) ++ [[(true, VN n); (true, VI n)]; [(false, VN n); (false, VI n)]]
      else snd res ++ xor3 x y (VN n)
  | _ => [] (* unreachable for >= 2 operands *) end.

Lemma parity_rev a l : parity a (rev l) = parity a l.
Proof. induction l; simpl; [reflexivity|]. rewrite parity_app, IHl. simpl. destruct (a a0), (parity a l); reflexivity. Qed.
Lemma parity_map_VN a ops : parity a (map VN ops) = fold_right (fun n acc => xorb (a (VN n)) acc) false ops.
Proof. induction ops; simpl; [reflexivity|]. rewrite IHops. reflexivity. Qed.

Theorem parity_gate_sound xnor n ops a : 2 <= length ops ->
  sat_cnf a (parity_gate xnor n ops) = true ->
  a (VN n) = xorb xnor (fold_right (fun m acc => xorb (a (VN m)) acc) false ops).
Proof.
  intros Hlen. unfold parity_gate.
  pose proof (chain_two (length ops) (rev (map VN ops))) as HL.
  rewrite rev_length, map_length in HL. specialize (HL ltac:(lia)).
  pose proof (chain_sound a (length ops) (rev (map VN ops))) as HS.
  rewrite parity_rev, parity_map_VN in HS.
  destruct (fst (chain (length ops) (rev (map VN ops)))) as [|y [|x [|z l]]] eqn:E; simpl in HL; try lia.
  destruct xnor.
  - rewrite !sat_cnf_app, xor3_sat. intros H. apply andb_true_iff in H as [H1 H]. apply andb_true_iff in H as [H2 H3].
    specialize (HS H1). simpl in HS. apply eqb_prop in H2.
    unfold sat_cnf, sat_clause, sat_lit in H3. simpl in H3.
    rewrite <- HS. destruct (a (VN n)), (a (VI n)), (a x), (a y); simpl in *; try discriminate; reflexivity.
  - rewrite sat_cnf_app, xor3_sat. intros H. apply andb_true_iff in H as [H1 H2].
    specialize (HS H1). simpl in HS. apply eqb_prop in H2. rewrite <- HS, H2. destruct (a x), (a y); reflexivity.
Qed.

Theorem parity_gate_complete xnor n ops v : 2 <= length ops ->
  v n = xorb xnor (fold_right (fun m acc => xorb (v m) acc) false ops) ->
  sat_cnf (ext v) (parity_gate xnor n ops) = true.
Proof.
  intros Hlen Hv. unfold parity_gate.
  pose proof (chain_two (length ops) (rev (map VN ops))) as HL.
  rewrite rev_length, map_length in HL. specialize (HL ltac:(lia)).
  pose proof (chain_sound (ext v) (length ops) (rev (map VN ops)) (chain_complete v _ _)) as HS.
  rewrite parity_rev, parity_map_VN in HS. simpl in HS.
  destruct (fst (chain (length ops) (rev (map VN ops)))) as [|y [|x [|z l]]] eqn:E; simpl in HL; try lia.
  simpl in HS. destruct xnor.
  - rewrite !sat_cnf_app, xor3_sat, chain_complete. simpl.
    unfold sat_clause, sat_lit. simpl. rewrite Hv, <- HS.
    destruct (ext v x), (ext v y); reflexivity.
  - rewrite sat_cnf_app, xor3_sat, chain_complete. simpl. rewrite Hv, <- HS.
    destruct (ext v x), (ext v y); reflexivity.
Qed.
