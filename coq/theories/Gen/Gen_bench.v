(* UNRECOGNISED source shape: bench: parity gate test changed *)
Definition unrecognised_shape : False := I.
