(* C18 model: tx.acyclic_unroll(c), written through the API model (copy, disconnect, add, add_subcircuit,
   connect, set_type, set_output, lint) in source order.  The feedback node set F -- the only thing the
   greedy heuristic `approx_min_fas` contributes -- is an argument: the theorems hold for every F whose cut
   is acyclic, and `fas_of_order` + `cut_acyclic_any_order` show that the code's own choice (sources of the
   back edges of SOME node order that lie on a cycle) always is.  Definitions only. *)
From stdpp Require Import strings gmap sets fin_sets pretty.
From CG Require Export Base.Api Base.Sem Base.Oracle Model.Lint.
Open Scope string_scope.

Definition cn (i : nat) : string := "c" ++ pretty (N.of_nat i).          (* f"c{i}" *)
Definition aux (f : string) : string := "aux_in_" ++ f.                   (* f"aux_in_{f}" *)

Definition lift {A B} (r : A * outcome) (k : A → res B) : res B :=
  match r with (a, Done) => k a | (_, Fail e) => Raise e end.
Definition af_output := {| af_out := true; af_conn := false; af_redef := false; af_uid := false |}.

Definition has_self_loop (c : circuit) : bool := existsb (λ p, bool_decide (p.1 ∈ n_fi p.2)) (map_to_list c).

(* c_cut: for every feedback node, all its loads are moved behind a new buffer aux_in_<f>; outputs unmarked *)
Definition cut_step (c0 : circuit) (st : circuit * outcome) (f : string) : circuit * outcome :=
  match st with
  | (g, Done) => let fo := elements (fanout c0 f) in
                 let g1 := disconnect_g g [f] fo in
                 let '(g2, o, _) := add_g g1 (aux f) Buf [] fo af_default in (g2, o)
  | _ => st end.
Definition cut_circuit (c : circuit) (F : list string) : circuit * outcome :=
  let '(g, o) := foldl (cut_step c) (c, Done) F in
  match o with Done => set_output_g g (elements (outputs c)) false | _ => (g, o) end.

(* one iteration of `for i in range(len(feedback) + 1)` *)
Definition copy_step (CUT : Circuit) (sp F : list string) (st : Circuit * outcome) (i : nat) : Circuit * outcome :=
  match st with
  | (A, Done) =>
      let '(A1, o1) := add_subcircuit A CUT (cn i) ((λ n, (n, [n])) <$> sp) in
      match o1 with
      | Done =>
          match i with
          | O => let '(g, o) := set_type_g (c_g A1) ((λ f, pre (cn 0) (aux f)) <$> F) Input in (with_g A1 g, o)
          | S j => let '(g, o) := foldl (λ st f, match st with
                                                 | (g, Done) => connect_g g [pre (cn j) f] [pre (cn i) (aux f)]
                                                 | _ => st end) (c_g A1, Done) F in (with_g A1 g, o)
          end
      | _ => (A1, o1) end
  | _ => st end.

Definition out_step (sp : gset string) (last : string) (st : circuit * outcome) (o : string) : circuit * outcome :=
  match st with
  | (g, Done) => if bool_decide (o ∈ sp) then set_output_g g [o] true
                 else let '(g', oc, _) := add_g g o Buf [pre last o] [] af_output in (g', oc)
  | _ => st end.

Definition add_inputs (g : circuit) (ns : list string) : circuit * outcome :=
  foldl (λ st n, match st with (g, Done) => let '(g', o, _) := add_g g n Input [] [] af_default in (g', o) | _ => st end) (g, Done) ns.

(* F: the feedback node set in any order (the result does not depend on it); BadOrder if it is not a
   duplicate-free list of nodes.  A self loop is never a back edge of an order, so `approx_min_fas` fails on it. *)
Definition acyclic_unroll (C : Circuit) (F : list string) : res Circuit :=
  if negb (bool_decide (c_bbs C = ∅)) then Raise ValueError else
  if has_self_loop (c_g C) then Raise ValueError else
  if negb (bool_decide (NoDup F)) || negb (forallb (λ f, bool_decide (f ∈ dom (c_g C))) F) then BadOrder else
  let c := c_g C in
  let sp := startpoints c in
  lift (add_inputs ∅ (elements sp)) (λ g0,
  lift (cut_circuit c F) (λ gcut,
  let CUT := with_g C gcut in
  let A0 := {| c_name := "acyc_" ++ c_name C; c_g := g0; c_bbs := ∅ |} in
  lift (foldl (copy_step CUT (elements sp) F) (A0, Done) (seq 0 (S (length F)))) (λ A1,
  lift (foldl (out_step sp (cn (length F))) (c_g A1, Done) (elements (outputs c))) (λ g2,
  let A := with_g A1 g2 in
  match lint A default_flags with
  | Ok _ => if acyclicb g2 then Ok A else Raise ValueError
  | Raise e => Raise e | BadOrder => BadOrder | OutOfFuel => OutOfFuel
  end)))).

(* ---- the feedback choice of approx_min_fas, for an ARBITRARY node order ---- *)
(* nodes reachable from n by at least one edge (nx.descendants): closure of fan-out, |c| rounds *)
Definition fo_set (c : circuit) (S : gset string) : gset string := ⋃ (fanout c <$> elements S).
Fixpoint desc_n (k : nat) (c : circuit) (S : gset string) : gset string :=
  match k with O => S | S k => desc_n k c (S ∪ fo_set c S) end.
Definition desc (c : circuit) (n : string) : gset string := desc_n (size c) c (fanout c n).
Definition index_of (ord : list string) (n : string) : nat := default (length ord) (fst <$> list_find (λ x, x = n) ord).
(* feedback edge (u, v): u -> v is an edge, u comes after v in the order, u is a descendant of v *)
Definition is_fb_edge (c : circuit) (ord : list string) (u v : string) : bool :=
  bool_decide (index_of ord v < index_of ord u) && bool_decide (u ∈ desc c v).
Definition fas_of_order (c : circuit) (ord : list string) : gset string :=
  list_to_set (p ← map_to_list c; filter (λ u, is_fb_edge c ord u p.1 = true) (elements (n_fi p.2))).
(* the graph with exactly those edges removed (what approx_min_fas checks with find_cycle) *)
Definition cut_edges (c : circuit) (ord : list string) : circuit :=
  map_imap (λ n i, Some (upd_fi (filter (λ u, is_fb_edge c ord u n = false)) i)) c.
(* the graph with ALL out-edges of the feedback nodes removed (what the construction cuts) *)
Definition cut_nodes (c : circuit) (F : gset string) : circuit := upd_fi (λ s, s ∖ F) <$> c.

(* ---- closed form of the result (specification side) ---- *)
Definition subst (F : gset string) (g : string) : string := if bool_decide (g ∈ F) then aux g else g.
Definition copy_info (F : gset string) (p m : string) (i : ninfo) : ninfo :=
  if bool_decide (n_ty i = Input) then mk_node Buf false {[m]}
  else mk_node (n_ty i) false (set_map (λ g, pre p (subst F g)) (n_fi i)).
Definition top_nodes (c : circuit) : list (string * ninfo) :=
  (λ n, (n, mk_node Input (bool_decide (n ∈ outputs c)) ∅)) <$> elements (inputs c).
Definition copy_nodes (c : circuit) (F : gset string) (i : nat) : list (string * ninfo) :=
  (λ p, (pre (cn i) p.1, copy_info F (cn i) p.1 p.2)) <$> map_to_list c.
Definition aux_nodes (F : list string) (i : nat) : list (string * ninfo) :=
  (λ f, (pre (cn i) (aux f), match i with O => mk_node Input false ∅ | S j => mk_node Buf false {[pre (cn j) f]} end)) <$> F.
Definition out_nodes (c : circuit) (k : nat) : list (string * ninfo) :=
  (λ o, (o, mk_node Buf true {[pre (cn k) o]})) <$> elements (outputs c ∖ inputs c).
Definition unrolled_nodes (c : circuit) (F : list string) : list (string * ninfo) :=
  (top_nodes c ++ (i ← seq 0 (S (length F)); copy_nodes c (list_to_set F) i ++ aux_nodes F i) ++ out_nodes c (length F))%list.
Definition unrolled (c : circuit) (F : list string) : circuit := list_to_map (unrolled_nodes c F).
(* guard: no generated name collides with another one *)
Definition names_ok (c : circuit) (F : list string) : Prop :=
  NoDup (unrolled_nodes c F).*1 ∧ ∀ f, f ∈ F → aux f ∉ dom c.
Definition names_okb (c : circuit) (F : list string) : bool :=
  bool_decide (NoDup (unrolled_nodes c F).*1) && forallb (λ f, negb (bool_decide (aux f ∈ dom c))) F.
(* every free node is a primary input (no x constants, no undriven buffers) *)
Definition free_are_inputs (c : circuit) : Prop := free_nodes c = inputs c.
Definition cut_acyclic (c : circuit) (F : list string) : Prop := acyclic (cut_nodes c (list_to_set F)).
