(* C07: the wiring invariant of the property text as a decidable predicate on states of the
   construction API (Base/Api.v).  Definitions only.  The type lists here are the DOCUMENTED ones
   (literal); the lists the code uses come from Gen_types.v and are tied to these by `tables_ok`. *)
From stdpp Require Import strings gmap sets.
From CG Require Export Types Api.
Open Scope string_scope.

Definition documented_types : list gtype := [Buf; And; Or; Xor; Not; Nand; Nor; Xnor; C0; C1; CX; Input; BbIn; BbOut].
Definition no_fanin_types : list gtype := [Input; C0; C1; CX; BbOut].     (* inputs, constants, blackbox outputs *)
Definition single_fanin_types : list gtype := [Buf; Not; BbIn].

(* the fan-out clauses; a `match` so that the oracle computes fan-outs of blackbox pins only *)
Definition fanout_ok (c : circuit) (n : string) (t : gtype) : Prop :=
  match t with
  | BbIn => fanout c n = ∅
  | BbOut => size (fanout c n) ≤ 1 ∧ set_Forall (λ m, ty c m = Some Buf) (fanout c n)
  | _ => True end.
Global Instance fanout_ok_dec c n t : Decision (fanout_ok c n t). Proof. destruct t; simpl; apply _. Defined.
(* one node of the graph; fan-out is derived from the fan-in sets of the other nodes *)
Definition node_ok (c : circuit) (n : string) (i : ninfo) : Prop :=
  n_ty i ∈ documented_types ∧
  (n_ty i ∈ no_fanin_types → n_fi i = ∅) ∧
  (n_ty i ∈ single_fanin_types → size (n_fi i) ≤ 1) ∧
  fanout_ok c n (n_ty i).
(* every edge starts at a node of the graph (networkx guarantees it; the model has to) *)
Definition closed' (c : circuit) : Prop := map_Forall (λ _ i, set_Forall (λ f, is_Some (c !! f)) (n_fi i)) c.
Definition wired (c : circuit) : Prop := closed' c ∧ map_Forall (node_ok c) c.
Global Instance node_ok_dec c n i : Decision (node_ok c n i). Proof. unfold node_ok. apply _. Defined.
Global Instance wired_dec c : Decision (wired c). Proof. unfold wired, closed'. apply _. Defined.
Definition wiredb (c : circuit) : bool := bool_decide (wired c).

(* every recorded instance has its pin nodes with the right pin type, unless the caller removed that node;
   R = names the caller passed to remove() so far *)
Definition pins_ok (C : Circuit) (R : gset string) : Prop :=
  map_Forall (λ inst d,
    set_Forall (λ p, pin inst p ∈ R ∨ ty (c_g C) (pin inst p) = Some BbIn) (bb_in d) ∧
    set_Forall (λ p, pin inst p ∈ R ∨ ty (c_g C) (pin inst p) = Some BbOut) (bb_out d)) (c_bbs C).
Global Instance pins_ok_dec C R : Decision (pins_ok C R). Proof. unfold pins_ok. apply _. Defined.
Definition pins_okb (C : Circuit) (R : gset string) : bool := bool_decide (pins_ok C R).

Definition Inv (C : Circuit) : Prop := wired (c_g C).
Definition invb (C : Circuit) : bool := wiredb (c_g C).

(* wires as pairs (driver, load) *)
Definition edges (c : circuit) : gset (string * string) :=
  list_to_set (p ← map_to_list c; (λ f, (f, p.1)) <$> elements (n_fi p.2)).

(* names removed by the caller *)
Definition removed_by (o : op) : gset string := match o with ORemove ns => list_to_set ns | _ => ∅ end.
Definition run (C : Circuit) (ops : list op) : Circuit := fold_left (λ s o, (step s o).1) ops C.
Definition run_removed (ops : list op) : gset string := ⋃ (removed_by <$> ops).
Definition empty_circuit (name : string) : Circuit := {| c_name := name; c_g := ∅; c_bbs := ∅ |}.

(* operations whose invariant preservation is proved for arbitrary arguments *)
Definition core_op (o : op) : bool :=
  match o with OAdd _ _ _ _ _ _ | OConnect _ _ | ODisconnect _ _ | ORemove _ | OSetOutput _ _ | OAddBlackbox _ _ _ _ _ => true | _ => false end.

(* obligations on the regenerated tables of circuit.py: as sets they are the documented lists *)
Definition all_types : list gtype := [Buf; And; Or; Xor; Not; Nand; Nor; Xnor; C0; C1; CX; Input; BbIn; BbOut; Unsup; NoTy].
Definition same_set (l1 l2 : list gtype) : bool :=
  forallb (λ t, bool_decide (bool_decide (t ∈ l1) = bool_decide (t ∈ l2))) all_types.
Definition tables_okb : bool :=
  same_set supported_types documented_types && same_set conn_no_fanin no_fanin_types &&
  same_set conn_single_fanin single_fanin_types && same_set conn_no_fanout [BbIn] && same_set conn_bbout [BbOut] &&
  same_set add_single_fanin [Buf; Not] && same_set add_no_fanin [C0; C1; CX; Input].

(* ---------------------------------------------------------------- add with the flags the parsers use *)
(* add(..., add_connected_nodes, allow_redefinition) is outside the property text (it speaks of default flags and uid=True);
   the op set of the model is extended by it so that the correspondence run and the oracle cover these calls as well *)
Inductive xop := XO (o : op) | XAdd (n : string) (t : gtype) (fi fo : list string) (fl : add_flags).
Definition xstep (C : Circuit) (x : xop) : Circuit * outcome :=
  match x with
  | XO o => step C o
  | XAdd n t fi fo fl => let '(g, oc, _) := add_g (c_g C) n t fi fo fl in (with_g C g, oc)
  end.
(* what survives allow_redefinition=True (which may retype a wired node): edges end at nodes, types are documented ones *)
Definition wired0 (c : circuit) : Prop := closed' c ∧ map_Forall (λ _ i, n_ty i ∈ documented_types) c.
Global Instance wired0_dec c : Decision (wired0 c). Proof. unfold wired0, closed'. apply _. Defined.
Definition Inv0 (C : Circuit) : Prop := wired0 (c_g C).
Definition inv0b (C : Circuit) : bool := bool_decide (Inv0 C).
