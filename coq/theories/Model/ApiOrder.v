(* C07: the order of tests, raises, mutations and returns of the construction API that Base/Api.v implements,
   one list per method, in the linearised form of gen/plugins/api.py ("<depth> <statement header>", raise messages
   dropped).  Hand-maintained together with Base/Api.v: when circuit.py changes, Gen_api.v changes, C07_api_order_ok
   fails, and this file is updated only after Api.v has been made to follow the new order.
   How the lines map to the model:
     add            -> add_g: uid / duplicate test, type test, the two arity tests, empty name, leading digit (all before
                       any effect); then node insertion, add_plain_buf for missing neighbours (add_connected_nodes),
                       new_edges, connect n->fanout, connect fanin->n with removal of new_edges on ValueError
     connect        -> connect_g: falsy early return, existence of us then vs, connect_check (per v: no-fan-in types,
                       single-fan-in arity; per u: bb_input, bb_output to non-buf, bb_output fan-out), then all edges
     disconnect / remove / set_output / set_type -> disconnect_g, remove_g, set_output_g, set_type_g
     add_blackbox   -> registry test, registry write, pins (inputs then outputs, via add), connections in dict order,
                       undo (remove io, delete registry entry) on ValueError
     add_subcircuit -> registry test, overlap test, connection-key test, splice (relabel, update), strip_io, registry,
                       connections, undo (remove spliced nodes, delete registry entries) on ValueError
     fill_blackbox  -> instance test, registry test, io tests, overlap test, pin-type tests (a758c71), relabel pins,
                       splice, retype inputs, unmark outputs, pop instance, register the filling circuit's instances
     uid            -> uid_in / uid_loop (n, n_0 .. n_10, then *7);  relabel -> nx.relabel_nodes in place *)
From stdpp Require Import strings.
From CG Require Import Types Gen.Gen_api.
Open Scope string_scope.

Definition model_add : list string := [
  "sig self, n, node_type, fanin, fanout, output, add_connected_nodes, allow_redefinition, uid | None, None, False, False, False, False";
  "0 if uid:";
  "1 n = self.uid(n)";
  "0 else:";
  "1 if n in self and (not allow_redefinition):";
  "2 raise ValueError";
  "0 if fanin is None:";
  "1 fanin = []";
  "0 else:";
  "1 if isinstance(fanin, str):";
  "2 fanin = [fanin]";
  "0 if fanout is None:";
  "1 fanout = []";
  "0 else:";
  "1 if isinstance(fanout, str):";
  "2 fanout = [fanout]";
  "0 if node_type not in supported_types:";
  "1 raise ValueError";
  "0 if len(fanin) > 1 and node_type in ['buf', 'not']:";
  "1 raise ValueError";
  "0 if fanin and node_type in ['0', '1', 'x', 'input']:";
  "1 raise ValueError";
  "0 if not n:";
  "1 raise ValueError";
  "0 if n[0] in '0123456789':";
  "1 raise ValueError";
  "0 self.graph.add_node(n, type=node_type, output=output)";
  "0 if add_connected_nodes:";
  "1 for f in fanin + fanout:";
  "2 if f not in self:";
  "3 self.add(f, 'buf')";
  "0 new_edges = [(n, v) for v in fanout if not self.graph.has_edge(n, v)]";
  "0 self.connect(n, fanout)";
  "0 try:";
  "1 self.connect(fanin, n)";
  "0 except ValueError:";
  "1 self.graph.remove_edges_from(new_edges)";
  "1 raise";
  "0 return n"].
Definition model_connect : list string := [
  "sig self, us, vs | ";
  "0 if not us or not vs:";
  "1 return";
  "0 if isinstance(us, str):";
  "1 us = [us]";
  "0 if isinstance(vs, str):";
  "1 vs = [vs]";
  "0 for n in us:";
  "1 if n not in self.graph:";
  "2 raise ValueError";
  "0 for n in vs:";
  "1 if n not in self.graph:";
  "2 raise ValueError";
  "0 for v in vs:";
  "1 t = self.type(v)";
  "1 if t in ['input', '0', '1', 'x', 'bb_output']:";
  "2 raise ValueError";
  "1 if t in ['bb_input', 'buf', 'not']:";
  "2 if len(self.fanin(v)) + len(us) > 1:";
  "3 raise ValueError";
  "0 for u in us:";
  "1 t = self.type(u)";
  "1 if t in ['bb_input']:";
  "2 raise ValueError";
  "1 if t in ['bb_output']:";
  "2 for v in vs:";
  "3 if self.type(v) != 'buf':";
  "4 raise ValueError";
  "2 if len(self.fanout(u)) + len(vs) > 1:";
  "3 raise ValueError";
  "0 self.graph.add_edges_from(((u, v) for u in us for v in vs))"].
Definition model_disconnect : list string := [
  "sig self, us, vs | ";
  "0 if isinstance(us, str):";
  "1 us = [us]";
  "0 if isinstance(vs, str):";
  "1 vs = [vs]";
  "0 self.graph.remove_edges_from(((u, v) for u in us for v in vs))"].
Definition model_remove : list string := [
  "sig self, ns | ";
  "0 if isinstance(ns, str):";
  "1 ns = [ns]";
  "0 self.graph.remove_nodes_from(ns)"].
Definition model_set_output : list string := [
  "sig self, ns, output | True";
  "0 if isinstance(ns, str):";
  "1 ns = [ns]";
  "0 for n in ns:";
  "1 self.graph.nodes[n]['output'] = output"].
Definition model_set_type : list string := [
  "sig self, ns, t | ";
  "0 if t not in addable_types:";
  "1 raise ValueError";
  "0 if isinstance(ns, str):";
  "1 ns = [ns]";
  "0 for n in ns:";
  "1 self.graph.nodes[n]['type'] = t"].
Definition model_add_blackbox : list string := [
  "sig self, blackbox, name, connections | None";
  "0 if name in self.blackboxes:";
  "1 raise ValueError";
  "0 self.blackboxes[name] = blackbox";
  "0 io = []";
  "0 try:";
  "1 for n in blackbox.inputs():";
  "2 io += [self.add(f'{name}.{n}', 'bb_input')]";
  "1 for n in blackbox.outputs():";
  "2 io += [self.add(f'{name}.{n}', 'bb_output')]";
  "1 if connections:";
  "2 for (bb_n, ns) in connections.items():";
  "3 if bb_n in blackbox.inputs():";
  "4 self.connect(ns, f'{name}.{bb_n}')";
  "3 else:";
  "4 if bb_n in blackbox.outputs():";
  "5 self.connect(f'{name}.{bb_n}', ns)";
  "4 else:";
  "5 raise ValueError";
  "0 except ValueError:";
  "1 self.remove(io)";
  "1 del self.blackboxes[name]";
  "1 raise"].
Definition model_add_subcircuit : list string := [
  "sig self, sc, name, connections, strip_io | None, True";
  "0 for bb_name in sc.blackboxes:";
  "1 if f'{name}_{bb_name}' in self.blackboxes:";
  "2 raise ValueError";
  "0 mapping = {}";
  "0 for n in sc:";
  "1 if f'{name}_{n}' in self.graph.nodes:";
  "2 raise ValueError";
  "1 mapping[n] = f'{name}_{n}'";
  "0 sc_inputs = sc.inputs()";
  "0 sc_outputs = sc.outputs()";
  "0 if connections:";
  "1 for (sc_n, ns) in connections.items():";
  "2 if sc_n not in sc_inputs and sc_n not in sc_outputs:";
  "3 raise ValueError";
  "0 g = nx.relabel_nodes(sc.graph, mapping)";
  "0 self.graph.update(g)";
  "0 if strip_io:";
  "1 for n in sc.inputs():";
  "2 self.set_type(f'{name}_{n}', 'buf')";
  "1 for n in sc.outputs():";
  "2 self.set_output(f'{name}_{n}', False)";
  "0 for (bb_name, bb) in sc.blackboxes.items():";
  "1 self.blackboxes[f'{name}_{bb_name}'] = bb";
  "0 if connections:";
  "1 try:";
  "2 for (sc_n, ns) in connections.items():";
  "3 if sc_n in sc_inputs:";
  "4 self.connect(ns, f'{name}_{sc_n}')";
  "3 else:";
  "4 if sc_n in sc_outputs:";
  "5 self.connect(f'{name}_{sc_n}', ns)";
  "1 except ValueError:";
  "2 self.remove(list(mapping.values()))";
  "2 for bb_name in sc.blackboxes:";
  "3 del self.blackboxes[f'{name}_{bb_name}']";
  "2 raise"].
Definition model_fill_blackbox : list string := [
  "sig self, name, c | ";
  "0 if name not in self.blackboxes:";
  "1 raise ValueError";
  "0 for bb_name in c.blackboxes:";
  "1 if f'{name}_{bb_name}' in self.blackboxes:";
  "2 raise ValueError";
  "0 if c.inputs() != self.blackboxes[name].inputs():";
  "1 raise ValueError";
  "0 if c.outputs() != self.blackboxes[name].outputs():";
  "1 raise ValueError";
  "0 mapping = {}";
  "0 for n in c:";
  "1 if f'{name}_{n}' in self.graph.nodes:";
  "2 raise ValueError";
  "1 mapping[n] = f'{name}_{n}'";
  "0 for n in self.blackboxes[name].inputs():";
  "1 if f'{name}.{n}' in self.graph and self.type(f'{name}.{n}') != 'bb_input':";
  "2 raise ValueError";
  "0 for n in self.blackboxes[name].outputs():";
  "1 if f'{name}.{n}' in self.graph and self.type(f'{name}.{n}') != 'bb_output':";
  "2 raise ValueError";
  "1 if c.type(n) in ['bb_input', 'bb_output']:";
  "2 raise ValueError";
  "0 self.relabel({f'{name}.{n}': f'{name}_{n}' for n in self.blackboxes[name].io()})";
  "0 g = nx.relabel_nodes(c.graph, mapping)";
  "0 self.graph.update(g)";
  "0 for n in self.blackboxes[name].inputs():";
  "1 self.set_type(f'{name}_{n}', 'buf')";
  "0 for n in self.blackboxes[name].outputs():";
  "1 self.set_output(f'{name}_{n}', False)";
  "0 self.blackboxes.pop(name)";
  "0 for (bb_name, bb) in c.blackboxes.items():";
  "1 self.blackboxes[f'{name}_{bb_name}'] = bb"].
Definition model_uid : list string := [
  "sig self, n, blocked | None";
  "0 if blocked is None:";
  "1 blocked = []";
  "0 if n not in self.graph and n not in blocked:";
  "1 return n";
  "0 i = 0";
  "0 while f'{n}_{i}' in self.graph or f'{n}_{i}' in blocked:";
  "1 if i < 10:";
  "2 i += 1";
  "1 else:";
  "2 i *= 7";
  "0 return f'{n}_{i}'"].
Definition model_relabel : list string := [
  "sig self, mapping | ";
  "0 nx.relabel_nodes(self.graph, mapping, copy=False)"].

Definition api_order_okb : bool :=
  bool_decide (api_add = model_add) &&
  bool_decide (api_connect = model_connect) &&
  bool_decide (api_disconnect = model_disconnect) &&
  bool_decide (api_remove = model_remove) &&
  bool_decide (api_set_output = model_set_output) &&
  bool_decide (api_set_type = model_set_type) &&
  bool_decide (api_add_blackbox = model_add_blackbox) &&
  bool_decide (api_add_subcircuit = model_add_subcircuit) &&
  bool_decide (api_fill_blackbox = model_fill_blackbox) &&
  bool_decide (api_uid = model_uid) &&
  bool_decide (api_relabel = model_relabel).
