(* Model of io.bench_to_circuit / io.circuit_to_bench (circuitgraph/io.py) at line-AST level.
   A bench text is a list of lines; the scan (four findall passes) is the text layer: it yields, for each pass,
   the lines of one kind in text order.  The reader model replays the four passes in the reader's order through the
   construction API of Base/Api.v; all literal tables come from the regenerated Gen_bench.v.  Definitions only. *)
From Coq Require Import Ascii.
From stdpp Require Import strings gmap sets.
From CG Require Export Types Sem Api.
From CG Require Export Gen.Gen_bench.
Open Scope string_scope.

(* BGate net gate ops: `net = gate(ops)` with the gate name as written; BDff net d: `net = DFF(d)` (d = the operand
   string after removal of blanks, not split).  lhs names and INPUT/OUTPUT arguments are identifiers: the capture
   group of the scan patterns cannot return anything else. *)
Inductive bline := BInput (n : string) | BOutput (n : string) | BGate (net gate : string) (ops : list string) | BDff (net d : string).
Global Instance bline_eq_dec : EqDecision bline. Proof. solve_decision. Defined.

(* ---- str.lower / str.upper on ASCII ---- *)
Definition lower_ascii (a : ascii) : ascii :=
  let k := nat_of_ascii a in if (65 <=? k)%nat && (k <=? 90)%nat then ascii_of_nat (k + 32) else a.
Definition upper_ascii (a : ascii) : ascii :=
  let k := nat_of_ascii a in if (97 <=? k)%nat && (k <=? 122)%nat then ascii_of_nat (k - 32) else a.
Fixpoint smap (f : ascii → ascii) (s : string) : string :=
  match s with EmptyString => EmptyString | String a r => String (f a) (smap f r) end.
Definition lower := smap lower_ascii.
Definition upper := smap upper_ascii.

(* the type strings of circuit.py *)
Definition type_names : list (string * gtype) :=
  [("buf", Buf); ("and", And); ("or", Or); ("xor", Xor); ("not", Not); ("nand", Nand); ("nor", Nor); ("xnor", Xnor);
   ("0", C0); ("1", C1); ("x", CX); ("input", Input); ("bb_input", BbIn); ("bb_output", BbOut)].
Definition type_of_name (s : string) : gtype :=
  match list_find (λ p, p.1 = s) type_names with Some (_, p) => p.2 | None => Unsup end.
Definition name_of_type (t : gtype) : string :=
  match list_find (λ p, p.2 = t) type_names with Some (_, p) => p.1 | None => "" end.

(* ---- one gate line of the reader ---- *)
(* the alternation assembled at run time: gate_types + [s.upper() for s in gate_types] *)
Definition rd_alts : list string := rd_gate_types ++ (upper <$> rd_gate_types).
(* None: the gate pattern does not match the line *)
Definition fold_gate (g : string) : option string :=
  if bool_decide (g ∈ rd_alts) then Some (lower (if bool_decide (g ∈ rd_buff_names) then rd_buff_to else g)) else None.
(* dict.fromkeys(l): first occurrences in order *)
Fixpoint fromkeys (l : list string) : list string :=
  match l with [] => [] | x :: r => x :: filter (λ y, y ≠ x) (fromkeys r) end.
Definition count (x : string) (l : list string) : nat := length (filter (λ y, y = x) l).
(* [i for i in dict.fromkeys(inputs) if inputs.count(i) % 2] *)
Definition odd_ops (l : list string) : list string := filter (λ i, Nat.odd (count i l) = true) (fromkeys l).
Definition parity_empty (f : string) : string :=
  match rd_parity_empty with (k, a) :: (_, b) :: _ => if bool_decide (f = k) then a else b | _ => f end.
(* type string and fan-in list handed to c.add *)
Definition gate_args (g : string) (ops : list string) : option (string * list string) :=
  match ops with [] => None | _ =>         (* `[^\)]+`: an empty operand text does not match *)
  f ← fold_gate g;
  Some (if bool_decide (f ∈ rd_parity)
        then let o := odd_ops ops in (if bool_decide (o = []) then parity_empty f else f, o)
        else (f, ops)) end.

Definition rd_flags := {| af_out := false; af_conn := true; af_redef := true; af_uid := false |}.
Definition redef_flags := {| af_out := false; af_conn := false; af_redef := true; af_uid := false |}.
Definition dff_def : bbdef := {| bb_name := rd_dff_name; bb_in := {[ rd_dff_in ]}; bb_out := {[ rd_dff_out ]} |}.
Definition dff_inst (q : string) : string := q ++ rd_dff_suffix.

(* a loop whose body may raise *)
Definition rfold {S A} (f : S → A → S * outcome) : S → list A → res S :=
  fix go s l := match l with [] => Ok s | x :: r => match f s x with (s', Done) => go s' r | (_, Fail e) => Raise e end end.

Definition in_step (g : circuit) (l : bline) : circuit * outcome :=
  match l with BInput n => (add_g g n Input [] [] af_default).1 | _ => (g, Done) end.
Definition gate_step (g : circuit) (l : bline) : circuit * outcome :=
  match l with
  | BGate net gate ops => match gate_args gate ops with
                          | Some (t, fi) => (add_g g net (type_of_name t) fi [] rd_flags).1
                          | None => (g, Done) end
  | _ => (g, Done) end.
Definition dffbuf_step (g : circuit) (l : bline) : circuit * outcome :=
  match l with BDff q _ => (add_g g q Buf [] [] redef_flags).1 | _ => (g, Done) end.
(* connect("", pin) is a no-op: an empty string is falsy *)
Definition str_arg (s : string) : list string := if bool_decide (s = "") then [] else [s].
Definition dff_step (C : Circuit) (l : bline) : Circuit * outcome :=
  match l with
  | BDff q d => add_blackbox C dff_def (dff_inst q) [rd_dff_in] [rd_dff_out] [(rd_dff_in, str_arg d); (rd_dff_out, str_arg q)]
  | _ => (C, Done) end.
Definition out_step (g : circuit) (l : bline) : circuit * outcome :=
  match l with BOutput n => set_output_g g [n] true | _ => (g, Done) end.

Definition bench_read (name : string) (ls : list bline) : res Circuit :=
  rbind (rfold in_step ∅ ls) (λ g1,
  rbind (rfold gate_step g1 ls) (λ g2,
  rbind (rfold dffbuf_step g2 ls) (λ g3,
  rbind (rfold dff_step {| c_name := name; c_g := g3; c_bbs := ∅ |} ls) (λ C4,
  rbind (rfold out_step (c_g C4) ls) (λ g5,
  Ok (with_g C4 g5)))))) .

(* ---- closed form of the result on well-formed line lists (Proofs/BenchProofs.v) ---- *)
Definition decl_outputs (ls : list bline) : list string := ls ≫= λ l, match l with BOutput n => [n] | _ => [] end.
Definition decl_inputs (ls : list bline) : list string := ls ≫= λ l, match l with BInput n => [n] | _ => [] end.
Definition line_nodes (outs : gset string) (l : bline) : list (string * ninfo) :=
  let o n := bool_decide (n ∈ outs) in
  match l with
  | BInput n => [(n, mk_node Input (o n) ∅)]
  | BOutput _ => []
  | BGate net g ops => match gate_args g ops with
                       | Some (t, fi) => [(net, mk_node (type_of_name t) (o net) (list_to_set fi))]
                       | None => [] end
  | BDff q d => [(q, mk_node Buf (o q) {[ pin (dff_inst q) rd_dff_out ]});
                 (pin (dff_inst q) rd_dff_in, mk_node BbIn false {[ d ]});
                 (pin (dff_inst q) rd_dff_out, mk_node BbOut false ∅)]
  end.
Definition line_bbs (l : bline) : list (string * bbdef) := match l with BDff q _ => [(dff_inst q, dff_def)] | _ => [] end.
Definition bench_graph (ls : list bline) : circuit := list_to_map (ls ≫= line_nodes (list_to_set (decl_outputs ls))).
Definition bench_closed (name : string) (ls : list bline) : Circuit :=
  {| c_name := name; c_g := bench_graph ls; c_bbs := list_to_map (ls ≫= line_bbs) |}.

(* ---- writer ---- *)
(* iteration orders of the sets the writer walks over: c.inputs(), c.outputs(), c.nodes() - c.inputs(), c.fanin(n);
   o_const = c.inputs().pop() *)
Record word := { o_in : list string; o_out : list string; o_nodes : list string; o_fi : list (string * list string); o_const : string }.
Definition is_order (l : list string) (s : gset string) : bool := bool_decide (NoDup l) && bool_decide (list_to_set l = s).
Definition fi_order (ord : word) (n : string) : list string :=
  match list_find (λ p, p.1 = n) (o_fi ord) with Some (_, p) => p.2 | None => [] end.
Definition write_line (g : circuit) (ord : word) (n : string) : bline :=
  let t := default NoTy (ty g n) in
  if bool_decide (t ∈ wr_gates) then BGate n (upper (name_of_type t)) (fi_order ord n)
  else if bool_decide (t ∈ wr_const0) then BGate n wr_const0_gate [o_const ord; o_const ord]
  else BGate n wr_const1_gate [o_const ord; o_const ord].
Definition bench_write (C : Circuit) (ord : word) : res (list bline) :=
  let g := c_g C in
  if negb (bool_decide (c_bbs C = ∅)) then Raise ValueError else
  if bool_decide (inputs g = ∅) then Raise KeyError else          (* set().pop() *)
  let rest := dom g ∖ inputs g in
  if existsb (λ n, negb (bool_decide (default NoTy (ty g n) ∈ (wr_gates ++ wr_const0 ++ wr_const1)%list))) (elements rest)
  then Raise ValueError else
  if negb (is_order (o_in ord) (inputs g) && is_order (o_out ord) (outputs g) && is_order (o_nodes ord) rest
           && forallb (λ n, is_order (fi_order ord n) (fanin g n)) (o_nodes ord) && bool_decide (o_const ord ∈ inputs g))
  then BadOrder else
  Ok ((BInput <$> o_in ord) ++ (BOutput <$> o_out ord) ++ (write_line g ord <$> o_nodes ord))%list.
