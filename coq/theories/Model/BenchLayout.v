(* Layouts of a bench text: what the property quantifies over at character level.  For every statement: the case of the
   keyword (INPUT/input, OUTPUT/output, DFF/dff), arbitrary whitespace (any character of the \s class) at every position where
   the scan patterns have \s*, arbitrary blanks (blank, tab, newline -- the characters the reader strips) around every operand;
   between statements: arbitrary whitespace (also none) and comments (# ... up to the end of the line, any content).  Gate names
   are part of the line itself.  Definitions only. *)
From Coq Require Import Ascii.
From stdpp Require Import strings list.
From CG Require Export Model.BenchScan.
Open Scope string_scope.

Record lay := { l_lc : bool; l_w1 : list nat; l_w2 : list nat; l_w3 : list nat; l_ob : nat → list nat; l_oa : nat → list nat }.
Definition kw_input (lc : bool) : list nat := if lc then codes "input" else codes "INPUT".
Definition kw_output (lc : bool) : list nat := if lc then codes "output" else codes "OUTPUT".
Definition kw_dffs (lc : bool) : list nat := if lc then codes "dff" else codes "DFF".
(* operands with blanks around each, separated by commas *)
Fixpoint optext_lay (ob oa : nat → list nat) (i : nat) (ops : list string) : list nat :=
  match ops with
  | [] => []
  | [o] => (ob i ++ codes o ++ oa i)%list
  | o :: r => (ob i ++ codes o ++ oa i ++ 44 :: optext_lay ob oa (S i) r)%list
  end.
Definition render_line_lay (l : bline) (y : lay) : list nat :=
  match l with
  | BInput n => (kw_input (l_lc y) ++ l_w1 y ++ 40 :: l_w2 y ++ codes n ++ l_w3 y ++ [41])%list
  | BOutput n => (kw_output (l_lc y) ++ l_w1 y ++ 40 :: l_w2 y ++ codes n ++ l_w3 y ++ [41])%list
  | BGate net g ops => (codes net ++ l_w1 y ++ 61 :: l_w2 y ++ codes g ++ 40 :: optext_lay (l_ob y) (l_oa y) 0 ops ++ [41])%list
  | BDff q d => (codes q ++ l_w1 y ++ 61 :: l_w2 y ++ kw_dffs (l_lc y) ++ 40 :: l_ob y 0 ++ codes d ++ l_oa y 0 ++ [41])%list
  end.
(* between statements: whitespace chunks and comments (the text after #, up to but excluding the newline that ends it) *)
Inductive seg := SWs (w : list nat) | SComment (c : list nat).
Definition render_seg (s : seg) : list nat := match s with SWs w => w | SComment c => (35 :: c ++ [10])%list end.
Definition seg_plain (s : seg) : list nat := match s with SWs w => w | SComment _ => [10] end.   (* after re.sub *)
Definition render_gap (g : list seg) : list nat := g ≫= render_seg.
Definition gap_plain (g : list seg) : list nat := g ≫= seg_plain.
(* a laid-out text: leading gap, then statements each followed by a gap *)
Definition render_layout (g0 : list seg) (ls : list (bline * lay * list seg)) : list nat :=
  (render_gap g0 ++ ls ≫= λ p, render_line_lay p.1.1 p.1.2 ++ render_gap p.2)%list.
(* what the layout may contain *)
Definition ws_char (x : nat) : Prop := in_cls (Cl false [(9, 13); (28, 32)]) x = true.
Definition blank_char (x : nat) : Prop := x ∈ rd_strip_codes.
Definition lay_ok (y : lay) : Prop :=
  Forall ws_char (l_w1 y) ∧ Forall ws_char (l_w2 y) ∧ Forall ws_char (l_w3 y) ∧ (∀ i, Forall blank_char (l_ob y i)) ∧ (∀ i, Forall blank_char (l_oa y i)).
Definition seg_ok (s : seg) : Prop := match s with SWs w => Forall ws_char w | SComment c => 10 ∉ c end.
Definition layout_ok (g0 : list seg) (ls : list (bline * lay * list seg)) : Prop :=
  Forall seg_ok g0 ∧ Forall (λ p, lay_ok p.1.2 ∧ Forall seg_ok p.2) ls.

(* a text may end in a comment that no newline terminates *)
Definition render_fin (fin : option (list nat)) : list nat := match fin with Some c => 35 :: c | None => [] end.
Definition render_layout_fin (g0 : list seg) (ls : list (bline * lay * list seg)) (fin : option (list nat)) : list nat :=
  (render_layout g0 ls ++ render_fin fin)%list.
Definition fin_ok (fin : option (list nat)) : Prop := match fin with Some c => 10 ∉ c | None => True end.
