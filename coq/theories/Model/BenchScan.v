(* Character level of io.bench_to_circuit: comment removal and the four findall scans, evaluated with the regex model of
   Model/Regex.v on the regex terms regenerated from io.py (Gen_bench.v), and the string post-processing of the captures
   (.replace of blank/newline/tab, .split(",")).  The result lists the scanned statements pass by pass, which is the order in
   which the reader consumes them.  Definitions only. *)
From Coq Require Import Ascii.
From stdpp Require Import strings list.
From CG Require Export Model.Regex Model.Bench.
Open Scope string_scope.

Definition clean (s : list nat) : list nat := remove_chars rd_strip_codes s.
Definition split_ops (s : list nat) : list string := text_of <$> split_on rd_split_code (clean s).

Definition scan_inputs (t : list nat) : list bline := findall rd_re_input t ≫= λ cs, BInput <$> split_ops (group 1 cs).
Definition scan_outputs (t : list nat) : list bline := findall rd_re_output t ≫= λ cs, BOutput <$> split_ops (group 1 cs).
Definition scan_gates (t : list nat) : list bline :=
  (λ cs, BGate (text_of (group 1 cs)) (text_of (group 2 cs)) (split_ops (group 3 cs))) <$> findall rd_re_gate t.
Definition scan_dffs (t : list nat) : list bline :=
  (λ cs, BDff (text_of (group 1 cs)) (text_of (clean (group 3 cs)))) <$> findall rd_re_dff t.

(* the statements the reader sees, in the order it consumes them *)
Definition scan_codes (t0 : list nat) : list bline :=
  let t := delete_all rd_re_comment t0 in
  (scan_inputs t ++ scan_gates t ++ scan_dffs t ++ scan_outputs t)%list.
Definition bench_scan (text : string) : list bline := scan_codes (codes text).

(* the reader at character level *)
Definition bench_read_text (name text : string) : res Circuit := bench_read name (bench_scan text).

(* the same view of a line list: statements by pass; gate lines the gate pattern cannot produce (gate name outside the
   alternation, empty operand text) are not statements *)
Definition is_stmt_gate (l : bline) : bool :=
  match l with BGate _ g ops => bool_decide (g ∈ rd_alts) && negb (bool_decide (ops = [])) | _ => false end.
Definition is_input (l : bline) : bool := match l with BInput _ => true | _ => false end.
Definition is_output (l : bline) : bool := match l with BOutput _ => true | _ => false end.
Definition is_dff (l : bline) : bool := match l with BDff _ _ => true | _ => false end.
Definition by_pass (ls : list bline) : list bline :=
  (filter (λ l, is_input l = true) ls ++ filter (λ l, is_stmt_gate l = true) ls
   ++ filter (λ l, is_dff l = true) ls ++ filter (λ l, is_output l = true) ls)%list.

(* canonical rendering of a line list (what circuit_to_bench prints, plus DFF lines): one statement per line, single blanks *)
Fixpoint join (sep : list nat) (ws : list (list nat)) : list nat :=
  match ws with [] => [] | [w] => w | w :: r => (w ++ sep ++ join sep r)%list end.
Definition render_line (l : bline) : list nat :=
  match l with
  | BInput n => (codes "INPUT(" ++ codes n ++ [41])%list
  | BOutput n => (codes "OUTPUT(" ++ codes n ++ [41])%list
  | BGate net g ops => (codes net ++ codes " = " ++ codes g ++ [40] ++ join (codes ", ") (codes <$> ops) ++ [41])%list
  | BDff q d => (codes q ++ codes " = DFF(" ++ codes d ++ [41])%list
  end.
Definition render (ls : list bline) : list nat := ls ≫= λ l, (render_line l ++ [10])%list.
