(* What a bench text denotes (C15), independently of the reader model: the documented dialect, the Boolean function of a
   gate line over its operand LIST (repeated operands count with multiplicity), the well-formedness guard, and an
   evaluator over the lines.  Nothing here comes from Gen_bench.v or from the construction API.  Definitions only. *)
From Coq Require Import Ascii.
From stdpp Require Import strings gmap sets.
From CG Require Export Types Sem Model.Bench.
Open Scope string_scope.

(* the dialect of the property text: upper- or lower-case BUF/BUFF/NOT/AND/NAND/OR/NOR/XOR/XNOR *)
Definition doc_gates : list (string * gtype) :=
  [("BUF", Buf); ("BUFF", Buf); ("NOT", Not); ("AND", And); ("NAND", Nand); ("OR", Or); ("NOR", Nor); ("XOR", Xor); ("XNOR", Xnor);
   ("buf", Buf); ("buff", Buf); ("not", Not); ("and", And); ("nand", Nand); ("or", Or); ("nor", Nor); ("xor", Xor); ("xnor", Xnor)].
Definition doc_gate (g : string) : option gtype :=
  match list_find (λ p, p.1 = g) doc_gates with Some (_, p) => Some p.2 | None => None end.

(* function of a gate over the list of its operand values *)
Definition gate_fun (t : gtype) (bs : list bool) : bool := xorb (g_inv t) (foldr (g_op t) (g_unit t) bs).

Definition gate_lines (ls : list bline) : list (string * gtype * list string) :=
  ls ≫= λ l, match l with BGate n g ops => match doc_gate g with Some t => [(n, t, ops)] | None => [] end | _ => [] end.
Definition dff_lines (ls : list bline) : list (string * string) :=
  ls ≫= λ l, match l with BDff q d => [(q, d)] | _ => [] end.
(* every gate line is an equation; DFF lines relate nothing combinationally *)
Definition sat_bench (ls : list bline) (v : val) : Prop :=
  ∀ n t ops, (n, t, ops) ∈ gate_lines ls → v n = gate_fun t (v <$> ops).
Definition sat_benchb (ls : list bline) (v : val) : bool :=
  forallb (λ p, eqb (v p.1.1) (gate_fun p.1.2 (v <$> p.2))) (gate_lines ls).

(* ---- identifiers: a letter followed by letters, digits, underscores ---- *)
Definition is_alpha (a : ascii) : bool :=
  let k := nat_of_ascii a in ((65 <=? k) && (k <=? 90) || (97 <=? k) && (k <=? 122))%nat.
Definition is_idchar (a : ascii) : bool :=
  let k := nat_of_ascii a in (is_alpha a || (48 <=? k) && (k <=? 57) || (k =? 95))%nat.
Fixpoint all_chars (P : ascii → bool) (s : string) : bool :=
  match s with EmptyString => true | String a r => P a && all_chars P r end.
Definition ident (s : string) : bool := match s with String a r => is_alpha a && all_chars is_idchar r | EmptyString => false end.

(* ---- well-formedness guard ---- *)
Definition lhs_nets (ls : list bline) : list string :=
  ls ≫= λ l, match l with BInput n => [n] | BGate n _ _ => [n] | BDff q _ => [q] | BOutput _ => [] end.
Definition operands (ls : list bline) : list string :=
  ls ≫= λ l, match l with BGate _ _ ops => ops | BDff _ d => [d] | _ => [] end.
Definition line_ok (l : bline) : bool :=
  match l with
  | BInput n | BOutput n => ident n
  | BGate n g ops => ident n && match doc_gate g with
                                | Some t => if bool_decide (t ∈ [Buf; Not]) then bool_decide (length ops = 1) else bool_decide (1 ≤ length ops)
                                | None => false end
  | BDff q d => ident q end.
(* names are identifiers, every gate name is of the dialect with a sensible operand count, each net is defined once,
   every operand and every declared output is defined somewhere in the text *)
Definition wfb (ls : list bline) : bool :=
  forallb line_ok ls && bool_decide (NoDup (lhs_nets ls))
  && forallb (λ n, bool_decide (n ∈ lhs_nets ls)) (operands ls ++ decl_outputs ls).

(* ---- evaluation over the lines (free: declared inputs, DFF outputs) ---- *)
Definition find_def (ls : list bline) (n : string) : option (gtype * list string) :=
  match list_find (λ p, p.1.1 = n) (gate_lines ls) with Some (_, p) => Some (p.1.2, p.2) | None => None end.
Fixpoint bench_eval (fuel : nat) (ls : list bline) (a : val) (n : string) : bool :=
  match fuel with O => a n | S f =>
    match find_def ls n with
    | Some (t, ops) => gate_fun t (bench_eval f ls a <$> ops)
    | None => a n end end.
Definition free_nets (ls : list bline) : list string := decl_inputs ls ++ (dff_lines ls).*1.

(* the flip-flop blackbox of the property text *)
Definition doc_dff : bbdef := {| bb_name := "dff"; bb_in := {[ "D" ]}; bb_out := {[ "Q" ]} |}.
Definition doc_inst (q : string) : string := q ++ "_dff".
(* q is a registered dff instance between its D net d and its Q net q *)
Definition dff_between (C : Circuit) (q d : string) : Prop :=
  c_bbs C !! doc_inst q = Some doc_dff
  ∧ c_g C !! pin (doc_inst q) "D" = Some (mk_node BbIn false {[ d ]})
  ∧ ty (c_g C) (pin (doc_inst q) "Q") = Some BbOut ∧ fanin (c_g C) (pin (doc_inst q) "Q") = ∅
  ∧ ty (c_g C) q = Some Buf ∧ fanin (c_g C) q = {[ pin (doc_inst q) "Q" ]}.
Global Instance dff_between_dec C q d : Decision (dff_between C q d). Proof. unfold dff_between. apply _. Defined.

(* function preservation on a set of nets *)
Definition refines (S : gset string) (c c' : circuit) : Prop := ∀ v', consistent c' v' → ∃ v, consistent c v ∧ agrees S v v'.
Definition equiv_on (S : gset string) (c c' : circuit) : Prop := refines S c c' ∧ refines S c' c.
Definition names_ok (c : circuit) : Prop := ∀ n, n ∈ dom c → ident n = true.
