(* C06 models on top of Base/Api.v (add_subcircuit / add_blackbox / fill_blackbox live there):
   tx.strip_io, tx.strip_blackboxes, and the spec-side vocabulary shared by proofs and oracle.
   Definitions only. *)
From Coq Require Import Ascii.
From stdpp Require Import strings gmap sets fin_sets.
From CG Require Export Base.Api Base.Sem.
Open Scope string_scope.

(* tx.strip_io: outputs unmarked, inputs become (undriven) buffers *)
Definition strip_info (i : ninfo) : ninfo :=
  {| n_ty := if bool_decide (n_ty i = Input) then Buf else n_ty i; n_out := false; n_fi := n_fi i |}.
Definition strip_io (c : circuit) : circuit := strip_info <$> c.

(* n.replace(".", "_")  and  n.split(".")[-1] *)
Fixpoint undot (s : string) : string :=
  match s with EmptyString => EmptyString | String a r => String (if Ascii.eqb a "."%char then "_"%char else a) (undot r) end.
Fixpoint str_has_dot (s : string) : bool :=
  match s with EmptyString => false | String a r => if Ascii.eqb a "."%char then true else str_has_dot r end.
Fixpoint last_seg (s : string) : string :=
  match s with
  | EmptyString => EmptyString
  | String a r => if str_has_dot r then last_seg r else if Ascii.eqb a "."%char then r else s
  end.

(* what strip_blackboxes does to the attributes of a pin that is kept *)
Definition expose_info (i : ninfo) : ninfo :=
  match n_ty i with
  | BbIn => mk_node Buf true (n_fi i)
  | BbOut => mk_node Input (n_out i) (n_fi i)
  | _ => i end.
Definition bb_pins (g : circuit) : gset string := of_type g (is_ty BbIn) ∪ of_type g (is_ty BbOut).
Definition ignored_pins (g : circuit) (ign : list string) : gset string := filter (λ n, last_seg n ∈ ign) (bb_pins g).
Definition kept_pins (g : circuit) (ign : list string) : gset string := bb_pins g ∖ ignored_pins g ign.
Definition pin_rho (kept : gset string) (n : string) : string := if bool_decide (n ∈ kept) then undot n else n.

(* tx.strip_blackboxes(c, ignore_pins); ign is the normalised list (None / "" / [] -> [], a str -> [str]).
   ValueError when a new name is already a node of the (pruned) graph, or when two kept pins get the same new name
   (instances "a.b" and "a_b" with equal pin names; fix 2361640 -- before it networkx merged the two pins). *)
Definition strip_blackboxes (C : Circuit) (ign : list string) : res Circuit :=
  let g := c_g C in
  let kept := kept_pins g ign in
  let g1 := remove_g g (elements (ignored_pins g ign)) in
  let g2 := expose_info <$> g1 in
  let news := undot <$> elements kept in
  if existsb (λ k, bool_decide (k ∈ dom g2)) news then Raise ValueError else
  if negb (bool_decide (NoDup news)) then Raise ValueError else
  Ok {| c_name := c_name C; c_g := rename_g (pin_rho kept) g2; c_bbs := ∅ |}.

(* ---- specification vocabulary ---- *)
(* a connection map entry attaches child io `io` to the parent nets `nets` *)
Definition conn_ok (SC : Circuit) (name : string) (v : val) (kv : string * list string) : Prop :=
  ∀ net, net ∈ kv.2 →
    (kv.1 ∈ inputs (c_g SC) → v (pre name kv.1) = v net) ∧
    (kv.1 ∉ inputs (c_g SC) → v net = v (pre name kv.1)).
(* "outputs driving buffers": every net attached to a child output is an undriven buf (or blackbox input pin) of the parent *)
Definition free_buf (c : circuit) (n : string) : Prop :=
  ∃ i, c !! n = Some i ∧ (n_ty i = Buf ∨ n_ty i = BbIn) ∧ n_fi i = ∅.
Definition out_targets_free (P SC : Circuit) (conns : list (string * list string)) : Prop :=
  ∀ kv net, kv ∈ conns → kv.1 ∉ inputs (c_g SC) → net ∈ kv.2 → free_buf (c_g P) net.
