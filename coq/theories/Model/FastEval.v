(* Table-driven evaluation for the C04/C06 oracles: nodes are visited once in rank order, so the cost per
   valuation is linear in the circuit (Sem.eval re-evaluates shared cones).  Nothing is trusted about the
   order: every use re-checks the result with `consistentb` (see fast_eval_certified). *)
From stdpp Require Import strings gmap sets fin_sets sorting.
From CG Require Export Base.Oracle.
Open Scope string_scope.

Definition rank_le (r : gmap string nat) (p q : string * ninfo) : Prop := rank_of r p.1 ≤ rank_of r q.1.
Global Instance rank_le_dec r p q : Decision (rank_le r p q). Proof. unfold rank_le. apply _. Defined.
Definition topo_order (c : circuit) : list (string * ninfo) :=
  merge_sort (rank_le (rank_table c)) (map_to_list c).

Definition tval (T : gmap string bool) (a : val) : val := λ n, default (a n) (T !! n).
Definition eval_step (a : val) (T : gmap string bool) (p : string * ninfo) : gmap string bool :=
  <[p.1 := if is_free p.2 then a p.1 else
           match n_ty p.2 with C0 => false | C1 => true | t => gate_val t (tval T a) (n_fi p.2) end]> T.
Definition eval_table (order : list (string * ninfo)) (a : val) : gmap string bool := foldl (eval_step a) ∅ order.
Definition fast_eval (order : list (string * ninfo)) (a : val) : val := tval (eval_table order a) a.

(* all valuations of the free nodes of c, each extended to all nodes *)
Definition free_list (c : circuit) : list string := elements (free_nodes c).
Definition sweep (c : circuit) (chk : val → bool) : bool :=
  let ord := topo_order c in
  forallb (λ a, let v := fast_eval ord a in eq_on (free_list c) v a && consistentb c v && chk v) (all_vals (free_list c)).
