(* Compiled evaluation for the C04/C06 oracles.  String-keyed maps are too slow for 2^k sweeps, so a circuit is
   compiled once into a program over positive indices (nodes in rank order); a valuation is a Pmap.
   Nothing is trusted about the order or the evaluation: every valuation is re-checked against the compiled
   node equations of the circuit (check_prog), and check_prog is proved equal to Oracle.consistentb
   (Proofs/ComposeProofs.v, check_prog_spec).  Definitions only. *)
From stdpp Require Import strings gmap pmap sets fin_sets sorting.
From CG Require Export Base.Oracle.
Open Scope string_scope.

Definition rank_le (r : gmap string nat) (p q : string * ninfo) : Prop := rank_of r p.1 ≤ rank_of r q.1.
Global Instance rank_le_dec r p q : Decision (rank_le r p q). Proof. unfold rank_le. apply _. Defined.
Definition topo_order (c : circuit) : list (string * ninfo) :=
  merge_sort (rank_le (rank_table c)) (map_to_list c).

Notation index := (string → option positive).
Definition index_of (ord : list (string * ninfo)) : gmap string positive :=
  list_to_map (imap (λ k p, (p.1, Pos.of_succ_nat k)) ord).

(* one node equation: value at cn_ix = gate over the values at cn_fi (an absent name reads as false) *)
Record cnode := { cn_ix : option positive; cn_free : bool; cn_ty : gtype; cn_fi : list (option positive) }.
Definition compile_node (ix : index) (f : string → string) (p : string * ninfo) : cnode :=
  {| cn_ix := ix (f p.1); cn_free := is_free p.2; cn_ty := n_ty p.2; cn_fi := (λ x, ix (f x)) <$> elements (n_fi p.2) |}.
(* the equations of G, with every name read through f, except those of the nodes in skip *)
Definition compile (ix : index) (f : string → string) (G : circuit) (skip : gset string) : list cnode :=
  compile_node ix f <$> filter (λ p, p.1 ∉ skip) (map_to_list G).

Definition look (T : Pmap bool) (o : option positive) : bool :=
  match o with Some k => default false (T !! k) | None => false end.
Definition gate_of (t : gtype) (l : list bool) : bool := xorb (g_inv t) (foldr (g_op t) (g_unit t) l).
Definition cnode_val (T : Pmap bool) (c : cnode) : bool :=
  match cn_ty c with C0 => false | C1 => true | t => gate_of t (look T <$> cn_fi c) end.
Definition cnode_ok (T : Pmap bool) (c : cnode) : bool :=
  cn_free c || match cn_ty c with C0 => negb (look T (cn_ix c)) | C1 => look T (cn_ix c)
               | _ => eqb (look T (cn_ix c)) (cnode_val T c) end.
Definition check_prog (T : Pmap bool) (prog : list cnode) : bool := forallb (cnode_ok T) prog.
Definition run_prog (ones : list positive) (prog : list cnode) : Pmap bool :=
  foldl (λ T c, match cn_ix c with
                | Some k => <[k := if cn_free c then bool_decide (k ∈ ones) else cnode_val T c]> T
                | None => T end) ∅ prog.
Fixpoint psubsets (l : list positive) : list (list positive) :=
  match l with [] => [[]] | x :: r => let s := psubsets r in s ++ ((x ::.) <$> s) end.
Definition eqs_ok (T : Pmap bool) (l : list (option positive * option positive)) : bool :=
  forallb (λ p, eqb (look T p.1) (look T p.2)) l.

(* For every valuation of the free nodes of R: evaluate R, certify the result against R's own equations, then
   check the compiled side conditions (programs that must be satisfied, pairs of names that must be equal,
   and a free-form predicate on the value table). *)
Record side := { s_progs : list (list cnode); s_eqs : list (option positive * option positive);
                 s_pred : (option positive → bool) → bool }.
Definition sweepc (R : circuit) (mk : index → side) : bool :=
  let ord := topo_order R in
  let idx := index_of ord in
  let ix : index := λ n, idx !! n in
  let progR := compile_node ix id <$> ord in
  let frees := omap (λ c, if cn_free c then cn_ix c else None) progR in
  let sd := mk ix in
  forallb (λ ones, let T := run_prog ones progR in
                   check_prog T progR && forallb (check_prog T) (s_progs sd) && eqs_ok T (s_eqs sd) && s_pred sd (look T))
          (psubsets frees).
Definition no_pred : (option positive → bool) → bool := λ _, true.
