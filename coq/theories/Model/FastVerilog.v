(* C14: the two Verilog readers on the documented subset of the fast one, at AST level.
   fast_sem: graph construction of parsing/fast_verilog.py AFTER its regex scans (tie nodes, defaultdict by type with later
             add_nodes_from overriding attributes in dict order, edges, output marking, tie removal).
   full_sem: effect of the Lark transformer of parsing/verilog.py on the same subset, in textual order, through the
             construction API of Base/Api.v (add with add_connected_nodes / allow_redefinition, add_blackbox).
   Literal tables (tie base names, constant spellings, parity list) come from the regenerated Gen_fastv.v. *)
From Coq Require Import Ascii.
From stdpp Require Import strings gmap sets pretty sorting.
From CG Require Export Types Api Oracle.
From CG Require Import Gen.Gen_fastv.
Open Scope string_scope.

(* ---------------------------------------------------------------- subset AST *)
Inductive opd := ONet (s : string) | OConst (s : string).          (* a constant keeps its spelling *)
Global Instance opd_eq_dec : EqDecision opd. Proof. solve_decision. Defined.
Inductive item :=
| IInput (ns : list string) | IOutput (ns : list string) | IWire (ns : list string)
| IGate (t : gtype) (inst : string) (ops : list opd)               (* primitive instance: driven net first *)
| IAssign (lhs : string) (rhs : opd)
| IInst (bb inst : string) (conns : list (string * option opd)).   (* named ports; None = `.p()`; omitted pins are absent *)
Record ast := { a_name : string; a_ports : list string; a_items : list item }.

Definition opd_ids (o : opd) : list string := match o with ONet s => [s] | OConst _ => [] end.
Definition item_ids (it : item) : list string :=
  match it with
  | IInput ns | IOutput ns | IWire ns => ns
  | IGate _ inst ops => inst :: (ops ≫= opd_ids)
  | IAssign l r => l :: opd_ids r
  | IInst bb inst conns => bb :: inst :: (conns ≫= λ c, c.1 :: from_option opd_ids [] c.2)
  end.
(* the identifiers of the text, as both readers collect them into `reserved` (keywords, primitive names and the letters of
   constants are identifiers too, but none of them has the shape of a tie name; they are left out) *)
Definition idents (a : ast) : gset string := list_to_set (a_name a :: a_ports a ++ (a_items a ≫= item_ids)).

Definition decl_inputs (a : ast) : list string := a_items a ≫= λ it, match it with IInput ns => ns | _ => [] end.
Definition decl_outputs (a : ast) : list string := a_items a ≫= λ it, match it with IOutput ns => ns | _ => [] end.

(* an edge exists once: pairs of equal operands of a parity gate cancel_pairs (both readers, same expression) *)
Definition occ_count (f : string) (l : list string) : nat := length (filter (λ x, x = f) l).
Definition cancel_pairs (l : list string) : list string := filter (λ f, Nat.odd (occ_count f l)) (remove_dups l).
Definition is_parity (t : gtype) : bool := bool_decide (t = Xor) || bool_decide (t = Xnor).

(* ---------------------------------------------------------------- fast reader *)
(* tie_0, i = base, 0; while tie_0 in reserved: tie_0, i = base_i, i + 1 *)
Fixpoint tie_loop (fuel : nat) (reserved : gset string) (base : string) (i : N) : string :=
  let cand := base ++ "_" ++ pretty i in
  match fuel with O => cand | S f => if bool_decide (cand ∈ reserved) then tie_loop f reserved base (i + 1)%N else cand end.
Definition tie_name (reserved : gset string) (base : string) : string :=
  if bool_decide (base ∈ reserved) then tie_loop (S (size reserved)) reserved base 0%N else base.

Definition opd_text (o : opd) : string := match o with ONet s | OConst s => s end.
Definition fast_gate_opd (t0 t1 : string) (o : opd) : string :=
  let s := opd_text o in if bool_decide (s = fast_gate_c0) then t0 else if bool_decide (s = fast_gate_c1) then t1 else s.
Definition fast_pin_opd (t0 t1 : string) (o : opd) : string :=
  let s := opd_text o in if bool_decide (s = fast_pin_c1) then t1 else if bool_decide (s = fast_pin_c0) then t0 else s.
Definition fast_assign_opd (t0 t1 : string) (o : opd) : string :=
  let s := opd_text o in if bool_decide (s ∈ fast_assign_c0) then t0 else if bool_decide (s ∈ fast_assign_c1) then t1 else s.

Definition find_bb_first (bbs : list bbdef) (n : string) : option bbdef := snd <$> list_find (λ d, bb_name d = n) bbs.
Definition find_bb_last (bbs : list bbdef) (n : string) : option bbdef := find_bb_first (reverse bbs) n.

(* what the scans accumulate: all_nets appends (type, net), all_edges, blackboxes_to_add *)
Record scan := { s_adds : list (gtype * string); s_edges : list (string * string); s_bbs : list (string * bbdef) }.
Definition scan0 := {| s_adds := []; s_edges := []; s_bbs := [] |}.
Definition parity_name (t : gtype) : string := match t with Xor => "xor" | Xnor => "xnor" | _ => "" end.

(* one match of the instance pattern *)
Definition fast_inst (t0 t1 : string) (bbs : list bbdef) (s : scan) (it : item) : res scan :=
  match it with
  | IGate t _ ops =>
      match fast_gate_opd t0 t1 <$> ops with
      | [] => BadOrder                                   (* `g i ();` has no rendering the pattern matches: outside the model *)
      | out :: ins =>
          let '(t', ins') :=
            if bool_decide (parity_name t ∈ fast_parity) then
              let c := cancel_pairs ins in if bool_decide (c = []) then (Buf, [if bool_decide (t = Xor) then t0 else t1]) else (t, c)
            else (t, ins) in
          Ok {| s_adds := s_adds s ++ [(t', out)]; s_edges := s_edges s ++ ((λ i, (i, out)) <$> ins'); s_bbs := s_bbs s |}
      end
  | IInst bb inst conns =>
      match find_bb_first bbs bb with
      | None => Raise ValueError
      | Some d =>
          let s1 := {| s_adds := s_adds s ++ ((λ p, (BbIn, pin inst p)) <$> elements (bb_in d)) ++ ((λ p, (BbOut, pin inst p)) <$> elements (bb_out d));
                       s_edges := s_edges s; s_bbs := s_bbs s |} in
          let r := foldl (λ (st : res scan) (c : string * option opd),
                     match st, c.2 with
                     | Ok s, Some o =>
                         let net := fast_pin_opd t0 t1 o in
                         if bool_decide (c.1 ∈ bb_in d) then
                           Ok {| s_adds := s_adds s; s_edges := s_edges s ++ [(net, pin inst c.1)]; s_bbs := s_bbs s |}
                         else if bool_decide (c.1 ∈ bb_out d) then
                           Ok {| s_adds := s_adds s ++ [(Buf, net)]; s_edges := s_edges s ++ [(pin inst c.1, net)]; s_bbs := s_bbs s |}
                         else Raise ValueError
                     | st, _ => st end) (Ok s1) conns in
          rbind r (λ s2, Ok {| s_adds := s_adds s2; s_edges := s_edges s2; s_bbs := s_bbs s2 ++ [(inst, d)] |})
      end
  | _ => Ok s
  end.
Definition fast_assign (t0 t1 : string) (s : scan) (it : item) : scan :=
  match it with
  | IAssign l r => {| s_adds := s_adds s ++ [(Buf, l)]; s_edges := s_edges s ++ [(fast_assign_opd t0 t1 r, l)]; s_bbs := s_bbs s |}
  | _ => s end.

(* for k, v in all_nets.items(): g.add_nodes_from(v, type=k, output=False)  -- dict order = first insertion of the key *)
Definition grouped (adds : list (gtype * string)) : list (gtype * string) :=
  remove_dups (fst <$> adds) ≫= λ k, filter (λ p, p.1 = k) adds.
(* networkx add_edge creates missing end points without attributes *)
Definition ensure (n : string) (g : circuit) : circuit := match g !! n with Some _ => g | None => <[n := mk_node NoTy false ∅]> g end.
Definition nx_add_edge (g : circuit) (e : string * string) : circuit := add_edge (ensure e.2 (ensure e.1 g)) e.1 e.2.
Definition drop_unused (g : circuit) (t : string) : circuit := if bool_decide (fanout g t = ∅) then remove_g g [t] else g.

Definition fast_sem (a : ast) (bbs : list bbdef) : res Circuit :=
  let reserved := idents a in
  let t0 := tie_name reserved fast_tie0 in
  let t1 := tie_name reserved fast_tie1 in
  let g0 : circuit := foldl (λ g n, <[n := mk_node Input false ∅]> g) ∅ (decl_inputs a) in
  let g1 := <[t1 := mk_node C1 false ∅]> (<[t0 := mk_node C0 false ∅]> g0) in
  rbind (foldl (λ st it, rbind st (λ s, fast_inst t0 t1 bbs s it)) (Ok scan0) (a_items a)) (λ s1,
  let s := foldl (fast_assign t0 t1) s1 (a_items a) in
  let g2 := foldl (λ g p, <[p.2 := mk_node p.1 false ∅]> g) g1 (grouped (s_adds s)) in   (* no edge exists yet *)
  let g3 := foldl nx_add_edge g2 (s_edges s) in
  let '(g4, o) := set_output_g g3 (decl_outputs a) true in
  match o with Fail e => Raise e | Done =>
    Ok {| c_name := a_name a; c_g := drop_unused (drop_unused g4 t0) t1;
          c_bbs := foldl (λ m p, <[p.1 := p.2]> m) ∅ (s_bbs s) |} end).

(* ---------------------------------------------------------------- full reader *)
Definition fl_parse := {| af_out := false; af_conn := true; af_redef := true; af_uid := false |}.
(* the transformer's add_node helper *)
Definition add_node (g : circuit) (n : string) (t : gtype) (fi : list string) : res circuit :=
  let '(g', o, _) := add_g g n t fi [] fl_parse in match o with Done => Ok g' | Fail e => Raise e end.
Definition add_plain (g : circuit) (n : string) (t : gtype) : res circuit :=
  let '(g', o, _) := add_g g n t [] [] af_default in match o with Done => Ok g' | Fail e => Raise e end.

(* constants of the grammar; any other spelling is a syntax error (Lark exception) *)
Definition full_opd (t0 t1 tx : string) (o : opd) : res string :=
  match o with
  | ONet s => Ok s
  | OConst s => if bool_decide (s ∈ full_c0) then Ok t0 else if bool_decide (s ∈ full_c1) then Ok t1
                else if bool_decide (s ∈ full_cx) then Ok tx else Raise OtherError
  end.
Fixpoint mapM_res {A B} (f : A → res B) (l : list A) : res (list B) :=
  match l with [] => Ok [] | x :: r => rbind (f x) (λ y, rbind (mapM_res f r) (λ ys, Ok (y :: ys))) end.

(* named_port_connection dicts merged by dict.update: later value wins, position of the first occurrence is kept *)
Fixpoint dict_set {A} (k : string) (v : A) (d : list (string * A)) : list (string * A) :=
  match d with [] => [(k, v)] | (k', v') :: r => if bool_decide (k' = k) then (k, v) :: r else (k', v') :: dict_set k v r end.

Definition full_item (t0 t1 tx : string) (bbs : list bbdef) (C : Circuit) (it : item) : res Circuit :=
  match it with
  | IInput ns => rmap (with_g C) (foldl (λ st n, rbind st (λ g, add_node g n Input [])) (Ok (c_g C)) ns)
  | IOutput _ | IWire _ => Ok C
  | IGate t _ ops =>
      rbind (mapM_res (full_opd t0 t1 tx) ops) (λ names,
      match names with
      | [] => Raise OtherError                           (* no rendering parses *)
      | out :: ins =>
          let '(t', ins') :=
            if is_parity t then
              let c := cancel_pairs ins in if bool_decide (c = []) then (Buf, [if bool_decide (t = Xor) then t0 else t1]) else (t, c)
            else (t, ins) in
          rmap (with_g C) (add_node (c_g C) out t' ins')
      end)
  | IAssign l r =>
      rbind (full_opd t0 t1 tx r) (λ e,
      if bool_decide (l ∈ [t0; t1; tx]) then Ok C else rmap (with_g C) (add_node (c_g C) l Buf [e]))
  | IInst bb inst conns =>
      rbind (mapM_res (λ c : string * option opd, match c.2 with None => Ok (c.1, None)
                                   | Some o => rmap (λ s, (c.1, Some s)) (full_opd t0 t1 tx o) end) conns) (λ cs,
      match find_bb_last bbs bb with
      | None => Raise OtherError                         (* VerilogParsingError *)
      | Some d =>
          let dict := foldl (λ d c, match c.2 with Some s => dict_set c.1 s d | None => d end) [] cs in
          (* nets on output pins are (re)declared as buffers *)
          rbind (foldl (λ st p, rbind st (λ g, match list_find (λ kv, kv.1 = p) dict with
                                               | Some (_, kv) => add_node g kv.2 Buf [] | None => Ok g end))
                       (Ok (c_g C)) (elements (bb_out d))) (λ g1,
          (* the transformer's add_blackbox: nets not seen yet become buffers *)
          rbind (foldl (λ st kv, rbind st (λ g, if bool_decide (kv.2 ∈ dom g) then Ok g else add_plain g kv.2 Buf)) (Ok g1) dict) (λ g2,
          let '(C', o) := add_blackbox (with_g C g2) d inst (elements (bb_in d)) (elements (bb_out d)) ((λ kv, (kv.1, [kv.2])) <$> dict) in
          match o with Done => Ok C' | Fail e => Raise e end))
      end)
  end.

Definition drop_unused_full (g : circuit) (t : string) : circuit := if bool_decide (fanout g t = ∅) then remove_g g [t] else g.

Definition full_sem (a : ast) (bbs : list bbdef) : res Circuit :=
  let reserved := idents a in
  let t0 := uid_in reserved full_tie0 in
  rbind (add_plain ∅ t0 C0) (λ g,
  let t1 := uid_in (dom g ∪ reserved) full_tie1 in
  rbind (add_plain g t1 C1) (λ g,
  let tx := uid_in (dom g ∪ reserved) full_tiex in
  rbind (add_plain g tx CX) (λ g,
  rbind (foldl (λ st it, rbind st (λ C, full_item t0 t1 tx bbs C it)) (Ok {| c_name := ""; c_g := g; c_bbs := ∅ |}) (a_items a)) (λ C,
  let io : gset string := list_to_set (a_ports a) in
  let ins : gset string := list_to_set (decl_inputs a) in
  let outs : gset string := list_to_set (decl_outputs a) in
  if negb (bool_decide (ins ⊆ io)) || negb (bool_decide (outs ⊆ io)) || negb (bool_decide (io ⊆ ins ∪ outs)) then Raise OtherError else
  let '(g1, o) := set_output_g (c_g C) (decl_outputs a) true in
  match o with Fail e => Raise e | Done =>
    Ok {| c_name := a_name a; c_g := drop_unused_full (drop_unused_full (drop_unused_full g1 t0) t1) tx; c_bbs := c_bbs C |}
  end)))).

(* ---------------------------------------------------------------- comparison up to the names of the constant nodes *)
Definition cname (c : circuit) (n : string) : string :=
  match ty c n with Some C0 => "1'b0" | Some C1 => "1'b1" | Some CX => "1'bx" | _ => n end.
Definition untie_g (c : circuit) : circuit := rename_g (cname c) c.
Definition untie (C : Circuit) : Circuit := with_g C (untie_g (c_g C)).

(* ---------------------------------------------------------------- the documented subset (boolean guard) *)
Definition is_letter (c : ascii) : bool := let k := nat_of_ascii c in ((65 <=? k) && (k <=? 90) || (97 <=? k) && (k <=? 122) || (k =? 95))%nat.
Definition is_idchar (c : ascii) : bool := let k := nat_of_ascii c in is_letter c || ((48 <=? k) && (k <=? 57))%nat.
Definition is_ident (s : string) : bool :=
  match s with EmptyString => false | String c r => is_letter c && forallb is_idchar (list_ascii_of_string r) end.
Definition keywords : list string := ["module"; "endmodule"; "input"; "output"; "wire"; "assign";
                                      "buf"; "and"; "or"; "xor"; "not"; "nand"; "nor"; "xnor"].
Definition is_prim (t : gtype) : bool := bool_decide (t ∈ primitive_gates).
Definition const_ok (o : opd) : bool := match o with ONet _ => true | OConst s => bool_decide (s = "1'b0") || bool_decide (s = "1'b1") end.
Definition is_net (o : opd) : bool := match o with ONet _ => true | OConst _ => false end.

Definition item_drivers (bbs : list bbdef) (it : item) : list string :=
  match it with
  | IGate _ _ (ONet o :: _) => [o]
  | IAssign l _ => [l]
  | IInst bb inst conns => match find_bb_first bbs bb with None => [] | Some d =>
      conns ≫= λ c, match c.2 with Some (ONet s) => if bool_decide (c.1 ∈ bb_out d) then [s] else [] | _ => [] end end
  | _ => [] end.
Definition item_uses (bbs : list bbdef) (it : item) : list string :=
  match it with
  | IGate _ _ (_ :: ins) => ins ≫= opd_ids
  | IAssign _ r => opd_ids r
  | IInst bb inst conns => match find_bb_first bbs bb with None => [] | Some d =>
      conns ≫= λ c, match c.2 with Some (ONet s) => if bool_decide (c.1 ∈ bb_in d) then [s] else [] | _ => [] end end
  | _ => [] end.
Definition item_ok (bbs : list bbdef) (it : item) : bool :=
  match it with
  | IInput ns | IOutput ns | IWire ns => negb (bool_decide (ns = []))
  | IGate t inst ops =>
      is_prim t && (1 <? length ops)%nat && forallb const_ok ops && from_option is_net false (head ops) &&
      (if bool_decide (t ∈ add_single_fanin) then bool_decide (length ops = 2) else true)
  | IAssign _ r => const_ok r
  | IInst bb inst conns =>
      match find_bb_first bbs bb with None => false | Some d =>
        negb (bool_decide (conns = [])) && bool_decide (NoDup (fst <$> conns)) &&
        forallb (λ c : string * option opd, (bool_decide (c.1 ∈ bb_in d) || bool_decide (c.1 ∈ bb_out d)) &&
                        match c.2 with None => true | Some o => const_ok o && (is_net o || bool_decide (c.1 ∈ bb_in d)) end) conns &&
        bool_decide (bb_in d ∩ bb_out d = ∅)
      end
  end.
Definition inst_names (a : ast) : list string := a_items a ≫= λ it, match it with IGate _ i _ | IInst _ i _ => [i] | _ => [] end.

Definition in_subset (a : ast) (bbs : list bbdef) : bool :=
  let ins := decl_inputs a in let outs := decl_outputs a in
  let drv := a_items a ≫= item_drivers bbs in let use := a_items a ≫= item_uses bbs in
  forallb (item_ok bbs) (a_items a) &&
  forallb (λ s, is_ident s && negb (bool_decide (s ∈ keywords))) (elements (idents a)) &&
  bool_decide (NoDup (bb_name <$> bbs)) &&
  bool_decide (NoDup (inst_names a)) &&                            (* instances named, each name once *)
  bool_decide (NoDup ins) && bool_decide (NoDup outs) &&
  bool_decide (NoDup drv) &&                                       (* each net driven once *)
  bool_decide (list_to_set drv ## (list_to_set ins : gset string)) &&
  bool_decide ((list_to_set outs : gset string) ⊆ list_to_set drv ∪ list_to_set ins) &&     (* all declared outputs driven *)
  bool_decide ((list_to_set use : gset string) ⊆ list_to_set drv ∪ list_to_set ins) &&      (* no floating net *)
  bool_decide (NoDup (a_ports a)) &&
  bool_decide ((list_to_set (a_ports a) : gset string) = list_to_set ins ∪ list_to_set outs).

(* ---------------------------------------------------------------- oracle helpers (specification side, used by Run_C14.holds) *)
(* memoising evaluation in rank order (Oracle.evalc recomputes shared cones); its result is only a CANDIDATE: the oracle
   accepts it through the certificate consistentb + agreement with the assignment on the free nodes *)
Definition rank_le (x y : string * nat) : Prop := x.2 ≤ y.2.
Global Instance rank_le_dec x y : Decision (rank_le x y). Proof. unfold rank_le. apply _. Defined.
Definition node_order (c : circuit) : list string :=
  (λ p : string * nat, p.1) <$> merge_sort rank_le (map_to_list (rank_table c)).
Definition mval (m : gmap string bool) (a : val) : val := λ n, default (a n) (m !! n).
Definition fev (c : circuit) (order : list string) (a : val) : val :=
  mval (foldl (λ m n, match c !! n with
               | Some i => <[n := if is_free i then a n else
                                  match n_ty i with C0 => false | C1 => true | t => gate_val t (mval m a) (n_fi i) end]> m
               | None => m end) ∅ order) a.

(* same function at every output and blackbox input pin: exhaustive over the free nodes (at most 8); every candidate valuation
   is accepted only with its consistency certificate; soundness: Proofs/FastVerilogProofs.same_function_sound *)
Definition same_function (Cf Cl : Circuit) : bool :=
  let free := elements (free_nodes (c_g Cf)) in
  let obs := elements (endpoints (c_g Cf)) in
  let of := node_order (c_g Cf) in let ol := node_order (c_g Cl) in
  bool_decide (free_nodes (c_g Cf) = free_nodes (c_g Cl)) && bool_decide (endpoints (c_g Cf) = endpoints (c_g Cl)) &&
  (if (length free <=? 8)%nat && acyclicb (c_g Cf) && acyclicb (c_g Cl) && closedb (c_g Cf) && closedb (c_g Cl) then
     forallb (λ a, let vf := fev (c_g Cf) of a in let vl := fev (c_g Cl) ol a in
                   consistentb (c_g Cf) vf && consistentb (c_g Cl) vl && eq_on free vf a && eq_on free vl a && eq_on obs vf vl)
             (all_vals free)
   else true).
Definition same_function_decided (Cf Cl : Circuit) : bool :=
  (length (elements (free_nodes (c_g Cf))) <=? 8)%nat && acyclicb (c_g Cf) && acyclicb (c_g Cl) && closedb (c_g Cf) && closedb (c_g Cl).

