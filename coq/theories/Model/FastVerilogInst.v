(* C14, character level (2): one anchored match of the fast reader's instance pattern (Gen_fastv.fast_re_inst: identifier, blanks,
   identifier, optional blanks, an opening parenthesis, a non-empty run without semicolon, a closing parenthesis and a semicolon)
   as a string function.  Greedy quantifiers with backtracking: the only backtracking that can succeed is giving back the final
   closing parenthesis of the run, which the function performs explicitly. *)
From Coq Require Import Ascii.
From stdpp Require Import strings.
From CG Require Import Model.FastVerilogText.
Open Scope string_scope.

Definition is_alpha_ (c : ascii) : bool :=
  let k := nat_of_ascii c in ((65 <=? k) && (k <=? 90) || (97 <=? k) && (k <=? 122) || (k =? 95))%nat.
Definition is_word (c : ascii) : bool := let k := nat_of_ascii c in is_alpha_ c || ((48 <=? k) && (k <=? 57))%nat.
(* longest prefix of characters satisfying P, and the rest *)
Fixpoint span (P : ascii → bool) (s : string) : string * string :=
  match s with
  | EmptyString => (EmptyString, EmptyString)
  | String c r => if P c then let '(a, b) := span P r in (String c a, b) else (EmptyString, s)
  end.
Definition scan_ident (s : string) : option (string * string) :=
  match s with String c r => if is_alpha_ c then let '(a, b) := span is_word r in Some (String c a, b) else None | EmptyString => None end.
Fixpoint strip_last (s : string) : option (string * ascii) :=
  match s with
  | EmptyString => None
  | String c EmptyString => Some (EmptyString, c)
  | String c r => match strip_last r with Some (b, l) => Some (String c b, l) | None => None end
  end.
Definition scan_inst (s : string) : option (string * string * string) :=
  match scan_ident s with None => None | Some (g, r1) =>
  let '(w1, r2) := span is_ws r1 in if bool_decide (w1 = EmptyString) then None else
  match scan_ident r2 with None => None | Some (i, r3) =>
  let '(w2, r4) := span is_ws r3 in
  match r4 with
  | String c4 r5 => if Ascii.eqb c4 "("%char then
      let '(run, r6) := span (λ c, negb (Ascii.eqb c ";"%char)) r5 in
      match r6 with
      | String _ _ => match strip_last run with
                      | Some (body, l) => if Ascii.eqb l ")"%char && negb (bool_decide (body = EmptyString)) then Some (g, i, body) else None
                      | None => None end
      | EmptyString => None end
      else None
  | EmptyString => None end end end.
