(* C14, character level: the pure string functions the fast reader applies to the text between the parentheses of a
   primitive instance -- net_str.split(","), n.strip(), and the replacement of the constant spellings -- as Gallina functions
   on strings (Python str semantics on ASCII text). *)
From Coq Require Import Ascii.
From stdpp Require Import strings.
From CG Require Import Gen.Gen_fastv.
Open Scope string_scope.

(* Python str.isspace on ASCII: \t \n \v \f \r, FS GS RS US, space *)
Definition is_ws (c : ascii) : bool :=
  let k := nat_of_ascii c in ((9 <=? k) && (k <=? 13) || (28 <=? k) && (k <=? 32))%nat.
(* s.split(c): at least one piece; adjacent separators give empty pieces *)
Fixpoint split_on (c : ascii) (s : string) : list string :=
  match s with
  | EmptyString => [EmptyString]
  | String x r => if Ascii.eqb x c then EmptyString :: split_on c r
                  else match split_on c r with p :: ps => String x p :: ps | [] => [String x EmptyString] end
  end.
Fixpoint lstrip (s : string) : string :=
  match s with EmptyString => EmptyString | String x r => if is_ws x then lstrip r else s end.
Fixpoint rstrip (s : string) : string :=
  match s with
  | EmptyString => EmptyString
  | String x r => let r' := rstrip r in if is_ws x && bool_decide (r' = EmptyString) then EmptyString else String x r'
  end.
Definition strip (s : string) : string := rstrip (lstrip s).
(* nets = [n.strip() for n in net_str.split(",")] *)
Definition fast_split (s : string) : list string := strip <$> split_on ","%char s.
(* nets = [tie_0 if n == "1'b0" else tie_1 if n == "1'b1" else n for n in nets] *)
Definition fast_replace (t0 t1 : string) (n : string) : string :=
  if bool_decide (n = fast_gate_c0) then t0 else if bool_decide (n = fast_gate_c1) then t1 else n.
Definition fast_nets (t0 t1 : string) (s : string) : list string := fast_replace t0 t1 <$> fast_split s.

(* a rendering of an operand list: every operand padded with arbitrary blanks, separated by commas *)
Fixpoint join_with (c : ascii) (ps : list string) : string :=
  match ps with [] => EmptyString | [p] => p | p :: q => p ++ String c (join_with c q) end.
Definition pad (x : string * string * string) : string := x.1.1 ++ x.1.2 ++ x.2.
