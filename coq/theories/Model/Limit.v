(* Model of tx.limit_fanin, tx.limit_fanout (replay validators, DESIGN.md 4.2) and tx.insert_registers.
   Definitions only.  The tables (gatemap, k guards, helper names and helper type) come from the
   regenerated Gen_limit.v; the models are parametrised by them so that the lemmas of
   Proofs/LimitProofs.v are stated for every table that satisfies a decidable side condition. *)
From stdpp Require Import strings gmap sets fin_sets pretty sorting.
From CG Require Export Types Sem Api Oracle Model.Lint.
From CG Require Import Gen.Gen_limit Gen.Gen_lint.
Open Scope string_scope.

(* ---- "same function": both circuits have the same behaviours as seen on S ---- *)
Definition refines (S : gset string) (c c' : circuit) : Prop :=
  ∀ v', consistent c' v' → ∃ v, consistent c v ∧ agrees S v v'.
Definition equiv_on (S : gset string) (c c' : circuit) : Prop := refines S c c' ∧ refines S c' c.

(* ---- tables ---- *)
Record limit_tables := { t_gatemap : list (gtype * gtype); t_in_min : nat; t_in_suffix : string;
                         t_out_min : nat; t_out_suffix : string; t_helper : gtype }.
Definition gen_limit_tables : limit_tables :=
  {| t_gatemap := fanin_gatemap; t_in_min := fanin_min_k; t_in_suffix := fanin_suffix;
     t_out_min := fanout_min_k; t_out_suffix := fanout_suffix; t_helper := fanout_helper |}.
Fixpoint assoc (l : list (gtype * gtype)) (t : gtype) : option gtype :=
  match l with [] => None | (a, b) :: r => if decide (a = t) then Some b else assoc r t end.
Definition multi_types : list gtype := Gen_lint.multi_input_types.
Definition is_multi (t : gtype) : bool := bool_decide (t ∈ multi_types).
(* the non-inverting two-operand gate of each family *)
Definition base_op (t : gtype) : gtype :=
  match t with And | Nand => And | Or | Nor => Or | Xor | Xnor => Xor | t => t end.
(* the decidable obligation on the regenerated tables (discharged by vm_compute in Properties/C05.v) *)
Definition limit_tables_ok (T : limit_tables) : bool :=
  forallb (λ t, bool_decide (assoc (t_gatemap T) t = Some (base_op t))) [And; Nand; Or; Nor; Xor; Xnor]
  && forallb (λ p, bool_decide (p.1 ∈ [And; Nand; Or; Nor; Xor; Xnor])) (t_gatemap T)
  && bool_decide (multi_types ≡ₚ [And; Nand; Or; Nor; Xor; Xnor])
  && bool_decide (t_helper T = Buf) && (t_in_min T =? 2)%nat && (t_out_min T =? 2)%nat
  && negb (has_dot (t_in_suffix T)) && negb (has_dot (t_out_suffix T)).

(* ---- the node loop: `for n in ck.nodes(): i = 0; while ...: ...; i += 1` seen from the step list ----
   A step names the node it works on; consecutive steps on the same node count i = 0, 1, ...; a node that
   was left is never taken up again (each node is visited once).  Any visiting order is accepted (the
   order of a Python set is arbitrary), the final test "no node above k" forces every node to be finished. *)
Record lstate := { ls_cur : option (string * nat); ls_done : gset string }.
Definition ls_init : lstate := {| ls_cur := None; ls_done := ∅ |}.
Definition next_index (st : lstate) (n : string) : option (nat * lstate) :=
  match ls_cur st with
  | Some (n', i) =>
      if decide (n = n') then Some (i, {| ls_cur := Some (n, S i); ls_done := ls_done st |})
      else if decide (n ∈ ls_done st) then None
      else Some (0, {| ls_cur := Some (n, 1); ls_done := {[n']} ∪ ls_done st |})
  | None => Some (0, {| ls_cur := Some (n, 1); ls_done := ls_done st |})
  end.
Definition step3 := (string * string * string)%type.      (* (n, f0, f1) *)

(* ---- limit_fanin ---- *)
(* one iteration of the while loop on node n, the two popped operands being f0 and f1 *)
Definition fanin_step (T : limit_tables) (c : circuit) (k : nat) (n f0 f1 : string) (i : nat) : res circuit :=
  match c !! n with None => BadOrder | Some inf =>
  if negb (k <? size (n_fi inf))%nat then BadOrder else
  if bool_decide (f0 = f1) || negb (bool_decide (f0 ∈ n_fi inf)) || negb (bool_decide (f1 ∈ n_fi inf)) then BadOrder else
  match assoc (t_gatemap T) (n_ty inf) with None => Raise KeyError | Some t' =>       (* gatemap[ck.type(n)] *)
  let m := uid c (n ++ t_in_suffix T ++ pretty i) in
  (* add(m, t', fanin=[f0, f1], fanout=n): a helper type that cannot take two operands or drive a gate is rejected *)
  if negb (is_multi t') then Raise ValueError else
  if starts_digit m then Raise ValueError else
  (* connect([f0, f1], m): blackbox pins cannot drive a gate *)
  if existsb (λ f, is_in (ty c f) [BbIn; BbOut]) [f0; f1] then Raise ValueError else
  Ok (<[m := mk_node t' false {[f0; f1]}]> (<[n := upd_fi (λ s, {[m]} ∪ s ∖ {[f0; f1]}) inf]> c))
  end end.

Fixpoint fanin_steps (T : limit_tables) (c : circuit) (k : nat) (st : lstate) (steps : list step3) : res circuit :=
  match steps with
  | [] => if forallb (λ p, size (n_fi p.2) <=? k)%nat (map_to_list c) then Ok c else BadOrder
  | (n, f0, f1) :: rest =>
      match next_index st n with None => BadOrder | Some (i, st') =>
        rbind (fanin_step T c k n f0 f1 i) (λ c', fanin_steps T c' k st' rest) end
  end.
Definition limit_fanin_run_with (T : limit_tables) (C : Circuit) (k : nat) (steps : list step3) : res Circuit :=
  if (k <? t_in_min T)%nat then Raise ValueError else rmap (with_g C) (fanin_steps T (c_g C) k ls_init steps).
Definition limit_fanin_run := limit_fanin_run_with gen_limit_tables.

(* ---- limit_fanout ---- *)
(* the loads in L read m instead of n *)
Definition reroute (c : circuit) (n m : string) (L : gset string) : circuit :=
  map_imap (λ x i, Some (if bool_decide (x ∈ L) then upd_fi (λ s, {[m]} ∪ s ∖ {[n]}) i else i)) c.

Definition fanout_step (T : limit_tables) (c : circuit) (k : nat) (n f0 f1 : string) (i : nat) : res circuit :=
  match c !! n with None => BadOrder | Some inf =>
  let fo := fanout c n in
  if negb (k <? size fo)%nat then BadOrder else
  if bool_decide (f0 = f1) || negb (bool_decide (f0 ∈ fo)) || negb (bool_decide (f1 ∈ fo)) then BadOrder else
  let m := uid c (n ++ t_out_suffix T ++ pretty i) in
  let h := t_helper T in
  (* add(m, h, fanin=n, fanout=[f0, f1]) *)
  if negb (bool_decide (h ∈ [Buf; Not; And; Nand; Or; Nor; Xor; Xnor])) then Raise ValueError else
  if starts_digit m then Raise ValueError else
  (* connect(m, [f0, f1]) *)
  if existsb (λ f, is_in (ty c f) conn_no_fanin
                  || (is_in (ty c f) conn_single_fanin && (1 <? size (fanin c f ∖ {[n]}) + 1)%nat)) [f0; f1] then Raise ValueError else
  (* connect(n, m): blackbox pins cannot drive the helper *)
  if is_in (Some (n_ty inf)) [BbIn; BbOut] then Raise ValueError else
  Ok (<[m := mk_node h false {[n]}]> (reroute c n m {[f0; f1]}))
  end.

Fixpoint fanout_steps (T : limit_tables) (c : circuit) (k : nat) (st : lstate) (steps : list step3) : res circuit :=
  match steps with
  | [] => if forallb (λ n, size (fanout c n) <=? k)%nat (elements (dom c)) then Ok c else BadOrder
  | (n, f0, f1) :: rest =>
      match next_index st n with None => BadOrder | Some (i, st') =>
        rbind (fanout_step T c k n f0 f1 i) (λ c', fanout_steps T c' k st' rest) end
  end.
Definition limit_fanout_run_with (T : limit_tables) (C : Circuit) (k : nat) (steps : list step3) : res Circuit :=
  if (k <? t_out_min T)%nat then Raise ValueError else rmap (with_g C) (fanout_steps T (c_g C) k ls_init steps).
Definition limit_fanout_run := limit_fanout_run_with gen_limit_tables.

(* ---- insert_registers(c, num_stages) with the default flop, ports and suffix ---- *)
(* Python's round(a / b) for small non-negative integers: round half to even *)
Definition round_half_even (a b : nat) : nat :=
  let q := (a / b)%nat in let r := (a mod b)%nat in
  if (2 * r <? b)%nat then q else if (b <? 2 * r)%nat then S q else if Nat.even q then q else S q.
Definition ff_def : bbdef := {| bb_name := "ff"; bb_in := {["clk"; "d"]}; bb_out := {["q"]} |}.
Definition reg_suffix : string := "_cg_insert_reg_q_".
Definition clk_name : string := "clk".

(* one flop: the loads of n are moved to a new buffer q driven by ff_n.q; ff_n.d reads n *)
Definition splice (C : Circuit) (n : string) (i : nat) : res Circuit :=
  let g := c_g C in
  let q := uid g (n ++ reg_suffix ++ pretty i) in
  let inst := "ff_" ++ n in
  if starts_digit q then Raise ValueError else
  if bool_decide (inst ∈ dom (c_bbs C)) then Raise ValueError else
  let g1 := <[q := mk_node Buf false {[pin inst "q"]}]> (reroute g n q (fanout g n)) in
  if existsb (λ p, bool_decide (pin inst p ∈ dom g1)) ["clk"; "d"; "q"] then Raise ValueError else
  if is_in (ty g n) [BbIn; BbOut] || is_in (ty g clk_name) [BbIn; BbOut] then Raise ValueError else
  Ok {| c_name := c_name C;
        c_g := <[pin inst "d" := mk_node BbIn false {[n]}]>
               (<[pin inst "clk" := mk_node BbIn false {[clk_name]}]>
               (<[pin inst "q" := mk_node BbOut false ∅]> g1));
        c_bbs := <[inst := ff_def]> (c_bbs C) |}.

Definition reg_levels (maxd inc : nat) : list nat := filter (λ l, l < maxd) ((λ j, S j * inc) <$> seq 0 maxd).
(* order: iteration order of the graph (insertion order), a permutation of the nodes *)
Definition reg_selection (g : circuit) (s : nat) (order : list string) : res (list (string * nat)) :=
  let r := rank_table g in
  let maxd := foldr (λ n acc, max (rank_of r n) acc) 0 order in
  let inc := round_half_even maxd (S s) in
  if (inc =? 0)%nat then Raise ValueError                       (* range() arg 3 must not be zero *)
  else Ok (l ← reg_levels maxd inc; (λ n, (n, l)) <$> filter (λ n, rank_of r n = l) order).
Definition splice_all (C : Circuit) (sel : list (string * nat)) : res Circuit :=
  foldl (λ acc p, rbind acc (λ C', splice C' p.1 p.2)) (Ok C) sel.
Definition insert_registers (C : Circuit) (s : nat) (order : list string) : res Circuit :=
  let g := c_g C in
  if negb (bool_decide (NoDup order) && bool_decide (list_to_set order = dom g)) then BadOrder else
  (* fanin_depth raises on a cyclic circuit *)
  if negb (bool_decide (g = ∅)) && negb (acyclicb g) then Raise ValueError else
  let g1 := if bool_decide (clk_name ∈ dom g) then g else <[clk_name := mk_node Input false ∅]> g in
  rbind (reg_selection g s order) (λ sel, splice_all (with_g C g1) sel).

(* every inserted flop behaves as a wire *)
Definition transparent (C : Circuit) (v : val) : Prop :=
  ∀ inst, inst ∈ dom (c_bbs C) → v (pin inst "q") = v (pin inst "d").
(* the circuit in which every flop IS a wire: q pins become buffers of the d pins (used by the oracle) *)
Definition short_flops (C : Circuit) : circuit :=
  set_fold (λ inst g, <[pin inst "q" := mk_node Buf false {[pin inst "d"]}]> g) (c_g C) (dom (c_bbs C)).

(* ---- executable specification used by the oracle of Run_C05 (independent of the run validators above) ----
   equiv_check_ren c c' on ρ: both circuits closed and acyclic, same free nodes (c' may have the extra ones in `ext`),
   and for EVERY valuation of the free nodes the unique consistent valuations (evalc, certified by consistentb)
   give n in c and ρ n in c' the same value, for all n in `on`. *)
(* memoised evaluation in rank order; whatever it computes is only used after consistentb has certified it *)
Definition node_val (m : gmap string bool) (a : val) (n : string) (i : ninfo) : bool :=
  if is_free i then a n else
  match n_ty i with C0 => false | C1 => true | t => gate_val t (λ f, default (a f) (m !! f)) (n_fi i) end.
Definition rk_le (p q : nat * (string * ninfo)) : Prop := p.1 ≤ q.1.
Global Instance rk_le_dec p q : Decision (rk_le p q).
Proof. unfold rk_le. apply _. Defined.
Definition topo (c : circuit) : list (nat * (string * ninfo)) :=
  let r := rank_table c in merge_sort rk_le ((λ p, (rank_of r p.1, p)) <$> map_to_list c).
Definition mval (t : list (nat * (string * ninfo))) (a : val) : val :=
  let m := foldl (λ m p, <[p.2.1 := node_val m a p.2.1 p.2.2]> m) ∅ t in λ n, default (a n) (m !! n).
Definition equiv_check_gen (c c' : circuit) (ext : gset string) (on : list string) (ρ : string → string) : bool :=
  closedb c && closedb c' && acyclicb c && acyclicb c'
  && bool_decide (free_nodes c ⊆ free_nodes c') && bool_decide (free_nodes c' ⊆ free_nodes c ∪ ext)
  && forallb (λ n, bool_decide (ρ n ∈ dom c')) on
  && (let t := topo c in let t' := topo c' in let fr := elements (free_nodes c') in
      forallb (λ a, let v := mval t a in let v' := mval t' a in
                    consistentb c v && consistentb c' v' && eq_on fr v a && eq_on fr v' a
                    && forallb (λ n, eqb (v n) (v' (ρ n))) on)
              (all_vals fr)).
Definition equiv_check (c c' : circuit) : bool := equiv_check_gen c c' ∅ (elements (dom c)) id.
Definition equiv_check_ext (c c' : circuit) (ext : gset string) : bool := equiv_check_gen c c' ext (elements (dom c)) id.
Definition equiv_check_ren (c c' : circuit) (on : list string) (ρ : string → string) : bool := equiv_check_gen c c' ∅ on ρ.
Definition max_depth (g : circuit) : nat := map_fold (λ _ d acc, max d acc) 0 (rank_table g).
Definition no_boundary (g : circuit) (s : nat) : bool := (round_half_even (max_depth g) (S s) =? 0)%nat.

(* cyclic circuits (no unique evaluation): brute force over all valuations of the nodes, for small circuits only.
   dir 1: every consistent valuation of c' is consistent for c as it stands; dir 2: every consistent valuation of c
   extends over the new nodes to a consistent valuation of c'. *)
Definition val_set (ones : list string) : val := let s : gset string := list_to_set ones in λ n, bool_decide (n ∈ s).
Definition equiv_brute (c c' : circuit) : bool :=
  closedb c && closedb c' && bool_decide (dom c ⊆ dom c') &&
  forallb (λ o, let v := val_set o in negb (consistentb c' v) || consistentb c v) (subsets (elements (dom c'))) &&
  (let new := subsets (elements (dom c' ∖ dom c)) in
   forallb (λ o, negb (consistentb c (val_set o)) || existsb (λ w, consistentb c' (val_set (o ++ w))) new)
           (subsets (elements (dom c)))).
Definition equiv_oracle (c c' : circuit) : bool := if acyclicb c then equiv_check c c' else equiv_brute c c'.

(* ---- the same three functions written with the validated API model of Base/Api.v (disconnect_g, add_g with uid=True,
        connect_g inside add_g, add_blackbox).  `agree` of Run_C05 replays the implementation through THESE; Proofs/LimitApi.v
        shows that whenever they return a circuit the direct models above return the same one. ---- *)
Definition fl_uid : add_flags := {| af_out := false; af_conn := false; af_redef := false; af_uid := true |}.
Definition of_add (r : circuit * outcome * string) : res circuit :=
  match r.1.2 with Done => Ok r.1.1 | Fail e => Raise e end.

Definition fanin_step_api (T : limit_tables) (c : circuit) (k : nat) (n f0 f1 : string) (i : nat) : res circuit :=
  match c !! n with None => BadOrder | Some inf =>
  if negb (k <? size (n_fi inf))%nat then BadOrder else
  if bool_decide (f0 = f1) || negb (bool_decide (f0 ∈ n_fi inf)) || negb (bool_decide (f1 ∈ n_fi inf)) then BadOrder else
  match assoc (t_gatemap T) (n_ty inf) with None => Raise KeyError | Some t' =>
  (* ck.disconnect([f0, f1], n); ck.add(f"{n}_limit_fanin_{i}", gatemap[..], fanin=[f0, f1], fanout=n, uid=True) *)
  of_add (add_g (disconnect_g c [f0; f1] [n]) (n ++ t_in_suffix T ++ pretty i) t' [f0; f1] [n] fl_uid)
  end end.
Definition fanout_step_api (T : limit_tables) (c : circuit) (k : nat) (n f0 f1 : string) (i : nat) : res circuit :=
  match c !! n with None => BadOrder | Some inf =>
  let fo := fanout c n in
  if negb (k <? size fo)%nat then BadOrder else
  if bool_decide (f0 = f1) || negb (bool_decide (f0 ∈ fo)) || negb (bool_decide (f1 ∈ fo)) then BadOrder else
  (* ck.disconnect(n, [f0, f1]); ck.add(f"{n}_limit_fanout_{i}", "buf", fanin=n, fanout=[f0, f1], uid=True) *)
  of_add (add_g (disconnect_g c [n] [f0; f1]) (n ++ t_out_suffix T ++ pretty i) (t_helper T) [n] [f0; f1] fl_uid)
  end.
Fixpoint steps_api (stepf : circuit → nat → string → string → string → nat → res circuit) (finalb : circuit → nat → bool)
    (c : circuit) (k : nat) (st : lstate) (steps : list step3) : res circuit :=
  match steps with
  | [] => if finalb c k then Ok c else BadOrder
  | (n, f0, f1) :: rest =>
      match next_index st n with None => BadOrder | Some (i, st') =>
        rbind (stepf c k n f0 f1 i) (λ c', steps_api stepf finalb c' k st' rest) end
  end.
Definition fanin_final (c : circuit) (k : nat) : bool := forallb (λ p, size (n_fi p.2) <=? k)%nat (map_to_list c).
Definition fanout_final (c : circuit) (k : nat) : bool := forallb (λ n, size (fanout c n) <=? k)%nat (elements (dom c)).
Definition limit_fanin_run_api (C : Circuit) (k : nat) (steps : list step3) : res Circuit :=
  if (k <? fanin_min_k)%nat then Raise ValueError
  else rmap (with_g C) (steps_api (fanin_step_api gen_limit_tables) fanin_final (c_g C) k ls_init steps).
Definition limit_fanout_run_api (C : Circuit) (k : nat) (steps : list step3) : res Circuit :=
  if (k <? fanout_min_k)%nat then Raise ValueError
  else rmap (with_g C) (steps_api (fanout_step_api gen_limit_tables) fanout_final (c_g C) k ls_init steps).

(* insert_registers(c, num_stages, ff, d_port, q_port, other_flop_io, q_suffix) through the API model, all arguments.
   ins/outs: iteration order of the blackbox's input / output sets.  `other` is the dict other_flop_io in insertion order:
   its KEYS are added as inputs when absent and are used as port names, its VALUES are the nodes wired to those ports
   (this is what the code does; for the default {"clk": "clk"} the two readings coincide). *)
Record reg_args := { ra_ff : bbdef; ra_ins : list string; ra_outs : list string; ra_d : string; ra_q : string;
                     ra_other : list (string * string); ra_suffix : string }.
Definition default_reg_args : reg_args :=
  {| ra_ff := ff_def; ra_ins := ["clk"; "d"]; ra_outs := ["q"]; ra_d := "d"; ra_q := "q";
     ra_other := [(clk_name, clk_name)]; ra_suffix := reg_suffix |}.
(* dict.update: an existing key keeps its position and gets the new value, new keys are appended *)
Fixpoint dict_set (d : list (string * list string)) (k : string) (v : list string) : list (string * list string) :=
  match d with [] => [(k, v)] | (k', v') :: r => if decide (k' = k) then (k, v) :: r else (k', v') :: dict_set r k v end.
Definition splice_api (A : reg_args) (C : Circuit) (n : string) (i : nat) : res Circuit :=
  let g := c_g C in
  let fo := elements (fanout g n) in
  let '(g2, o, q) := add_g (disconnect_g g [n] fo) (n ++ ra_suffix A ++ pretty i) Buf [] fo fl_uid in
  match o with Fail e => Raise e | Done =>
  let conns := foldl (λ d kv, dict_set d kv.1 [kv.2]) [(ra_d A, [n]); (ra_q A, [q])] (ra_other A) in
  let '(C', o') := add_blackbox (with_g C g2) (ra_ff A) ("ff_" ++ n) (ra_ins A) (ra_outs A) conns in
  match o' with Done => Ok C' | Fail e => Raise e end end.
Definition add_other_inputs (A : reg_args) (g : circuit) : circuit :=
  foldl (λ g kv, if bool_decide (kv.1 ∈ dom g) then g else <[kv.1 := mk_node Input false ∅]> g) g (ra_other A).
Definition insert_registers_api (A : reg_args) (C : Circuit) (s : nat) (order : list string) : res Circuit :=
  let g := c_g C in
  if negb (bool_decide (NoDup order) && bool_decide (list_to_set order = dom g)) then BadOrder else
  if negb (bool_decide (g = ∅)) && negb (acyclicb g) then Raise ValueError else
  rbind (reg_selection g s order) (λ sel,
    foldl (λ acc p, rbind acc (λ C', splice_api A C' p.1 p.2)) (Ok (with_g C (add_other_inputs A g))) sel).
Definition short_flops_gen (dport qport : string) (C : Circuit) : circuit :=
  set_fold (λ inst g, <[pin inst qport := mk_node Buf false {[pin inst dport]}]> g) (c_g C) (dom (c_bbs C)).
