(* Model of utils.lint (circuitgraph/utils.py).  The type lists and flag defaults come from the
   regenerated Gen_lint.v; the rule guards are checked textually by the translator (fail closed). *)
From Coq Require Import Ascii.
From stdpp Require Import strings gmap sets.
From CG Require Export Types Gen.Gen_types.
From CG Require Import Gen.Gen_lint.
Open Scope string_scope.

Record lint_flags := { fail_fast : bool; unloaded : bool; undriven : bool; single_in : bool }.
Definition default_flags :=
  {| fail_fast := default_fail_fast; unloaded := default_unloaded; undriven := default_undriven; single_in := default_single_input_gates |}.

(* "." in g  /  g.split(".")[0] *)
Fixpoint has_dot (s : string) : bool :=
  match s with EmptyString => false | String a r => if Ascii.eqb a "."%char then true else has_dot r end.
Fixpoint before_dot (s : string) : string :=
  match s with EmptyString => EmptyString | String a r => if Ascii.eqb a "."%char then EmptyString else String a (before_dot r) end.

Definition inl (t : gtype) (l : list gtype) : bool := bool_decide (t ∈ l).
Record tables := { supported_types : list gtype; zero_input_types : list gtype; single_input_types : list gtype; multi_input_types : list gtype }.
Definition gen_tables := {| supported_types := Gen_types.supported_types; zero_input_types := Gen_lint.zero_input_types;
  single_input_types := Gen_lint.single_input_types; multi_input_types := Gen_lint.multi_input_types |}.

(* the rules of the per-node loop, in source order; true = `handle` is called *)
Definition node_rules (T : tables) (C : Circuit) (f : lint_flags) (n : string) (i : ninfo) : list bool :=
  let c := c_g C in let t := n_ty i in
  [ bool_decide (t = NoTy);                                              (* no type attribute *)
    negb (inl t (supported_types T)) && negb (bool_decide (t = NoTy));       (* unsupported type *)
    has_dot n && negb (bool_decide (before_dot n ∈ dom (c_bbs C)));      (* blackbox syntax without instance *)
    inl t (zero_input_types T) && (0 <? size (n_fi i))%nat;
    bool_decide (t = BbOut) && (1 <? size (fanout c n))%nat;
    bool_decide (t = BbOut) && existsb (λ m, negb (bool_decide (ty c m = Some Buf))) (elements (fanout c n));
    inl t (single_input_types T) && (1 <? size (n_fi i))%nat;
    undriven f && inl t (single_input_types T ++ multi_input_types T)%list && (size (n_fi i) <? 1)%nat;
    single_in f && inl t (multi_input_types T) && (size (n_fi i) <? 2)%nat;
    unloaded f && negb (n_out i) && bool_decide (fanout c n = ∅) ].
Definition node_bad T C f n i : bool := existsb id (node_rules T C f n i).

Definition pin (inst p : string) := inst ++ "." ++ p.
Definition pins_bad (C : Circuit) (inst : string) (ps : gset string) (want : gtype) : bool :=
  existsb (λ p, negb (bool_decide (ty (c_g C) (pin inst p) = Some want))) (elements ps).
Definition bb_bad (C : Circuit) (inst : string) (d : bbdef) : bool :=
  pins_bad C inst (bb_in d) BbIn || pins_bad C inst (bb_out d) BbOut.

(* lint(c, fail_fast, unloaded, undriven, single_input_gates): every path that reports an error ends in
   ValueError (immediately when fail_fast, at the end otherwise), so the outcome does not depend on the
   iteration order of c.nodes() *)
Definition lint_with (T : tables) (C : Circuit) (f : lint_flags) : res unit :=
  if existsb (λ p, node_bad T C f p.1 p.2) (map_to_list (c_g C)) || existsb (λ p, bb_bad C p.1 p.2) (map_to_list (c_bbs C))
  then Raise ValueError else Ok ().
Definition lint := lint_with gen_tables.
Definition lint_clean (C : Circuit) : Prop := lint C default_flags = Ok ().
Definition lint_cleanb (C : Circuit) : bool := bool_decide (lint C default_flags = Ok ()).
