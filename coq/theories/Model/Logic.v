(* Model of circuitgraph/logic.py (half_adder, full_adder, adder, mux, popcount) and of the bit helpers
   clog2 / int_to_bin / bin_to_int of circuitgraph/utils.py.  Definitions only.
   Circuits are association lists (name, node) turned into gmaps; the lists follow the order in which the
   Python code creates the nodes, the names are the Python f-strings. *)
From stdpp Require Import strings gmap sets pretty numbers.
From CG Require Export Types.
Open Scope string_scope.
Open Scope list_scope.   (* ++ is list append below; string appends are written with %string *)

(* ------------------------------------------------------------------ utils.py helpers *)

(* clog2(num): ValueError below 1, otherwise the doubling loop.  Fuel: one more than the number of doublings
   that can happen (never exhausted, see LogicProofs.clog2_no_fuel). *)
Fixpoint clog2_loop (fuel : nat) (num shifter : Z) (accum : nat) : res nat :=
  match fuel with
  | O => OutOfFuel
  | S f => if (shifter <? num)%Z then clog2_loop f num (2 * shifter)%Z (S accum) else Ok accum
  end.
Definition clog2 (num : Z) : res nat :=
  if (num <? 1)%Z then Raise ValueError else clog2_loop (S (Z.to_nat (Z.log2_up num))) num 1 0.

(* bin(i)[2:] for i >= 0: most significant digit first, "0" for 0 *)
Fixpoint pos_bits_le (p : positive) : list bool :=
  match p with xH => [true] | xO q => false :: pos_bits_le q | xI q => true :: pos_bits_le q end.
Definition bin_digits (i : N) : list bool :=
  match i with N0 => [false] | Npos p => reverse (pos_bits_le p) end.
(* str.zfill(w): pads on the left, never truncates *)
Definition zfill (w : nat) (l : list bool) : list bool := replicate (w - length l) false ++ l.
Definition int_to_bin (i : N) (w : nat) (lend : bool) : list bool :=
  let b := zfill w (bin_digits i) in if lend then reverse b else b.
(* int(s, 2): ValueError on the empty string *)
Definition of_msb (l : list bool) : N := foldl (λ acc b, (2 * acc + N.b2n b)%N) 0%N l.
Definition bin_to_int (b : list bool) (lend : bool) : res N :=
  let s := if lend then reverse b else b in
  match s with [] => Raise ValueError | _ => Ok (of_msb s) end.

(* ------------------------------------------------------------------ circuits *)
Definition nd (n : string) (t : gtype) (o : bool) (fi : list string) : string * ninfo :=
  (n, mk_node t o (list_to_set fi)).
Definition mkC (name : string) (l : list (string * ninfo)) : Circuit :=
  {| c_name := name; c_g := list_to_map l; c_bbs := ∅ |}.
Definition pre (p n : string) : string := (p ++ "_" ++ n)%string.                 (* f"{p}_{n}" *)
Definition bitname (s : string) (i : nat) : string := (s ++ pretty i)%string.     (* f"a_{i}" with s = "a_" *)

Definition half_adder_l : list (string * ninfo) :=
  [nd "x" Input false []; nd "y" Input false []; nd "c" And true ["x"; "y"]; nd "s" Xor true ["x"; "y"]].
Definition half_adder := mkC "half_adder" half_adder_l.

(* the gates of a full adder whose own nodes are named by q (q = id at top level, q = pre inst inside an
   instance): two half adder instances x_y_ha (on x, y) and cin_s_ha (on x_y_ha_s, cin), with their inputs
   turned into driven buffers and their output marks removed by add_subcircuit, then cout and s *)
Definition fa_core (q : string → string) (o : bool) : list (string * ninfo) :=
  [ nd (q "x_y_ha_x") Buf false [q "x"]; nd (q "x_y_ha_y") Buf false [q "y"];
    nd (q "x_y_ha_c") And false [q "x_y_ha_x"; q "x_y_ha_y"]; nd (q "x_y_ha_s") Xor false [q "x_y_ha_x"; q "x_y_ha_y"];
    nd (q "cin_s_ha_x") Buf false [q "x_y_ha_s"]; nd (q "cin_s_ha_y") Buf false [q "cin"];
    nd (q "cin_s_ha_c") And false [q "cin_s_ha_x"; q "cin_s_ha_y"]; nd (q "cin_s_ha_s") Xor false [q "cin_s_ha_x"; q "cin_s_ha_y"];
    nd (q "cout") Or o [q "x_y_ha_c"; q "cin_s_ha_c"]; nd (q "s") Buf o [q "cin_s_ha_s"] ].
Definition full_adder_l : list (string * ninfo) :=
  [nd "x" Input false []; nd "y" Input false []; nd "cin" Input false []] ++ fa_core id true.
Definition full_adder := mkC "full_adder" full_adder_l.

(* add_subcircuit(full_adder(), p, {x: a, y: b, cin: carry, s: out}): the instance's nodes (the connection
   p_s -> out shows up as the fan-in of out) *)
Definition fa_sub (p a b carry : string) : list (string * ninfo) :=
  [nd (pre p "x") Buf false [a]; nd (pre p "y") Buf false [b]; nd (pre p "cin") Buf false [carry]] ++ fa_core (pre p) false.

(* the carry entering bit i *)
Definition carry_name (i : nat) : string :=
  match i with O => "cin" | S j => pre (bitname "fa_" j) "cout" end.
Definition adder_slice (i : nat) : list (string * ninfo) :=
  [ nd (bitname "a_" i) Input false []; nd (bitname "b_" i) Input false [];
    nd (bitname "out_" i) Buf true [pre (bitname "fa_" i) "s"] ]
  ++ fa_sub (bitname "fa_" i) (bitname "a_" i) (bitname "b_" i) (carry_name i).
Definition adder_l (w : nat) (ci co : bool) : list (string * ninfo) :=
  nd "cin" (if ci then Input else C0) false [] :: flat_map adder_slice (seq 0 w)
  ++ (if co then [nd "cout" Buf true [carry_name w]] else []).
Definition adder (w : nat) (ci co : bool) : Circuit := mkC "adder" (adder_l w ci co).

(* ---- mux: itertools.product over the reversed list of [not_sel_i, sel_i] pairs, first w tuples ---- *)
Fixpoint product {A} (ls : list (list A)) : list (list A) :=
  match ls with [] => [[]] | l :: r => x ← l; t ← product r; [x :: t] end.
Definition sel_pair (j : nat) : list string := [bitname "not_sel_" j; bitname "sel_" j].
Definition mux_tuples (k : nat) : list (list string) := product (reverse (sel_pair <$> seq 0 k)).
Definition mux_l (w k : nat) : list (string * ninfo) :=
  ((λ i, nd (bitname "in_" i) Input false []) <$> seq 0 w)
  ++ flat_map (λ j, [nd (bitname "sel_" j) Input false []; nd (bitname "not_sel_" j) Not false [bitname "sel_" j]]) (seq 0 k)
  ++ [nd "out" Or true (bitname "and_" <$> seq 0 w)]
  ++ imap (λ i sel, nd (bitname "and_" i) And false (sel ++ [bitname "in_" i])) (take w (mux_tuples k)).
Definition mux (w : nat) : res Circuit :=
  rbind (clog2 (Z.of_nat w)) (λ k, Ok (mkC "mux" (mux_l w k))).

(* ---- popcount: queue of bit vectors, pairwise added ---- *)
Definition pad (aw : nat) (l : list string) : list string := l ++ replicate (aw - length l) "tie0".
(* add_subcircuit(adder(aw, carry_out=True), p); relabel p_cout -> p_out_aw; connect ns[j] -> p_a_j, ms[j] -> p_b_j:
   the adder's node list (see adder_l / adder_slice above) under the instance naming, operand inputs turned into
   buffers driven by the connected nets, all output marks dropped, cin a constant 0 *)
Definition pc_name (p : string) (aw : nat) (n : string) : string :=
  if bool_decide (n = "cout") then pre p (bitname "out_" aw) else pre p n.
Definition pc_slice (q : string → string) (na nb : string) (i : nat) : list (string * ninfo) :=
  let p := bitname "fa_" i in
  [ nd (q (bitname "a_" i)) Buf false [na]; nd (q (bitname "b_" i)) Buf false [nb];
    nd (q (bitname "out_" i)) Buf false [q (pre p "s")];
    nd (q (pre p "x")) Buf false [q (bitname "a_" i)]; nd (q (pre p "y")) Buf false [q (bitname "b_" i)];
    nd (q (pre p "cin")) Buf false [q (carry_name i)] ]
  ++ fa_core (λ s, q (pre p s)) false.
Definition pc_adder (p : string) (aw : nat) (ns ms : list string) : list (string * ninfo) :=
  let q := pc_name p aw in
  nd (q "cin") C0 false [] :: flat_map (λ i, pc_slice q (ns !!! i) (ms !!! i) i) (seq 0 aw)
  ++ [nd (q "cout") Buf false [q (carry_name aw)]].

Fixpoint popcount_loop (fuel i : nat) (ps : list (list string)) (acc : list (string * ninfo))
  : res (list string * list (string * ninfo)) :=
  match fuel with
  | O => OutOfFuel
  | S f =>
    match ps with
    | [] => Raise IndexError                     (* ps[0] after the loop, w = 0 *)
    | [o] => Ok (o, acc)
    | ns :: ms :: rest =>
        let aw := max (length ns) (length ms) in
        let p := bitname "add_" i in
        popcount_loop f (S i) (rest ++ [(λ j, pre p (bitname "out_" j)) <$> seq 0 (S aw)])
                      (acc ++ pc_adder p aw (pad aw ns) (pad aw ms))
    end
  end.
Definition popcount_l (w : nat) : res (list (string * ninfo)) :=
  let ins := (λ i, nd (bitname "in_" i) Input false []) <$> seq 0 w in
  rbind (popcount_loop (S w) 0 ((λ i, [bitname "in_" i]) <$> seq 0 w) [])
    (λ r, let body := ins ++ r.2 ++ imap (λ i o, nd (bitname "out_" i) Buf true [o]) r.1 in
          (* tie0 is removed again when nothing loads it *)
          let used := existsb (λ ni, bool_decide ("tie0" ∈ n_fi ni.2)) body in
          Ok ((if used then [nd "tie0" C0 false []] else []) ++ body)).
Definition popcount (w : nat) : res Circuit := rmap (mkC "popcount") (popcount_l w).
