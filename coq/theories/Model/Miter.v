(* C04 model: tx.miter(c0, c1=None, startpoints=None, endpoints=None), written through the API model
   (add_subcircuit, add) exactly as the source does.  Definitions only. *)
From stdpp Require Import strings gmap sets fin_sets.
From CG Require Export Model.Compose6.
Open Scope string_scope.

Definition lift_out {A} (r : A * outcome) (k : A → res Circuit) : res Circuit :=
  match r with (a, Done) => k a | (_, Fail e) => Raise e end.

(* `for n in ns: m.add(...)`, stopping at the first exception *)
Definition add_each (f : circuit → string → circuit * outcome * string) (g : circuit) (ns : list string) : circuit * outcome :=
  foldl (λ st n, match st with (g, Done) => let '(g', o, _) := f g n in (g', o) | _ => st end) (g, Done) ns.

Definition af_output := {| af_out := true; af_conn := false; af_redef := false; af_uid := false |}.

(* `c1` is used when it is given and truthy (Circuit.__len__: a circuit without nodes is falsy) *)
Definition second (Ca : Circuit) (Cbo : option Circuit) : Circuit :=
  match Cbo with Some Cb => if bool_decide (c_g Cb = ∅) then Ca else Cb | None => Ca end.
(* `if not startpoints:` -- None and the empty collection both select the default *)
Definition choice (o : option (list string)) (dflt : gset string) : list string :=
  match o with Some (x :: l) => x :: l | _ => elements dflt end.
Definition miter_S (Ca Cb : Circuit) (So : option (list string)) : list string :=
  choice So (startpoints (c_g Ca) ∩ startpoints (c_g Cb)).
Definition miter_E (Ca Cb : Circuit) (Eo : option (list string)) : list string :=
  choice Eo (endpoints (c_g Ca) ∩ endpoints (c_g Cb)).
(* "or" / "buf" for a non-empty comparison; nothing compared: constant 0 *)
Definition sat_type (E : list string) : gtype :=
  if bool_decide (E = []) then C0 else if (1 <? length E)%nat then Or else Buf.

(* So / Eo: the collections in iteration order (the result does not depend on the order, see MiterProofs) *)
Definition miter (Ca : Circuit) (Cbo : option Circuit) (So Eo : option (list string)) : res Circuit :=
  if negb (bool_decide (c_bbs Ca = ∅)) then Raise ValueError else
  let Cb := second Ca Cbo in
  if negb (bool_decide (c_bbs Cb = ∅)) then Raise ValueError else
  let S := miter_S Ca Cb So in
  let E := miter_E Ca Cb Eo in
  let M0 := {| c_name := "miter_" ++ c_name Ca ++ "_" ++ c_name Cb; c_g := ∅; c_bbs := ∅ |} in
  lift_out (add_subcircuit M0 Ca "c0" []) (λ M1,
  lift_out (add_subcircuit M1 Cb "c1" []) (λ M2,
  lift_out (add_each (λ g n, add_g g n Input [] [pre "c0" n; pre "c1" n] af_default) (c_g M2) S) (λ g3,
  let '(g4, o, _) := add_g g3 "sat" (sat_type E) [] [] af_output in
  lift_out (g4, o) (λ g4,
  lift_out (add_each (λ g n, add_g g (pre "dif" n) Xor [pre "c0" n; pre "c1" n] ["sat"] af_default) g4 E) (λ g5,
  Ok (with_g M2 g5)))))).
