(* Graph-theoretic vocabulary of C12 / C16 (DESIGN.md appendix C): paths as node lists, reachability, cycles.
   An edge u -> w of the networkx DiGraph is `u ∈ fanin c w`. *)
From stdpp Require Import strings gmap sets relations.
From CG Require Export Types.
Open Scope string_scope.

Inductive pathl (c : circuit) : string → string → list string → Prop :=   (* nodes visited, u first *)
| pathl_nil u : u ∈ dom c → pathl c u u [u]
| pathl_step u w v l : u ∈ fanin c w → pathl c w v l → pathl c u v (u :: l).
Definition path (c : circuit) u v k := ∃ l, pathl c u v l ∧ length l = S k.          (* u ->* v in k edges *)
Definition reach (c : circuit) u v := ∃ k, path c u v k.
Definition reach1 (c : circuit) u v := ∃ k, path c u v (S k).                     (* proper *)
Definition has_cycle (c : circuit) := ∃ u, reach1 c u u.

Definition edge (c : circuit) (u w : string) : Prop := u ∈ fanin c w.

(* fan-in / fan-out of a node list (Circuit.fanin / Circuit.fanout with an iterable argument) *)
Definition fanin_l (c : circuit) (ns : list string) : gset string := ⋃ (fanin c <$> ns).
Definition fanout_l (c : circuit) (ns : list string) : gset string := ⋃ (fanout c <$> ns).

(* the graph with every edge reversed (same nodes, types and marks): fan-in of n = fan-out of n in c *)
Definition rev_g (c : circuit) : circuit :=
  map_imap (λ n i, Some {| n_ty := n_ty i; n_out := n_out i; n_fi := fanout c n |}) c.
