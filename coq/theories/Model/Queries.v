(* Executable models of the graph queries of C12 (circuit.py: fanin .. kcuts, props.levelize).
   Thin networkx wrappers (ancestors, descendants, is_directed_acyclic_graph) are modelled by the simplest executable
   definition and related to paths in Proofs/QueriesProofs.v; depth, levelize, reconvergent_fanout_nodes and kcuts
   follow the structure of the Python code.  fanin(ns) / fanout(ns) of a node list are fanin_l / fanout_l of Paths.v. *)
From stdpp Require Import strings gmap sets.
From CG Require Export Types Model.Paths.
Open Scope string_scope.
Open Scope list_scope.

(* ---- transitive fan-in / fan-out: closure under predecessors, stopped at the fixed point ---- *)
Definition grow (c : circuit) (S : gset string) : gset string := S ∪ ⋃ (fanin c <$> elements S).
Fixpoint close (fuel : nat) (c : circuit) (S : gset string) : gset string :=
  match fuel with
  | O => S
  | S f => let S' := grow c S in if decide (S' = S) then S else close f c S'
  end.
Definition tfi (c : circuit) (ns : list string) : gset string := close (size c) c (fanin_l c ns).
Definition tfo (c : circuit) (ns : list string) : gset string := tfi (rev_g c) ns.

(* `l` enumerates the set `s` without repetition (recorded iteration order of a Python set) *)
Definition enum_ok (l : list string) (s : gset string) : bool := bool_decide (NoDup l ∧ list_to_set l = s).

(* ---- startpoints(ns) / endpoints(ns); `if ns:` -- an empty argument means the whole circuit ---- *)
Definition startpoints_of (c : circuit) (ns : list string) : gset string :=
  match ns with [] => startpoints c | _ => (list_to_set ns ∪ tfi c ns) ∩ startpoints c end.
Definition endpoints_of (c : circuit) (ns : list string) : gset string :=
  match ns with [] => endpoints c | _ => (list_to_set ns ∪ tfo c ns) ∩ endpoints c end.

(* ---- longest-path table by relaxation: after k rounds, entry n = longest path into n with at most k edges ---- *)
Definition lvl (r : gmap string nat) (n : string) : nat := default 0 (r !! n).
Definition max_over (g : string → nat) (X : gset string) : nat := foldr (λ f acc, max acc (g f)) 0 (elements X).
Definition relax (c : circuit) (r : gmap string nat) : gmap string nat :=
  (λ i, max_over (λ f, S (lvl r f)) (n_fi i)) <$> c.
Definition depth_table (c : circuit) : gmap string nat := Nat.iter (size c) (relax c) ∅.
(* is_cyclic: the table is a strict ranking of all edges exactly when the graph has no cycle *)
Definition check_table (c : circuit) (r : gmap string nat) : bool :=
  bool_decide (map_Forall (λ n i, set_Forall (λ f, lvl r f < lvl r n) (n_fi i)) c).
Definition is_cyclic (c : circuit) : bool := negb (check_table c (depth_table c)).

(* fanin_depth(ns) / fanout_depth(ns), maximum=True: ValueError on a cyclic circuit (and on an empty node list: max of nothing) *)
Definition fanin_depth (c : circuit) (ns : list string) : res nat :=
  if is_cyclic c then Raise ValueError else
  match ns with [] => Raise ValueError | _ => let t := depth_table c in Ok (foldr (λ n acc, max acc (lvl t n)) 0 ns) end.
Definition fanout_depth (c : circuit) (ns : list string) : res nat := fanin_depth (rev_g c) ns.

(* ---- topological order checker (the answer of networkx topological_sort is validated, not modelled) ---- *)
Fixpoint topo_go (c : circuit) (seen : gset string) (l : list string) : bool :=
  match l with
  | [] => true
  | n :: r => bool_decide (fanin c n ⊆ seen) && topo_go c ({[n]} ∪ seen) r
  end.
Definition is_topo_order (c : circuit) (l : list string) : bool := enum_ok l (dom c) && topo_go c ∅ l.

(* ---- props.levelize:
       levels = {n: 0 for n in c.inputs() | c.filter_type(("0", "1", "x"))}
       for n in c.topo_sort(): if n in levels: continue
                               levels[n] = max((levels[fi] for fi in c.fanin(n)), default=-1) + 1
     `order` is the recorded result of topo_sort (checked, BadOrder otherwise) ---- *)
Definition lev0 (t : gtype) : bool := match t with Input | C0 | C1 | CX => true | _ => false end.
Fixpoint levelize_go (c : circuit) (order : list string) (lv : gmap string nat) : gmap string nat :=
  match order with
  | [] => lv
  | n :: rest =>
    match lv !! n with
    | Some _ => levelize_go c rest lv
    | None => levelize_go c rest (<[n := max_over (λ f, S (lvl lv f)) (fanin c n)]> lv)
    end
  end.
Definition levelize (c : circuit) (order : list string) : res (gmap string nat) :=
  if is_cyclic c then Raise ValueError else
  if negb (is_topo_order c order) then BadOrder else
  Ok (levelize_go c order ((λ _, 0) <$> filter (λ p, lev0 (n_ty p.2) = true) c)).

(* ---- reconvergent_fanout_nodes: some pair of distinct fan-out branches a, b with
       (transitive_fanout(a) | {a}) & (transitive_fanout(b) | {b}) non-empty; r is the reversed graph ---- *)
Definition cone (r : circuit) (a : string) : gset string := {[a]} ∪ tfi r [a].
Definition reconv_at (c r : circuit) (g : string) : bool :=
  let cs := (λ a, (a, cone r a)) <$> elements (fanout c g) in
  existsb (λ p, existsb (λ q, negb (bool_decide (p.1 = q.1)) && negb (bool_decide (p.2 ∩ q.2 = ∅))) cs) cs.
Definition reconvergent (c : circuit) : gset string :=
  let r := rev_g c in filter (λ g, reconv_at c r g = true) (dom c).

(* ---- kcuts(n, k): cuts(n) = [x for x in reduce(merge, [cuts(f) for f in fanin(n)]) if len(x) <= k] + [{n}], merge keeps unions of size <= k;
     a node without fan-in has the single cut {n}.  The memoised recursion is computed as a table, one round per level;
     ord m is the recorded iteration order of fanin(m), so the returned list is reproduced with its order. ---- *)
Definition cutlist := list (gset string).
Definition merge (k : nat) (A B : cutlist) : cutlist :=
  filter (λ s, size s ≤ k) (a ← A; b ← B; [a ∪ b]).
Definition reduce_merge (k : nat) (ls : list cutlist) : cutlist :=
  match ls with [] => [] | x :: r => foldl (merge k) x r end.
Definition kc_step (c : circuit) (k : nat) (ord : string → list string) (T : gmap string cutlist) : gmap string cutlist :=
  map_imap (λ n i, Some (if decide (n_fi i = ∅) then [{[n]}]
                         else filter (λ s, size s ≤ k) (reduce_merge k ((λ f, default [] (T !! f)) <$> ord n)) ++ [{[n]}])) c.
Definition kcuts (c : circuit) (n : string) (k : nat) (ord : string → list string) : res cutlist :=
  if negb (forallb (λ m, enum_ok (ord m) (fanin c m)) (elements (dom c))) then BadOrder else
  Ok (default [] (Nat.iter (S (lvl (depth_table c) n)) (kc_step c k ord) ∅ !! n)).

Definition qord_of (l : list (string * list string)) : string → list string :=
  let m : gmap string (list string) := list_to_map l in λ n, default [] (m !! n).
