(* Executable models of the graph queries of C12 (circuit.py: fanin .. kcuts, props.levelize).
   Thin networkx wrappers (ancestors, descendants, is_directed_acyclic_graph) are modelled by the simplest executable
   definition and related to paths in Proofs/QueriesProofs.v; depth, levelize, reconvergent_fanout_nodes and kcuts
   follow the structure of the Python code. *)
From stdpp Require Import strings gmap sets.
From CG Require Export Types Model.Paths.
Open Scope string_scope.
Open Scope list_scope.

(* ---- transitive fan-in / fan-out: closure under predecessors, stopped at the fixed point ---- *)
Definition grow (c : circuit) (S : gset string) : gset string := S ∪ ⋃ (fanin c <$> elements S).
Fixpoint close (fuel : nat) (c : circuit) (S : gset string) : gset string :=
  match fuel with
  | O => S
  | S f => let S' := grow c S in if decide (S' = S) then S else close f c S'
  end.
Definition tfi (c : circuit) (ns : list string) : gset string := close (size c) c (fanin_l c ns).
Definition tfo (c : circuit) (ns : list string) : gset string := tfi (rev_g c) ns.
