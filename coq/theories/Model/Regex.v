(* A small executable model of Python's `re` for the constructs the bench reader uses: character classes (ranges,
   negation, the categories as ASCII ranges), sequence, ordered alternation, greedy star with backtracking, capturing groups;
   `findall` (leftmost, non-overlapping, left to right) and `sub` with the empty replacement.  Texts are lists of character
   codes.  The regex terms themselves are regenerated from io.py (parsed by Python's own pattern parser) into Gen_bench.v.
   Definitions only. *)
From Coq Require Import Ascii String.
From stdpp Require Import strings list.
Open Scope string_scope.

Inductive cls := Cl (neg : bool) (ranges : list (nat * nat)).
Definition in_cls (c : cls) (x : nat) : bool :=
  match c with Cl neg rs => xorb neg (existsb (λ r, (r.1 <=? x)%nat && (x <=? r.2)%nat) rs) end.

Inductive re := REps | RCls (c : cls) | RSeq (a b : re) | RAlt (a b : re) | RStar (a : re) | RGrp (i : nat) (a : re).
Definition RLit (c : nat) : re := RCls (Cl false [(c, c)]).
Definition RPlus (a : re) : re := RSeq a (RStar a).

(* captures: group number ↦ matched codes, most recent first *)
Definition caps := list (nat * list nat).

(* backtracking matcher in continuation-passing style: the first successful path in Python's priority order
   (left alternative first, longest repetition first) *)
Fixpoint mt {R} (r : re) (s : list nat) (cs : caps) (k : list nat → caps → option R) {struct r} : option R :=
  match r with
  | REps => k s cs
  | RCls c => match s with x :: s' => if in_cls c x then k s' cs else None | [] => None end
  | RSeq a b => mt a s cs (λ s' cs', mt b s' cs' k)
  | RAlt a b => match mt a s cs k with Some x => Some x | None => mt b s cs k end
  | RStar a =>
      (fix star (n : nat) (s : list nat) (cs : caps) : option R :=
         match n with
         | O => k s cs
         | S n' => match mt a s cs (λ s' cs', if (length s' <? length s)%nat then star n' s' cs' else None) with
                   | Some x => Some x
                   | None => k s cs end
         end) (length s) s cs
  | RGrp i a => mt a s cs (λ s' cs', k s' ((i, take (length s - length s') s) :: cs'))
  end.

(* match at the head of s: remaining text and captures *)
Definition match_here (r : re) (s : list nat) : option (list nat * caps) := mt r s [] (λ s' cs, Some (s', cs)).

(* re.findall for patterns that cannot match the empty string *)
Fixpoint findall_n (n : nat) (r : re) (s : list nat) : list caps :=
  match n with
  | O => []
  | S n' => match s with
            | [] => []
            | _ :: s1 => match match_here r s with
                         | Some (rest, cs) => cs :: findall_n n' r (if (length rest <? length s)%nat then rest else s1)
                         | None => findall_n n' r s1 end
            end
  end.
Definition findall (r : re) (s : list nat) : list caps := findall_n (length s) r s.

(* re.sub(r, "", s) *)
Fixpoint delete_n (n : nat) (r : re) (s : list nat) : list nat :=
  match n with
  | O => s
  | S n' => match s with
            | [] => []
            | x :: s1 => match match_here r s with
                         | Some (rest, _) => if (length rest <? length s)%nat then delete_n n' r rest else x :: delete_n n' r s1
                         | None => x :: delete_n n' r s1 end
            end
  end.
Definition delete_all (r : re) (s : list nat) : list nat := delete_n (length s) r s.

Definition group (i : nat) (cs : caps) : list nat :=
  match list_find (λ p, p.1 = i) cs with Some (_, p) => p.2 | None => [] end.

(* str.replace(c, "") for single characters, str.split(sep) *)
Definition remove_chars (cs : list nat) (s : list nat) : list nat := filter (λ x, x ∉ cs) s.
Fixpoint split_on (sep : nat) (s : list nat) : list (list nat) :=
  match s with
  | [] => [[]]
  | x :: r => let p := split_on sep r in
              if (x =? sep)%nat then [] :: p else match p with w :: ws => (x :: w) :: ws | [] => [[x]] end
  end.

Definition codes (s : string) : list nat := nat_of_ascii <$> list_ascii_of_string s.
Definition text_of (l : list nat) : string := string_of_list_ascii (ascii_of_nat <$> l).
