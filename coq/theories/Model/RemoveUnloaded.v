(* Model of Circuit.remove_unloaded (circuitgraph/circuit.py), mirroring the worklist:

     keep = ["bb_input"] if inputs else ["bb_input", "input", "bb_output"]
     unloaded = [n for n in self.graph if type(n) not in keep and not is_output(n) and not fanout(n)]
     removed = []
     while unloaded:
         n = unloaded.pop()
         for fi in self.fanin(n):
             if not inputs and type(fi) in ["input", "bb_output"]: continue
             if not is_output(fi) and len(fanout(fi)) == 1: unloaded.append(fi)
         self.remove(n); removed.append(n)
     return removed

   The three type lists are regenerated from the source (the ru_ lists of Gen_types).  The two places where the
   code iterates in an order that is not determined by the graph are explicit arguments:
     nodes : the iteration order of `self.graph`            (must enumerate dom c, BadOrder otherwise)
     ord n : the iteration order of the set `self.fanin(n)` (must enumerate fanin c n, BadOrder otherwise)
   so the returned list is reproduced exactly, and the theorems quantify over both. *)
From stdpp Require Import strings gmap sets.
From CG Require Export Types Gen.Gen_types Base.Api.
Open Scope string_scope.
Open Scope list_scope.

Record ru_tables := { keep_true : list gtype; keep_false : list gtype; skip_fanin : list gtype }.
Definition gen_ru_tables := {| keep_true := ru_keep_true; keep_false := ru_keep_false; skip_fanin := ru_skip_fanin |}.

Definition tin (t : gtype) (l : list gtype) : bool := bool_decide (t ∈ l).
Definition ru_keep (T : ru_tables) (inp : bool) : list gtype := if inp then keep_true T else keep_false T.
(* `l` enumerates the set `s` without repetition *)
Definition order_ok (l : list string) (s : gset string) : bool := bool_decide (NoDup l ∧ list_to_set l = s).

(* the comprehension's condition *)
Definition ru_unloaded (T : ru_tables) (inp : bool) (c : circuit) (n : string) : bool :=
  match c !! n with
  | Some i => negb (tin (n_ty i) (ru_keep T inp)) && negb (n_out i) && bool_decide (fanout c n = ∅)
  | None => false end.
(* the condition under which a fan-in node is appended (a fan-in name that is not a node cannot occur in a
   networkx graph; it is skipped) *)
Definition ru_push (T : ru_tables) (inp : bool) (c : circuit) (fi : string) : bool :=
  match c !! fi with
  | Some j => negb (negb inp && tin (n_ty j) (skip_fanin T)) && negb (n_out j) && bool_decide (size (fanout c fi) = 1)
  | None => false end.

(* stack: head = top (list.pop() takes the last appended element); removed in order of removal *)
Fixpoint ru_loop (T : ru_tables) (inp : bool) (ord : string → list string) (fuel : nat) (c : circuit) (stack removed : list string)
  : res (circuit * list string) :=
  match stack with
  | [] => Ok (c, removed)
  | n :: rest =>
    match fuel with
    | O => OutOfFuel
    | S fuel' =>
      if negb (bool_decide (n ∈ dom c)) then Raise OtherError else      (* networkx: node not in graph *)
      if negb (order_ok (ord n) (fanin c n)) then BadOrder else
      let new := filter (λ fi, ru_push T inp c fi = true) (ord n) in
      ru_loop T inp ord fuel' (remove_g c [n]) (reverse new ++ rest) (removed ++ [n])
    end
  end.

Definition remove_unloaded_with (T : ru_tables) (C : Circuit) (inp : bool) (nodes : list string) (ord : string → list string)
  : res (Circuit * list string) :=
  let c := c_g C in
  if negb (order_ok nodes (dom c)) then BadOrder else
  if bool_decide (map_Forall (λ _ i, n_ty i ≠ NoTy) c) then
    let init := filter (λ n, ru_unloaded T inp c n = true) nodes in
    rmap (λ r, (with_g C r.1, r.2)) (ru_loop T inp ord (size c) c (reverse init) [])
  else Raise KeyError.                                                    (* Circuit.type on a node without type *)
Definition remove_unloaded := remove_unloaded_with gen_ru_tables.

(* order function from a recorded association list *)
Definition ord_of (l : list (string * list string)) : string → list string :=
  let m : gmap string (list string) := list_to_map l in λ n, default [] (m !! n).
