(* Executable model of circuitgraph/sat.py (cnf, add_assumptions, construct_solver, solve, model_count, the DIMACS
   export of approx_model_count in default mode) and of props.signal_probability(approx=False).
   Definitions only.  The clause templates come from the regenerated Gen/Gen_cnf.v (type Cnf.TmplTypes.cnf_tables);
   every function takes the tables as a parameter `T` and the instance used for the implementation is `... gen_cnf_tables`.
   CNF variables are the structured keys of the IDPool: node names, ("xor", a, b) and ("xor_inv", n)  (Cnf/XorChain.v). *)
From stdpp Require Import strings gmap sets fin_sets.
From Coq Require QArith.
From CG Require Export Types Sem.
From CG Require Import Cnf.Tmpl.
From CG Require Export Cnf.TmplTypes Cnf.XorChain.
From CG Require Import Gen.Gen_cnf.
Local Open Scope list_scope.   (* ++ below is list append *)

Notation VNode := VN (only parsing).
Notation VXor := VX (only parsing).
Notation VInv := VI (only parsing).
Global Instance var_eq_dec : EqDecision var.
Proof. solve_decision. Defined.

Definition sat (a : asg) (F : list clause) : Prop := sat_cnf a F = true.

Notation "'let*' x := e 'in' f" := (rbind e (λ x, f)) (at level 200, x name, e at level 100, f at level 200, only parsing).

(* ---- instantiation of clause templates ---- *)
Definition role_var (n : string) (f : var) (r : role) : var :=
  match r with RN => VN n | RF => f | RI => VI n | _ => VN n end.
Definition xor_role (a b c : var) (r : role) : var := match r with RA => a | RB => b | _ => c end.
Definition inst_cl (ρ : role → var) (cl : tclause) : clause := map (λ l : tlit, (l.1, ρ l.2)) cl.
Definition inst_cls (ρ : role → var) (cls : list tclause) : list clause := map (inst_cl ρ) cls.

(* and / nand / or / nor: the four signs instantiate the all-arity template of Cnf/Tmpl.v *)
Definition lift_cl (cl : Tmpl.clause) : clause := map (λ l : Tmpl.lit, (l.1, VN l.2)) cl.
Definition inst_multi (pn pf an af : bool) (n : string) (fs : list string) : list clause :=
  map lift_cl (Tmpl.inst {| per_n := pn; per_f := pf; all_n := an; all_f := af |} n fs).

(* xor_clauses(a, b, c) *)
Definition x3T (T : cnf_tables) (a b c : var) : list clause := inst_cls (xor_role a b c) (t_xor T).
(* the `while len(nets) > 2` loop on the reversed list: nets[-1] = y, nets[-2] = x, new net ("xor", x, y) inserted at the front *)
Fixpoint chainT (T : cnf_tables) (fuel : nat) (r : list var) : list var * list clause :=
  match fuel with O => (r, []) | S f =>
    match r with
    | y :: x :: _ :: _ => let res := chainT T f (tl (tl r) ++ [VX x y]) in (res.1, x3T T x y (VX x y) ++ res.2)
    | _ => (r, []) end end.
(* nets[-2] on fewer than two nets is an IndexError *)
Definition parityT (T : cnf_tables) (xnor : bool) (n : string) (ops : list string) : res (list clause) :=
  let res := chainT T (length ops) (rev (map VN ops)) in
  match res.1 with
  | [y; x] => Ok (if xnor then res.2 ++ x3T T x y (VI n) ++ inst_cls (role_var n (VN n)) (t_xnor_inv T)
                  else res.2 ++ x3T T x y (VN n))
  | _ => Raise IndexError end.

Fixpoint assoc {A} (t : gtype) (l : list (gtype * A)) : option A :=
  match l with [] => None | (k, v) :: r => if decide (k = t) then Some v else assoc t r end.
Definition demote (T : cnf_tables) (t : gtype) (k : nat) : gtype :=
  if decide (k = 1) then default t (assoc t (t_demote T)) else t.

(* clauses of one node; ops = list(c.fanin(n)) in iteration order (its head is what `c.fanin(n).pop()` returns) *)
Definition node_cnf (T : cnf_tables) (n : string) (i : ninfo) (ops : list string) : res (list clause) :=
  if decide (n_ty i = NoTy) then Raise KeyError else
  let t := demote T (n_ty i) (length ops) in
  match assoc t (t_branches T) with
  | None => Raise (t_else T)
  | Some (BMulti pn pf an af) => Ok (inst_multi pn pf an af n ops)
  | Some (BSingle cls) => match ops with [] => Ok [] | f :: _ => Ok (inst_cls (role_var n (VN f)) cls) end
  | Some BParity => parityT T (negb (bool_decide (t = Xor))) n ops
  | Some (BUnit cls) => Ok (inst_cls (role_var n (VN n)) cls)
  end.

(* the recorded iteration order of c.fanin(n) must be a duplicate-free listing of the fan-in set *)
Definition ops_of (ord : string → list string) (n : string) (i : ninfo) : res (list string) :=
  let l := ord n in
  if bool_decide (NoDup l) && bool_decide (list_to_set l = n_fi i) then Ok l else BadOrder.
Fixpoint cnf_nodes (T : cnf_tables) (ord : string → list string) (l : list (string * ninfo)) : res (list clause) :=
  match l with
  | [] => Ok []
  | (n, i) :: r => let* ops := ops_of ord n i in let* G := node_cnf T n i ops in let* F := cnf_nodes T ord r in Ok (G ++ F)
  end.
(* sat.cnf: the formula (as a list of clauses over named variables; the IDPool numbering is a bijection on top) *)
Definition cnf_with (T : cnf_tables) (C : Circuit) (ord : string → list string) : res (list clause) :=
  cnf_nodes T ord (map_to_list (c_g C)).
Definition cnf := cnf_with gen_cnf_tables.
Definition default_ord (c : circuit) : string → list string := λ n, elements (fanin c n).

(* ---- add_assumptions, construct_solver ---- *)
Definition assume (A : gmap string bool) (F : list clause) : list clause :=
  F ++ map (λ p : string * bool, [(p.2, VN p.1)]) (map_to_list A).
(* `if assumptions:` is false for the empty dict; unknown keys are a ValueError (after cnf has run) *)
Definition cnf_assume (T : cnf_tables) (C : Circuit) (ord : string → list string) (A : gmap string bool) : res (list clause) :=
  let* F := cnf_with T C ord in
  if decide (A = ∅) then Ok F
  else if decide (dom A ⊆ dom (c_g C)) then Ok (assume A F) else Raise ValueError.

(* ---- solve, relative to a solver ---- *)
Definition solver_t := list clause → option asg.
Definition readback (c : circuit) (a : asg) : gmap string bool := map_imap (λ n _, Some (a (VN n))) c.
Definition solve_with (solver : solver_t) (T : cnf_tables) (C : Circuit) (ord : string → list string) (A : gmap string bool)
  : res (option (gmap string bool)) :=
  let* F := cnf_assume T C ord A in Ok (readback (c_g C) <$> solver F).
Definition solve solver := solve_with solver gen_cnf_tables.

(* ---- model_count: enumerate models, blocking each on the startpoint variables ---- *)
Definition block (a : asg) (sp : list string) : clause := map (λ n, (negb (a (VN n)), VN n)) sp.
Fixpoint mc_loop (solver : solver_t) (fuel : nat) (F : list clause) (sp : list string) (count : nat) : res nat :=
  match fuel with
  | O => OutOfFuel
  | S f => match solver F with
           | None => Ok count
           | Some a => mc_loop solver f (F ++ [block a sp]) sp (S count)
           end
  end.
Definition model_count_with (solver : solver_t) (T : cnf_tables) (C : Circuit) (ord : string → list string) (A : gmap string bool) : res nat :=
  let sp := elements (startpoints (c_g C)) in
  let* F := cnf_assume T C ord A in mc_loop solver (S (2 ^ length sp)) F sp 0.
Definition model_count solver := model_count_with solver gen_cnf_tables.

(* ---- props.signal_probability(c, n, approx=False) ---- *)
Definition fanins (c : circuit) (s : gset string) : gset string := ⋃ (fanin c <$> elements s).
Fixpoint tfi_n (k : nat) (c : circuit) (s : gset string) : gset string :=
  match k with O => s | S k => tfi_n k c (s ∪ fanins c s) end.
(* {n} | c.transitive_fanin(n) *)
Definition cone (c : circuit) (n : string) : gset string := tfi_n (size c) c {[n]}.
(* tx.subcircuit(c, nodes): the listed nodes with type and output mark, and the edges between them *)
Definition subgraph (c : circuit) (s : gset string) : circuit :=
  upd_fi (λ fi, fi ∩ s) <$> filter (λ p, p.1 ∈ s) c.
Definition has_bb_pin (c : circuit) (s : gset string) : bool :=
  existsb (λ m, bool_decide (ty c m = Some BbIn) || bool_decide (ty c m = Some BbOut)) (elements s).
Definition subcircuit (C : Circuit) (s : gset string) : res Circuit :=
  if has_bb_pin (c_g C) s then Raise NotImplementedError
  else Ok {| c_name := ""%string; c_g := subgraph (c_g C) s; c_bbs := ∅ |}.
Definition signal_probability_with (solver : solver_t) (T : cnf_tables) (C : Circuit) (n : string) : res QArith_base.Q :=
  let* S := subcircuit C (cone (c_g C) n) in
  let* k := model_count_with solver T S (default_ord (c_g S)) {[ n := true ]} in
  Ok (QArith_base.Qmake (Z.of_nat k) (Pos.of_nat (2 ^ size (startpoints (c_g S))))).
Definition signal_probability solver := signal_probability_with solver gen_cnf_tables.

(* ---- the DIMACS instance of approx_model_count (default mode), as structure ---- *)
Record dimacs := { d_ind : list var; d_nv : nat; d_ncl : nat; d_clauses : list clause }.
Definition vars_of (F : list clause) : list var := remove_dups (concat (map (map snd) F)).
Definition dimacs_with (T : cnf_tables) (C : Circuit) (ord : string → list string) (A : gmap string bool) : res dimacs :=
  let* F := cnf_assume T C ord A in
  Ok {| d_ind := VN <$> elements (startpoints (c_g C)); d_nv := length (vars_of F); d_ncl := length F; d_clauses := F |}.
Definition dimacs_of := dimacs_with gen_cnf_tables.
