(* C11 model.  (M) tx.sensitization_transform, tx.sensitivity_transform, props.sensitivity / influence /
   avg_sensitivity / sensitize written through the API model (Base/Api.v) in source order;
   (S) the definitions they are measured against: flips, count, sensitivity, influence, sensitizing valuation.
   Definitions only (proofs in Proofs/SensitivityProofs.v). *)
From Coq Require Import QArith.
From stdpp Require Import strings gmap sets fin_sets pretty sorting.
From CG Require Export Base.Api Base.Oracle.
Open Scope string_scope.
Open Scope nat_scope.

(* ------------------------------------------------------------------------------------------------ *)
(* helpers                                                                                          *)
Definition lift {A B} (r : A * outcome) (k : A → res B) : res B :=
  match r with (a, Done) => k a | (_, Fail e) => Raise e end.
(* `for x in xs: m.add(...)`, stopping at the first exception *)
Definition add_each {X} (f : circuit → X → circuit * outcome * string) (g : circuit) (xs : list X) : circuit * outcome :=
  foldl (λ st x, match st with (g, Done) => let '(g', o, _) := f g x in (g', o) | _ => st end) (g, Done) xs.
Definition af_out1 := {| af_out := true; af_conn := false; af_redef := false; af_uid := false |}.

(* Circuit.transitive_fanin(ns): union of nx.ancestors *)
Definition fanin_of (c : circuit) (S : gset string) : gset string := ⋃ (fanin c <$> elements S).
Fixpoint tfi_loop (fuel : nat) (c : circuit) (acc : gset string) : gset string :=
  match fuel with O => acc | S f => tfi_loop f c (acc ∪ fanin_of c acc) end.
Definition tfi (c : circuit) (ns : list string) : gset string := tfi_loop (size c) c (fanin_of c (list_to_set ns)).
(* Circuit.startpoints(n) *)
Definition cone_startpoints (c : circuit) (n : string) : gset string := ({[n]} ∪ tfi c [n]) ∩ startpoints c.

(* induced sub-graph on a node set (tx.subcircuit without modify_io, and graph.subgraph(...).copy()) *)
Definition induced (c : circuit) (S : gset string) : circuit :=
  upd_fi (λ fi, fi ∩ S) <$> filter (λ p, p.1 ∈ S) c.
Definition has_bb_type (c : circuit) : bool :=
  bool_decide (of_type c (λ t, is_ty BbIn t || is_ty BbOut t) ≠ ∅).

(* ------------------------------------------------------------------------------------------------ *)
(* (M) tx.miter(c) with c1 = startpoints = endpoints = None                                          *)
Definition miter_self (SC : Circuit) : res Circuit :=
  if negb (bool_decide (c_bbs SC = ∅)) then Raise ValueError else
  let S := elements (startpoints (c_g SC)) in
  let E := elements (endpoints (c_g SC)) in
  let M0 := {| c_name := "miter_" ++ c_name SC ++ "_" ++ c_name SC; c_g := ∅; c_bbs := ∅ |} in
  lift (add_subcircuit M0 SC "c0" []) (λ M1,
  lift (add_subcircuit M1 SC "c1" []) (λ M2,
  lift (add_each (λ g n, add_g g n Input [] [pre "c0" n; pre "c1" n] af_default) (c_g M2) S) (λ g3,
  (* no endpoint: constant 0 (repair aeab334); one: buf; more: or *)
  let '(g4, o, _) := add_g g3 "sat" (match E with [] => C0 | [_] => Buf | _ => Or end) [] [] af_out1 in
  lift (g4, o) (λ g4,
  lift (add_each (λ g n, add_g g (pre "dif" n) Xor [pre "c0" n; pre "c1" n] ["sat"] af_default) g4 E) (λ g5,
  Ok (with_g M2 g5)))))).

(* (M) the last three statements: disconnect the fan-in of c1_n, retype it to `not`, drive it by c0_n *)
Definition flip_node (g : circuit) (n : string) : res circuit :=
  match g !! pre "c1" n with
  | None => Raise KeyError
  | Some _ =>
      let g1 := disconnect_g g (elements (fanin g (pre "c1" n))) [pre "c1" n] in
      lift (set_type_g g1 [pre "c1" n] Not) (λ g2,
      lift (connect_g g2 [pre "c0" n] [pre "c1" n]) (λ g3, Ok g3))
  end.

(* (M) tx.sensitization_transform(c, n, endpoints).  Eo: None, or the selected endpoints in the iteration order of
   `set(endpoints)` (it only decides the circuit name) *)
Definition sensitization_transform (C : Circuit) (n : string) (Eo : option (list string)) : res Circuit :=
  if negb (bool_decide (c_bbs C = ∅)) then Raise ValueError else
  let finish (SC : Circuit) (name : string) : res Circuit :=
    rbind (miter_self SC) (λ M, rbind (flip_node (c_g M) n) (λ g, Ok {| c_name := name; c_g := g; c_bbs := c_bbs M |})) in
  match Eo with
  | Some (e :: l) =>
      let eord := e :: l in
      if negb (bool_decide (NoDup eord)) then BadOrder else
      let E : gset string := list_to_set eord in
      if negb (forallb (λ x, bool_decide (x ∈ dom (c_g C))) eord) then Raise OtherError else    (* nx.ancestors on a missing node *)
      let fi := tfi (c_g C) eord in
      if negb (bool_decide (n ∈ fi)) && negb (bool_decide (n ∈ E)) then Raise ValueError else
      let sub := induced (c_g C) (E ∪ fi) in
      if has_bb_type sub then Raise NotImplementedError else
      let SC := {| c_name := "circuit"; c_g := map_imap (λ x i, Some (set_out (bool_decide (x ∈ E)) i)) sub; c_bbs := ∅ |} in
      finish SC (c_name C ++ "_sensitize_" ++ n ++ "_to_" ++ String.concat "_" eord)
  | _ => finish C (c_name C ++ "_sensitize_" ++ n)
  end.

(* ------------------------------------------------------------------------------------------------ *)
(* (M) utils.clog2 (the shift loop) and utils.int_to_bin(i, w, lend=True) *)
Fixpoint clog2_loop (fuel num accum shifter : nat) : nat :=
  match fuel with O => accum | S f => if shifter <? num then clog2_loop f num (S accum) (2 * shifter) else accum end.
Definition clog2 (num : nat) : res nat := if num <? 1 then Raise ValueError else Ok (clog2_loop num num 0 1).
(* binary digits, least significant first; bin(0) = "0" has one digit *)
Fixpoint bits_le (fuel n : nat) : list bool :=
  match fuel with O => [] | S f => if n <? 2 then [Nat.odd n] else Nat.odd n :: bits_le f (n / 2) end.
Definition bin_digits (n : nat) : list bool := bits_le (S n) n.
(* zfill(w) pads the most significant side; the digits are NOT truncated to w *)
Definition int_to_bin_le (i w : nat) : list bool := let b := bin_digits i in b ++ replicate (w - length b) false.

(* (M) one iteration of the loop over enumerate(startpoints) *)
Definition inv_copy (Sc : Circuit) (SUB : Circuit) (n : string) (ord : list string) (i : nat) (s0 : string) : Circuit * outcome :=
  match add_subcircuit Sc SUB (pre "inv" s0) [] with
  | (S', Done) =>
      let r := foldl (λ st s1, match st with
                 | (g, Done) =>
                     if bool_decide (s0 ≠ s1) then connect_g g [s1] [pre (pre "inv" s0) s1]
                     else match set_type_g g [pre (pre "inv" s0) s1] Not with
                          | (g', Done) => connect_g g' [s0] [pre (pre "inv" s0) s1]
                          | r => r end
                 | _ => st end) (c_g S', Done) ord in
      match r with
      | (g, Done) =>
          let '(g', o, _) := add_g g (pre "dif_out" s0) Xor [pre "orig" n; pre (pre "inv" s0) n] ["pc_in_" ++ pretty i] af_out1 in
          (with_g S' g', o)
      | (g, Fail e) => (with_g S' g, Fail e)
      end
  | r => r
  end.

(* (M) tx.sensitivity_transform(c, n).  ord: iteration order of c.startpoints(n); PC: cg.logic.popcount(len(ord)) as built by
   the implementation (its correctness is C13) *)
Definition sensitivity_transform (C : Circuit) (n : string) (ord : list string) (PC : Circuit) : res Circuit :=
  if negb (bool_decide (c_bbs C = ∅)) then Raise ValueError else
  if negb (bool_decide (n ∈ dom (c_g C))) then Raise OtherError else
  let sp := cone_startpoints (c_g C) n in
  if bool_decide (sp = ∅) then Raise ValueError else
  if negb (bool_decide (ord ≡ₚ elements sp)) then BadOrder else
  let SUB := {| c_name := "circuit"; c_g := induced (c_g C) (tfi (c_g C) [n] ∪ {[n]}); c_bbs := ∅ |} in
  let S0 := {| c_name := "circuit"; c_g := ∅; c_bbs := ∅ |} in
  lift (add_subcircuit S0 SUB "orig" []) (λ S1,
  lift (add_each (λ g s, add_g g s Input [] [pre "orig" s] af_default) (c_g S1) ord) (λ g2,
  lift (add_subcircuit (with_g S1 g2) PC "pc" []) (λ S3,
  lift (foldl (λ st p, match st with (Sc, Done) => inv_copy Sc SUB n ord p.1 p.2 | _ => st end) (S3, Done) (imap (λ i s, (i, s)) ord)) (λ S4,
  rbind (clog2 (length ord + 1)) (λ W,
  lift (add_each (λ g o, add_g g ("sen_out_" ++ pretty o) Buf ["pc_out_" ++ pretty o] [] af_out1) (c_g S4) (seq 0 W)) (λ g5,
  Ok (with_g S4 g5))))))).

(* (M) props.sensitivity: descending search over the encoded count.  `solve T asm` stands for `bool(cg.sat.solve(T, asm))` *)
Definition asm_of (bits : list bool) : list (string * bool) := imap (λ i b, ("sen_out_" ++ pretty i, b)) bits.
Fixpoint search (solve : list (string * bool) → bool) (w sen : nat) : res nat :=
  if solve (asm_of (int_to_bin_le sen w)) then Ok sen else
  match sen with O => OutOfFuel (* the loop would go on below zero; unreachable when the circuit is satisfiable *) | S k => search solve w k end.
Definition sensitivity_from (solve : circuit → list (string * bool) → bool) (C : Circuit) (n : string) (Tr : res Circuit) : res nat :=
  if negb (bool_decide (n ∈ dom (c_g C))) then Raise OtherError else
  let sp := cone_startpoints (c_g C) n in
  if bool_decide (n ∈ sp) then Ok 1 else
  rbind Tr (λ T, rbind (clog2 (size sp)) (λ w, search (solve (c_g T)) w (size sp))).
Definition sensitivity solve C n ord PC := sensitivity_from solve C n (sensitivity_transform C n ord PC).

(* (M) props.influence(c, n, approx=False) for a single node; `mc T asm` stands for cg.sat.model_count(T, asm) *)
Definition mq (a : Z) (b : positive) : Q := Qmake a b.
Arguments mq (_%Z _%positive).
Definition pow2q (m : nat) : positive := Nat.iter m (λ p, (2 * p)%positive) 1%positive.
Definition frac (k m : nat) : Q := Qmake (Z.of_nat k) (pow2q m).
Definition influence (mc : circuit → list (string * bool) → nat) (C : Circuit) (n : string) : res (list (string * Q)) :=
  if negb (bool_decide (n ∈ dom (c_g C))) then Raise OtherError else
  let sp := cone_startpoints (c_g C) n in
  foldr (λ s acc, rbind acc (λ l, rbind (sensitization_transform C s (Some [n])) (λ T,
           Ok ((s, frac (mc (c_g T) [("sat", true)]) (size sp)) :: l)))) (Ok []) (elements sp).
Definition qsum (l : list Q) : Q := foldr Qplus (Qmake 0 1) l.
Definition avg_sensitivity mc C n : res Q := rmap (λ l, qsum (snd <$> l)) (influence mc C n).

(* (M) props.sensitize(c, n): `solve T asm` stands for cg.sat.solve (None = False) *)
Definition sensitize (solve : circuit → list (string * bool) → option val) (C : Circuit) (n : string) : res (option (list (string * bool))) :=
  rbind (sensitization_transform C n None) (λ T,
    Ok (match solve (c_g T) [("sat", true)] with
        | None => None
        | Some v => Some ((λ g, (g, v g)) <$> elements (startpoints (c_g T))) end)).

(* ------------------------------------------------------------------------------------------------ *)
(* (S) the definitions                                                                              *)
Definition flipv (ρ : val) (s : string) : val := λ x, if bool_decide (x = s) then negb (ρ s) else ρ x.
Definition setv (ρ : val) (n : string) (b : bool) : val := λ x, if bool_decide (x = n) then b else ρ x.
(* flipping startpoint s flips n (c acyclic: evalc is the unique consistent extension of ρ) *)
Definition flips (c : circuit) (n s : string) (ρ : val) : Prop := evalc c ρ n ≠ evalc c (flipv ρ s) n.
Definition flipsb (c : circuit) (n s : string) (ρ : val) : bool := xorb (evalc c ρ n) (evalc c (flipv ρ s) n).
(* number of startpoints (of a duplicate-free list) whose flip flips n under ρ *)
Definition count (c : circuit) (n : string) (sp : list string) (ρ : val) : nat := length (filter (λ s, flipsb c n s ρ = true) sp).
Definition max_list (l : list nat) : nat := foldr max 0 l.
(* sensitivity: the maximum of the count over all valuations of the startpoints *)
Definition sensitivity_def (c : circuit) (n : string) (sp : list string) : nat := max_list (count c n sp <$> all_vals sp).
Definition is_sensitivity (c : circuit) (n : string) (sp : list string) (k : nat) : Prop :=
  (∃ ρ, count c n sp ρ = k) ∧ ∀ ρ, count c n sp ρ ≤ k.
(* influence of s: fraction of the valuations of the startpoints under which flipping s flips n *)
Definition influence_def (c : circuit) (n : string) (sp : list string) (s : string) : Q :=
  frac (length (filter (λ ρ, flipsb c n s ρ = true) (all_vals sp))) (length sp).
Definition avg_sensitivity_def (c : circuit) (n : string) (sp : list string) : Q := qsum (influence_def c n sp <$> sp).

(* inverting n: cut the node loose (it becomes a free node) and give it the complement of the value it has under ρ *)
Definition cut (c : circuit) (n : string) : circuit := alter (λ i, mk_node Input (n_out i) ∅) n c.
Definition inverted (c : circuit) (n : string) (ρ : val) : val := evalc (cut c n) (setv ρ n (negb (evalc c ρ n))).
Definition sens_at (c : circuit) (n : string) (E : list string) (ρ : val) : Prop :=
  ∃ e, e ∈ E ∧ evalc c ρ e ≠ inverted c n ρ e.
Definition sens_atb (c : circuit) (n : string) (E : list string) (ρ : val) : bool :=
  let w := inverted c n ρ in existsb (λ e, xorb (evalc c ρ e) (w e)) E.

(* bits of a count, least significant first *)
Fixpoint take_bits (L c : nat) : list bool := match L with O => [] | S L' => Nat.odd c :: take_bits L' (c / 2) end.
Definition dec (l : list bool) : nat := foldr (λ (b : bool) acc, (if b then 1 else 0) + 2 * acc) 0 l.

(* ------------------------------------------------------------------------------------------------ *)
(* table-driven simulation of a node list given in topological order (used by the oracle; every use is certified
   by `consistentb`, nothing is assumed about the order) *)
Definition node := (string * gtype * bool * list string)%type.
Definition tval (T : gmap string bool) (a : val) : val := λ n, default (a n) (T !! n).
Definition lgate (t : gtype) (v : val) (fi : list string) : bool := xorb (g_inv t) (foldr (g_op t) (g_unit t) (v <$> fi)).
Definition lstep (a : val) (T : gmap string bool) (p : node) : gmap string bool :=
  let '(n, t, _, fi) := p in
  <[n := match t with
         | Input | BbOut | CX => a n
         | C0 => false | C1 => true
         | Buf | Not | BbIn => match fi with [] => a n | _ => lgate t (tval T a) fi end
         | _ => lgate t (tval T a) fi end]> T.
Definition simulate (nodes : list node) (a : val) : val := tval (foldl (lstep a) ∅ nodes) a.
(* consistency of a valuation with a node list (list version of Oracle.consistentb; lnodes_okb_sound in the proofs file) *)
Definition lnode_okb (v : val) (p : node) : bool :=
  let '(n, t, _, fi) := p in
  match t with
  | Input | BbOut | CX => true
  | C0 => negb (v n) | C1 => v n
  | Buf | Not | BbIn => match fi with [] => true | _ => eqb (v n) (lgate t v fi) end
  | _ => eqb (v n) (lgate t v fi) end.
Definition lnodes_okb (nodes : list node) (v : val) : bool := forallb (lnode_okb v) nodes.
(* order certificate: every fan-in is defined earlier in the list, no name twice, no operand twice
   (then mk_g nodes is closed and acyclic: wf_order_closed, wf_order_acyclic) *)
Definition wf_step (st : gset string * bool) (p : node) : gset string * bool :=
  (({[p.1.1.1]} : gset string) ∪ st.1,
   st.2 && negb (bool_decide (p.1.1.1 ∈ st.1)) && forallb (λ f, bool_decide (f ∈ st.1)) p.2 && bool_decide (NoDup p.2)).
Definition wf_order (nodes : list node) : bool := (foldl wf_step ((∅ : gset string), true) nodes).2.
(* topological order of a (small) graph computed inside Coq *)
Definition rank_le (r : gmap string nat) (p q : string * ninfo) : Prop := rank_of r p.1 ≤ rank_of r q.1.
Global Instance rank_le_dec r p q : Decision (rank_le r p q). Proof. unfold rank_le. apply _. Defined.
Definition nodes_of (c : circuit) : list node :=
  (λ p, (p.1, n_ty p.2, n_out p.2, elements (n_fi p.2))) <$> merge_sort (rank_le (rank_table c)) (map_to_list c).
