(* C19 -- store model of the Python objects that can be shared between a circuit handed to a library function
   and what the function returns.  Definitions only; proofs in Proofs/StoreProofs.v.

   Cells of the heap:
     CGraph g     a networkx DiGraph object together with everything it owns (node-attribute dicts, adjacency dicts)
     CDict b      a blackbox registry dict: instance name -> *reference* to a BlackBox cell
     CBb d        a BlackBox object together with its two pin sets (BlackBox.inputs()/outputs() hand out the sets
                  themselves, so they are mutable state shared by every registry that holds the object); also a
                  free-standing pin set
     CCirc n g b  a Circuit object: its name and *references* to a graph cell and a dict cell
     CBox l       a tuple / list / set / dict holding references to other objects
   BlackBox cells are *shared by design* (dict.copy() is shallow): the theorems say that no listed function ever writes
   one that existed before the call, and that everything else reachable from a result is new.
   A public function is described by an *effect summary*: a program over named locals in a small DSL that records where
   the Python copies, where it only aliases, and which objects it mutates.  The summaries are regenerated from the source
   (Gen/Gen_effects.v); the hand-written part is the semantics of the DSL and the checker `safe_summary`. *)
From stdpp Require Import strings gmap sets fin_sets.
From CG Require Export Types.
Open Scope string_scope.

Definition loc := positive.
Inductive cell :=
| CGraph (g : circuit)
| CDict (b : gmap string loc)
| CBb (d : bbdef)
| CCirc (name : string) (g b : loc)
| CBox (items : list loc).
Notation heap := (gmap loc cell).
Notation env := (gmap string loc).
Definition state : Type := heap * env.

Definition refs (c : cell) : list loc :=
  match c with CCirc _ g b => [g; b] | CBox l => l | CDict b => (map_to_list b).*2 | _ => [] end.
Definition pts (h : heap) (l l' : loc) : Prop := ∃ c, h !! l = Some c ∧ l' ∈ refs c.
Definition reach (h : heap) (r l : loc) : Prop := rtc (pts h) r l.
Definition vcell (h : heap) (l : loc) : Prop := ∃ d, h !! l = Some (CBb d).
Definition is_dict (c : cell) : Prop := match c with CDict _ => True | _ => False end.
(* no dangling references, and a registry refers to BlackBox cells only *)
Definition hclosed (h : heap) : Prop := ∀ l c l', h !! l = Some c → l' ∈ refs c → l' ∈ dom h ∧ (is_dict c → vcell h l').
Definition env_ok (h : heap) (e : env) : Prop := ∀ x l, e !! x = Some l → l ∈ dom h.

(* what a Circuit object denotes: the value that lib.dump_circuit observes *)
Definition resolve (h : heap) (l : loc) : option bbdef := match h !! l with Some (CBb d) => Some d | _ => None end.
Definition denote (h : heap) (l : loc) : option Circuit :=
  match h !! l with
  | Some (CCirc n g b) =>
      match h !! g, h !! b with
      | Some (CGraph gg), Some (CDict bb) =>
          if decide (map_Forall (λ _ lb, is_Some (resolve h lb)) bb)
          then Some {| c_name := n; c_g := gg; c_bbs := omap (resolve h) bb |} else None
      | _, _ => None
      end
  | _ => None
  end.

(* ------------------------------------------------------------------ the DSL *)
Inductive prim :=
| PAllocGraph (d : string)                          (* nx.DiGraph() *)
| PAllocDict (d : string)                           (* a new empty dict *)
| PFreshCircuit (d : string)                        (* Circuit(name=..), a reader, a logic generator: all three objects new *)
| PCopyGraph (d s : string)                         (* s.copy(), s.subgraph(ns).copy() *)
| PRelabelCopy (d s : string)                       (* nx.relabel_nodes(s, m)   (copy=True) *)
| PCopyDict (d s : string)                          (* s.copy() on the registry *)
| PGetGraph (d c : string)                          (* d = c.graph        -- an alias *)
| PGetBbs (d c : string)                            (* d = c.blackboxes   -- an alias *)
| PMkCircuit (d : string) (g b : option string)     (* Circuit(graph=g, blackboxes=b) *)
| PAlias (d s : string)                             (* d = s; bb.inputs() / bb.outputs(): the object itself *)
| PFrom (d : string) (srcs : list string)           (* container building, iteration, element access, view: no copy *)
| PAllocVal (d : string)                            (* BlackBox(...), bb.io(), set(x), a | b: a new BlackBox / pin set *)
| PForeign (d : string)                             (* a BlackBox that comes from outside: value parameter, module global *)
| PRead (x : string)                                (* any use that only reads *)
| PWrite (x : string)                               (* any mutator of a Circuit / DiGraph / registry dict applied to the object held in x *)
| PWriteVal (x : string)                            (* in-place update of a BlackBox or of one of its pin sets: |=, &=, -=, .add, .update ... *)
| PCall (d : option string) (f : string) (args : list string).
Inductive prog := Skip | Do (i : prim) | Seq (p q : prog) | Choice (p q : prog) | Loop (p : prog).
Record summary := { s_name : string; s_params : list string; s_body : prog; s_ret : option string }.
Fixpoint seqs (l : list prog) : prog := match l with [] => Skip | [p] => p | p :: r => Seq p (seqs r) end.

(* ------------------------------------------------------------------ semantics *)
(* A mutator called on the object at l (add, connect, remove, set_type, relabel, add_blackbox, graph.add_node,
   g.nodes[n][k] = v, d[k] = bb, del d[k], c.name = s ...) may change any cell of a footprint W reachable from l
   that is not a BlackBox cell, may allocate, and may store references only to cells that were reachable from l,
   that it allocated itself, or that are BlackBox cells (add_blackbox(bb, ..) stores the caller's object). *)
Definition wstep (h : heap) (l : loc) (h' : heap) : Prop :=
  ∃ W : gset loc,
    (∀ l', l' ∈ W → reach h l l' ∧ ¬ vcell h l') ∧ dom h ⊆ dom h' ∧ hclosed h' ∧
    (∀ l', l' ∈ dom h → l' ∉ W → h' !! l' = h !! l') ∧
    (∀ l1 c l2, h' !! l1 = Some c → l2 ∈ refs c → l1 ∈ W ∨ l1 ∉ dom h → reach h l l2 ∨ l2 ∉ dom h ∨ vcell h l2).

(* Circuit.__init__: a falsy argument (None, an empty graph, an empty dict) is replaced by a new object,
   anything else is stored BY REFERENCE *)
Inductive pick_graph (h : heap) (e : env) : option string → loc → heap → Prop :=
| pg_none l : l ∉ dom h → pick_graph h e None l (<[l := CGraph ∅]> h)
| pg_empty x l0 l : e !! x = Some l0 → h !! l0 = Some (CGraph ∅) → l ∉ dom h → pick_graph h e (Some x) l (<[l := CGraph ∅]> h)
| pg_ref x l0 g : e !! x = Some l0 → h !! l0 = Some (CGraph g) → g ≠ ∅ → pick_graph h e (Some x) l0 h.
Inductive pick_dict (h : heap) (e : env) : option string → loc → heap → Prop :=
| pd_none l : l ∉ dom h → pick_dict h e None l (<[l := CDict ∅]> h)
| pd_empty x l0 l : e !! x = Some l0 → h !! l0 = Some (CDict ∅) → l ∉ dom h → pick_dict h e (Some x) l (<[l := CDict ∅]> h)
| pd_ref x l0 b : e !! x = Some l0 → h !! l0 = Some (CDict b) → b ≠ ∅ → pick_dict h e (Some x) l0 h.

Inductive prim_step : prim → state → state → Prop :=
| st_alloc_graph d h e l : l ∉ dom h → prim_step (PAllocGraph d) (h, e) (<[l := CGraph ∅]> h, <[d := l]> e)
| st_alloc_dict d h e l : l ∉ dom h → prim_step (PAllocDict d) (h, e) (<[l := CDict ∅]> h, <[d := l]> e)
| st_fresh_circuit d h e lc lg lb nm g b :
    lg ∉ dom h → lb ∉ dom h → lc ∉ dom h → lg ≠ lb → lc ≠ lg → lc ≠ lb → (∀ k l, b !! k = Some l → vcell h l) →
    prim_step (PFreshCircuit d) (h, e) (<[lc := CCirc nm lg lb]> (<[lb := CDict b]> (<[lg := CGraph g]> h)), <[d := lc]> e)
| st_copy_graph d s h e ls g l :
    e !! s = Some ls → h !! ls = Some (CGraph g) → l ∉ dom h →
    prim_step (PCopyGraph d s) (h, e) (<[l := CGraph g]> h, <[d := l]> e)
| st_relabel_copy d s h e ls g g' l :
    e !! s = Some ls → h !! ls = Some (CGraph g) → l ∉ dom h →
    prim_step (PRelabelCopy d s) (h, e) (<[l := CGraph g']> h, <[d := l]> e)
| st_copy_dict d s h e ls b l :
    e !! s = Some ls → h !! ls = Some (CDict b) → l ∉ dom h →
    prim_step (PCopyDict d s) (h, e) (<[l := CDict b]> h, <[d := l]> e)
| st_get_graph d c h e lc nm lg lb :
    e !! c = Some lc → h !! lc = Some (CCirc nm lg lb) → prim_step (PGetGraph d c) (h, e) (h, <[d := lg]> e)
| st_get_bbs d c h e lc nm lg lb :
    e !! c = Some lc → h !! lc = Some (CCirc nm lg lb) → prim_step (PGetBbs d c) (h, e) (h, <[d := lb]> e)
| st_mk_circuit d g b h e lg h1 lb h2 lc nm :
    pick_graph h e g lg h1 → pick_dict h1 e b lb h2 → lc ∉ dom h2 →
    prim_step (PMkCircuit d g b) (h, e) (<[lc := CCirc nm lg lb]> h2, <[d := lc]> e)
| st_alias d s h e ls : e !! s = Some ls → prim_step (PAlias d s) (h, e) (h, <[d := ls]> e)
| st_alloc_val d h e l v : l ∉ dom h → prim_step (PAllocVal d) (h, e) (<[l := CBb v]> h, <[d := l]> e)
| st_foreign d h e l : vcell h l → prim_step (PForeign d) (h, e) (h, <[d := l]> e)
| st_write_val x h e l v v' : e !! x = Some l → h !! l = Some (CBb v) → prim_step (PWriteVal x) (h, e) (<[l := CBb v']> h, e)
| st_from d srcs h e h' l :
    h ⊆ h' → hclosed h' → l ∈ dom h' →
    (∀ l', reach h' l l' → l' ∉ dom h ∨ ∃ s ls, s ∈ srcs ∧ e !! s = Some ls ∧ reach h ls l') →
    prim_step (PFrom d srcs) (h, e) (h', <[d := l]> e)
| st_read x h e : prim_step (PRead x) (h, e) (h, e)
| st_write x h e l h' : e !! x = Some l → wstep h l h' → prim_step (PWrite x) (h, e) (h', e).

Definition find_summary (tbl : list summary) (f : string) : option summary :=
  list_find (λ s, s_name s = f) tbl ≫= λ p, Some p.2.
Definition bind_params (ps : list string) (ls : list loc) : env := list_to_map (zip ps ls).

(* big-step execution; the flag says whether the run ended in an exception.  Any program may raise at any point
   (ex_raise), so the Raise outcomes of a summary are exactly the states of its execution prefixes. *)
Inductive exec (tbl : list summary) : prog → state → bool → state → Prop :=
| ex_raise p σ : exec tbl p σ true σ
| ex_skip σ : exec tbl Skip σ false σ
| ex_do i σ σ' : prim_step i σ σ' → exec tbl (Do i) σ false σ'
| ex_seq p q σ σ1 r σ2 : exec tbl p σ false σ1 → exec tbl q σ1 r σ2 → exec tbl (Seq p q) σ r σ2
| ex_seq_raise p q σ σ1 : exec tbl p σ true σ1 → exec tbl (Seq p q) σ true σ1
| ex_choice_l p q σ r σ1 : exec tbl p σ r σ1 → exec tbl (Choice p q) σ r σ1
| ex_choice_r p q σ r σ1 : exec tbl q σ r σ1 → exec tbl (Choice p q) σ r σ1
| ex_loop_0 p σ : exec tbl (Loop p) σ false σ
| ex_loop_S p σ σ1 r σ2 : exec tbl p σ false σ1 → exec tbl (Loop p) σ1 r σ2 → exec tbl (Loop p) σ r σ2
| ex_loop_raise p σ σ1 : exec tbl p σ true σ1 → exec tbl (Loop p) σ true σ1
| ex_call d f args s h e ls h' e' e2 :
    find_summary tbl f = Some s → mapM (λ a, e !! a) args = Some ls → length ls = length (s_params s) →
    exec tbl (s_body s) (h, bind_params (s_params s) ls) false (h', e') →
    e2 = match d, s_ret s with
         | Some dv, Some rv => match e' !! rv with Some l => <[dv := l]> e | None => e end
         | _, _ => e end →
    exec tbl (Do (PCall d f args)) (h, e) false (h', e2)
| ex_call_raise d f args s h e ls h' e' :
    find_summary tbl f = Some s → mapM (λ a, e !! a) args = Some ls → length ls = length (s_params s) →
    exec tbl (s_body s) (h, bind_params (s_params s) ls) true (h', e') →
    exec tbl (Do (PCall d f args)) (h, e) true (h', e).

(* ------------------------------------------------------------------ the checker *)
(* `own`  = locals that can only ever hold objects all of whose reachable cells are new or BlackBox cells
   `ownv` = locals that can only ever hold an object that is itself new (a BlackBox / pin set made by the call) *)
Definition ino (own : gset string) (x : string) : bool := bool_decide (x ∈ own).
Definition oin (own : gset string) (x : option string) : bool := match x with None => true | Some y => ino own y end.
Definition chk_prim (tbl : list summary) (own ownv : gset string) (i : prim) : bool :=
  match i with
  | PAllocGraph d | PAllocDict d | PFreshCircuit d | PCopyGraph d _ | PRelabelCopy d _ | PCopyDict d _ => negb (ino ownv d)
  | PRead _ | PAllocVal _ => true
  | PForeign d => negb (ino own d) && negb (ino ownv d)
  | PAlias d s => implb (ino own d) (ino own s) && implb (ino ownv d) (ino ownv s)
  | PGetGraph d c | PGetBbs d c => implb (ino own d) (ino own c) && negb (ino ownv d)
  | PMkCircuit d g b => implb (ino own d) (oin own g && oin own b) && negb (ino ownv d)
  | PFrom d srcs => implb (ino own d) (forallb (ino own) srcs) && negb (ino ownv d)
  | PWrite x => ino own x
  | PWriteVal x => ino ownv x
  | PCall d f args =>
      match find_summary tbl f with
      | Some s => bool_decide (length args = length (s_params s)) &&
                  match d, s_ret s with
                  | Some _, None => false
                  | Some dv, Some rv => negb (ino ownv dv)
                  | None, _ => true end
      | None => false
      end
  end.
Fixpoint chk_prog (tbl : list summary) (own ownv : gset string) (p : prog) : bool :=
  match p with
  | Skip => true
  | Do i => chk_prim tbl own ownv i
  | Seq a b | Choice a b => chk_prog tbl own ownv a && chk_prog tbl own ownv b
  | Loop a => chk_prog tbl own ownv a
  end.

(* inference of the two sets.  Only `chk_prog` is trusted by the proofs; `infer` just proposes. *)
Fixpoint prims (p : prog) : list prim :=
  match p with Skip => [] | Do i => [i] | Seq a b | Choice a b => prims a ++ prims b | Loop a => prims a end.
Definition ins (sh : gset string) (x : string) : bool := bool_decide (x ∈ sh).
(* shared = may reach a pre-existing cell that is not a BlackBox *)
Definition prop_prim (tbl : list summary) (sh : gset string) (i : prim) : gset string :=
  match i with
  | PGetGraph d c | PGetBbs d c | PAlias d c => if ins sh c then {[ d ]} ∪ sh else sh
  | PMkCircuit d g b => if existsb (ins sh) (option_list g ++ option_list b) then {[ d ]} ∪ sh else sh
  | PFrom d srcs => if existsb (ins sh) srcs then {[ d ]} ∪ sh else sh
  | PForeign d => {[ d ]} ∪ sh
  | PCall (Some dv) f _ =>
      match find_summary tbl f with
      | Some s => match s_ret s with Some rv => if bool_decide (rv ∈ s_params s) then {[ dv ]} ∪ sh else sh | None => sh end
      | None => sh end
  | _ => sh
  end.
(* not-new = the object itself may have existed before the call *)
Definition prop_old (old : gset string) (i : prim) : gset string :=
  match i with
  | PAllocVal _ | PRead _ | PWrite _ | PWriteVal _ | PCall None _ _ => old
  | PAlias d s => if ins old s then {[ d ]} ∪ old else old
  | PAllocGraph d | PAllocDict d | PFreshCircuit d | PCopyGraph d _ | PRelabelCopy d _ | PCopyDict d _
  | PGetGraph d _ | PGetBbs d _ | PMkCircuit d _ _ | PFrom d _ | PForeign d | PCall (Some d) _ _ => {[ d ]} ∪ old
  end.
Fixpoint iter_sh (n : nat) (f : gset string → prim → gset string) (l : list prim) (sh : gset string) : gset string :=
  match n with O => sh | S k => iter_sh k f l (foldl f sh l) end.
Definition dst_of (i : prim) : list string :=
  match i with
  | PAllocGraph d | PAllocDict d | PFreshCircuit d | PCopyGraph d _ | PRelabelCopy d _ | PCopyDict d _
  | PGetGraph d _ | PGetBbs d _ | PMkCircuit d _ _ | PFrom d _ | PAlias d _ | PAllocVal d | PForeign d => [d]
  | PCall (Some d) _ _ => [d]
  | _ => []
  end.
Definition all_dsts (s : summary) : gset string := list_to_set (mjoin (dst_of <$> prims (s_body s))).
Definition shared_of (tbl : list summary) (s : summary) : gset string :=
  let l := prims (s_body s) in iter_sh (S (length l)) (prop_prim tbl) l (list_to_set (s_params s)).
Definition old_of (s : summary) : gset string :=
  let l := prims (s_body s) in iter_sh (S (length l)) prop_old l (list_to_set (s_params s)).
Definition infer (tbl : list summary) (s : summary) : gset string := all_dsts s ∖ shared_of tbl s.
Definition inferv (s : summary) : gset string := all_dsts s ∖ old_of s.

Definition safe_with (tbl : list summary) (own ownv : gset string) (s : summary) : bool :=
  forallb (λ x, negb (ino own x) && negb (ino ownv x)) (s_params s) && chk_prog tbl own ownv (s_body s) && oin own (s_ret s).
Definition safe_summary (tbl : list summary) (s : summary) : bool := safe_with tbl (infer tbl s) (inferv s) s.
Definition table_safe (tbl : list summary) : bool := forallb (safe_summary tbl) tbl.

(* what the model predicts the runtime harness will observe for a function: (an argument may be mutated, the result may
   share mutable state other than BlackBox objects with an argument).  A callee that is itself unsafe taints its callers. *)
Definition writes_shared (tbl : list summary) (s : summary) : bool :=
  let sh := shared_of tbl s in let old := old_of s in
  existsb (λ i, match i with PWrite x => ins sh x | PWriteVal x => ins old x | _ => false end) (prims (s_body s)).
Definition result_shared (tbl : list summary) (s : summary) : bool :=
  match s_ret s with Some r => ins (shared_of tbl s) r | None => false end.
Definition callees (s : summary) : list string :=
  mjoin ((λ i, match i with PCall _ f _ => [f] | _ => [] end) <$> prims (s_body s)).
Fixpoint may_mutate (n : nat) (tbl : list summary) (f : string) : bool :=
  match find_summary tbl f with
  | None => true
  | Some s => writes_shared tbl s ||
              match n with O => false | S k => existsb (may_mutate k tbl) (remove_dups (callees s)) end
  end.
Definition predict (tbl : list summary) (f : string) : bool * bool :=
  (may_mutate 6 tbl f, match find_summary tbl f with Some s => result_shared tbl s | None => true end).

(* concrete edits used in the statements about later histories *)
Definition set_graph (h : heap) (l : loc) (g' : circuit) : heap :=
  match h !! l with Some (CCirc _ lg _) => <[lg := CGraph g']> h | _ => h end.
Definition set_dict (h : heap) (l : loc) (b' : gmap string loc) : heap :=
  match h !! l with Some (CCirc _ _ lb) => <[lb := CDict b']> h | _ => h end.
Definition set_name (h : heap) (l : loc) (n' : string) : heap :=
  match h !! l with Some (CCirc _ lg lb) => <[l := CCirc n' lg lb]> h | _ => h end.
