(* Model of tx.supergates (circuitgraph/tx.py) on the fan-in-limited circuit L, and the executable
   specification of property C17 (checkers; their soundness is in Proofs/SupergatesProofs.v).
   Definitions only.

   The code first calls limit_fanin(c, 2); that circuit is internal, the model takes it as an argument
   (the harness records it).  networkx.immediate_dominators is replaced by the DEFINITION of dominance:
   d dominates n iff n cannot be reached from the output once d is removed; the immediate dominator is
   the strict dominator that every other strict dominator dominates.
   Sets of Circuit objects iterate by id, so the list order of the result is not modelled: the model
   returns the supergates in one legal order and the correspondence compares them as a set. *)
From stdpp Require Import strings gmap sets fin_sets.
From CG Require Export Types Api.
From CG Require Import Gen.Gen_supergates.
Open Scope string_scope.

(* ================================================================ paths (DESIGN.md appendix C) *)
Inductive pathl (c : circuit) : string → string → list string → Prop :=   (* nodes visited, u first *)
| pathl_nil u : u ∈ dom c → pathl c u u [u]
| pathl_step u w v l : u ∈ fanin c w → pathl c w v l → pathl c u v (u :: l).
Definition path c u v k := ∃ l, pathl c u v l ∧ length l = S k.          (* u ->* v in k edges *)
Definition reach c u v := ∃ k, path c u v k.
Definition reach1 c u v := ∃ k, path c u v (S k).
Definition has_cycle c := ∃ u, reach1 c u u.
Definition gates (c : circuit) : gset string := dom c ∖ inputs c.

(* the constants of the source, regenerated on every run (gen/plugins/supergates.py); the obligation on them *)
Definition sg_tables_ok : bool :=
  bool_decide (sg_limit_k = 2 ∧ sg_split_above = 1 ∧ sg_absorb_at = 1 ∧ sg_max_outputs = 1 ∧
               sg_bb_prefix = "sg_" ∧ sg_super_suffix = "_supergates").

(* ================================================================ graph search *)
(* depth-first search from a stack; a node enters `seen` when it is pushed, so |nodes|+1 rounds suffice *)
Fixpoint dfs (fuel : nat) (succ : string → list string) (stack : list string) (seen : gset string) : gset string :=
  match fuel with O => seen | S k =>
    match stack with [] => seen | x :: st =>
      let new := filter (λ y, y ∉ seen) (succ x) in
      dfs k succ (new ++ st) (seen ∪ list_to_set new) end end.
(* transitive fan-in including the node itself *)
Definition tfi_star (c : circuit) (n : string) : gset string :=
  dfs (S (S (size c))) (λ x, elements (fanin c x)) [n] {[n]}.

(* ================================================================ subcircuit *)
Definition is_const (t : gtype) : bool := match t with C0 | C1 | CX => true | _ => false end.
Definition is_bb (t : gtype) : bool := match t with BbIn | BbOut => true | _ => false end.
(* tx.subcircuit(c, nodes): nodes keep type and output mark, edges with both ends inside *)
Definition subgraph (c : circuit) (S : gset string) : circuit :=
  upd_fi (λ fi, fi ∩ S) <$> filter (λ p, p.1 ∈ S) c.
(* modify_io=True: undriven non-constant nodes become inputs, nodes without fanout become outputs *)
Definition fix_io (g : circuit) : circuit :=
  map_imap (λ n i, Some {| n_ty := if is_const (n_ty i) then n_ty i else if bool_decide (n_fi i = ∅) then Input else n_ty i;
                           n_out := if bool_decide (fanout g n = ∅) then true else n_out i;
                           n_fi := n_fi i |}) g.
Definition sg_name : string := "circuit".                      (* cg.Circuit() default name *)
Definition mk_sg (co : circuit) (node : string) (S : gset string) : Circuit :=
  {| c_name := sg_name; c_g := alter (set_out true) node (fix_io (subgraph co S)); c_bbs := ∅ |}.

(* ================================================================ one output cone *)
(* c_output: the cone, all output marks cleared, `o` marked *)
Definition cone (L : circuit) (o : string) : circuit :=
  alter (set_out true) o (set_out false <$> subgraph L (tfi_star L o)).
(* the search graph g: every edge also backwards, edges into the output removed *)
Definition usucc (co : circuit) (o : string) (x : string) : list string :=
  elements (fanin co x ∪ (fanout co x ∖ {[o]})).
Definition adj_table (co : circuit) (o : string) : gmap string (list string) :=
  map_imap (λ n _, Some (usucc co o n)) co.
Definition adj_of (t : gmap string (list string)) (x : string) : list string := default [] (t !! x).
(* nodes reachable from the output when d is removed *)
Definition reach_avoid (adj : gmap string (list string)) (n_nodes : nat) (o d : string) : gset string :=
  if bool_decide (d = o) then ∅ else
  dfs (S (S n_nodes)) (λ x, filter (λ y, y ≠ d) (adj_of adj x)) [o] {[o]}.
Definition avoid_table (co : circuit) (o : string) : gmap string (gset string) :=
  let adj := adj_table co o in map_imap (λ d _, Some (reach_avoid adj (size co) o d)) co.
(* strict dominators of n *)
Definition sdom (av : gmap string (gset string)) (n : string) : gset string :=
  dom (filter (λ p, p.1 ≠ n ∧ n ∉ p.2) av).
Definition sdom_table (av : gmap string (gset string)) : gmap string (gset string) :=
  map_imap (λ n _, Some (sdom av n)) av.
Definition sdom_of (sd : gmap string (gset string)) (n : string) : gset string := default ∅ (sd !! n).
(* immediate dominator: the strict dominator dominated by all the others *)
Definition idom (sd : gmap string (gset string)) (n : string) : option string :=
  let s := sdom_of sd n in
  (λ p, p.2) <$> list_find (λ d, bool_decide (set_Forall (λ e, e = d ∨ e ∈ sdom_of sd d) s)) (elements s).
(* dominator tree: children lists *)
Definition kids_of (co : circuit) (o : string) (sd : gmap string (gset string)) : gmap string (list string) :=
  let idoms : list (string * string) := omap (λ n, (λ d, (n, d)) <$> idom sd n) (elements (dom co ∖ {[o]})) in
  map_imap (λ p _, Some ((λ q, q.1) <$> filter (λ q, q.2 = p) idoms)) co.
Definition kids_table (co : circuit) (o : string) : gmap string (list string) :=
  kids_of co o (sdom_table (avoid_table co o)).

(* the inner `fanins` queue for one dominator-tree child: a chain of single children is absorbed;
   a node with more than one child closes the chain and starts its own supergate *)
Fixpoint absorb (fuel : nat) (kids : gmap string (list string)) (fi : string) : list string * list string :=
  match fuel with O => ([fi], []) | S k =>
    let ch := adj_of kids fi in
    if (sg_split_above <? length ch)%nat then ([fi], [fi])
    else if (length ch =? sg_absorb_at)%nat then
      match ch with c0 :: _ => let r := absorb k kids c0 in (fi :: r.1, r.2) | [] => ([fi], []) end
    else ([fi], []) end.
Definition grow (fuel : nat) (kids : gmap string (list string)) (node : string) : gset string * list string :=
  let rs := absorb fuel kids <$> adj_of kids node in
  ({[node]} ∪ list_to_set (mjoin (fst <$> rs)), mjoin (snd <$> rs)).
(* the `frontier` queue *)
Fixpoint grow_all (fuel : nat) (kids : gmap string (list string)) (frontier : list string) : list (string * gset string) :=
  match fuel with O => [] | S k =>
    match frontier with [] => [] | node :: rest =>
      let r := grow fuel kids node in (node, r.1) :: grow_all k kids (rest ++ r.2) end end.
(* ---- certificates.  The searches and the queues above run on fuel; instead of proving the fuel sufficient, their
   results are CHECKED (cheap), and the model has no value (OutOfFuel) when a check fails.  The correspondence run
   shows this never happens; the proofs use only the checked facts and the leastness of the searched sets. ---- *)
Definition fi_closed (L : circuit) (S : gset string) : Prop := set_Forall (λ n, fanin L n ⊆ S) S.
Definition up_set (L : circuit) (a : string) : gset string := tfi_star L a.
Definition up_ok (L : circuit) (a : string) : Prop := a ∈ up_set L a ∧ fi_closed L (up_set L a).
(* every avoid set contains the output and is closed under the search-graph successors other than the removed node *)
Definition avoid_ok (co : circuit) (o : string) (av : gmap string (gset string)) : Prop :=
  map_Forall (λ d A, d = o ∨ (o ∈ A ∧ set_Forall (λ x, Forall (λ y, y = d ∨ y ∈ A) (usucc co o x)) A)) av.
(* a grown supergate (root r, node set S): r is the output or has more than one tree child; S contains r, the children of
   r and of every absorbed single-child node; every other member hangs below a member and is strictly deeper than r *)
Definition absorbs (kids : gmap string (list string)) (x : string) : Prop :=
  ¬ (sg_split_above < length (adj_of kids x)) ∧ length (adj_of kids x) = sg_absorb_at.
Definition grow_ok (o : string) (sd : gmap string (gset string)) (kids : gmap string (list string)) (p : string * gset string) : Prop :=
  p.1 ∈ p.2 ∧ (p.1 = o ∨ sg_split_above < length (adj_of kids p.1)) ∧
  set_Forall (λ x, (x = p.1 ∨ absorbs kids x) → Forall (λ c, c ∈ p.2) (adj_of kids x)) p.2 ∧
  set_Forall (λ x, x = p.1 ∨ (size (sdom_of sd p.1) < size (sdom_of sd x) ∧
                              set_Exists (λ q, x ∈ adj_of kids q ∧ (q = p.1 ∨ adj_of kids q = [x])) p.2)) p.2.

(* the `frontier` queue ran to completion and met every node once: roots are distinct, and a member of a grown set that
   is neither its root nor absorbed-through (more than sg_split_above children) is the root of a grown set *)
Definition frontier_ok (kids : gmap string (list string)) (gs : list (string * gset string)) : Prop :=
  NoDup gs.*1 ∧
  Forall (λ p, set_Forall (λ x, x = p.1 ∨ ¬ sg_split_above < length (adj_of kids x) ∨ x ∈ gs.*1) p.2) gs.

Definition cone_supergates (L : circuit) (o : string) : option (list Circuit) :=
  let co := cone L o in
  let av := avoid_table co o in
  let sd := sdom_table av in
  let kids := kids_of co o sd in
  let gs := grow_all (S (size co)) kids [o] in
  if bool_decide (up_ok L o ∧ avoid_ok co o av ∧ Forall (grow_ok o sd kids) gs ∧ frontier_ok kids gs)
  then Some ((λ p, mk_sg co p.1 p.2) <$> gs) else None.

(* ================================================================ all cones, duplicates, minimal cover *)
(* supergate_circuits keyed by node set (repair of the duplicate-cover defect): the same node set found in
   two cones is one supergate; were the two graphs different the result would depend on the order of
   c.outputs(), which is not recorded: None *)
Fixpoint dedupe (l : list Circuit) (acc : list Circuit) : option (list Circuit) :=
  match l with [] => Some (reverse acc) | s :: r =>
    match list_find (λ t, dom (c_g t) = dom (c_g s)) acc with
    | Some (_, t) => if bool_decide (t = s) then dedupe r acc else None
    | None => dedupe r (s :: acc) end end.
Definition gates_of (s : Circuit) : gset string := gates (c_g s).
Definition others {A} (l : list A) (k : nat) : list A := take k l ++ drop (S k) l.
(* kept iff some node (inputs included) is not a gate of another supergate *)
Definition minimal_cover (l : list Circuit) : list Circuit :=
  omap (λ p : nat * Circuit, if bool_decide (dom (c_g p.2) ⊆ ⋃ (gates_of <$> others l p.1)) then None else Some p.2)
       (imap (λ k s, (k, s)) l).
(* minimal_supergate_circuits[supergate.outputs().pop()] = supergate: needs one output each, distinct keys *)
Definition out_of (s : Circuit) : option string :=
  match elements (outputs (c_g s)) with [o] => Some o | _ => None end.
Definition keyed (l : list Circuit) : option (list (string * Circuit)) :=
  l' ← mapM (λ s, (λ o, (o, s)) <$> out_of s) l;
  if bool_decide (NoDup (l'.*1)) then Some l' else None.

(* ================================================================ list form: dependency order *)
(* edge other -> s when a non-primary input of s is a gate of other *)
Definition depends (L : circuit) (s other : Circuit) : bool :=
  negb (bool_decide ((inputs (c_g s) ∖ inputs L) ∩ gates_of other = ∅)).
(* Kahn rounds: take every supergate that depends on no remaining other one; None = cyclic
   (networkx.topological_sort raises NetworkXUnfeasible) *)
Fixpoint kahn (fuel : nat) (L : circuit) (left done : list (string * Circuit)) : option (list (string * Circuit)) :=
  match fuel with O => None | S k =>
    match left with [] => Some done | _ =>
      let ready := filter (λ p, forallb (λ q, bool_decide (q.1 = p.1) || negb (depends L p.2 q.2)) left) left in
      match ready with [] => None | _ =>
        kahn k L (filter (λ p, p.1 ∉ ready.*1) left) (done ++ ready) end end end.

Definition has_bb (L : circuit) : bool :=
  existsb (λ o, existsb (λ n, match L !! n with Some i => is_bb (n_ty i) | None => false end) (elements (tfi_star L o)))
          (elements (outputs L)).

(* every supergate of every output cone, duplicates merged (before the minimal-cover filter) *)
Definition all_supergates (L : circuit) : res (list Circuit) :=
  if has_bb L then Raise NotImplementedError else
  match mapM (cone_supergates L) (elements (outputs L)) with None => OutOfFuel | Some per_cone =>
  match dedupe (mjoin per_cone) [] with None => BadOrder | Some all => Ok all end end.
Definition minimal_supergates (L : circuit) : res (list (string * Circuit)) :=
  rbind (all_supergates L) (λ all, match keyed (minimal_cover all) with None => BadOrder | Some m => Ok m end).

(* supergates(c) with L = limit_fanin(c, 2) *)
Definition supergates (L : circuit) : res (list Circuit) :=
  rbind (minimal_supergates L) (λ m,
    match kahn (S (length m)) L m [] with None => Raise OtherError | Some l => Ok (l.*2) end).

(* ================================================================ construct_supercircuit=True *)
Definition sgn (o : string) : string := sg_bb_prefix ++ o.
Definition lift (r : circuit * outcome) (k : circuit → res Circuit) : res Circuit :=
  match r.2 with Done => k r.1 | Fail e => Raise e end.
(* one blackbox per supergate that has gates (repair: the gate-less supergate of a primary input is skipped) *)
Definition add_sg (C : Circuit) (p : string * Circuit) : res Circuit :=
  let s := p.2 in
  if bool_decide (gates_of s = ∅) then Ok C else
  let ins := inputs (c_g s) in let outs : gset string := {[p.1]} in
  let io := elements (ins ∪ outputs (c_g s)) in
  (* for n in supergate.io(): if n not in superc: superc.add(n, "buf") *)
  let g1 := foldl (λ st n, match st with
               | (g, Done) => if bool_decide (n ∈ dom g) then (g, Done) else (add_g g n Buf [] [] af_default).1
               | _ => st end) (c_g C, Done) io in
  match g1.2 with Fail e => Raise e | Done =>
    let r := add_blackbox (with_g C g1.1) {| bb_name := sgn p.1; bb_in := ins; bb_out := outs |} (sgn p.1)
                          (elements ins) (elements outs) ((λ n, (n, [n])) <$> io) in
    match r.2 with Done => Ok r.1 | Fail e => Raise e end end.
Definition supercircuit (name : string) (L : circuit) : res (Circuit * list (string * Circuit)) :=
  if bool_decide (sg_max_outputs < size (outputs L)) then Raise ValueError else
  rbind (minimal_supergates L) (λ m,
    let C0 := {| c_name := name ++ sg_super_suffix; c_g := ∅; c_bbs := ∅ |} in
    (* inputs, then output buffers (repair: an input that is the output is only marked) *)
    let g1 := foldl (λ st n, match st with (g, Done) => (add_g g n Input [] [] af_default).1 | _ => st end)
                    (∅ : circuit, Done) (elements (inputs L)) in
    let g2 := foldl (λ st o, match st with
                | (g, Done) => if bool_decide (o ∈ dom g) then set_output_g g [o] true
                               else (add_g g o Buf [] [] {| af_out := true; af_conn := false; af_redef := false; af_uid := false |}).1
                | _ => st end) g1 (elements (outputs L)) in
    match g2.2 with Fail e => Raise e | Done =>
      rbind (foldl (λ st p, rbind st (λ C, add_sg C p)) (Ok (with_g C0 g2.1)) m)
            (λ C, Ok (C, (λ p, (sgn p.1, p.2)) <$> filter (λ p, gates_of p.2 ≠ ∅) m)) end).

(* ================================================================ the specification, executable *)
(* a set that contains a and is closed under fan-in contains everything that reaches a: the checkers
   compute such a set and CHECK the closure, so their verdict does not rest on the search above *)
Definition shape_ok (L : circuit) (sg : Circuit) : Prop :=
  size (outputs (c_g sg)) = 1 ∧
  set_Forall (λ n, n_ty <$> c_g sg !! n = n_ty <$> L !! n ∧ fanin (c_g sg) n = fanin L n) (gates (c_g sg)).
Definition indep_ok (L : circuit) (sg : Circuit) : Prop :=
  set_Forall (λ a, up_ok L a ∧
    set_Forall (λ b, a = b ∨ up_set L a ∩ up_set L b = ∅) (inputs (c_g sg))) (inputs (c_g sg)).
Definition cover_ok (L : circuit) (sgs : list Circuit) : Prop :=
  set_Forall (λ o, up_ok L o ∧ up_set L o ∖ inputs L ⊆ ⋃ (gates_of <$> sgs)) (outputs L).
Fixpoint topo_ok (sgs : list Circuit) : Prop :=
  match sgs with [] => True | s :: r =>
    inputs (c_g s) ∩ gates_of s = ∅ ∧ Forall (λ t, inputs (c_g s) ∩ gates_of t = ∅) r ∧ topo_ok r end.
Global Instance topo_ok_dec sgs : Decision (topo_ok sgs).
Proof. induction sgs; simpl; apply _. Defined.

Definition check_shape (L : circuit) (sgs : list Circuit) : bool := bool_decide (Forall (shape_ok L) sgs).
Definition check_independent (L : circuit) (sgs : list Circuit) : bool := bool_decide (Forall (indep_ok L) sgs).
Definition check_cover (L : circuit) (sgs : list Circuit) : bool := bool_decide (cover_ok L sgs).
Definition check_topo (sgs : list Circuit) : bool := bool_decide (topo_ok sgs).
Definition check_all (L : circuit) (sgs : list Circuit) : bool :=
  check_shape L sgs && check_independent L sgs && check_cover L sgs && check_topo sgs.

(* decidable form of the hypotheses of the theorems about the model (Properties/C17.v, wf_lim): closed, acyclic by a rank
   certificate, at most two operands, constants and inputs undriven, gates driven, no blackbox pins *)
Definition rank_cert (c : circuit) : gmap string nat :=
  Nat.iter (S (size c)) (λ r, map_imap (λ n i, Some (set_fold (λ f acc, max acc (S (default 0 (r !! f)))) 0 (n_fi i))) c) ∅.
Definition wf_limb (L : circuit) : bool :=
  let r := rank_cert L in
  bool_decide (map_Forall (λ n i,
     n_fi i ⊆ dom L ∧ set_Forall (λ f, default 0 (r !! f) < default 0 (r !! n)) (n_fi i) ∧
     size (n_fi i) ≤ 2 ∧ (is_const (n_ty i) = true → n_fi i = ∅) ∧
     (n_ty i ≠ Input → is_const (n_ty i) = false → n_fi i ≠ ∅) ∧ (n_ty i = Input → n_fi i = ∅)) L).

(* the property, declaratively (DESIGN.md appendix C, C17_supergates) *)
Definition sg_spec (L : circuit) (sgs : list Circuit) : Prop :=
  Forall (λ sg, size (outputs (c_g sg)) = 1 ∧
                (∀ n, n ∈ gates (c_g sg) → n_ty <$> c_g sg !! n = n_ty <$> L !! n ∧ fanin (c_g sg) n = fanin L n) ∧
                (∀ a b x, a ∈ inputs (c_g sg) → b ∈ inputs (c_g sg) → a ≠ b → reach L x a → reach L x b → False)) sgs ∧
  (∀ n o, o ∈ outputs L → reach L n o → n ∉ inputs L → ∃ sg, sg ∈ sgs ∧ n ∈ gates (c_g sg)) ∧
  (∀ i j sgi sgj x, sgs !! i = Some sgi → sgs !! j = Some sgj → x ∈ inputs (c_g sgi) → x ∈ gates (c_g sgj) → j < i).
