(* Model of tx.ternary (circuitgraph/tx.py) and Kleene three-valued semantics (C10).
   Definitions only.  The gate types of every `t.add` call and the type lists of the branch tests come from the
   regenerated Gen_tern.v; names, wiring and call order are fixed by the translator's skeleton (fail closed).
   Iteration orders (graph node order, per-node fan-in set order) are explicit arguments: they decide which
   helper node gets which `uid` suffix.
   Not modelled: the name checks of Circuit.add (empty name / leading digit) and the arity checks of connect;
   for circuits built through the API they cannot fire here (companions get their fan-in exactly once). *)
From stdpp Require Import strings gmap sets pretty.
From CG Require Export Types Sem Api Gen.Gen_tern.
Open Scope string_scope.

(* ---------- Kleene three-valued semantics ---------- *)
Inductive tern := T0 | T1 | TX.
Global Instance tern_eq_dec : EqDecision tern. Proof. solve_decision. Defined.
Definition B (b : bool) : tern := if b then T1 else T0.
Definition kand (a b : tern) : tern := match a, b with T0, _ | _, T0 => T0 | T1, T1 => T1 | _, _ => TX end.
Definition kor (a b : tern) : tern := match a, b with T1, _ | _, T1 => T1 | T0, T0 => T0 | _, _ => TX end.
Definition kxor (a b : tern) : tern := match a, b with TX, _ | _, TX => TX | T0, x | x, T0 => x | T1, T1 => T0 end.
Definition knot (a : tern) : tern := match a with T0 => T1 | T1 => T0 | TX => TX end.
Definition k_op (t : gtype) : tern → tern → tern :=
  match t with And | Nand => kand | Or | Nor => kor | _ => kxor end.
(* gate-by-gate Kleene evaluation: the same op / unit / inversion view as Sem.gate_val *)
Definition kgate (t : gtype) (l : list tern) : tern :=
  let r := foldr (k_op t) (B (g_unit t)) l in if g_inv t then knot r else r.

Definition kval := string → tern.
Definition knode_ok (k : kval) (n : string) (i : ninfo) : Prop :=
  match n_ty i with
  | Input | BbOut => True | C0 => k n = T0 | C1 => k n = T1 | CX => k n = TX
  | t => k n = kgate t (k <$> elements (n_fi i)) end.
Definition kconsistent (c : circuit) (k : kval) : Prop := ∀ n i, c !! n = Some i → knode_ok k n i.
Definition knode_okb (k : kval) (n : string) (i : ninfo) : bool :=
  match n_ty i with
  | Input | BbOut => true | C0 => bool_decide (k n = T0) | C1 => bool_decide (k n = T1) | CX => bool_decide (k n = TX)
  | t => bool_decide (k n = kgate t (k <$> elements (n_fi i))) end.
Definition kconsistentb (c : circuit) (k : kval) : bool := forallb (λ p, knode_okb k p.1 p.2) (map_to_list c).

Fixpoint keval (fuel : nat) (c : circuit) (a : kval) (n : string) : tern :=
  match fuel with O => a n | S f =>
    match c !! n with None => a n | Some i =>
      match n_ty i with
      | Input | BbOut => a n | C0 => T0 | C1 => T1 | CX => TX
      | t => kgate t (keval f c a <$> elements (n_fi i)) end end end.

(* how a binary valuation of the ternary circuit is read as a three-valued one *)
Definition mu_at (μ : gmap string string) (n : string) : string := default n (μ !! n).
Definition kof (μ : gmap string string) (v : val) : kval := λ n, if v (mu_at μ n) then TX else B (v n).

(* ---------- the construction ---------- *)
Definition tin (t : gtype) (l : list gtype) : bool := bool_decide (t ∈ l).
Definition mu_name (c : circuit) (n : string) : string := uid c (n ++ "_X").
Definition mapping (c : circuit) : gmap string string := set_to_map (λ n, (n, mu_name c n)) (dom c).

(* connect(us, v) *)
Definition add_fi (t : circuit) (v : string) (us : list string) : circuit := alter (upd_fi (λ s, list_to_set us ∪ s)) v t.
(* graph.add_node on a possibly existing node: attributes overwritten, edges kept *)
Definition set_node (t : circuit) (m : string) (ty : gtype) (o : bool) : circuit := <[m := mk_node ty o (fanin t m)]> t.
(* add_connected_nodes: a missing neighbour becomes a plain buf *)
Definition ensure (t : circuit) (f : string) : circuit := if bool_decide (f ∈ dom t) then t else <[f := mk_node Buf false ∅]> t.
(* t.add(base, ty, fanout=fo, fanin=fi, uid=True [, add_connected_nodes=True]) -> new graph, name given *)
Definition add_fresh (t : circuit) (base : string) (ty : gtype) (fi : list string) (fo : string) (conn : bool) : circuit * string :=
  let h := uid t base in
  let t1 := <[h := mk_node ty false ∅]> t in
  let t2 := if conn then foldl ensure t1 (fi ++ [fo]) else t1 in
  (add_fi (add_fi t2 fo [h]) h fi, h).
(* t.add(m, ty, fanin=fi, output=o, add_connected_nodes=True, allow_redefinition=True) *)
Definition redefine (t : circuit) (m : string) (ty : gtype) (o : bool) (fi : list string) : circuit :=
  add_fi (foldl ensure (set_node t m ty o) fi) m fi.

Definition lit_and (T : ttab) (μ : string → string) (z : string) (t : circuit) (p : string) : circuit :=
  (add_fresh t (p ++ "_is_0") (a_lit T) [p; μ p] z false).1.
Definition lit_or (T : ttab) (μ : string → string) (z : string) (t : circuit) (p : string) : circuit :=
  let r := add_fresh t (p ++ "_is_1") (o_lit T) [p] z false in
  (add_fresh r.1 (p ++ "_not_x") (o_neg T) [μ p] r.2 false).1.

(* the and/nand and or/nor branches: companion, x_in_fi, the control node, then one literal gadget per fan-in *)
Definition ctl_branch (μ : string → string) (litstep : string → circuit → string → circuit) (sc : string)
    (comp xin ctl : gtype) (t : circuit) (n : string) (o : bool) (ps : list string) : circuit :=
  let m := μ n in
  let t1 := redefine t m comp o [] in
  let r2 := add_fresh t1 (n ++ "_x_in_fi") xin (μ <$> ps) m true in
  let r3 := add_fresh r2.1 (n ++ sc) ctl [] m false in
  foldl (litstep r3.2) r3.1 ps.

(* one iteration of `for n in c:`; ps = list(c.fanin(n)) *)
Definition step (T : ttab) (c : circuit) (fo : string → list string) (t : circuit) (n : string) : res circuit :=
  let μ := mu_name c in
  match c !! n with None => BadOrder | Some i =>
  let ps := fo n in
  if tin (n_ty i) (l_and T) then
    Ok (ctl_branch μ (lit_and T μ) "_0_not_in_fi" (a_comp T) (a_xin T) (a_ctl T) t n (n_out i) ps)
  else if tin (n_ty i) (l_or T) then
    Ok (ctl_branch μ (lit_or T μ) "_1_not_in_fi" (o_comp T) (o_xin T) (o_ctl T) t n (n_out i) ps)
  else if tin (n_ty i) (l_buf T) then
    match ps with [] => Raise KeyError | p :: _ => Ok (redefine t (μ n) (b_comp T) (n_out i) [μ p]) end
  else if tin (n_ty i) (l_par T) then Ok (redefine t (μ n) (p_comp T) (n_out i) (μ <$> ps))
  else if tin (n_ty i) (l_const T) then Ok (redefine t (μ n) (k_comp T) (n_out i) [])
  else if tin (n_ty i) (l_input T) then Ok (redefine t (μ n) (i_comp T) false [])
  else Raise ValueError end.

Fixpoint run (T : ttab) (c : circuit) (fo : string → list string) (t : circuit) (l : list string) : res circuit :=
  match l with [] => Ok t | n :: r => rbind (step T c fo t n) (λ t', run T c fo t' r) end.

Definition orders_ok (c : circuit) (nodes : list string) (fo : string → list string) : bool :=
  bool_decide (NoDup nodes) && bool_decide (list_to_set nodes = dom c) &&
  forallb (λ n, bool_decide (NoDup (fo n)) && bool_decide (list_to_set (fo n) = fanin c n)) nodes.

(* ternary(c); nodes = list(c.graph.nodes), fo n = list(c.fanin(n)) *)
Definition ternary_with (T : ttab) (C : Circuit) (nodes : list string) (fo : string → list string)
  : res (Circuit * gmap string string) :=
  if negb (bool_decide (c_bbs C = ∅)) then Raise ValueError else
  if negb (orders_ok (c_g C) nodes fo) then BadOrder else
  rmap (λ t, (with_g C t, mapping (c_g C))) (run T (c_g C) fo (c_g C) nodes).
Definition ternary := ternary_with gen_ttab.
