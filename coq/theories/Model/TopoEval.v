(* Table-driven evaluation used by the C18 / C09 oracles: nodes are visited once in the order of a rank
   table, so one valuation costs one pass over the circuit (Sem.eval re-evaluates shared cones, which is
   exponential on chained copies).  Nothing about the order is trusted: every use re-checks the result
   with `consistentb`, and `te_certified` (Proofs/AcyclicUnrollProofs.v) then makes it THE consistent valuation. *)
From stdpp Require Import strings gmap sets fin_sets sorting.
From CG Require Export Base.Oracle.
Open Scope string_scope.

Definition te_le (r : gmap string nat) (p q : string * ninfo) : Prop := rank_of r p.1 ≤ rank_of r q.1.
Global Instance te_le_dec r p q : Decision (te_le r p q). Proof. unfold te_le. apply _. Defined.
Definition te_order (c : circuit) : list (string * ninfo) := merge_sort (te_le (rank_table c)) (map_to_list c).

Definition te_val (T : gmap string bool) (a : val) : val := λ n, default (a n) (T !! n).
Definition te_step (a : val) (T : gmap string bool) (p : string * ninfo) : gmap string bool :=
  <[p.1 := if is_free p.2 then a p.1 else
           match n_ty p.2 with C0 => false | C1 => true | t => gate_val t (te_val T a) (n_fi p.2) end]> T.
Definition te_table (order : list (string * ninfo)) (a : val) : gmap string bool := foldl (te_step a) ∅ order.
Definition te_eval (order : list (string * ninfo)) (a : val) : val := te_val (te_table order a) a.

(* valuation given by an association list, false elsewhere *)
Definition val_of_map (m : gmap string bool) : val := λ n, default false (m !! n).
