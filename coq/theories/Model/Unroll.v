(* C09 model (code as of 48b5241): tx.unroll and tx.sequential_unroll, written through the API model (add, add_subcircuit,
   set_type, connect, set_output, remove) in source order, and `run`, the iterated-`eval` semantics of the
   sequential machine that the property compares with.  Definitions only.

   Set-iteration order (`for io in c.io()`, the connection dict, `for bb in c.blackboxes`) influences only the
   node insertion order of the result, which the canonical dump does not observe; every rejected call raises
   the same exception class whatever the order.  The model iterates in `elements` order. *)
From stdpp Require Import strings gmap sets fin_sets pretty.
From CG Require Export Base.Api Base.Sem Base.Oracle Model.Compose6.
Open Scope string_scope.

Definition ulift {A B} (r : A * outcome) (k : A → res B) : res B :=
  match r with (a, Done) => k a | (_, Fail e) => Raise e end.
Definition pnat (i : nat) : string := pretty (N.of_nat i).
Definition io_name (io prefix : string) (itr : nat) : string := io ++ "_" ++ prefix ++ "_" ++ pnat itr.   (* f"{io}_{prefix}_{itr}" *)
Definition inst_name (itr : nat) : string := "unrolled_" ++ pnat itr.
Definition io_of (c : circuit) : gset string := inputs c ∪ outputs c.
Notation iomap := (gmap string (list string)).

Definition io_type (c : circuit) (sio : list (string * string)) (io : string) : gtype :=
  if bool_decide (io ∈ sio.*2) then Buf
  else if bool_decide (io ∈ inputs c) then Input else Buf.
Definition is_output (c : circuit) (n : string) : bool := default false (n_out <$> c !! n).

(* the `for io in c.io()` loop of one iteration: new per-iteration io nodes, named by uid RELATIVE TO c *)
Definition add_ios (c : circuit) (sio : list (string * string)) (prefix : string) (itr : nat)
    (st : circuit * outcome * iomap) (io : string) : circuit * outcome * iomap :=
  match st with
  | (g, Done, m) =>
      let new_io := uid c (io_name io prefix itr) in
      let '(g', o, _) := add_g g new_io (io_type c sio io) [] []
                           {| af_out := is_output c io; af_conn := false; af_redef := false; af_uid := false |} in
      (g', o, match o with Done => <[io := (default [] (m !! io) ++ [new_io])%list]> m | _ => m end)
  | _ => st end.

Definition unroll_iter (C : Circuit) (sio : list (string * string)) (prefix : string) (ios : list string)
    (st : Circuit * outcome * iomap) (itr : nat) : Circuit * outcome * iomap :=
  match st with
  | (U, Done, m) =>
      let '(g1, o1, m1) := foldl (add_ios (c_g C) sio prefix itr) (c_g U, Done, m) ios in
      match o1 with
      | Done =>
          let '(U2, o2) := add_subcircuit (with_g U g1) C (inst_name itr) ((λ i, (i, [io_name i prefix itr])) <$> ios) in
          match o2 with
          | Done =>
              match itr with
              | O => let '(g3, o3) := set_type_g (c_g U2) ((λ kv, io_name kv.2 prefix 0) <$> sio) Input in (with_g U2 g3, o3, m1)
              | S j => let '(g3, o3) := foldl (λ st kv, match st with
                                                        | (g, Done) => connect_g g [io_name kv.1 prefix j] [io_name kv.2 prefix itr]
                                                        | _ => st end) (c_g U2, Done) sio in (with_g U2 g3, o3, m1)
              end
          | _ => (U2, o2, m1) end
      | _ => (with_g U g1, o1, m1) end
  | _ => st end.

(* unroll(c, n, state_io, prefix); state_io as the list of its items *)
Definition unroll (C : Circuit) (n : nat) (sio : list (string * string)) (prefix : string) : res (Circuit * iomap) :=
  if negb (bool_decide (c_bbs C = ∅)) then Raise ValueError else
  if (n <? 1)%nat then Raise ValueError else
  let c := c_g C in
  if negb (forallb (λ kv, bool_decide (kv.1 ∈ io_of c) && bool_decide (kv.2 ∈ io_of c)) sio) then Raise ValueError else
  let ios := elements (io_of c) in
  let m0 : iomap := gset_to_gmap [] (io_of c) in
  let U0 := {| c_name := "circuit"; c_g := ∅; c_bbs := ∅ |} in
  match foldl (unroll_iter C sio prefix ios) (U0, Done, m0) (seq 0 n) with
  | (U, Done, m) => Ok (U, m)
  | (_, Fail e, _) => Raise e
  end.

(* ---- sequential_unroll ---- *)
Inductive init_vals := IvNone | IvAll (t : gtype) | IvDict (l : list (string * gtype)).
(* the unloaded-input sweep keeps the Q state inputs and inputs that are themselves outputs *)
Definition remove_unloaded_inputs (c : circuit) (qs : gset string) : circuit :=
  remove_g c (elements (filter (λ i, fanout c i = ∅ ∧ i ∉ qs ∧ is_output c i = false) (inputs c))).
Definition lookup0 (m : iomap) (k : string) : res string :=
  match m !! k with Some (x :: _) => Ok x | Some [] => Raise IndexError | None => Raise KeyError end.

(* the stripped circuit that is unrolled, and its state_io (ign: normalised ignore_pins list) *)
Definition seq_stripped (C : Circuit) (d q : string) (ign : list string) (remove_unloaded : bool) : res (Circuit * list (string * string)) :=
  rbind (strip_blackboxes C ign) (λ CS,
  match map_to_list (c_bbs C) with
  | [] => Raise KeyError                                   (* set().pop() *)
  | (_, bb) :: _ =>
      (* "assumes all blackboxes are sequential elements" of one type: otherwise the popped one is hash dependent *)
      if negb (forallb (λ p, bool_decide (bb_in p.2 = bb_in bb) && bool_decide (bb_out p.2 = bb_out bb)) (map_to_list (c_bbs C))) then BadOrder else
      let insts := elements (dom (c_bbs C)) in
      if negb (bool_decide (d ∈ bb_in bb)) then Raise ValueError else
      (* ignored pins are already gone; a node that merely carries the name <inst>_<pin> stays (fix 48b5241, C09-F4) *)
      let g1 := remove_g (c_g CS) (p ← elements (bb_in bb ∖ {[d]} ∖ list_to_set ign); (λ b, pre b p) <$> insts) in
      if negb (bool_decide (q ∈ bb_out bb)) then Raise ValueError else
      let g2 := remove_g g1 (p ← elements (bb_out bb ∖ {[q]} ∖ list_to_set ign); (λ b, pre b p) <$> insts) in
      let g3 := if remove_unloaded then remove_unloaded_inputs g2 (list_to_set ((λ b, pre b q) <$> insts)) else g2 in
      Ok (with_g CS g3, (λ b, (pre b d, pre b q)) <$> insts)
  end).

Definition sequential_unroll (C : Circuit) (n : nat) (d q : string) (ign : list string)
    (add_flop_outputs : bool) (iv : init_vals) (remove_unloaded : bool) (prefix : string) : res (Circuit * iomap) :=
  rbind (seq_stripped C d q ign remove_unloaded) (λ cs_sio,
  let insts := elements (dom (c_bbs C)) in
  (
      rbind (unroll cs_sio.1 n cs_sio.2 prefix) (λ r,
      let '(U, m) := r in
      (* uc.set_output(io_map[state_output], add_flop_outputs) *)
      match foldl (λ st b, match st with
                           | (g, Done) => match m !! pre b d with Some l => set_output_g g l add_flop_outputs | None => (g, Fail KeyError) end
                           | _ => st end) (c_g U, Done) insts with
      | (_, Fail e) => Raise e
      | (g4, Done) =>
          let targets : res (list (string * gtype)) :=
            match iv with
            | IvNone => Ok []
            | IvAll t => foldr (λ b acc, rbind (lookup0 m (pre b q)) (λ x, rmap (cons (x, t)) acc)) (Ok []) insts
            | IvDict l => foldr (λ kt acc, rbind (lookup0 m (pre kt.1 q)) (λ x, rmap (cons (x, kt.2)) acc)) (Ok []) l
            end in
          rbind targets (λ ts,
          match foldl (λ st xt, match st with (g, Done) => set_type_g g [xt.1] xt.2 | _ => st end) (g4, Done) ts with
          | (g5, Done) => Ok (with_g U g5, m)
          | (_, Fail e) => Raise e
          end)
      end)
  )).

(* the result of sequential_unroll differs from the plain unrolling only by output marks and by step-0 state inputs
   that became constants: U is the plain unrolling, U' the result *)
Definition weaker (U U' : circuit) : Prop :=
  ∀ x j, U !! x = Some j → ∃ j', U' !! x = Some j' ∧ n_fi j' = n_fi j ∧ (n_ty j' = n_ty j ∨ n_ty j = Input).
Definition weakerb (U U' : circuit) : bool :=
  forallb (λ p, match U' !! p.1 with
                | Some j' => bool_decide (n_fi j' = n_fi p.2) && (bool_decide (n_ty j' = n_ty p.2) || bool_decide (n_ty p.2 = Input))
                | None => false end) (map_to_list U).

(* ---- the sequential machine: iterated evaluation ---- *)
(* input assignment of step t: state input v (paired with state output k) carries k of the previous step,
   or the initial state st at step 0; every other input carries ins t *)
Definition state_src (sio : list (string * string)) (v : string) : option string :=
  (λ p, p.2.1) <$> list_find (λ kv, kv.2 = v) sio.
Definition step_in (sio : list (string * string)) (prev : option val) (st insT : val) : val :=
  λ i, match state_src sio i with
       | Some k => match prev with Some p => p k | None => st i end
       | None => insT i end.
Fixpoint run (c : circuit) (sio : list (string * string)) (t : nat) (st : val) (ins : nat → val) : val :=
  match t with
  | O => evalc c (step_in sio None st (ins 0))
  | S t' => evalc c (step_in sio (Some (run c sio t' st ins)) st (ins t))
  end.
(* the same machine, relationally: x is the valuation of c at step t *)
Fixpoint is_run (c : circuit) (sio : list (string * string)) (st : val) (ins : nat → val) (t : nat) (x : val) : Prop :=
  consistent c x ∧
  match t with
  | O => agrees (inputs c) x (step_in sio None st (ins 0))
  | S j => ∃ x', is_run c sio st ins j x' ∧ agrees (inputs c) x (step_in sio (Some x') st (ins t))
  end.

(* ---- closed form of the result of unroll (specification side) ---- *)
Definition io_node (c : circuit) (sio : list (string * string)) (prefix : string) (t : nat) (io : string) : ninfo :=
  let out := is_output c io in
  if bool_decide (io ∈ inputs c) then
    match state_src sio io, t with
    | Some k, S j => mk_node Buf out {[io_name k prefix j]}
    | _, _ => mk_node Input out ∅
    end
  else mk_node Buf out {[pre (inst_name t) io]}.
Definition ucopy_info (prefix : string) (t : nat) (m : string) (i : ninfo) : ninfo :=
  if bool_decide (n_ty i = Input) then mk_node Buf false {[io_name m prefix t]}
  else mk_node (n_ty i) false (set_map (pre (inst_name t)) (n_fi i)).
Definition unroll_nodes (c : circuit) (n : nat) (sio : list (string * string)) (prefix : string) : list (string * ninfo) :=
  t ← seq 0 n; (((λ io, (io_name io prefix t, io_node c sio prefix t io)) <$> elements (io_of c)) ++
                ((λ p, (pre (inst_name t) p.1, ucopy_info prefix t p.1 p.2)) <$> map_to_list c))%list.
Definition unroll_closed (c : circuit) (n : nat) (sio : list (string * string)) (prefix : string) : circuit :=
  list_to_map (unroll_nodes c n sio prefix).
Definition unroll_iomap (c : circuit) (n : nat) (prefix : string) : iomap :=
  list_to_map ((λ io, (io, (λ t, io_name io prefix t) <$> seq 0 n)) <$> elements (io_of c)).
(* guards: generated names are pairwise distinct and new; state outputs are io, state inputs are distinct inputs *)
Definition unroll_names_ok (c : circuit) (n : nat) (sio : list (string * string)) (prefix : string) : Prop :=
  NoDup (unroll_nodes c n sio prefix).*1 ∧ ∀ x, x ∈ (unroll_nodes c n sio prefix).*1 → x ∉ dom c.
Definition unroll_names_okb (c : circuit) (n : nat) (sio : list (string * string)) (prefix : string) : bool :=
  bool_decide (NoDup (unroll_nodes c n sio prefix).*1) &&
  forallb (λ x, negb (bool_decide (x ∈ dom c))) (unroll_nodes c n sio prefix).*1.
Definition sio_ok (c : circuit) (sio : list (string * string)) : Prop :=
  Forall (λ kv, kv.1 ∈ outputs c ∧ kv.2 ∈ inputs c) sio ∧ NoDup sio.*1 ∧ NoDup sio.*2.
Definition sio_okb (c : circuit) (sio : list (string * string)) : bool :=
  forallb (λ kv, bool_decide (kv.1 ∈ outputs c) && bool_decide (kv.2 ∈ inputs c)) sio &&
  bool_decide (NoDup sio.*1) && bool_decide (NoDup sio.*2).
Definition free_are_inputs (c : circuit) : Prop := free_nodes c = inputs c.

(* ---- cycle-accurate semantics of a circuit whose state is held in flip-flop blackboxes ----
   The combinational part is the graph itself: bb_output pins (the Q pins among them) are free nodes, bb_input pins are
   buffers of their driver.  State = values of the Q pins; the next state of flop b is the value at its D pin.  This is `run`
   on the flop circuit's own graph with the pairs (D pin of b -> Q pin of b). *)
Definition flop_pairs (C : Circuit) (d q : string) : list (string * string) :=
  (λ b, (pin b d, pin b q)) <$> elements (dom (c_bbs C)).
Definition flop_run (C : Circuit) (d q : string) (t : nat) (st : val) (ins : nat → val) : val :=
  run (c_g C) (flop_pairs C d q) t st ins.
(* the same, relationally, over ALL free nodes of the graph (inputs, blackbox outputs, x constants) *)
Fixpoint is_runF (c : circuit) (sio : list (string * string)) (st : val) (ins : nat → val) (t : nat) (x : val) : Prop :=
  consistent c x ∧
  match t with
  | O => agrees (free_nodes c) x (step_in sio None st (ins 0))
  | S j => ∃ x', is_runF c sio st ins j x' ∧ agrees (free_nodes c) x (step_in sio (Some x') st (ins t))
  end.

(* ---- guards of the step from the stripped circuit to the flop circuit (Proofs/FlopLink.v); all decidable ----
   flop_names_ok: instance and pin names are dot-free, the flattened names <inst>_<pin> are unambiguous and, for pins that are not
   ignored, are not node names of the circuit (sequential_unroll deletes those pins BY THAT NAME; a net named after an IGNORED pin is
   allowed since fix 48b5241), every bb_input / bb_output typed node is a pin of a registered instance.  flop_wiring_ok: the only blackbox pins that are read by a node are Q pins (bb_input pins never have
   fan-out in a circuit built through the API; a loaded non-Q output pin leaves an undriven buffer behind, see docs/C09.md). *)
Definition bb_pinset (bb : bbdef) : gset string := bb_in bb ∪ bb_out bb.
Definition all_pins (C : Circuit) : gset string :=
  list_to_set (ibb ← map_to_list (c_bbs C); (λ p, pin ibb.1 p) <$> elements (bb_pinset ibb.2)).
Definition q_pins (C : Circuit) (q : string) : gset string := list_to_set ((λ b, pin b q) <$> elements (dom (c_bbs C))).
Definition flop_names_ok (C : Circuit) (ign : list string) : Prop :=
  map_Forall (λ b bb, str_has_dot b = false ∧
    set_Forall (λ p, str_has_dot p = false ∧ (p ∉ ign → pre b p ∉ dom (c_g C))) (bb_pinset bb) ∧
    map_Forall (λ b' bb', set_Forall (λ p, set_Forall (λ p', pre b p = pre b' p' → b = b' ∧ p = p') (bb_pinset bb')) (bb_pinset bb)) (c_bbs C))
  (c_bbs C) ∧
  set_Forall (λ n, n ∈ all_pins C) (bb_pins (c_g C)).
Definition flop_wiring_ok (C : Circuit) (q : string) : Prop :=
  map_Forall (λ _ i, set_Forall (λ f, f ∈ bb_pins (c_g C) → f ∈ q_pins C q) (n_fi i)) (c_g C).
Global Instance flop_names_ok_dec C ign : Decision (flop_names_ok C ign). Proof. unfold flop_names_ok. apply _. Defined.
Global Instance flop_wiring_ok_dec C q : Decision (flop_wiring_ok C q). Proof. unfold flop_wiring_ok. apply _. Defined.

(* initial value of flop b: None = free (the step-0 Q node stays an input), Some t = the step-0 Q node gets type t ('0' / '1' / 'x').
   A Python dict has each key once: iv_nodup. *)
Definition init_of (iv : init_vals) (b : string) : option gtype :=
  match iv with IvNone => None | IvAll t => Some t | IvDict l => (λ p, p.2.2) <$> list_find (λ kt, kt.1 = b) l end.
Definition iv_nodup (iv : init_vals) : Prop := match iv with IvDict l => NoDup l.*1 | _ => True end.
