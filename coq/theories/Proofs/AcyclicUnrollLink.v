(* C18 link: whenever the API-level model `acyclic_unroll C F` returns a circuit, that circuit IS the closed form
   `unrolled (c_g C) F` (graph equality), so every theorem about the closed form is a theorem about the model. *)
From stdpp Require Import strings gmap sets fin_sets pretty.
From CG Require Import Proofs.UnrollSteps Proofs.ComposeProofs.
From CG Require Import Base.Compose Base.Oracle Model.Compose6 Model.AcyclicUnroll Proofs.AcyclicUnrollProofs Proofs.LintProofs Proofs.UnrollLint.
Open Scope string_scope.

(* ---------- sets ---------- *)
Lemma set_map_compose (f g : string → string) (S : gset string) :
  (set_map f (set_map g S : gset string) : gset string) = set_map (λ x, f (g x)) S.
Proof. apply set_eq. intros x. rewrite !elem_of_map. split; [intros (y & -> & (z & -> & Hz)%elem_of_map); eauto|intros (z & -> & Hz); eexists; split; [done|]; apply elem_of_map; eauto]. Qed.
Lemma subst_empty (S : gset string) : (set_map (subst ∅) S : gset string) = S.
Proof.
  apply set_eq. intros x. rewrite elem_of_map. unfold subst. split.
  - intros (y & -> & Hy). by rewrite bool_decide_eq_false_2 by set_solver.
  - intros Hx. exists x. by rewrite bool_decide_eq_false_2 by set_solver.
Qed.
(* cutting one more node f: in the fan-in sets that contain f, f is replaced by aux f *)
Lemma subst_step (Ls : gset string) f (S D : gset string) :
  S ⊆ D → f ∈ D → f ∉ Ls → (∀ l, l ∈ Ls → aux l ∉ D) → aux f ∉ D →
  (set_map (subst ({[f]} ∪ Ls)) S : gset string) =
    if decide (f ∈ S) then (set_map (subst Ls) S ∖ {[f]}) ∪ {[aux f]} else set_map (subst Ls) S.
Proof.
  intros HS Hf HfL Haux Hauxf. apply set_eq. intros x.
  assert (Hsub : ∀ y, y ≠ f → subst ({[f]} ∪ Ls) y = subst Ls y).
  { intros y Hy. unfold subst. destruct (decide (y ∈ Ls)); [rewrite !bool_decide_eq_true_2 by set_solver|rewrite !bool_decide_eq_false_2 by set_solver]; done. }
  assert (Hsf : subst ({[f]} ∪ Ls) f = aux f) by (unfold subst; by rewrite bool_decide_eq_true_2 by set_solver).
  assert (Hnf : ∀ y, y ∈ S → y ≠ f → subst Ls y ≠ f).
  { intros y Hy Hne. unfold subst. case_bool_decide; [|done]. intros E. apply (Haux y); [done|]. by rewrite E. }
  assert (Hna : ∀ y, y ∈ S → y ≠ f → subst Ls y ≠ aux f).
  { intros y Hy Hne. unfold subst. case_bool_decide.
    - unfold aux. intros E. by simplify_eq.
    - intros E. apply Hauxf. rewrite <- E. by apply HS. }
  destruct (decide (f ∈ S)) as [HfS|HfS].
  - rewrite elem_of_union, elem_of_difference, !elem_of_singleton, !elem_of_map. split.
    + intros (y & -> & Hy). destruct (decide (y = f)) as [->|Hne]; [right; by rewrite Hsf|].
      left. rewrite Hsub by done. split; [eauto|]. by apply Hnf.
    + intros [[(y & -> & Hy) Hx]| ->].
      * assert (y ≠ f). { intros ->. apply Hx. unfold subst. by rewrite bool_decide_eq_false_2. }
        exists y. by rewrite Hsub.
      * exists f. by rewrite Hsf.
  - rewrite !elem_of_map. split; intros (y & -> & Hy); exists y; (split; [|done]); [|symmetry]; apply Hsub; intros ->; done.
Qed.

(* ---------- A. the inputs of the result ---------- *)
Lemma add_inputs_done l : ∀ g g', add_inputs g l = (g', Done) →
  (∀ n, n ∈ l → g' !! n = Some (mk_node Input false ∅)) ∧ (∀ x, x ∉ l → g' !! x = g !! x) ∧ (∀ n, n ∈ l → n ∉ dom g).
Proof.
  unfold add_inputs. induction l as [|a l IH] using rev_ind; intros g g' H.
  - simpl in H. injection H as <-. split; [set_solver|]. split; [done|set_solver].
  - rewrite foldl_app in H. simpl in H.
    destruct (foldl _ (g, Done) l) as [g1 o1] eqn:E1. destruct o1 as [|e]; [|done].
    destruct (add_g g1 a Input [] [] af_default) as [[g2 o2] n2] eqn:E2. injection H as -> ->.
    unfold af_default in E2. apply add_g_done_fanin in E2 as (Hd & Ha & Hoth).
    destruct (IH g g1 E1) as (IH1 & IH2 & IH3).
    assert (Hal : a ∉ l). { intros Hal. apply Hd. apply elem_of_dom. rewrite IH1 by done. eauto. }
    split; [|split].
    + intros n [Hn| ->%elem_of_list_singleton]%elem_of_app; [|done].
      rewrite Hoth by (intros ->; done). by apply IH1.
    + intros x Hx. rewrite Hoth by (intros ->; set_solver). apply IH2. set_solver.
    + intros n [Hn| ->%elem_of_list_singleton]%elem_of_app; [by apply IH3|].
      intros Hag. apply Hd. apply elem_of_dom. rewrite IH2 by done. by apply elem_of_dom.
Qed.

(* ---------- B. the cut circuit ---------- *)
Definition cut_info (Fs : gset string) (i : ninfo) : ninfo :=
  {| n_ty := n_ty i; n_out := false; n_fi := set_map (subst Fs) (n_fi i) |}.
Definition part_info (Ls : gset string) (i : ninfo) : ninfo := upd_fi (set_map (subst Ls)) i.

Lemma cut_fold_done c (Hcl : closed c) (L : list string) : ∀ g,
  foldl (cut_step c) (c, Done) L = (g, Done) → NoDup L → (∀ f, f ∈ L → f ∈ dom c) →
  (∀ m, g !! m = if decide (m ∈ dom c) then part_info (list_to_set L) <$> c !! m
                 else if decide (m ∈ aux <$> L) then Some (mk_node Buf false ∅) else None) ∧
  (∀ l, l ∈ L → aux l ∉ dom c).
Proof.
  induction L as [|f L IH] using rev_ind; intros g H Hnd HL.
  - simpl in H. injection H as <-. split; [|set_solver]. intros m. destruct (decide (m ∈ dom c)) as [Hm|Hm].
    + destruct (c !! m) as [i|]; simpl; [|done]. f_equal. symmetry. apply upd_fi_id. apply subst_empty.
    + rewrite decide_False by set_solver. by apply not_elem_of_dom.
  - rewrite foldl_app in H. simpl in H. apply NoDup_app in Hnd as (Hnd & HfL & _).
    destruct (foldl (cut_step c) (c, Done) L) as [g1 o1] eqn:E1. destruct o1 as [|e]; [|done].
    destruct (IH g1 eq_refl Hnd) as [IH1 IH2]; [intros; apply HL; set_solver|]. clear IH.
    unfold cut_step in H.
    destruct (add_g _ (aux f) Buf [] _ af_default) as [[g2 o2] n2] eqn:E2. injection H as -> ->.
    set (fo := elements (fanout c f)) in *.
    assert (Hfo : ∀ m, m ∈ fo ↔ ∃ i, c !! m = Some i ∧ f ∈ n_fi i).
    { intros m. unfold fo. rewrite elem_of_elements. apply elem_of_fanout. }
    assert (Hfoc : ∀ m, m ∈ fo → m ∈ dom c).
    { intros m (i & Hi & _)%Hfo. apply elem_of_dom. eauto. }
    assert (Hfd : f ∈ dom c) by (apply HL; set_solver).
    assert (HfnL : f ∉ L) by (intros HfinL; apply (HfL f HfinL); set_solver).
    set (g1' := disconnect_g g1 [f] fo) in *.
    assert (Hdis : ∀ m, g1' !! m = if decide (m ∈ fo) then upd_fi (λ s, s ∖ {[f]}) <$> g1 !! m else g1 !! m)
      by (intros m; apply disconnect_one_lookup).
    unfold af_default in E2. pose proof E2 as E2'. apply add_g_done in E2' as (_ & Hd & _).
    assert (Hauxc : aux f ∉ dom c).
    { intros Hin. apply Hd. apply elem_of_dom. rewrite Hdis, !IH1, !(decide_True (P := aux f ∈ dom c)) by done.
      apply elem_of_dom in Hin as [i Hi]. rewrite Hi. destruct (decide (aux f ∈ fo)); simpl; eauto. }
    apply add_g_done_fanout in E2 as (_ & Ha & Hoth); [|intros Hin; apply Hauxc; by apply Hfoc].
    assert (Hset : (list_to_set (L ++ [f]) : gset string) = {[f]} ∪ list_to_set L) by set_solver.
    assert (Hfm : ∀ x, x ∈ aux <$> (L ++ [f])%list ↔ x ∈ aux <$> L ∨ x = aux f).
    { intros x. rewrite fmap_app, elem_of_app. simpl. rewrite elem_of_list_singleton. done. }
    split.
    2: { intros l [Hl| ->%elem_of_list_singleton]%elem_of_app; [by apply IH2|done]. }
    intros m. destruct (decide (m = aux f)) as [->|Hne].
    { rewrite Ha, decide_False by done. rewrite decide_True; [done|]. apply Hfm. by right. }
    rewrite (Hoth m Hne), Hdis, IH1. destruct (decide (m ∈ dom c)) as [Hm|Hm].
    { apply elem_of_dom in Hm as [i Hi]. rewrite Hi. simpl. rewrite Hset. unfold part_info, upd_fi. simpl.
      assert (Hsub : n_fi i ⊆ dom c) by (intros x Hx; eapply Hcl; eauto).
      pose proof (subst_step (list_to_set L) f (n_fi i) (dom c) Hsub Hfd) as Hstep.
      rewrite Hstep; [|set_solver|intros l Hl; apply IH2; set_solver|done].
      destruct (decide (m ∈ fo)) as [Hmf|Hmf].
      + assert (f ∈ n_fi i) as Hfi. { apply Hfo in Hmf as (i' & Hi' & ?). by simplify_eq. }
        rewrite decide_True by done. simpl. done.
      + assert (f ∉ n_fi i) as Hfi. { intros Hfi. apply Hmf. apply Hfo. eauto. }
        rewrite decide_False by done. simpl. do 2 f_equal. set_solver.
    }
    { rewrite !(decide_False (P := m ∈ fo)) by (intros Hin; by apply Hm, Hfoc).
      destruct (decide (m ∈ aux <$> L)) as [HmL|HmL].
      + simpl. rewrite (decide_True (P := m ∈ aux <$> (L ++ [f])%list)) by (apply Hfm; by left). f_equal. unfold upd_fi, mk_node. simpl. f_equal. set_solver.
      + simpl. rewrite (decide_False (P := m ∈ aux <$> (L ++ [f])%list)); [done|]. intros [?| ->]%Hfm; done. }
Qed.

Lemma cut_circuit_done c F gcut : closed c → NoDup F → (∀ f, f ∈ F → f ∈ dom c) → cut_circuit c F = (gcut, Done) →
  (∀ m, gcut !! m = if decide (m ∈ dom c) then cut_info (list_to_set F) <$> c !! m
                    else if decide (m ∈ aux <$> F) then Some (mk_node Buf false ∅) else None) ∧
  (∀ l, l ∈ F → aux l ∉ dom c).
Proof.
  intros Hcl Hnd HF. unfold cut_circuit.
  destruct (foldl (cut_step c) (c, Done) F) as [g o] eqn:E. destruct o as [|e]; [|done].
  destruct (cut_fold_done c Hcl F g E Hnd HF) as [H1 H2]. intros Hso.
  apply set_output_done in Hso as [Hso _]. split; [|done].
  intros m. rewrite Hso, H1. destruct (decide (m ∈ dom c)) as [Hm|Hm].
  - apply elem_of_dom in Hm as [i Hi]. rewrite Hi.
    destruct (decide (m ∈ elements (outputs c))) as [Ho|Ho]; simpl; f_equal; try reflexivity.
    unfold part_info, cut_info, upd_fi. simpl. f_equal.
    destruct (n_out i) eqn:Eo; [|done]. exfalso. apply Ho. apply elem_of_elements, elem_of_outputs. eauto.
  - rewrite decide_False; [done|]. intros (i & Hi & _)%elem_of_elements%elem_of_outputs. apply Hm. apply elem_of_dom. eauto.
Qed.

(* ---------- C. the chained copies ---------- *)
Section copies.
  Context (C : Circuit) (F : list string) (gcut : circuit) (nm : string).
  Let c := c_g C.
  Let Fs : gset string := list_to_set F.
  Let CUT := with_g C gcut.
  Context (Hbbs : c_bbs C = ∅).
  Context (Hgcut : ∀ m, gcut !! m = if decide (m ∈ dom c) then cut_info Fs <$> c !! m
                                    else if decide (m ∈ aux <$> F) then Some (mk_node Buf false ∅) else None).
  Context (Hauxc : ∀ l, l ∈ F → aux l ∉ dom c).
  Context (Hin0 : ∀ m info, c !! m = Some info → n_ty info = Input → n_fi info = ∅).
  Context (spl : list string) (Hspl : ∀ n, n ∈ spl ↔ n ∈ inputs c).

  Definition aux_node (i : nat) (f : string) : ninfo :=
    match i with O => mk_node Input false ∅ | S i' => mk_node Buf false {[pre (cn i') f]} end.
  Record copy_inv (j : nat) (A : Circuit) : Prop := {
    ci_name : c_name A = nm;
    ci_bbs : c_bbs A = ∅;
    ci_top : ∀ n, n ∈ inputs c → c_g A !! n = Some (mk_node Input false ∅);
    ci_copy : ∀ i m info, i < j → c !! m = Some info → c_g A !! pre (cn i) m = Some (copy_info Fs (cn i) m info);
    ci_aux : ∀ i f, i < j → f ∈ F → c_g A !! pre (cn i) (aux f) = Some (aux_node i f);
    ci_dom : ∀ x, x ∈ dom (c_g A) → x ∈ inputs c ∨ ∃ i m, i < j ∧ x = pre (cn i) m ∧ (m ∈ dom c ∨ m ∈ aux <$> F) }.

  Lemma gcut_dom m : m ∈ dom gcut ↔ m ∈ dom c ∨ m ∈ aux <$> F.
  Proof.
    rewrite elem_of_dom, Hgcut. destruct (decide (m ∈ dom c)) as [Hm|Hm].
    - apply elem_of_dom in Hm as [i Hi]. rewrite Hi. simpl. split; [intros _; left; apply elem_of_dom; eauto|eauto].
    - destruct (decide (m ∈ aux <$> F)); split; try (intros [? ?]; done); try tauto; eauto.
  Qed.
  Lemma gcut_inputs n : n ∈ inputs c → n ∈ inputs gcut.
  Proof.
    intros (i & Hi & Hty)%elem_of_inputs. apply elem_of_inputs. exists (cut_info Fs i). split; [|done].
    rewrite Hgcut, decide_True by (apply elem_of_dom; eauto). by rewrite Hi.
  Qed.
  Lemma aux_not_c f : f ∈ F → ∀ m, m ∈ dom c → aux f ≠ m.
  Proof. intros Hf m Hm <-. by apply (Hauxc f). Qed.

  Lemma splice_facts j A A1 : copy_inv j A →
    add_subcircuit A CUT (cn j) ((λ n, (n, [n])) <$> spl) = (A1, Done) →
    c_name A1 = c_name A ∧ c_bbs A1 = kmap (pre (cn j)) (c_bbs C) ∪ c_bbs A ∧
    (∀ x, x ∈ dom (c_g A) → c_g A1 !! x = c_g A !! x) ∧
    (∀ m info, c !! m = Some info → c_g A1 !! pre (cn j) m = Some (copy_info Fs (cn j) m info)) ∧
    (∀ f, f ∈ F → c_g A1 !! pre (cn j) (aux f) = Some (mk_node Buf false ∅)) ∧
    (∀ x, is_Some (c_g A1 !! x) → x ∈ dom (c_g A) ∨ ∃ m, m ∈ dom gcut ∧ x = pre (cn j) m) ∧
    (∀ x m, x ∈ dom (c_g A) → m ∈ dom gcut → x ≠ pre (cn j) m).
  Proof.
    intros [Hn Hb Htop Hcopy Haux Hdom] Eadd.
    apply add_subcircuit_inv in Eadd as (_ & Hfresh & _ & Hname & Hbb1 & Hfold).
    change (c_g CUT) with gcut in *. change (c_bbs CUT) with (c_bbs C) in *.
    set (S0 := c_g A ∪ rename (pre (cn j)) (strip_io gcut)) in *.
    apply (conn_fold_inputs_done CUT (cn j) spl (λ n, n)) in Hfold as [Hc1 Hc2];
      [|intros n Hn'; apply gcut_inputs; by apply Hspl].
    (* lookups in the spliced graph *)
    assert (HS_old : ∀ x, x ∈ dom (c_g A) → S0 !! x = c_g A !! x).
    { intros x [i Hi]%elem_of_dom. unfold S0. rewrite Hi. by apply lookup_union_Some_l. }
    assert (HS_new : ∀ m, m ∈ dom gcut → S0 !! pre (cn j) m = ren_info (pre (cn j)) <$> (strip_info <$> gcut !! m)).
    { intros m Hm. unfold S0. rewrite lookup_union_r by (apply not_elem_of_dom; by apply Hfresh).
      rewrite lookup_rename by apply _. unfold strip_io. by rewrite lookup_fmap. }
    assert (HS_dom : ∀ x, is_Some (S0 !! x) → x ∈ dom (c_g A) ∨ ∃ m, m ∈ dom gcut ∧ x = pre (cn j) m).
    { intros x Hx. apply elem_of_dom in Hx. unfold S0 in Hx. rewrite dom_union, dom_rename in Hx by apply _.
      apply elem_of_union in Hx as [?|(m & -> & Hm)%elem_of_map]; [by left|right]. exists m. split; [|done].
      unfold strip_io in Hm. by rewrite dom_fmap in Hm. }
    (* old names are never a new name *)
    assert (Hold_new : ∀ x m, x ∈ dom (c_g A) → m ∈ dom gcut → x ≠ pre (cn j) m).
    { intros x m Hx Hm ->. by apply (Hfresh m). }
    set (g1 := c_g A1) in *.
    assert (Hg1_old : ∀ x, x ∈ dom (c_g A) → g1 !! x = c_g A !! x).
    { intros x Hx. rewrite Hc2; [by apply HS_old|]. intros n Hn'. apply Hold_new; [done|].
      apply gcut_dom. left. apply Hspl in Hn'. apply elem_of_inputs in Hn' as (i & Hi & _). apply elem_of_dom. eauto. }
    assert (Hg1_copy : ∀ m info, c !! m = Some info → g1 !! pre (cn j) m = Some (copy_info Fs (cn j) m info)).
    { intros m info Hm. assert (Hmd : m ∈ dom c) by (apply elem_of_dom; eauto).
      assert (Hmg : m ∈ dom gcut) by (apply gcut_dom; by left).
      assert (HSm : S0 !! pre (cn j) m = Some (ren_info (pre (cn j)) (strip_info (cut_info Fs info)))).
      { rewrite HS_new by done. rewrite Hgcut, decide_True by done. by rewrite Hm. }
      unfold copy_info. case_bool_decide as Hty.
      - assert (m ∈ spl) as Hms by (apply Hspl, elem_of_inputs; eauto).
        rewrite (Hc1 m Hms), HSm. simpl. f_equal. unfold upd_fi, ren_info, strip_info, cut_info, mk_node. simpl.
        rewrite Hty, bool_decide_eq_true_2 by done. rewrite (Hin0 m info Hm Hty). f_equal.
        rewrite !set_map_empty. set_solver.
      - rewrite Hc2.
        + rewrite HSm. f_equal. unfold ren_info, strip_info, cut_info, mk_node. simpl.
          rewrite bool_decide_eq_false_2 by done. f_equal. apply set_map_compose.
        + intros n Hn' E. apply (inj (pre (cn j))) in E. subst n. apply Hspl in Hn'.
          apply elem_of_inputs in Hn' as (i' & Hi' & Hty'). rewrite Hm in Hi'. by simplify_eq. }
    assert (Hg1_aux : ∀ f, f ∈ F → g1 !! pre (cn j) (aux f) = Some (mk_node Buf false ∅)).
    { intros f Hf. assert (Hfa : aux f ∈ aux <$> F) by (apply elem_of_list_fmap; eauto).
      assert (Hnc : aux f ∉ dom c) by by apply Hauxc.
      rewrite Hc2.
      - rewrite HS_new by (apply gcut_dom; by right). rewrite Hgcut, decide_False, decide_True by done. simpl.
        reflexivity.
      - intros n Hn' E. apply (inj (pre (cn j))) in E. apply Hnc. rewrite E. apply Hspl in Hn'.
        apply elem_of_inputs in Hn' as (i & Hi & _). apply elem_of_dom. eauto. }
    assert (Hg1_dom : ∀ x, is_Some (g1 !! x) → x ∈ dom (c_g A) ∨ ∃ m, m ∈ dom gcut ∧ x = pre (cn j) m).
    { intros x Hx. apply HS_dom. destruct (decide (Exists (λ n, x = pre (cn j) n) spl)) as [(n & Hn' & ->)%Exists_exists|Hno].
      - rewrite (Hc1 n Hn') in Hx. by apply fmap_is_Some in Hx.
      - rewrite Hc2 in Hx; [done|]. intros n Hn' ->. apply Hno. apply Exists_exists. eauto. }
    done.
  Qed.

  Lemma copy_step_inv j A A' : copy_inv j A →
    copy_step CUT spl F (A, Done) j = (A', Done) → copy_inv (S j) A'.
  Proof.
    intros Hinv. pose proof Hinv as [Hn Hb Htop Hcopy Haux Hdom]. unfold copy_step.
    destruct (add_subcircuit A CUT (cn j) ((λ n, (n, [n])) <$> spl)) as [A1 o1] eqn:Eadd.
    destruct o1 as [|e]; [|done].
    destruct (splice_facts j A A1 Hinv Eadd) as (Hname & Hbb1 & Hg1_old & Hg1_copy & Hg1_aux & Hg1_dom & Hold_new).
    set (g1 := c_g A1) in *.
    (* the aux step: its targets are the aux nodes of copy j *)
    assert (Hfin : ∀ g2, (∀ x, (∀ f, f ∈ F → x ≠ pre (cn j) (aux f)) → g2 !! x = g1 !! x) →
                   (∀ f, f ∈ F → g2 !! pre (cn j) (aux f) = Some (aux_node j f)) →
                   (∀ x, is_Some (g2 !! x) → is_Some (g1 !! x)) →
                   copy_inv (S j) (with_g A1 g2)).
    { intros g2 Hoth Htg Hd2.
      assert (Hnt_old : ∀ x, x ∈ dom (c_g A) → ∀ f, f ∈ F → x ≠ pre (cn j) (aux f)).
      { intros x Hx f Hf. apply Hold_new; [done|]. apply gcut_dom. right. apply elem_of_list_fmap. eauto. }
      split; simpl.
      - by rewrite Hname.
      - rewrite Hbb1, Hbbs, Hb. rewrite kmap_empty. apply (left_id_L ∅ (∪)).
      - intros n Hn'. assert (n ∈ dom (c_g A)) by (apply elem_of_dom; rewrite Htop by done; eauto).
        rewrite Hoth by by apply Hnt_old. rewrite Hg1_old by done. by apply Htop.
      - intros i m info Hi Hm. destruct (decide (i = j)) as [->|Hne].
        + rewrite Hoth; [by apply Hg1_copy|]. intros f Hf E. apply (inj (pre (cn j))) in E.
          apply (aux_not_c f Hf m); [apply elem_of_dom; eauto|done].
        + assert (i < j) as Hij by lia.
          assert (pre (cn i) m ∈ dom (c_g A)) by (apply elem_of_dom; rewrite (Hcopy i m info Hij Hm); eauto).
          rewrite Hoth by by apply Hnt_old. rewrite Hg1_old by done. by apply Hcopy.
      - intros i f Hi Hf. destruct (decide (i = j)) as [->|Hne]; [by apply Htg|].
        assert (i < j) as Hij by lia.
        assert (pre (cn i) (aux f) ∈ dom (c_g A)) by (apply elem_of_dom; rewrite (Haux i f Hij Hf); eauto).
        rewrite Hoth by by apply Hnt_old. rewrite Hg1_old by done. by apply Haux.
      - intros x Hx%elem_of_dom. apply Hd2, Hg1_dom in Hx as [Hx|(m & Hm & ->)].
        + apply Hdom in Hx as [?|(i & m & Hi & -> & Hm)]; [by left|right]. exists i, m. split; [lia|done].
        + right. exists j, m. split; [lia|]. split; [done|]. by apply gcut_dom. }
    destruct j as [|j'].
    - destruct (set_type_g g1 _ Input) as [g2 o2] eqn:E2. intros [= <- ->].
      apply set_type_done in E2 as [E2 _]. apply Hfin.
      + intros x Hx. rewrite E2, decide_False; [done|]. intros (f & -> & Hf)%elem_of_list_fmap. by apply (Hx f).
      + intros f Hf. rewrite E2, decide_True by (apply elem_of_list_fmap; eauto). by rewrite Hg1_aux.
      + intros x. rewrite E2. destruct (decide _); [|done]. by intros ?%fmap_is_Some.
    - destruct (foldl _ (g1, Done) F) as [g2 o2] eqn:E2. intros [= <- ->].
      apply (connect_fold_done (λ f, pre (cn j') f) (λ f, pre (cn (S j')) (aux f))) in E2 as (E2a & E2b & E2c).
      2: { intros a b _ _ E. apply (inj (pre (cn (S j')))) in E. unfold aux in E. by simplify_eq. }
      apply Hfin.
      + intros x Hx. apply E2b. intros f Hf. by apply Hx.
      + intros f Hf. rewrite (E2a f Hf), Hg1_aux by done. simpl. f_equal. unfold upd_fi, mk_node. simpl. f_equal. set_solver.
      + intros x Hx. apply elem_of_dom. rewrite <- E2c. by apply elem_of_dom.
  Qed.
End copies.

Lemma copy_fold_fail CUT spl F l A e : foldl (copy_step CUT spl F) (A, Fail e) l = (A, Fail e).
Proof. induction l; simpl; done. Qed.

Lemma copies_fold (C : Circuit) (F : list string) (gcut : circuit) (nm : string) (spl : list string)
    (Hbbs : c_bbs C = ∅)
    (Hgcut : ∀ m, gcut !! m = if decide (m ∈ dom (c_g C)) then cut_info (list_to_set F) <$> c_g C !! m
                                else if decide (m ∈ aux <$> F) then Some (mk_node Buf false ∅) else None)
    (Hauxc : ∀ l, l ∈ F → aux l ∉ dom (c_g C))
    (Hin0 : ∀ m info, c_g C !! m = Some info → n_ty info = Input → n_fi info = ∅)
    (Hspl : ∀ n, n ∈ spl ↔ n ∈ inputs (c_g C)) len : ∀ a A A',
  copy_inv C F nm a A → foldl (copy_step (with_g C gcut) spl F) (A, Done) (seq a len) = (A', Done) →
  copy_inv C F nm (a + len) A'.
Proof.
  induction len as [|len IH]; intros a A A' Hinv H.
  - simpl in H. injection H as <-. by rewrite Nat.add_0_r.
  - change (seq a (S len)) with (a :: seq (S a) len) in H. cbn [foldl] in H.
    destruct (copy_step (with_g C gcut) spl F (A, Done) a) as [A1 o1] eqn:E.
    destruct o1 as [|e]; [|by rewrite copy_fold_fail in H].
    replace (a + S len) with (S a + len) by lia. eapply IH; [|exact H].
    eapply copy_step_inv; eauto.
Qed.

(* ---------- D. the output buffers ---------- *)
Lemma out_fold_fail sp last l g e : foldl (out_step sp last) (g, Fail e) l = (g, Fail e).
Proof. induction l; simpl; done. Qed.
Lemma out_fold_done (sp : gset string) last (P : list string) : ∀ g0 g,
  NoDup P → foldl (out_step sp last) (g0, Done) P = (g, Done) →
  (∀ x, x ∉ P → g !! x = g0 !! x) ∧
  (∀ o, o ∈ P → o ∈ sp → g !! o = set_out true <$> g0 !! o) ∧
  (∀ o, o ∈ P → o ∉ sp → g !! o = Some (mk_node Buf true {[pre last o]}) ∧ o ∉ dom g0).
Proof.
  induction P as [|o P IH] using rev_ind; intros g0 g Hnd H.
  - simpl in H. injection H as <-. split; [done|]. split; set_solver.
  - rewrite foldl_app in H. simpl in H. apply NoDup_app in Hnd as (Hnd & HoP & _).
    destruct (foldl (out_step sp last) (g0, Done) P) as [g1 o1] eqn:E1. destruct o1 as [|e]; [|done].
    destruct (IH g0 g1 Hnd E1) as (I1 & I2 & I3). clear IH.
    assert (HonP : o ∉ P) by (intros Hin; apply (HoP o Hin); set_solver).
    unfold out_step in H. case_bool_decide as Hsp.
    + apply set_output_done in H as [H _]. split; [|split].
      * intros x Hx. rewrite H, decide_False by set_solver. apply I1. set_solver.
      * intros o' [Ho'| ->%elem_of_list_singleton]%elem_of_app Hs.
        -- rewrite H, decide_False by (intros ->%elem_of_list_singleton; done). by apply I2.
        -- rewrite H, decide_True by set_solver. by rewrite I1.
      * intros o' [Ho'| ->%elem_of_list_singleton]%elem_of_app Hs; [|done].
        rewrite H, decide_False by (intros ->%elem_of_list_singleton; done). by apply I3.
    + destruct (add_g g1 o Buf [pre last o] [] af_output) as [[g2 o2] n2] eqn:E2. injection H as -> ->.
      unfold af_output in E2. apply add_g_done_fanin in E2 as (Hd & Ho & Hoth). split; [|split].
      * intros x Hx. rewrite Hoth by set_solver. apply I1. set_solver.
      * intros o' [Ho'| ->%elem_of_list_singleton]%elem_of_app Hs; [|done].
        rewrite Hoth by (intros ->; done). by apply I2.
      * intros o' [Ho'| ->%elem_of_list_singleton]%elem_of_app Hs.
        -- rewrite Hoth by (intros ->; done). by apply I3.
        -- split.
           ++ rewrite Ho. f_equal. unfold mk_node. f_equal. set_solver.
           ++ intros Hin. apply Hd. apply elem_of_dom. rewrite I1 by done. by apply elem_of_dom.
Qed.

(* ---------- E. the model returns the closed form ---------- *)
Definition inputs_undriven (c : circuit) : Prop := ∀ m info, c !! m = Some info → n_ty info = Input → n_fi info = ∅.

Lemma nodes_functional (l : list (string * ninfo)) x j1 j2 : NoDup l.*1 → (x, j1) ∈ l → (x, j2) ∈ l → j1 = j2.
Proof. intros Hnd H1 H2. apply (elem_of_list_to_map (M := gmap string)) in H1, H2; try done. congruence. Qed.

Lemma steps_closed_form C F g0 gcut A1 g2 :
  closed (c_g C) → inputs_undriven (c_g C) → NoDup (unrolled_nodes (c_g C) F).*1 →
  NoDup F → (∀ f, f ∈ F → f ∈ dom (c_g C)) → c_bbs C = ∅ →
  add_inputs ∅ (elements (inputs (c_g C))) = (g0, Done) →
  cut_circuit (c_g C) F = (gcut, Done) →
  foldl (copy_step (with_g C gcut) (elements (inputs (c_g C))) F)
        ({| c_name := "acyc_" ++ c_name C; c_g := g0; c_bbs := ∅ |}, Done) (seq 0 (S (length F))) = (A1, Done) →
  foldl (out_step (inputs (c_g C)) (cn (length F))) (c_g A1, Done) (elements (outputs (c_g C))) = (g2, Done) →
  with_g A1 g2 = {| c_name := "acyc_" ++ c_name C; c_g := unrolled (c_g C) F; c_bbs := ∅ |}.
Proof.
  intros Hcl Hin0 Hnd HF1 HFd Hb E0 Ecut Ecp Eout.
  set (c := c_g C) in *. set (spl := elements (inputs c)) in *.
  assert (Hspl : ∀ n, n ∈ spl ↔ n ∈ inputs c) by (intros n; apply elem_of_elements).
  apply add_inputs_done in E0 as (I1 & I2 & _).
  apply cut_circuit_done in Ecut as [Hgcut Hauxc]; [|done..].
  assert (Hinv0 : copy_inv C F ("acyc_" ++ c_name C) 0 {| c_name := "acyc_" ++ c_name C; c_g := g0; c_bbs := ∅ |}).
  { split; simpl; try done.
    - intros n Hn. apply I1. by apply Hspl.
    - intros; lia.
    - intros; lia.
    - intros x Hx. left. apply Hspl. destruct (decide (x ∈ spl)); [done|]. exfalso.
      apply elem_of_dom in Hx as [i Hi]. rewrite I2 in Hi by done. by rewrite lookup_empty in Hi. }
  apply (copies_fold C F gcut ("acyc_" ++ c_name C) spl Hb Hgcut Hauxc Hin0 Hspl (S (length F)) 0) in Ecp; [|exact Hinv0].
  destruct Ecp as [Hn1 Hb1 Htop Hcopy Haux Hdom]. simpl in *.
  apply out_fold_done in Eout as (O1 & O2 & O3); [|apply NoDup_elements].
  assert (HP : ∀ x, x ∈ elements (outputs c) ↔ x ∈ outputs c) by (intros; apply elem_of_elements).
  unfold with_g. f_equal; [done| |done].
  apply map_eq. intros x.
  (* what the model has at a processed output *)
  assert (Hproc : ∀ j, x ∈ outputs c → (x, j) ∈ unrolled_nodes c F → g2 !! x = Some j).
  { intros j Ho Hj. destruct (decide (x ∈ inputs c)) as [Hi|Hi].
    - rewrite (nodes_functional _ _ _ _ Hnd Hj (in_top c F x Hi)).
      rewrite O2, Htop by (try apply HP; done). simpl. by rewrite bool_decide_eq_true_2.
    - rewrite (nodes_functional _ _ _ _ Hnd Hj (in_out c F x Ho Hi)).
      apply O3; [by apply HP|done]. }
  destruct (decide (x ∈ (unrolled_nodes c F).*1)) as [Hk|Hk].
  - apply elem_of_list_fmap in Hk as ([x' j] & -> & Hj). simpl.
    assert (Hu : unrolled c F !! x' = Some j) by (unfold unrolled; by apply elem_of_list_to_map).
    rewrite Hu. destruct (decide (x' ∈ outputs c)) as [Ho|Ho]; [by apply Hproc|].
    rewrite O1 by (intros ?%HP; done).
    apply in_unrolled_inv in Hj as [(n & Hn & -> & ->)|[(i & m & info & Hi & Hm & -> & ->)|[(f & Hf & -> & ->)|[(i & f & Hi & Hf & -> & ->)|(o & Hoo & _ & -> & ->)]]]].
    + rewrite Htop by done. by rewrite bool_decide_eq_false_2.
    + apply Hcopy; [lia|done].
    + by rewrite (Haux 0 f) by (lia || done).
    + by rewrite (Haux (S i) f) by (lia || done).
    + done.
  - assert (Hu : unrolled c F !! x = None) by (unfold unrolled; by apply not_elem_of_list_to_map).
    rewrite Hu. destruct (g2 !! x) as [j|] eqn:Hg; [|done]. exfalso. apply Hk.
    assert (Hkey : ∀ j', (x, j') ∈ unrolled_nodes c F → x ∈ (unrolled_nodes c F).*1).
    { intros j' Hj'. apply elem_of_list_fmap. by exists (x, j'). }
    destruct (decide (x ∈ outputs c)) as [Ho|Ho].
    + destruct (decide (x ∈ inputs c)) as [Hi|Hi]; [eapply Hkey, in_top; done|eapply Hkey, in_out; done].
    + rewrite O1 in Hg by (intros ?%HP; done).
      assert (x ∈ dom (c_g A1)) as Hd by (apply elem_of_dom; eauto).
      apply Hdom in Hd as [Hi|(i & m & Hi & -> & [Hm|Hm])].
      * eapply Hkey, in_top; done.
      * apply elem_of_dom in Hm as [info Hm]. eapply Hkey, (in_copy c F i m info); [lia|done].
      * apply elem_of_list_fmap in Hm as (f & -> & Hf). destruct i as [|i].
        -- eapply Hkey, in_aux0; done.
        -- eapply Hkey, (in_auxS c F i f); [lia|done].
Qed.

Theorem acyclic_unroll_closed_form C F A :
  closed (c_g C) → inputs_undriven (c_g C) → startpoints (c_g C) = inputs (c_g C) →
  NoDup (unrolled_nodes (c_g C) F).*1 →
  acyclic_unroll C F = Ok A →
  A = {| c_name := "acyc_" ++ c_name C; c_g := unrolled (c_g C) F; c_bbs := ∅ |}.
Proof.
  intros Hcl Hin0 Hsp Hnd. unfold acyclic_unroll. rewrite Hsp.
  destruct (negb (bool_decide (c_bbs C = ∅))) eqn:Hb; [done|]. apply negb_false_iff, bool_decide_eq_true in Hb.
  destruct (has_self_loop (c_g C)); [done|].
  destruct (negb (bool_decide (NoDup F)) || _) eqn:HF; [done|].
  apply orb_false_iff in HF as [HF1%negb_false_iff%bool_decide_eq_true HF2%negb_false_iff].
  assert (HFd : ∀ f, f ∈ F → f ∈ dom (c_g C)).
  { intros f Hf. rewrite forallb_forall in HF2. specialize (HF2 f). rewrite <- elem_of_list_In in HF2.
    specialize (HF2 Hf). by apply bool_decide_eq_true in HF2. }
  set (c := c_g C) in *. set (spl := elements (inputs c)).
  assert (Hspl : ∀ n, n ∈ spl ↔ n ∈ inputs c) by (intros n; apply elem_of_elements).
  unfold lift.
  destruct (add_inputs ∅ spl) as [g0 o0] eqn:E0. destruct o0 as [|e]; [|done].
  destruct (cut_circuit c F) as [gcut oc] eqn:Ecut. destruct oc as [|e]; [|done].
  destruct (foldl (copy_step _ spl F) _ (seq 0 (S (length F)))) as [A1 o1] eqn:Ecp. destruct o1 as [|e]; [|done].
  destruct (foldl (out_step _ _) _ _) as [g2 o2] eqn:Eout. destruct o2 as [|e]; [|done].
  destruct (lint _ _); try done. destruct (acyclicb g2); [|done]. intros [= <-].
  by apply (steps_closed_form C F g0 gcut A1 g2).
Qed.

(* ---------- F. the property theorems, restated about the model ---------- *)
Lemma gen_tables_ok : tables_ok gen_tables = true.
Proof. vm_compute. reflexivity. Qed.
Lemma lint_clean_inputs_undriven C : lint_clean C → inputs_undriven (c_g C).
Proof.
  intros Hl m info Hm Hty. destruct (decide (n_fi info = ∅)) as [|Hne]; [done|]. exfalso.
  apply (lint_ok_iff gen_tables gen_tables_ok) in Hl. apply Hl. left. exists m, info. split; [done|].
  right. right. left. split; [|done]. rewrite Hty. unfold doc_no_fanin. set_solver.
Qed.
Lemma acyclic_unroll_ok_F C F A : acyclic_unroll C F = Ok A → NoDup F ∧ (∀ f, f ∈ F → f ∈ dom (c_g C)) ∧ c_bbs C = ∅.
Proof.
  unfold acyclic_unroll.
  destruct (negb (bool_decide (c_bbs C = ∅))) eqn:Hb; [done|]. apply negb_false_iff, bool_decide_eq_true in Hb.
  destruct (has_self_loop (c_g C)); [done|].
  destruct (negb (bool_decide (NoDup F)) || _) eqn:HF; [done|]. intros _.
  apply orb_false_iff in HF as [HF1%negb_false_iff%bool_decide_eq_true HF2%negb_false_iff].
  split; [done|]. split; [|done]. intros f Hf. rewrite forallb_forall in HF2. specialize (HF2 f).
  rewrite <- elem_of_list_In in HF2. specialize (HF2 Hf). by apply bool_decide_eq_true in HF2.
Qed.

Theorem acyclic_unroll_spec C F A :
  lint_clean C → closed (c_g C) → startpoints (c_g C) = inputs (c_g C) → free_are_inputs (c_g C) →
  names_ok (c_g C) F → cut_acyclic (c_g C) F →
  acyclic_unroll C F = Ok A →
  c_bbs A = ∅ ∧ acyclic (c_g A) ∧ outputs (c_g A) = outputs (c_g C) ∧
  inputs (c_g A) = inputs (c_g C) ∪ list_to_set ((λ f, "c0_aux_in_" ++ f) <$> F) ∧
  ∀ v w, consistent (c_g C) v → consistent (c_g A) w → agrees (inputs (c_g C)) w v →
         (∀ f, f ∈ F → w ("c0_aux_in_" ++ f) = v f) → agrees (outputs (c_g C)) w v.
Proof.
  intros Hl Hcl Hsp Hfr Hnm Hcut Hok.
  destruct (acyclic_unroll_ok_F C F A Hok) as (HF1 & HF2 & Hb).
  pose proof (acyclic_unroll_closed_form C F A Hcl (lint_clean_inputs_undriven C Hl) Hsp (proj1 Hnm) Hok) as ->. simpl.
  split; [done|]. split; [by apply unrolled_acyclic; [|apply Hnm|..]|].
  split; [apply unrolled_outputs, Hnm|]. split; [by apply unrolled_inputs'|].
  intros v w Hv Hw Hin Haux. by eapply (unrolled_stable (c_g C) F).
Qed.

(* ---------- G. the result is lint-clean ---------- *)
Lemma has_dot_cn i : has_dot (cn i) = false.
Proof. unfold cn. rewrite has_dot_app, has_dot_pretty_N. done. Qed.

Theorem unrolled_lint_clean C F nm :
  lint_clean C → c_bbs C = ∅ → startpoints (c_g C) = inputs (c_g C) → (∀ f, f ∈ F → f ∈ dom (c_g C)) →
  NoDup (unrolled_nodes (c_g C) F).*1 →
  lint_clean {| c_name := nm; c_g := unrolled (c_g C) F; c_bbs := ∅ |}.
Proof.
  intros Hl Hb Hsp HF Hnd.
  assert (gen_ok : tables_ok gen_tables = true) by (vm_compute; reflexivity).
  set (c := c_g C) in *.
  assert (Hnode : ∀ m info, c !! m = Some info → has_dot m = false ∧ wf_node info).
  { intros m info Hm. apply (lint_clean_node C m info Hl Hb Hm). intros Hbo.
    assert (m ∈ startpoints c) as Hs. { apply elem_of_of_type. exists info. split; [done|]. cbv beta. rewrite Hbo. reflexivity. }
    rewrite Hsp in Hs. apply elem_of_inputs in Hs as (i & Hi & Hty). fold c in Hi. rewrite Hm in Hi. injection Hi as <-. congruence. }
  assert (Hdotd : ∀ m, m ∈ dom c → has_dot m = false).
  { intros m [info Hm]%elem_of_dom. by apply (Hnode m info). }
  apply (lint_ok_iff gen_tables gen_ok). intros [(x & j & Hx & V)|(inst & d & Hd & _)]; [|simpl in Hd; by rewrite lookup_empty in Hd].
  simpl in Hx. apply (unrolled_lookup c F Hnd) in Hx. revert V. apply wf_node_ok.
  - apply in_unrolled_inv in Hx as [(n & Hn & -> & ->)|[(i & m & info & _ & Hm & -> & ->)|[(f & Hf & -> & ->)|[(i & f & _ & Hf & -> & ->)|(o & Ho & _ & -> & ->)]]]].
    + apply Hdotd. apply elem_of_inputs in Hn as (i & Hi & _). apply elem_of_dom. eauto.
    + rewrite has_dot_pre, has_dot_cn. simpl. by apply (Hnode m info).
    + rewrite has_dot_pre, has_dot_cn. unfold aux. rewrite has_dot_app. simpl. by apply Hdotd, HF.
    + rewrite has_dot_pre, has_dot_cn. unfold aux. rewrite has_dot_app. simpl. by apply Hdotd, HF.
    + apply Hdotd. apply elem_of_outputs in Ho as (i & Hi & _). apply elem_of_dom. eauto.
  - apply in_unrolled_inv in Hx as [(n & Hn & -> & ->)|[(i & m & info & _ & Hm & -> & ->)|[(f & Hf & -> & ->)|[(i & f & _ & Hf & -> & ->)|(o & Ho & _ & -> & ->)]]]].
    + apply wf_node_input.
    + unfold copy_info. case_bool_decide; [apply wf_node_buf1|]. apply wf_node_map. by apply (Hnode m info).
    + apply wf_node_input.
    + apply wf_node_buf1.
    + apply wf_node_buf1.
Qed.
