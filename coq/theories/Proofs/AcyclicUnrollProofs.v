(* C18 proofs: the certified table evaluator, semantics of the closed form of acyclic_unroll
   (induction over the chained copies), structure of the closed form, and the order-independent cut. *)
From stdpp Require Import strings gmap sets fin_sets pretty.
From CG Require Import Base.Compose Base.Oracle Model.AcyclicUnroll Model.TopoEval.
Open Scope string_scope.

(* ---------- 0. the table evaluator is certified by consistentb ---------- *)
Lemma te_certified c ord a v : closed c → acyclic c →
  consistentb c (te_eval ord a) = true → eq_on (elements (free_nodes c)) (te_eval ord a) a = true →
  consistent c v → agrees (free_nodes c) v a → agrees (dom c) v (te_eval ord a).
Proof.
  intros Hcl [rank Hr] Hc%consistentb_spec He Hv Ha.
  eapply (consistent_unique c rank Hr); eauto.
  intros n Hn. rewrite Ha by done. symmetry. eapply eq_on_spec; [exact He|]. by apply elem_of_elements.
Qed.

(* ---------- 1. gate_val over an image, injectivity only on the set ---------- *)
Lemma elements_set_map_perm_on (ρ : string → string) (s : gset string) :
  (∀ x y, x ∈ s → y ∈ s → ρ x = ρ y → x = y) →
  elements (set_map ρ s : gset string) ≡ₚ ρ <$> elements s.
Proof.
  induction s as [|x s Hx IH] using set_ind_L; intros Hinj.
  - by rewrite set_map_empty, !elements_empty.
  - rewrite set_map_union_L, set_map_singleton_L.
    rewrite !elements_union_singleton; [|done|].
    + simpl. rewrite IH; [done|]. intros a b Ha Hb. apply Hinj; set_solver.
    + intros [y [Hy Hin]]%elem_of_map. apply Hinj in Hy; [|set_solver..]. by subst.
Qed.
Lemma gate_val_set_map_on t (v : val) (ρ : string → string) (s : gset string) :
  (∀ x y, x ∈ s → y ∈ s → ρ x = ρ y → x = y) →
  gate_val t v (set_map ρ s) = gate_val t (v ∘ ρ) s.
Proof.
  intros Hinj. unfold gate_val. f_equal. fold (gfold t).
  change (gfold t (v <$> elements (set_map ρ s : gset string)) = gfold t ((v ∘ ρ) <$> elements s)).
  rewrite (gfold_perm t _ (v <$> (ρ <$> elements s))).
  - by rewrite <- list_fmap_compose.
  - apply fmap_Permutation, elements_set_map_perm_on, Hinj.
Qed.
Lemma set_map_empty_iff' (ρ : string → string) (s : gset string) : (set_map ρ s : gset string) = ∅ ↔ s = ∅.
Proof.
  split; [|intros ->; apply set_map_empty].
  intros H. apply set_eq. intros x. split; [|set_solver]. intros Hx. exfalso.
  assert (ρ x ∈ (set_map ρ s : gset string)) as Hin by (apply elem_of_map; eauto).
  rewrite H in Hin. set_solver.
Qed.
Lemma gate_val_buf_singleton (v : val) m : gate_val Buf v {[m]} = v m.
Proof. unfold gate_val. rewrite elements_singleton. simpl. by destruct (v m). Qed.

Lemma node_ok_buf1 (w : val) x y o : node_ok w x (mk_node Buf o {[y]}) → w x = w y.
Proof.
  unfold node_ok, is_free, mk_node. cbn [n_ty n_fi].
  rewrite bool_decide_eq_false_2 by set_solver. by rewrite gate_val_buf_singleton.
Qed.

(* ---------- 2. consistent valuations of a graph given as a duplicate-free node list ---------- *)
Lemma consistent_list_to_map (l : list (string * ninfo)) w x j :
  NoDup l.*1 → consistent (list_to_map l) w → (x, j) ∈ l → node_ok w x j.
Proof. intros Hnd Hc Hin. apply Hc. by apply elem_of_list_to_map. Qed.

Section closed_form.
  Context (c : circuit) (F : list string).
  Let Fs : gset string := list_to_set F.
  Let k := length F.

  Lemma in_top n : n ∈ inputs c → (n, mk_node Input (bool_decide (n ∈ outputs c)) ∅) ∈ unrolled_nodes c F.
  Proof.
    intros Hn. unfold unrolled_nodes. apply elem_of_app. left. unfold top_nodes.
    apply elem_of_list_fmap. exists n. split; [done|]. by apply elem_of_elements.
  Qed.
  Lemma in_copy i m info : i ≤ k → c !! m = Some info →
    (pre (cn i) m, copy_info Fs (cn i) m info) ∈ unrolled_nodes c F.
  Proof.
    intros Hi Hm. unfold unrolled_nodes. apply elem_of_app. right. apply elem_of_app. left.
    apply elem_of_list_bind. exists i. split; [|apply elem_of_seq; unfold k in Hi; lia].
    apply elem_of_app. left. unfold copy_nodes. apply elem_of_list_fmap. exists (m, info). split; [done|].
    by apply elem_of_map_to_list.
  Qed.
  Lemma in_aux0 f : f ∈ F → (pre (cn 0) (aux f), mk_node Input false ∅) ∈ unrolled_nodes c F.
  Proof.
    intros Hf. unfold unrolled_nodes. apply elem_of_app. right. apply elem_of_app. left.
    apply elem_of_list_bind. exists 0. split; [|apply elem_of_seq; lia].
    apply elem_of_app. right. unfold aux_nodes. apply elem_of_list_fmap. by exists f.
  Qed.
  Lemma in_auxS j f : S j ≤ k → f ∈ F →
    (pre (cn (S j)) (aux f), mk_node Buf false {[pre (cn j) f]}) ∈ unrolled_nodes c F.
  Proof.
    intros Hi Hf. unfold unrolled_nodes. apply elem_of_app. right. apply elem_of_app. left.
    apply elem_of_list_bind. exists (S j). split; [|apply elem_of_seq; unfold k in Hi; lia].
    apply elem_of_app. right. unfold aux_nodes. apply elem_of_list_fmap. by exists f.
  Qed.
  Lemma in_out o : o ∈ outputs c → o ∉ inputs c → (o, mk_node Buf true {[pre (cn k) o]}) ∈ unrolled_nodes c F.
  Proof.
    intros Ho Hn. unfold unrolled_nodes. apply elem_of_app. right. apply elem_of_app. right.
    unfold out_nodes. apply elem_of_list_fmap. exists o. split; [done|]. apply elem_of_elements. set_solver.
  Qed.

  Context (Hcl : closed c) (Hfree : free_are_inputs c) (Hnames : names_ok c F).

  Lemma subst_inj_on x y : x ∈ dom c → y ∈ dom c → subst Fs x = subst Fs y → x = y.
  Proof.
    destruct Hnames as [_ Hfresh]. unfold subst. intros Hx Hy.
    repeat case_bool_decide; intros E; try done.
    - unfold aux in E. by simplify_eq.
    - exfalso. subst y. apply (Hfresh x); [|done]. unfold Fs in *. set_solver.
    - exfalso. subst x. apply (Hfresh y); [|done]. unfold Fs in *. set_solver.
  Qed.

  Context (v w : val) (Hv : consistent c v) (Hw : consistent (unrolled c F) w) (Hin : agrees (inputs c) w v).

  Lemma w_ok x j : (x, j) ∈ unrolled_nodes c F → node_ok w x j.
  Proof. destruct Hnames as [Hnd _]. by apply consistent_list_to_map. Qed.

  Lemma not_input_not_free m info : c !! m = Some info → n_ty info ≠ Input → is_free info = false.
  Proof.
    intros Hm Ht. destruct (is_free info) eqn:E; [|done]. exfalso.
    assert (m ∈ free_nodes c) as Hf.
    { unfold free_nodes. apply elem_of_dom. exists info. by apply map_filter_lookup_Some. }
    rewrite Hfree in Hf. apply elem_of_inputs in Hf as (i' & Hi' & Hty). by simplify_eq.
  Qed.

  (* one copy: if its aux nodes carry the stable values of the feedback nodes, the whole copy shows v *)
  Lemma copy_agrees (rank : string → nat) i :
    (∀ n info g, c !! n = Some info → g ∈ n_fi info → g ∉ Fs → rank g < rank n) →
    i ≤ k → (∀ f, f ∈ F → w (pre (cn i) (aux f)) = v f) →
    ∀ m, m ∈ dom c → w (pre (cn i) m) = v m.
  Proof.
    intros Hrank Hi Haux.
    assert (∀ r m, rank m = r → m ∈ dom c → w (pre (cn i) m) = v m) as H; [|intros m; by eapply H].
    intros r. induction (lt_wf r) as [r _ IH]. intros m <- [info Hm]%elem_of_dom.
    pose proof (w_ok _ _ (in_copy i m info Hi Hm)) as Hok.
    unfold copy_info in Hok. case_bool_decide as Hty.
    - (* a primary input: buffer of the global input *)
      apply node_ok_buf1 in Hok. rewrite Hok. apply Hin. apply elem_of_inputs. eauto.
    - pose proof (not_input_not_free m info Hm Hty) as Hnf.
      pose proof (Hv m info Hm) as Hvm. unfold node_ok in Hvm, Hok. rewrite Hnf in Hvm.
      set (ρ := λ g, pre (cn i) (subst Fs g)) in *.
      assert (Hfr : is_free (mk_node (n_ty info) false (set_map ρ (n_fi info))) = false).
      { unfold is_free in *. simpl. destruct (n_ty info); try done.
        all: rewrite bool_decide_eq_false in Hnf; apply bool_decide_eq_false; by rewrite set_map_empty_iff'. }
      rewrite Hfr in Hok. simpl in Hok.
      assert (Hg : ∀ t, gate_val t w (set_map ρ (n_fi info)) = gate_val t v (n_fi info)).
      { intros t. rewrite gate_val_set_map_on.
        - apply gate_val_ext. intros g Hgin. unfold compose, ρ, subst. case_bool_decide as HgF.
          + apply Haux. unfold Fs in HgF. by apply elem_of_list_to_set in HgF.
          + eapply (IH (rank g)); [eapply Hrank; eauto|done|]. eapply Hcl; eauto.
        - intros x y Hx Hy E. unfold ρ in E. apply (inj (pre (cn i))) in E.
          apply subst_inj_on in E; [done| |]; eapply Hcl; eauto. }
      destruct (n_ty info); rewrite ?Hg in Hok; congruence.
  Qed.

  (* all copies, by induction along the chain *)
  Lemma copies_agree (rank : string → nat) :
    (∀ n info g, c !! n = Some info → g ∈ n_fi info → g ∉ Fs → rank g < rank n) →
    (∀ f, f ∈ F → f ∈ dom c) →
    (∀ f, f ∈ F → w (pre (cn 0) (aux f)) = v f) →
    ∀ i, i ≤ k → ∀ m, m ∈ dom c → w (pre (cn i) m) = v m.
  Proof.
    intros Hrank HF H0 i. induction i as [|i IH]; intros Hi.
    - by apply copy_agrees with rank.
    - apply copy_agrees with rank; [done|done|]. intros f Hf.
      pose proof (w_ok _ _ (in_auxS i f Hi Hf)) as Hok. apply node_ok_buf1 in Hok.
      rewrite Hok. apply IH; [lia|]. by apply HF.
  Qed.

  Theorem unrolled_stable_aux :
    cut_acyclic c F → (∀ f, f ∈ F → f ∈ dom c) →
    (∀ f, f ∈ F → w (pre (cn 0) (aux f)) = v f) →
    agrees (outputs c) w v.
  Proof.
    intros [rank Hr] HF H0 o Ho.
    assert (Hrank : ∀ n info g, c !! n = Some info → g ∈ n_fi info → g ∉ Fs → rank g < rank n).
    { intros n info g Hn Hg HgF. eapply (Hr n (upd_fi (λ s, s ∖ Fs) info) g).
      - unfold cut_nodes. fold Fs. by rewrite lookup_fmap, Hn.
      - simpl. set_solver. }
    destruct (decide (o ∈ inputs c)) as [Hi|Hi]; [by apply Hin|].
    pose proof (w_ok _ _ (in_out o Ho Hi)) as Hok. apply node_ok_buf1 in Hok.
    rewrite Hok. eapply copies_agree; eauto.
    apply elem_of_outputs in Ho as (i' & Hi' & _). apply elem_of_dom. eauto.
  Qed.
End closed_form.

(* ---------- 4. descendants: the bounded closure is a closure ---------- *)
Lemma elem_of_fo_set c (S : gset string) z : z ∈ fo_set c S ↔ ∃ y, y ∈ S ∧ z ∈ fanout c y.
Proof.
  unfold fo_set. rewrite elem_of_union_list. split.
  - intros (X & HX & Hz). apply elem_of_list_fmap in HX as (y & -> & Hy). exists y. split; [by apply elem_of_elements|done].
  - intros (y & Hy & Hz). exists (fanout c y). split; [|done]. apply elem_of_list_fmap. exists y. split; [done|by apply elem_of_elements].
Qed.
Lemma fanout_sub_dom c y : fanout c y ⊆ dom c.
Proof. intros z (i & Hi & _)%elem_of_fanout. apply elem_of_dom. eauto. Qed.
Lemma fo_set_sub_dom c S : fo_set c S ⊆ dom c.
Proof. intros z (y & _ & Hz)%elem_of_fo_set. by eapply fanout_sub_dom. Qed.
Lemma desc_n_mono k c S : S ⊆ desc_n k c S.
Proof. revert S. induction k as [|k IH]; intros S; simpl; [done|]. etrans; [|apply IH]. set_solver. Qed.
Lemma desc_n_sub_dom k c S : S ⊆ dom c → desc_n k c S ⊆ dom c.
Proof.
  revert S. induction k as [|k IH]; intros S HS; simpl; [done|]. apply IH.
  pose proof (fo_set_sub_dom c S). set_solver.
Qed.
Lemma desc_n_fixed k c S : fo_set c S ⊆ S → desc_n k c S = S.
Proof.
  intros H. induction k as [|k IH]; simpl; [done|].
  replace (S ∪ fo_set c S) with S by set_solver. done.
Qed.
Lemma desc_n_least k c S T : S ⊆ T → fo_set c T ⊆ T → desc_n k c S ⊆ T.
Proof.
  revert S. induction k as [|k IH]; intros S HS HT; simpl; [done|]. apply IH; [|done].
  apply union_least; [done|]. intros z (y & Hy & Hz)%elem_of_fo_set. apply HT. apply elem_of_fo_set. exists y. split; [set_solver|done].
Qed.
Lemma desc_n_closed_or_grows k c S :
  fo_set c (desc_n k c S) ⊆ desc_n k c S ∨ size S + k ≤ size (desc_n k c S).
Proof.
  revert S. induction k as [|k IH]; intros S; simpl.
  - right. lia.
  - destruct (decide (fo_set c S ⊆ S)) as [Hc|Hc].
    + left. replace (S ∪ fo_set c S) with S by set_solver. by rewrite desc_n_fixed.
    + destruct (IH (S ∪ fo_set c S)) as [Hl|Hr]; [by left|]. right.
      assert (size S < size (S ∪ fo_set c S)); [|lia].
      apply subset_size. split; [set_solver|]. intros Hsub. apply Hc. set_solver.
Qed.
Lemma desc_closed c x : fo_set c (desc c x) ⊆ desc c x.
Proof.
  unfold desc. destruct (desc_n_closed_or_grows (size c) c (fanout c x)) as [H|H]; [done|].
  pose proof (desc_n_sub_dom (size c) c (fanout c x) (fanout_sub_dom c x)) as Hsub.
  apply subseteq_size in Hsub. rewrite size_dom in Hsub.
  assert (size (fanout c x) = 0) as H0 by lia. apply size_empty_inv in H0. apply leibniz_equiv in H0.
  rewrite H0. rewrite desc_n_fixed; [|intros z (y & Hy & _)%elem_of_fo_set; set_solver].
  intros z (y & Hy & _)%elem_of_fo_set. set_solver.
Qed.
Lemma desc_fanout c x : fanout c x ⊆ desc c x.
Proof. apply desc_n_mono. Qed.
Lemma desc_sub_dom c x : desc c x ⊆ dom c.
Proof. apply desc_n_sub_dom, fanout_sub_dom. Qed.
(* an edge u -> n: everything below n, and n itself, is below u *)
Lemma desc_edge c u n : n ∈ fanout c u → {[n]} ∪ desc c n ⊆ desc c u.
Proof.
  intros Hn. pose proof (desc_fanout c u n Hn) as Hnu.
  apply union_least; [set_solver|]. apply desc_n_least; [|apply desc_closed].
  intros z Hz. apply desc_closed. apply elem_of_fo_set. eauto.
Qed.
(* exactness: the computed set is the set of proper descendants *)
Lemma desc_sound c x z : z ∈ desc c x → tc (λ a b, a ∈ fanin c b) x z.
Proof.
  unfold desc.
  assert (∀ k S, (∀ y, y ∈ S → tc (λ a b, a ∈ fanin c b) x y) → ∀ y, y ∈ desc_n k c S → tc (λ a b, a ∈ fanin c b) x y) as H.
  { induction k as [|k IH]; intros S HS y Hy; simpl in Hy; [by apply HS|].
    eapply IH; [|exact Hy]. intros y' [Hy'|Hy']%elem_of_union; [by apply HS|].
    apply elem_of_fo_set in Hy' as (y0 & Hy0 & Hf). eapply tc_r; [by apply HS|].
    apply elem_of_fanout in Hf as (i & Hi & Hin). apply elem_of_fanin. eauto. }
  apply H. intros y Hy. apply tc_once. apply elem_of_fanout in Hy as (i & Hi & Hin). apply elem_of_fanin. eauto.
Qed.
Lemma desc_complete c x z : tc (λ a b, a ∈ fanin c b) x z → z ∈ desc c x.
Proof.
  assert (Hfo : ∀ a b, a ∈ fanin c b → b ∈ fanout c a).
  { intros a b (i & Hi & Hin)%elem_of_fanin. apply elem_of_fanout. eauto. }
  induction 1 as [a b Hab|a b d Hab Hbd IH].
  - apply desc_fanout. by apply Hfo.
  - apply (desc_edge c a b); [by apply Hfo|]. set_solver.
Qed.

(* ---------- 5. back edges of ANY node order that lie on a cycle: removing them leaves an acyclic graph ---------- *)
Lemma index_of_le ord n : index_of ord n ≤ length ord.
Proof.
  unfold index_of. destruct (list_find (λ x, x = n) ord) as [[i x]|] eqn:E; simpl; [|lia].
  apply list_find_Some in E as (Hi & _). apply lookup_lt_Some in Hi. lia.
Qed.
Lemma index_of_inj ord n m : n ∈ ord → m ∈ ord → index_of ord n = index_of ord m → n = m.
Proof.
  intros Hn Hm. unfold index_of.
  destruct (list_find_elem_of (λ x, x = n) ord n Hn eq_refl) as [[i x] Ei].
  destruct (list_find_elem_of (λ x, x = m) ord m Hm eq_refl) as [[j y] Ej].
  rewrite Ei, Ej. simpl. intros ->.
  apply list_find_Some in Ei as (Hi & -> & _). apply list_find_Some in Ej as (Hj & -> & _). congruence.
Qed.

Lemma cut_edges_lookup c ord n i' : cut_edges c ord !! n = Some i' ↔
  ∃ i, c !! n = Some i ∧ i' = upd_fi (filter (λ u, is_fb_edge c ord u n = false)) i.
Proof.
  unfold cut_edges. rewrite map_lookup_imap. destruct (c !! n) as [i|]; simpl.
  - split; [intros [= <-]; eauto|]. by intros (? & [= <-] & ->).
  - split; [done|]. by intros (? & ? & _).
Qed.

Theorem cut_acyclic_any_order_proof c ord :
  (∀ n, n ∉ fanin c n) → (∀ n, n ∈ dom c → n ∈ ord) → closed c →
  acyclic (cut_edges c ord).
Proof.
  intros Hloop Hord Hcl.
  set (N := S (size c)). set (L := S (length ord)).
  set (dsz := λ x, size ({[x]} ∪ desc c x)).
  exists (λ x, (N - dsz x) * L + index_of ord x).
  intros n i' u Hn Hu. apply cut_edges_lookup in Hn as (i & Hn & ->). simpl in Hu.
  apply elem_of_filter in Hu as [Hnfb Hu].
  assert (Hun : n ∈ fanout c u) by (apply elem_of_fanout; eauto).
  assert (Hnd : n ∈ dom c) by (apply elem_of_dom; eauto).
  assert (Hud : u ∈ dom c) by (eapply Hcl; eauto).
  assert (Hne : u ≠ n). { intros ->. apply (Hloop n). apply elem_of_fanin. eauto. }
  pose proof (desc_edge c u n Hun) as Hsub.
  assert (Hbound : ∀ x, x ∈ dom c → dsz x ≤ size c).
  { intros x Hx. unfold dsz. rewrite <- (size_dom c). apply subseteq_size.
    pose proof (desc_sub_dom c x). set_solver. }
  assert (Hle : dsz n ≤ dsz u).
  { unfold dsz. apply subseteq_size. set_solver. }
  pose proof (index_of_le ord u). pose proof (index_of_le ord n).
  pose proof (Hbound n Hnd). pose proof (Hbound u Hud).
  destruct (decide (dsz n = dsz u)) as [Heq|Hneq].
  - (* same component: the edge is on a cycle, so it is not a back edge of the order *)
    assert (Hsame : {[u]} ∪ desc c u ⊆ {[n]} ∪ desc c n).
    { destruct (decide ({[u]} ∪ desc c u ⊆ {[n]} ∪ desc c n)) as [|Hns]; [done|]. exfalso.
      assert (size ({[n]} ∪ desc c n) < size ({[u]} ∪ desc c u)); [|unfold dsz in Heq; lia].
      apply subset_size. split; [set_solver|done]. }
    assert (Hudn : u ∈ desc c n) by set_solver.
    unfold is_fb_edge in Hnfb. rewrite (bool_decide_eq_true_2 _ Hudn), andb_true_r in Hnfb.
    apply bool_decide_eq_false in Hnfb.
    assert (index_of ord u ≠ index_of ord n).
    { intros E. apply Hne. eapply index_of_inj; eauto. }
    rewrite Heq. lia.
  - assert (dsz n < dsz u) by lia. unfold N, L. nia.
Qed.

(* the construction cuts every out-edge of the feedback NODES, which removes at least the feedback edges *)
Lemma elem_of_fas_of_order c ord u :
  u ∈ fas_of_order c ord ↔ ∃ n i, c !! n = Some i ∧ u ∈ n_fi i ∧ is_fb_edge c ord u n = true.
Proof.
  unfold fas_of_order. rewrite elem_of_list_to_set, elem_of_list_bind. split.
  - intros ([n i] & Hu & Hp). apply elem_of_map_to_list in Hp. apply elem_of_list_filter in Hu as [Hfb Hu].
    apply elem_of_elements in Hu. eauto.
  - intros (n & i & Hn & Hu & Hfb). exists (n, i). split; [|by apply elem_of_map_to_list].
    apply elem_of_list_filter. split; [done|]. by apply elem_of_elements.
Qed.
Theorem fas_cut_acyclic c ord :
  (∀ n, n ∉ fanin c n) → (∀ n, n ∈ dom c → n ∈ ord) → closed c →
  cut_acyclic c (elements (fas_of_order c ord)).
Proof.
  intros Hl Ho Hc. destruct (cut_acyclic_any_order_proof c ord Hl Ho Hc) as [rank Hr].
  exists rank. intros n i' u Hn Hu. unfold cut_nodes in Hn. rewrite lookup_fmap in Hn.
  destruct (c !! n) as [i|] eqn:Hcn; simplify_eq/=.
  apply elem_of_difference in Hu as [Hu HnF].
  eapply (Hr n (upd_fi (filter (λ u, is_fb_edge c ord u n = false)) i) u).
  - apply cut_edges_lookup. eauto.
  - simpl. apply elem_of_filter. split; [|done].
    destruct (is_fb_edge c ord u n) eqn:E; [|done]. exfalso. apply HnF.
    rewrite list_to_set_elements_L. apply elem_of_fas_of_order. eauto.
Qed.
(* every feedback node is the source of an edge that lies on a cycle *)
Lemma fas_on_cycle c ord u : u ∈ fas_of_order c ord → tc (λ a b, a ∈ fanin c b) u u.
Proof.
  intros (n & i & Hn & Hu & Hfb)%elem_of_fas_of_order. unfold is_fb_edge in Hfb.
  apply andb_true_iff in Hfb as [_ Hd%bool_decide_eq_true]. apply desc_sound in Hd.
  eapply tc_l; [|exact Hd]. apply elem_of_fanin. eauto.
Qed.

(* ---------- 6. structure of the closed form ---------- *)
Section structure.
  Context (c : circuit) (F : list string).
  Let Fs : gset string := list_to_set F.
  Let k := length F.

  Lemma in_unrolled_inv x j : (x, j) ∈ unrolled_nodes c F →
    (∃ n, n ∈ inputs c ∧ x = n ∧ j = mk_node Input (bool_decide (n ∈ outputs c)) ∅) ∨
    (∃ i m info, i ≤ k ∧ c !! m = Some info ∧ x = pre (cn i) m ∧ j = copy_info Fs (cn i) m info) ∨
    (∃ f, f ∈ F ∧ x = pre (cn 0) (aux f) ∧ j = mk_node Input false ∅) ∨
    (∃ i f, S i ≤ k ∧ f ∈ F ∧ x = pre (cn (S i)) (aux f) ∧ j = mk_node Buf false {[pre (cn i) f]}) ∨
    (∃ o, o ∈ outputs c ∧ o ∉ inputs c ∧ x = o ∧ j = mk_node Buf true {[pre (cn k) o]}).
  Proof.
    unfold unrolled_nodes. rewrite !elem_of_app. intros [H|[H|H]].
    - left. unfold top_nodes in H. apply elem_of_list_fmap in H as (n & [= -> ->] & Hn%elem_of_elements). eauto.
    - apply elem_of_list_bind in H as (i & H & Hi%elem_of_seq). apply elem_of_app in H as [H|H].
      + right; left. unfold copy_nodes in H. apply elem_of_list_fmap in H as ([m info] & [= -> ->] & Hm%elem_of_map_to_list).
        exists i, m, info. split; [unfold k; lia|done].
      + unfold aux_nodes in H. apply elem_of_list_fmap in H as (f & [= -> ->] & Hf).
        destruct i as [|i]; [right; right; left; eauto|].
        right; right; right; left. exists i, f. split; [unfold k; lia|done].
    - right; right; right; right. unfold out_nodes in H.
      apply elem_of_list_fmap in H as (o & [= -> ->] & Ho%elem_of_elements). exists o. set_solver.
  Qed.

  Lemma copy_info_not_input p m info : n_ty (copy_info Fs p m info) ≠ Input.
  Proof. unfold copy_info. case_bool_decide; simpl; done. Qed.
  Lemma copy_info_not_out p m info : n_out (copy_info Fs p m info) = false.
  Proof. unfold copy_info. case_bool_decide; done. Qed.

  Context (Hnd : NoDup (unrolled_nodes c F).*1).

  Lemma unrolled_lookup x j : unrolled c F !! x = Some j ↔ (x, j) ∈ unrolled_nodes c F.
  Proof. unfold unrolled. symmetry. by apply elem_of_list_to_map. Qed.

  Theorem unrolled_inputs :
    inputs (unrolled c F) = inputs c ∪ list_to_set ((λ f, pre (cn 0) (aux f)) <$> F).
  Proof.
    apply set_eq. intros x. rewrite elem_of_inputs, elem_of_union, elem_of_list_to_set, elem_of_list_fmap. split.
    - intros (j & Hj%unrolled_lookup & Hty).
      apply in_unrolled_inv in Hj as [(n & Hn & -> & ->)|[(i & m & info & _ & _ & -> & ->)|[(f & Hf & -> & ->)|[(i & f & _ & _ & -> & ->)|(o & _ & _ & -> & ->)]]]].
      + by left.
      + by apply copy_info_not_input in Hty.
      + right. eauto.
      + done.
      + done.
    - intros [Hx|(f & -> & Hf)].
      + eexists. split; [apply unrolled_lookup, in_top; done|done].
      + eexists. split; [apply unrolled_lookup, in_aux0; done|done].
  Qed.

  Theorem unrolled_outputs : outputs (unrolled c F) = outputs c.
  Proof.
    apply set_eq. intros x. rewrite elem_of_outputs. split.
    - intros (j & Hj%unrolled_lookup & Ho).
      apply in_unrolled_inv in Hj as [(n & Hn & -> & ->)|[(i & m & info & _ & _ & -> & ->)|[(f & Hf & -> & ->)|[(i & f & _ & _ & -> & ->)|(o & Hoo & _ & -> & ->)]]]].
      + simpl in Ho. by apply bool_decide_eq_true in Ho.
      + by rewrite copy_info_not_out in Ho.
      + done.
      + done.
      + done.
    - intros Hx. destruct (decide (x ∈ inputs c)) as [Hi|Hi].
      + eexists. split; [apply unrolled_lookup, in_top; done|]. simpl. by apply bool_decide_eq_true.
      + eexists. split; [apply unrolled_lookup, in_out; done|done].
  Qed.
End structure.

(* ---------- 7. the statements used by Properties/C18.v ---------- *)
Lemma pretty_N_0 : pretty 0%N = "0".
Proof. reflexivity. Qed.
Lemma c0aux_eq f : pre (cn 0) (aux f) = "c0_aux_in_" ++ f.
Proof. unfold pre, cn, aux. simpl. rewrite pretty_N_0. reflexivity. Qed.

Theorem unrolled_stable c F v w :
  closed c → free_are_inputs c → names_ok c F → cut_acyclic c F → (∀ f, f ∈ F → f ∈ dom c) →
  consistent c v → consistent (unrolled c F) w → agrees (inputs c) w v →
  (∀ f, f ∈ F → w ("c0_aux_in_" ++ f) = v f) →
  agrees (outputs c) w v.
Proof.
  intros Hcl Hfr Hnm Hcut HF Hv Hw Hin Haux.
  eapply unrolled_stable_aux; eauto.
Qed.

Theorem unrolled_inputs' c F : names_ok c F →
  inputs (unrolled c F) = inputs c ∪ list_to_set ((λ f, "c0_aux_in_" ++ f) <$> F).
Proof.
  intros [Hnd _]. rewrite unrolled_inputs by done.
  assert (E : (λ f, pre (cn 0) (aux f)) <$> F = (λ f, "c0_aux_in_" ++ f) <$> F) by (apply list_fmap_ext; intros; apply c0aux_eq).
  by rewrite E.
Qed.

Lemma names_okb_spec c F : names_okb c F = true → names_ok c F.
Proof.
  unfold names_okb, names_ok. intros [H1%bool_decide_eq_true H2]%andb_true_iff. split; [done|].
  intros f Hf. rewrite forallb_forall in H2. specialize (H2 f). rewrite <- elem_of_list_In in H2.
  specialize (H2 Hf). apply negb_true_iff, bool_decide_eq_false in H2. done.
Qed.
(* C05 clause: an acyclic argument needs no feedback node *)
Lemma cut_acyclic_nil c : acyclic c → cut_acyclic c [].
Proof.
  intros [rank Hr]. exists rank. intros n i' u Hn Hu. unfold cut_nodes in Hn. rewrite lookup_fmap in Hn.
  destruct (c !! n) as [i|] eqn:Hcn; simplify_eq/=. eapply Hr; eauto. set_solver.
Qed.
Theorem unrolled_of_acyclic c v w :
  closed c → free_are_inputs c → names_ok c [] → acyclic c →
  consistent c v → consistent (unrolled c []) w → agrees (inputs c) w v → agrees (outputs c) w v.
Proof.
  intros Hcl Hfr Hnm Hac Hv Hw Hin. eapply (unrolled_stable c []); eauto using cut_acyclic_nil; set_solver.
Qed.

(* ---------- 8. the closed form is acyclic ---------- *)
Section acyclic_closed_form.
  Context (c : circuit) (F : list string) (r : string → nat) (R : nat).
  Let Fs : gset string := list_to_set F.
  Let k := length F.
  Let W := R + 2.
  Context (Hcl : closed c) (HF : ∀ f, f ∈ F → f ∈ dom c) (Hnd : NoDup (unrolled_nodes c F).*1).
  Context (HR : ∀ m, m ∈ dom c → r m ≤ R).
  Context (Hr : ∀ n info g, c !! n = Some info → g ∈ n_fi info → g ∉ Fs → r g < r n).

  Definition ranked : list (string * nat) :=
    (((λ n, (n, 0)) <$> elements (inputs c)) ++
     (i ← seq 0 (S k); ((λ p : string * ninfo, (pre (cn i) p.1, i * W + 1 + r p.1)) <$> map_to_list c) ++ ((λ f, (pre (cn i) (aux f), i * W)) <$> F)) ++
     ((λ o, (o, S k * W)) <$> elements (outputs c ∖ inputs c)))%list.
  Lemma ranked_keys : ranked.*1 = (unrolled_nodes c F).*1.
  Proof.
    unfold ranked, unrolled_nodes. rewrite !fmap_app.
    assert (E1 : ((λ n : string, (n, 0)) <$> elements (inputs c)).*1 = (top_nodes c).*1).
    { unfold top_nodes. by rewrite <- !list_fmap_compose. }
    assert (E3 : ((λ o : string, (o, S k * W)) <$> elements (outputs c ∖ inputs c)).*1 = (out_nodes c (length F)).*1).
    { unfold out_nodes. by rewrite <- !list_fmap_compose. }
    assert (E2 : ∀ l : list nat,
      (i ← l; (((λ p : string * ninfo, (pre (cn i) p.1, i * W + 1 + r p.1)) <$> map_to_list c) ++ ((λ f, (pre (cn i) (aux f), i * W)) <$> F))%list).*1 =
      (i ← l; (copy_nodes c (list_to_set F) i ++ aux_nodes F i)%list).*1).
    { induction l as [|i l IH]; [done|]. rewrite !bind_cons, !fmap_app, IH. unfold copy_nodes, aux_nodes.
      by rewrite <- !list_fmap_compose. }
    fold k. by rewrite E1, E2, E3.
  Qed.
  Definition rk (x : string) : nat := default 0 ((list_to_map ranked : gmap string nat) !! x).
  Lemma rk_of x q : (x, q) ∈ ranked → rk x = q.
  Proof.
    intros H. unfold rk. assert ((list_to_map ranked : gmap string nat) !! x = Some q) as ->; [|done].
    apply elem_of_list_to_map; [|done]. by rewrite ranked_keys.
  Qed.
  Lemma rk_top n : n ∈ inputs c → rk n = 0.
  Proof. intros Hn. apply rk_of. unfold ranked. apply elem_of_app. left. apply elem_of_list_fmap. exists n. split; [done|by apply elem_of_elements]. Qed.
  Lemma rk_copy i m : i ≤ k → m ∈ dom c → rk (pre (cn i) m) = i * W + 1 + r m.
  Proof.
    intros Hi [info Hm]%elem_of_dom. apply rk_of. unfold ranked. apply elem_of_app. right. apply elem_of_app. left.
    apply elem_of_list_bind. exists i. split; [|apply elem_of_seq; lia].
    apply elem_of_app. left. apply elem_of_list_fmap. exists (m, info). split; [done|by apply elem_of_map_to_list].
  Qed.
  Lemma rk_aux i f : i ≤ k → f ∈ F → rk (pre (cn i) (aux f)) = i * W.
  Proof.
    intros Hi Hf. apply rk_of. unfold ranked. apply elem_of_app. right. apply elem_of_app. left.
    apply elem_of_list_bind. exists i. split; [|apply elem_of_seq; lia].
    apply elem_of_app. right. apply elem_of_list_fmap. by exists f.
  Qed.
  Lemma rk_out o : o ∈ outputs c → o ∉ inputs c → rk o = S k * W.
  Proof.
    intros Ho Hi. apply rk_of. unfold ranked. apply elem_of_app. right. apply elem_of_app. right.
    apply elem_of_list_fmap. exists o. split; [done|]. apply elem_of_elements. set_solver.
  Qed.

  Lemma unrolled_acyclic_aux : acyclic (unrolled c F).
  Proof.
    exists rk. intros x j g Hx Hg. apply unrolled_lookup in Hx; [|done].
    assert (HW : W = R + 2) by reflexivity. clearbody W.
    apply in_unrolled_inv in Hx as [(n & Hn & -> & ->)|[(i & m & info & Hi & Hm & -> & ->)|[(f & Hf & -> & ->)|[(i & f & Hi & Hf & -> & ->)|(o & Ho & Hoi & -> & ->)]]]].
    - simpl in Hg. set_solver.
    - assert (Hmd : m ∈ dom c) by (apply elem_of_dom; eauto).
      rewrite (rk_copy i m) by done. unfold copy_info in Hg. case_bool_decide as Hty; simpl in Hg.
      + apply elem_of_singleton in Hg as ->. rewrite rk_top; [lia|]. apply elem_of_inputs. eauto.
      + apply elem_of_map in Hg as (g0 & -> & Hg0). assert (g0 ∈ dom c) by (eapply Hcl; eauto).
        unfold subst. case_bool_decide as HgF.
        * assert (g0 ∈ F) as HgF' by (unfold Fs in HgF; set_solver). rewrite (rk_aux i g0) by done. lia.
        * rewrite rk_copy by done. pose proof (Hr m info g0 Hm Hg0 HgF). lia.
    - simpl in Hg. set_solver.
    - simpl in Hg. apply elem_of_singleton in Hg as ->.
      rewrite (rk_aux (S i) f) by done. rewrite (rk_copy i f); [|lia|by apply HF]. pose proof (HR f (HF f Hf)). lia.
    - simpl in Hg. apply elem_of_singleton in Hg as ->.
      assert (o ∈ dom c) by (apply elem_of_outputs in Ho as (i' & Hi' & _); apply elem_of_dom; eauto).
      rewrite (rk_out o) by done. rewrite (rk_copy (length F) o); [|unfold k; lia|done]. pose proof (HR o H). fold k. lia.
  Qed.
End acyclic_closed_form.

Theorem unrolled_acyclic c F : closed c → NoDup (unrolled_nodes c F).*1 → (∀ f, f ∈ F → f ∈ dom c) →
  cut_acyclic c F → acyclic (unrolled c F).
Proof.
  intros Hcl Hnd HF [r Hr].
  assert (HB : ∃ B, ∀ n, n ∈ dom c → r n ≤ B).
  { clear. induction c as [|n i m Hn IH] using map_ind.
    - exists 0. set_solver.
    - destruct IH as [B HB]. exists (max B (r n)). intros x. rewrite dom_insert, elem_of_union, elem_of_singleton.
      intros [->|Hx]; [lia|]. specialize (HB x Hx). lia. }
  destruct HB as [R HR].
  apply (unrolled_acyclic_aux c F r R Hcl HF Hnd HR).
  intros n info g Hn Hg HgF. eapply (Hr n (upd_fi (λ s, s ∖ list_to_set F) info) g).
  - unfold cut_nodes. by rewrite lookup_fmap, Hn.
  - simpl. set_solver.
Qed.
