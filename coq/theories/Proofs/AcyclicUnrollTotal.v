(* C18 totality: inside the guards every step of the API-level model is accepted, so `acyclic_unroll C F` returns. *)
From stdpp Require Import strings gmap sets fin_sets pretty.
From CG Require Import Proofs.UnrollSteps Proofs.ComposeProofs Proofs.UnrollTotal Proofs.UnrollLint Proofs.AcyclicbComplete.
From CG Require Import Base.Compose Base.Oracle Model.Compose6 Model.AcyclicUnroll Proofs.AcyclicUnrollProofs Proofs.LintProofs Proofs.AcyclicUnrollLink.
Open Scope string_scope.

Definition valid_names (c : circuit) : Prop := ∀ n, n ∈ dom c → n ≠ "" ∧ starts_digit n = false.
Definition plain (c : circuit) : Prop := ∀ n i, c !! n = Some i → plain_ty (n_ty i).

Lemma input_supported : Input ∈ Gen_types.supported_types. Proof. unfold Gen_types.supported_types. set_solver. Qed.
Lemma buf_supported : Buf ∈ Gen_types.supported_types. Proof. unfold Gen_types.supported_types. set_solver. Qed.
Lemma input_addable : Input ∈ addable_types. Proof. unfold addable_types. set_solver. Qed.

(* ---------- A ---------- *)
Lemma add_inputs_total l : ∀ g, NoDup l → (∀ n, n ∈ l → n ∉ dom g ∧ n ≠ "" ∧ starts_digit n = false) →
  ∃ g', add_inputs g l = (g', Done).
Proof.
  unfold add_inputs. induction l as [|n l IH]; intros g Hnd H; simpl; [eauto|].
  apply NoDup_cons in Hnd as [Hnl Hnd]. destruct (H n) as (Hd & Hne & Hdig); [by left|].
  unfold af_default. rewrite (add_g_succeeds g n Input [] [] false (<[n:=mk_node Input false ∅]> g) (<[n:=mk_node Input false ∅]> g)); try done; try apply input_supported; try apply connect_nil_r.
  apply IH; [done|]. intros x Hx. destruct (H x) as (Hxd & ? & ?); [by right|]. split; [|done].
  rewrite dom_insert. intros [->%elem_of_singleton|?]%elem_of_union; done.
Qed.

(* ---------- B ---------- *)
Lemma aux_valid f : aux f ≠ "" ∧ starts_digit (aux f) = false.
Proof. unfold aux. simpl. done. Qed.
Lemma aux_inj f g : aux f = aux g → f = g.
Proof. unfold aux. intros H. by simplify_eq. Qed.

Lemma cut_fold_total c (Hcl : closed c) (L : list string) :
  NoDup L → (∀ f, f ∈ L → f ∈ dom c) → (∀ l, l ∈ L → aux l ∉ dom c) →
  (∀ m i, c !! m = Some i → wf_node i) →
  ∃ g, foldl (cut_step c) (c, Done) L = (g, Done).
Proof.
  intros Hnd HL Haux Hwf. induction L as [|f L IH] using rev_ind; [simpl; eauto|].
  apply NoDup_app in Hnd as (Hnd & HfL & _).
  destruct IH as [g1 E1]; [done|intros; apply HL; set_solver|intros; apply Haux; set_solver|].
  rewrite foldl_app, E1. simpl.
  destruct (cut_fold_done c Hcl L g1 E1 Hnd) as [I1 _]; [intros; apply HL; set_solver|].
  assert (Hfd : f ∈ dom c) by (apply HL; set_solver).
  assert (HfnL : f ∉ L) by (intros Hin; apply (HfL f Hin); set_solver).
  assert (Hauxf : aux f ∉ dom c) by (apply Haux; set_solver).
  set (fo := elements (fanout c f)).
  assert (Hfo : ∀ m, m ∈ fo ↔ ∃ i, c !! m = Some i ∧ f ∈ n_fi i).
  { intros m. unfold fo. rewrite elem_of_elements. apply elem_of_fanout. }
  set (g1' := disconnect_g g1 [f] fo).
  assert (Hdis : ∀ m, g1' !! m = if decide (m ∈ fo) then upd_fi (λ s, s ∖ {[f]}) <$> g1 !! m else g1 !! m)
    by (intros m; apply disconnect_one_lookup).
  assert (Hnone : g1' !! aux f = None).
  { rewrite Hdis, !I1, !(decide_False (P := aux f ∈ dom c)) by done.
    rewrite !(decide_False (P := aux f ∈ aux <$> L)); [by destruct (decide _)|].
    intros (l & E & Hl)%elem_of_list_fmap. apply aux_inj in E. by subst. }
  set (g2 := <[aux f := mk_node Buf false ∅]> g1').
  destruct (connect_targets_done g2 (aux f) fo) as [c2 Hc2].
  { unfold g2. rewrite dom_insert. set_solver. }
  { exists Buf. split; [unfold ty, g2; by rewrite lookup_insert|]. unfold plain_ty. done. }
  { intros v Hv. pose proof Hv as (i & Hi & Hfi)%Hfo.
    assert (v ≠ aux f) by (intros ->; apply Hauxf; apply elem_of_dom; eauto).
    unfold g2. rewrite lookup_insert_ne by done. rewrite Hdis, decide_True, I1, decide_True, Hi by (try apply elem_of_dom; eauto).
    simpl. eexists. split; [done|]. simpl. destruct (Hwf v i Hi) as (_ & _ & H3 & H4 & _). split.
    - intros Hnf. specialize (H3 Hnf). set_solver.
    - intros Hs. specialize (H4 Hs). apply set_eq. intros x. split; [|set_solver].
      intros [(y & -> & Hy)%elem_of_map Hx]%elem_of_difference. exfalso. apply Hx.
      rewrite (H4 y f Hy Hfi). unfold subst. rewrite bool_decide_eq_false_2; [set_solver|].
      intros Hin%elem_of_list_to_set. done. }
  unfold af_default.
  rewrite (add_g_succeeds g1' (aux f) Buf [] fo false c2 c2); try done; try apply buf_supported; try apply aux_valid.
  - eauto.
  - by apply not_elem_of_dom.
Qed.

Lemma cut_circuit_total c F : closed c → NoDup F → (∀ f, f ∈ F → f ∈ dom c) → (∀ l, l ∈ F → aux l ∉ dom c) →
  (∀ m i, c !! m = Some i → wf_node i) → ∃ gcut, cut_circuit c F = (gcut, Done).
Proof.
  intros Hcl Hnd HF Haux Hwf. unfold cut_circuit.
  destruct (cut_fold_total c Hcl F Hnd HF Haux Hwf) as [g E]. rewrite E.
  destruct (cut_fold_done c Hcl F g E Hnd HF) as [I1 _].
  apply set_output_total. intros o (i & Hi & _)%elem_of_elements%elem_of_outputs.
  apply elem_of_dom. rewrite I1, decide_True, Hi by (apply elem_of_dom; eauto). simpl. eauto.
Qed.

(* ---------- C ---------- *)
Section copies_total.
  Context (C : Circuit) (F : list string) (gcut : circuit) (nm : string).
  Let c := c_g C.
  Let Fs : gset string := list_to_set F.
  Let CUT := with_g C gcut.
  Let k := length F.
  Context (Hbbs : c_bbs C = ∅).
  Context (Hgcut : ∀ m, gcut !! m = if decide (m ∈ dom c) then cut_info Fs <$> c !! m
                                    else if decide (m ∈ aux <$> F) then Some (mk_node Buf false ∅) else None).
  Context (Hauxc : ∀ l, l ∈ F → aux l ∉ dom c) (HFnd : NoDup F) (HFd : ∀ f, f ∈ F → f ∈ dom c).
  Context (Hin0 : ∀ m info, c !! m = Some info → n_ty info = Input → n_fi info = ∅).
  Context (spl : list string) (Hspl : ∀ n, n ∈ spl ↔ n ∈ inputs c) (Hsplnd : NoDup spl).
  Context (Hplain : plain c).
  (* separation of the generated names (from the duplicate-freeness of the key list) *)
  Context (HS1 : ∀ n i m, n ∈ inputs c → i ≤ k → (m ∈ dom c ∨ m ∈ aux <$> F) → n ≠ pre (cn i) m).
  Context (HS2 : ∀ i i' m m', i ≠ i' → i ≤ k → i' ≤ k → (m ∈ dom c ∨ m ∈ aux <$> F) → (m' ∈ dom c ∨ m' ∈ aux <$> F) → pre (cn i) m ≠ pre (cn i') m').

  Lemma copy_step_total j A : j ≤ k → copy_inv C F nm j A →
    ∃ A', copy_step CUT spl F (A, Done) j = (A', Done).
  Proof.
    intros Hj Hinv. pose proof Hinv as [Hn Hb Htop Hcopy Haux Hdom]. unfold copy_step.
    assert (Hgd : ∀ m, m ∈ dom gcut ↔ m ∈ dom c ∨ m ∈ aux <$> F) by (apply (gcut_dom C F gcut Hgcut)).
    assert (Hfresh : ∀ m, m ∈ dom gcut → pre (cn j) m ∉ dom (c_g A)).
    { intros m Hm%Hgd Hin. apply Hdom in Hin as [Hin|(i & m' & Hi & E & Hm')].
      - by apply (HS1 _ j m Hin).
      - apply (HS2 j i m m'); try done; lia. }
    set (S0 := c_g A ∪ rename (pre (cn j)) (strip_io gcut)).
    assert (HS_old : ∀ x, x ∈ dom (c_g A) → S0 !! x = c_g A !! x).
    { intros x [i Hi]%elem_of_dom. unfold S0. rewrite Hi. by apply lookup_union_Some_l. }
    assert (HS_new : ∀ m, m ∈ dom gcut → S0 !! pre (cn j) m = ren_info (pre (cn j)) <$> (strip_info <$> gcut !! m)).
    { intros m Hm. unfold S0. rewrite lookup_union_r by (apply not_elem_of_dom; by apply Hfresh).
      rewrite lookup_rename by apply _. unfold strip_io. by rewrite lookup_fmap. }
    (* the connection fold *)
    destruct (conn_fold_inputs_total CUT (cn j) (λ n, n) spl S0) as [g1 Hfold]; [done| | | |].
    { intros n Hn'. apply (gcut_inputs C F gcut Hgcut). by apply Hspl. }
    { intros n Hn'%Hspl. exists Input. split; [|done]. unfold ty. rewrite HS_old by (apply elem_of_dom; rewrite Htop by done; eauto).
      by rewrite Htop. }
    { intros n Hn'%Hspl. pose proof Hn' as (info & Hi & Hty)%elem_of_inputs. fold c in Hi.
      assert (n ∈ dom c) by (apply elem_of_dom; eauto).
      rewrite HS_new by (apply Hgd; by left). rewrite Hgcut, decide_True, Hi by done. simpl. eexists. split; [done|].
      unfold drivable. simpl. rewrite Hty, bool_decide_eq_true_2 by done. split; [unfold doc_no_fanin; set_solver|].
      intros _. rewrite (Hin0 n info Hi Hty). by rewrite !set_map_empty. }
    destruct (add_subcircuit_total A CUT (cn j) ((λ n, (n, [n])) <$> spl) g1) as [A1 E]; [done|exact Hfresh| |exact Hfold|].
    { intros kv (n & -> & Hn')%elem_of_list_fmap. left. simpl. apply (gcut_inputs C F gcut Hgcut). by apply Hspl. }
    rewrite E.
    destruct (splice_facts C F gcut nm Hbbs Hgcut Hauxc Hin0 spl Hspl j A A1 Hinv E) as (_ & _ & Hg1_old & Hg1_copy & Hg1_aux & _ & _).
    destruct j as [|j'].
    - destruct (set_type_total (c_g A1) ((λ f, pre (cn 0) (aux f)) <$> F) Input) as [g2 E2]; [apply input_addable| |rewrite E2; eauto].
      intros x (f & -> & Hf)%elem_of_list_fmap. apply elem_of_dom. rewrite Hg1_aux by done. eauto.
    - destruct (connect_fold_total (λ f, pre (cn j') f) (λ f, pre (cn (S j')) (aux f)) F (c_g A1)) as [g2 E2]; [done| | | |rewrite E2; eauto].
      + intros a b _ _ E'. apply (inj (pre (cn (S j')))) in E'. by apply aux_inj.
      + intros f Hf. pose proof (HFd f Hf) as [info Hi]%elem_of_dom.
        assert (pre (cn j') f ∈ dom (c_g A)) as Hd by (apply elem_of_dom; rewrite (Hcopy j' f info) by (lia || done); eauto).
        unfold plain_at, ty. rewrite Hg1_old by done. rewrite (Hcopy j' f info) by (lia || done). simpl.
        unfold copy_info. case_bool_decide; simpl; eexists; (split; [done|]); [done|by apply (Hplain f info)].
      + intros f Hf. rewrite Hg1_aux by done. eexists. split; [done|]. unfold drivable. simpl. split; [unfold doc_no_fanin; set_solver|done].
  Qed.
End copies_total.

Lemma copies_total (C : Circuit) (F : list string) (gcut : circuit) (nm : string) (spl : list string)
    (Hbbs : c_bbs C = ∅)
    (Hgcut : ∀ m, gcut !! m = if decide (m ∈ dom (c_g C)) then cut_info (list_to_set F) <$> c_g C !! m
                                else if decide (m ∈ aux <$> F) then Some (mk_node Buf false ∅) else None)
    (Hauxc : ∀ l, l ∈ F → aux l ∉ dom (c_g C)) (HFnd : NoDup F) (HFd : ∀ f, f ∈ F → f ∈ dom (c_g C))
    (Hin0 : ∀ m info, c_g C !! m = Some info → n_ty info = Input → n_fi info = ∅)
    (Hspl : ∀ n, n ∈ spl ↔ n ∈ inputs (c_g C)) (Hsplnd : NoDup spl) (Hplain : plain (c_g C))
    (HS1 : ∀ n i m, n ∈ inputs (c_g C) → i ≤ length F → (m ∈ dom (c_g C) ∨ m ∈ aux <$> F) → n ≠ pre (cn i) m)
    (HS2 : ∀ i i' m m', i ≠ i' → i ≤ length F → i' ≤ length F → (m ∈ dom (c_g C) ∨ m ∈ aux <$> F) →
           (m' ∈ dom (c_g C) ∨ m' ∈ aux <$> F) → pre (cn i) m ≠ pre (cn i') m') len : ∀ a A,
  a + len ≤ S (length F) → copy_inv C F nm a A →
  ∃ A', foldl (copy_step (with_g C gcut) spl F) (A, Done) (seq a len) = (A', Done).
Proof.
  induction len as [|len IH]; intros a A Hle Hinv; [simpl; eauto|].
  change (seq a (S len)) with (a :: seq (S a) len). cbn [foldl].
  destruct (copy_step_total C F gcut nm Hbbs Hgcut Hauxc HFnd HFd Hin0 spl Hspl Hsplnd Hplain HS1 HS2 a A) as [A1 E]; [lia|done|].
  rewrite E. apply IH; [lia|]. eapply copy_step_inv; eauto.
Qed.

(* ---------- D ---------- *)
Lemma plain_at_insert_ne g x i u : u ≠ x → plain_at g u → plain_at (<[x := i]> g) u.
Proof. intros Hne (t & Ht & Hp). exists t. split; [|done]. unfold ty in *. by rewrite lookup_insert_ne. Qed.
Lemma plain_at_set_output g ns b g' u : set_output_g g ns b = (g', Done) → plain_at g u → plain_at g' u.
Proof.
  intros [H _]%set_output_done (t & Ht & Hp). exists t. split; [|done]. unfold ty in *. rewrite H.
  destruct (decide _); [|done]. by destruct (g !! u).
Qed.

Lemma out_fold_total (sp : gset string) last (P : list string) : ∀ g,
  NoDup P → (∀ o, o ∈ P → o ∈ sp → o ∈ dom g) →
  (∀ o, o ∈ P → o ∉ sp → o ∉ dom g ∧ o ≠ "" ∧ starts_digit o = false ∧ plain_at g (pre last o)) →
  ∃ g', foldl (out_step sp last) (g, Done) P = (g', Done).
Proof.
  induction P as [|o P IH]; intros g Hnd H1 H2; simpl; [eauto|].
  apply NoDup_cons in Hnd as [HoP Hnd]. case_bool_decide as Hsp.
  - destruct (set_output_total g [o] true) as [g1 E]; [intros x ->%elem_of_list_singleton; apply H1; [by left|done]|].
    rewrite E. pose proof (set_output_done _ _ _ _ E) as [Hl _].
    assert (Hd : dom g1 = dom g).
    { apply set_eq. intros x. rewrite !elem_of_dom, Hl. destruct (decide _); [|done]. by rewrite fmap_is_Some. }
    apply IH; [done| |].
    + intros o' Ho' Hs. rewrite Hd. apply H1; [by right|done].
    + intros o' Ho' Hs. destruct (H2 o') as (? & ? & ? & ?); [by right|done|]. rewrite Hd. repeat split; try done.
      by eapply plain_at_set_output.
  - destruct (H2 o) as (Hd & Hne & Hdig & Hpl); [by left|done|].
    assert (Hneq : pre last o ≠ o) by (intros E; apply Hd; rewrite <- E; by apply plain_at_dom).
    destruct (connect_one_done (<[o := mk_node Buf true ∅]> g) (pre last o) o) as [g1 E1].
    { rewrite dom_insert. apply elem_of_union. right. by apply plain_at_dom. }
    { by apply plain_at_insert_ne. }
    { rewrite lookup_insert. eexists. split; [done|]. unfold drivable. simpl. split; [unfold doc_no_fanin; set_solver|done]. }
    unfold af_output.
    rewrite (add_g_succeeds g o Buf [pre last o] [] true (<[o := mk_node Buf true ∅]> g) g1); try done; try apply buf_supported; try apply connect_nil_r.
    assert (Hdg1 : dom g1 = {[o]} ∪ dom g) by (rewrite (connect_done_dom _ _ _ _ E1); by rewrite dom_insert_L).
    apply IH; [done| |].
    + intros o' Ho' Hs. rewrite Hdg1. apply elem_of_union. right. apply H1; [by right|done].
    + intros o' Ho' Hs. destruct (H2 o') as (? & ? & ? & ?); [by right|done|]. repeat split; try done.
      * rewrite Hdg1. intros [->%elem_of_singleton|?]%elem_of_union; done.
      * eapply plain_at_connect; [exact E1|]. apply plain_at_insert_ne; [|done]. intros E. apply Hd. rewrite <- E. by apply plain_at_dom.
Qed.

(* ---------- separation of the generated names, from the duplicate-freeness of the key list ---------- *)
Section keys.
  Context (c : circuit) (F : list string).
  Let k := length F.
  Let blk (i : nat) : list string := ((copy_nodes c (list_to_set F) i ++ aux_nodes F i)%list).*1.
  Lemma keys_struct : (unrolled_nodes c F).*1 = ((top_nodes c).*1 ++ (seq 0 (S k) ≫= blk) ++ (out_nodes c k).*1)%list.
  Proof.
    unfold unrolled_nodes. rewrite !fmap_app. f_equal. f_equal. unfold blk. fold k.
    induction (seq 0 (S k)) as [|i l IH]; [done|]. rewrite !bind_cons, fmap_app, IH. done.
  Qed.
  Lemma in_top_keys n : n ∈ inputs c → n ∈ (top_nodes c).*1.
  Proof. intros Hn. unfold top_nodes. rewrite <- list_fmap_compose. apply elem_of_list_fmap. exists n. split; [done|by apply elem_of_elements]. Qed.
  Lemma in_blk i m : (m ∈ dom c ∨ m ∈ aux <$> F) → pre (cn i) m ∈ blk i.
  Proof.
    unfold blk. rewrite fmap_app, elem_of_app. intros [[info Hm]%elem_of_dom|(f & -> & Hf)%elem_of_list_fmap]; [left|right].
    - unfold copy_nodes. rewrite <- list_fmap_compose. apply elem_of_list_fmap. exists (m, info). split; [done|by apply elem_of_map_to_list].
    - unfold aux_nodes. rewrite <- list_fmap_compose. apply elem_of_list_fmap. by exists f.
  Qed.
  Lemma in_out_keys o : o ∈ outputs c → o ∉ inputs c → o ∈ (out_nodes c k).*1.
  Proof. intros Ho Hi. unfold out_nodes. rewrite <- list_fmap_compose. apply elem_of_list_fmap. exists o. split; [done|]. apply elem_of_elements. set_solver. Qed.

  Context (Hnd : NoDup (unrolled_nodes c F).*1).
  Lemma sep_top n i m : n ∈ inputs c → i ≤ k → (m ∈ dom c ∨ m ∈ aux <$> F) → n ≠ pre (cn i) m.
  Proof.
    intros Hn Hi Hm E. rewrite keys_struct in Hnd. apply NoDup_app in Hnd as (_ & Hdis & _).
    apply (Hdis n (in_top_keys n Hn)). apply elem_of_app. left. apply elem_of_list_bind. exists i. split; [rewrite E; by apply in_blk|].
    apply elem_of_seq. lia.
  Qed.
  Lemma sep_blk i i' m m' : i ≠ i' → i ≤ k → i' ≤ k → (m ∈ dom c ∨ m ∈ aux <$> F) → (m' ∈ dom c ∨ m' ∈ aux <$> F) →
    pre (cn i) m ≠ pre (cn i') m'.
  Proof.
    intros Hne Hi Hi' Hm Hm' E. rewrite keys_struct in Hnd. apply NoDup_app in Hnd as (_ & _ & Hnd').
    apply NoDup_app in Hnd' as (Hb & _ & _).
    apply (NoDup_bind_sep blk (seq 0 (S k)) Hb i i' i i' (pre (cn i) m) Hne); [apply lookup_seq_lt; lia|apply lookup_seq_lt; lia|by apply in_blk|].
    rewrite E. by apply in_blk.
  Qed.
  Lemma sep_out o i m : o ∈ outputs c → o ∉ inputs c → i ≤ k → (m ∈ dom c ∨ m ∈ aux <$> F) → o ≠ pre (cn i) m.
  Proof.
    intros Ho Hoi Hi Hm E. rewrite keys_struct in Hnd. apply NoDup_app in Hnd as (_ & _ & Hnd').
    apply NoDup_app in Hnd' as (_ & Hdis & _).
    apply (Hdis o); [|by apply in_out_keys]. apply elem_of_list_bind. exists i. split; [rewrite E; by apply in_blk|]. apply elem_of_seq. lia.
  Qed.
End keys.

(* the closed form is a closed graph *)
Lemma unrolled_closed c F : closed c → NoDup (unrolled_nodes c F).*1 → (∀ f, f ∈ F → f ∈ dom c) → closed (unrolled c F).
Proof.
  intros Hcl Hnd HF x j g Hx Hg. apply (unrolled_lookup c F Hnd) in Hx.
  assert (Hkey : ∀ y j', (y, j') ∈ unrolled_nodes c F → y ∈ dom (unrolled c F)).
  { intros y j' Hy. apply elem_of_dom. exists j'. by apply (unrolled_lookup c F Hnd). }
  apply in_unrolled_inv in Hx as [(n & Hn & -> & ->)|[(i & m & info & Hi & Hm & -> & ->)|[(f & Hf & -> & ->)|[(i & f & Hi & Hf & -> & ->)|(o & Ho & Hoi & -> & ->)]]]].
  - simpl in Hg. set_solver.
  - unfold copy_info in Hg. case_bool_decide as Hty; simpl in Hg.
    + apply elem_of_singleton in Hg as ->. eapply Hkey, in_top. apply elem_of_inputs. eauto.
    + apply elem_of_map in Hg as (g0 & -> & Hg0). assert (g0 ∈ dom c) as [i0 Hi0]%elem_of_dom by (eapply Hcl; eauto).
      unfold subst. case_bool_decide as HgF.
      * apply elem_of_list_to_set in HgF. destruct i as [|i]; [eapply Hkey, in_aux0; done|eapply Hkey, (in_auxS c F i g0); done].
      * eapply Hkey, (in_copy c F i g0 i0); done.
  - simpl in Hg. set_solver.
  - simpl in Hg. apply elem_of_singleton in Hg as ->. pose proof (HF f Hf) as [i0 Hi0]%elem_of_dom.
    eapply Hkey, (in_copy c F i f i0); [lia|done].
  - simpl in Hg. apply elem_of_singleton in Hg as ->.
    assert (o ∈ dom c) as [i0 Hi0]%elem_of_dom by (apply elem_of_outputs in Ho as (i' & Hi' & _); apply elem_of_dom; eauto).
    eapply Hkey, (in_copy c F (length F) o i0); [lia|done].
Qed.

(* ---------- the model returns ---------- *)
Theorem acyclic_unroll_total C F :
  lint_clean C → c_bbs C = ∅ → closed (c_g C) → plain (c_g C) → valid_names (c_g C) → (∀ n, n ∉ fanin (c_g C) n) →
  names_ok (c_g C) F → NoDup F → (∀ f, f ∈ F → f ∈ dom (c_g C)) → cut_acyclic (c_g C) F →
  ∃ A, acyclic_unroll C F = Ok A.
Proof.
  intros Hl Hb Hcl Hplain Hvalid Hself [Hnd Hauxc] HF1 HFd Hcut.
  set (c := c_g C) in *.
  assert (Hsp : startpoints c = inputs c).
  { apply set_eq. intros x. unfold startpoints. rewrite elem_of_of_type, elem_of_inputs. split.
    - intros (i & Hi & Ht). exists i. split; [done|]. destruct (Hplain x i Hi) as (_ & Hbo & _).
      unfold is_ty in Ht. apply orb_true_iff in Ht as [Ht%bool_decide_eq_true|Ht%bool_decide_eq_true]; [done|by symmetry in Ht].
    - intros (i & Hi & Ht). exists i. split; [done|]. rewrite Ht. reflexivity. }
  assert (Hwf : ∀ m i, c !! m = Some i → wf_node i).
  { intros m i Hi. apply (lint_clean_node C m i Hl Hb Hi). by destruct (Hplain m i Hi) as (_ & ? & _). }
  pose proof (lint_clean_inputs_undriven C Hl) as Hin0. fold c in Hin0.
  unfold acyclic_unroll. fold c. rewrite (bool_decide_eq_true_2 _ Hb). cbn [negb].
  assert (has_self_loop c = false) as ->.
  { apply not_true_iff_false. unfold has_self_loop. intros ([n i] & Hin%elem_of_list_In%elem_of_map_to_list & Hb'%bool_decide_eq_true)%existsb_exists.
    simpl in Hb'. apply (Hself n). apply elem_of_fanin. eauto. }
  rewrite (bool_decide_eq_true_2 _ HF1). cbn [negb orb].
  assert (forallb (λ f, bool_decide (f ∈ dom c)) F = true) as ->.
  { apply forallb_forall. intros f Hf%elem_of_list_In. apply bool_decide_eq_true. by apply HFd. }
  cbn [negb]. rewrite Hsp. unfold lift.
  set (spl := elements (inputs c)).
  assert (Hspl : ∀ n, n ∈ spl ↔ n ∈ inputs c) by (intros; apply elem_of_elements).
  assert (Hin_dom : ∀ n, n ∈ inputs c → n ∈ dom c) by (intros n (i & Hi & _)%elem_of_inputs; apply elem_of_dom; eauto).
  (* A *)
  destruct (add_inputs_total spl ∅) as [g0 E0]; [apply NoDup_elements| |].
  { intros n Hn%Hspl. split; [by rewrite dom_empty|]. by apply Hvalid, Hin_dom. }
  rewrite E0.
  (* B *)
  destruct (cut_circuit_total c F Hcl HF1 HFd Hauxc Hwf) as [gcut Ecut]. rewrite Ecut.
  pose proof (cut_circuit_done c F gcut Hcl HF1 HFd Ecut) as [Hgcut _].
  (* C *)
  pose proof E0 as (I1 & I2 & _)%add_inputs_done.
  assert (Hinv0 : copy_inv C F ("acyc_" ++ c_name C) 0 {| c_name := "acyc_" ++ c_name C; c_g := g0; c_bbs := ∅ |}).
  { split; simpl; try done.
    - intros n Hn. apply I1. by apply Hspl.
    - intros; lia.
    - intros; lia.
    - intros x Hx. left. apply Hspl. destruct (decide (x ∈ spl)); [done|]. exfalso.
      apply elem_of_dom in Hx as [i Hi]. rewrite I2 in Hi by done. by rewrite lookup_empty in Hi. }
  destruct (copies_total C F gcut ("acyc_" ++ c_name C) spl Hb Hgcut Hauxc HF1 HFd Hin0 Hspl (NoDup_elements _) Hplain
              (sep_top c F Hnd) (sep_blk c F Hnd) (S (length F)) 0 _ (le_n _) Hinv0) as [A1 Ecp].
  rewrite Ecp.
  pose proof (copies_fold C F gcut _ spl Hb Hgcut Hauxc Hin0 Hspl (S (length F)) 0 _ _ Hinv0 Ecp) as Hinv1. simpl in Hinv1.
  destruct Hinv1 as [Hn1 Hb1 Htop Hcopy Haux Hdom].
  (* D *)
  destruct (out_fold_total (inputs c) (cn (length F)) (elements (outputs c)) (c_g A1)) as [g2 Eout]; [apply NoDup_elements| | |].
  { intros o _ Ho. apply elem_of_dom. rewrite Htop by done. eauto. }
  { intros o (i & Hi & Hoo)%elem_of_elements%elem_of_outputs Hns.
    assert (Hod : o ∈ dom c) by (apply elem_of_dom; eauto).
    assert (Hoo' : o ∈ outputs c) by (apply elem_of_outputs; eauto).
    split; [|split; [by apply Hvalid|split; [by apply Hvalid|]]].
    - intros Hin. apply Hdom in Hin as [?|(i' & m & Hi' & E & Hm)]; [done|]. apply (sep_out c F Hnd o i' m); try done. lia.
    - unfold plain_at, ty. rewrite (Hcopy (length F) o i) by (lia || done). simpl. unfold copy_info.
      case_bool_decide; simpl; eexists; (split; [done|]); [done|by apply (Hplain o i)]. }
  rewrite Eout.
  (* E *)
  pose proof (steps_closed_form C F g0 gcut A1 g2 Hcl Hin0 Hnd HF1 HFd Hb E0 Ecut Ecp Eout) as Hcf. fold c in Hcf.
  assert (Hg2 : g2 = unrolled c F) by (apply (f_equal c_g) in Hcf; exact Hcf).
  rewrite Hcf. rewrite (unrolled_lint_clean C F _ Hl Hb Hsp HFd Hnd).
  rewrite Hg2, (acyclicb_complete (unrolled c F)); [eauto| |].
  - by apply unrolled_closed.
  - by apply unrolled_acyclic.
Qed.

(* ---------- end to end: for every node order, the code's feedback choice makes the model return a correct result ---------- *)
Lemma fas_in_dom c ord f : closed c → f ∈ fas_of_order c ord → f ∈ dom c.
Proof. intros Hcl (n & i & Hn & Hf & _)%elem_of_fas_of_order. eapply Hcl; eauto. Qed.

Theorem acyclic_unroll_correct C F :
  lint_clean C → c_bbs C = ∅ → closed (c_g C) → plain (c_g C) → valid_names (c_g C) → (∀ n, n ∉ fanin (c_g C) n) →
  free_are_inputs (c_g C) → names_ok (c_g C) F → NoDup F → (∀ f, f ∈ F → f ∈ dom (c_g C)) → cut_acyclic (c_g C) F →
  ∃ A, acyclic_unroll C F = Ok A ∧
    c_bbs A = ∅ ∧ lint_clean A ∧ acyclic (c_g A) ∧ outputs (c_g A) = outputs (c_g C) ∧
    inputs (c_g A) = inputs (c_g C) ∪ list_to_set ((λ f, "c0_aux_in_" ++ f) <$> F) ∧
    ∀ v w, consistent (c_g C) v → consistent (c_g A) w → agrees (inputs (c_g C)) w v →
           (∀ f, f ∈ F → w ("c0_aux_in_" ++ f) = v f) → agrees (outputs (c_g C)) w v.
Proof.
  intros Hl Hb Hcl Hplain Hvalid Hself Hfr Hnm HF1 HFd Hcut.
  destruct (acyclic_unroll_total C F Hl Hb Hcl Hplain Hvalid Hself Hnm HF1 HFd Hcut) as [A HA]. exists A. split; [done|].
  assert (Hsp : startpoints (c_g C) = inputs (c_g C)).
  { apply set_eq. intros x. unfold startpoints. rewrite elem_of_of_type, elem_of_inputs. split.
    - intros (i & Hi & Ht). exists i. split; [done|]. destruct (Hplain x i Hi) as (_ & Hbo & _).
      unfold is_ty in Ht. apply orb_true_iff in Ht as [Ht%bool_decide_eq_true|Ht%bool_decide_eq_true]; [done|by symmetry in Ht].
    - intros (i & Hi & Ht). exists i. split; [done|]. rewrite Ht. reflexivity. }
  destruct (acyclic_unroll_spec C F A Hl Hcl Hsp Hfr Hnm Hcut HA) as (H1 & H2 & H3 & H4 & H5).
  split; [done|]. split; [|done].
  pose proof (acyclic_unroll_closed_form C F A Hcl (lint_clean_inputs_undriven C Hl) Hsp (proj1 Hnm) HA) as ->.
  apply unrolled_lint_clean; try done. apply Hnm.
Qed.
