(* Completeness of the executable acyclicity test of Base/Oracle.v: on a closed acyclic graph the relaxed rank table is a
   fixed point after |c|+1 rounds and passes the check.  (Oracle.v proves soundness only.) *)
From stdpp Require Import strings gmap sets fin_sets.
From CG Require Import Base.Oracle Proofs.UnrollProofs.
Open Scope string_scope.

Definition fi_rank (r : gmap string nat) (s : gset string) : nat := set_fold (λ f acc, max acc (S (rank_of r f))) 0 s.
Lemma relax_lookup c r n : rank_of (relax c r) n = match c !! n with Some i => fi_rank r (n_fi i) | None => 0 end.
Proof. unfold rank_of, relax. rewrite map_lookup_imap. destruct (c !! n); done. Qed.
Lemma relax_n_S c k : ∀ r, relax_n (S k) c r = relax c (relax_n k c r).
Proof. induction k as [|k IH]; intros r; [done|]. change (relax_n (S (S k)) c r) with (relax_n (S k) c (relax c r)). by rewrite IH. Qed.

Lemma fi_rank_ge r (s : gset string) f : f ∈ s → rank_of r f < fi_rank r s.
Proof.
  unfold fi_rank. apply (set_fold_ind_L (λ (acc : nat) (X : gset string), f ∈ X → rank_of r f < acc)).
  - set_solver.
  - intros x X acc Hx IH [->%elem_of_singleton|Hf]%elem_of_union; [lia|]. specialize (IH Hf). lia.
Qed.
Lemma fi_rank_ext r r' (s : gset string) : (∀ f, f ∈ s → rank_of r f = rank_of r' f) → fi_rank r s = fi_rank r' s.
Proof.
  intros H. unfold fi_rank, set_fold. simpl.
  assert (Hl : ∀ f, f ∈ elements s → rank_of r f = rank_of r' f) by (intros f Hf; apply H; by apply elem_of_elements).
  induction (elements s) as [|x l IH]; simpl; [done|]. rewrite IH by (intros; apply Hl; by right). rewrite (Hl x) by by left. done.
Qed.

Theorem acyclicb_complete c : closed c → acyclic c → acyclicb c = true.
Proof.
  intros Hcl Hac. destruct (acyclic_bounded_rank c Hcl Hac) as (ρ & Hρ & Hb).
  set (R := λ k, relax_n k c ∅).
  assert (HR : ∀ k, R (S k) = relax c (R k)) by (intros; apply relax_n_S).
  assert (Hstab : ∀ k n, n ∈ dom c → ρ n < k → rank_of (R k) n = rank_of (R (S k)) n).
  { induction k as [|k IH]; intros n Hn Hk; [lia|].
    rewrite (HR (S k)), relax_lookup. rewrite (HR k) at 1. rewrite relax_lookup.
    apply elem_of_dom in Hn as [i Hi]. rewrite Hi.
    apply fi_rank_ext. intros f Hf. apply IH; [eapply Hcl; eauto|]. pose proof (Hρ n i f Hi Hf). lia. }
  unfold acyclicb, rank_table. fold (R (S (size c))). unfold check_rank. apply bool_decide_eq_true.
  intros n i Hi f Hf.
  assert (Hn : n ∈ dom c) by (apply elem_of_dom; eauto).
  rewrite (Hstab (S (size c)) n Hn) by (specialize (Hb n); lia).
  rewrite (HR (S (size c))), relax_lookup, Hi. by apply fi_rank_ge.
Qed.
