(* C07: a succeeding fill_blackbox keeps the wiring legal and the pins in place.  Uses the lookup
   characterisation of the filled graph from Proofs/FillProofs.v (C06). *)
From stdpp Require Import strings gmap sets fin_sets.
From CG Require Import Model.ApiInv Proofs.ApiProofs Base.Compose Proofs.FillProofs.
Open Scope string_scope.

(* ================================================================ renaming that is injective on the nodes *)
Lemma rename_on_ty ρ (c : circuit) n : inj_on ρ (dom c) → n ∈ dom c → ty (rename ρ c) (ρ n) = ty c n.
Proof. intros Hi Hn. unfold ty. rewrite lookup_rename_on by done. by destruct (c !! n). Qed.

Lemma rename_on_wiredE ρ (c : circuit) : inj_on ρ (dom c) → wiredE c → wiredE (rename ρ c).
Proof.
  intros Hinj (Hc & Hn & He).
  assert (HL : ∀ k j, rename ρ c !! k = Some j ↔ ∃ n i, k = ρ n ∧ c !! n = Some i ∧ j = ren_info ρ i)
    by (intros; by apply lookup_rename_on_Some).
  split; [|split].
  - intros k j f (n & i & -> & Hi & ->)%HL Hf. simpl in Hf. apply elem_of_map in Hf as (f0 & -> & Hf0).
    assert (Hd : f0 ∈ dom c) by eauto. apply elem_of_dom in Hd as [i0 Hi0]. apply elem_of_dom.
    exists (ren_info ρ i0). apply HL. eauto.
  - intros k j (n & i & -> & Hi & ->)%HL. destruct (Hn _ _ Hi) as (H1 & H2 & H3). simpl. split; [done|]. split.
    + intros E. rewrite (H2 E). apply set_map_empty.
    + intros E. specialize (H3 E). revert H3. rewrite !size_le_1_unique.
      intros H x y (a & -> & Ha)%elem_of_map (b & -> & Hb)%elem_of_map. f_equal. eauto.
  - intros k j f (n & i & -> & Hi & ->)%HL Hf. simpl in Hf. apply elem_of_map in Hf as (f0 & -> & Hf0).
    assert (Hd : f0 ∈ dom c) by eauto. rewrite rename_on_ty by done.
    destruct (He _ _ _ Hi Hf0) as [H1 H2]. split; [done|]. intros E. destruct (H2 E) as [Hb Hu]. split; [done|].
    intros k' j' (n' & i' & -> & Hi' & ->)%HL Hf'. simpl in Hf'. apply elem_of_map in Hf' as (f1 & Heq & Hf1).
    assert (f1 = f0) as -> by (symmetry; apply Hinj; [done|eauto|done]). f_equal. eauto.
Qed.

Local Ltac mem := unfold documented_types, no_fanin_types, single_fanin_types; repeat constructor.

(* ================================================================ merging two legal graphs that overlap in pin nodes *)
Section merge.
  Context (A B G : circuit) (IN OUT : gset string).
  Hypothesis HG : ∀ k, G !! k =
    (if decide (k ∈ OUT) then fmap unmark else id)
      ((if decide (k ∈ IN) then fmap (retype Buf) else id)
         (union_with (λ old new, Some (merge_info old new)) (A !! k) (B !! k))).
  Hypothesis HA : wiredE A.
  Hypothesis HB : wiredE B.
  Hypothesis HIN : ∀ k, k ∈ IN → ∃ b, B !! k = Some b ∧ n_ty b = Input.
  Hypothesis HO : ∀ k a b, A !! k = Some a → B !! k = Some b →
    (k ∈ IN ∧ n_ty a = BbIn) ∨ (k ∉ IN ∧ n_ty a = BbOut ∧ n_ty b ≠ BbIn ∧ n_ty b ≠ BbOut).

  Inductive gcase (k : string) (j : ninfo) : Prop :=
  | GA a : A !! k = Some a → B !! k = None → n_ty j = n_ty a → n_fi j = n_fi a → gcase k j
  | GB b : A !! k = None → B !! k = Some b → n_fi j = n_fi b →
           ((k ∈ IN ∧ n_ty j = Buf ∧ n_ty b = Input) ∨ (k ∉ IN ∧ n_ty j = n_ty b)) → gcase k j
  | GAB a b : A !! k = Some a → B !! k = Some b → n_fi j = n_fi a ∪ n_fi b →
           ((k ∈ IN ∧ n_ty j = Buf ∧ n_ty a = BbIn ∧ n_ty b = Input) ∨
            (k ∉ IN ∧ n_ty j = n_ty b ∧ n_ty a = BbOut ∧ n_ty b ≠ BbIn ∧ n_ty b ≠ BbOut)) → gcase k j.

  Lemma G_cases k j : G !! k = Some j → gcase k j.
  Proof.
    rewrite HG. destruct (A !! k) as [a|] eqn:Ea, (B !! k) as [b|] eqn:Eb; simpl.
    - destruct (HO k a b Ea Eb) as [[Hin Hta]|(Hin & Hta & Hb1 & Hb2)].
      + destruct (HIN k Hin) as (b' & Hb' & Htb). rewrite Eb in Hb'. injection Hb' as <-.
        rewrite (decide_True (P := k ∈ IN)) by done. destruct (decide (k ∈ OUT)); simpl; intros [= <-];
          (eapply GAB; [done|done|done|left; done]).
      + rewrite (decide_False (P := k ∈ IN)) by done. destruct (decide (k ∈ OUT)); simpl; intros [= <-];
          (eapply GAB; [done|done|done|right; done]).
    - assert (k ∉ IN) by (intros Hin; destruct (HIN k Hin) as (? & ? & _); congruence).
      rewrite (decide_False (P := k ∈ IN)) by done. destruct (decide (k ∈ OUT)); simpl; intros [= <-]; by eapply GA.
    - destruct (decide (k ∈ IN)) as [Hin|Hin].
      + destruct (HIN k Hin) as (b' & Hb' & Htb). rewrite Eb in Hb'. injection Hb' as <-.
        destruct (decide (k ∈ OUT)); simpl; intros [= <-]; (eapply GB; [done|done|done|left; done]).
      + destruct (decide (k ∈ OUT)); simpl; intros [= <-]; (eapply GB; [done|done|done|right; done]).
    - destruct (decide (k ∈ OUT)), (decide (k ∈ IN)); done.
  Qed.
  Lemma G_dom k : k ∈ dom A ∨ k ∈ dom B → k ∈ dom G.
  Proof.
    intros H. apply elem_of_dom. rewrite HG.
    assert (is_Some (union_with (λ old new, Some (merge_info old new)) (A !! k) (B !! k))) as [x ->].
    { destruct H as [[a ->]%elem_of_dom|[b ->]%elem_of_dom]; [destruct (B !! k)|destruct (A !! k)]; simpl; eauto. }
    destruct (decide (k ∈ OUT)), (decide (k ∈ IN)); simpl; eauto.
  Qed.
  (* a blackbox pin of the merged graph is a pin of exactly one side *)
  Lemma G_ty_bb f t : ty G f = Some t → t = BbIn ∨ t = BbOut →
    (ty A f = Some t ∧ B !! f = None) ∨ (ty B f = Some t ∧ A !! f = None).
  Proof.
    intros (j & Hj & <-)%ty_Some Ht. destruct (G_cases _ _ Hj) as [a Ea Eb Hty _|b Ea Eb _ Hty|a b Ea Eb _ Hty].
    - left. split; [|done]. apply ty_Some. exists a. split; [done|congruence].
    - right. split; [|done]. apply ty_Some. exists b. split; [done|]. destruct Hty as [(_ & E & _)|[_ E]]; [rewrite E in Ht; by destruct Ht|done].
    - exfalso. destruct Hty as [(_ & E & _)|(_ & E & _ & N1 & N2)]; rewrite E in Ht; destruct Ht; done.
  Qed.

  Lemma merge_wiredE : wiredE G.
  Proof.
    destruct HA as (HcA & HnA & HeA), HB as (HcB & HnB & HeB).
    split; [|split].
    - intros k j f Hk Hf. apply G_dom. destruct (G_cases _ _ Hk) as [a Ea Eb _ Hfi|b Ea Eb Hfi _|a b Ea Eb Hfi _]; rewrite Hfi in Hf.
      + left. eauto.
      + right. eauto.
      + apply elem_of_union in Hf as [Hf|Hf]; [left|right]; eauto.
    - intros k j Hk. destruct (G_cases _ _ Hk) as [a Ea Eb Hty Hfi|b Ea Eb Hfi Hty|a b Ea Eb Hfi Hty].
      + rewrite Hty, Hfi. eauto.
      + rewrite Hfi. destruct (HnB _ _ Eb) as (H1 & H2 & H3). destruct Hty as [(_ & -> & Hi)|[_ ->]]; [|done].
        split; [mem|]. split; [intros Hx; set_solver|]. intros _. rewrite H2; [rewrite size_empty; lia|rewrite Hi; mem].
      + rewrite Hfi. destruct (HnA _ _ Ea) as (A1 & A2 & A3), (HnB _ _ Eb) as (B1 & B2 & B3).
        destruct Hty as [(_ & -> & Ha & Hb)|(_ & -> & Ha & _)].
        * split; [mem|]. split; [intros Hx; set_solver|]. intros _.
          rewrite (B2 ltac:(rewrite Hb; mem)), (right_id_L ∅ (∪)). apply A3. rewrite Ha. mem.
        * rewrite (A2 ltac:(rewrite Ha; mem)), (left_id_L ∅ (∪)). done.
    - intros k j f Hk Hf.
      assert (Hbb : ∀ t, ty G f = Some t → t = BbIn ∨ t = BbOut →
                t = BbOut ∧ n_ty j = Buf ∧ ∀ k' j', G !! k' = Some j' → f ∈ n_fi j' → k' = k).
      { intros t Ht Hbt. destruct (G_ty_bb _ _ Ht Hbt) as [[HtA HfB]|[HtB HfA]].
        - (* f is a pin of A only: the edge is an edge of A *)
          assert (HkA : ∃ a, A !! k = Some a ∧ f ∈ n_fi a).
          { destruct (G_cases _ _ Hk) as [a Ea Eb _ Hfi|b Ea Eb Hfi _|a b Ea Eb Hfi _]; rewrite Hfi in Hf.
            - eauto.
            - exfalso. assert (f ∈ dom B) by eauto. by apply not_elem_of_dom in HfB.
            - apply elem_of_union in Hf as [Hf|Hf]; [eauto|]. exfalso. assert (f ∈ dom B) by eauto. by apply not_elem_of_dom in HfB. }
          destruct HkA as (a & Ea & Hfa). destruct (HeA _ _ _ Ea Hfa) as [N1 N2].
          destruct Hbt as [->| ->]; [done|]. destruct (N2 HtA) as [Hbuf Hu]. split; [done|]. split.
          + destruct (G_cases _ _ Hk) as [a' Ea' Eb Hty _|b Ea' Eb _ _|a' b Ea' Eb _ Hty]; try congruence.
            exfalso. rewrite Ea in Ea'. injection Ea' as <-. destruct Hty as [(_ & _ & E & _)|(_ & _ & E & _)]; congruence.
          + intros k' j' Hk' Hf'. destruct (G_cases _ _ Hk') as [a' Ea' Eb _ Hfi|b Ea' Eb Hfi _|a' b Ea' Eb Hfi _]; rewrite Hfi in Hf'.
            * eauto.
            * exfalso. assert (f ∈ dom B) by eauto. by apply not_elem_of_dom in HfB.
            * apply elem_of_union in Hf' as [Hf'|Hf']; [eauto|]. exfalso. assert (f ∈ dom B) by eauto. by apply not_elem_of_dom in HfB.
        - assert (HkB : ∃ b, B !! k = Some b ∧ f ∈ n_fi b).
          { destruct (G_cases _ _ Hk) as [a Ea Eb _ Hfi|b Ea Eb Hfi _|a b Ea Eb Hfi _]; rewrite Hfi in Hf.
            - exfalso. assert (f ∈ dom A) by eauto. by apply not_elem_of_dom in HfA.
            - eauto.
            - apply elem_of_union in Hf as [Hf|Hf]; [|eauto]. exfalso. assert (f ∈ dom A) by eauto. by apply not_elem_of_dom in HfA. }
          destruct HkB as (b & Eb & Hfb). destruct (HeB _ _ _ Eb Hfb) as [N1 N2].
          destruct Hbt as [->| ->]; [done|]. destruct (N2 HtB) as [Hbuf Hu]. split; [done|]. split.
          + destruct (G_cases _ _ Hk) as [a' Ea' Eb' _ _|b' Ea' Eb' _ Hty|a' b' Ea' Eb' _ Hty]; try congruence;
              rewrite Eb in Eb'; injection Eb' as <-.
            * destruct Hty as [(_ & E & _)|[_ E]]; congruence.
            * destruct Hty as [(_ & E & _)|(_ & E & _)]; congruence.
          + intros k' j' Hk' Hf'. destruct (G_cases _ _ Hk') as [a' Ea' Eb' _ Hfi|b' Ea' Eb' Hfi _|a' b' Ea' Eb' Hfi _]; rewrite Hfi in Hf'.
            * exfalso. assert (f ∈ dom A) by eauto. by apply not_elem_of_dom in HfA.
            * eauto.
            * apply elem_of_union in Hf' as [Hf'|Hf']; [|eauto]. exfalso. assert (f ∈ dom A) by eauto. by apply not_elem_of_dom in HfA. }
      split.
      + intros E. destruct (Hbb _ E (or_introl eq_refl)) as [? _]. done.
      + intros E. destruct (Hbb _ E (or_intror eq_refl)) as (_ & ? & ?). done.
  Qed.
End merge.


(* ================================================================ fill_blackbox *)
(* what a succeeding fill_blackbox has checked *)
Record fill_facts (C : Circuit) (inst : string) (SC : Circuit) (d : bbdef) : Prop := {
  ff_reg : c_bbs C !! inst = Some d;
  ff_bbs : ∀ b, b ∈ dom (c_bbs SC) → pre inst b ∉ dom (c_bbs C);
  ff_in : inputs (c_g SC) = bb_in d;
  ff_out : outputs (c_g SC) = bb_out d;
  ff_fresh : ∀ n, n ∈ dom (c_g SC) → pre inst n ∉ dom (c_g C);
  ff_pin_in : ∀ p t, p ∈ bb_in d → ty (c_g C) (pin inst p) = Some t → t = BbIn;
  ff_pin_out : ∀ p t, p ∈ bb_out d → ty (c_g C) (pin inst p) = Some t → t = BbOut;
  ff_sc_out : ∀ p t, p ∈ bb_out d → ty (c_g SC) p = Some t → t ≠ BbIn ∧ t ≠ BbOut }.

Lemma existsb_false_elem {A} (f : A → bool) l x : existsb f l = false → x ∈ l → f x = false.
Proof. intros H. apply negb_existsb_false. by rewrite H. Qed.

Lemma fill_blackbox_inv' C inst SC :
  (fill_blackbox C inst SC).2 = Done →
  ∃ d, fill_facts C inst SC d ∧
       c_g (fill_blackbox C inst SC).1 = fill_graph inst d (c_g C) (c_g SC) ∧
       c_bbs (fill_blackbox C inst SC).1 = map_fold (λ b e acc, <[pre inst b := e]> acc) (delete inst (c_bbs C)) (c_bbs SC).
Proof.
  unfold fill_blackbox. destruct (c_bbs C !! inst) as [d|] eqn:Hd; [|done].
  destruct (existsb _ (elements (dom (c_bbs SC)))) eqn:E1; [done|].
  destruct (negb (bool_decide (inputs (c_g SC) = bb_in d))) eqn:E2; [done|].
  destruct (negb (bool_decide (outputs (c_g SC) = bb_out d))) eqn:E3; [done|].
  destruct (existsb _ (elements (dom (c_g SC)))) eqn:E4; [done|].
  destruct (existsb _ (elements (bb_in d))) eqn:E5; [done|].
  destruct (existsb _ (elements (bb_out d))) eqn:E6; [done|].
  intros _. exists d. split; [|split; done].
  apply negb_false_iff, bool_decide_eq_true in E2, E3.
  split; try done.
  - intros b Hb%elem_of_elements. pose proof (existsb_false_elem _ _ _ E1 Hb) as H. simpl in H. by apply bool_decide_eq_false in H.
  - intros n Hn%elem_of_elements. pose proof (existsb_false_elem _ _ _ E4 Hn) as H. simpl in H. by apply bool_decide_eq_false in H.
  - intros p t Hp%elem_of_elements Ht. pose proof (existsb_false_elem _ _ _ E5 Hp) as H. simpl in H. rewrite Ht in H.
    by apply negb_false_iff, bool_decide_eq_true in H.
  - intros p t Hp%elem_of_elements Ht. pose proof (existsb_false_elem _ _ _ E6 Hp) as H. simpl in H. rewrite Ht in H.
    apply orb_false_iff in H as [H _]. by apply negb_false_iff, bool_decide_eq_true in H.
  - intros p t Hp%elem_of_elements Ht. pose proof (existsb_false_elem _ _ _ E6 Hp) as H. simpl in H.
    apply orb_false_iff in H as [_ H]. pose proof (is_in_false _ _ _ H Ht) as Hn. split; intros ->; apply Hn; repeat constructor.
Qed.
Lemma fill_blackbox_fail C inst SC e : (fill_blackbox C inst SC).2 = Fail e → (fill_blackbox C inst SC).1 = C.
Proof. unfold fill_blackbox. repeat case_match; simpl; intros [=]; done. Qed.


Section fill_wired.
  Context (C : Circuit) (inst : string) (SC : Circuit) (d : bbdef) (FF : fill_facts C inst SC d).
  Context (HwP : wiredE (c_g C)) (HwS : wiredE (c_g SC)).
  Local Notation P := (c_g C).
  Local Notation S := (c_g SC).
  Local Notation ρ := (pin_to_node inst d).
  Local Notation π := (pre inst).

  Lemma fill_rho_inj : inj_on ρ (dom P).
  Proof. exact (rho_inj_on inst d P S (ff_in _ _ _ _ FF) (ff_out _ _ _ _ FF) (ff_fresh _ _ _ _ FF)). Qed.
  Lemma fill_pi_inj : inj_on π (dom S).
  Proof. apply inj_on_inj, _. Qed.
  Lemma fill_A_lookup k a : rename ρ P !! k = Some a ↔ ∃ n i, k = ρ n ∧ P !! n = Some i ∧ a = ren_info ρ i.
  Proof. apply lookup_rename_on_Some, fill_rho_inj. Qed.
  Lemma fill_B_lookup k b : rename π S !! k = Some b ↔ ∃ m i, k = π m ∧ S !! m = Some i ∧ b = ren_info π i.
  Proof. apply lookup_rename_on_Some, fill_pi_inj. Qed.
  Lemma fill_io_dom p : p ∈ bb_in d ∪ bb_out d → p ∈ dom S.
  Proof.
    intros [Hp|Hp]%elem_of_union.
    - rewrite <- (ff_in _ _ _ _ FF) in Hp. apply elem_of_inputs in Hp as (i & Hi & _). apply elem_of_dom. eauto.
    - rewrite <- (ff_out _ _ _ _ FF) in Hp. apply elem_of_outputs in Hp as (i & Hi & _). apply elem_of_dom. eauto.
  Qed.

  (* a node that exists on both sides is a pin of the instance (parent) and the io node of that name (filling circuit) *)
  Lemma fill_overlap k a b : rename ρ P !! k = Some a → rename π S !! k = Some b →
    ∃ p i i', p ∈ bb_in d ∪ bb_out d ∧ k = π p ∧ P !! pin inst p = Some i ∧ a = ren_info ρ i ∧ S !! p = Some i' ∧ b = ren_info π i'.
  Proof.
    intros (n & i & -> & Hi & ->)%fill_A_lookup (m & i' & Heq & Hi' & ->)%fill_B_lookup.
    destruct (pin_to_node_cases inst d n) as [(p & Hp & -> & Hρ)|[_ Hρ]]; rewrite Hρ in Heq.
    - apply (inj π) in Heq as <-. exists p, i, i'. rewrite Hρ. done.
    - exfalso. subst n. eapply (ff_fresh _ _ _ _ FF m); apply elem_of_dom; eauto.
  Qed.

  Lemma fill_graph_wiredE : wiredE (fill_graph inst d P S).
  Proof.
    apply (merge_wiredE (rename ρ P) (rename π S) _ (set_map π (bb_in d)) (set_map π (bb_out d))).
    - intros k. apply (fill_graph_lookup inst d P S (ff_in _ _ _ _ FF) (ff_out _ _ _ _ FF) (ff_fresh _ _ _ _ FF)).
    - apply rename_on_wiredE; [apply fill_rho_inj|done].
    - apply rename_on_wiredE; [apply fill_pi_inj|done].
    - intros k (p & -> & Hp)%elem_of_map. rewrite <- (ff_in _ _ _ _ FF) in Hp. apply elem_of_inputs in Hp as (i & Hi & Hty).
      exists (ren_info π i). split; [|done]. apply fill_B_lookup. eauto.
    - intros k a b Ha Hb. destruct (fill_overlap k a b Ha Hb) as (p & i & i' & Hp & -> & Hi & -> & Hi' & ->). simpl.
      assert (Hty : ty P (pin inst p) = Some (n_ty i)) by (unfold ty; by rewrite Hi).
      destruct (decide (p ∈ bb_in d)) as [Hin|Hin].
      + left. split; [apply elem_of_map; eauto|]. by apply (ff_pin_in _ _ _ _ FF p).
      + right. assert (Hout : p ∈ bb_out d) by set_solver. split.
        * intros (p' & Heq & Hp')%elem_of_map. apply (inj π) in Heq as <-. done.
        * split; [by apply (ff_pin_out _ _ _ _ FF p)|]. apply (ff_sc_out _ _ _ _ FF p); [done|]. unfold ty. by rewrite Hi'.
  Qed.
End fill_wired.

Lemma fill_blackbox_wired C inst SC : Inv C → Inv SC → Inv (fill_blackbox C inst SC).1.
Proof.
  intros HC HS. destruct (fill_blackbox C inst SC).2 eqn:E.
  - destruct (fill_blackbox_inv' C inst SC E) as (d & FF & Hg & _). unfold Inv. rewrite Hg.
    apply wired_iff, (fill_graph_wiredE C inst SC d FF); by apply wired_iff.
  - by rewrite (fill_blackbox_fail C inst SC e E).
Qed.


(* ================================================================ fill_blackbox: pins *)
(* no pin of another recorded instance (that the caller did not remove) is a pin node of the instance being filled;
   true whenever instance names contain no dot *)
Definition fill_side (C : Circuit) (inst : string) (R : gset string) : Prop :=
  ∀ d inst' d', c_bbs C !! inst = Some d → inst' ≠ inst → c_bbs C !! inst' = Some d' →
    ∀ p', p' ∈ bb_in d' ∪ bb_out d' → pin inst' p' ∈ R ∨ ∀ p, p ∈ bb_in d ∪ bb_out d → pin inst' p' ≠ pin inst p.

Section fill_pins.
  Context (C : Circuit) (inst : string) (SC : Circuit) (d : bbdef) (FF : fill_facts C inst SC d).
  Local Notation P := (c_g C).
  Local Notation S := (c_g SC).
  Local Notation ρ := (pin_to_node inst d).
  Local Notation π := (pre inst).
  Local Notation G := (fill_graph inst d P S).
  Let HL := fill_graph_lookup inst d P S (ff_in _ _ _ _ FF) (ff_out _ _ _ _ FF) (ff_fresh _ _ _ _ FF).

  Lemma fill_not_io_img (X : gset string) n : X ⊆ bb_in d ∪ bb_out d → n ∈ dom P → n ∉ (set_map π X : gset string).
  Proof. intros HX Hn (p & -> & Hp)%elem_of_map. eapply (ff_fresh _ _ _ _ FF p); [|done]. apply (fill_io_dom C inst SC d FF). set_solver. Qed.

  Lemma fill_ty_parent n t : (∀ p, p ∈ bb_in d ∪ bb_out d → n ≠ pin inst p) → ty P n = Some t → ty G n = Some t.
  Proof.
    intros Hnp (i & Hi & <-)%ty_Some. assert (Hn : n ∈ dom P) by (apply elem_of_dom; eauto).
    assert (Hρ : ρ n = n).
    { destruct (pin_to_node_cases inst d n) as [(p & Hp & -> & _)|[_ ?]]; [|done]. by destruct (Hnp p Hp). }
    assert (HA : rename ρ P !! n = Some (ren_info ρ i)) by (apply (fill_A_lookup C inst SC d FF); exists n, i; by rewrite Hρ).
    assert (HB : rename π S !! n = None).
    { destruct (rename π S !! n) as [b|] eqn:E; [|done]. exfalso.
      apply (fill_B_lookup inst SC) in E as (m & i' & -> & Hi' & _). eapply (ff_fresh _ _ _ _ FF m); [|done]. apply elem_of_dom. eauto. }
    unfold ty. rewrite HL, HA, HB. rewrite decide_False by (apply fill_not_io_img; [set_solver|done]).
    rewrite decide_False by (apply fill_not_io_img; [set_solver|done]). done.
  Qed.
  Lemma fill_ty_child m t : t ≠ Input → ty S m = Some t → ty G (π m) = Some t.
  Proof.
    intros Hne (i' & Hi' & <-)%ty_Some.
    assert (HB : rename π S !! π m = Some (ren_info π i')) by (apply (fill_B_lookup inst SC); eauto).
    assert (Hnin : π m ∉ (set_map π (bb_in d) : gset string)).
    { intros (p & Heq & Hp)%elem_of_map. apply (inj π) in Heq as <-. rewrite <- (ff_in _ _ _ _ FF) in Hp.
      apply elem_of_inputs in Hp as (i & Hi & Hty). congruence. }
    unfold ty. rewrite HL, HB. rewrite (decide_False (P := π m ∈ set_map π (bb_in d))) by done.
    destruct (rename ρ P !! π m) as [a|]; destruct (decide (π m ∈ (set_map π (bb_out d) : gset string))); done.
  Qed.
End fill_pins.

Lemma fill_blackbox_pins C inst SC R : pins_ok C R → pins_ok SC ∅ → fill_side C inst R → pins_ok (fill_blackbox C inst SC).1 R.
Proof.
  intros Hp Hps Hside. destruct (fill_blackbox C inst SC).2 eqn:E.
  2:{ by rewrite (fill_blackbox_fail C inst SC e E). }
  destruct (fill_blackbox_inv' C inst SC E) as (d & FF & Hg & Hb). unfold pins_ok. rewrite Hg, Hb.
  apply (map_fold_ind (λ acc (m : gmap string bbdef), (∀ b e, m !! b = Some e → c_bbs SC !! b = Some e) →
     map_Forall (λ i0 d0, set_Forall (λ p, pin i0 p ∈ R ∨ ty (fill_graph inst d (c_g C) (c_g SC)) (pin i0 p) = Some BbIn) (bb_in d0) ∧
                          set_Forall (λ p, pin i0 p ∈ R ∨ ty (fill_graph inst d (c_g C) (c_g SC)) (pin i0 p) = Some BbOut) (bb_out d0)) acc)); [| |done].
  - intros _ inst' d' [Hne Hd']%lookup_delete_Some. destruct (Hp inst' d' Hd') as [A1 A2]. simpl in *.
    split; intros p' Hp'; [destruct (A1 p' Hp') as [?|Hty]|destruct (A2 p' Hp') as [?|Hty]]; try (by left);
      (destruct (Hside d inst' d' (ff_reg _ _ _ _ FF) (not_eq_sym Hne) Hd' p' ltac:(set_solver)) as [?|Hnp]; [by left|right]);
      by apply (fill_ty_parent C inst SC d FF).
  - intros b e m acc Hmb IH Hsub. apply map_Forall_insert_2.
    + specialize (Hsub b e (lookup_insert _ _ _)). destruct (Hps b e Hsub) as [A1 A2]. simpl in *.
      split; intros p Hp'; right; rewrite pin_pre; apply (fill_ty_child C inst SC d FF); try done.
      * destruct (A1 p Hp') as [?|?]; [set_solver|done].
      * destruct (A2 p Hp') as [?|?]; [set_solver|done].
    + apply IH. intros b' e' Hb'. apply Hsub. rewrite lookup_insert_ne; [done|]. intros <-. congruence.
Qed.

(* ================================================================ all eight operations *)
Lemma step_inv_all C o : tables_ok → sc_inv o → Inv C → Inv (step C o).1.
Proof.
  intros HT Hsc Hw. destruct (not_fill o) eqn:E; [by apply step_inv_nofill|].
  destruct o; try discriminate. simpl. by apply fill_blackbox_wired.
Qed.
Lemma run_inv_all C ops : tables_ok → Forall sc_inv ops → Inv C → Inv (run C ops).
Proof.
  intros HT Hops. revert C. unfold run. induction Hops as [|o ops Ho _ IH]; intros C Hw; simpl; [done|].
  apply IH. by apply step_inv_all.
Qed.

Definition sc_pins (o : op) : Prop := match o with OAddSubcircuit SC _ _ | OFillBlackbox _ SC => pins_ok SC ∅ | _ => True end.
Definition pins_side (C : Circuit) (o : op) (R : gset string) : Prop :=
  match o with OFillBlackbox inst _ => fill_side C inst R | _ => True end.
Lemma step_pins_all C o R : closed (c_g C) → orders_ok o → sc_pins o → pins_side C o R →
  pins_ok C R → pins_ok (step C o).1 (R ∪ removed_by o).
Proof.
  intros Hc Hord Hsc Hside Hp. destruct (not_fill o) eqn:E.
  - apply step_pins_nofill; try done. by destruct o.
  - destruct o; try discriminate. simpl. rewrite (right_id_L ∅ (∪)). by apply fill_blackbox_pins.
Qed.

(* the side condition of fill_blackbox holds when the recorded instance names contain no dot *)
Definition nodot (s : string) : Prop := ∀ a b : string, s ≠ a ++ "." ++ b.
Lemma pin_inj_nodot i1 p1 i2 p2 : nodot i1 → nodot i2 → pin i1 p1 = pin i2 p2 → i1 = i2.
Proof.
  unfold pin. revert i2. induction i1 as [|c1 r1 IH]; intros [|c2 r2] H1 H2 Heq; simpl in Heq.
  - done.
  - exfalso. injection Heq as <- Heq. apply (H2 "" r2). done.
  - exfalso. injection Heq as -> Heq. apply (H1 "" r1). done.
  - injection Heq as -> Heq. f_equal. apply IH; [| |done].
    + intros a b ->. apply (H1 (String c2 a) b). done.
    + intros a b ->. apply (H2 (String c2 a) b). done.
Qed.
Lemma fill_side_nodot C inst R : (∀ i, i ∈ dom (c_bbs C) → nodot i) → fill_side C inst R.
Proof.
  intros Hnd d inst' d' Hd Hne Hd' p' _. right. intros p _ Heq. apply Hne.
  eapply pin_inj_nodot; [| |exact Heq]; apply Hnd, elem_of_dom; eauto.
Qed.
