(* C07: add with add_connected_nodes / allow_redefinition. *)
From stdpp Require Import strings gmap sets fin_sets.
From CG Require Import Model.ApiInv Proofs.ApiProofs.
Open Scope string_scope.

(* the structure of add_g, for any predicate on graphs that its building blocks preserve *)
Lemma add_g_pred (Q : circuit → Prop) c n t fi fo fl :
  Q c →
  (t ∈ supported_types →
   (negb (af_uid fl) && bool_decide ((if af_uid fl then uid c n else n) ∈ dom c) && negb (af_redef fl)) = false →
   Q (<[(if af_uid fl then uid c n else n) := mk_node t (af_out fl) (fanin c (if af_uid fl then uid c n else n))]> c)) →
  (∀ g f, Q g → f ∉ dom g → Q (<[f := mk_node Buf false ∅]> g)) →
  (∀ g us vs, Q g → Q (connect_g g us vs).1) →
  (∀ g g', sub g' g → dom g' = dom g → Q g → Q g') →
  Q (add_g c n t fi fo fl).1.1.
Proof.
  intros Hc Hins Hbuf Hconn Hsub. unfold add_g. set (n' := if af_uid fl then uid c n else n) in *.
  destruct (negb (af_uid fl) && bool_decide (n' ∈ dom c) && negb (af_redef fl)) eqn:E0; [done|].
  destruct (negb (bool_decide (t ∈ supported_types))) eqn:E1; [done|].
  repeat (match goal with |- context [if ?b then (c, Fail ValueError, n') else _] => destruct b; [done|] end).
  apply negb_false_iff, bool_decide_eq_true in E1. specialize (Hins E1 eq_refl).
  set (c1 := <[n' := mk_node t (af_out fl) (fanin c n')]> c) in *.
  set (st := if af_conn fl then foldl _ (c1, Done) (fi ++ fo)%list else (c1, Done)).
  assert (Hst : Q st.1).
  { unfold st. destruct (af_conn fl); [|done]. apply (foldl_inv (λ s : circuit * outcome, Q s.1)); [done|].
    intros [g o] f Hg. simpl in *. destruct o; [|done]. destruct (bool_decide (f ∈ dom g)) eqn:Ef; [done|].
    apply bool_decide_eq_false in Ef. unfold add_plain_buf. destruct (bool_decide (f = "")); [done|]. destruct (starts_digit f); [done|].
    simpl. by apply Hbuf. }
  destruct st as [c1' o1]. simpl in Hst. destruct o1 as [|e1]; [|done].
  pose proof (Hconn c1' [n'] fo Hst) as Hw2.
  destruct (connect_g c1' [n'] fo) as [c2 o2]. simpl in Hw2. destruct o2 as [|e2]; [|done].
  pose proof (Hconn c2 fi [n'] Hw2) as Hw3.
  destruct (connect_g c2 fi [n']) as [c3 o3]. simpl in Hw3. destruct o3 as [|[]]; simpl; try done.
  match goal with |- Q (foldl _ c3 ?l) => destruct (del_edges_from_sub c3 n' l) as [Hs Hd] end.
  by eapply Hsub.
Qed.

(* without redefinition the full invariant is preserved, with or without add_connected_nodes *)
Lemma add_g_wired_conn c n t fi fo fl : tables_ok → af_redef fl = false → wired c → wired (add_g c n t fi fo fl).1.1.
Proof.
  intros HT Hredef Hw. apply add_g_pred; try done.
  - intros Ht E0. pose proof (add_name_fresh c n fl Hredef E0) as Hfresh.
    assert (Hfi : fanin c (if af_uid fl then uid c n else n) = ∅) by (unfold fanin; by rewrite (not_elem_of_dom_1 _ _ Hfresh)).
    rewrite Hfi. apply wired_iff, insert_fresh_wiredE; [done| |by apply wired_iff]. by apply (tables_unpack HT).
  - intros g f Hg Hf. apply wired_iff, insert_fresh_wiredE; [done| |by apply wired_iff]. unfold documented_types. repeat constructor.
  - intros g us vs Hg. by apply connect_wired.
  - intros g g' Hs Hd Hg. by eapply wired_sub_dom.
Qed.

(* with redefinition: closedness and documented types *)
Lemma wired0_iff c : wired0 c ↔ closed c ∧ ∀ n i, c !! n = Some i → n_ty i ∈ documented_types.
Proof. unfold wired0. by rewrite closed'_iff, map_Forall_lookup. Qed.
Lemma wired0_insert c n t out (fi : gset string) : t ∈ documented_types → fi ⊆ dom c → wired0 c → wired0 (<[n := mk_node t out fi]> c).
Proof.
  rewrite !wired0_iff. intros Ht Hfi [Hc Hty]. split.
  - intros m i f. rewrite dom_insert_L. destruct (decide (m = n)) as [->|Hne]; [rewrite lookup_insert; intros [= <-]; simpl; set_solver|].
    rewrite lookup_insert_ne by done. intros Hm Hf. apply elem_of_union_r. eauto.
  - intros m i. destruct (decide (m = n)) as [->|Hne]; [rewrite lookup_insert; by intros [= <-]|rewrite lookup_insert_ne by done; apply Hty].
Qed.
Lemma wired0_sub_dom c c' : sub c' c → dom c' = dom c → wired0 c → wired0 c'.
Proof.
  rewrite !wired0_iff. intros Hs Hd [Hc Hty]. split; [by eapply closed_sub_dom|].
  intros n i' Hi'. destruct (Hs _ _ Hi') as (i & Hi & -> & _). eauto.
Qed.
Lemma wired0_connect c us vs : wired0 c → wired0 (connect_g c us vs).1.
Proof.
  rewrite !wired0_iff. intros [Hc Hty]. destruct (connect_g c us vs).2 eqn:E.
  2:{ apply connect_g_fail in E as [_ ->]. done. }
  pose proof (connect_g_lookup c us vs) as HL.
  assert (Hus : vs ≠ [] → ∀ u, u ∈ us → u ∈ dom c).
  { revert E. unfold connect_g. destruct (bool_decide (us = []) || bool_decide (vs = [])) eqn:Hemp.
    - apply orb_true_iff in Hemp as [->%bool_decide_eq_true| ->%bool_decide_eq_true]; [intros _ _ u Hu; by apply elem_of_nil in Hu|done].
    - destruct (negb (forallb _ (us ++ vs)%list)) eqn:Hex; [done|]. intros _ _ u Hu.
      apply negb_false_iff, Is_true_eq_left, forallb_True in Hex. rewrite Forall_forall in Hex.
      specialize (Hex u ltac:(set_solver)). by apply bool_decide_unpack in Hex. }
  split.
  - intros m i' f Hm Hf. rewrite (HL m E) in Hm. destruct (c !! m) as [i|] eqn:Em; [|done]. injection Hm as <-. simpl in Hf.
    assert (Hd : f ∈ dom c).
    { apply elem_of_union in Hf as [Hf|Hf]; [eauto|]. destruct (decide (m ∈ vs)) as [Hmv|]; [|set_solver].
      apply Hus; [by intros ->; apply elem_of_nil in Hmv|set_solver]. }
    apply elem_of_dom in Hd as [k Hk]. apply elem_of_dom. rewrite (HL f E), Hk. eauto.
  - intros m i' Hm. rewrite (HL m E) in Hm. destruct (c !! m) as [i|] eqn:Em; [|done]. injection Hm as <-. simpl. eauto.
Qed.
Lemma add_g_wired0 c n t fi fo fl : tables_ok → wired0 c → wired0 (add_g c n t fi fo fl).1.1.
Proof.
  intros HT Hw. apply add_g_pred; try done.
  - intros Ht _. apply wired0_insert; [by apply (tables_unpack HT)| |done].
    intros f (i & Hi & Hf)%elem_of_fanin. apply wired0_iff in Hw as [Hc _]. eauto.
  - intros g f Hg _. apply wired0_insert; [unfold documented_types; repeat constructor|set_solver|done].
  - intros g us vs Hg. by apply wired0_connect.
  - intros g g' Hs Hd Hg. by eapply wired0_sub_dom.
Qed.

(* one step of the extended op set *)
Definition xargs_ok (sc_ok : op → Prop) (x : xop) : Prop :=
  match x with XO o => sc_ok o | XAdd _ _ _ _ fl => af_redef fl = false end.
Lemma wired_wired0 c : wired c → wired0 c.
Proof. intros [Hc Hn]. split; [done|]. eapply map_Forall_impl; [exact Hn|]. by intros n i (? & _). Qed.
