(* C07 proofs: the wiring invariant is preserved by the operations of the construction API model. *)
From stdpp Require Import strings gmap sets fin_sets pretty.
From CG Require Import Model.ApiInv.
Open Scope string_scope.

(* ================================================================ tables *)
Definition tables_ok : Prop := tables_okb = true.

Lemma all_types_complete t : t ∈ all_types.
Proof. destruct t; unfold all_types; set_solver. Qed.
Lemma same_set_spec l1 l2 : same_set l1 l2 = true → ∀ t, t ∈ l1 ↔ t ∈ l2.
Proof.
  intros H t. unfold same_set in H. apply Is_true_eq_left, forallb_True in H.
  rewrite Forall_forall in H. specialize (H t (all_types_complete t)). apply bool_decide_unpack in H.
  destruct (decide (t ∈ l1)) as [H1|H1], (decide (t ∈ l2)) as [H2|H2]; try tauto.
  - rewrite (bool_decide_eq_true_2 _ H1), (bool_decide_eq_false_2 _ H2) in H. discriminate.
  - rewrite (bool_decide_eq_false_2 _ H1), (bool_decide_eq_true_2 _ H2) in H. discriminate.
Qed.
Lemma tables_unpack : tables_ok →
  (∀ t, t ∈ supported_types ↔ t ∈ documented_types) ∧ (∀ t, t ∈ conn_no_fanin ↔ t ∈ no_fanin_types) ∧
  (∀ t, t ∈ conn_single_fanin ↔ t ∈ single_fanin_types) ∧ (∀ t, t ∈ conn_no_fanout ↔ t = BbIn) ∧ (∀ t, t ∈ conn_bbout ↔ t = BbOut).
Proof.
  unfold tables_ok, tables_okb. intros H. repeat (apply andb_prop in H as [H ?]).
  repeat split; try (by apply same_set_spec).
  - intros Ht. apply (same_set_spec _ _ H3) in Ht. set_solver.
  - intros ->. apply (same_set_spec _ _ H3). set_solver.
  - intros Ht. apply (same_set_spec _ _ H2) in Ht. set_solver.
  - intros ->. apply (same_set_spec _ _ H2). set_solver.
Qed.

(* ================================================================ small facts *)
Lemma size_le_1_unique (X : gset string) : size X ≤ 1 ↔ ∀ x y, x ∈ X → y ∈ X → x = y.
Proof.
  split.
  - intros Hs x y Hx Hy. destruct (decide (x = y)) as [|Hne]; [done|exfalso].
    assert (Hsub : ({[x]} ∪ {[y]} : gset string) ⊆ X) by set_solver.
    apply subseteq_size in Hsub. rewrite size_union in Hsub by set_solver. rewrite !size_singleton in Hsub. lia.
  - intros Hu. destruct (set_choose_or_empty X) as [[x Hx]|He].
    + assert (X = {[x]}) as -> by (apply set_eq; intros y; rewrite elem_of_singleton; split; [intros; by eapply Hu|by intros ->]).
      by rewrite size_singleton.
    + apply leibniz_equiv in He as ->. rewrite size_empty. lia.
Qed.
Lemma elem_size_ge_1 (X : gset string) x : x ∈ X → 1 ≤ size X.
Proof. intros Hx. destruct (size X) eqn:E; [|lia]. apply size_empty_inv in E. set_solver. Qed.
Lemma size_0_empty (X : gset string) : size X = 0 → X = ∅.
Proof. intros E. apply leibniz_equiv. by apply size_empty_inv. Qed.
Lemma ty_Some c n t : ty c n = Some t ↔ ∃ i, c !! n = Some i ∧ n_ty i = t.
Proof. unfold ty. destruct (c !! n) as [i|]; simpl; split; [intros [= <-]; eauto|intros (? & [= <-] & <-); done|done|by intros (? & ? & _)]. Qed.
Lemma fanin_lookup c n i : c !! n = Some i → fanin c n = n_fi i.
Proof. unfold fanin. by intros ->. Qed.
Lemma negb_existsb_false {A} (f : A → bool) l : negb (existsb f l) = true → ∀ x, x ∈ l → f x = false.
Proof.
  induction l as [|a l IH]; simpl; intros H x Hx; [by apply elem_of_nil in Hx|].
  apply negb_true_iff, orb_false_iff in H as [Ha Hl]. apply elem_of_cons in Hx as [->|Hx]; [done|].
  apply IH; [by rewrite Hl|done].
Qed.
Lemma is_in_true o l : is_in o l = true ↔ ∃ t, o = Some t ∧ t ∈ l.
Proof.
  destruct o as [t|]; simpl.
  - rewrite bool_decide_eq_true. split; [eauto|by intros (? & [= <-] & ?)].
  - split; [done|by intros (? & ? & _)].
Qed.
Lemma is_in_false o l t : is_in o l = false → o = Some t → t ∉ l.
Proof. intros H -> Ht. simpl in H. by rewrite bool_decide_eq_true_2 in H. Qed.

(* ================================================================ the invariant, edge by edge *)
Definition node_part (c : circuit) : Prop :=
  ∀ n i, c !! n = Some i →
    n_ty i ∈ documented_types ∧ (n_ty i ∈ no_fanin_types → n_fi i = ∅) ∧ (n_ty i ∈ single_fanin_types → size (n_fi i) ≤ 1).
Definition edge_part (c : circuit) : Prop :=
  ∀ m j f, c !! m = Some j → f ∈ n_fi j →
    ty c f ≠ Some BbIn ∧
    (ty c f = Some BbOut → n_ty j = Buf ∧ ∀ m' j', c !! m' = Some j' → f ∈ n_fi j' → m' = m).
Definition wiredE (c : circuit) : Prop := closed c ∧ node_part c ∧ edge_part c.

Lemma closed'_iff c : closed' c ↔ closed c.
Proof.
  unfold closed', closed. rewrite map_Forall_lookup. split.
  - intros H n i f Hn Hf. apply elem_of_dom. by apply (H n i Hn).
  - intros H n i Hn f Hf. apply elem_of_dom. eauto.
Qed.
Lemma fanout_ok_spec c n t : fanout_ok c n t ↔
  (t = BbIn → fanout c n = ∅) ∧ (t = BbOut → size (fanout c n) ≤ 1 ∧ set_Forall (λ m, ty c m = Some Buf) (fanout c n)).
Proof. destruct t; simpl; split; try (intros H; split; intros [=]; done); try (intros [H1 H2]; auto; done). Qed.
Lemma wired_iff c : wired c ↔ wiredE c.
Proof.
  unfold wired, wiredE. rewrite closed'_iff, map_Forall_lookup. split.
  - intros [Hc Hn]. split; [done|]. split.
    + intros n i Hi. destruct (Hn n i Hi) as (? & ? & ? & _). done.
    + intros m j f Hm Hf.
      assert (Hfd : f ∈ dom c) by eauto. apply elem_of_dom in Hfd as [k Hk].
      destruct (Hn f k Hk) as (_ & _ & _ & [Hbi Hbo]%fanout_ok_spec).
      assert (Hmf : m ∈ fanout c f) by (apply elem_of_fanout; eauto).
      assert (Hty : ty c f = Some (n_ty k)) by (unfold ty; by rewrite Hk).
      rewrite Hty. split.
      * intros [= E]. specialize (Hbi E). set_solver.
      * intros [= E]. destruct (Hbo E) as [Hs Hb]. split.
        -- specialize (Hb m Hmf). simpl in Hb. apply ty_Some in Hb as (j0 & Hj0 & <-). congruence.
        -- intros m' j' Hm' Hf'. eapply size_le_1_unique; [exact Hs| |done]. apply elem_of_fanout; eauto.
  - intros (Hc & Hn & He). split; [done|]. intros n i Hi. destruct (Hn n i Hi) as (? & ? & ?).
    assert (Hty : ty c n = Some (n_ty i)) by (unfold ty; by rewrite Hi).
    split; [done|]. split; [done|]. split; [done|]. apply fanout_ok_spec. split; [|intros H2; split].
    + intros E. apply set_eq. intros m. split; [|set_solver]. intros (j & Hj & Hf)%elem_of_fanout.
      destruct (He m j n Hj Hf) as [Hne _]. rewrite Hty, E in Hne. done.
    + apply size_le_1_unique. intros x y (jx & Hjx & Hfx)%elem_of_fanout (jy & Hjy & Hfy)%elem_of_fanout.
      destruct (He x jx n Hjx Hfx) as [_ Hu]. rewrite Hty, H2 in Hu. destruct (Hu eq_refl) as [_ Hu']. symmetry. eauto.
    + intros m (j & Hj & Hf)%elem_of_fanout. simpl.
      destruct (He m j n Hj Hf) as [_ Hu]. rewrite Hty, H2 in Hu. destruct (Hu eq_refl) as [Hb _].
      unfold ty. by rewrite Hj, <- Hb.
Qed.

(* a graph with fewer wires (and possibly fewer nodes), same types *)
Definition sub (c' c : circuit) : Prop :=
  ∀ n i', c' !! n = Some i' → ∃ i, c !! n = Some i ∧ n_ty i' = n_ty i ∧ n_fi i' ⊆ n_fi i.
Lemma sub_refl c : sub c c.
Proof. intros n i Hi. eauto. Qed.
Lemma sub_trans c1 c2 c3 : sub c1 c2 → sub c2 c3 → sub c1 c3.
Proof.
  intros H12 H23 n i1 H1. destruct (H12 _ _ H1) as (i2 & H2 & Ht & Hf). destruct (H23 _ _ H2) as (i3 & H3 & Ht' & Hf').
  exists i3. split; [done|]. split; [congruence|set_solver].
Qed.
Lemma wiredE_sub c c' : sub c' c → closed c' → wiredE c → wiredE c'.
Proof.
  intros Hs Hc' (Hc & Hn & He). split; [done|]. split.
  - intros n i' Hi'. destruct (Hs _ _ Hi') as (i & Hi & Ht & Hf). destruct (Hn _ _ Hi) as (H1 & H2 & H3).
    rewrite Ht. split; [done|]. split.
    + intros E. specialize (H2 E). set_solver.
    + intros E. specialize (H3 E). apply subseteq_size in Hf. lia.
  - intros m j' f Hm' Hf'. destruct (Hs _ _ Hm') as (j & Hm & Ht & Hf).
    assert (Hfd : f ∈ dom c') by eauto. apply elem_of_dom in Hfd as [k' Hk'].
    destruct (Hs _ _ Hk') as (k & Hk & Htk & _).
    assert (Hty : ty c' f = ty c f) by (unfold ty; rewrite Hk', Hk; simpl; congruence).
    destruct (He m j f Hm (Hf _ Hf')) as [H1 H2]. rewrite Hty. split; [done|].
    intros E. destruct (H2 E) as [Hb Hu]. split; [congruence|].
    intros m' j'' Hm'' Hf''. destruct (Hs _ _ Hm'') as (j3 & Hm3 & _ & Hf3). eapply Hu; [exact Hm3|set_solver].
Qed.
Lemma closed_sub_dom c c' : sub c' c → dom c' = dom c → closed c → closed c'.
Proof. intros Hs Hd Hc n i' f Hi' Hf. destruct (Hs _ _ Hi') as (i & Hi & _ & Hsub). rewrite Hd. eapply Hc; [exact Hi|set_solver]. Qed.
Lemma wired_sub_dom c c' : sub c' c → dom c' = dom c → wired c → wired c'.
Proof. rewrite !wired_iff. intros Hs Hd Hw. eapply wiredE_sub; [done| |done]. eapply closed_sub_dom; [done..|]. apply Hw. Qed.

(* ================================================================ disconnect, remove, set_output *)
Lemma upd_fi_ty f i : n_ty (upd_fi f i) = n_ty i. Proof. done. Qed.
Lemma del_edge_lookup c u v n : del_edge c u v !! n = if decide (n = v) then upd_fi (λ s, s ∖ {[u]}) <$> c !! n else c !! n.
Proof. unfold del_edge. destruct (decide (n = v)) as [->|Hne]; [by rewrite lookup_alter|by rewrite lookup_alter_ne]. Qed.
Lemma del_edge_sub c u v : sub (del_edge c u v) c.
Proof.
  intros n i'. rewrite del_edge_lookup. destruct (decide (n = v)); [|eauto].
  destruct (c !! n) as [i|]; [|done]. intros [= <-]. exists i. split; [done|]. split; [done|]. simpl. set_solver.
Qed.
Lemma del_edge_dom c u v : dom (del_edge c u v) = dom c.
Proof. unfold del_edge. apply set_eq. intros n. rewrite !elem_of_dom, <- !not_eq_None_Some. destruct (decide (n = v)) as [->|]; [rewrite lookup_alter_None|rewrite lookup_alter_ne]; done. Qed.
Lemma del_edges_sub c ps : sub (foldl (λ c' p, del_edge c' p.1 p.2) c ps) c ∧ dom (foldl (λ c' p, del_edge c' p.1 p.2) c ps) = dom c.
Proof.
  revert c. induction ps as [|p ps IH]; intros c; simpl; [split; [apply sub_refl|done]|].
  destruct (IH (del_edge c p.1 p.2)) as [H1 H2]. split.
  - eapply sub_trans; [exact H1|apply del_edge_sub].
  - by rewrite H2, del_edge_dom.
Qed.
Lemma disconnect_wired c us vs : wired c → wired (disconnect_g c us vs).
Proof. intros Hw. unfold disconnect_g. destruct (del_edges_sub c (pairs us vs)). by eapply wired_sub_dom. Qed.
Lemma disconnect_fanin c us vs n : fanin (disconnect_g c us vs) n ⊆ fanin c n.
Proof.
  destruct (del_edges_sub c (pairs us vs)) as [Hs _]. intros f (i' & Hi' & Hf)%elem_of_fanin.
  destruct (Hs _ _ Hi') as (i & Hi & _ & Hsub). apply elem_of_fanin. eauto.
Qed.

Lemma remove_lookup c ns n :
  remove_g c ns !! n = if decide (n ∈ (list_to_set ns : gset string)) then None else upd_fi (λ fi, fi ∖ list_to_set ns) <$> c !! n.
Proof.
  unfold remove_g. rewrite lookup_fmap. destruct (decide (n ∈ (list_to_set ns : gset string))) as [Hin|Hin].
  - rewrite map_filter_lookup_None_2; [done|]. right. intros i _ Hn. simpl in Hn. done.
  - destruct (c !! n) as [i|] eqn:E.
    + by rewrite (map_filter_lookup_Some_2 _ _ _ _ E Hin).
    + rewrite map_filter_lookup_None_2; [done|]. by left.
Qed.
Lemma remove_sub c ns : sub (remove_g c ns) c.
Proof.
  intros n i'. rewrite remove_lookup. destruct (decide _); [done|]. destruct (c !! n) as [i|]; [|done].
  intros [= <-]. exists i. split; [done|]. split; [done|]. simpl. set_solver.
Qed.
Lemma remove_closed c ns : closed c → closed (remove_g c ns).
Proof.
  intros Hc n i' f. rewrite remove_lookup. destruct (decide _) as [|Hn]; [done|]. destruct (c !! n) as [i|] eqn:E; [|done].
  intros [= <-]. simpl. intros [Hf Hnf]%elem_of_difference.
  assert (Hd : f ∈ dom c) by eauto. apply elem_of_dom in Hd as [k Hk]. apply elem_of_dom.
  rewrite remove_lookup. destruct (decide _); [done|]. rewrite Hk. eauto.
Qed.
Lemma remove_wired c ns : wired c → wired (remove_g c ns).
Proof. rewrite !wired_iff. intros Hw. eapply wiredE_sub; [apply remove_sub| |done]. apply remove_closed, Hw. Qed.

Definition so_step (b : bool) (st : circuit * outcome) (n : string) : circuit * outcome :=
  match st with
  | (c', Done) => match c' !! n with Some i => (<[n := set_out b i]> c', Done) | None => (c', Fail KeyError) end
  | _ => st end.
Lemma set_output_fold c ns b : set_output_g c ns b = foldl (so_step b) (c, Done) ns.
Proof. done. Qed.
Lemma so_step_inv b c st n :
  (sub st.1 c ∧ dom st.1 = dom c ∧ (∀ m, fanin st.1 m = fanin c m) ∧ (st.2 = Done ∨ st.2 = Fail KeyError)) →
  let st' := so_step b st n in sub st'.1 c ∧ dom st'.1 = dom c ∧ (∀ m, fanin st'.1 m = fanin c m) ∧ (st'.2 = Done ∨ st'.2 = Fail KeyError).
Proof.
  destruct st as [c' [|e]]; simpl; [|done]. intros (Hs & Hd & Hf & Ho).
  destruct (c' !! n) as [i|] eqn:E; simpl; [|eauto 6].
  split; [|split; [|split; [|eauto]]].
  - intros m i'. destruct (decide (m = n)) as [->|Hne]; [rewrite lookup_insert|rewrite lookup_insert_ne by done; apply Hs].
    intros [= <-]. destruct (Hs _ _ E) as (i0 & ? & ? & ?). exists i0. done.
  - rewrite dom_insert_L, <- Hd. assert (n ∈ dom c') by (apply elem_of_dom; eauto). set_solver.
  - intros m. rewrite <- Hf. unfold fanin. destruct (decide (m = n)) as [->|Hne]; [rewrite lookup_insert, E; done|by rewrite lookup_insert_ne].
Qed.
Lemma set_output_inv c ns b :
  let st := set_output_g c ns b in sub st.1 c ∧ dom st.1 = dom c ∧ (∀ m, fanin st.1 m = fanin c m) ∧ (st.2 = Done ∨ st.2 = Fail KeyError).
Proof.
  rewrite set_output_fold.
  assert (H0 : sub (c, Done).1 c ∧ dom (c, Done).1 = dom c ∧ (∀ m, fanin (c, Done).1 m = fanin c m) ∧ ((c, Done).2 = Done ∨ (c, Done).2 = Fail KeyError))
    by (simpl; split; [apply sub_refl|eauto]).
  revert H0. generalize (c, Done) as st. induction ns as [|n ns IH]; intros st H0; simpl; [done|].
  apply IH. by apply so_step_inv.
Qed.
Lemma set_output_wired c ns b : wired c → wired (set_output_g c ns b).1.
Proof. intros Hw. destruct (set_output_inv c ns b) as (Hs & Hd & _). by eapply wired_sub_dom. Qed.
(* ================================================================ connect *)
Lemma add_edge_lookup c u v n : add_edge c u v !! n = if decide (n = v) then upd_fi (λ s, {[u]} ∪ s) <$> c !! n else c !! n.
Proof. unfold add_edge. destruct (decide (n = v)) as [->|Hne]; [by rewrite lookup_alter|by rewrite lookup_alter_ne]. Qed.
Definition drivers_of (ps : list (string * string)) (n : string) : gset string := list_to_set (fst <$> filter (λ p, p.2 = n) ps).
Lemma add_edges_lookup c ps n :
  foldl (λ c' p, add_edge c' p.1 p.2) c ps !! n = upd_fi (λ s, s ∪ drivers_of ps n) <$> c !! n.
Proof.
  revert c. induction ps as [|[u v] ps IH]; intros c; simpl.
  - destruct (c !! n) as [[t o fi]|]; simpl; [|done]. unfold upd_fi, drivers_of. simpl. do 2 f_equal. set_solver.
  - rewrite IH, add_edge_lookup. unfold drivers_of. simpl. rewrite filter_cons. simpl.
    destruct (decide (n = v)) as [->|Hne].
    + rewrite decide_True by done. destruct (c !! v) as [[t o fi]|]; simpl; [|done]. unfold upd_fi. simpl. do 2 f_equal. set_solver.
    + rewrite decide_False by done. done.
Qed.
Lemma elem_of_drivers_of ps n f : f ∈ drivers_of ps n ↔ (f, n) ∈ ps.
Proof.
  unfold drivers_of. rewrite elem_of_list_to_set, elem_of_list_fmap. split.
  - intros ([a b] & -> & [Hp Hin]%elem_of_list_filter). simpl in *. by subst.
  - intros Hin. exists (f, n). split; [done|]. by apply elem_of_list_filter.
Qed.
Lemma elem_of_pairs us vs u v : (u, v) ∈ pairs us vs ↔ u ∈ us ∧ v ∈ vs.
Proof.
  unfold pairs. rewrite elem_of_list_bind. split.
  - intros (u' & (v' & Hp & Hv)%elem_of_list_bind & Hu). apply elem_of_list_singleton in Hp as [= -> ->]. done.
  - intros [Hu Hv]. exists u. split; [|done]. apply elem_of_list_bind. exists v. split; [|done]. by apply elem_of_list_singleton.
Qed.
Lemma connect_g_fail c us vs e : (connect_g c us vs).2 = Fail e → e = ValueError ∧ (connect_g c us vs).1 = c.
Proof. unfold connect_g. repeat case_match; simpl; intros [=]; done. Qed.

Lemma connect_wiredE c us vs : tables_ok → wiredE c → wiredE (connect_g c us vs).1.
Proof.
  intros HT Hw. unfold connect_g.
  destruct (bool_decide (us = []) || bool_decide (vs = [])) eqn:Hemp; [done|].
  destruct (negb (forallb _ (us ++ vs))) eqn:Hex; [done|].
  destruct (negb (connect_check c us vs)) eqn:Hck; [done|]. simpl.
  apply orb_false_iff in Hemp as [Hus Hvs]. apply bool_decide_eq_false in Hus, Hvs.
  apply negb_false_iff in Hck. unfold connect_check in Hck. apply andb_prop in Hck as [HA HB].
  pose proof (negb_existsb_false _ _ HA) as HA'. pose proof (negb_existsb_false _ _ HB) as HB'. clear HA HB.
  destruct (tables_unpack HT) as (_ & Tnf & Tsf & Tno & Tbo).
  destruct Hw as (Hc & Hn & He).
  set (c' := foldl (λ c' p, add_edge c' p.1 p.2) c (pairs us vs)).
  assert (HL : ∀ n, c' !! n = upd_fi (λ s, s ∪ drivers_of (pairs us vs) n) <$> c !! n) by (intros; apply add_edges_lookup).
  assert (Hty : ∀ n, ty c' n = ty c n) by (intros n; unfold ty; rewrite HL; by destruct (c !! n)).
  assert (Hdom : ∀ n, n ∈ dom c' ↔ n ∈ dom c) by (intros n; rewrite !elem_of_dom, HL; destruct (c !! n); simpl; split; intros [? ?]; eauto; done).
  (* the checks, in Prop *)
  assert (CA : ∀ v t, v ∈ vs → ty c v = Some t → t ∉ no_fanin_types ∧ (t ∈ single_fanin_types → size (fanin c v) + length us ≤ 1)).
  { intros v t Hv Ht. specialize (HA' v Hv). apply orb_false_iff in HA' as [H1 H2]. split.
    - intros Hin. apply Tnf in Hin. eapply is_in_false in H1; [|exact Ht]. done.
    - intros Hin. apply Tsf in Hin. apply andb_false_iff in H2 as [H2|H2].
      + eapply is_in_false in H2; [|exact Ht]. done.
      + apply Nat.ltb_ge in H2. done. }
  assert (CB : ∀ u t, u ∈ us → ty c u = Some t → t ≠ BbIn ∧
              (t = BbOut → (∀ v, v ∈ vs → ty c v = Some Buf) ∧ size (fanout c u) + length vs ≤ 1)).
  { intros u t Hu Ht. specialize (HB' u Hu). apply orb_false_iff in HB' as [H1 H2]. split.
    - intros ->. eapply is_in_false in H1; [|exact Ht]. apply H1, Tno. done.
    - intros ->. apply andb_false_iff in H2 as [H2|H2].
      { eapply is_in_false in H2; [|exact Ht]. exfalso. apply H2, Tbo. done. }
      apply orb_false_iff in H2 as [H2 H3]. apply Nat.ltb_ge in H3. split; [|done].
      intros v Hv. destruct (existsb _ vs) eqn:Eex in H2; [done|]. clear H2.
      assert (Hf : negb (existsb (λ v0, negb (is_in (ty c v0) [Buf])) vs) = true) by (by rewrite Eex).
      pose proof (negb_existsb_false _ _ Hf v Hv) as Hv'. apply negb_false_iff, is_in_true in Hv' as (t & Ht' & Hin).
      apply elem_of_list_singleton in Hin as ->. done. }
  assert (Hlen1 : ∀ (l : list string) k, l ≠ [] → k + length l ≤ 1 → k = 0 ∧ ∃ x, l = [x]).
  { intros [|x [|y l]] k Hl Hk; simpl in *; [done| |lia]. split; [lia|eauto]. }
  assert (Hex' : ∀ n, n ∈ (us ++ vs)%list → n ∈ dom c).
  { apply negb_false_iff, Is_true_eq_left, forallb_True in Hex. rewrite Forall_forall in Hex.
    intros n Hnn. specialize (Hex n Hnn). by apply bool_decide_unpack in Hex. }
  assert (HD : ∀ n f, f ∈ drivers_of (pairs us vs) n ↔ f ∈ us ∧ n ∈ vs) by (intros; by rewrite elem_of_drivers_of, elem_of_pairs).
  split; [|split].
  - (* closed *)
    intros n i' f Hi' Hf. rewrite HL in Hi'. destruct (c !! n) as [i|] eqn:E; [|done]. injection Hi' as <-. simpl in Hf.
    apply Hdom. apply elem_of_union in Hf as [Hf|Hf]; [eauto|].
    apply HD in Hf as [Hu _]. apply Hex'. set_solver.
  - (* nodes *)
    intros n i' Hi'. rewrite HL in Hi'. destruct (c !! n) as [i|] eqn:E; [|done]. injection Hi' as <-. simpl.
    destruct (Hn _ _ E) as (H1 & H2 & H3). split; [done|].
    assert (Htn : ty c n = Some (n_ty i)) by (unfold ty; by rewrite E).
    destruct (decide (n ∈ vs)) as [Hv|Hv].
    + destruct (CA n _ Hv Htn) as [Hnf Hsf]. split; [done|]. intros Hin. specialize (Hsf Hin).
      rewrite (fanin_lookup _ _ _ E) in Hsf. destruct (Hlen1 us _ Hus Hsf) as [H0 [x ->]]. apply size_0_empty in H0.
      rewrite H0. etrans; [apply (subseteq_size _ {[x]})|by rewrite size_singleton].
      intros f [Hf|Hf]%elem_of_union; [set_solver|]. apply HD in Hf as [Hf _]. set_solver.
    + assert (drivers_of (pairs us vs) n = ∅) as -> by (apply set_eq; intros f; rewrite HD; set_solver).
      rewrite (right_id_L ∅ (∪)). done.
  - (* edges *)
    assert (Hold : ∀ m j' f, c' !! m = Some j' → f ∈ n_fi j' → ∃ j, c !! m = Some j ∧ n_ty j' = n_ty j ∧ (f ∈ n_fi j ∨ (f ∈ us ∧ m ∈ vs))).
    { intros m j' f Hm Hf. rewrite HL in Hm. destruct (c !! m) as [j|] eqn:E; [|done]. injection Hm as <-. simpl in Hf.
      exists j. split; [done|]. split; [done|]. apply elem_of_union in Hf as [Hf|Hf]; [by left|right; by apply HD]. }
    intros m j' f Hm Hf. rewrite Hty. destruct (Hold _ _ _ Hm Hf) as (j & Hj & Htj & [Hf0|[Hfu Hmv]]).
    + destruct (He _ _ _ Hj Hf0) as [H1 H2]. split; [done|]. intros E. destruct (H2 E) as [Hb Hu]. split; [congruence|].
      intros m' j'' Hm' Hf'. destruct (Hold _ _ _ Hm' Hf') as (j0 & Hj0 & _ & [Hf1|[Hfu Hmv]]); [eauto|exfalso].
      destruct (CB _ _ Hfu E) as [_ Hbo]. destruct (Hbo eq_refl) as [_ Hsz].
      assert (1 ≤ size (fanout c f)) by (eapply elem_size_ge_1, elem_of_fanout; eauto).
      destruct vs; simpl in *; [done|lia].
    + assert (Hfd : f ∈ dom c) by (apply Hex'; set_solver). apply elem_of_dom in Hfd as [k Hk].
      assert (Htf : ty c f = Some (n_ty k)) by (unfold ty; by rewrite Hk).
      destruct (CB _ _ Hfu Htf) as [Hnb Hbo]. rewrite Htf. split; [congruence|]. intros [= E].
      destruct (Hbo E) as [Hbuf Hsz]. destruct (Hlen1 vs _ Hvs Hsz) as [H0 [x ->]]. apply size_0_empty in H0.
      split.
      * specialize (Hbuf m Hmv). apply ty_Some in Hbuf as (j1 & Hj1 & Hb). congruence.
      * intros m' j'' Hm' Hf'. destruct (Hold _ _ _ Hm' Hf') as (j0 & Hj0 & _ & [Hf1|[_ Hmv']]).
        -- exfalso. assert (m' ∈ fanout c f) by (apply elem_of_fanout; eauto). set_solver.
        -- set_solver.
Qed.
Lemma connect_wired c us vs : tables_ok → wired c → wired (connect_g c us vs).1.
Proof. rewrite !wired_iff. apply connect_wiredE. Qed.
(* ================================================================ uid *)
Lemma uid_loop_fresh fuel used n i (T : gset string) :
  T ⊆ used → (∀ s, s ∈ T → ∃ j, (j < i)%N ∧ s = n ++ "_" ++ pretty j) → size (used ∖ T) < fuel →
  uid_loop fuel used n i ∉ used.
Proof.
  revert i T. induction fuel as [|f IH]; intros i T HT Hj Hs; [lia|]. simpl.
  destruct (bool_decide (n ++ "_" ++ pretty i ∈ used)) eqn:E; [|by apply bool_decide_eq_false in E].
  apply bool_decide_eq_true in E.
  set (cand := n ++ "_" ++ pretty i) in *.
  assert (HcT : cand ∉ T).
  { intros Hin. destruct (Hj _ Hin) as (j & Hlt & Heq). unfold cand in Heq.
    apply (inj (String.append n)), (inj (String.append "_")), (inj pretty) in Heq. lia. }
  set (i' := if (i <? 10)%N then (i + 1)%N else (i * 7)%N).
  assert (Hi' : (i < i')%N) by (unfold i'; destruct (N.ltb_spec i 10); lia).
  apply (IH i' (T ∪ {[cand]})).
  - set_solver.
  - intros s [Hs'|Hs']%elem_of_union.
    + destruct (Hj _ Hs') as (j & ? & ?). exists j. split; [lia|done].
    + apply elem_of_singleton in Hs' as ->. exists i. done.
  - assert (Heq : used ∖ T = {[cand]} ∪ used ∖ (T ∪ {[cand]})).
    { apply set_eq. intros x. destruct (decide (x = cand)); set_solver. }
    rewrite Heq, size_union in Hs by set_solver. rewrite size_singleton in Hs. lia.
Qed.
Lemma uid_fresh c n : uid c n ∉ dom c.
Proof.
  unfold uid, uid_in. destruct (bool_decide (n ∈ dom c)) eqn:E; [|by apply bool_decide_eq_false in E].
  apply (uid_loop_fresh _ _ _ _ ∅); [set_solver|set_solver|]. rewrite difference_empty_L. lia.
Qed.

(* ================================================================ add *)
Lemma insert_fresh_wiredE c n t out : n ∉ dom c → t ∈ documented_types → wiredE c → wiredE (<[n := mk_node t out ∅]> c).
Proof.
  intros Hn Ht (Hc & Hnp & He).
  assert (Hne : ∀ m j f, c !! m = Some j → f ∈ n_fi j → m ≠ n ∧ f ≠ n).
  { intros m j f Hm Hf. split; intros ->; apply Hn; [apply elem_of_dom; eauto|eauto]. }
  split; [|split].
  - intros m j f. destruct (decide (m = n)) as [->|Hmn]; [rewrite lookup_insert; intros [= <-]; set_solver|].
    rewrite lookup_insert_ne by done. intros Hm Hf. rewrite dom_insert_L. apply elem_of_union_r. eauto.
  - intros m j. destruct (decide (m = n)) as [->|Hmn]; [rewrite lookup_insert; intros [= <-]; simpl|rewrite lookup_insert_ne by done; apply Hnp].
    split; [done|]. split; [done|]. intros _. change (size (∅ : gset string) ≤ 1). rewrite size_empty. lia.
  - intros m j f. destruct (decide (m = n)) as [->|Hmn]; [rewrite lookup_insert; intros [= <-]; set_solver|].
    rewrite lookup_insert_ne by done. intros Hm Hf. destruct (Hne _ _ _ Hm Hf) as [_ Hfn].
    unfold ty. rewrite lookup_insert_ne by done. destruct (He _ _ _ Hm Hf) as [H1 H2]. split; [done|].
    intros E. destruct (H2 E) as [Hb Hu]. split; [done|]. intros m' j'.
    destruct (decide (m' = n)) as [->|Hmn']; [rewrite lookup_insert; intros [= <-]; set_solver|].
    rewrite lookup_insert_ne by done. apply Hu.
Qed.

Lemma add_name_fresh c n fl :
  af_redef fl = false →
  (negb (af_uid fl) && bool_decide ((if af_uid fl then uid c n else n) ∈ dom c) && negb (af_redef fl)) = false →
  (if af_uid fl then uid c n else n) ∉ dom c.
Proof.
  intros -> H. destruct (af_uid fl); [apply uid_fresh|]. simpl in H. rewrite andb_true_r in H. by apply bool_decide_eq_false in H.
Qed.

Lemma del_edges_from_sub c n l : sub (foldl (λ g v, del_edge g n v) c l) c ∧ dom (foldl (λ g v, del_edge g n v) c l) = dom c.
Proof.
  revert c. induction l as [|v l IH]; intros c; simpl; [split; [apply sub_refl|done]|].
  destruct (IH (del_edge c n v)) as [H1 H2]. split.
  - eapply sub_trans; [exact H1|apply del_edge_sub].
  - by rewrite H2, del_edge_dom.
Qed.
Lemma add_g_wired c n t fi fo fl : tables_ok → af_conn fl = false → af_redef fl = false → wired c → wired (add_g c n t fi fo fl).1.1.
Proof.
  intros HT Hconn Hredef Hw. unfold add_g. set (n' := if af_uid fl then uid c n else n).
  destruct (negb (af_uid fl) && bool_decide (n' ∈ dom c) && negb (af_redef fl)) eqn:E0; [done|].
  destruct (negb (bool_decide (t ∈ supported_types))) eqn:E1; [done|].
  repeat (match goal with |- context [if ?b then (c, Fail ValueError, n') else _] => destruct b; [done|] end).
  pose proof (add_name_fresh c n fl Hredef E0) as Hfresh. fold n' in Hfresh.
  rewrite Hconn.
  assert (Hfi : fanin c n' = ∅) by (unfold fanin; by rewrite (not_elem_of_dom_1 _ _ Hfresh)).
  rewrite Hfi.
  assert (Hw1 : wired (<[n' := mk_node t (af_out fl) ∅]> c)).
  { apply wired_iff, insert_fresh_wiredE; [done| |by apply wired_iff].
    apply negb_false_iff, bool_decide_eq_true in E1. by apply (tables_unpack HT). }
  set (c1 := <[n' := mk_node t (af_out fl) ∅]> c) in *.
  pose proof (connect_wired c1 [n'] fo HT Hw1) as Hw2.
  destruct (connect_g c1 [n'] fo) as [c2 o2]. simpl in Hw2. destruct o2 as [|e2]; [|done].
  pose proof (connect_wired c2 fi [n'] HT Hw2) as Hw3.
  destruct (connect_g c2 fi [n']) as [c3 o3]. simpl in Hw3. destruct o3 as [|[]]; simpl; try done.
  match goal with |- wired (foldl _ c3 ?l) => destruct (del_edges_from_sub c3 n' l) as [Hs Hd] end.
  by eapply wired_sub_dom.
Qed.
(* ================================================================ what add / connect change *)
Definition att (c c' : circuit) : Prop :=
  ∀ m i, c !! m = Some i → ∃ i', c' !! m = Some i' ∧ n_ty i' = n_ty i ∧ n_out i' = n_out i.
Lemma att_refl c : att c c. Proof. intros m i Hi. eauto. Qed.
Lemma att_trans c1 c2 c3 : att c1 c2 → att c2 c3 → att c1 c3.
Proof.
  intros H12 H23 m i Hi. destruct (H12 _ _ Hi) as (i2 & H2 & ? & ?). destruct (H23 _ _ H2) as (i3 & H3 & ? & ?).
  exists i3. split; [done|]. split; congruence.
Qed.
Lemma att_fmap_upd c c' (X : string → gset string → gset string) : (∀ m, c' !! m = upd_fi (X m) <$> c !! m) → att c c'.
Proof. intros H m i Hi. rewrite H, Hi. simpl. eauto. Qed.

Lemma connect_g_lookup c us vs m :
  (connect_g c us vs).2 = Done →
  (connect_g c us vs).1 !! m = upd_fi (λ s, s ∪ (if decide (m ∈ vs) then list_to_set us else ∅)) <$> c !! m.
Proof.
  assert (Hid : ∀ X : gset string, X = ∅ → c !! m = upd_fi (λ s, s ∪ X) <$> c !! m).
  { intros X ->. destruct (c !! m) as [[t o fi]|]; simpl; [|done]. unfold upd_fi. simpl. do 2 f_equal. set_solver. }
  unfold connect_g.
  destruct (bool_decide (us = []) || bool_decide (vs = [])) eqn:Hemp.
  { intros _. simpl. apply Hid. apply orb_true_iff in Hemp as [->%bool_decide_eq_true| ->%bool_decide_eq_true].
    - by destruct (decide _). - rewrite decide_False; [done|set_solver]. }
  destruct (negb (forallb _ _)); [done|]. destruct (negb (connect_check c us vs)); [done|]. intros _. simpl.
  rewrite add_edges_lookup. destruct (c !! m) as [[t o fi]|]; simpl; [|done]. unfold upd_fi. simpl. do 3 f_equal.
  apply set_eq. intros f. rewrite elem_of_drivers_of, elem_of_pairs. destruct (decide (m ∈ vs)); set_solver.
Qed.
Lemma connect_g_att c us vs : att c (connect_g c us vs).1.
Proof.
  destruct (connect_g c us vs).2 eqn:E.
  - eapply att_fmap_upd. intros m. by apply connect_g_lookup.
  - apply connect_g_fail in E as [_ ->]. apply att_refl.
Qed.
Lemma connect_g_fanin_mono c us vs m : fanin c m ⊆ fanin (connect_g c us vs).1 m.
Proof.
  destruct (connect_g c us vs).2 eqn:E.
  - unfold fanin. rewrite (connect_g_lookup _ _ _ _ E). destruct (c !! m); simpl; set_solver.
  - apply connect_g_fail in E as [_ ->]. done.
Qed.
Lemma del_edges_from_lookup c n l m :
  foldl (λ g v, del_edge g n v) c l !! m = if decide (m ∈ l) then upd_fi (λ s, s ∖ {[n]}) <$> c !! m else c !! m.
Proof.
  revert c. induction l as [|v l IH]; intros c; cbn [foldl]; [rewrite decide_False; [done|set_solver]|].
  rewrite IH, del_edge_lookup. destruct (decide (m = v)) as [->|Hne].
  - rewrite (decide_True (P := v ∈ v :: l)) by set_solver. destruct (decide (v ∈ l)); [|done].
    destruct (c !! v) as [[t o fi]|]; simpl; [|done]. unfold upd_fi. simpl. do 2 f_equal. set_solver.
  - destruct (decide (m ∈ l)); [rewrite decide_True by set_solver|rewrite decide_False by set_solver]; done.
Qed.

(* the node set, the attributes of the old nodes and -- when the call is rejected -- all wires are as before *)
Definition add_post (c : circuit) (n : string) (t : gtype) (fl : add_flags) (r : circuit * outcome * string) : Prop :=
  (r.1.2 = Done ∨ r.1.2 = Fail ValueError) ∧
  att c r.1.1 ∧ (∀ m, fanin c m ⊆ fanin r.1.1 m) ∧
  (r.1.2 = Done → r.2 ∉ dom c ∧ ty r.1.1 r.2 = Some t ∧ r.2 = (if af_uid fl then uid c n else n)) ∧
  (r.1.2 ≠ Done → ∀ m, fanin r.1.1 m = fanin c m).
Lemma add_g_spec c n t fi fo fl : af_conn fl = false → af_redef fl = false → add_post c n t fl (add_g c n t fi fo fl).
Proof.
  intros Hconn Hredef. unfold add_g. set (n' := if af_uid fl then uid c n else n).
  assert (Htriv : add_post c n t fl (c, Fail ValueError, n')).
  { unfold add_post. simpl. split; [by right|]. split; [apply att_refl|]. split; [done|]. split; done. }
  destruct (negb (af_uid fl) && bool_decide (n' ∈ dom c) && negb (af_redef fl)) eqn:E0; [exact Htriv|].
  repeat (match goal with |- context [if ?b then (c, Fail ValueError, n') else _] => destruct b; [exact Htriv|] end).
  pose proof (add_name_fresh c n fl Hredef E0) as Hfresh. fold n' in Hfresh.
  rewrite Hconn.
  assert (Hfi : fanin c n' = ∅) by (unfold fanin; by rewrite (not_elem_of_dom_1 _ _ Hfresh)).
  rewrite Hfi. set (c1 := <[n' := mk_node t (af_out fl) ∅]> c).
  assert (Ha1 : att c c1).
  { intros m i Hi. exists i. split; [|done]. unfold c1. rewrite lookup_insert_ne; [done|]. intros <-. apply Hfresh, elem_of_dom. eauto. }
  assert (Hf1 : ∀ m, fanin c1 m = fanin c m).
  { intros m. unfold fanin, c1. destruct (decide (m = n')) as [->|Hne]; [|by rewrite lookup_insert_ne].
    rewrite lookup_insert. simpl. fold (fanin c n'). by rewrite Hfi. }
  assert (Ht1 : ∀ g, att c1 g → ty g n' = Some t).
  { intros g Hg. destruct (Hg n' (mk_node t (af_out fl) ∅)) as (i' & Hi' & Hty & _); [apply lookup_insert|].
    unfold ty. rewrite Hi'. simpl. by rewrite Hty. }
  pose proof (connect_g_att c1 [n'] fo) as Ha2. pose proof (connect_g_fanin_mono c1 [n'] fo) as Hm2.
  pose proof (connect_g_fail c1 [n'] fo) as Hfail2. pose proof (connect_g_lookup c1 [n'] fo) as HL2.
  destruct (connect_g c1 [n'] fo) as [c2 o2]. simpl in *. destruct o2 as [|e2].
  2:{ destruct (Hfail2 e2 eq_refl) as [-> ->]. unfold add_post. simpl. split; [by right|]. split; [done|]. split; [intros m; by rewrite Hf1|]. split; done. }
  pose proof (connect_g_att c2 fi [n']) as Ha3. pose proof (connect_g_fanin_mono c2 fi [n']) as Hm3.
  pose proof (connect_g_fail c2 fi [n']) as Hfail3.
  destruct (connect_g c2 fi [n']) as [c3 o3]. simpl in *. destruct o3 as [|e3].
  { unfold add_post. simpl. split; [by left|]. split; [eauto using att_trans|]. split.
    - intros m. rewrite <- Hf1. etrans; [apply Hm2|apply Hm3].
    - split; [|done]. intros _. split; [done|]. split; [|done]. apply Ht1. eauto using att_trans. }
  destruct (Hfail3 e3 eq_refl) as [-> ->]. unfold add_post. simpl.
  set (ne := filter (λ v, negb (bool_decide (n' ∈ fanin c1 v))) fo).
  assert (HLf : ∀ m, foldl (λ g v, del_edge g n' v) c2 ne !! m = if decide (m ∈ ne) then upd_fi (λ s, s ∖ {[n']}) <$> c2 !! m else c2 !! m)
    by (intros; apply del_edges_from_lookup).
  assert (Hfin : ∀ m, fanin (foldl (λ g v, del_edge g n' v) c2 ne) m = fanin c m).
  { intros m. rewrite <- Hf1. unfold fanin at 1. rewrite HLf, (HL2 m eq_refl).
    assert (Hne : m ∈ ne ↔ m ∈ fo ∧ n' ∉ fanin c1 m).
    { unfold ne. rewrite elem_of_list_filter. rewrite negb_True, bool_decide_spec. tauto. }
    unfold fanin. destruct (c1 !! m) as [i|] eqn:Ei; simpl.
    2:{ by destruct (decide (m ∈ ne)). }
    unfold fanin in Hne. rewrite Ei in Hne. simpl in Hne.
    destruct (decide (m ∈ ne)) as [Hin|Hin]; simpl.
    - apply Hne in Hin as [Hfo Hnf]. rewrite decide_True by done. set_solver.
    - destruct (decide (m ∈ fo)) as [Hfo|Hfo]; [|set_solver].
      assert (n' ∈ n_fi i) by (destruct (decide (n' ∈ n_fi i)); [done|exfalso; apply Hin, Hne; done]). set_solver. }
  split; [by right|]. split.
  - eapply att_trans; [exact Ha1|]. eapply att_trans; [exact Ha2|].
    eapply (att_fmap_upd _ _ (λ m s, if decide (m ∈ ne) then s ∖ {[n']} else s)). intros m. rewrite HLf.
    destruct (decide (m ∈ ne)); [done|]. destruct (c2 !! m) as [[? ? ?]|]; done.
  - split; [intros m; by rewrite Hfin|]. split; done.
Qed.
(* ================================================================ edges *)
Lemma elem_of_edges c f n : (f, n) ∈ edges c ↔ f ∈ fanin c n.
Proof.
  unfold edges. rewrite elem_of_list_to_set, elem_of_list_bind. split.
  - intros ([m i] & Hin & Hm). apply elem_of_list_fmap in Hin as (f' & [= -> ->] & Hf'). apply elem_of_elements in Hf'.
    apply elem_of_map_to_list in Hm. apply elem_of_fanin; eauto.
  - intros (i & Hi & Hf)%elem_of_fanin. exists (n, i). split; [|by apply elem_of_map_to_list].
    apply elem_of_list_fmap. exists f. split; [done|by apply elem_of_elements].
Qed.
Lemma edges_ext c c' : (∀ n, fanin c' n = fanin c n) → edges c' = edges c.
Proof. intros H. apply set_eq. intros [f n]. by rewrite !elem_of_edges, H. Qed.

(* ================================================================ add_blackbox keeps the wiring legal *)
Lemma foldl_inv {A B} (P : A → Prop) (f : A → B → A) l a : P a → (∀ a b, P a → P (f a b)) → P (foldl f a l).
Proof. intros Ha Hf. revert a Ha. induction l as [|b l IH]; intros a Ha; simpl; [done|]. apply IH, Hf, Ha. Qed.

Lemma add_blackbox_wired C d inst ins outs conns : tables_ok → Inv C → Inv (add_blackbox C d inst ins outs conns).1.
Proof.
  intros HT Hw. unfold Inv in *. unfold add_blackbox. destruct (bool_decide (inst ∈ dom (c_bbs C))); [done|]. cbv zeta.
  set (F := foldl _ (_, [], Done) _).
  assert (HF : wired F.1.1).
  { apply (foldl_inv (λ st : circuit * list string * outcome, wired st.1.1)); [exact Hw|].
    intros [[g io] o] [p t] Hg. simpl in *. destruct o; [|done].
    pose proof (add_g_wired g (pin inst p) t [] [] af_default HT eq_refl eq_refl Hg) as Hg'.
    destruct (add_g g (pin inst p) t [] [] af_default) as [[g' o'] nm]. done. }
  destruct F as [[g io] o]. simpl in HF. cbv beta iota.
  set (r := match o with Done => foldl _ (g, Done) conns | Fail e => (g, Fail e) end).
  assert (Hr : wired r.1).
  { unfold r. destruct o; [|done]. apply (foldl_inv (λ st : circuit * outcome, wired st.1)); [done|].
    intros [g0 o0] [k vs] Hg0. simpl in *. destruct o0; [|done].
    destruct (bool_decide (k ∈ bb_in d)); [by apply connect_wired|]. destruct (bool_decide (k ∈ bb_out d)); [by apply connect_wired|done]. }
  destruct r as [g1 o1]. simpl in *.
  destruct o1 as [|[]]; simpl; try done. by apply remove_wired.
Qed.

(* ================================================================ one step, histories *)
Lemma step_inv_core C o : tables_ok → core_op o = true → Inv C → Inv (step C o).1.
Proof.
  intros HT Hcore Hw. unfold Inv in *. destruct o; try discriminate; simpl.
  - pose proof (add_g_wired (c_g C) n t fi fo {| af_out := out; af_conn := false; af_redef := false; af_uid := use_uid |} HT eq_refl eq_refl Hw) as H.
    destruct (add_g _ _ _ _ _ _) as [[g oc] nm]. done.
  - pose proof (connect_wired (c_g C) us vs HT Hw) as H. destruct (connect_g _ _ _) as [g oc]. done.
  - by apply disconnect_wired.
  - by apply remove_wired.
  - pose proof (set_output_wired (c_g C) ns b Hw) as H. destruct (set_output_g _ _ _) as [g oc]. done.
  - by apply add_blackbox_wired.
Qed.
Lemma run_inv_core C ops : tables_ok → Forall (λ o, core_op o = true) ops → Inv C → Inv (run C ops).
Proof.
  intros HT Hops. revert C. unfold run. induction Hops as [|o ops Ho _ IH]; intros C Hw; simpl; [done|].
  apply IH. by apply step_inv_core.
Qed.
Lemma empty_inv name : Inv (empty_circuit name).
Proof. unfold Inv, empty_circuit. simpl. apply wired_iff. split; [intros n i f H|split; [intros n i H|intros m j f H]]; by rewrite lookup_empty in H. Qed.

(* a rejected call: exception class and wires *)
Definition basic_op (o : op) : bool :=
  match o with OAdd _ _ _ _ _ _ | OConnect _ _ | ODisconnect _ _ | ORemove _ | OSetOutput _ _ => true | _ => false end.
Lemma step_reject_basic C o e : basic_op o = true → (step C o).2 = Fail e →
  edges (c_g (step C o).1) = edges (c_g C) ∧ c_bbs (step C o).1 = c_bbs C ∧
  e = match o with OSetOutput _ _ => KeyError | _ => ValueError end.
Proof.
  intros Hb. destruct o; try discriminate; simpl.
  - pose proof (add_g_spec (c_g C) n t fi fo {| af_out := out; af_conn := false; af_redef := false; af_uid := use_uid |} eq_refl eq_refl) as (Ho & _ & _ & _ & Hf).
    destruct (add_g _ _ _ _ _ _) as [[g oc] nm]. simpl in *. intros ->. destruct Ho as [?|[= ->]]; [done|].
    split; [|done]. apply edges_ext. by apply Hf.
  - pose proof (connect_g_fail (c_g C) us vs e) as H. destruct (connect_g _ _ _) as [g oc]. simpl in *. intros Hoc.
    destruct (H Hoc) as [-> ->]. by repeat split.
  - pose proof (set_output_inv (c_g C) ns b) as (_ & _ & Hf & Ho). destruct (set_output_g _ _ _) as [g oc]. simpl in *. intros ->.
    destruct Ho as [?|[= ->]]; [done|]. split; [|done]. by apply edges_ext.
Qed.

(* add: no existing node is overwritten or renamed; the new node has a name that was free (uid=True: also when n is taken) *)
Lemma step_add_preserves C n t fi fo out u :
  let r := step C (OAdd n t fi fo out u) in
  c_bbs r.1 = c_bbs C ∧
  ∀ m i, c_g C !! m = Some i → ∃ i', c_g r.1 !! m = Some i' ∧ n_ty i' = n_ty i ∧ n_out i' = n_out i ∧ n_fi i ⊆ n_fi i'.
Proof.
  simpl. pose proof (add_g_spec (c_g C) n t fi fo {| af_out := out; af_conn := false; af_redef := false; af_uid := u |} eq_refl eq_refl) as (_ & Ha & Hm & _).
  destruct (add_g _ _ _ _ _ _) as [[g oc] nm]. simpl in *. split; [done|]. intros m i Hi.
  destruct (Ha _ _ Hi) as (i' & Hi' & ? & ?). exists i'. repeat split; try done.
  specialize (Hm m). unfold fanin in Hm. by rewrite Hi, Hi' in Hm.
Qed.
Lemma add_g_name_fresh c n t fi fo out u :
  let r := add_g c n t fi fo {| af_out := out; af_conn := false; af_redef := false; af_uid := u |} in
  r.1.2 = Done → r.2 ∉ dom c ∧ ty r.1.1 r.2 = Some t ∧ (u = false → r.2 = n).
Proof.
  simpl. pose proof (add_g_spec c n t fi fo {| af_out := out; af_conn := false; af_redef := false; af_uid := u |} eq_refl eq_refl) as (_ & _ & _ & Hd & _).
  intros Ho. destruct (Hd Ho) as (? & ? & Hn). simpl in Hn. repeat split; try done. by intros ->.
Qed.

(* pins: the basic operations never change the type of a node the caller did not remove *)
Lemma pins_ok_mono C C' (R R' : gset string) :
  c_bbs C' = c_bbs C → R ⊆ R' → (∀ m t, m ∉ R' → ty (c_g C) m = Some t → ty (c_g C') m = Some t) → pins_ok C R → pins_ok C' R'.
Proof.
  unfold pins_ok. intros -> HR Hty H. eapply map_Forall_impl; [exact H|]. simpl. intros inst d [H1 H2].
  split; intros p Hp; [specialize (H1 p Hp)|specialize (H2 p Hp)]; simpl in *;
    (destruct (decide (pin inst p ∈ R')); [by left|right]; (destruct H1 || destruct H2); [set_solver|by apply Hty]).
Qed.
Lemma att_ty c c' m t : att c c' → ty c m = Some t → ty c' m = Some t.
Proof. intros Ha (i & Hi & <-)%ty_Some. destruct (Ha _ _ Hi) as (i' & Hi' & Ht & _). apply ty_Some. eauto. Qed.
Lemma sub_dom_ty c c' m t : sub c' c → dom c' = dom c → ty c m = Some t → ty c' m = Some t.
Proof.
  intros Hs Hd (i & Hi & <-)%ty_Some. assert (Hm : m ∈ dom c') by (rewrite Hd; apply elem_of_dom; eauto).
  apply elem_of_dom in Hm as [i' Hi']. destruct (Hs _ _ Hi') as (i0 & Hi0 & Ht & _). apply ty_Some. exists i'. split; [done|]. congruence.
Qed.
Lemma step_pins_basic C o R : basic_op o = true → pins_ok C R → pins_ok (step C o).1 (R ∪ removed_by o).
Proof.
  intros Hb. destruct o; try discriminate; simpl; apply pins_ok_mono; try set_solver.
  - pose proof (add_g_spec (c_g C) n t fi fo {| af_out := out; af_conn := false; af_redef := false; af_uid := use_uid |} eq_refl eq_refl) as (_ & Ha & _).
    destruct (add_g _ _ _ _ _ _) as [[g oc] nm]. done.
  - pose proof (add_g_spec (c_g C) n t fi fo {| af_out := out; af_conn := false; af_redef := false; af_uid := use_uid |} eq_refl eq_refl) as (_ & Ha & _).
    destruct (add_g _ _ _ _ _ _) as [[g oc] nm]. simpl in *. intros m t0 _. by apply att_ty.
  - by destruct (connect_g _ _ _).
  - pose proof (connect_g_att (c_g C) us vs) as Ha. destruct (connect_g _ _ _) as [g oc]. simpl in *. intros m t0 _. by apply att_ty.
  - simpl. intros m t _. destruct (del_edges_sub (c_g C) (pairs us vs)). by apply sub_dom_ty.
  - simpl. intros m t Hm (i & Hi & <-)%ty_Some. apply ty_Some. rewrite remove_lookup. rewrite decide_False by set_solver. rewrite Hi. simpl. eauto.
  - by destruct (set_output_g _ _ _).
  - pose proof (set_output_inv (c_g C) ns b) as (Hs & Hd & _). destruct (set_output_g _ _ _) as [g oc]. simpl in *. intros m t _. by apply sub_dom_ty.
Qed.
(* ================================================================ add_subcircuit keeps the wiring legal *)
Lemma alter_retype_buf_wiredE c n : (ty c n = Some Input ∨ ty c n = Some Buf ∨ ty c n = None) → wiredE c → wiredE (alter (retype Buf) n c).
Proof.
  intros Hty (Hc & Hn & He).
  assert (HL : ∀ m, alter (retype Buf) n c !! m = if decide (m = n) then retype Buf <$> c !! m else c !! m).
  { intros m. destruct (decide (m = n)) as [->|]; [by rewrite lookup_alter|by rewrite lookup_alter_ne]. }
  assert (HL' : ∀ m j', alter (retype Buf) n c !! m = Some j' → ∃ j, c !! m = Some j ∧ n_fi j' = n_fi j ∧ (n_ty j' = n_ty j ∨ (m = n ∧ n_ty j' = Buf))).
  { intros m j'. rewrite HL. destruct (decide (m = n)) as [->|]; [|eauto].
    destruct (c !! n) as [j|]; [|done]. intros [= <-]. exists j. simpl. eauto. }
  assert (Hdom : ∀ m, m ∈ dom (alter (retype Buf) n c) ↔ m ∈ dom c).
  { intros m. rewrite !elem_of_dom, HL. destruct (decide (m = n)); [|done]. destruct (c !! m); simpl; split; intros [? ?]; eauto; done. }
  assert (Hty' : ∀ f t, ty (alter (retype Buf) n c) f = Some t → t ≠ Buf → ty c f = Some t).
  { intros f t (j' & Hj' & <-)%ty_Some Hne. destruct (HL' _ _ Hj') as (j & Hj & _ & [Ht|[_ Ht]]); [|done]. apply ty_Some. eauto. }
  split; [|split].
  - intros m j' f Hm Hf. destruct (HL' _ _ Hm) as (j & Hj & Hfi & _). apply Hdom. rewrite Hfi in Hf. eauto.
  - intros m j' Hm. destruct (HL' _ _ Hm) as (j & Hj & Hfi & Ht). destruct (Hn _ _ Hj) as (H1 & H2 & H3). rewrite Hfi.
    destruct Ht as [->|[-> ->]]; [done|]. split; [set_solver|]. split; [intros Hx; set_solver|]. intros _.
    assert (Htn : ty c n = Some (n_ty j)) by (unfold ty; by rewrite Hj).
    destruct Hty as [Hi|[Hb|Hno]]; rewrite Htn in *; [injection Hi as Hi|injection Hb as Hb|done].
    + rewrite H2; [rewrite size_empty; lia|rewrite Hi; set_solver].
    + apply H3. rewrite Hb. set_solver.
  - intros m j' f Hm Hf. destruct (HL' _ _ Hm) as (j & Hj & Hfi & Ht). rewrite Hfi in Hf.
    destruct (He _ _ _ Hj Hf) as [H1 H2]. split.
    + intros E. apply Hty' in E; done.
    + intros E. apply Hty' in E; [|done]. destruct (H2 E) as [Hb Hu]. split; [destruct Ht as [->|[_ ->]]; done|].
      intros m' j'' Hm' Hf'. destruct (HL' _ _ Hm') as (j0 & Hj0 & Hfi0 & _). rewrite Hfi0 in Hf'. eauto.
Qed.

Lemma size_set_map_le_1 (ρ : string → string) `{!Inj (=) (=) ρ} (X : gset string) : size X ≤ 1 → size (set_map ρ X : gset string) ≤ 1.
Proof.
  rewrite !size_le_1_unique. intros H x y (a & -> & Ha)%elem_of_map (b & -> & Hb)%elem_of_map. f_equal. eauto.
Qed.

Lemma splice_wiredE c s (ρ : string → string) `{!Inj (=) (=) ρ} :
  (∀ n, n ∈ dom s → ρ n ∉ dom c) → wiredE c → wiredE s → wiredE (update_g c (rename_g ρ s)).
Proof.
  intros Hdisj (Hc & Hn & He) (Hcs & Hns & Hes). set (g := update_g c (rename_g ρ s)).
  assert (R1 : ∀ n, rename_g ρ s !! (ρ n) = upd_fi (set_map ρ) <$> s !! n).
  { intros n. unfold rename_g. by rewrite lookup_kmap, lookup_fmap. }
  assert (R2 : ∀ m, m ∈ dom c → rename_g ρ s !! m = None).
  { intros m Hm. unfold rename_g. apply lookup_kmap_None; [apply _|]. intros n ->. rewrite lookup_fmap.
    destruct (s !! n) eqn:E; [|done]. exfalso. eapply Hdisj; [|exact Hm]. apply elem_of_dom; eauto. }
  assert (R3 : ∀ m j, rename_g ρ s !! m = Some j → ∃ n i, m = ρ n ∧ s !! n = Some i ∧ j = upd_fi (set_map ρ) i).
  { intros m j. unfold rename_g. intros (n & -> & Hn')%lookup_kmap_Some; [|apply _]. rewrite lookup_fmap in Hn'.
    destruct (s !! n) as [i|] eqn:E; [|done]. injection Hn' as <-. eauto. }
  assert (G1 : ∀ m, m ∈ dom c → g !! m = c !! m).
  { intros m Hm. unfold g, update_g. rewrite lookup_union_with, (R2 m Hm). apply elem_of_dom in Hm as [x ->]. done. }
  assert (G2 : ∀ n, n ∈ dom s → g !! (ρ n) = upd_fi (set_map ρ) <$> s !! n).
  { intros n Hn'. unfold g, update_g. rewrite lookup_union_with, R1. rewrite (not_elem_of_dom_1 c (ρ n)) by eauto.
    apply elem_of_dom in Hn' as [x ->]. done. }
  assert (G3 : ∀ m j, g !! m = Some j → (c !! m = Some j) ∨ (∃ n i, m = ρ n ∧ s !! n = Some i ∧ j = upd_fi (set_map ρ) i)).
  { intros m j. unfold g, update_g. rewrite lookup_union_with. destruct (c !! m) as [x|] eqn:Ec.
    - rewrite R2 by (apply elem_of_dom; eauto). simpl. intros [= <-]. by left.
    - destruct (rename_g ρ s !! m) as [y|] eqn:Er; simpl; [|done]. intros [= <-]. right. by apply R3. }
  assert (T1 : ∀ f, f ∈ dom c → ty g f = ty c f) by (intros f Hf; unfold ty; by rewrite G1).
  assert (T2 : ∀ f, f ∈ dom s → ty g (ρ f) = ty s f).
  { intros f Hf. unfold ty. rewrite G2 by done. by destruct (s !! f). }
  split; [|split].
  - intros m j f Hm Hf. destruct (G3 _ _ Hm) as [Hcm|(n & i & -> & Hi & ->)].
    + assert (f ∈ dom c) by eauto. apply elem_of_dom. rewrite G1 by done. by apply elem_of_dom.
    + simpl in Hf. apply elem_of_map in Hf as (f0 & -> & Hf0). assert (f0 ∈ dom s) by eauto.
      apply elem_of_dom. rewrite G2 by done. apply elem_of_dom in H as [x ->]. eauto.
  - intros m j Hm. destruct (G3 _ _ Hm) as [Hcm|(n & i & -> & Hi & ->)]; [eauto|].
    destruct (Hns _ _ Hi) as (H1 & H2 & H3). simpl. split; [done|]. split.
    + intros E. rewrite (H2 E). apply set_map_empty.
    + intros E. apply size_set_map_le_1; [done|]. by apply H3.
  - intros m j f Hm Hf. destruct (G3 _ _ Hm) as [Hcm|(n & i & -> & Hi & ->)].
    + assert (Hfd : f ∈ dom c) by eauto. rewrite T1 by done. destruct (He _ _ _ Hcm Hf) as [H1 H2]. split; [done|].
      intros E. destruct (H2 E) as [Hb Hu]. split; [done|]. intros m' j' Hm' Hf'.
      destruct (G3 _ _ Hm') as [Hcm'|(n' & i' & -> & Hi' & ->)]; [eauto|exfalso].
      simpl in Hf'. apply elem_of_map in Hf' as (f0 & -> & Hf0). eapply Hdisj; [|exact Hfd]. eauto.
    + simpl in Hf. apply elem_of_map in Hf as (f0 & -> & Hf0). assert (Hfd : f0 ∈ dom s) by eauto.
      rewrite T2 by done. destruct (Hes _ _ _ Hi Hf0) as [H1 H2]. split; [done|].
      intros E. destruct (H2 E) as [Hb Hu]. split; [done|]. intros m' j' Hm' Hf'.
      destruct (G3 _ _ Hm') as [Hcm'|(n' & i' & -> & Hi' & ->)].
      * exfalso. eapply (Hdisj f0 Hfd). eauto.
      * simpl in Hf'. apply elem_of_map in Hf' as (f1 & Heq & Hf1). apply (inj ρ) in Heq as <-. f_equal. eauto.
Qed.

Lemma splice_ty c s (ρ : string → string) `{!Inj (=) (=) ρ} n :
  (∀ n, n ∈ dom s → ρ n ∉ dom c) → n ∈ dom s → ty (update_g c (rename_g ρ s)) (ρ n) = ty s n.
Proof.
  intros Hdisj Hn. unfold ty, update_g, rename_g. rewrite lookup_union_with, lookup_kmap, lookup_fmap.
  rewrite (not_elem_of_dom_1 c (ρ n)) by eauto. apply elem_of_dom in Hn as [x ->]. done. apply _.
Qed.

Lemma unmark_sub_dom c n : sub (alter unmark n c) c ∧ dom (alter unmark n c) = dom c.
Proof.
  split.
  - intros m i'. destruct (decide (m = n)) as [->|]; [rewrite lookup_alter|rewrite lookup_alter_ne by done; eauto].
    destruct (c !! n) as [i|]; [|done]. intros [= <-]. exists i. done.
  - apply set_eq. intros m. rewrite !elem_of_dom, <- !not_eq_None_Some.
    destruct (decide (m = n)) as [->|]; [rewrite lookup_alter_None|rewrite lookup_alter_ne]; done.
Qed.
Lemma alter_retype_ty c n m : ty (alter (retype Buf) n c) m = if decide (m = n) then (λ _, Buf) <$> ty c m else ty c m.
Proof.
  unfold ty. destruct (decide (m = n)) as [->|]; [rewrite lookup_alter|by rewrite lookup_alter_ne]. by destruct (c !! n).
Qed.

Lemma foldr_inv {A B} (P : B → Prop) (f : A → B → B) l b : P b → (∀ x a, x ∈ l → P a → P (f x a)) → P (foldr f b l).
Proof. intros Hb Hf. induction l as [|x l IH]; simpl; [done|]. apply Hf; [set_solver|]. apply IH. intros y a Hy. apply Hf. set_solver. Qed.

Lemma add_subcircuit_wired strip C SC name conns : tables_ok → Inv C → Inv SC → Inv (add_subcircuit_gen strip C SC name conns).1.
Proof.
  intros HT Hw Hs. unfold Inv in *. unfold add_subcircuit_gen.
  destruct (existsb _ (elements (dom (c_bbs SC)))); [done|].
  destruct (existsb _ (elements (dom (c_g SC)))) eqn:Eov; [done|].
  destruct (existsb _ conns); [done|]. cbv zeta.
  assert (Hdisj : ∀ n, n ∈ dom (c_g SC) → pre name n ∉ dom (c_g C)).
  { intros n Hn. assert (Hf : negb (existsb (λ n, bool_decide (pre name n ∈ dom (c_g C))) (elements (dom (c_g SC)))) = true) by (by rewrite Eov).
    pose proof (negb_existsb_false _ _ Hf n) as H. simpl in H. specialize (H ltac:(by apply elem_of_elements)). by apply bool_decide_eq_false in H. }
  set (g0 := update_g (c_g C) (rename_g (pre name) (c_g SC))).
  assert (H0 : wiredE g0) by (apply splice_wiredE; [apply _|done|by apply wired_iff|by apply wired_iff]).
  set (g1 := if strip then set_fold _ g0 (inputs (c_g SC)) else g0).
  assert (H1 : wiredE g1).
  { unfold g1. destruct strip; [|done].
    unfold set_fold. simpl.
    apply (foldr_inv (λ g, wiredE g ∧ ∀ m, ty g m = ty g0 m ∨ ty g m = Some Buf)); [split; [done|by left]|].
    intros x g Hx%elem_of_elements [Hg Ht]. split.
    - apply alter_retype_buf_wiredE; [|done]. destruct (Ht (pre name x)) as [E|E]; [|tauto]. rewrite E.
      left. unfold g0. rewrite splice_ty; [|apply _|done|]; apply elem_of_inputs in Hx as (i & Hi & Hty); [unfold ty; by rewrite Hi, <- Hty|apply elem_of_dom; eauto].
    - intros m. rewrite alter_retype_ty. destruct (decide (m = pre name x)); [|done].
      destruct (Ht m) as [E|E]; rewrite E; [destruct (ty g0 m); simpl; eauto|by right]. }
  set (g2 := if strip then set_fold _ g1 (outputs (c_g SC)) else g1).
  assert (H2 : wiredE g2).
  { unfold g2. destruct strip; [|done]. apply wired_iff.
    apply (set_fold_ind_L (λ g _, wired g)); [by apply wired_iff|].
    intros x X g Hx Hg. destruct (unmark_sub_dom g (pre name x)). by eapply wired_sub_dom. }
  set (r := foldl _ (g2, Done) conns).
  assert (Hr : wired r.1).
  { apply (foldl_inv (λ st : circuit * outcome, wired st.1)); [by apply wired_iff|].
    intros [g o] [k vs] Hg. simpl in *. destruct o; [|done]. destruct (bool_decide (k ∈ inputs (c_g SC))); by apply connect_wired. }
  destruct r as [gr o]. simpl in *. destruct o as [|[]]; simpl; try done. by apply remove_wired.
Qed.

(* every operation except fill_blackbox; a subcircuit argument must itself be legally wired *)
Definition sc_inv (o : op) : Prop := match o with OAddSubcircuit SC _ _ | OFillBlackbox _ SC => Inv SC | _ => True end.
Definition not_fill (o : op) : bool := match o with OFillBlackbox _ _ => false | _ => true end.
Lemma step_inv_nofill C o : tables_ok → not_fill o = true → sc_inv o → Inv C → Inv (step C o).1.
Proof.
  intros HT Hnf Hsc Hw. destruct o; try discriminate; try (by apply step_inv_core).
  simpl. by apply add_subcircuit_wired.
Qed.
Lemma run_inv_nofill C ops : tables_ok → Forall (λ o, not_fill o = true ∧ sc_inv o) ops → Inv C → Inv (run C ops).
Proof.
  intros HT Hops. revert C. unfold run. induction Hops as [|o ops [Ho Hs] _ IH]; intros C Hw; simpl; [done|].
  apply IH. by apply step_inv_nofill.
Qed.
(* ================================================================ a rejected add_blackbox leaves no trace *)
Lemma add_g_nil c n t :
  add_g c n t [] [] af_default =
    if bool_decide (n ∈ dom c) then (c, Fail ValueError, n) else
    if negb (bool_decide (t ∈ supported_types)) then (c, Fail ValueError, n) else
    if bool_decide (n = "") then (c, Fail ValueError, n) else
    if starts_digit n then (c, Fail ValueError, n) else (<[n := mk_node t false (fanin c n)]> c, Done, n).
Proof.
  unfold add_g. simpl. rewrite andb_true_r. destruct (bool_decide (n ∈ dom c)); [done|].
  destruct (negb (bool_decide (t ∈ supported_types))); [done|]. simpl.
  destruct (bool_decide (n = "")); [done|]. destruct (starts_digit n); [done|]. done.
Qed.

(* state of the two loops: g differs from c only by fresh nodes `io` and by wires from/to them *)
Definition bb_rel (c g : circuit) (io : list string) : Prop :=
  (∀ m, m ∈ io → m ∉ dom c) ∧
  (∀ m, m ∉ io → (n_ty <$> g !! m) = (n_ty <$> c !! m) ∧ (n_out <$> g !! m) = (n_out <$> c !! m) ∧ fanin g m ∖ list_to_set io = fanin c m).
Lemma bb_rel_remove c g io : bb_rel c g io → ∀ m, fanin (remove_g g io) m = fanin c m.
Proof.
  intros [Hf Hr] m. unfold fanin at 1. rewrite remove_lookup. destruct (decide (m ∈ (list_to_set io : gset string))) as [Hin|Hin].
  - simpl. apply elem_of_list_to_set in Hin. specialize (Hf m Hin). unfold fanin. by rewrite (not_elem_of_dom_1 _ _ Hf).
  - rewrite elem_of_list_to_set in Hin. destruct (Hr m Hin) as (_ & _ & <-). unfold fanin. destruct (g !! m); simpl; set_solver.
Qed.
Lemma bb_rel_remove_eq c g io : bb_rel c g io → remove_g g io = c.
Proof.
  intros [Hf Hr]. apply map_eq. intros m. rewrite remove_lookup. destruct (decide (m ∈ (list_to_set io : gset string))) as [Hin|Hin].
  - apply elem_of_list_to_set in Hin. specialize (Hf m Hin). by rewrite (not_elem_of_dom_1 _ _ Hf).
  - rewrite elem_of_list_to_set in Hin. destruct (Hr m Hin) as (Ht & Ho & Hfi). unfold fanin in Hfi.
    destruct (g !! m) as [[t o fi]|], (c !! m) as [[t' o' fi']|]; simpl in *; try done.
    injection Ht as <-. injection Ho as <-. subst fi'. done.
Qed.

Section add_blackbox_reject.
  Context (c : circuit) (inst : string) (Hc : closed c).
  Let P (st : circuit * list string * outcome) : Prop := bb_rel c st.1.1 st.1.2 ∧ (st.2 = Done ∨ st.2 = Fail ValueError).
  Let f := (λ (st : circuit * list string * outcome) (pt : string * gtype), match st with
                  | (g, io, Done) => let '(g', o, nm) := add_g g (pin inst pt.1) pt.2 [] [] af_default in
                                     (g', match o with Done => nm :: io | _ => io end, o)
                  | _ => st end).
  Lemma mkpins_step st pt : P st → P (f st pt) ∧ (∀ x, x ∈ st.1.2 → x ∈ (f st pt).1.2) ∧ ((f st pt).2 = Done → pin inst pt.1 ∈ (f st pt).1.2).
  Proof.
    destruct st as [[g io] o], pt as [p t]. unfold P, f. simpl. intros [[Hf Hr] Ho]. destruct o as [|e].
    2:{ split; [done|]. split; [done|]. intros [=]. }
    rewrite add_g_nil. set (n := pin inst p).
    destruct (bool_decide (n ∈ dom g)) eqn:En; [simpl; split; [split; [done|by right]|split; done]|].
    repeat (match goal with |- context [if ?b then (g, Fail ValueError, n) else _] => destruct b; [simpl; split; [split; [done|by right]|split; done]|] end).
    apply bool_decide_eq_false in En. simpl.
    assert (Hnc : n ∉ dom c).
    { destruct (decide (n ∈ io)) as [Hin|Hin]; [by apply Hf|]. destruct (Hr n Hin) as (Ht & _).
      rewrite (not_elem_of_dom_1 _ _ En) in Ht. intros [x Hx]%elem_of_dom. rewrite Hx in Ht. done. }
    split; [|split; [set_solver|intros _; set_solver]]. split; [|by left]. split.
    - intros m [->|Hm]%elem_of_cons; [done|by apply Hf].
    - intros m Hm. apply not_elem_of_cons in Hm as [Hne Hm]. destruct (Hr m Hm) as (Ht & Hou & Hfi).
      assert (Hfg : fanin (<[n:=mk_node t false (fanin g n)]> g) m = fanin g m) by (unfold fanin; by rewrite lookup_insert_ne).
      rewrite lookup_insert_ne by done. split; [done|]. split; [done|]. rewrite Hfg.
      assert (n ∉ fanin c m).
      { intros (i & Hi & Hin)%elem_of_fanin. apply Hnc. eauto. }
      rewrite <- Hfi in H |- *. set_solver.
  Qed.
  Lemma mkpins_spec l st : P st →
    P (foldl f st l) ∧ (∀ x, x ∈ st.1.2 → x ∈ (foldl f st l).1.2) ∧ ((foldl f st l).2 = Done → ∀ pt, pt ∈ l → pin inst pt.1 ∈ (foldl f st l).1.2).
  Proof.
    revert st. induction l as [|pt l IH]; intros st HP; simpl.
    - split; [done|]. split; [done|]. intros _ pt Hpt. by apply elem_of_nil in Hpt.
    - destruct (mkpins_step st pt HP) as (HP' & Hmono & Hpin). destruct (IH _ HP') as (HP'' & Hmono' & Hpins).
      split; [done|]. split; [eauto|]. intros Hd pt' [->|Hin]%elem_of_cons; [|by apply Hpins].
      apply Hmono', Hpin. (* the loop only stays Done if every step was Done *)
      clear -Hd. revert Hd. generalize (f st pt). clear. induction l as [|q l IH]; simpl; [done|]. intros st Hd.
      specialize (IH _ Hd). destruct st as [[g io] [|e]]; [done|]. simpl in IH. done.
  Qed.
End add_blackbox_reject.

Lemma conns_step c g io d inst (kv : string * list string) :
  bb_rel c g io → (∀ k, k ∈ bb_in d ∪ bb_out d → pin inst k ∈ io) →
  let r := if bool_decide (kv.1 ∈ bb_in d) then connect_g g kv.2 [pin inst kv.1]
           else if bool_decide (kv.1 ∈ bb_out d) then connect_g g [pin inst kv.1] kv.2 else (g, Fail ValueError) in
  bb_rel c r.1 io ∧ (r.2 = Done ∨ r.2 = Fail ValueError).
Proof.
  intros [Hf Hr] Hio. destruct kv as [k vs]. simpl.
  assert (Hgen : ∀ us ws, (∀ m, m ∉ io → m ∈ ws → list_to_set us ⊆ (list_to_set io : gset string)) →
            bb_rel c (connect_g g us ws).1 io ∧ ((connect_g g us ws).2 = Done ∨ (connect_g g us ws).2 = Fail ValueError)).
  { intros us ws Hside. destruct (connect_g g us ws).2 eqn:E.
    - split; [|by left]. split; [done|]. intros m Hm. destruct (Hr m Hm) as (Ht & Ho & Hfi).
      unfold fanin. rewrite (connect_g_lookup _ _ _ _ E). unfold fanin in Hfi.
      destruct (g !! m) as [i|]; simpl in *; [|done]. split; [done|]. split; [done|]. rewrite <- Hfi.
      destruct (decide (m ∈ ws)) as [Hw|]; [|set_solver]. specialize (Hside m Hm Hw). set_solver.
    - apply connect_g_fail in E as [-> ->]. split; [done|by right]. }
  destruct (bool_decide (k ∈ bb_in d)) eqn:E1.
  - apply bool_decide_eq_true in E1. apply Hgen. intros m Hm ->%elem_of_list_singleton. exfalso. apply Hm, Hio. set_solver.
  - destruct (bool_decide (k ∈ bb_out d)) eqn:E2; [|simpl; split; [done|by right]].
    apply bool_decide_eq_true in E2. apply Hgen. intros m _ _ x. rewrite !elem_of_list_to_set. intros ->%elem_of_list_singleton.
    apply Hio. set_solver.
Qed.

(* a rejected add_blackbox raises ValueError and leaves the circuit exactly as it was *)
Lemma add_blackbox_reject C d inst ins outs conns e :
  closed (c_g C) → list_to_set ins = bb_in d → list_to_set outs = bb_out d →
  (add_blackbox C d inst ins outs conns).2 = Fail e → e = ValueError ∧ (add_blackbox C d inst ins outs conns).1 = C.
Proof.
  intros Hc Hins Houts. unfold add_blackbox. destruct (bool_decide (inst ∈ dom (c_bbs C))); [simpl; by intros [= <-]|]. cbv zeta.
  set (F := foldl _ (_, [], Done) _).
  assert (HP0 : bb_rel (c_g C) (c_g C, @nil string, Done).1.1 (c_g C, @nil string, Done).1.2 ∧ ((c_g C, @nil string, Done).2 = Done ∨ (c_g C, @nil string, Done).2 = Fail ValueError)).
  { simpl. split; [|by left]. split; [intros m Hm; by apply elem_of_nil in Hm|]. intros m _. split; [done|]. split; [done|]. simpl. set_solver. }
  pose proof (mkpins_spec (c_g C) inst Hc (((λ p, (p, BbIn)) <$> ins) ++ ((λ p, (p, BbOut)) <$> outs)) (c_g C, [], Done) HP0) as Hspec.
  change (foldl _ (c_g C, [], Done) _) with F in Hspec. destruct Hspec as ([Hrel Ho] & _ & Hpins).
  destruct F as [[g io] o]. simpl in *. cbv beta iota.
  destruct o as [|e0].
  2:{ destruct Ho as [|[= ->]]; [done|]. simpl. intros [= <-]. split; [done|]. rewrite (bb_rel_remove_eq _ _ _ Hrel). by destruct C. }
  assert (Hio : ∀ k, k ∈ bb_in d ∪ bb_out d → pin inst k ∈ io).
  { intros k Hk. rewrite <- Hins, <- Houts in Hk. apply elem_of_union in Hk as [Hk|Hk]; apply elem_of_list_to_set in Hk.
    - apply (Hpins eq_refl (k, BbIn)). apply elem_of_app. left. apply elem_of_list_fmap. eauto.
    - apply (Hpins eq_refl (k, BbOut)). apply elem_of_app. right. apply elem_of_list_fmap. eauto. }
  set (r := foldl _ (g, Done) conns).
  assert (Hr : bb_rel (c_g C) r.1 io ∧ (r.2 = Done ∨ r.2 = Fail ValueError)).
  { apply (foldl_inv (λ st : circuit * outcome, bb_rel (c_g C) st.1 io ∧ (st.2 = Done ∨ st.2 = Fail ValueError))); [split; [done|by left]|].
    intros [g0 o0] kv [Hg0 Ho0]. simpl in *. destruct o0; [|done]. by apply conns_step. }
  destruct r as [gr o]. simpl in *. destruct Hr as [Hrel' [-> | ->]]; simpl; [done|]. intros [= <-]. split; [done|].
  rewrite (bb_rel_remove_eq _ _ _ Hrel'). by destruct C.
Qed.
(* ================================================================ a rejected add_subcircuit leaves no trace *)
Lemma connect_bb_rel c g io us ws :
  bb_rel c g io → (∀ m, m ∉ io → m ∈ ws → list_to_set us ⊆ (list_to_set io : gset string)) →
  bb_rel c (connect_g g us ws).1 io ∧ ((connect_g g us ws).2 = Done ∨ (connect_g g us ws).2 = Fail ValueError).
Proof.
  intros [Hf Hr] Hside. destruct (connect_g g us ws).2 eqn:E.
  - split; [|by left]. split; [done|]. intros m Hm. destruct (Hr m Hm) as (Ht & Ho & Hfi).
    unfold fanin. rewrite (connect_g_lookup _ _ _ _ E). unfold fanin in Hfi.
    destruct (g !! m) as [i|]; simpl in *; [|done]. split; [done|]. split; [done|]. rewrite <- Hfi.
    destruct (decide (m ∈ ws)) as [Hw|]; [|set_solver]. specialize (Hside m Hm Hw). set_solver.
  - apply connect_g_fail in E as [-> ->]. split; [done|by right].
Qed.

Lemma foldl_inv_in {A B} (P : A → Prop) (f : A → B → A) l a : P a → (∀ a b, b ∈ l → P a → P (f a b)) → P (foldl f a l).
Proof.
  intros Ha Hf. revert a Ha. induction l as [|b l IH]; intros a Ha; simpl; [done|].
  apply IH; [intros a' b' Hb'; apply Hf; set_solver|]. apply Hf; [set_solver|done].
Qed.

Lemma add_subcircuit_reject strip C SC name conns e :
  closed (c_g C) → (add_subcircuit_gen strip C SC name conns).2 = Fail e →
  e = ValueError ∧ (add_subcircuit_gen strip C SC name conns).1 = C.
Proof.
  intros Hc. unfold add_subcircuit_gen.
  destruct (existsb _ (elements (dom (c_bbs SC)))); [simpl; by intros [= <-]|].
  destruct (existsb _ (elements (dom (c_g SC)))) eqn:Eov; [simpl; by intros [= <-]|].
  destruct (existsb _ conns) eqn:Ekeys; [simpl; by intros [= <-]|]. cbv zeta.
  set (io := pre name <$> elements (dom (c_g SC))).
  assert (Hio : ∀ n, n ∈ dom (c_g SC) → pre name n ∈ io).
  { intros n Hn. unfold io. apply elem_of_list_fmap. exists n. split; [done|]. by apply elem_of_elements. }
  assert (Hdisj : ∀ m, m ∈ io → m ∉ dom (c_g C)).
  { intros m (n & -> & Hn%elem_of_elements)%elem_of_list_fmap.
    assert (Hf : negb (existsb (λ n, bool_decide (pre name n ∈ dom (c_g C))) (elements (dom (c_g SC)))) = true) by (by rewrite Eov).
    pose proof (negb_existsb_false _ _ Hf n) as H. simpl in H. specialize (H ltac:(by apply elem_of_elements)). by apply bool_decide_eq_false in H. }
  set (g0 := update_g (c_g C) (rename_g (pre name) (c_g SC))).
  assert (H0 : ∀ m, m ∉ io → g0 !! m = c_g C !! m).
  { intros m Hm. unfold g0, update_g. rewrite lookup_union_with.
    assert (rename_g (pre name) (c_g SC) !! m = None) as ->.
    { unfold rename_g. apply lookup_kmap_None; [apply _|]. intros n ->. rewrite lookup_fmap.
      destruct (c_g SC !! n) eqn:E; [|done]. exfalso. apply Hm, Hio. apply elem_of_dom. eauto. }
    by destruct (c_g C !! m). }
  set (g1 := if strip then set_fold _ g0 (inputs (c_g SC)) else g0).
  assert (H1 : ∀ m, m ∉ io → g1 !! m = c_g C !! m).
  { unfold g1. destruct strip; [|done]. unfold set_fold. simpl.
    apply (foldr_inv (λ g, ∀ m, m ∉ io → g !! m = c_g C !! m)); [done|].
    intros x g Hx%elem_of_elements Hg m Hm. rewrite lookup_alter_ne; [by apply Hg|]. intros <-. apply Hm, Hio.
    apply elem_of_inputs in Hx as (i & Hi & _). apply elem_of_dom. eauto. }
  set (g2 := if strip then set_fold _ g1 (outputs (c_g SC)) else g1).
  assert (H2 : ∀ m, m ∉ io → g2 !! m = c_g C !! m).
  { unfold g2. destruct strip; [|done]. unfold set_fold. simpl.
    apply (foldr_inv (λ g, ∀ m, m ∉ io → g !! m = c_g C !! m)); [done|].
    intros x g Hx%elem_of_elements Hg m Hm. rewrite lookup_alter_ne; [by apply Hg|]. intros <-. apply Hm, Hio.
    apply elem_of_outputs in Hx as (i & Hi & _). apply elem_of_dom. eauto. }
  assert (Hrel : bb_rel (c_g C) g2 io).
  { split; [done|]. intros m Hm. unfold fanin. rewrite (H2 m Hm). split; [done|]. split; [done|].
    apply set_eq. intros f. rewrite elem_of_difference, elem_of_list_to_set. split; [tauto|]. intros Hf. split; [done|].
    intros Hfio. apply (Hdisj f Hfio). destruct (c_g C !! m) as [i|] eqn:E; simpl in Hf; [eauto|set_solver]. }
  set (r := foldl _ (g2, Done) conns).
  assert (Hr : bb_rel (c_g C) r.1 io ∧ (r.2 = Done ∨ r.2 = Fail ValueError)).
  { apply (foldl_inv_in (λ st : circuit * outcome, bb_rel (c_g C) st.1 io ∧ (st.2 = Done ∨ st.2 = Fail ValueError))); [split; [done|by left]|].
    intros [g o] [k vs] Hin [Hg Ho]. simpl in *. destruct o; [|done].
    destruct (bool_decide (k ∈ inputs (c_g SC))) eqn:Ek.
    - apply connect_bb_rel; [done|]. intros m Hm ->%elem_of_list_singleton. exfalso. apply Hm, Hio.
      apply bool_decide_eq_true in Ek. apply elem_of_inputs in Ek as (i & Hi & _). apply elem_of_dom. eauto.
    - apply connect_bb_rel; [done|]. intros m _ _ x. rewrite !elem_of_list_to_set. intros ->%elem_of_list_singleton. apply Hio.
      assert (Hf : negb (existsb (λ kv : string * list string, negb (bool_decide (kv.1 ∈ inputs (c_g SC))) && negb (bool_decide (kv.1 ∈ outputs (c_g SC)))) conns) = true) by (by rewrite Ekeys).
      pose proof (negb_existsb_false _ _ Hf (k, vs) Hin) as Hk. simpl in Hk. rewrite Ek in Hk. simpl in Hk.
      apply negb_false_iff, bool_decide_eq_true in Hk. apply elem_of_outputs in Hk as (i & Hi & _). apply elem_of_dom. eauto. }
  destruct r as [gr o]. simpl in *. destruct Hr as [Hrel' [-> | ->]]; simpl; [done|]. intros [= <-]. split; [done|].
  fold io. rewrite (bb_rel_remove_eq _ _ _ Hrel'). by destruct C.
Qed.

(* every operation: a rejected call changes no wire and not the registry, and raises ValueError (set_output: KeyError) *)
Definition orders_ok (o : op) : Prop :=
  match o with OAddBlackbox d _ ins outs _ => list_to_set ins = bb_in d ∧ list_to_set outs = bb_out d | _ => True end.
Lemma step_reject_all C o e : closed (c_g C) → orders_ok o → (step C o).2 = Fail e →
  edges (c_g (step C o).1) = edges (c_g C) ∧ c_bbs (step C o).1 = c_bbs C ∧
  e = match o with OSetOutput _ _ => KeyError | _ => ValueError end.
Proof.
  intros Hc Hord. destruct o; try (by apply step_reject_basic).
  - destruct Hord as [Hi Ho]. intros Hf. destruct (add_blackbox_reject C d inst ins outs conns e Hc Hi Ho Hf) as [-> HC].
    simpl. by rewrite HC.
  - intros Hf. destruct (add_subcircuit_reject true C SC name conns e Hc Hf) as [-> HC]. simpl. unfold add_subcircuit. by rewrite HC.
  - simpl. unfold fill_blackbox. repeat case_match; simpl; intros [=]; done.
Qed.
(* ================================================================ add_blackbox: the pins of the new instance *)
Section add_blackbox_pins.
  Context (inst : string).
  Let f := (λ (st : circuit * list string * outcome) (pt : string * gtype), match st with
                  | (g, io, Done) => let '(g', o, nm) := add_g g (pin inst pt.1) pt.2 [] [] af_default in
                                     (g', match o with Done => nm :: io | _ => io end, o)
                  | _ => st end).
  Lemma mkpins_done_prefix l st : (foldl f st l).2 = Done → st.2 = Done.
  Proof.
    revert st. induction l as [|q l IH]; simpl; [done|]. intros st Hd. specialize (IH _ Hd).
    destruct st as [[g io] [|e]]; [done|]. simpl in IH. done.
  Qed.
  Lemma mkpins_ty_step st pt : att st.1.1 (f st pt).1.1 ∧ ((f st pt).2 = Done → ty (f st pt).1.1 (pin inst pt.1) = Some pt.2).
  Proof.
    destruct st as [[g io] o], pt as [p t]. unfold f. simpl. destruct o as [|e]; [|split; [apply att_refl|intros [=]]].
    rewrite add_g_nil. set (n := pin inst p).
    destruct (bool_decide (n ∈ dom g)) eqn:En; [simpl; split; [apply att_refl|intros [=]]|].
    repeat (match goal with |- context [if ?b then (g, Fail ValueError, n) else _] => destruct b; [simpl; split; [apply att_refl|intros [=]]|] end).
    apply bool_decide_eq_false in En. simpl. split.
    - intros m i Hi. exists i. split; [|done]. rewrite lookup_insert_ne; [done|]. intros <-. apply En, elem_of_dom. eauto.
    - intros _. unfold ty. by rewrite lookup_insert.
  Qed.
  Lemma mkpins_ty l st :
    att st.1.1 (foldl f st l).1.1 ∧ ((foldl f st l).2 = Done → ∀ pt, pt ∈ l → ty (foldl f st l).1.1 (pin inst pt.1) = Some pt.2).
  Proof.
    revert st. induction l as [|pt l IH]; intros st; simpl.
    - split; [apply att_refl|]. intros _ pt Hpt. by apply elem_of_nil in Hpt.
    - destruct (mkpins_ty_step st pt) as [Ha Ht]. destruct (IH (f st pt)) as [Ha' Ht']. split; [eauto using att_trans|].
      intros Hd pt' [->|Hin]%elem_of_cons; [|by apply Ht'].
      eapply att_ty; [exact Ha'|]. apply Ht. by apply mkpins_done_prefix in Hd.
  Qed.
End add_blackbox_pins.

Lemma add_blackbox_pins C d inst ins outs conns R :
  closed (c_g C) → list_to_set ins = bb_in d → list_to_set outs = bb_out d →
  pins_ok C R → pins_ok (add_blackbox C d inst ins outs conns).1 R.
Proof.
  intros Hc Hins Houts Hp.
  destruct (add_blackbox C d inst ins outs conns).2 eqn:Eo.
  2:{ destruct (add_blackbox_reject C d inst ins outs conns e Hc Hins Houts Eo) as [_ ->]. done. }
  revert Eo. unfold add_blackbox. destruct (bool_decide (inst ∈ dom (c_bbs C))) eqn:Einst; [done|]. cbv zeta.
  apply bool_decide_eq_false in Einst.
  set (F := foldl _ (_, [], Done) _).
  pose proof (mkpins_ty inst (((λ p, (p, BbIn)) <$> ins) ++ ((λ p, (p, BbOut)) <$> outs)) (c_g C, [], Done)) as Hspec.
  change (foldl _ (c_g C, [], Done) _) with F in Hspec. destruct Hspec as [Ha Ht]. simpl in Ha.
  destruct F as [[g io] o]. simpl in *. cbv beta iota.
  destruct o as [|e0]; [|simpl; by destruct e0].
  specialize (Ht eq_refl).
  set (r := foldl _ (g, Done) conns).
  assert (Hr : att g r.1).
  { apply (foldl_inv (λ st : circuit * outcome, att g st.1)); [apply att_refl|].
    intros [g0 o0] kv Hg0. simpl in *. destruct o0; [|done].
    destruct (bool_decide (kv.1 ∈ bb_in d)); [eapply att_trans; [exact Hg0|apply connect_g_att]|].
    destruct (bool_decide (kv.1 ∈ bb_out d)); [eapply att_trans; [exact Hg0|apply connect_g_att]|done]. }
  destruct r as [gr o]. simpl in *. destruct o as [|[]]; simpl; try done. intros _.
  unfold pins_ok. simpl. apply map_Forall_insert; [by apply not_elem_of_dom|]. split.
  - split; intros p Hp'; right; eapply att_ty; try exact Hr.
    + apply (Ht (p, BbIn)). apply elem_of_app. left. apply elem_of_list_fmap. exists p. split; [done|]. rewrite <- Hins in Hp'. by apply elem_of_list_to_set in Hp'.
    + apply (Ht (p, BbOut)). apply elem_of_app. right. apply elem_of_list_fmap. exists p. split; [done|]. rewrite <- Houts in Hp'. by apply elem_of_list_to_set in Hp'.
  - eapply map_Forall_impl; [exact Hp|]. simpl. intros inst' d' [H1 H2].
    split; intros p Hp'; [destruct (H1 p Hp') as [?|Hty]|destruct (H2 p Hp') as [?|Hty]]; try (by left); right;
      (eapply att_ty; [exact Hr|]; eapply att_ty; [exact Ha|done]).
Qed.
(* ================================================================ add_subcircuit: pins of old and imported instances *)
Lemma pin_pre name b p : pin (pre name b) p = pre name (pin b p).
Proof.
  assert (Hassoc : ∀ a b c : string, (a ++ b) ++ c = a ++ (b ++ c)) by (intros a; induction a as [|ch a IH]; intros b0 c0; [done|]; change (String ch ((a ++ b0) ++ c0) = String ch (a ++ (b0 ++ c0))); by rewrite IH).
  unfold pin, pre. by rewrite !Hassoc.
Qed.

Lemma add_subcircuit_pins strip C SC name conns R :
  closed (c_g C) → pins_ok C R → pins_ok SC ∅ → pins_ok (add_subcircuit_gen strip C SC name conns).1 R.
Proof.
  intros Hc Hp Hps.
  destruct (add_subcircuit_gen strip C SC name conns).2 eqn:Eo.
  2:{ destruct (add_subcircuit_reject strip C SC name conns e Hc Eo) as [_ ->]. done. }
  revert Eo. unfold add_subcircuit_gen.
  destruct (existsb _ (elements (dom (c_bbs SC)))); [done|].
  destruct (existsb _ (elements (dom (c_g SC)))) eqn:Eov; [done|].
  destruct (existsb _ conns); [done|]. cbv zeta.
  assert (Hdisj : ∀ n, n ∈ dom (c_g SC) → pre name n ∉ dom (c_g C)).
  { intros n Hn. assert (Hf : negb (existsb (λ n, bool_decide (pre name n ∈ dom (c_g C))) (elements (dom (c_g SC)))) = true) by (by rewrite Eov).
    pose proof (negb_existsb_false _ _ Hf n) as H. simpl in H. specialize (H ltac:(by apply elem_of_elements)). by apply bool_decide_eq_false in H. }
  set (g0 := update_g (c_g C) (rename_g (pre name) (c_g SC))).
  (* what the final graph must know about types *)
  set (Q := λ g : circuit, (∀ m t, ty (c_g C) m = Some t → ty g m = Some t) ∧
                           (∀ n t, t ≠ Input → ty (c_g SC) n = Some t → ty g (pre name n) = Some t)).
  assert (H0 : Q g0).
  { split.
    - intros m t (i & Hi & <-)%ty_Some. unfold ty, g0, update_g. rewrite lookup_union_with.
      assert (rename_g (pre name) (c_g SC) !! m = None) as ->.
      { unfold rename_g. apply lookup_kmap_None; [apply _|]. intros n ->. rewrite lookup_fmap.
        destruct (c_g SC !! n) eqn:E; [|done]. exfalso. eapply Hdisj; apply elem_of_dom; eauto. }
      by rewrite Hi.
    - intros n t _ Ht. unfold g0. rewrite splice_ty; [done|apply _|done|]. apply ty_Some in Ht as (i & Hi & _). apply elem_of_dom. eauto. }
  set (g1 := if strip then set_fold _ g0 (inputs (c_g SC)) else g0).
  assert (H1 : Q g1).
  { unfold g1. destruct strip; [|done]. unfold set_fold. simpl. apply (foldr_inv Q); [done|].
    intros x g Hx%elem_of_elements [Hq1 Hq2]. apply elem_of_inputs in Hx as (i & Hi & Hti).
    split.
    - intros m t Ht. rewrite alter_retype_ty. rewrite decide_False; [by apply Hq1|]. intros ->.
      apply ty_Some in Ht as (j & Hj & _). eapply Hdisj; apply elem_of_dom; eauto.
    - intros n t Hne Ht. rewrite alter_retype_ty. rewrite decide_False; [by apply Hq2|]. intros Heq%(inj (pre name)). subst n.
      apply ty_Some in Ht as (j & Hj & <-). congruence. }
  set (g2 := if strip then set_fold _ g1 (outputs (c_g SC)) else g1).
  assert (Hty_unmark : ∀ g n m, ty (alter unmark n g) m = ty g m).
  { intros g n m. unfold ty. destruct (decide (m = n)) as [->|]; [rewrite lookup_alter; by destruct (g !! n)|by rewrite lookup_alter_ne]. }
  assert (H2 : Q g2).
  { unfold g2. destruct strip; [|done]. unfold set_fold. simpl. apply (foldr_inv Q); [done|].
    intros x g _ [Hq1 Hq2]. split; intros; rewrite Hty_unmark; eauto. }
  set (r := foldl _ (g2, Done) conns).
  assert (Hr : Q r.1).
  { apply (foldl_inv (λ st : circuit * outcome, Q st.1)); [done|].
    intros [g o] [k vs] [Hq1 Hq2]. simpl in *. destruct o; [|done].
    destruct (bool_decide (k ∈ inputs (c_g SC))); (split; intros; (eapply att_ty; [apply connect_g_att|eauto])). }
  destruct r as [gr o]. simpl in *. destruct o as [|[]]; simpl; try done. intros _. destruct Hr as [Hq1 Hq2].
  unfold pins_ok. simpl.
  apply (map_fold_ind (λ acc (m : gmap string bbdef), (∀ b d, m !! b = Some d → c_bbs SC !! b = Some d) →
     map_Forall (λ inst d, set_Forall (λ p, pin inst p ∈ R ∨ ty gr (pin inst p) = Some BbIn) (bb_in d) ∧
                           set_Forall (λ p, pin inst p ∈ R ∨ ty gr (pin inst p) = Some BbOut) (bb_out d)) acc)); [| |done].
  - intros _. eapply map_Forall_impl; [exact Hp|]. simpl. intros inst d [A1 A2].
    split; intros p Hp'; [destruct (A1 p Hp') as [?|Hty]|destruct (A2 p Hp') as [?|Hty]]; try (by left); right; by apply Hq1.
  - intros b d m acc Hmb IH Hsub. apply map_Forall_insert_2.
    + specialize (Hsub b d (lookup_insert _ _ _)). destruct (Hps b d Hsub) as [A1 A2]. simpl in *.
      split; intros p Hp'; right; rewrite pin_pre; apply Hq2; try done.
      * destruct (A1 p Hp') as [?|?]; [set_solver|done].
      * destruct (A2 p Hp') as [?|?]; [set_solver|done].
    + apply IH. intros b' d' Hb'. apply Hsub. rewrite lookup_insert_ne; [done|]. intros <-. congruence.
Qed.

(* pins under every operation except fill_blackbox *)
Lemma step_pins_nofill C o R : closed (c_g C) → orders_ok o → not_fill o = true →
  match o with OAddSubcircuit SC _ _ => pins_ok SC ∅ | _ => True end →
  pins_ok C R → pins_ok (step C o).1 (R ∪ removed_by o).
Proof.
  intros Hc Hord Hnf Hsc Hp. destruct o; try discriminate; try (by apply step_pins_basic).
  - simpl. rewrite (right_id_L ∅ (∪)). destruct Hord. by apply add_blackbox_pins.
  - simpl. rewrite (right_id_L ∅ (∪)). by apply add_subcircuit_pins.
Qed.
