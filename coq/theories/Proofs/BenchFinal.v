(* C15: the whole-file theorems for the mirrored reader and for the round trip, without extra hypotheses. *)
From stdpp Require Import strings gmap sets fin_sets.
From CG Require Import Model.Bench Model.BenchSpec Model.Lint Proofs.BenchProofs Proofs.BenchRoundProofs Proofs.BenchReadProofs.
Open Scope string_scope.

Theorem bench_read_denotes name ls : wfb ls = true →
  ∃ C, bench_read name ls = Ok C
    ∧ inputs (c_g C) = list_to_set (decl_inputs ls) ∧ outputs (c_g C) = list_to_set (decl_outputs ls)
    ∧ (∀ v, consistent (c_g C) v → sat_bench ls v)
    ∧ (∀ v, sat_bench ls v → ∃ v', consistent (c_g C) v' ∧ agrees (list_to_set (lhs_nets ls)) v v')
    ∧ (∀ q d, (q, d) ∈ dff_lines ls → dff_between C q d).
Proof.
  intros Hwf. exists (bench_closed name ls). split; [by apply read_is_closed_form|]. by apply bench_closed_denotes.
Qed.

(* under the guard the writer does not raise: it answers BadOrder (ord is not an enumeration of the sets) or a line list *)
Lemma write_total C ord : lint_clean C → bb_free C → inputs (c_g C) ≠ ∅ → no_x (c_g C) → pin_free (c_g C) →
  bench_write C ord = BadOrder ∨ ∃ ls, bench_write C ord = Ok ls.
Proof.
  intros Hlint Hbb Hin Hx Hpin. unfold bench_write. unfold bb_free in Hbb.
  rewrite (bool_decide_eq_true_2 _ Hbb). simpl negb. cbv iota. rewrite (bool_decide_eq_false_2 _ Hin).
  rewrite existsb_false.
  - destruct (negb _); eauto.
  - intros n Hn%elem_of_elements. apply elem_of_difference in Hn as [[i Hi]%elem_of_dom Hni].
    apply negb_false_iff, bool_decide_eq_true. unfold ty. rewrite Hi. simpl.
    destruct (node_facts C Hlint Hx Hpin n i Hi) as (Hty & _).
    assert (Hnin : n_ty i ≠ Input). { intros E. apply Hni. apply elem_of_inputs. eauto. }
    repeat (apply elem_of_cons in Hty as [->|Hty]; [vm_compute; by repeat constructor|]).
    apply elem_of_cons in Hty as [E|Hty]; [done|by apply elem_of_nil in Hty].
Qed.

Theorem bench_roundtrip C ord :
  lint_clean C → bb_free C → inputs (c_g C) ≠ ∅ → no_x (c_g C) → pin_free (c_g C) → closed (c_g C) → names_ok (c_g C) →
  bench_write C ord ≠ BadOrder →
  ∃ ls C', bench_write C ord = Ok ls ∧ bench_read (c_name C) ls = Ok C'
    ∧ inputs (c_g C') = inputs (c_g C) ∧ outputs (c_g C') = outputs (c_g C)
    ∧ equiv_on (inputs (c_g C) ∪ outputs (c_g C)) (c_g C) (c_g C')
    ∧ C' = C.
Proof.
  intros Hlint Hbb Hin Hx Hpin Hcl Hnm Hord.
  destruct (write_total C ord Hlint Hbb Hin Hx Hpin) as [E|[ls Hw]]; [done|].
  exists ls, C. split; [done|]. split.
  - rewrite (read_is_closed_form (c_name C) ls (write_wf C ord ls Hlint Hx Hpin Hcl Hnm Hw)).
    f_equal. by apply (write_read_closed C ord ls).
  - repeat split; try done; intros v Hv; exists v; split; done.
Qed.
