(* C15: what the bench reader builds for a gate line denotes the line; closed form of the reader on well-formed texts. *)
From Coq Require Import Ascii.
From stdpp Require Import strings gmap sets fin_sets.
From CG Require Import Base.Fold Model.Bench Model.BenchSpec.
Open Scope string_scope.

(* ================= parity cancellation, for all operand lists ================= *)
Definition par (v : val) (l : list string) : bool := foldr xorb false (v <$> l).

Lemma count_cons_eq x r : count x (x :: r) = S (count x r).
Proof. unfold count. by rewrite filter_cons_True. Qed.
Lemma count_cons_ne x y r : y ≠ x → count x (y :: r) = count x r.
Proof. intros. unfold count. by rewrite filter_cons_False. Qed.
Lemma odd_S n : Nat.odd (S n) = negb (Nat.odd n).
Proof. rewrite Nat.odd_succ. by rewrite <- Nat.negb_odd. Qed.

(* all copies of x taken out at once: they contribute v x iff their number is odd *)
Lemma par_remove v x l :
  par v l = xorb (if Nat.odd (count x l) then v x else false) (par v (filter (λ y, y ≠ x) l)).
Proof.
  induction l as [|y r IH]; [done|].
  destruct (decide (y = x)) as [->|Hne].
  - rewrite count_cons_eq, odd_S, filter_cons_False by (by intros ?).
    change (par v (x :: r)) with (xorb (v x) (par v r)). rewrite IH.
    destruct (Nat.odd (count x r)), (v x), (par v (filter _ r)); reflexivity.
  - rewrite count_cons_ne, filter_cons_True by done.
    change (par v (y :: r)) with (xorb (v y) (par v r)).
    change (par v (y :: filter (λ y0, y0 ≠ x) r)) with (xorb (v y) (par v (filter (λ y0, y0 ≠ x) r))). rewrite IH.
    destruct (Nat.odd (count x r)), (v x), (v y), (par v (filter _ r)); reflexivity.
Qed.

Lemma elem_of_fromkeys i l : i ∈ fromkeys l ↔ i ∈ l.
Proof.
  induction l as [|x r IH]; [done|]. simpl. rewrite !elem_of_cons, elem_of_list_filter, IH.
  destruct (decide (i = x)); naive_solver.
Qed.
Lemma NoDup_fromkeys l : NoDup (fromkeys l).
Proof.
  induction l as [|x r IH]; simpl; [constructor|]. constructor; [|by apply NoDup_filter].
  rewrite elem_of_list_filter. naive_solver.
Qed.
Lemma fromkeys_filter x l : filter (λ y, y ≠ x) (fromkeys l) = fromkeys (filter (λ y, y ≠ x) l).
Proof.
  induction l as [|z r IH]; [done|]. simpl.
  destruct (decide (z = x)) as [->|Hne].
  - rewrite !filter_cons_False by (by intros ?). rewrite list_filter_filter_l by done. exact IH.
  - rewrite !filter_cons_True by done. simpl. f_equal. rewrite <- IH.
    rewrite !list_filter_filter. apply list_filter_iff. naive_solver.
Qed.
Lemma filter_ext_in (P Q : string → Prop) `{!∀ x, Decision (P x), !∀ x, Decision (Q x)} (l : list string) :
  (∀ x, x ∈ l → P x ↔ Q x) → filter P l = filter Q l.
Proof.
  induction l as [|a l IH]; intros Hext; [done|].
  rewrite !filter_cons. rewrite IH by (intros; apply Hext; by right).
  destruct (decide (P a)), (decide (Q a)); try done; exfalso; specialize (Hext a (elem_of_list_here _ _)); tauto.
Qed.
Lemma count_filter_ne i x r : i ≠ x → count i (filter (λ y, y ≠ x) r) = count i r.
Proof.
  intros Hne. unfold count. rewrite list_filter_filter. f_equal. apply list_filter_iff. naive_solver.
Qed.

(* xor over an operand list = xor over the operands of odd multiplicity (the list the reader connects) *)
Lemma parity_cancel_aux v : ∀ k l, length l = k → par v l = par v (odd_ops l).
Proof.
  intros k. induction (lt_wf k) as [k _ IH]. intros l Hk. destruct l as [|x r]; [done|].
  set (r' := filter (λ y, y ≠ x) r).
  assert (Hodd : odd_ops (x :: r) = ((if Nat.odd (count x (x :: r)) then [x] else []) ++ odd_ops r')%list).
  { unfold odd_ops. simpl fromkeys. rewrite filter_cons. rewrite fromkeys_filter. fold r'.
    assert (Htail : filter (λ i, Nat.odd (count i (x :: r)) = true) (fromkeys r') = filter (λ i, Nat.odd (count i r') = true) (fromkeys r')).
    { apply filter_ext_in. intros i Hi. rewrite elem_of_fromkeys in Hi. unfold r' in Hi. rewrite elem_of_list_filter in Hi. destruct Hi as [Hix _].
      unfold r'. rewrite count_filter_ne by done. rewrite count_cons_ne by (by intros ->). done. }
    rewrite Htail. destruct (Nat.odd (count x (x :: r))); [rewrite decide_True by done|rewrite decide_False by done]; done. }
  rewrite Hodd. rewrite (par_remove v x (x :: r)). rewrite filter_cons_False by (by intros ?). fold r'.
  assert (Hlen : length r' < k). { simpl in Hk. pose proof (filter_length (λ y, y ≠ x) r). unfold r'. lia. }
  rewrite (IH (length r') Hlen r' eq_refl).
  destruct (Nat.odd (count x (x :: r))); simpl; [reflexivity|by destruct (par v (odd_ops r'))].
Qed.
Theorem parity_cancel v l : par v l = par v (odd_ops l).
Proof. by eapply parity_cancel_aux. Qed.
Lemma NoDup_odd_ops l : NoDup (odd_ops l).
Proof. unfold odd_ops. apply NoDup_filter, NoDup_fromkeys. Qed.
Lemma elem_of_odd_ops i l : i ∈ odd_ops l ↔ Nat.odd (count i l) = true.
Proof.
  unfold odd_ops. rewrite elem_of_list_filter, elem_of_fromkeys. split; [tauto|]. intros H. split; [done|].
  unfold count in H. destruct (filter (λ y, y = i) l) as [|y ?] eqn:E; [done|].
  assert (Hy : y ∈ filter (λ y, y = i) l) by (rewrite E; left).
  apply elem_of_list_filter in Hy as [-> ?]. done.
Qed.

(* ================= idempotent gates: repeated operands do not matter ================= *)
Lemma gfold_cons t b l : gfold t (b :: l) = g_op t b (gfold t l).
Proof. reflexivity. Qed.
Lemma idem_absorb t (v : val) x l : g_op t = andb ∨ g_op t = orb → x ∈ l →
  g_op t (v x) (gfold t (v <$> l)) = gfold t (v <$> l).
Proof.
  intros Hop Hx. induction l as [|y r IH]; [by apply elem_of_nil in Hx|].
  rewrite fmap_cons, gfold_cons. apply elem_of_cons in Hx as [->|Hx].
  - destruct Hop as [-> | ->]; destruct (v y), (gfold t (v <$> r)); reflexivity.
  - specialize (IH Hx). revert IH. generalize (gfold t (v <$> r)). intros b IH.
    destruct Hop as [Ho | Ho]; rewrite Ho in *; destruct (v x), (v y), b; simpl in *; congruence.
Qed.
Lemma gfold_remove_dups t (v : val) l : g_op t = andb ∨ g_op t = orb →
  gfold t (v <$> remove_dups l) = gfold t (v <$> l).
Proof.
  intros Hop. induction l as [|x r IH]; [done|]. simpl remove_dups. destruct (decide_rel elem_of x r) as [Hin|Hin].
  - rewrite IH, fmap_cons, gfold_cons. symmetry. by apply idem_absorb.
  - rewrite !fmap_cons, !gfold_cons. by rewrite IH.
Qed.
Lemma elements_list_to_set_dups (l : list string) : elements (list_to_set l : gset string) ≡ₚ remove_dups l.
Proof.
  apply NoDup_Permutation; [apply NoDup_elements|apply NoDup_remove_dups|].
  intros x. rewrite elem_of_elements, elem_of_list_to_set, elem_of_remove_dups. done.
Qed.

(* ================= one gate line ================= *)
(* value a node of type t with fan-in set s takes in a valuation (constants included) *)
Definition node_fun (t : gtype) (v : val) (s : gset string) : bool :=
  match t with C0 => false | C1 => true | _ => gate_val t v s end.

Lemma gate_val_list_idem t v l : g_op t = andb ∨ g_op t = orb → gate_val t v (list_to_set l) = gate_fun t (v <$> l).
Proof.
  intros Hop. unfold gate_val, gate_fun. f_equal. fold (gfold t (v <$> elements (list_to_set l : gset string))). fold (gfold t (v <$> l)).
  rewrite (gfold_perm t _ (v <$> remove_dups l)) by (apply fmap_Permutation, elements_list_to_set_dups).
  by apply gfold_remove_dups.
Qed.
Lemma gate_val_list_nodup t v l : NoDup l → gate_val t v (list_to_set l) = gate_fun t (v <$> l).
Proof.
  intros Hnd. unfold gate_val, gate_fun. f_equal. fold (gfold t (v <$> elements (list_to_set l : gset string))). fold (gfold t (v <$> l)).
  apply gfold_perm, fmap_Permutation, elements_list_to_set. done.
Qed.
Lemma gate_fun_parity t v l : g_op t = xorb → g_unit t = false → gate_fun t (v <$> l) = gate_fun t (v <$> odd_ops l).
Proof. intros Ho Hu. unfold gate_fun. rewrite Ho, Hu. f_equal. exact (parity_cancel v l). Qed.

(* the reader's gate-name decoding (regenerated tables) is the documented dialect *)
Lemma fold_gate_doc g : fold_gate g = name_of_type <$> doc_gate g.
Proof.
  unfold fold_gate. case_bool_decide as Hin.
  - vm_compute in Hin. repeat (apply elem_of_cons in Hin as [->|Hin]; [vm_compute; reflexivity|]). by apply elem_of_nil in Hin.
  - unfold doc_gate. destruct (list_find _ doc_gates) as [[k p]|] eqn:E; [|done]. exfalso. apply Hin.
    apply list_find_Some in E as (Hk & Hp & _). simpl in Hp. subst g.
    assert (Hmem : p ∈ doc_gates) by (by eapply elem_of_list_lookup_2).
    clear Hk Hin. vm_compute in Hmem. vm_compute.
    repeat (apply elem_of_cons in Hmem as [->|Hmem]; [simpl; set_solver|]). by apply elem_of_nil in Hmem.
Qed.

Definition gate_types := [Buf; Not; And; Nand; Or; Nor; Xor; Xnor].
Lemma doc_gate_type g t : doc_gate g = Some t → t ∈ gate_types.
Proof.
  unfold doc_gate. destruct (list_find _ doc_gates) as [[k p]|] eqn:E; [|done]. intros [= <-].
  apply list_find_Some in E as (Hk & _ & _). assert (Hmem : p ∈ doc_gates) by (by eapply elem_of_list_lookup_2).
  vm_compute in Hmem. unfold gate_types. repeat (apply elem_of_cons in Hmem as [->|Hmem]; [simpl; set_solver|]). by apply elem_of_nil in Hmem.
Qed.

(* what gate_args hands to c.add, in terms of the documented gate type *)
Lemma gate_args_doc g ops : gate_args g ops =
  match ops, doc_gate g with
  | [], _ | _, None => None
  | _, Some t => Some (if bool_decide (t ∈ [Xor; Xnor])
                       then (if bool_decide (odd_ops ops = []) then (if bool_decide (t = Xor) then "0" else "1") else name_of_type t, odd_ops ops)
                       else (name_of_type t, ops)) end.
Proof.
  unfold gate_args. destruct ops as [|o ops]; [done|]. rewrite fold_gate_doc.
  destruct (doc_gate g) as [t|] eqn:E; [|done]. simpl.
  apply doc_gate_type in E. unfold gate_types in E.
  generalize (odd_ops (o :: ops)). intros l.
  repeat (apply elem_of_cons in E as [->|E]); try (by apply elem_of_nil in E); destruct l; reflexivity.
Qed.

(* THE per-line lemma: the node the reader creates for `net = G(ops)` computes G over the operand list, with
   multiplicities, for every operand list and every valuation *)
Theorem gate_line_denotes g ops t ty fi v :
  doc_gate g = Some t → gate_args g ops = Some (ty, fi) →
  (t ∈ [Buf; Not] → length ops = 1) →
  node_fun (type_of_name ty) v (list_to_set fi) = gate_fun t (v <$> ops).
Proof.
  intros Hdoc Hargs Hlen. rewrite gate_args_doc, Hdoc in Hargs. destruct ops as [|o ops]; [done|].
  pose proof (doc_gate_type _ _ Hdoc) as Ht. unfold gate_types in Ht.
  repeat (apply elem_of_cons in Ht as [->|Ht]); try (by apply elem_of_nil in Ht).
  all: try (rewrite (bool_decide_eq_false_2 (_ ∈ [Xor; Xnor])) in Hargs by set_solver).
  all: try (rewrite (bool_decide_eq_true_2 (_ ∈ [Xor; Xnor])) in Hargs by set_solver).
  all: try (rewrite (bool_decide_eq_true_2 (Xor = Xor)) in Hargs by done).
  all: try (rewrite (bool_decide_eq_false_2 (Xnor = Xor)) in Hargs by done).
  all: injection Hargs as <- <-.
  - (* buf *) destruct ops; [|specialize (Hlen ltac:(set_solver)); done]. change (type_of_name (name_of_type Buf)) with Buf.
    unfold node_fun. by apply gate_val_list_nodup, NoDup_singleton.
  - destruct ops; [|specialize (Hlen ltac:(set_solver)); done]. change (type_of_name (name_of_type Not)) with Not.
    unfold node_fun. by apply gate_val_list_nodup, NoDup_singleton.
  - change (type_of_name (name_of_type And)) with And. apply (gate_val_list_idem And). by left.
  - change (type_of_name (name_of_type Nand)) with Nand. apply (gate_val_list_idem Nand). by left.
  - change (type_of_name (name_of_type Or)) with Or. apply (gate_val_list_idem Or). by right.
  - change (type_of_name (name_of_type Nor)) with Nor. apply (gate_val_list_idem Nor). by right.
  - rewrite (gate_fun_parity Xor) by done. case_bool_decide as He.
    + rewrite He. reflexivity.
    + change (type_of_name (name_of_type Xor)) with Xor. unfold node_fun. apply gate_val_list_nodup, NoDup_odd_ops.
  - rewrite (gate_fun_parity Xnor) by done. case_bool_decide as He.
    + rewrite He. reflexivity.
    + change (type_of_name (name_of_type Xnor)) with Xnor. unfold node_fun. apply gate_val_list_nodup, NoDup_odd_ops.
Qed.

(* the remaining regenerated tables are the documented ones *)
Lemma tables_doc :
  dff_def = doc_dff ∧ (∀ q, dff_inst q = doc_inst q) ∧ wr_gates ≡ₚ [Buf; Not; And; Nand; Or; Nor; Xor; Xnor]
  ∧ (wr_const0, wr_const0_gate, wr_const1, wr_const1_gate, wr_kw_input, wr_kw_output) = ([C0], "XOR", [C1], "XNOR", "INPUT", "OUTPUT").
Proof.
  split; [reflexivity|]. split; [reflexivity|]. split; [|reflexivity].
  apply NoDup_Permutation; [vm_compute; repeat constructor; set_solver|repeat constructor; set_solver|].
  intros t. vm_compute wr_gates. destruct t; set_solver.
Qed.

(* ================= names: identifiers never collide with blackbox pins ================= *)
Lemma slen_app a b : String.length (a ++ b) = String.length a + String.length b.
Proof. induction a; simpl; auto. Qed.
Lemma app_inv_len a b t1 t2 : a ++ t1 = b ++ t2 → String.length t1 = String.length t2 → a = b ∧ t1 = t2.
Proof.
  revert b. induction a as [|c a IH]; intros [|c' b] H Hl.
  - done.
  - exfalso. apply (f_equal String.length) in H. rewrite !slen_app in H. simpl in H. lia.
  - exfalso. apply (f_equal String.length) in H. rewrite !slen_app in H. simpl in H. lia.
  - change (String c (a ++ t1) = String c' (b ++ t2)) in H. injection H as -> H. destruct (IH _ H Hl) as [-> ->]. done.
Qed.
Lemma pin_dff_inj q1 p1 q2 p2 : String.length p1 = String.length p2 →
  pin (dff_inst q1) p1 = pin (dff_inst q2) p2 → q1 = q2 ∧ p1 = p2.
Proof.
  intros Hl H. unfold pin, dff_inst in H.
  apply app_inv_len in H as [H1 H2]; [|simpl; by rewrite Hl].
  apply app_inv_len in H1 as [-> _]; [|done]. injection H2 as ->. done.
Qed.
Lemma all_chars_app P a b : all_chars P (a ++ b) = all_chars P a && all_chars P b.
Proof.
  induction a as [|c a IH]; [done|]. change (P c && all_chars P (a ++ b) = P c && all_chars P a && all_chars P b).
  rewrite IH. by rewrite andb_assoc.
Qed.
Lemma ident_not_pin inst p : ident (pin inst p) = false.
Proof.
  unfold pin. destruct inst as [|c r]; [reflexivity|].
  change (is_alpha c && all_chars is_idchar (r ++ "." ++ p) = false). rewrite all_chars_app.
  change (all_chars is_idchar ("." ++ p)) with (is_idchar "."%char && all_chars is_idchar p).
  change (is_idchar "."%char) with false. rewrite andb_false_l. by rewrite !andb_false_r.
Qed.

(* ================= closed form of the reader on well-formed line lists ================= *)
Lemma NoDup_bind_inj {A B} (f : A → list B) (l : list A) x a b :
  NoDup (l ≫= f) → a ∈ l → b ∈ l → x ∈ f a → x ∈ f b → a = b.
Proof.
  induction l as [|y l IH]; csimpl; intros Hnd Ha Hb Hxa Hxb; [by apply elem_of_nil in Ha|].
  apply NoDup_app in Hnd as (Hy & Hdisj & Hl).
  apply elem_of_cons in Ha as [->|Ha]; apply elem_of_cons in Hb as [->|Hb]; [done| | |by apply IH].
  - exfalso. eapply Hdisj; [exact Hxa|]. apply elem_of_list_bind. eauto.
  - exfalso. eapply Hdisj; [exact Hxb|]. apply elem_of_list_bind. eauto.
Qed.

Definition line_lhs (l : bline) : list string :=
  match l with BInput n => [n] | BGate n _ _ => [n] | BDff q _ => [q] | BOutput _ => [] end.

Section closed_form.
  Context (ls : list bline) (Hwf : wfb ls = true).
  Let outs : gset string := list_to_set (decl_outputs ls).
  Let NL := ls ≫= line_nodes outs.

  Lemma wf_line l : l ∈ ls → line_ok l = true.
  Proof.
    intros Hl. unfold wfb in Hwf. rewrite !andb_true_iff in Hwf. destruct Hwf as [[H1 _] _].
    rewrite forallb_forall in H1. apply H1. by apply elem_of_list_In.
  Qed.
  Lemma wf_nodup : NoDup (ls ≫= line_lhs).
  Proof. unfold wfb in Hwf. rewrite !andb_true_iff in Hwf. destruct Hwf as [[_ H2] _]. by apply bool_decide_eq_true in H2. Qed.
  Lemma wf_defined n : n ∈ (operands ls ++ decl_outputs ls)%list → n ∈ ls ≫= line_lhs.
  Proof.
    intros Hn. unfold wfb in Hwf. rewrite !andb_true_iff in Hwf. destruct Hwf as [_ H3].
    rewrite forallb_forall in H3. apply elem_of_list_In, H3 in Hn. by apply bool_decide_eq_true in Hn.
  Qed.
  Lemma lhs_same_line n l1 l2 : l1 ∈ ls → l2 ∈ ls → n ∈ line_lhs l1 → n ∈ line_lhs l2 → l1 = l2.
  Proof. intros. eapply (NoDup_bind_inj line_lhs ls n); eauto using wf_nodup. Qed.

  (* the key of a node entry is either the (identifier) lhs of its line or a pin of its DFF line *)
  Lemma key_kind l i x : l ∈ ls → (i, x) ∈ line_nodes outs l →
    (ident i = true ∧ i ∈ line_lhs l) ∨
    (ident i = false ∧ ∃ q d p, l = BDff q d ∧ i = pin (dff_inst q) p ∧ (p = rd_dff_in ∨ p = rd_dff_out)).
  Proof.
    intros Hl Hi. pose proof (wf_line l Hl) as Hok. destruct l as [n|n|n g ops|q d]; simpl in Hi, Hok.
    - apply elem_of_list_singleton in Hi as [= -> _]. left. split; [done|]. simpl. by left.
    - by apply elem_of_nil in Hi.
    - destruct (gate_args g ops) as [[t fi]|]; [|by apply elem_of_nil in Hi].
      apply elem_of_list_singleton in Hi as [= -> _]. apply andb_true_iff in Hok as [Hid _]. left. split; [done|]. simpl. by left.
    - rewrite !elem_of_cons in Hi. destruct Hi as [[= -> _]|[[= -> _]|[[= -> _]|Hi]]]; [| | |by apply elem_of_nil in Hi].
      + left. split; [done|]. simpl. by left.
      + right. split; [apply ident_not_pin|]. exists q, d, rd_dff_in. auto.
      + right. split; [apply ident_not_pin|]. exists q, d, rd_dff_out. auto.
  Qed.

  Lemma key_unique_line l i x y : l ∈ ls → (i, x) ∈ line_nodes outs l → (i, y) ∈ line_nodes outs l → x = y.
  Proof.
    intros Hl Hx Hy. pose proof (wf_line l Hl) as Hok. destruct l as [n|n|n g ops|q d]; simpl in Hx, Hy, Hok.
    - apply elem_of_list_singleton in Hx as [= -> ->]. by apply elem_of_list_singleton in Hy as [= ->].
    - by apply elem_of_nil in Hx.
    - destruct (gate_args g ops) as [[t fi]|]; [|by apply elem_of_nil in Hx].
      apply elem_of_list_singleton in Hx as [= -> ->]. by apply elem_of_list_singleton in Hy as [= ->].
    - assert (Hq : ∀ p, q ≠ pin (dff_inst q) p). { intros p E. pose proof (ident_not_pin (dff_inst q) p) as Hn. rewrite <- E in Hn. congruence. }
      assert (Hdq : pin (dff_inst q) rd_dff_in ≠ pin (dff_inst q) rd_dff_out). { intros E. apply pin_dff_inj in E as [_ E]; done. }
      rewrite !elem_of_cons in Hx, Hy.
      destruct Hx as [[= E1 ->]|[[= E1 ->]|[[= E1 ->]|Hx]]]; [| | |by apply elem_of_nil in Hx];
        (destruct Hy as [[= E2 ->]|[[= E2 ->]|[[= E2 ->]|Hy]]]; [| | |by apply elem_of_nil in Hy]); try done;
        exfalso; rewrite E1 in E2; first [exact (Hq _ E2)|exact (Hq _ (eq_sym E2))|exact (Hdq E2)|exact (Hdq (eq_sym E2))].
  Qed.

  Lemma key_unique i x y : (i, x) ∈ NL → (i, y) ∈ NL → x = y.
  Proof.
    unfold NL. rewrite !elem_of_list_bind. intros (l1 & Hx & Hl1) (l2 & Hy & Hl2).
    assert (l1 = l2) as <-; [|by eapply key_unique_line].
    destruct (key_kind _ _ _ Hl1 Hx) as [[Hid1 Hk1]|[Hid1 (q1 & d1 & p1 & -> & E1 & Hp1)]];
      destruct (key_kind _ _ _ Hl2 Hy) as [[Hid2 Hk2]|[Hid2 (q2 & d2 & p2 & -> & E2 & Hp2)]]; try congruence.
    - by eapply lhs_same_line.
    - rewrite E1 in E2. apply pin_dff_inj in E2 as [<- _]; [|by destruct Hp1 as [-> | ->], Hp2 as [-> | ->]].
      eapply (lhs_same_line q1); eauto; simpl; by left.
  Qed.

  Lemma graph_lookup i x : bench_graph ls !! i = Some x ↔ ∃ l, l ∈ ls ∧ (i, x) ∈ line_nodes outs l.
  Proof.
    unfold bench_graph. fold outs. fold NL. rewrite <- elem_of_list_to_map'.
    - unfold NL. rewrite elem_of_list_bind. naive_solver.
    - intros x' H1 H2. by eapply key_unique.
  Qed.
End closed_form.

Lemma node_ok_fun v n T o S : is_free (mk_node T o S) = false → node_ok v n (mk_node T o S) → v n = node_fun T v S.
Proof. unfold node_ok. intros ->. destruct T; simpl; auto. Qed.
Lemma fun_node_ok v n T o S : is_free (mk_node T o S) = false → v n = node_fun T v S → node_ok v n (mk_node T o S).
Proof. unfold node_ok. intros ->. destruct T; simpl; auto. Qed.

Lemma gate_args_not_free g ops t ty fi o : doc_gate g = Some t → gate_args g ops = Some (ty, fi) →
  is_free (mk_node (type_of_name ty) o (list_to_set fi)) = false.
Proof.
  intros Hdoc Hargs. rewrite gate_args_doc, Hdoc in Hargs. destruct ops as [|o1 ops]; [done|].
  pose proof (doc_gate_type _ _ Hdoc) as Ht. unfold gate_types in Ht.
  repeat (apply elem_of_cons in Ht as [->|Ht]); try (by apply elem_of_nil in Ht).
  all: try (rewrite (bool_decide_eq_false_2 (_ ∈ [Xor; Xnor])) in Hargs by set_solver).
  all: try (rewrite (bool_decide_eq_true_2 (_ ∈ [Xor; Xnor])) in Hargs by set_solver).
  all: try (rewrite (bool_decide_eq_true_2 (Xor = Xor)) in Hargs by done).
  all: try (rewrite (bool_decide_eq_false_2 (Xnor = Xor)) in Hargs by done).
  all: injection Hargs as <- <-.
  all: try reflexivity.
  - apply bool_decide_eq_false. set_solver.
  - apply bool_decide_eq_false. set_solver.
  - case_bool_decide; reflexivity.
  - case_bool_decide; reflexivity.
Qed.
Lemma gate_args_some g ops t : doc_gate g = Some t → ops ≠ [] → ∃ ty fi, gate_args g ops = Some (ty, fi).
Proof. intros Hd Ho. rewrite gate_args_doc, Hd. destruct ops; [done|]. destruct (bool_decide (t ∈ [Xor; Xnor])); eauto. Qed.

Section closed_form_sem.
  Context (ls : list bline) (Hwf : wfb ls = true).
  Let outs : gset string := list_to_set (decl_outputs ls).

  (* a gate equation of the text comes from a gate line of the dialect *)
  Lemma gate_lines_inv n t ops : (n, t, ops) ∈ gate_lines ls → ∃ g, BGate n g ops ∈ ls ∧ doc_gate g = Some t.
  Proof.
    unfold gate_lines. rewrite elem_of_list_bind. intros (l & Hin & Hl).
    destruct l as [?|?|n' g ops'|? ?]; try (by apply elem_of_nil in Hin).
    destruct (doc_gate g) as [t'|] eqn:E; [|by apply elem_of_nil in Hin].
    apply elem_of_list_singleton in Hin as [= -> -> ->]. eauto.
  Qed.
  Lemma gate_line_node n g ops t : BGate n g ops ∈ ls → doc_gate g = Some t →
    ∃ ty fi, gate_args g ops = Some (ty, fi) ∧ (t ∈ [Buf; Not] → length ops = 1)
      ∧ bench_graph ls !! n = Some (mk_node (type_of_name ty) (bool_decide (n ∈ outs)) (list_to_set fi)).
  Proof.
    intros Hl Hd. pose proof (wf_line ls Hwf _ Hl) as Hok. simpl in Hok. rewrite Hd in Hok.
    apply andb_true_iff in Hok as [_ Hlen].
    assert (Hne : ops ≠ []). { intros ->. case_bool_decide; apply bool_decide_eq_true in Hlen; simpl in Hlen; lia. }
    destruct (gate_args_some g ops t Hd Hne) as (ty & fi & Hargs). exists ty, fi. split; [done|]. split.
    - intros Hin. rewrite bool_decide_eq_true_2 in Hlen by done. by apply bool_decide_eq_true in Hlen.
    - apply (graph_lookup ls Hwf). exists (BGate n g ops). split; [done|]. simpl. rewrite Hargs. by apply elem_of_list_singleton.
  Qed.

  (* every consistent valuation of the closed-form circuit satisfies the equations of the text *)
  Theorem closed_sound v : consistent (bench_graph ls) v → sat_bench ls v.
  Proof.
    intros Hc n t ops Hin. apply gate_lines_inv in Hin as (g & Hl & Hd).
    destruct (gate_line_node n g ops t Hl Hd) as (ty & fi & Hargs & Hlen & Hlook).
    specialize (Hc _ _ Hlook). apply node_ok_fun in Hc; [|by eapply gate_args_not_free].
    rewrite Hc. by eapply gate_line_denotes.
  Qed.

  (* exactly the declared inputs *)
  Theorem closed_inputs : inputs (bench_graph ls) = list_to_set (decl_inputs ls).
  Proof.
    apply set_eq. intros n. rewrite elem_of_inputs, elem_of_list_to_set. unfold decl_inputs. rewrite elem_of_list_bind. split.
    - intros (i & Hi & Hty). apply (graph_lookup ls Hwf) in Hi as (l & Hl & Hin). exists l. split; [|done].
      destruct l as [m|m|m g ops|q d]; simpl in Hin.
      + apply elem_of_list_singleton in Hin as [= -> _]. by apply elem_of_list_singleton.
      + by apply elem_of_nil in Hin.
      + exfalso. pose proof (wf_line ls Hwf _ Hl) as Hok. simpl in Hok. apply andb_true_iff in Hok as [_ Hok].
        destruct (doc_gate g) as [t|] eqn:Hd; [|done].
        destruct (gate_args g ops) as [[ty fi]|] eqn:Hargs; [|by apply elem_of_nil in Hin].
        apply elem_of_list_singleton in Hin as [= -> ->]. simpl in Hty.
        pose proof (gate_args_not_free g ops t ty fi false Hd Hargs) as Hfree. unfold is_free in Hfree. simpl in Hfree. by rewrite Hty in Hfree.
      + exfalso. rewrite !elem_of_cons in Hin. destruct Hin as [[= _ ->]|[[= _ ->]|[[= _ ->]|Hin]]]; try done. by apply elem_of_nil in Hin.
    - intros (l & Hin & Hl). destruct l as [m|m|m g ops|q d]; try (by apply elem_of_nil in Hin).
      apply elem_of_list_singleton in Hin as ->. exists (mk_node Input (bool_decide (m ∈ outs)) ∅). split; [|done].
      apply (graph_lookup ls Hwf). exists (BInput m). split; [done|]. simpl. by apply elem_of_list_singleton.
  Qed.

  (* each DFF line is a registered dff instance between its D net and its Q net *)
  Theorem closed_dff name q d : (q, d) ∈ dff_lines ls → dff_between (bench_closed name ls) q d.
  Proof.
    unfold dff_lines. rewrite elem_of_list_bind. intros (l & Hin & Hl).
    destruct l as [?|?|? ? ?|q' d']; try (by apply elem_of_nil in Hin). apply elem_of_list_singleton in Hin as [= <- <-].
    assert (HD : bench_graph ls !! pin (dff_inst q) rd_dff_in = Some (mk_node BbIn false {[ d ]})).
    { apply (graph_lookup ls Hwf). exists (BDff q d). split; [done|]. simpl. set_solver. }
    assert (HQ : bench_graph ls !! pin (dff_inst q) rd_dff_out = Some (mk_node BbOut false ∅)).
    { apply (graph_lookup ls Hwf). exists (BDff q d). split; [done|]. simpl. set_solver. }
    assert (Hq : bench_graph ls !! q = Some (mk_node Buf (bool_decide (q ∈ outs)) {[ pin (dff_inst q) rd_dff_out ]})).
    { apply (graph_lookup ls Hwf). exists (BDff q d). split; [done|]. simpl. set_solver. }
    unfold dff_between, ty, fanin. change (doc_inst q) with (dff_inst q). change "D" with rd_dff_in. change "Q" with rd_dff_out.
    simpl c_g. rewrite HD, HQ, Hq. simpl. repeat split; try done.
    change doc_dff with dff_def. apply elem_of_list_to_map_1'.
    - intros y Hy. apply elem_of_list_bind in Hy as (l' & Hy & _). destruct l'; try (by apply elem_of_nil in Hy).
      by apply elem_of_list_singleton in Hy as [= _ ->].
    - apply elem_of_list_bind. exists (BDff q d). split; [|done]. simpl. by apply elem_of_list_singleton.
  Qed.
End closed_form_sem.

Section closed_form_outputs.
  Context (ls : list bline) (Hwf : wfb ls = true).
  Let outs : gset string := list_to_set (decl_outputs ls).

  (* exactly the declared outputs *)
  Theorem closed_outputs : outputs (bench_graph ls) = list_to_set (decl_outputs ls).
  Proof.
    apply set_eq. intros n. rewrite elem_of_outputs. fold outs. split.
    - intros (i & Hi & Ho). apply (graph_lookup ls Hwf) in Hi as (l & Hl & Hin).
      destruct l as [m|m|m g ops|q d]; simpl in Hin.
      + apply elem_of_list_singleton in Hin as [= -> ->]. simpl in Ho. by apply bool_decide_eq_true in Ho.
      + by apply elem_of_nil in Hin.
      + destruct (gate_args g ops) as [[ty fi]|]; [|by apply elem_of_nil in Hin].
        apply elem_of_list_singleton in Hin as [= -> ->]. simpl in Ho. by apply bool_decide_eq_true in Ho.
      + rewrite !elem_of_cons in Hin. destruct Hin as [[= -> ->]|[[= _ ->]|[[= _ ->]|Hin]]]; try done; [|by apply elem_of_nil in Hin].
        simpl in Ho. by apply bool_decide_eq_true in Ho.
    - intros Hn. assert (Hd : n ∈ ls ≫= line_lhs).
      { apply (wf_defined ls Hwf). apply elem_of_app. right. unfold outs in Hn. by apply elem_of_list_to_set in Hn. }
      apply elem_of_list_bind in Hd as (l & Hnl & Hl).
      destruct l as [m|m|m g ops|q d]; simpl in Hnl; try (by apply elem_of_nil in Hnl); apply elem_of_list_singleton in Hnl as ->.
      + exists (mk_node Input (bool_decide (m ∈ outs)) ∅). split; [|simpl; by apply bool_decide_eq_true].
        apply (graph_lookup ls Hwf). exists (BInput m). split; [done|]. simpl. by apply elem_of_list_singleton.
      + pose proof (wf_line ls Hwf _ Hl) as Hok. simpl in Hok. apply andb_true_iff in Hok as [_ Hok].
        destruct (doc_gate g) as [t|] eqn:Hdg; [|done].
        destruct (gate_line_node ls Hwf m g ops t Hl Hdg) as (ty & fi & _ & _ & Hlook).
        eexists. split; [exact Hlook|]. simpl. by apply bool_decide_eq_true.
      + exists (mk_node Buf (bool_decide (q ∈ outs)) {[ pin (dff_inst q) rd_dff_out ]}). split; [|simpl; by apply bool_decide_eq_true].
        apply (graph_lookup ls Hwf). exists (BDff q d). split; [done|]. simpl. set_solver.
  Qed.
End closed_form_outputs.

(* ================= completeness: every solution of the text extends to a consistent valuation ================= *)
(* pins take the value of the net on the other side of the flop *)
Definition ext_val (ls : list bline) (v : val) : val := λ n,
  match list_find (λ p, n = pin (dff_inst p.1) rd_dff_in ∨ n = pin (dff_inst p.1) rd_dff_out) (dff_lines ls) with
  | Some (_, p) => if decide (n = pin (dff_inst p.1) rd_dff_in) then v p.2 else v p.1
  | None => v n end.
Lemma ext_val_ident ls v n : ident n = true → ext_val ls v n = v n.
Proof.
  intros Hid. unfold ext_val. destruct (list_find _ _) as [[k p]|] eqn:E; [|done].
  apply list_find_Some in E as (_ & [-> | ->] & _); by rewrite ident_not_pin in Hid.
Qed.
Lemma node_fun_ext T v v' S : agrees S v v' → node_fun T v S = node_fun T v' S.
Proof. intros H. destruct T; simpl; try done; by apply gate_val_ext. Qed.
Lemma gate_val_single t v x : g_op t = xorb → g_unit t = false → gate_val t v {[ x ]} = xorb (g_inv t) (v x).
Proof. intros Ho Hu. unfold gate_val. rewrite elements_singleton. simpl. rewrite Ho, Hu. by destruct (v x). Qed.
Lemma odd_ops_sub i l : i ∈ odd_ops l → i ∈ l.
Proof. unfold odd_ops. rewrite elem_of_list_filter, elem_of_fromkeys. tauto. Qed.

Section closed_form_complete.
  Context (ls : list bline) (Hwf : wfb ls = true).
  Let outs : gset string := list_to_set (decl_outputs ls).

  Lemma lhs_ident n : n ∈ ls ≫= line_lhs → ident n = true.
  Proof.
    rewrite elem_of_list_bind. intros (l & Hn & Hl). pose proof (wf_line ls Hwf _ Hl) as Hok.
    destruct l as [m|m|m g ops|q d]; simpl in Hn, Hok; try (by apply elem_of_nil in Hn); apply elem_of_list_singleton in Hn as ->; try done.
    by apply andb_true_iff in Hok as [? _].
  Qed.
  Lemma operand_ident n : n ∈ operands ls → ident n = true.
  Proof. intros Hn. apply lhs_ident, (wf_defined ls Hwf). apply elem_of_app. by left. Qed.
  Lemma dff_lines_iff q d : (q, d) ∈ dff_lines ls ↔ BDff q d ∈ ls.
  Proof.
    unfold dff_lines. rewrite elem_of_list_bind. split.
    - intros (l & Hin & Hl). destruct l; try (by apply elem_of_nil in Hin). by apply elem_of_list_singleton in Hin as [= -> ->].
    - intros Hl. exists (BDff q d). split; [by apply elem_of_list_singleton|done].
  Qed.
  Lemma ext_val_pin v q d : BDff q d ∈ ls →
    ext_val ls v (pin (dff_inst q) rd_dff_in) = v d ∧ ext_val ls v (pin (dff_inst q) rd_dff_out) = v q.
  Proof.
    intros Hl. assert (Hfind : ∀ p0, p0 = rd_dff_in ∨ p0 = rd_dff_out →
      ∃ k, list_find (λ p, pin (dff_inst q) p0 = pin (dff_inst p.1) rd_dff_in ∨ pin (dff_inst q) p0 = pin (dff_inst p.1) rd_dff_out) (dff_lines ls) = Some (k, (q, d))).
    { intros p0 Hp0. destruct (list_find_elem_of (λ p, pin (dff_inst q) p0 = pin (dff_inst p.1) rd_dff_in ∨ pin (dff_inst q) p0 = pin (dff_inst p.1) rd_dff_out) (dff_lines ls) (q, d)) as [[k [q' d']] E].
      - by apply dff_lines_iff.
      - simpl. destruct Hp0 as [-> | ->]; auto.
      - exists k. rewrite E. do 2 f_equal. pose proof E as E'. apply list_find_Some in E' as (Hk & HP & _). simpl in HP.
        assert (q = q') as <-. { destruct HP as [HP|HP]; apply pin_dff_inj in HP as [? _]; try done; by destruct Hp0 as [-> | ->]. }
        assert (Hl' : BDff q d' ∈ ls) by (apply dff_lines_iff; by eapply elem_of_list_lookup_2).
        assert (BDff q d = BDff q d') as [= <-]; [|done]. eapply (lhs_same_line ls Hwf q); eauto; simpl; by left. }
    unfold ext_val. split.
    - destruct (Hfind rd_dff_in) as [k ->]; [by left|]. simpl. by rewrite decide_True.
    - destruct (Hfind rd_dff_out) as [k ->]; [by right|]. simpl. rewrite decide_False; [done|].
      intros E. by apply pin_dff_inj in E as [_ E].
  Qed.

  Theorem closed_complete v : sat_bench ls v →
    consistent (bench_graph ls) (ext_val ls v) ∧ agrees (list_to_set (lhs_nets ls)) v (ext_val ls v).
  Proof.
    intros Hsat. split.
    - intros n i Hi. apply (graph_lookup ls Hwf) in Hi as (l & Hl & Hin). fold outs in Hin.
      pose proof (wf_line ls Hwf _ Hl) as Hok. destruct l as [m|m|m g ops|q d]; simpl in Hin, Hok.
      + apply elem_of_list_singleton in Hin as [= -> ->]. done.
      + by apply elem_of_nil in Hin.
      + apply andb_true_iff in Hok as [Hidm Hok]. destruct (doc_gate g) as [t|] eqn:Hd; [|done].
        destruct (gate_line_node ls Hwf m g ops t Hl Hd) as (ty & fi & Hargs & Hlen & _). rewrite Hargs in Hin.
        apply elem_of_list_singleton in Hin as [= -> ->].
        apply fun_node_ok; [by eapply gate_args_not_free|]. rewrite ext_val_ident by done.
        rewrite (node_fun_ext _ (ext_val ls v) v).
        * rewrite (gate_line_denotes g ops t ty fi v Hd Hargs Hlen). apply Hsat. unfold gate_lines. apply elem_of_list_bind.
          exists (BGate m g ops). split; [|done]. rewrite Hd. by apply elem_of_list_singleton.
        * intros x Hx. apply ext_val_ident, operand_ident. unfold operands. apply elem_of_list_bind. exists (BGate m g ops). split; [|done].
          apply elem_of_list_to_set in Hx. rewrite gate_args_doc, Hd in Hargs. destruct ops as [|o1 ops]; [done|].
          destruct (bool_decide (t ∈ [Xor; Xnor])); injection Hargs as _ <-; [by apply odd_ops_sub|done].
      + destruct (ext_val_pin v q d Hl) as [HD HQ].
        rewrite !elem_of_cons in Hin. destruct Hin as [[= -> ->]|[[= -> ->]|[[= -> ->]|Hin]]]; [| | |by apply elem_of_nil in Hin].
        * apply fun_node_ok; [apply bool_decide_eq_false; set_solver|]. unfold node_fun. rewrite gate_val_single by done.
          rewrite HQ, ext_val_ident by done. simpl. by destruct (v q).
        * apply fun_node_ok; [apply bool_decide_eq_false; set_solver|]. unfold node_fun. rewrite gate_val_single by done.
          rewrite HD. rewrite ext_val_ident; [simpl; by destruct (v d)|]. apply operand_ident. unfold operands. apply elem_of_list_bind.
          exists (BDff q d). split; [by apply elem_of_list_singleton|done].
        * done.
    - intros n Hn. symmetry. apply ext_val_ident, lhs_ident. by apply elem_of_list_to_set in Hn.
  Qed.
End closed_form_complete.

(* the whole reader statement, for the closed form *)
Theorem bench_closed_denotes name ls : wfb ls = true →
  let C := bench_closed name ls in
  inputs (c_g C) = list_to_set (decl_inputs ls) ∧ outputs (c_g C) = list_to_set (decl_outputs ls)
  ∧ (∀ v, consistent (c_g C) v → sat_bench ls v)
  ∧ (∀ v, sat_bench ls v → ∃ v', consistent (c_g C) v' ∧ agrees (list_to_set (lhs_nets ls)) v v')
  ∧ (∀ q d, (q, d) ∈ dff_lines ls → dff_between C q d).
Proof.
  intros Hwf C. split; [by apply closed_inputs|]. split; [by apply closed_outputs|]. split; [by apply closed_sound|]. split.
  - intros v Hs. exists (ext_val ls v). by apply closed_complete.
  - intros q d. by apply closed_dff.
Qed.
