(* C15: what the bench reader builds for a gate line denotes the line; closed form of the reader on well-formed texts. *)
From stdpp Require Import strings gmap sets fin_sets.
From CG Require Import Base.Fold Model.Bench Model.BenchSpec.
Open Scope string_scope.

(* ================= parity cancellation, for all operand lists ================= *)
Definition par (v : val) (l : list string) : bool := foldr xorb false (v <$> l).

Lemma count_cons_eq x r : count x (x :: r) = S (count x r).
Proof. unfold count. by rewrite filter_cons_True. Qed.
Lemma count_cons_ne x y r : y ≠ x → count x (y :: r) = count x r.
Proof. intros. unfold count. by rewrite filter_cons_False. Qed.
Lemma odd_S n : Nat.odd (S n) = negb (Nat.odd n).
Proof. rewrite Nat.odd_succ. by rewrite <- Nat.negb_odd. Qed.

(* all copies of x taken out at once: they contribute v x iff their number is odd *)
Lemma par_remove v x l :
  par v l = xorb (if Nat.odd (count x l) then v x else false) (par v (filter (λ y, y ≠ x) l)).
Proof.
  induction l as [|y r IH]; [done|].
  destruct (decide (y = x)) as [->|Hne].
  - rewrite count_cons_eq, odd_S, filter_cons_False by (by intros ?).
    change (par v (x :: r)) with (xorb (v x) (par v r)). rewrite IH.
    destruct (Nat.odd (count x r)), (v x), (par v (filter _ r)); reflexivity.
  - rewrite count_cons_ne, filter_cons_True by done.
    change (par v (y :: r)) with (xorb (v y) (par v r)).
    change (par v (y :: filter (λ y0, y0 ≠ x) r)) with (xorb (v y) (par v (filter (λ y0, y0 ≠ x) r))). rewrite IH.
    destruct (Nat.odd (count x r)), (v x), (v y), (par v (filter _ r)); reflexivity.
Qed.

Lemma elem_of_fromkeys i l : i ∈ fromkeys l ↔ i ∈ l.
Proof.
  induction l as [|x r IH]; [done|]. simpl. rewrite !elem_of_cons, elem_of_list_filter, IH.
  destruct (decide (i = x)); naive_solver.
Qed.
Lemma NoDup_fromkeys l : NoDup (fromkeys l).
Proof.
  induction l as [|x r IH]; simpl; [constructor|]. constructor; [|by apply NoDup_filter].
  rewrite elem_of_list_filter. naive_solver.
Qed.
Lemma fromkeys_filter x l : filter (λ y, y ≠ x) (fromkeys l) = fromkeys (filter (λ y, y ≠ x) l).
Proof.
  induction l as [|z r IH]; [done|]. simpl.
  destruct (decide (z = x)) as [->|Hne].
  - rewrite !filter_cons_False by (by intros ?). rewrite list_filter_filter_l by done. exact IH.
  - rewrite !filter_cons_True by done. simpl. f_equal. rewrite <- IH.
    rewrite !list_filter_filter. apply list_filter_iff. naive_solver.
Qed.
Lemma filter_ext_in (P Q : string → Prop) `{!∀ x, Decision (P x), !∀ x, Decision (Q x)} (l : list string) :
  (∀ x, x ∈ l → P x ↔ Q x) → filter P l = filter Q l.
Proof.
  induction l as [|a l IH]; intros Hext; [done|].
  rewrite !filter_cons. rewrite IH by (intros; apply Hext; by right).
  destruct (decide (P a)), (decide (Q a)); try done; exfalso; specialize (Hext a (elem_of_list_here _ _)); tauto.
Qed.
Lemma count_filter_ne i x r : i ≠ x → count i (filter (λ y, y ≠ x) r) = count i r.
Proof.
  intros Hne. unfold count. rewrite list_filter_filter. f_equal. apply list_filter_iff. naive_solver.
Qed.

(* xor over an operand list = xor over the operands of odd multiplicity (the list the reader connects) *)
Lemma parity_cancel_aux v : ∀ k l, length l = k → par v l = par v (odd_ops l).
Proof.
  intros k. induction (lt_wf k) as [k _ IH]. intros l Hk. destruct l as [|x r]; [done|].
  set (r' := filter (λ y, y ≠ x) r).
  assert (Hodd : odd_ops (x :: r) = ((if Nat.odd (count x (x :: r)) then [x] else []) ++ odd_ops r')%list).
  { unfold odd_ops. simpl fromkeys. rewrite filter_cons. rewrite fromkeys_filter. fold r'.
    assert (Htail : filter (λ i, Nat.odd (count i (x :: r)) = true) (fromkeys r') = filter (λ i, Nat.odd (count i r') = true) (fromkeys r')).
    { apply filter_ext_in. intros i Hi. rewrite elem_of_fromkeys in Hi. unfold r' in Hi. rewrite elem_of_list_filter in Hi. destruct Hi as [Hix _].
      unfold r'. rewrite count_filter_ne by done. rewrite count_cons_ne by (by intros ->). done. }
    rewrite Htail. destruct (Nat.odd (count x (x :: r))); [rewrite decide_True by done|rewrite decide_False by done]; done. }
  rewrite Hodd. rewrite (par_remove v x (x :: r)). rewrite filter_cons_False by (by intros ?). fold r'.
  assert (Hlen : length r' < k). { simpl in Hk. pose proof (filter_length (λ y, y ≠ x) r). unfold r'. lia. }
  rewrite (IH (length r') Hlen r' eq_refl).
  destruct (Nat.odd (count x (x :: r))); simpl; [reflexivity|by destruct (par v (odd_ops r'))].
Qed.
Theorem parity_cancel v l : par v l = par v (odd_ops l).
Proof. by eapply parity_cancel_aux. Qed.
Lemma NoDup_odd_ops l : NoDup (odd_ops l).
Proof. unfold odd_ops. apply NoDup_filter, NoDup_fromkeys. Qed.
Lemma elem_of_odd_ops i l : i ∈ odd_ops l ↔ Nat.odd (count i l) = true.
Proof.
  unfold odd_ops. rewrite elem_of_list_filter, elem_of_fromkeys. split; [tauto|]. intros H. split; [done|].
  unfold count in H. destruct (filter (λ y, y = i) l) as [|y ?] eqn:E; [done|].
  assert (Hy : y ∈ filter (λ y, y = i) l) by (rewrite E; left).
  apply elem_of_list_filter in Hy as [-> ?]. done.
Qed.

(* ================= idempotent gates: repeated operands do not matter ================= *)
Lemma gfold_cons t b l : gfold t (b :: l) = g_op t b (gfold t l).
Proof. reflexivity. Qed.
Lemma idem_absorb t (v : val) x l : g_op t = andb ∨ g_op t = orb → x ∈ l →
  g_op t (v x) (gfold t (v <$> l)) = gfold t (v <$> l).
Proof.
  intros Hop Hx. induction l as [|y r IH]; [by apply elem_of_nil in Hx|].
  rewrite fmap_cons, gfold_cons. apply elem_of_cons in Hx as [->|Hx].
  - destruct Hop as [-> | ->]; destruct (v y), (gfold t (v <$> r)); reflexivity.
  - specialize (IH Hx). revert IH. generalize (gfold t (v <$> r)). intros b IH.
    destruct Hop as [Ho | Ho]; rewrite Ho in *; destruct (v x), (v y), b; simpl in *; congruence.
Qed.
Lemma gfold_remove_dups t (v : val) l : g_op t = andb ∨ g_op t = orb →
  gfold t (v <$> remove_dups l) = gfold t (v <$> l).
Proof.
  intros Hop. induction l as [|x r IH]; [done|]. simpl remove_dups. destruct (decide_rel elem_of x r) as [Hin|Hin].
  - rewrite IH, fmap_cons, gfold_cons. symmetry. by apply idem_absorb.
  - rewrite !fmap_cons, !gfold_cons. by rewrite IH.
Qed.
Lemma elements_list_to_set_dups (l : list string) : elements (list_to_set l : gset string) ≡ₚ remove_dups l.
Proof.
  apply NoDup_Permutation; [apply NoDup_elements|apply NoDup_remove_dups|].
  intros x. rewrite elem_of_elements, elem_of_list_to_set, elem_of_remove_dups. done.
Qed.

(* ================= one gate line ================= *)
(* value a node of type t with fan-in set s takes in a valuation (constants included) *)
Definition node_fun (t : gtype) (v : val) (s : gset string) : bool :=
  match t with C0 => false | C1 => true | _ => gate_val t v s end.

Lemma gate_val_list_idem t v l : g_op t = andb ∨ g_op t = orb → gate_val t v (list_to_set l) = gate_fun t (v <$> l).
Proof.
  intros Hop. unfold gate_val, gate_fun. f_equal. fold (gfold t (v <$> elements (list_to_set l : gset string))). fold (gfold t (v <$> l)).
  rewrite (gfold_perm t _ (v <$> remove_dups l)) by (apply fmap_Permutation, elements_list_to_set_dups).
  by apply gfold_remove_dups.
Qed.
Lemma gate_val_list_nodup t v l : NoDup l → gate_val t v (list_to_set l) = gate_fun t (v <$> l).
Proof.
  intros Hnd. unfold gate_val, gate_fun. f_equal. fold (gfold t (v <$> elements (list_to_set l : gset string))). fold (gfold t (v <$> l)).
  apply gfold_perm, fmap_Permutation, elements_list_to_set. done.
Qed.
Lemma gate_fun_parity t v l : g_op t = xorb → g_unit t = false → gate_fun t (v <$> l) = gate_fun t (v <$> odd_ops l).
Proof. intros Ho Hu. unfold gate_fun. rewrite Ho, Hu. f_equal. exact (parity_cancel v l). Qed.

(* the reader's gate-name decoding (regenerated tables) is the documented dialect *)
Lemma fold_gate_doc g : fold_gate g = name_of_type <$> doc_gate g.
Proof.
  unfold fold_gate. case_bool_decide as Hin.
  - vm_compute in Hin. repeat (apply elem_of_cons in Hin as [->|Hin]; [vm_compute; reflexivity|]). by apply elem_of_nil in Hin.
  - unfold doc_gate. destruct (list_find _ doc_gates) as [[k p]|] eqn:E; [|done]. exfalso. apply Hin.
    apply list_find_Some in E as (Hk & Hp & _). simpl in Hp. subst g.
    assert (Hmem : p ∈ doc_gates) by (by eapply elem_of_list_lookup_2).
    clear Hk Hin. vm_compute in Hmem. vm_compute.
    repeat (apply elem_of_cons in Hmem as [->|Hmem]; [simpl; set_solver|]). by apply elem_of_nil in Hmem.
Qed.

Definition gate_types := [Buf; Not; And; Nand; Or; Nor; Xor; Xnor].
Lemma doc_gate_type g t : doc_gate g = Some t → t ∈ gate_types.
Proof.
  unfold doc_gate. destruct (list_find _ doc_gates) as [[k p]|] eqn:E; [|done]. intros [= <-].
  apply list_find_Some in E as (Hk & _ & _). assert (Hmem : p ∈ doc_gates) by (by eapply elem_of_list_lookup_2).
  vm_compute in Hmem. unfold gate_types. repeat (apply elem_of_cons in Hmem as [->|Hmem]; [simpl; set_solver|]). by apply elem_of_nil in Hmem.
Qed.

(* what gate_args hands to c.add, in terms of the documented gate type *)
Lemma gate_args_doc g ops : gate_args g ops =
  match ops, doc_gate g with
  | [], _ | _, None => None
  | _, Some t => Some (if bool_decide (t ∈ [Xor; Xnor])
                       then (if bool_decide (odd_ops ops = []) then (if bool_decide (t = Xor) then "0" else "1") else name_of_type t, odd_ops ops)
                       else (name_of_type t, ops)) end.
Proof.
  unfold gate_args. destruct ops as [|o ops]; [done|]. rewrite fold_gate_doc.
  destruct (doc_gate g) as [t|] eqn:E; [|done]. simpl.
  apply doc_gate_type in E. unfold gate_types in E.
  generalize (odd_ops (o :: ops)). intros l.
  repeat (apply elem_of_cons in E as [->|E]); try (by apply elem_of_nil in E); destruct l; reflexivity.
Qed.

(* THE per-line lemma: the node the reader creates for `net = G(ops)` computes G over the operand list, with
   multiplicities, for every operand list and every valuation *)
Theorem gate_line_denotes g ops t ty fi v :
  doc_gate g = Some t → gate_args g ops = Some (ty, fi) →
  (t ∈ [Buf; Not] → length ops = 1) →
  node_fun (type_of_name ty) v (list_to_set fi) = gate_fun t (v <$> ops).
Proof.
  intros Hdoc Hargs Hlen. rewrite gate_args_doc, Hdoc in Hargs. destruct ops as [|o ops]; [done|].
  pose proof (doc_gate_type _ _ Hdoc) as Ht. unfold gate_types in Ht.
  repeat (apply elem_of_cons in Ht as [->|Ht]); try (by apply elem_of_nil in Ht).
  all: try (rewrite (bool_decide_eq_false_2 (_ ∈ [Xor; Xnor])) in Hargs by set_solver).
  all: try (rewrite (bool_decide_eq_true_2 (_ ∈ [Xor; Xnor])) in Hargs by set_solver).
  all: try (rewrite (bool_decide_eq_true_2 (Xor = Xor)) in Hargs by done).
  all: try (rewrite (bool_decide_eq_false_2 (Xnor = Xor)) in Hargs by done).
  all: injection Hargs as <- <-.
  - (* buf *) destruct ops; [|specialize (Hlen ltac:(set_solver)); done]. change (type_of_name (name_of_type Buf)) with Buf.
    unfold node_fun. by apply gate_val_list_nodup, NoDup_singleton.
  - destruct ops; [|specialize (Hlen ltac:(set_solver)); done]. change (type_of_name (name_of_type Not)) with Not.
    unfold node_fun. by apply gate_val_list_nodup, NoDup_singleton.
  - change (type_of_name (name_of_type And)) with And. apply (gate_val_list_idem And). by left.
  - change (type_of_name (name_of_type Nand)) with Nand. apply (gate_val_list_idem Nand). by left.
  - change (type_of_name (name_of_type Or)) with Or. apply (gate_val_list_idem Or). by right.
  - change (type_of_name (name_of_type Nor)) with Nor. apply (gate_val_list_idem Nor). by right.
  - rewrite (gate_fun_parity Xor) by done. case_bool_decide as He.
    + rewrite He. reflexivity.
    + change (type_of_name (name_of_type Xor)) with Xor. unfold node_fun. apply gate_val_list_nodup, NoDup_odd_ops.
  - rewrite (gate_fun_parity Xnor) by done. case_bool_decide as He.
    + rewrite He. reflexivity.
    + change (type_of_name (name_of_type Xnor)) with Xnor. unfold node_fun. apply gate_val_list_nodup, NoDup_odd_ops.
Qed.

(* the remaining regenerated tables are the documented ones *)
Lemma tables_doc :
  dff_def = doc_dff ∧ (∀ q, dff_inst q = doc_inst q) ∧ wr_gates ≡ₚ [Buf; Not; And; Nand; Or; Nor; Xor; Xnor]
  ∧ (wr_const0, wr_const0_gate, wr_const1, wr_const1_gate, wr_kw_input, wr_kw_output) = ([C0], "XOR", [C1], "XNOR", "INPUT", "OUTPUT").
Proof.
  split; [reflexivity|]. split; [reflexivity|]. split; [|reflexivity].
  apply NoDup_Permutation; [vm_compute; repeat constructor; set_solver|repeat constructor; set_solver|].
  intros t. vm_compute wr_gates. destruct t; set_solver.
Qed.
