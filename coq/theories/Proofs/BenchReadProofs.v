(* C15: the mirrored four-pass bench reader (Model/Bench.v, over Base/Api.v) returns the closed form for every well-formed line list. *)
From stdpp Require Import strings gmap sets fin_sets.
From CG Require Import Base.Api.
From CG Require Import Model.Bench Model.BenchSpec Proofs.BenchProofs.
Open Scope string_scope.

Lemma add_edge_lookup c u v n : add_edge c u v !! n = if decide (n = v) then upd_fi (λ s, {[u]} ∪ s) <$> c !! n else c !! n.
Proof. unfold add_edge. destruct (decide (n = v)) as [->|Hne]; [by rewrite lookup_alter|by rewrite lookup_alter_ne]. Qed.

Definition name_ok (n : string) : Prop := n ≠ "" ∧ starts_digit n = false.

(* add(n, t) without fan-in/fan-out: the node is (re)created, existing edges into it are kept *)
Lemma add_g_plain c n T fl : af_uid fl = false → af_out fl = false →
  bool_decide (n ∈ dom c) && negb (af_redef fl) = false → T ∈ supported_types → name_ok n →
  add_g c n T [] [] fl = (<[n := mk_node T false (fanin c n)]> c, Done, n).
Proof.
  intros Hu Ho Hre HT [Hne Hsd]. unfold add_g. rewrite Hu, Ho. simpl negb. rewrite andb_true_l, Hre.
  rewrite (bool_decide_eq_true_2 _ HT). simpl negb. simpl. rewrite (bool_decide_eq_false_2 _ Hne), Hsd.
  destruct (af_conn fl); simpl; reflexivity.
Qed.

Definition buf0 : ninfo := mk_node Buf false ∅.
Definition place (c : circuit) (fi : list string) : circuit :=
  foldl (λ g f, if bool_decide (f ∈ dom g) then g else <[f := buf0]> g) c fi.
Lemma place_fold c fi : Forall name_ok fi →
  foldl (λ st f, match st with
                 | (g, Done) => if bool_decide (f ∈ dom g) then (g, Done) else add_plain_buf g f
                 | _ => st end) (c, Done) fi = (place c fi, Done).
Proof.
  intros H. revert c. induction H as [|f r [Hne Hsd] Hr IH]; intros c; [done|].
  simpl. unfold add_plain_buf. rewrite (bool_decide_eq_false_2 _ Hne), Hsd.
  destruct (bool_decide (f ∈ dom c)); apply IH.
Qed.
Lemma bd_cons (m f : string) r : bool_decide (m ∈ f :: r) = bool_decide (m = f) || bool_decide (m ∈ r).
Proof. apply eq_true_iff_eq. rewrite orb_true_iff, !bool_decide_eq_true, elem_of_cons. done. Qed.
Lemma place_lookup c fi m :
  place c fi !! m = match c !! m with Some i => Some i | None => if bool_decide (m ∈ fi) then Some buf0 else None end.
Proof.
  revert c. induction fi as [|f r IH]; intros c.
  - simpl. by destruct (c !! m).
  - change (place c (f :: r)) with (place (if bool_decide (f ∈ dom c) then c else <[f := buf0]> c) r).
    rewrite IH, bd_cons. destruct (decide (f ∈ dom c)) as [Hf|Hf].
    + rewrite (bool_decide_eq_true_2 _ Hf). apply elem_of_dom in Hf as [j Hj]. destruct (c !! m) as [i|] eqn:Hm; [done|].
      rewrite (bool_decide_eq_false_2 (m = f)); [done|]. intros ->. congruence.
    + rewrite (bool_decide_eq_false_2 _ Hf). apply not_elem_of_dom in Hf. destruct (decide (m = f)) as [->|Hne].
      * rewrite lookup_insert, Hf. by rewrite (bool_decide_eq_true_2 (f = f)).
      * rewrite lookup_insert_ne by done. by rewrite (bool_decide_eq_false_2 (m = f)).
Qed.

Lemma existsb_false {A} (f : A → bool) l : (∀ x, x ∈ l → f x = false) → existsb f l = false.
Proof. induction l as [|a l IH]; intros H; [done|]. simpl. rewrite H by (by left). apply IH. intros x Hx. apply H. by right. Qed.

Lemma connect_g_nil_l c vs : connect_g c [] vs = (c, Done).
Proof. reflexivity. Qed.
Lemma connect_g_nil_r c us : connect_g c us [] = (c, Done).
Proof. unfold connect_g. rewrite (bool_decide_eq_true_2 ([] = [])) by done. by rewrite orb_true_r. Qed.
Lemma connect_g_ok c us vs : us ≠ [] → vs ≠ [] → (∀ x, x ∈ (us ++ vs)%list → x ∈ dom c) → connect_check c us vs = true →
  connect_g c us vs = (foldl (λ c' p, add_edge c' p.1 p.2) c (pairs us vs), Done).
Proof.
  intros Hu Hv Hd Hc. unfold connect_g. rewrite (bool_decide_eq_false_2 _ Hu), (bool_decide_eq_false_2 _ Hv). simpl.
  assert (Hall : forallb (λ n, bool_decide (n ∈ dom c)) (us ++ vs) = true).
  { apply forallb_forall. intros x Hx%elem_of_list_In. apply bool_decide_eq_true. by apply Hd. }
  rewrite Hall, Hc. reflexivity.
Qed.
(* edges from every element of fi into one existing node *)
Lemma add_edges_to c n fi : ∀ i, c !! n = Some i →
  foldl (λ c' p, add_edge c' p.1 p.2) c (pairs fi [n]) = <[n := upd_fi (λ s, list_to_set fi ∪ s) i]> c.
Proof.
  revert c. induction fi as [|f r IH]; intros c i Hi.
  - simpl. apply map_eq. intros m. destruct (decide (m = n)) as [->|Hne]; [|by rewrite lookup_insert_ne].
    rewrite lookup_insert, Hi. destruct i as [t o s]. unfold upd_fi. simpl. do 2 f_equal. set_solver.
  - change (pairs (f :: r) [n]) with ((f, n) :: pairs r [n]). simpl.
    assert (Hae : add_edge c f n = <[n := upd_fi (λ s, {[f]} ∪ s) i]> c).
    { apply map_eq. intros m. rewrite add_edge_lookup. destruct (decide (m = n)) as [->|Hne]; [by rewrite lookup_insert, Hi|by rewrite lookup_insert_ne]. }
    rewrite Hae. rewrite (IH _ (upd_fi (λ s, {[f]} ∪ s) i)) by (by rewrite lookup_insert).
    rewrite insert_insert. f_equal. destruct i as [t o s]. unfold upd_fi. simpl. f_equal. set_solver.
Qed.

Definition nopins (c : circuit) : Prop := ∀ m i, c !! m = Some i → n_ty i ≠ BbIn ∧ n_ty i ≠ BbOut.
Definition gate_ty := [Buf; Not; And; Nand; Or; Nor; Xor; Xnor; C0; C1].

(* c.add(n, T, fanin=fi, add_connected_nodes=True, allow_redefinition=True) on a node that has no fan-in yet *)
Lemma add_g_gate c n T fi : name_ok n → Forall name_ok fi → fanin c n = ∅ → nopins c →
  T ∈ gate_ty → (T ∈ [C0; C1] → fi = []) → (T ∈ [Buf; Not] → length fi ≤ 1) →
  add_g c n T fi [] rd_flags = (<[n := mk_node T false (list_to_set fi)]> (place c fi), Done, n).
Proof.
  intros [Hne Hsd] Hfi Hfan Hnp HT Hc Hb. unfold add_g. simpl af_uid. simpl af_redef. simpl af_out. simpl af_conn. cbv iota.
  rewrite andb_false_r.
  assert (H1 : bool_decide (T ∈ supported_types) = true).
  { unfold gate_ty in HT. repeat (apply elem_of_cons in HT as [->|HT]; [reflexivity|]). by apply elem_of_nil in HT. }
  rewrite H1. simpl negb. cbv iota.
  assert (H2 : (1 <? length fi)%nat && bool_decide (T ∈ add_single_fanin) = false).
  { destruct (decide (T ∈ [Buf; Not])) as [Hs|Hs].
    - specialize (Hb Hs). apply andb_false_iff. left. apply Nat.ltb_ge. lia.
    - apply andb_false_iff. right. apply bool_decide_eq_false. intros Hin. apply Hs. revert Hin. vm_compute add_single_fanin. done. }
  rewrite H2.
  assert (H3 : negb (bool_decide (fi = [])) && bool_decide (T ∈ add_no_fanin) = false).
  { destruct (decide (T ∈ [C0; C1])) as [Hs|Hs].
    - rewrite (Hc Hs). reflexivity.
    - apply andb_false_iff. right. apply bool_decide_eq_false. intros Hin. apply Hs.
      unfold gate_ty in HT. repeat (apply elem_of_cons in HT as [->|HT]); try (by apply elem_of_nil in HT);
        first [by repeat constructor | (exfalso; revert Hin; vm_compute add_no_fanin; intros Hin; apply elem_of_list_In in Hin; simpl in Hin; intuition discriminate)]. }
  rewrite H3. rewrite (bool_decide_eq_false_2 _ Hne), Hsd. rewrite Hfan, app_nil_r, place_fold by done.
  set (c1 := <[n := mk_node T false ∅]> c).
  change (filter _ []) with (@nil string). rewrite connect_g_nil_r.
  assert (Hc1n : place c1 fi !! n = Some (mk_node T false ∅)). { rewrite place_lookup. unfold c1. by rewrite lookup_insert. }
  assert (Hres : <[n := mk_node T false (list_to_set fi)]> (place c1 fi) = <[n := mk_node T false (list_to_set fi)]> (place c fi)).
  { apply map_eq. intros m. destruct (decide (m = n)) as [->|Hmn]; [by rewrite !lookup_insert|].
    rewrite !lookup_insert_ne by done. rewrite !place_lookup. unfold c1. by rewrite lookup_insert_ne. }
  destruct fi as [|f0 r] eqn:Efi.
  { rewrite connect_g_nil_l. reflexivity. }
  rewrite <- Efi in *. assert (Hfine : fi ≠ []) by (by rewrite Efi). clear Efi.
  rewrite connect_g_ok; [| done | done | |].
  - rewrite (add_edges_to _ _ _ _ Hc1n). unfold upd_fi. simpl. rewrite union_empty_r_L. do 2 f_equal. exact Hres.
  - intros x [Hx|Hx%elem_of_list_singleton]%elem_of_app; apply elem_of_dom.
    + rewrite place_lookup. destruct (c1 !! x); [eauto|]. rewrite bool_decide_eq_true_2 by done. eauto.
    + subst x. rewrite Hc1n. eauto.
  - assert (HTp : T ≠ BbIn ∧ T ≠ BbOut).
    { unfold gate_ty in HT. repeat (apply elem_of_cons in HT as [->|HT]; [done|]). by apply elem_of_nil in HT. }
    assert (Hnp' : nopins (place c1 fi)).
    { intros m i. rewrite place_lookup. unfold c1. destruct (decide (m = n)) as [->|Hmn].
      - rewrite lookup_insert. intros E. injection E as E. rewrite <- E. exact HTp.
      - rewrite lookup_insert_ne by done. destruct (c !! m) as [j|] eqn:Hj; [intros E; injection E as E; rewrite <- E; by eapply Hnp|].
        destruct (bool_decide (m ∈ fi)); [|done]. intros E. apply (inj Some) in E. rewrite <- E. done. }
    unfold connect_check. apply andb_true_iff. split; apply negb_true_iff.
    + simpl existsb. rewrite orb_false_r.
      assert (Hfan' : fanin (place c1 fi) n = ∅) by (unfold fanin; by rewrite Hc1n).
      assert (Hty' : ty (place c1 fi) n = Some T) by (unfold ty; by rewrite Hc1n).
      rewrite Hty', Hfan', size_empty. simpl.
      apply orb_false_iff. split.
      * apply bool_decide_eq_false. intros Hin.
        assert (Hcc : T ∈ [C0; C1]).
        { unfold gate_ty in HT. repeat (apply elem_of_cons in HT as [->|HT]); try (by apply elem_of_nil in HT);
            first [by repeat constructor | (exfalso; revert Hin; vm_compute conn_no_fanin; intros Hin; apply elem_of_list_In in Hin; simpl in Hin; intuition discriminate)]. }
        by apply Hc in Hcc.
      * apply andb_false_iff. destruct (decide (T ∈ [Buf; Not])) as [Hs|Hs].
        -- right. apply Nat.ltb_ge. specialize (Hb Hs). lia.
        -- left. apply bool_decide_eq_false. intros Hin. apply Hs. revert Hin. vm_compute conn_single_fanin.
           intros Hin%elem_of_list_In. simpl in Hin. destruct Hin as [E|[E|[E|[]]]]; rewrite <- E in *; [by destruct HTp|by left|by right; left].
    + apply existsb_false. intros u Hu.
      assert (Hud : is_Some (place c1 fi !! u)).
      { rewrite place_lookup. destruct (c1 !! u); [eauto|]. rewrite bool_decide_eq_true_2 by done. eauto. }
      destruct Hud as [j Hj]. destruct (Hnp' u j Hj) as [Hp1 Hp2]. unfold ty. rewrite Hj. change (n_ty <$> Some j) with (Some (n_ty j)). unfold is_in at 1 2.
      rewrite (bool_decide_eq_false_2 (n_ty j ∈ conn_no_fanout)); [|vm_compute conn_no_fanout; by intros E%elem_of_list_singleton].
      rewrite (bool_decide_eq_false_2 (n_ty j ∈ conn_bbout)); [|vm_compute conn_bbout; by intros E%elem_of_list_singleton]. reflexivity.
Qed.

Lemma alpha_not_digit a : is_alpha a = true →
  (let k := Ascii.nat_of_ascii a in (48 <=? k)%nat && (k <=? 57)%nat) = false.
Proof.
  unfold is_alpha. cbv zeta. generalize (Ascii.nat_of_ascii a). intros k H.
  apply andb_false_iff. destruct (decide (k ≤ 57)); [|right; apply Nat.leb_gt; lia].
  exfalso. apply orb_true_iff in H as [H|H]; apply andb_true_iff in H as [H1 H2]; apply Nat.leb_le in H1; lia.
Qed.
Lemma ident_name_ok n : ident n = true → name_ok n.
Proof.
  destruct n as [|a r]; [done|]. simpl. intros [Ha _]%andb_true_iff. split; [done|]. unfold starts_digit. by apply alpha_not_digit.
Qed.
Lemma pin_name_ok q p : ident q = true → name_ok (pin (dff_inst q) p).
Proof.
  destruct q as [|a r]; [done|]. simpl. intros [Ha _]%andb_true_iff. split; [done|].
  unfold pin, dff_inst, starts_digit. simpl. by apply alpha_not_digit.
Qed.

Lemma connect_one c u v i j : c !! v = Some i → c !! u = Some j → connect_check c [u] [v] = true →
  connect_g c [u] [v] = (<[v := mk_node (n_ty i) (n_out i) ({[u]} ∪ n_fi i)]> c, Done).
Proof.
  intros Hv Hu Hc. rewrite connect_g_ok; [|done|done| |done].
  - rewrite (add_edges_to _ _ _ _ Hv). do 2 f_equal. destruct i as [t o f]. unfold upd_fi, mk_node. simpl. f_equal. set_solver.
  - intros x Hx. apply elem_of_dom. simpl in Hx. apply elem_of_cons in Hx as [->|Hx]; [eauto|]. apply elem_of_list_singleton in Hx as ->. eauto.
Qed.
(* the checks of connect for one edge u -> v *)
Lemma connect_check_one c u v tu tv : ty c u = Some tu → ty c v = Some tv →
  tv ∉ conn_no_fanin → (tv ∈ conn_single_fanin → fanin c v = ∅) → tu ≠ BbIn →
  (tu = BbOut → tv = Buf ∧ fanout c u = ∅) →
  connect_check c [u] [v] = true.
Proof.
  intros Hu Hv H1 H2 H3 H4. unfold connect_check. simpl existsb. rewrite !orb_false_r, Hu, Hv. unfold is_in.
  apply andb_true_iff. split; apply negb_true_iff.
  - apply orb_false_iff. split; [by apply bool_decide_eq_false|].
    apply andb_false_iff. destruct (decide (tv ∈ conn_single_fanin)) as [Hs|Hs].
    + right. rewrite (H2 Hs), size_empty. reflexivity.
    + left. by apply bool_decide_eq_false.
  - apply orb_false_iff. split.
    + apply bool_decide_eq_false. vm_compute conn_no_fanout. by intros E%elem_of_list_singleton.
    + destruct (decide (tu = BbOut)) as [E|E].
      * destruct (H4 E) as [-> Hfo]. rewrite Hfo, size_empty. apply andb_false_iff. right. reflexivity.
      * apply andb_false_iff. left. apply bool_decide_eq_false. vm_compute conn_bbout. by intros E'%elem_of_list_singleton.
Qed.

Definition pinD q := pin (dff_inst q) rd_dff_in.
Definition pinQ q := pin (dff_inst q) rd_dff_out.
Definition dff_graph (g : circuit) (q d : string) : circuit :=
  <[q := mk_node Buf false {[ pinQ q ]}]> (<[pinD q := mk_node BbIn false {[ d ]}]> (<[pinQ q := mk_node BbOut false ∅]> (<[pinD q := mk_node BbIn false ∅]> g))).

Lemma pinD_ne_pinQ q : pinD q ≠ pinQ q.
Proof. unfold pinD, pinQ. intros E. by apply pin_dff_inj in E as [_ E]. Qed.

Lemma dff_step_ok C q d : ident q = true → d ≠ "" →
  dff_inst q ∉ dom (c_bbs C) → pinD q ∉ dom (c_g C) → pinQ q ∉ dom (c_g C) →
  c_g C !! q = Some buf0 →
  (∃ j, c_g C !! d = Some j ∧ n_ty j ≠ BbIn ∧ n_ty j ≠ BbOut) →
  (∀ m i, c_g C !! m = Some i → pinQ q ∉ n_fi i) →
  dff_step C (BDff q d) = ({| c_name := c_name C; c_g := dff_graph (c_g C) q d; c_bbs := <[dff_inst q := dff_def]> (c_bbs C) |}, Done).
Proof.
  intros Hid Hd Hinst HpD HpQ Hq (j & Hj & Hj1 & Hj2) Hfo.
  assert (Hqne : q ≠ "") by (by destruct q).
  unfold dff_step, add_blackbox. rewrite (bool_decide_eq_false_2 _ Hinst).
  change (((λ p, (p, BbIn)) <$> [rd_dff_in]) ++ ((λ p, (p, BbOut)) <$> [rd_dff_out]))%list with [(rd_dff_in, BbIn); (rd_dff_out, BbOut)].
  fold (pinD q) (pinQ q).
  cbn [foldl fst snd]. fold (pinD q) (pinQ q).
  change (c_g (with_bbs C _)) with (c_g C).
  assert (HfD : fanin (c_g C) (pinD q) = ∅) by (unfold fanin; apply not_elem_of_dom in HpD; by rewrite HpD).
  assert (Hsup : BbIn ∈ supported_types ∧ BbOut ∈ supported_types) by (split; vm_compute supported_types; repeat constructor).
  rewrite (add_g_plain (c_g C) (pinD q) BbIn af_default); [|done|done|by rewrite (bool_decide_eq_false_2 _ HpD)|apply Hsup|by apply pin_name_ok].
  rewrite HfD. set (g1 := <[pinD q := mk_node BbIn false ∅]> (c_g C)). cbv iota beta.
  assert (HpQ1 : pinQ q ∉ dom g1). { unfold g1. rewrite dom_insert. pose proof (pinD_ne_pinQ q). set_solver. }
  assert (HfQ : fanin g1 (pinQ q) = ∅) by (unfold fanin; apply not_elem_of_dom in HpQ1; by rewrite HpQ1).
  rewrite (add_g_plain g1 (pinQ q) BbOut af_default); [|done|done|by rewrite (bool_decide_eq_false_2 _ HpQ1)|apply Hsup|by apply pin_name_ok].
  rewrite HfQ. set (g2 := <[pinQ q := mk_node BbOut false ∅]> g1). cbv iota beta.
  assert (B1 : bool_decide (rd_dff_in ∈ bb_in dff_def) = true) by (apply bool_decide_eq_true; unfold dff_def; simpl; set_solver).
  assert (B2 : bool_decide (rd_dff_out ∈ bb_in dff_def) = false).
  { apply bool_decide_eq_false. unfold dff_def. simpl. intros E%elem_of_singleton. by vm_compute in E. }
  assert (B3 : bool_decide (rd_dff_out ∈ bb_out dff_def) = true) by (apply bool_decide_eq_true; unfold dff_def; simpl; set_solver).
  rewrite B1. unfold str_arg. rewrite (bool_decide_eq_false_2 _ Hd).
  (* facts about the names *)
  assert (Hdd : d ∈ dom (c_g C)) by (apply elem_of_dom; eauto).
  assert (Hqd : q ∈ dom (c_g C)) by (apply elem_of_dom; eauto).
  assert (HdD : d ≠ pinD q) by (intros ->; done). assert (HdQ : d ≠ pinQ q) by (intros ->; done).
  assert (HqD : q ≠ pinD q) by (intros E; rewrite <- E in HpD; done). assert (HqQ : q ≠ pinQ q) by (intros E; rewrite <- E in HpQ; done).
  pose proof (pinD_ne_pinQ q) as HDQ.
  (* D connection *)
  assert (H2D : g2 !! pinD q = Some (mk_node BbIn false ∅)). { unfold g2, g1. rewrite lookup_insert_ne by done. by rewrite lookup_insert. }
  assert (H2d : g2 !! d = Some j). { unfold g2, g1. by rewrite !lookup_insert_ne. }
  rewrite (connect_one g2 d (pinD q) _ _ H2D H2d).
  2:{ apply (connect_check_one g2 d (pinD q) (n_ty j) BbIn); unfold ty, fanin; rewrite ?H2D, ?H2d; try done.
      - vm_compute conn_no_fanin. intros Hin%elem_of_list_In. simpl in Hin. intuition discriminate. }
  simpl n_ty. simpl n_out. simpl n_fi.
  set (g3 := <[pinD q := mk_node BbIn false ({[d]} ∪ ∅)]> g2). cbv iota beta.
  apply bool_decide_eq_false in B2. apply bool_decide_eq_true in B3.
  repeat match goal with |- context [@bool_decide (rd_dff_out ∈ bb_in dff_def) ?dd] => rewrite (@bool_decide_eq_false_2 _ dd B2) end.
  repeat match goal with |- context [@bool_decide (rd_dff_out ∈ bb_out dff_def) ?dd] => rewrite (@bool_decide_eq_true_2 _ dd B3) end.
  repeat match goal with |- context [@bool_decide (q = "") ?dd] => rewrite (@bool_decide_eq_false_2 _ dd Hqne) end.
  assert (H3q : g3 !! q = Some buf0). { unfold g3, g2, g1. by rewrite !lookup_insert_ne. }
  assert (H3Q : g3 !! pinQ q = Some (mk_node BbOut false ∅)). { unfold g3, g2. rewrite lookup_insert_ne by done. by rewrite lookup_insert. }
  rewrite (connect_one g3 (pinQ q) q _ _ H3q H3Q).
  2:{ apply (connect_check_one g3 (pinQ q) q BbOut Buf); unfold ty, fanin; rewrite ?H3q, ?H3Q; try done.
      - vm_compute conn_no_fanin. intros Hin%elem_of_list_In. simpl in Hin. intuition discriminate.
      - intros _. split; [done|]. apply set_eq. intros m. split; [|set_solver]. rewrite elem_of_fanout. intros (i & Hi & Hin).
        exfalso. unfold g3, g2, g1 in Hi.
        destruct (decide (m = pinD q)) as [->|H1]; [rewrite lookup_insert in Hi; injection Hi as <-; simpl in Hin; set_solver|].
        rewrite lookup_insert_ne in Hi by done.
        destruct (decide (m = pinQ q)) as [->|H2]; [rewrite lookup_insert in Hi; injection Hi as <-; simpl in Hin; set_solver|].
        rewrite !lookup_insert_ne in Hi by done. by eapply Hfo. }
  simpl. unfold with_g, with_bbs. simpl. f_equal. f_equal.
  unfold dff_graph, g3, g2, g1. rewrite !union_empty_r_L. reflexivity.
Qed.

(* ================= the four passes as pure folds ================= *)
Lemma rfold_pure {S A} (f : S → A → S * outcome) (pf : S → A → S) (Inv : S → list A → Prop) :
  (∀ s l R, Inv s (l :: R) → f s l = (pf s l, Done) ∧ Inv (pf s l) R) →
  ∀ ls s, Inv s ls → rfold f s ls = Ok (foldl pf s ls) ∧ Inv (foldl pf s ls) [].
Proof.
  intros H ls. induction ls as [|l R IH]; intros s Hi; [done|].
  destruct (H s l R Hi) as [E Hi']. simpl. rewrite E. by apply IH.
Qed.

Definition input0 : ninfo := mk_node Input false ∅.
Lemma fanin_none c n : c !! n = None → fanin c n = ∅.
Proof. intros H. unfold fanin. by rewrite H. Qed.
Lemma fanin_buf0 c n : c !! n = Some buf0 → fanin c n = ∅.
Proof. intros H. unfold fanin. by rewrite H. Qed.

(* ---- pass 1: inputs ---- *)
Definition pf1 (s : circuit) (l : bline) : circuit := match l with BInput n => <[n := input0]> s | _ => s end.
Definition Inv1 (s : circuit) (R : list bline) : Prop :=
  NoDup (decl_inputs R) ∧ ∀ n, n ∈ decl_inputs R → ident n = true ∧ n ∉ dom s.
Lemma decl_inputs_cons l R : decl_inputs (l :: R) = (match l with BInput n => [n] | _ => [] end ++ decl_inputs R)%list.
Proof. reflexivity. Qed.
Lemma pass1_step s l R : Inv1 s (l :: R) → in_step s l = (pf1 s l, Done) ∧ Inv1 (pf1 s l) R.
Proof.
  intros [Hnd Hin]. rewrite decl_inputs_cons in Hnd, Hin. destruct l as [n|n|n g ops|q d]; simpl in *; try (split; [done|split; done]).
  apply NoDup_cons in Hnd as [Hn Hnd]. destruct (Hin n ltac:(by left)) as [Hid Hdom].
  split.
  - unfold in_step. rewrite (add_g_plain s n Input af_default); [|done|done|by rewrite (bool_decide_eq_false_2 _ Hdom)|vm_compute supported_types; repeat constructor|by apply ident_name_ok].
    simpl. rewrite fanin_none by (by apply not_elem_of_dom). done.
  - split; [done|]. intros m Hm. destruct (Hin m ltac:(by right)) as [? ?]. split; [done|].
    rewrite dom_insert. intros [->%elem_of_singleton|?]%elem_of_union; done.
Qed.
Lemma pass1_lookup R : ∀ s m, foldl pf1 s R !! m = if bool_decide (m ∈ decl_inputs R) then Some input0 else s !! m.
Proof.
  induction R as [|l R IH]; intros s m; [done|]. simpl foldl. rewrite IH, decl_inputs_cons.
  destruct l as [n|n|n g ops|q d]; simpl; try done.
  rewrite bd_cons. destruct (bool_decide (m ∈ decl_inputs R)); [by rewrite orb_true_r|]. rewrite orb_false_r.
  case_bool_decide as E; [subst; by rewrite lookup_insert|by rewrite lookup_insert_ne].
Qed.

(* ---- pass 2: gate lines ---- *)
Lemma gate_args_types g ops T t fi : doc_gate g = Some T → (T ∈ [Buf; Not] → length ops = 1) → gate_args g ops = Some (t, fi) →
  type_of_name t ∈ gate_ty ∧ (type_of_name t ∈ [C0; C1] → fi = []) ∧ (type_of_name t ∈ [Buf; Not] → length fi ≤ 1) ∧ (∀ x, x ∈ fi → x ∈ ops).
Proof.
  intros Hdoc Hlen Hargs. rewrite gate_args_doc, Hdoc in Hargs. destruct ops as [|o ops]; [done|].
  pose proof (doc_gate_type _ _ Hdoc) as Ht. unfold gate_types in Ht.
  repeat (apply elem_of_cons in Ht as [->|Ht]); try (by apply elem_of_nil in Ht).
  all: try (rewrite (bool_decide_eq_false_2 (_ ∈ [Xor; Xnor])) in Hargs by (intros Hin%elem_of_list_In; simpl in Hin; intuition discriminate)).
  all: try (rewrite (bool_decide_eq_true_2 (_ ∈ [Xor; Xnor])) in Hargs by (by repeat constructor)).
  all: try (rewrite (bool_decide_eq_true_2 (Xor = Xor)) in Hargs by done).
  all: try (rewrite (bool_decide_eq_false_2 (Xnor = Xor)) in Hargs by done).
  all: injection Hargs as <- <-.
  1-6: (split; [vm_compute; by repeat constructor|]; split; [intros Hin%elem_of_list_In; vm_compute in Hin; intuition discriminate|]; split; [|done];
        intros Hin; first [rewrite (Hlen ltac:(by repeat constructor)); lia | (apply elem_of_list_In in Hin; vm_compute in Hin; intuition discriminate)]).
  all: case_bool_decide as He.
  all: split; [vm_compute; by repeat constructor|]; split;
       [first [by intros _ | (intros Hin%elem_of_list_In; vm_compute in Hin; intuition discriminate)]|]; split;
       [first [(rewrite He; simpl; lia) | (intros Hin%elem_of_list_In; vm_compute in Hin; intuition discriminate)]|by intros x ?%odd_ops_sub].
Qed.

Definition gate_lhs (l : bline) : list string := match l with BGate n _ _ => [n] | _ => [] end.
Definition gate_fi (l : bline) : list string :=
  match l with BGate _ g ops => match gate_args g ops with Some (_, fi) => fi | None => [] end | _ => [] end.
Definition pf2 (s : circuit) (l : bline) : circuit :=
  match l with
  | BGate net g ops => match gate_args g ops with
                       | Some (t, fi) => <[net := mk_node (type_of_name t) false (list_to_set fi)]> (place s fi)
                       | None => s end
  | _ => s end.
Definition line_good (l : bline) : Prop :=
  match l with
  | BGate net g ops => ident net = true ∧ Forall (λ o, ident o = true) ops ∧ ops ≠ [] ∧
                       ∃ T, doc_gate g = Some T ∧ (T ∈ [Buf; Not] → length ops = 1)
  | _ => True end.
Definition idfi (s : circuit) : Prop := ∀ m i, s !! m = Some i → ∀ x, x ∈ n_fi i → ident x = true.
Definition Inv2 (s : circuit) (R : list bline) : Prop :=
  idfi s ∧ nopins s ∧ Forall line_good R ∧ NoDup (R ≫= gate_lhs) ∧ ∀ n, n ∈ R ≫= gate_lhs → s !! n = None ∨ s !! n = Some buf0.

Lemma nopins_gate s net T fi : nopins s → T ∈ gate_ty → nopins (<[net := mk_node T false (list_to_set fi)]> (place s fi)).
Proof.
  intros Hnp HT m i. destruct (decide (m = net)) as [->|Hne].
  - rewrite lookup_insert. intros E. apply (inj Some) in E. rewrite <- E. simpl.
    unfold gate_ty in HT. repeat (apply elem_of_cons in HT as [->|HT]; [done|]). by apply elem_of_nil in HT.
  - rewrite lookup_insert_ne by done. rewrite place_lookup. destruct (s !! m) as [j|] eqn:Hj.
    + intros E. apply (inj Some) in E. rewrite <- E. by eapply Hnp.
    + destruct (bool_decide (m ∈ fi)); [|done]. intros E. apply (inj Some) in E. rewrite <- E. done.
Qed.

Lemma pass2_step s l R : Inv2 s (l :: R) → gate_step s l = (pf2 s l, Done) ∧ Inv2 (pf2 s l) R.
Proof.
  intros (Hidfi & Hnp & Hgood & Hnd & Hlhs). apply Forall_cons in Hgood as [Hl Hgood]. rewrite bind_cons in Hnd, Hlhs.
  destruct l as [n|n|net g ops|q d]; simpl in *; try (split; [done|unfold Inv2; by auto]).
  destruct Hl as (Hid & Hops & Hne & T & Hdoc & Hlen).
  destruct (gate_args_some g ops T Hdoc Hne) as (t & fi & Hargs). rewrite Hargs.
  destruct (gate_args_types g ops T t fi Hdoc Hlen Hargs) as (HT & Hc & Hb & Hsub).
  apply NoDup_cons in Hnd as [Hnet Hnd].
  assert (Hfi : Forall name_ok fi).
  { apply Forall_forall. intros x Hx. apply ident_name_ok. rewrite Forall_forall in Hops. by apply Hops, Hsub. }
  split.
  - rewrite add_g_gate; try done; [by apply ident_name_ok|].
    destruct (Hlhs net ltac:(by left)) as [E|E]; [by apply fanin_none|by apply fanin_buf0].
  - split.
    { intros m i. destruct (decide (m = net)) as [->|Hmn].
      - rewrite lookup_insert. intros E. apply (inj Some) in E. rewrite <- E. simpl. intros x Hx%elem_of_list_to_set.
        rewrite Forall_forall in Hops. by apply Hops, Hsub.
      - rewrite lookup_insert_ne by done. rewrite place_lookup. destruct (s !! m) as [j|] eqn:Hj.
        + intros E. apply (inj Some) in E. rewrite <- E. by eapply Hidfi.
        + destruct (bool_decide (m ∈ fi)); [|done]. intros E. apply (inj Some) in E. rewrite <- E. simpl. set_solver. }
    split; [by apply nopins_gate|]. split; [done|]. split; [done|]. intros m Hm.
    assert (m ≠ net) by (intros ->; done). rewrite lookup_insert_ne by done. rewrite place_lookup.
    destruct (Hlhs m ltac:(by right)) as [-> | ->]; [|by right]. destruct (bool_decide (m ∈ fi)); auto.
Qed.

Lemma pass2_other R : ∀ s m, m ∉ R ≫= gate_lhs →
  foldl pf2 s R !! m = match s !! m with Some i => Some i | None => if bool_decide (m ∈ R ≫= gate_fi) then Some buf0 else None end.
Proof.
  induction R as [|l R IH]; intros s m Hm.
  - simpl. by destruct (s !! m).
  - rewrite bind_cons in Hm. apply not_elem_of_app in Hm as [Hm1 Hm2]. simpl foldl. rewrite IH by done. rewrite bind_cons.
    destruct l as [n|n|net g ops|q d]; simpl; try done.
    destruct (gate_args g ops) as [[t fi]|]; [|done].
    assert (m ≠ net) by (intros ->; apply Hm1; simpl; by left). rewrite lookup_insert_ne by done. rewrite place_lookup.
    destruct (s !! m); [done|].
    assert (Hb : bool_decide (m ∈ (fi ++ R ≫= gate_fi)%list) = bool_decide (m ∈ fi) || bool_decide (m ∈ R ≫= gate_fi)).
    { apply eq_true_iff_eq. rewrite orb_true_iff, !bool_decide_eq_true, elem_of_app. done. }
    rewrite Hb. by destruct (bool_decide (m ∈ fi)), (bool_decide (m ∈ R ≫= gate_fi)).
Qed.
Lemma pass2_gate R : ∀ s net g ops t fi, NoDup (R ≫= gate_lhs) → BGate net g ops ∈ R → gate_args g ops = Some (t, fi) →
  foldl pf2 s R !! net = Some (mk_node (type_of_name t) false (list_to_set fi)).
Proof.
  induction R as [|l R IH]; intros s net g ops t fi Hnd Hin Hargs; [by apply elem_of_nil in Hin|].
  rewrite bind_cons in Hnd. apply NoDup_app in Hnd as (_ & Hdisj & Hnd). simpl foldl.
  apply elem_of_cons in Hin as [<-|Hin].
  - simpl pf2. rewrite Hargs. rewrite pass2_other; [by rewrite lookup_insert|].
    apply Hdisj. simpl. by left.
  - by eapply IH.
Qed.

(* ---- pass 3a: buffers of the DFF outputs ---- *)
Definition dffq (R : list bline) : list string := R ≫= λ l, match l with BDff q _ => [q] | _ => [] end.
Definition pf3a (s : circuit) (l : bline) : circuit := match l with BDff q _ => <[q := buf0]> s | _ => s end.
Definition Inv3a (s : circuit) (R : list bline) : Prop :=
  ∀ q, q ∈ dffq R → ident q = true ∧ (s !! q = None ∨ s !! q = Some buf0).
Lemma pass3a_step s l R : Inv3a s (l :: R) → dffbuf_step s l = (pf3a s l, Done) ∧ Inv3a (pf3a s l) R.
Proof.
  intros Hin. unfold Inv3a, dffq in *. rewrite bind_cons in Hin.
  destruct l as [n|n|net g ops|q d]; simpl in *; try (split; [done|by auto]).
  destruct (Hin q ltac:(by left)) as [Hid Hq]. split.
  - rewrite (add_g_plain s q Buf redef_flags); [|done|done|by rewrite andb_false_r|vm_compute supported_types; repeat constructor|by apply ident_name_ok].
    simpl. destruct Hq as [E|E]; [by rewrite fanin_none|by rewrite fanin_buf0].
  - intros q' Hq'. destruct (Hin q' ltac:(by right)) as [? Hs]. split; [done|].
    destruct (decide (q' = q)) as [->|Hne]; [right; by rewrite lookup_insert|by rewrite lookup_insert_ne].
Qed.
Lemma pass3a_lookup R : ∀ s m, foldl pf3a s R !! m = if bool_decide (m ∈ dffq R) then Some buf0 else s !! m.
Proof.
  induction R as [|l R IH]; intros s m; [done|]. simpl foldl. rewrite IH. unfold dffq. rewrite bind_cons.
  destruct l as [n|n|n g ops|q d]; simpl; try done.
  rewrite bd_cons. fold (dffq R). destruct (bool_decide (m ∈ dffq R)); [by rewrite orb_true_r|]. rewrite orb_false_r.
  case_bool_decide as E; [subst; by rewrite lookup_insert|by rewrite lookup_insert_ne].
Qed.

(* ---- pass 4: output marks ---- *)
Definition pf4 (s : circuit) (l : bline) : circuit :=
  match l with BOutput n => match s !! n with Some i => <[n := set_out true i]> s | None => s end | _ => s end.
Definition Inv4 (s : circuit) (R : list bline) : Prop := ∀ n, n ∈ decl_outputs R → n ∈ dom s.
Lemma pass4_step s l R : Inv4 s (l :: R) → out_step s l = (pf4 s l, Done) ∧ Inv4 (pf4 s l) R.
Proof.
  intros Hin. unfold Inv4, decl_outputs in *. rewrite bind_cons in Hin.
  destruct l as [n|n|net g ops|q d]; simpl in *; try (split; [done|by auto]).
  pose proof (Hin n ltac:(by left)) as Hd. apply elem_of_dom in Hd as [i Hi]. rewrite Hi. split; [unfold set_output_g; simpl; by rewrite Hi|].
  intros m Hm. rewrite dom_insert. apply elem_of_union. right. apply Hin. by right.
Qed.
Lemma pass4_lookup R : ∀ s m, foldl pf4 s R !! m = (if bool_decide (m ∈ decl_outputs R) then set_out true else id) <$> s !! m.
Proof.
  induction R as [|l R IH]; intros s m.
  - simpl. by destruct (s !! m).
  - simpl foldl. rewrite IH. unfold decl_outputs. rewrite bind_cons. fold (decl_outputs R).
    destruct l as [n|n|n g ops|q d]; simpl; try done.
    rewrite bd_cons. destruct (s !! n) as [i|] eqn:Hi.
    + destruct (decide (m = n)) as [->|Hne].
      * rewrite lookup_insert, Hi. rewrite (bool_decide_eq_true_2 (n = n)) by done. simpl.
        destruct (bool_decide (n ∈ decl_outputs R)); by destruct i.
      * rewrite lookup_insert_ne by done. by rewrite (bool_decide_eq_false_2 (m = n)).
    + destruct (decide (m = n)) as [->|Hne]; [by rewrite Hi|]. by rewrite (bool_decide_eq_false_2 (m = n)).
Qed.

(* ---- pass 3b: the dff blackboxes ---- *)
Lemma ident_ne_pin n q p : ident n = true → n ≠ pin (dff_inst q) p.
Proof. intros Hid E. rewrite E, ident_not_pin in Hid. done. Qed.
Lemma dff_keys_ne q q' : ident q = true → ident q' = true → q ≠ q' →
  q ≠ pinD q' ∧ q ≠ pinQ q' ∧ pinD q ≠ q' ∧ pinD q ≠ pinD q' ∧ pinD q ≠ pinQ q' ∧ pinQ q ≠ q' ∧ pinQ q ≠ pinD q' ∧ pinQ q ≠ pinQ q'.
Proof.
  intros H1 H2 Hne. unfold pinD, pinQ. repeat split; try (by apply ident_ne_pin); try (apply not_eq_sym; by apply ident_ne_pin);
    intros E; apply pin_dff_inj in E as [E _]; done.
Qed.
Lemma dff_inst_inj q q' : dff_inst q = dff_inst q' → q = q'.
Proof. unfold dff_inst. intros E. by apply app_inv_len in E as [E _]. Qed.
Lemma dff_graph_lookup g q d m : dff_graph g q d !! m =
  if decide (m = q) then Some (mk_node Buf false {[ pinQ q ]})
  else if decide (m = pinD q) then Some (mk_node BbIn false {[ d ]})
  else if decide (m = pinQ q) then Some (mk_node BbOut false ∅) else g !! m.
Proof.
  unfold dff_graph. destruct (decide (m = q)) as [->|H1]; [by rewrite lookup_insert|]. rewrite lookup_insert_ne by done.
  destruct (decide (m = pinD q)) as [->|H2]; [by rewrite lookup_insert|]. rewrite lookup_insert_ne by done.
  destruct (decide (m = pinQ q)) as [->|H3]; [by rewrite lookup_insert|]. by rewrite !lookup_insert_ne.
Qed.

Definition pf3b (C : Circuit) (l : bline) : Circuit :=
  match l with
  | BDff q d => {| c_name := c_name C; c_g := dff_graph (c_g C) q d; c_bbs := <[dff_inst q := dff_def]> (c_bbs C) |}
  | _ => C end.
Definition Inv3b (C : Circuit) (R : list bline) : Prop :=
  NoDup (dffq R) ∧ ∀ q d, (q, d) ∈ dff_lines R →
    ident q = true ∧ ident d = true ∧ dff_inst q ∉ dom (c_bbs C) ∧ pinD q ∉ dom (c_g C) ∧ pinQ q ∉ dom (c_g C)
    ∧ c_g C !! q = Some buf0 ∧ (∃ j, c_g C !! d = Some j ∧ n_ty j ≠ BbIn ∧ n_ty j ≠ BbOut)
    ∧ (∀ m i, c_g C !! m = Some i → pinQ q ∉ n_fi i).
Lemma dff_lines_cons l R : dff_lines (l :: R) = (match l with BDff q d => [(q, d)] | _ => [] end ++ dff_lines R)%list.
Proof. reflexivity. Qed.
Lemma dffq_cons l R : dffq (l :: R) = (match l with BDff q _ => [q] | _ => [] end ++ dffq R)%list.
Proof. reflexivity. Qed.
Lemma dff_lines_q q d R : (q, d) ∈ dff_lines R → q ∈ dffq R.
Proof.
  unfold dff_lines, dffq. rewrite !elem_of_list_bind. intros (l & Hin & Hl). exists l. split; [|done].
  destruct l; try (by apply elem_of_nil in Hin). apply elem_of_list_singleton in Hin as [= -> ->]. by left.
Qed.

Lemma pass3b_step C l R : Inv3b C (l :: R) → dff_step C l = (pf3b C l, Done) ∧ Inv3b (pf3b C l) R.
Proof.
  intros [Hnd Hin]. rewrite dffq_cons in Hnd. rewrite dff_lines_cons in Hin.
  destruct l as [n|n|net g ops|q d]; simpl in *; try (split; [by destruct C|split; [done|by auto]]).
  apply NoDup_cons in Hnd as [Hq Hnd].
  destruct (Hin q d ltac:(by left)) as (Hidq & Hidd & Hinst & HpD & HpQ & Hbuf & Hd & Hfo).
  split.
  - apply dff_step_ok; try done. by destruct d.
  - split; [done|]. intros q' d' Hin'. destruct (Hin q' d' ltac:(by right)) as (Hidq' & Hidd' & Hinst' & HpD' & HpQ' & Hbuf' & (j & Hj & Hj1 & Hj2) & Hfo').
    assert (Hne : q' ≠ q). { intros ->. apply Hq. by eapply dff_lines_q. }
    destruct (dff_keys_ne q' q Hidq' Hidq Hne) as (K1 & K2 & K3 & K4 & K5 & K6 & K7 & K8).
    simpl. split; [done|]. split; [done|]. split.
    { rewrite dom_insert. intros [E%elem_of_singleton|?]%elem_of_union; [|done]. by apply dff_inst_inj in E. }
    assert (Hdom : ∀ m, m ∈ dom (dff_graph (c_g C) q d) → m = q ∨ m = pinD q ∨ m = pinQ q ∨ m ∈ dom (c_g C)).
    { intros m [i Hi]%elem_of_dom. rewrite dff_graph_lookup in Hi. repeat (destruct (decide _) in Hi; [auto|]). right. right. right. apply elem_of_dom. eauto. }
    split. { intros Hm%Hdom. destruct Hm as [?|[?|[?|?]]]; done. }
    split. { intros Hm%Hdom. destruct Hm as [?|[?|[?|?]]]; done. }
    split.
    { rewrite dff_graph_lookup. rewrite decide_False by done.
      rewrite decide_False by (intros ->; apply HpD; apply elem_of_dom; eauto).
      rewrite decide_False by (intros ->; apply HpQ; apply elem_of_dom; eauto). done. }
    split.
    { rewrite dff_graph_lookup. destruct (decide (d' = q)) as [->|Hdq]; [eexists; split; [done|done]|].
      rewrite decide_False by (intros ->; apply HpD; apply elem_of_dom; eauto).
      rewrite decide_False by (intros ->; apply HpQ; apply elem_of_dom; eauto). eauto. }
    intros m i. rewrite dff_graph_lookup. repeat destruct (decide _).
    + intros E. apply (inj Some) in E. rewrite <- E. simpl. intros ?%elem_of_singleton. done.
    + intros E. apply (inj Some) in E. rewrite <- E. simpl. intros E'%elem_of_singleton. by apply (ident_ne_pin d q' rd_dff_out Hidd).
    + intros E. apply (inj Some) in E. rewrite <- E. simpl. set_solver.
    + apply Hfo'.
Qed.

Lemma pass3b_other R : ∀ C m, (∀ q d, (q, d) ∈ dff_lines R → m ≠ q ∧ m ≠ pinD q ∧ m ≠ pinQ q) →
  c_g (foldl pf3b C R) !! m = c_g C !! m.
Proof.
  induction R as [|l R IH]; intros C m Hm; [done|]. simpl foldl. rewrite dff_lines_cons in Hm.
  rewrite IH by (intros q d Hin; apply (Hm q d); apply elem_of_app; by right).
  destruct l as [n|n|n g ops|q d]; simpl; try done.
  destruct (Hm q d ltac:(apply elem_of_app; left; by left)) as (H1 & H2 & H3).
  rewrite dff_graph_lookup. by rewrite !decide_False.
Qed.
Lemma pass3b_dff R : ∀ C q d, NoDup (dffq R) → (∀ q' d', (q', d') ∈ dff_lines R → ident q' = true) → (q, d) ∈ dff_lines R →
  c_g (foldl pf3b C R) !! q = Some (mk_node Buf false {[ pinQ q ]})
  ∧ c_g (foldl pf3b C R) !! pinD q = Some (mk_node BbIn false {[ d ]})
  ∧ c_g (foldl pf3b C R) !! pinQ q = Some (mk_node BbOut false ∅).
Proof.
  induction R as [|l R IH]; intros C q d Hnd Hid Hin; [by apply elem_of_nil in Hin|].
  rewrite dffq_cons in Hnd. rewrite dff_lines_cons in Hin, Hid. simpl foldl.
  destruct l as [n|n|n g ops|q0 d0]; simpl in *; try (by apply IH).
  apply NoDup_cons in Hnd as [Hq0 Hnd]. apply elem_of_cons in Hin as [[= -> ->]|Hin].
  - assert (Hidq : ident q0 = true) by (eapply Hid; by left).
    assert (Hk : ∀ q' d', (q', d') ∈ dff_lines R → ident q' = true ∧ q0 ≠ q').
    { intros q' d' Hin'. split; [eapply Hid; by right|]. intros <-. apply Hq0. by eapply dff_lines_q. }
    rewrite !pass3b_other.
    + simpl. rewrite !dff_graph_lookup. rewrite decide_True by done.
      pose proof (pinD_ne_pinQ q0) as HDQ.
      assert (pinD q0 ≠ q0) by (apply not_eq_sym; by apply ident_ne_pin). assert (pinQ q0 ≠ q0) by (apply not_eq_sym; by apply ident_ne_pin).
      rewrite (decide_False (P := pinD q0 = q0)) by done. rewrite (decide_True (P := pinD q0 = pinD q0)) by done.
      rewrite (decide_False (P := pinQ q0 = q0)) by done. rewrite (decide_False (P := pinQ q0 = pinD q0)) by done.
      rewrite (decide_True (P := pinQ q0 = pinQ q0)) by done. done.
    + intros q' d' Hin'. destruct (Hk q' d' Hin') as [Hid' Hne]. destruct (dff_keys_ne q0 q' Hidq Hid' Hne) as (K1 & K2 & K3 & K4 & K5 & K6 & K7 & K8). done.
    + intros q' d' Hin'. destruct (Hk q' d' Hin') as [Hid' Hne]. destruct (dff_keys_ne q0 q' Hidq Hid' Hne) as (K1 & K2 & K3 & K4 & K5 & K6 & K7 & K8). done.
    + intros q' d' Hin'. destruct (Hk q' d' Hin') as [Hid' Hne]. destruct (dff_keys_ne q0 q' Hidq Hid' Hne) as (K1 & K2 & K3 & K4 & K5 & K6 & K7 & K8). done.
  - apply IH; [done| |done]. intros q' d' Hin'. eapply Hid. by right.
Qed.
Lemma pass3b_bbs R : ∀ C k, c_bbs (foldl pf3b C R) !! k = if bool_decide (k ∈ dff_inst <$> dffq R) then Some dff_def else c_bbs C !! k.
Proof.
  induction R as [|l R IH]; intros C k; [done|]. simpl foldl. rewrite IH, dffq_cons, fmap_app.
  generalize (dff_inst <$> dffq R). intros X.
  destruct l as [n|n|n g ops|q d]; try done.
  change (dff_inst <$> [q]) with [dff_inst q]. change ([dff_inst q] ++ X)%list with (dff_inst q :: X). simpl pf3b. simpl c_bbs.
  rewrite bd_cons. destruct (bool_decide (k ∈ X)); [by rewrite orb_true_r|]. rewrite orb_false_r.
  case_bool_decide as E; [subst; by rewrite lookup_insert|by rewrite lookup_insert_ne].
Qed.
Lemma pass3b_name R : ∀ C, c_name (foldl pf3b C R) = c_name C.
Proof. induction R as [|l R IH]; intros C; [done|]. simpl foldl. rewrite IH. by destruct l. Qed.

(* ================= assembly: the mirrored reader returns the closed form ================= *)
Lemma bind_sub_elem {A B} (f g : A → list B) (l : list A) x : (∀ a, f a = g a ∨ f a = []) → x ∈ l ≫= f → x ∈ l ≫= g.
Proof.
  intros Hfg (b & Hxb & Hb)%elem_of_list_bind. apply elem_of_list_bind. exists b. split; [|done].
  destruct (Hfg b) as [E|E]; rewrite E in Hxb; [done|by apply elem_of_nil in Hxb].
Qed.
Lemma NoDup_bind_sub {A B} (f g : A → list B) (l : list A) : (∀ a, f a = g a ∨ f a = []) → NoDup (l ≫= g) → NoDup (l ≫= f).
Proof.
  intros Hfg. induction l as [|a l IH]; [done|]. rewrite !bind_cons. intros (Ha & Hd & Hl)%NoDup_app. apply NoDup_app.
  split; [destruct (Hfg a) as [-> | ->]; [done|constructor]|]. split; [|by apply IH].
  intros x Hx Hx'. apply (Hd x).
  - destruct (Hfg a) as [E|E]; rewrite E in Hx; [done|by apply elem_of_nil in Hx].
  - by eapply bind_sub_elem.
Qed.
Lemma sub_inputs a : match a with BInput n => [n] | _ => [] end = line_lhs a ∨ match a with BInput n => [n] | _ => [] end = [].
Proof. destruct a; auto. Qed.
Lemma sub_gates a : gate_lhs a = line_lhs a ∨ gate_lhs a = [].
Proof. destruct a; auto. Qed.
Lemma sub_dffs a : match a with BDff q _ => [q] | _ => [] end = line_lhs a ∨ match a with BDff q _ => [q] | _ => [] end = [].
Proof. destruct a; auto. Qed.

Section read_closed.
  Context (name : string) (ls : list bline) (Hwf : wfb ls = true).
  Let outs : gset string := list_to_set (decl_outputs ls).

  Lemma in_line n : n ∈ decl_inputs ls → BInput n ∈ ls.
  Proof. unfold decl_inputs. intros (l & Hn & Hl)%elem_of_list_bind. destruct l; try (by apply elem_of_nil in Hn). by apply elem_of_list_singleton in Hn as ->. Qed.
  Lemma gate_line n : n ∈ ls ≫= gate_lhs → ∃ g ops, BGate n g ops ∈ ls.
  Proof. intros (l & Hn & Hl)%elem_of_list_bind. destruct l; try (by apply elem_of_nil in Hn). apply elem_of_list_singleton in Hn as ->. eauto. Qed.
  Lemma dff_line q : q ∈ dffq ls → ∃ d, BDff q d ∈ ls.
  Proof. unfold dffq. intros (l & Hn & Hl)%elem_of_list_bind. destruct l; try (by apply elem_of_nil in Hn). apply elem_of_list_singleton in Hn as ->. eauto. Qed.
  Lemma uniq l1 l2 n : l1 ∈ ls → l2 ∈ ls → n ∈ line_lhs l1 → n ∈ line_lhs l2 → l1 = l2.
  Proof. apply (lhs_same_line ls Hwf). Qed.
  Lemma in_not_gate n : n ∈ decl_inputs ls → n ∉ ls ≫= gate_lhs.
  Proof. intros H1%in_line (g & ops & H2)%gate_line. assert (BInput n = BGate n g ops); [|done]. eapply (uniq _ _ n); eauto; simpl; by left. Qed.
  Lemma in_not_dff n : n ∈ decl_inputs ls → n ∉ dffq ls.
  Proof. intros H1%in_line (d & H2)%dff_line. assert (BInput n = BDff n d); [|done]. eapply (uniq _ _ n); eauto; simpl; by left. Qed.
  Lemma gate_not_dff n : n ∈ ls ≫= gate_lhs → n ∉ dffq ls.
  Proof. intros (g & ops & H1)%gate_line (d & H2)%dff_line. assert (BGate n g ops = BDff n d); [|done]. eapply (uniq _ _ n); eauto; simpl; by left. Qed.
  Lemma nd_inputs : NoDup (decl_inputs ls).
  Proof. unfold decl_inputs. eapply NoDup_bind_sub; [apply sub_inputs|apply (wf_nodup ls Hwf)]. Qed.
  Lemma nd_gates : NoDup (ls ≫= gate_lhs).
  Proof. eapply NoDup_bind_sub; [apply sub_gates|apply (wf_nodup ls Hwf)]. Qed.
  Lemma nd_dffs : NoDup (dffq ls).
  Proof. unfold dffq. eapply NoDup_bind_sub; [apply sub_dffs|apply (wf_nodup ls Hwf)]. Qed.
  Lemma id_inputs n : n ∈ decl_inputs ls → ident n = true.
  Proof. intros H. apply (lhs_ident ls Hwf). unfold decl_inputs in H. eapply bind_sub_elem; [apply sub_inputs|done]. Qed.
  Lemma id_gates n : n ∈ ls ≫= gate_lhs → ident n = true.
  Proof. intros H. apply (lhs_ident ls Hwf). eapply bind_sub_elem; [apply sub_gates|done]. Qed.
  Lemma id_dffs n : n ∈ dffq ls → ident n = true.
  Proof. intros H. apply (lhs_ident ls Hwf). unfold dffq in H. eapply bind_sub_elem; [apply sub_dffs|done]. Qed.
  Lemma good_lines : Forall line_good ls.
  Proof.
    apply Forall_forall. intros l Hl. pose proof (wf_line ls Hwf l Hl) as Hok. destruct l as [n|n|net g ops|q d]; simpl; try done.
    simpl in Hok. apply andb_true_iff in Hok as [Hid Hok]. destruct (doc_gate g) as [T|] eqn:Hd; [|done].
    split; [done|]. split.
    { apply Forall_forall. intros o Ho. apply (operand_ident ls Hwf). unfold operands. apply elem_of_list_bind. exists (BGate net g ops). done. }
    split. { intros ->. case_bool_decide; apply bool_decide_eq_true in Hok; simpl in Hok; lia. }
    exists T. split; [done|]. intros Hin. rewrite bool_decide_eq_true_2 in Hok by done. by apply bool_decide_eq_true in Hok.
  Qed.
  Lemma gfi_ident x : x ∈ ls ≫= gate_fi → ident x = true.
  Proof.
    intros (l & Hx & Hl)%elem_of_list_bind. pose proof good_lines as Hg. rewrite Forall_forall in Hg. specialize (Hg l Hl).
    destruct l as [n|n|net g ops|q d]; simpl in *; try (by apply elem_of_nil in Hx).
    destruct Hg as (_ & Hops & Hne & T & Hd & Hlen). destruct (gate_args g ops) as [[t fi]|] eqn:Ha; [|by apply elem_of_nil in Hx].
    destruct (gate_args_types g ops T t fi Hd Hlen Ha) as (_ & _ & _ & Hsub). rewrite Forall_forall in Hops. by apply Hops, Hsub.
  Qed.

  Let g1 := foldl pf1 ∅ ls.
  Let g2 := foldl pf2 g1 ls.
  Let g3 := foldl pf3a g2 ls.
  Let C3 := {| c_name := name; c_g := g3; c_bbs := ∅ |}.
  Let C4 := foldl pf3b C3 ls.
  Let g5 := foldl pf4 (c_g C4) ls.

  Lemma stage1 : rfold in_step ∅ ls = Ok g1.
  Proof.
    apply (rfold_pure in_step pf1 Inv1 pass1_step). split; [apply nd_inputs|]. intros n Hn. split; [by apply id_inputs|].
    rewrite dom_empty. set_solver.
  Qed.
  Lemma g1_lookup m : g1 !! m = if bool_decide (m ∈ decl_inputs ls) then Some input0 else None.
  Proof. unfold g1. rewrite pass1_lookup. by rewrite lookup_empty. Qed.
  Lemma stage2 : rfold gate_step g1 ls = Ok g2 ∧ Inv2 g2 [].
  Proof.
    apply (rfold_pure gate_step pf2 Inv2 pass2_step). split; [|split; [|split; [apply good_lines|split; [apply nd_gates|]]]].
    - intros m i. rewrite g1_lookup. destruct (bool_decide _); [|done]. intros E. apply (inj Some) in E. rewrite <- E. simpl. set_solver.
    - intros m i. rewrite g1_lookup. destruct (bool_decide _); [|done]. intros E. apply (inj Some) in E. rewrite <- E. done.
    - intros n Hn. left. rewrite g1_lookup. rewrite bool_decide_eq_false_2; [done|]. intros Hi. by eapply in_not_gate.
  Qed.
  Lemma g2_other m : m ∉ ls ≫= gate_lhs →
    g2 !! m = if bool_decide (m ∈ decl_inputs ls) then Some input0 else if bool_decide (m ∈ ls ≫= gate_fi) then Some buf0 else None.
  Proof. intros Hm. unfold g2. rewrite pass2_other by done. rewrite g1_lookup. by destruct (bool_decide (m ∈ decl_inputs ls)). Qed.
  Lemma g2_gate net g ops : BGate net g ops ∈ ls → ∃ t fi, gate_args g ops = Some (t, fi) ∧ g2 !! net = Some (mk_node (type_of_name t) false (list_to_set fi)).
  Proof.
    intros Hl. pose proof good_lines as Hg. rewrite Forall_forall in Hg. destruct (Hg _ Hl) as (_ & _ & Hne & T & Hd & _).
    destruct (gate_args_some g ops T Hd Hne) as (t & fi & Ha). exists t, fi. split; [done|].
    unfold g2. eapply pass2_gate; eauto using nd_gates.
  Qed.
  Lemma stage3a : rfold dffbuf_step g2 ls = Ok g3.
  Proof.
    apply (rfold_pure dffbuf_step pf3a Inv3a pass3a_step). intros q Hq. split; [by apply id_dffs|].
    rewrite g2_other by (intros Hg; by eapply gate_not_dff).
    rewrite bool_decide_eq_false_2 by (intros Hi; by eapply in_not_dff). destruct (bool_decide _); auto.
  Qed.
  Lemma g3_lookup m : g3 !! m = if bool_decide (m ∈ dffq ls) then Some buf0 else g2 !! m.
  Proof. unfold g3. apply pass3a_lookup. Qed.
  Lemma g3_nopins : nopins g3.
  Proof.
    destruct stage2 as [_ (_ & Hnp & _)]. intros m i. rewrite g3_lookup. destruct (bool_decide _); [|apply Hnp].
    intros E. apply (inj Some) in E. rewrite <- E. done.
  Qed.
  Lemma g3_idfi : idfi g3.
  Proof.
    destruct stage2 as [_ (Hid & _)]. intros m i. rewrite g3_lookup. destruct (bool_decide _); [|apply Hid].
    intros E. apply (inj Some) in E. rewrite <- E. simpl. set_solver.
  Qed.
  Lemma g3_some_lhs m : is_Some (g3 !! m) → m ∈ ls ≫= line_lhs.
  Proof.
    rewrite g3_lookup. case_bool_decide as Hq.
    { intros _. unfold dffq in Hq. eapply bind_sub_elem; [apply sub_dffs|done]. }
    destruct (decide (m ∈ ls ≫= gate_lhs)) as [Hg|Hg]; [intros _; eapply bind_sub_elem; [apply sub_gates|done]|].
    rewrite g2_other by done. case_bool_decide as Hi.
    { intros _. unfold decl_inputs in Hi. eapply bind_sub_elem; [apply sub_inputs|done]. }
    case_bool_decide as Hf; [|by intros [? ?]]. intros _. apply (wf_defined ls Hwf). apply elem_of_app. left.
    apply elem_of_list_bind in Hf as (l & Hx & Hl). unfold operands. apply elem_of_list_bind. exists l. split; [|done].
    pose proof good_lines as Hgl. rewrite Forall_forall in Hgl. specialize (Hgl l Hl).
    destruct l as [n|n|net g ops|q d]; simpl in *; try (by apply elem_of_nil in Hx).
    destruct Hgl as (_ & _ & _ & T & Hd & Hlen). destruct (gate_args g ops) as [[t fi]|] eqn:Ha; [|by apply elem_of_nil in Hx].
    destruct (gate_args_types g ops T t fi Hd Hlen Ha) as (_ & _ & _ & Hsub). by apply Hsub.
  Qed.
  Lemma g3_lhs_some n : n ∈ ls ≫= line_lhs → is_Some (g3 !! n).
  Proof.
    intros (l & Hn & Hl)%elem_of_list_bind. rewrite g3_lookup. case_bool_decide; [eauto|].
    destruct l as [m|m|net g ops|q d]; simpl in Hn; try (by apply elem_of_nil in Hn); apply elem_of_list_singleton in Hn as ->.
    - rewrite g2_other by (apply in_not_gate; unfold decl_inputs; apply elem_of_list_bind; exists (BInput m); split; [by left|done]).
      rewrite bool_decide_eq_true_2; [eauto|]. unfold decl_inputs. apply elem_of_list_bind. exists (BInput m). split; [by left|done].
    - destruct (g2_gate _ _ _ Hl) as (t & fi & _ & ->). eauto.
    - exfalso. apply H. unfold dffq. apply elem_of_list_bind. exists (BDff q d). split; [by left|done].
  Qed.
  Lemma g3_nonident m : ident m = false → g3 !! m = None.
  Proof.
    intros Hid. destruct (g3 !! m) eqn:E; [|done]. exfalso.
    assert (Hl : m ∈ ls ≫= line_lhs) by (apply g3_some_lhs; eauto). apply (lhs_ident ls Hwf) in Hl. congruence.
  Qed.
  Lemma stage3b : rfold dff_step C3 ls = Ok C4.
  Proof.
    apply (rfold_pure dff_step pf3b Inv3b pass3b_step). split; [apply nd_dffs|]. intros q d Hqd.
    assert (Hl : BDff q d ∈ ls) by (by apply (dff_lines_iff ls)).
    assert (Hidq : ident q = true) by (apply id_dffs; by eapply dff_lines_q).
    assert (Hdop : d ∈ operands ls). { unfold operands. apply elem_of_list_bind. exists (BDff q d). split; [by left|done]. }
    assert (Hidd : ident d = true) by (by apply (operand_ident ls Hwf)).
    simpl. split; [done|]. split; [done|]. split; [rewrite dom_empty; set_solver|].
    split; [apply not_elem_of_dom, g3_nonident, ident_not_pin|]. split; [apply not_elem_of_dom, g3_nonident, ident_not_pin|].
    split. { rewrite g3_lookup. rewrite bool_decide_eq_true_2; [done|]. by eapply dff_lines_q. }
    split.
    { destruct (g3_lhs_some d) as [j Hj]; [apply (wf_defined ls Hwf); apply elem_of_app; by left|].
      exists j. split; [done|]. by eapply g3_nopins. }
    intros m i Hi Hin. pose proof (g3_idfi m i Hi _ Hin) as Hid. unfold pinQ in Hid. by rewrite ident_not_pin in Hid.
  Qed.

  Lemma dl_ident q d : (q, d) ∈ dff_lines ls → ident q = true.
  Proof. intros H. apply id_dffs. by eapply dff_lines_q. Qed.
  Lemma c4_dff q d : BDff q d ∈ ls →
    c_g C4 !! q = Some (mk_node Buf false {[ pinQ q ]}) ∧ c_g C4 !! pinD q = Some (mk_node BbIn false {[ d ]})
    ∧ c_g C4 !! pinQ q = Some (mk_node BbOut false ∅).
  Proof. intros Hl. apply pass3b_dff; [apply nd_dffs|apply dl_ident|by apply (dff_lines_iff ls)]. Qed.
  Lemma c4_other m : m ∉ dffq ls → ident m = true → c_g C4 !! m = g3 !! m.
  Proof.
    intros Hm Hid. unfold C4. rewrite pass3b_other; [done|]. intros q d Hqd. split; [intros ->; apply Hm; by eapply dff_lines_q|].
    split; by apply ident_ne_pin.
  Qed.
  Lemma c4_some m : is_Some (c_g C4 !! m) → m ∈ ls ≫= line_lhs ∨ ∃ q d, BDff q d ∈ ls ∧ (m = pinD q ∨ m = pinQ q).
  Proof.
    intros Hs. destruct (decide (Exists (λ qd, m = qd.1 ∨ m = pinD qd.1 ∨ m = pinQ qd.1) (dff_lines ls))) as [Hex|Hno].
    - apply Exists_exists in Hex as ([q d] & Hqd & Hm). simpl in Hm. assert (Hl : BDff q d ∈ ls) by (by apply (dff_lines_iff ls)). destruct Hm as [->|Hm]; [|right; eauto].
      left. apply elem_of_list_bind. exists (BDff q d). split; [by left|done].
    - left. apply g3_some_lhs. unfold C4 in Hs. rewrite pass3b_other in Hs; [done|].
      intros q d Hqd. repeat split; intros ->; apply Hno, Exists_exists; exists (q, d); simpl; auto.
  Qed.
  Lemma c4_lhs n : n ∈ ls ≫= line_lhs → is_Some (c_g C4 !! n).
  Proof.
    intros Hn. destruct (decide (n ∈ dffq ls)) as [Hq|Hq].
    - apply dff_line in Hq as [d Hl]. destruct (c4_dff n d Hl) as (-> & _). eauto.
    - rewrite c4_other; [by apply g3_lhs_some|done|by apply (lhs_ident ls Hwf)].
  Qed.
  Lemma stage4 : rfold out_step (c_g C4) ls = Ok g5.
  Proof.
    apply (rfold_pure out_step pf4 Inv4 pass4_step). intros n Hn. apply elem_of_dom, c4_lhs, (wf_defined ls Hwf). apply elem_of_app. by right.
  Qed.
  Lemma g5_lookup m : g5 !! m = (if bool_decide (m ∈ decl_outputs ls) then set_out true else id) <$> c_g C4 !! m.
  Proof. unfold g5. apply pass4_lookup. Qed.
  Lemma outs_bd n : bool_decide (n ∈ outs) = bool_decide (n ∈ decl_outputs ls).
  Proof. apply eq_true_iff_eq. rewrite !bool_decide_eq_true. unfold outs. by rewrite elem_of_list_to_set. Qed.
  Lemma g5_entry n T S : c_g C4 !! n = Some (mk_node T false S) → g5 !! n = Some (mk_node T (bool_decide (n ∈ outs)) S).
  Proof. intros H. rewrite g5_lookup, H, outs_bd. by destruct (bool_decide _). Qed.
  Lemma g5_pin n T S : ident n = false → c_g C4 !! n = Some (mk_node T false S) → g5 !! n = Some (mk_node T false S).
  Proof.
    intros Hid H. rewrite g5_lookup, H. rewrite bool_decide_eq_false_2; [done|]. intros Ho.
    assert (Hl : n ∈ ls ≫= line_lhs) by (apply (wf_defined ls Hwf); apply elem_of_app; by right).
    apply (lhs_ident ls Hwf) in Hl. congruence.
  Qed.

  (* every entry of the closed form is in the reader's result *)
  Lemma g5_has l m x : l ∈ ls → (m, x) ∈ line_nodes outs l → g5 !! m = Some x.
  Proof.
    intros Hl Hin. destruct l as [n|n|net g ops|q d]; simpl in Hin.
    - apply elem_of_list_singleton in Hin as [= -> ->]. apply g5_entry.
      assert (Hi : n ∈ decl_inputs ls). { unfold decl_inputs. apply elem_of_list_bind. exists (BInput n). split; [by left|done]. }
      rewrite c4_other; [|by apply in_not_dff|by apply id_inputs]. rewrite g3_lookup.
      rewrite bool_decide_eq_false_2 by (by apply in_not_dff). rewrite g2_other by (by apply in_not_gate).
      by rewrite bool_decide_eq_true_2.
    - by apply elem_of_nil in Hin.
    - destruct (g2_gate _ _ _ Hl) as (t & fi & Ha & Hg2). rewrite Ha in Hin. apply elem_of_list_singleton in Hin as [= -> ->]. apply g5_entry.
      assert (Hgl : net ∈ ls ≫= gate_lhs). { apply elem_of_list_bind. exists (BGate net g ops). split; [by left|done]. }
      rewrite c4_other; [|by apply gate_not_dff|by apply id_gates]. rewrite g3_lookup.
      rewrite bool_decide_eq_false_2 by (by apply gate_not_dff). done.
    - destruct (c4_dff q d Hl) as (H1 & H2 & H3). rewrite !elem_of_cons in Hin.
      destruct Hin as [[= -> ->]|[[= -> ->]|[[= -> ->]|Hin]]]; [| | |by apply elem_of_nil in Hin].
      + by apply g5_entry.
      + apply g5_pin; [apply ident_not_pin|done].
      + apply g5_pin; [apply ident_not_pin|done].
  Qed.

  Theorem read_is_closed_form : bench_read name ls = Ok (bench_closed name ls).
  Proof.
    unfold bench_read. rewrite stage1. simpl rbind. rewrite (proj1 stage2). simpl rbind. rewrite stage3a. simpl rbind.
    fold C3. rewrite stage3b. simpl rbind. rewrite stage4. simpl rbind. f_equal.
    unfold with_g, bench_closed. f_equal.
    - unfold C4. by rewrite pass3b_name.
    - apply map_eq. intros m. destruct (bench_graph ls !! m) as [x|] eqn:Hx.
      + apply (graph_lookup ls Hwf) in Hx as (l & Hl & Hin). by eapply g5_has.
      + destruct (g5 !! m) as [y|] eqn:Hy; [|done]. exfalso.
        assert (Hs : is_Some (c_g C4 !! m)). { rewrite g5_lookup in Hy. destruct (c_g C4 !! m); [eauto|done]. }
        assert (Hex : ∃ l x, l ∈ ls ∧ (m, x) ∈ line_nodes outs l).
        { apply c4_some in Hs as [Hlhs|(q & d & Hl & Hm)].
          - apply elem_of_list_bind in Hlhs as (l & Hm & Hl). destruct l as [n|n|net g ops|q d]; simpl in Hm; try (by apply elem_of_nil in Hm);
              apply elem_of_list_singleton in Hm as ->.
            + eexists _, _. split; [exact Hl|]. simpl. by left.
            + destruct (g2_gate _ _ _ Hl) as (t & fi & Ha & _). eexists _, _. split; [exact Hl|]. simpl. rewrite Ha. by left.
            + eexists _, _. split; [exact Hl|]. simpl. by left.
          - destruct Hm as [-> | ->].
            + exists (BDff q d), (mk_node BbIn false {[ d ]}). split; [done|]. simpl. right. by left.
            + exists (BDff q d), (mk_node BbOut false ∅). split; [done|]. simpl. right. right. by left. }
        destruct Hex as (l & x & Hl & Hin). assert (bench_graph ls !! m = Some x) by (apply (graph_lookup ls Hwf); eauto). congruence.
    - apply map_eq. intros k. unfold C4. rewrite pass3b_bbs. simpl. rewrite lookup_empty.
      case_bool_decide as Hk.
      + symmetry. apply elem_of_list_to_map_1'.
        * intros y Hy. apply elem_of_list_bind in Hy as (l & Hy & _). destruct l; try (by apply elem_of_nil in Hy). by apply elem_of_list_singleton in Hy as [= _ ->].
        * apply elem_of_list_fmap in Hk as (q & -> & Hq). apply dff_line in Hq as [d Hl]. apply elem_of_list_bind. exists (BDff q d). split; [by left|done].
      + symmetry. apply not_elem_of_list_to_map_1. intros Hin. apply Hk.
        apply elem_of_list_fmap in Hin as ([k' v] & -> & Hin). apply elem_of_list_bind in Hin as (l & Hy & Hl). destruct l as [?|?|? ? ?|q d]; try (by apply elem_of_nil in Hy).
        apply elem_of_list_singleton in Hy as [= -> ->]. simpl. apply elem_of_list_fmap. exists q. split; [done|]. unfold dffq. apply elem_of_list_bind. exists (BDff q d). split; [by left|done].
  Qed.
End read_closed.
