(* C15 round trip, closed-form level: for a lint-clean, blackbox- and x-free, closed, identifier-named circuit the writer's line
   list (for ANY legal set orders) is well-formed and its closed-form reading is the circuit itself, constants included. *)
From stdpp Require Import strings gmap sets fin_sets.
From CG Require Import Model.Bench Model.BenchSpec Model.Lint Proofs.LintProofs Proofs.BenchProofs.
Open Scope string_scope.

Ltac mem := by repeat constructor.
Ltac nomem H := exfalso; apply elem_of_list_In in H; simpl in H; intuition discriminate.

Definition pin_free (c : circuit) : Prop := ∀ n i, c !! n = Some i → n_ty i ≠ BbIn ∧ n_ty i ≠ BbOut.

Lemma tables_ok_gen : tables_ok gen_tables = true.
Proof. vm_compute. reflexivity. Qed.

Lemma filter_all (P : string → Prop) `{!∀ x, Decision (P x)} (l : list string) : (∀ x, x ∈ l → P x) → filter P l = l.
Proof.
  induction l as [|a l IH]; intros Hall; [done|]. rewrite filter_cons_True by (apply Hall; by left).
  f_equal. apply IH. intros x Hx. apply Hall. by right.
Qed.
Lemma filter_none (P : string → Prop) `{!∀ x, Decision (P x)} (l : list string) : (∀ x, x ∈ l → ¬ P x) → filter P l = [].
Proof.
  induction l as [|a l IH]; intros Hall; [done|]. rewrite filter_cons_False by (apply Hall; by left).
  apply IH. intros x Hx. apply Hall. by right.
Qed.
Lemma fromkeys_nodup l : NoDup l → fromkeys l = l.
Proof.
  induction 1 as [|x r Hx Hr IH]; [done|]. simpl. rewrite IH. f_equal. apply filter_all. intros y Hy ->. done.
Qed.
Lemma count_nodup i l : NoDup l → i ∈ l → count i l = 1.
Proof.
  induction 1 as [|x r Hx Hr IH]; intros Hi; [by apply elem_of_nil in Hi|].
  destruct (decide (i = x)) as [->|Hne].
  - rewrite count_cons_eq. f_equal. unfold count. rewrite filter_none; [done|]. intros y Hy ->. done.
  - rewrite count_cons_ne by done. apply IH. by apply elem_of_cons in Hi as [?|?].
Qed.
Lemma odd_ops_nodup l : NoDup l → odd_ops l = l.
Proof.
  intros Hnd. unfold odd_ops. rewrite fromkeys_nodup by done. apply filter_all. intros i Hi. by rewrite count_nodup.
Qed.
Lemma odd_ops_pair x : odd_ops [x; x] = [].
Proof.
  unfold odd_ops. apply filter_none. intros y Hy. rewrite elem_of_fromkeys in Hy.
  assert (y = x) as -> by set_solver. rewrite !count_cons_eq. unfold count. simpl. done.
Qed.

Section facts.
  Context (C : Circuit).
  Hypothesis (Hlint : lint_clean C) (Hx : no_x (c_g C)) (Hpin : pin_free (c_g C)).

  Lemma node_facts n i : c_g C !! n = Some i →
    n_ty i ∈ [Buf; Not; And; Nand; Or; Nor; Xor; Xnor; C0; C1; Input]
    ∧ (n_ty i ∈ [Input; C0; C1] → n_fi i = ∅)
    ∧ (n_ty i ∈ [Buf; Not] → size (n_fi i) = 1)
    ∧ (n_ty i ∈ [And; Nand; Or; Nor; Xor; Xnor] → n_fi i ≠ ∅).
  Proof.
    intros Hn.
    assert (Hnv : ¬ node_violates C default_flags n i).
    { intros Hv. apply (lint_ok_iff gen_tables tables_ok_gen) in Hlint. apply Hlint. left. eauto. }
    unfold node_violates in Hnv. change (undriven default_flags) with true in Hnv.
    assert (F1 : n_ty i ∈ doc_supported). { destruct (decide (n_ty i ∈ doc_supported)); [done|]. exfalso. apply Hnv. by left. }
    assert (F2 : n_ty i ∈ doc_no_fanin → n_fi i = ∅).
    { intros Ht. destruct (decide (n_fi i = ∅)); [done|]. exfalso. apply Hnv. right. right. left. done. }
    assert (F3 : n_ty i ∈ doc_single → size (n_fi i) ≤ 1).
    { intros Ht. destruct (decide (1 < size (n_fi i))); [|lia]. exfalso. apply Hnv. do 4 right. left. done. }
    assert (F4 : n_ty i ∈ (doc_single ++ doc_multi)%list → n_fi i ≠ ∅).
    { intros Ht He. apply Hnv. do 5 right. left. done. }
    assert (F5 : n_ty i ≠ CX).
    { intros E. unfold no_x in Hx. assert (n ∈ of_type (c_g C) (is_ty CX)); [|set_solver].
      apply elem_of_of_type. exists i. split; [done|]. unfold is_ty. by apply bool_decide_eq_true. }
    destruct (Hpin n i Hn) as [F6 F7].
    unfold doc_supported, doc_no_fanin, doc_single, doc_multi in *.
    assert (F8 : n_ty i ∈ [Buf; Not; BbIn] → size (n_fi i) = 1).
    { intros Ht. assert (size (n_fi i) ≤ 1) by (by apply F3). assert (n_fi i ≠ ∅) as Hne by (apply F4; apply elem_of_app; by left).
      assert (size (n_fi i) ≠ 0); [|lia]. apply size_non_empty_iff. by intros ?%leibniz_equiv. }
    assert (F9 : n_ty i ∈ [And; Nand; Or; Nor; Xor; Xnor] → n_fi i ≠ ∅). { intros Ht. apply F4. apply elem_of_app. by right. }
    clear Hnv F3 F4 Hn.
    destruct (n_ty i); try done; try (nomem F1); (split; [mem|split; [|split]]); intros Ht;
      first [by apply F2; mem | by apply F8; mem | by apply F9 | nomem Ht].
  Qed.
End facts.

Lemma lhs_inputs l : lhs_nets (BInput <$> l) = l.
Proof. unfold lhs_nets. induction l as [|x l IH]; [done|]. rewrite fmap_cons, bind_cons, IH. done. Qed.
Lemma lhs_outputs l : lhs_nets (BOutput <$> l) = [].
Proof. unfold lhs_nets. induction l as [|x l IH]; [done|]. rewrite fmap_cons, bind_cons, IH. done. Qed.
Lemma write_line_gate g ord n : ∃ gn ops, write_line g ord n = BGate n gn ops.
Proof. unfold write_line. repeat case_bool_decide; eauto. Qed.
Lemma lhs_nodes g ord l : lhs_nets (write_line g ord <$> l) = l.
Proof.
  unfold lhs_nets. induction l as [|x l IH]; [done|]. rewrite fmap_cons, bind_cons, IH.
  destruct (write_line_gate g ord x) as (gn & ops & ->). done.
Qed.
Lemma lhs_app l1 l2 : lhs_nets (l1 ++ l2) = (lhs_nets l1 ++ lhs_nets l2)%list.
Proof. unfold lhs_nets. by rewrite bind_app. Qed.
Lemma outs_inputs l : decl_outputs (BInput <$> l) = [].
Proof. unfold decl_outputs. induction l as [|x l IH]; [done|]. rewrite fmap_cons, bind_cons, IH. done. Qed.
Lemma outs_outputs l : decl_outputs (BOutput <$> l) = l.
Proof. unfold decl_outputs. induction l as [|x l IH]; [done|]. rewrite fmap_cons, bind_cons, IH. done. Qed.
Lemma outs_nodes g ord l : decl_outputs (write_line g ord <$> l) = [].
Proof.
  unfold decl_outputs. induction l as [|x l IH]; [done|]. rewrite fmap_cons, bind_cons, IH.
  destruct (write_line_gate g ord x) as (gn & ops & ->). done.
Qed.

Section round.
  Context (C : Circuit) (ord : word) (ls : list bline).
  Hypothesis (Hlint : lint_clean C) (Hx : no_x (c_g C)) (Hpin : pin_free (c_g C)) (Hcl : closed (c_g C)) (Hnames : names_ok (c_g C)).
  Hypothesis Hw : bench_write C ord = Ok ls.
  Notation g := (c_g C).

  Lemma write_inv : c_bbs C = ∅
    ∧ (NoDup (o_in ord) ∧ list_to_set (o_in ord) = inputs g) ∧ (NoDup (o_out ord) ∧ list_to_set (o_out ord) = outputs g)
    ∧ (NoDup (o_nodes ord) ∧ list_to_set (o_nodes ord) = dom g ∖ inputs g)
    ∧ (∀ n, n ∈ o_nodes ord → NoDup (fi_order ord n) ∧ list_to_set (fi_order ord n) = fanin g n)
    ∧ o_const ord ∈ inputs g
    ∧ ls = ((BInput <$> o_in ord) ++ (BOutput <$> o_out ord) ++ (write_line g ord <$> o_nodes ord))%list.
  Proof.
    unfold bench_write in Hw.
    destruct (bool_decide (c_bbs C = ∅)) eqn:E1; [|done]. apply bool_decide_eq_true in E1. simpl in Hw.
    destruct (bool_decide (inputs g = ∅)); [done|].
    destruct (existsb _ _); [done|].
    match type of Hw with (if negb ?b then _ else _) = _ => destruct b eqn:E2; [|done] end. simpl in Hw. injection Hw as <-.
    rewrite !andb_true_iff in E2. destruct E2 as [[[[Ei Eo] En] Ef] Ek].
    unfold is_order in *. rewrite !andb_true_iff, !bool_decide_eq_true in Ei, Eo, En. apply bool_decide_eq_true in Ek.
    repeat split; try tauto.
    - rewrite forallb_forall in Ef. apply elem_of_list_In, Ef in H. apply andb_true_iff in H as [H _]. by apply bool_decide_eq_true in H.
    - rewrite forallb_forall in Ef. apply elem_of_list_In, Ef in H. apply andb_true_iff in H as [_ H]. by apply bool_decide_eq_true in H.
  Qed.

  Lemma inputs_dom n : n ∈ inputs g → n ∈ dom g.
  Proof. rewrite elem_of_inputs. intros (i & Hi & _). by apply elem_of_dom. Qed.
  Lemma outputs_dom n : n ∈ outputs g → n ∈ dom g.
  Proof. rewrite elem_of_outputs. intros (i & Hi & _). by apply elem_of_dom. Qed.

  (* the line written for a node that is not an input *)
  Lemma write_line_node n i : g !! n = Some i → n ∉ inputs g → n ∈ o_nodes ord →
    let fi := fi_order ord n in
    NoDup fi ∧ list_to_set fi = n_fi i ∧
    ((n_ty i ∈ [Buf; Not; And; Nand; Or; Nor; Xor; Xnor] ∧ write_line g ord n = BGate n (upper (name_of_type (n_ty i))) fi
        ∧ doc_gate (upper (name_of_type (n_ty i))) = Some (n_ty i) ∧ fi ≠ [] ∧ (n_ty i ∈ [Buf; Not] → length fi = 1))
     ∨ (n_ty i = C0 ∧ n_fi i = ∅ ∧ write_line g ord n = BGate n "XOR" [o_const ord; o_const ord])
     ∨ (n_ty i = C1 ∧ n_fi i = ∅ ∧ write_line g ord n = BGate n "XNOR" [o_const ord; o_const ord])).
  Proof.
    intros Hi Hni Hno fi. destruct write_inv as (_ & _ & _ & _ & Hfi & _). destruct (Hfi n Hno) as [Hnd Hset].
    assert (Hfan : fanin g n = n_fi i) by (unfold fanin; by rewrite Hi). rewrite Hfan in Hset.
    split; [done|]. split; [done|].
    destruct (node_facts C Hlint Hx Hpin n i Hi) as (Hty & H0 & H1 & Hm).
    assert (Hnin : n_ty i ≠ Input). { intros E. apply Hni. apply elem_of_inputs. eauto. }
    assert (Hlen : size (n_fi i) = length fi). { rewrite <- Hset. by apply size_list_to_set. }
    unfold write_line, ty. rewrite Hi. simpl.
    assert (Hne : n_fi i ≠ ∅ → fi ≠ []). { intros Hn He. apply Hn. rewrite <- Hset. unfold fi in He. by rewrite He. }
    assert (G1 : n_ty i ∈ [Buf; Not] → fi ≠ []). { intros Ht He. specialize (H1 Ht). rewrite Hlen in H1. rewrite He in H1. simpl in H1. lia. }
    assert (G2 : n_ty i ∈ [And; Nand; Or; Nor; Xor; Xnor] → fi ≠ []). { intros Ht. apply Hne. by apply Hm. }
    assert (G3 : n_ty i ∈ [Buf; Not] → length fi = 1). { intros Ht. rewrite <- Hlen. by apply H1. }
    assert (G4 : n_ty i ∈ [Input; C0; C1] → n_fi i = ∅) by done.
    clear H0 H1 Hm Hne Hlen Hfan Hset Hnd Hni.
    destruct (n_ty i) eqn:Et; try (nomem Hty); try done.
    1-8: left; split; [mem|]; split; [reflexivity|]; split; [reflexivity|]; split;
         [first [apply G1; mem | apply G2; mem] | intros Hs; first [apply G3; mem | nomem Hs]].
    - right. left. split; [done|]. split; [apply G4; mem|reflexivity].
    - right. right. split; [done|]. split; [apply G4; mem|reflexivity].
  Qed.

  Lemma write_dom : ∀ n, n ∈ dom g ↔ n ∈ (o_in ord ++ o_nodes ord)%list.
  Proof.
    destruct write_inv as (_ & [_ Hsi] & _ & [_ Hsn] & _).
    intros n. rewrite elem_of_app. rewrite <- (elem_of_list_to_set (C:=gset string) n (o_in ord)), <- (elem_of_list_to_set (C:=gset string) n (o_nodes ord)), Hsi, Hsn.
    rewrite elem_of_difference. split; [intros; destruct (decide (n ∈ inputs g)); tauto|]. intros [?%inputs_dom|[? _]]; done.
  Qed.

  Theorem write_wf : wfb ls = true.
  Proof.
    pose proof write_dom as Hdom.
    destruct write_inv as (Hbb & [Hndi Hsi] & [Hndo Hso] & [Hndn Hsn] & Hfi & Hk & Els). rewrite Els.
    assert (Hlhs : lhs_nets ((BInput <$> o_in ord) ++ (BOutput <$> o_out ord) ++ (write_line g ord <$> o_nodes ord)) = (o_in ord ++ o_nodes ord)%list).
    { rewrite !lhs_app, lhs_inputs, lhs_outputs, lhs_nodes. done. }
    assert (Hnode : ∀ n, n ∈ o_nodes ord → ∃ i, g !! n = Some i ∧ n ∉ inputs g).
    { intros n Hn. assert (Hn' : n ∈ dom g ∖ inputs g) by (rewrite <- Hsn; by apply elem_of_list_to_set).
      apply elem_of_difference in Hn' as [[i Hi]%elem_of_dom Hni]. eauto. }
    unfold wfb. rewrite !andb_true_iff. split; [split|].
    - rewrite forallb_forall. intros l Hl%elem_of_list_In. rewrite !elem_of_app, !elem_of_list_fmap in Hl.
      destruct Hl as [(n & -> & Hn)|[(n & -> & Hn)|(n & -> & Hn)]].
      + simpl. apply Hnames, inputs_dom. rewrite <- Hsi. by apply elem_of_list_to_set.
      + simpl. apply Hnames, outputs_dom. rewrite <- Hso. by apply elem_of_list_to_set.
      + destruct (Hnode n Hn) as (i & Hi & Hni).
        assert (Hid : ident n = true) by (apply Hnames; by apply elem_of_dom).
        destruct (write_line_node n i Hi Hni Hn) as (Hnd & Hset & [(Hty & -> & Hdoc & Hne & Hlen)|[(Et & _ & ->)|(Et & _ & ->)]]).
        * simpl. rewrite Hdoc, Hid. simpl.
          case_bool_decide as Hs; apply bool_decide_eq_true; [by apply Hlen|]. destruct (fi_order ord n); [done|simpl; lia].
        * simpl. rewrite Hid. reflexivity.
        * simpl. rewrite Hid. reflexivity.
    - apply bool_decide_eq_true. rewrite Hlhs. apply NoDup_app. split; [done|]. split; [|done]. intros n Hn1 Hn2.
      assert (n ∈ inputs g) by (rewrite <- Hsi; by apply elem_of_list_to_set).
      assert (n ∈ dom g ∖ inputs g) by (rewrite <- Hsn; by apply elem_of_list_to_set). set_solver.
    - rewrite forallb_forall. intros n Hn%elem_of_list_In. apply bool_decide_eq_true. rewrite Hlhs. apply Hdom.
      apply elem_of_app in Hn as [Hn|Hn].
      + unfold operands in Hn. apply elem_of_list_bind in Hn as (l & Hnl & Hl). rewrite !elem_of_app, !elem_of_list_fmap in Hl.
        destruct Hl as [(m & -> & Hm)|[(m & -> & Hm)|(m & -> & Hm)]]; try (by apply elem_of_nil in Hnl).
        destruct (Hnode m Hm) as (i & Hi & Hni).
        destruct (write_line_node m i Hi Hni Hm) as (Hnd & Hset & [(Hty & E & _)|[(Et & _ & E)|(Et & _ & E)]]); rewrite E in Hnl.
        * eapply Hcl; [exact Hi|]. rewrite <- Hset. by apply elem_of_list_to_set.
        * apply inputs_dom. apply elem_of_cons in Hnl as [->|Hnl]; [done|]. apply elem_of_list_singleton in Hnl as ->. done.
        * apply inputs_dom. apply elem_of_cons in Hnl as [->|Hnl]; [done|]. apply elem_of_list_singleton in Hnl as ->. done.
      + unfold decl_outputs in Hn. rewrite !bind_app in Hn. fold (decl_outputs (BInput <$> o_in ord)) in Hn.
        fold (decl_outputs (BOutput <$> o_out ord)) in Hn. fold (decl_outputs (write_line g ord <$> o_nodes ord)) in Hn.
        rewrite outs_inputs, outs_outputs, outs_nodes in Hn. simpl in Hn. rewrite app_nil_r in Hn.
        apply outputs_dom. rewrite <- Hso. by apply elem_of_list_to_set.
  Qed.

  Lemma type_name_inv t : t ∈ [Buf; Not; And; Nand; Or; Nor; Xor; Xnor] → type_of_name (name_of_type t) = t.
  Proof. intros Ht. repeat (apply elem_of_cons in Ht as [->|Ht]; [reflexivity|]). by apply elem_of_nil in Ht. Qed.

  Lemma write_outs : list_to_set (decl_outputs ls) = outputs g.
  Proof.
    destruct write_inv as (_ & _ & [_ Hso] & _ & _ & _ & ->).
    unfold decl_outputs. rewrite !bind_app. fold (decl_outputs (BInput <$> o_in ord)).
    fold (decl_outputs (BOutput <$> o_out ord)). fold (decl_outputs (write_line g ord <$> o_nodes ord)).
    rewrite outs_inputs, outs_outputs, outs_nodes. simpl. by rewrite app_nil_r.
  Qed.
  Lemma out_flag m i : g !! m = Some i → bool_decide (m ∈ outputs g) = n_out i.
  Proof.
    intros Hi. destruct (n_out i) eqn:Eo.
    - apply bool_decide_eq_true. apply elem_of_outputs. eauto.
    - apply bool_decide_eq_false. rewrite elem_of_outputs. intros (i' & Hi' & Ho). congruence.
  Qed.

  (* every node of the circuit is exactly the entry its line contributes to the closed form *)
  Lemma line_entry m i : g !! m = Some i → ∃ l, l ∈ ls ∧ (m, i) ∈ line_nodes (outputs g) l.
  Proof.
    intros Hi. pose proof (proj1 (write_dom m) ltac:(by apply elem_of_dom)) as Hm.
    destruct write_inv as (_ & [_ Hsi] & _ & [_ Hsn] & _ & _ & Els).
    destruct (node_facts C Hlint Hx Hpin m i Hi) as (Hty & H0 & _ & _).
    apply elem_of_app in Hm as [Hm|Hm].
    - exists (BInput m). split; [rewrite Els; apply elem_of_app; left; by apply elem_of_list_fmap_1|].
      assert (Hin : m ∈ inputs g) by (rewrite <- Hsi; by apply elem_of_list_to_set).
      apply elem_of_inputs in Hin as (i' & Hi' & Et). assert (i' = i) as -> by congruence.
      simpl. apply elem_of_list_singleton. f_equal. rewrite (out_flag m i Hi). destruct i as [t o f]. simpl in *. subst t.
      rewrite (H0 ltac:(mem)). done.
    - exists (write_line g ord m). split; [rewrite Els; apply elem_of_app; right; apply elem_of_app; right; by apply elem_of_list_fmap_1|].
      assert (Hni : m ∉ inputs g). { assert (m ∈ dom g ∖ inputs g) by (rewrite <- Hsn; by apply elem_of_list_to_set). set_solver. }
      destruct (write_line_node m i Hi Hni Hm) as (Hnd & Hset & [(Hgt & -> & Hdoc & Hne & Hlen)|[(Et & Hfi & ->)|(Et & Hfi & ->)]]).
      + simpl. rewrite gate_args_doc, Hdoc. destruct (fi_order ord m) as [|o1 r] eqn:Efi; [done|]. rewrite <- Efi in *.
        rewrite odd_ops_nodup by done. rewrite (bool_decide_eq_false_2 (fi_order ord m = [])) by done.
        assert (Harg : (if bool_decide (n_ty i ∈ [Xor; Xnor]) then (name_of_type (n_ty i), fi_order ord m) else (name_of_type (n_ty i), fi_order ord m))
                       = (name_of_type (n_ty i), fi_order ord m)) by (by destruct (bool_decide _)).
        rewrite Harg. apply elem_of_list_singleton. f_equal. rewrite type_name_inv by done. rewrite (out_flag m i Hi), Hset. by destruct i.
      + unfold line_nodes. rewrite gate_args_doc. change (doc_gate "XOR") with (Some Xor). rewrite odd_ops_pair.
        rewrite (bool_decide_eq_true_2 (Xor ∈ [Xor; Xnor])) by mem. rewrite (bool_decide_eq_true_2 ([] = [])) by done.
        rewrite (bool_decide_eq_true_2 (Xor = Xor)) by done. apply elem_of_list_singleton. f_equal.
        change (type_of_name "0") with C0. rewrite (out_flag m i Hi). destruct i as [t o f]. simpl in *. rewrite Et, Hfi. reflexivity.
      + unfold line_nodes. rewrite gate_args_doc. change (doc_gate "XNOR") with (Some Xnor). rewrite odd_ops_pair.
        rewrite (bool_decide_eq_true_2 (Xnor ∈ [Xor; Xnor])) by mem. rewrite (bool_decide_eq_true_2 ([] = [])) by done.
        rewrite (bool_decide_eq_false_2 (Xnor = Xor)) by done. apply elem_of_list_singleton. f_equal.
        change (type_of_name "1") with C1. rewrite (out_flag m i Hi). destruct i as [t o f]. simpl in *. rewrite Et, Hfi. reflexivity.
  Qed.

  (* reading the written lines back (closed form) gives the circuit itself, constants included *)
  Theorem write_read_closed : bench_closed (c_name C) ls = C.
  Proof.
    pose proof write_wf as Hwf. pose proof write_outs as Houts.
    assert (Hg : bench_graph ls = g).
    { apply map_eq. intros n. destruct (g !! n) as [i|] eqn:Hi.
      - apply (graph_lookup ls Hwf). rewrite Houts. by apply line_entry.
      - destruct (bench_graph ls !! n) as [x|] eqn:Hx'; [|done]. exfalso.
        apply (graph_lookup ls Hwf) in Hx' as (l & Hl & Hin).
        assert (Hd : n ∈ dom g); [|apply elem_of_dom in Hd as [? ?]; congruence].
        apply write_dom. destruct write_inv as (_ & _ & _ & _ & _ & _ & Els). rewrite Els in Hl.
        rewrite !elem_of_app, !elem_of_list_fmap in Hl. destruct Hl as [(m & -> & Hm)|[(m & -> & Hm)|(m & -> & Hm)]].
        + simpl in Hin. apply elem_of_list_singleton in Hin as [= -> _]. apply elem_of_app. by left.
        + by apply elem_of_nil in Hin.
        + destruct (write_line_gate g ord m) as (gn & ops & E). rewrite E in Hin. simpl in Hin.
          destruct (gate_args gn ops) as [[t fi]|]; [|by apply elem_of_nil in Hin].
          apply elem_of_list_singleton in Hin as [= -> _]. apply elem_of_app. by right. }
    destruct write_inv as (Hbb & _ & _ & _ & _ & _ & Els).
    unfold bench_closed. destruct C as [nm gg bbs]. simpl in *. f_equal; [done|]. rewrite Hbb.
    assert (Hnb : ls ≫= line_bbs = []); [|by rewrite Hnb].
    rewrite Els. rewrite !bind_app.
    assert (H1 : ∀ l, (BInput <$> l) ≫= line_bbs = []) by (induction l; [done|]; by rewrite fmap_cons, bind_cons, IHl).
    assert (H2 : ∀ l, (BOutput <$> l) ≫= line_bbs = []) by (induction l; [done|]; by rewrite fmap_cons, bind_cons, IHl).
    assert (H3 : ∀ l, (write_line gg ord <$> l) ≫= line_bbs = []).
    { induction l as [|x l IHl]; [done|]. rewrite fmap_cons, bind_cons, IHl. destruct (write_line_gate gg ord x) as (gn & ops & ->). done. }
    by rewrite H1, H2, H3.
  Qed.
End round.
