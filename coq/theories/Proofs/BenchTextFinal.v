(* C15: the reader consumes a line list pass by pass; end-to-end character-level theorem for canonical texts. *)
From stdpp Require Import strings gmap list.
From CG Require Import Model.Regex Model.Bench Model.BenchSpec Model.BenchScan.
Open Scope string_scope.

(* the reader consumes a line list pass by pass, so it reads by_pass ls exactly like ls (for every line list) *)
Lemma rbind_ext {A B} (x : res A) (f g : A → res B) : (∀ a, f a = g a) → rbind x f = rbind x g.
Proof. intros H. destruct x; simpl; auto. Qed.
Lemma rfold_app {S A} (f : S → A → S * outcome) (a b : list A) : ∀ s, rfold f s (a ++ b) = rbind (rfold f s a) (λ s', rfold f s' b).
Proof. induction a as [|x a IH]; intros s; [done|]. simpl. destruct (f s x) as [s' [|e]]; [apply IH|done]. Qed.
Lemma rfold_ignore {S A} (f : S → A → S * outcome) (L : list A) : (∀ l s, l ∈ L → f s l = (s, Done)) → ∀ s, rfold f s L = Ok s.
Proof.
  induction L as [|x L IH]; intros H s; [done|]. simpl. rewrite H by (by left). apply IH. intros l s' Hl. apply H. by right.
Qed.
Lemma rfold_filter {S A} (f : S → A → S * outcome) (K : A → bool) (L : list A) :
  (∀ s l, K l = false → f s l = (s, Done)) → ∀ s, rfold f s (filter (λ l, K l = true) L) = rfold f s L.
Proof.
  intros H. induction L as [|x L IH]; intros s; [done|]. destruct (K x) eqn:E.
  - rewrite filter_cons_True by done. simpl. destruct (f s x) as [s' [|e]]; [apply IH|done].
  - rewrite filter_cons_False by (by rewrite E). simpl. rewrite H by done. apply IH.
Qed.
Lemma rbind_ok {A} (x : res A) : rbind x Ok = x.
Proof. by destruct x. Qed.
Lemma rfold_pick {S A} (f : S → A → S * outcome) (K : A → bool) (pre post ls : list A) :
  (∀ s l, K l = false → f s l = (s, Done)) → (∀ l, l ∈ (pre ++ post)%list → K l = false) →
  ∀ s, rfold f s (pre ++ filter (λ l, K l = true) ls ++ post) = rfold f s ls.
Proof.
  intros Hig Hk s. rewrite rfold_app. rewrite (rfold_ignore f pre) by (intros l s' Hl; apply Hig, Hk, elem_of_app; by left). simpl.
  rewrite rfold_app, rfold_filter by done.
  rewrite (rbind_ext _ _ Ok); [apply rbind_ok|]. intros s'. apply rfold_ignore. intros l s'' Hl. apply Hig, Hk, elem_of_app. by right.
Qed.

Lemma gate_step_ignore s l : is_stmt_gate l = false → gate_step s l = (s, Done).
Proof.
  destruct l as [?|?|net g ops|? ?]; simpl; try done. intros H. unfold gate_args. destruct ops as [|o ops]; [done|].
  unfold fold_gate. rewrite andb_true_r in H. by rewrite H.
Qed.
Lemma filt_in {A} (P : A → Prop) `{!∀ x, Decision (P x)} (l : list A) x : x ∈ filter P l → P x.
Proof. by intros [? _]%elem_of_list_filter. Qed.

Theorem read_by_pass name ls : bench_read name (by_pass ls) = bench_read name ls.
Proof.
  unfold by_pass.
  set (I := filter (λ l, is_input l = true) ls). set (G := filter (λ l, is_stmt_gate l = true) ls).
  set (D := filter (λ l, is_dff l = true) ls). set (O := filter (λ l, is_output l = true) ls).
  assert (HI : ∀ l, l ∈ I → ∃ n, l = BInput n). { intros l Hl%filt_in. destruct l; try done. eauto. }
  assert (HG : ∀ l, l ∈ G → ∃ n g o, l = BGate n g o). { intros l Hl%filt_in. destruct l; try done. eauto. }
  assert (HD : ∀ l, l ∈ D → ∃ q d, l = BDff q d). { intros l Hl%filt_in. destruct l; try done. eauto. }
  assert (HO : ∀ l, l ∈ O → ∃ n, l = BOutput n). { intros l Hl%filt_in. destruct l; try done. eauto. }
  assert (E1 : ∀ s, rfold in_step s (I ++ G ++ D ++ O) = rfold in_step s ls).
  { intros s. apply (rfold_pick in_step is_input [] (G ++ D ++ O) ls); [by intros ? []|].
    intros l Hl. simpl in Hl. rewrite !elem_of_app in Hl. destruct Hl as [Hl|[Hl|Hl]];
      [apply HG in Hl as (? & ? & ? & ->)|apply HD in Hl as (? & ? & ->)|apply HO in Hl as (? & ->)]; done. }
  assert (E2 : ∀ s, rfold gate_step s (I ++ G ++ D ++ O) = rfold gate_step s ls).
  { intros s. apply (rfold_pick gate_step is_stmt_gate I (D ++ O) ls); [apply gate_step_ignore|].
    intros l Hl. rewrite !elem_of_app in Hl. destruct Hl as [Hl|[Hl|Hl]];
      [apply HI in Hl as (? & ->)|apply HD in Hl as (? & ? & ->)|apply HO in Hl as (? & ->)]; done. }
  assert (E3 : ∀ s, rfold dffbuf_step s (I ++ G ++ D ++ O) = rfold dffbuf_step s ls).
  { intros s. rewrite (app_assoc I G). apply (rfold_pick dffbuf_step is_dff (I ++ G) O ls); [by intros ? []|].
    intros l Hl. rewrite !elem_of_app in Hl. destruct Hl as [[Hl|Hl]|Hl];
      [apply HI in Hl as (? & ->)|apply HG in Hl as (? & ? & ? & ->)|apply HO in Hl as (? & ->)]; done. }
  assert (E4 : ∀ s, rfold dff_step s (I ++ G ++ D ++ O) = rfold dff_step s ls).
  { intros s. rewrite (app_assoc I G). apply (rfold_pick dff_step is_dff (I ++ G) O ls); [by intros ? []|].
    intros l Hl. rewrite !elem_of_app in Hl. destruct Hl as [[Hl|Hl]|Hl];
      [apply HI in Hl as (? & ->)|apply HG in Hl as (? & ? & ? & ->)|apply HO in Hl as (? & ->)]; done. }
  assert (E5 : ∀ s, rfold out_step s (I ++ G ++ D ++ O) = rfold out_step s ls).
  { intros s. rewrite (app_assoc I G), (app_assoc (I ++ G) D). rewrite <- (app_nil_r O).
    apply (rfold_pick out_step is_output ((I ++ G) ++ D) [] ls); [by intros ? []|].
    intros l Hl. rewrite app_nil_r, !elem_of_app in Hl. destruct Hl as [[Hl|Hl]|Hl];
      [apply HI in Hl as (? & ->)|apply HG in Hl as (? & ? & ? & ->)|apply HD in Hl as (? & ? & ->)]; done. }
  unfold bench_read. rewrite E1. apply rbind_ext. intros g1. rewrite E2. apply rbind_ext. intros g2. rewrite E3. apply rbind_ext. intros g3.
  rewrite E4. apply rbind_ext. intros C4. by rewrite E5.
Qed.

From Coq Require Import Ascii.
From CG Require Import Proofs.BenchProofs Proofs.BenchReadProofs Proofs.RegexProofs Proofs.RegexCanon.

Lemma codes_bound s : Forall (λ x, x < 256) (codes s).
Proof. unfold codes. induction s as [|a s IH]; [constructor|]. simpl. constructor; [apply nat_ascii_bounded|exact IH]. Qed.
Lemma codes_text_of l : Forall (λ x, x < 256) l → codes (text_of l) = l.
Proof.
  unfold codes, text_of. induction 1 as [|x l Hx Hl IH]; [done|]. simpl. rewrite nat_ascii_embedding by done. f_equal. exact IH.
Qed.
Lemma join_bound sep ws : Forall (λ x, x < 256) sep → Forall (Forall (λ x, x < 256)) ws → Forall (λ x, x < 256) (join sep ws).
Proof.
  intros Hs. induction 1 as [|w r Hw Hr IH]; [constructor|]. destruct r as [|w2 r']; [done|].
  change (join sep (w :: w2 :: r')) with (w ++ sep ++ join sep (w2 :: r'))%list. rewrite !Forall_app. auto.
Qed.
Lemma render_bound ls : Forall (λ x, x < 256) (render ls).
Proof.
  unfold render. apply Forall_forall. intros x (l & Hx & _)%elem_of_list_bind. revert x Hx. apply Forall_forall.
  apply Forall_app. split; [|repeat constructor; lia].
  destruct l as [n|n|net g ops|q d]; unfold render_line; rewrite ?Forall_app; repeat split; try apply codes_bound; try (repeat constructor; lia).
  apply join_bound; [apply codes_bound|]. apply Forall_fmap, Forall_forall. intros o _. apply codes_bound.
Qed.

(* the scans of a canonical text, then the four passes: the closed-form circuit *)
Theorem read_scan_canonical name ls : wfb ls = true → bench_read name (scan_codes (render ls)) = Ok (bench_closed name ls).
Proof. intros Hwf. rewrite scan_canonical by done. rewrite read_by_pass. by apply read_is_closed_form. Qed.
(* the same for the text as a string *)
Theorem read_text_canonical name ls : wfb ls = true → bench_read_text name (text_of (render ls)) = Ok (bench_closed name ls).
Proof.
  intros Hwf. unfold bench_read_text, bench_scan. rewrite codes_text_of by apply render_bound. by apply read_scan_canonical.
Qed.

From CG Require Import Model.BenchLayout Proofs.RegexLayout.
(* end to end over layouts: any text whose characters are a layout of a well-formed line list is read, at character level, into
   the closed-form circuit of that line list *)
Theorem read_scan_layout name g0 ls : wfb (lines_of ls) = true → layouts_ok g0 ls →
  bench_read name (scan_codes (render_layout g0 ls)) = Ok (bench_closed name (lines_of ls)).
Proof. intros Hwf Hl. rewrite scan_layout by done. rewrite read_by_pass. by apply read_is_closed_form. Qed.
Theorem read_text_layout name text g0 ls : codes text = render_layout g0 ls → wfb (lines_of ls) = true → layouts_ok g0 ls →
  bench_read_text name text = Ok (bench_closed name (lines_of ls)).
Proof. intros Ht Hwf Hl. unfold bench_read_text, bench_scan. rewrite Ht. by apply read_scan_layout. Qed.

(* ... also when the text ends in a comment that no newline terminates *)
Theorem read_text_layout_fin name text g0 ls fin : codes text = render_layout_fin g0 ls fin → wfb (lines_of ls) = true → layouts_ok g0 ls → fin_ok fin →
  bench_read_text name text = Ok (bench_closed name (lines_of ls)).
Proof.
  intros Ht Hwf Hl Hf. unfold bench_read_text, bench_scan. rewrite Ht, scan_layout_fin by done. rewrite read_by_pass. by apply read_is_closed_form.
Qed.
