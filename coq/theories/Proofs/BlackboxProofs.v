(* Specification of Api.add_blackbox (structure and semantics of the parent after a successful call)
   and the io lists of the parent after Api.fill_blackbox.
   Everything here is proved; no axioms. *)
From stdpp Require Import strings gmap sets fin_sets.
From CG Require Import Base.Compose Base.Oracle Model.Compose6 Proofs.ComposeProofs Proofs.MiterProofs Proofs.FillProofs.
Open Scope string_scope.

(* ================================================================== *)
(* A. add_blackbox                                                    *)
(* ================================================================== *)

(* ---------- A.1 the two folds of add_blackbox, named ---------- *)
Definition pin_step (inst : string) (st : circuit * list string * outcome) (pt : string * gtype)
  : circuit * list string * outcome :=
  match st with
  | (g, io, Done) => let '(g', o, nm) := add_g g (pin inst pt.1) pt.2 [] [] af_default in
                     (g', match o with Done => nm :: io | _ => io end, o)
  | _ => st end.
Definition pin_list (ins outs : list string) : list (string * gtype) :=
  ((λ p, (p, BbIn)) <$> ins) ++ ((λ p, (p, BbOut)) <$> outs).
Definition bconn_step (d : bbdef) (inst : string) (st : circuit * outcome) (kv : string * list string)
  : circuit * outcome :=
  match st with
  | (g, Done) =>
      if bool_decide (kv.1 ∈ bb_in d) then connect_g g kv.2 [pin inst kv.1]
      else if bool_decide (kv.1 ∈ bb_out d) then connect_g g [pin inst kv.1] kv.2
      else (g, Fail ValueError)
  | _ => st end.

Lemma add_blackbox_unfold C d inst ins outs conns :
  add_blackbox C d inst ins outs conns =
  if bool_decide (inst ∈ dom (c_bbs C)) then (C, Fail ValueError) else
  let C1 := with_bbs C (<[inst := d]> (c_bbs C)) in
  let '(g, io, o) := foldl (pin_step inst) (c_g C1, [], Done) (pin_list ins outs) in
  let r := match o with
           | Fail e => (g, Fail e)
           | Done => foldl (bconn_step d inst) (g, Done) conns end in
  match r.2 with
  | Fail ValueError => (with_g C (remove_g r.1 io), Fail ValueError)
  | _ => (with_g C1 r.1, r.2)
  end.
Proof. reflexivity. Qed.

(* ---------- A.2 one pin: a plain `add` without connections ---------- *)
Lemma add_pin_done g n t g' n' :
  add_g g n t [] [] af_default = (g', Done, n') →
  n' = n ∧ n ∉ dom g ∧ g' = <[n := mk_node t false ∅]> g.
Proof.
  intros H. destruct (add_g_done _ _ _ _ _ af_default _ _ eq_refl eq_refl eq_refl H) as (-> & Hn & g2 & H1 & H2).
  rewrite connect_g_nil_r in H1. rewrite connect_g_nil_l in H2. simpl in *. by simplify_eq.
Qed.

Lemma pin_fold_fail inst g io e pts : foldl (pin_step inst) (g, io, Fail e) pts = (g, io, Fail e).
Proof. induction pts as [|pt pts IH]; simpl; done. Qed.

Lemma pin_fold_done inst pts : ∀ g io g' io',
  foldl (pin_step inst) (g, io, Done) pts = (g', io', Done) →
  (∀ pt, pt ∈ pts → pin inst pt.1 ∉ dom g) ∧ NoDup (pts.*1) ∧
  ∀ k i, g' !! k = Some i ↔
         g !! k = Some i ∨ ∃ pt, pt ∈ pts ∧ k = pin inst pt.1 ∧ i = mk_node pt.2 false ∅.
Proof.
  induction pts as [|pt pts IH]; intros g io g' io' H.
  - simpl in H. simplify_eq. split; [intros pt Hpt; by apply elem_of_nil in Hpt|]. split; [constructor|].
    intros k i. split; [auto|]. intros [?|(pt & Hpt & _)]; [done|by apply elem_of_nil in Hpt].
  - change (foldl (pin_step inst) (pin_step inst (g, io, Done) pt) pts = (g', io', Done)) in H.
    destruct (pin_step inst (g, io, Done) pt) as [[g1 io1] o1] eqn:Hs.
    unfold pin_step in Hs.
    destruct (add_g g (pin inst pt.1) pt.2 [] [] af_default) as [[g1' o1'] n1] eqn:Ha.
    injection Hs as -> _ ->.
    destruct o1 as [|e]; [|by rewrite pin_fold_fail in H].
    apply add_pin_done in Ha as (-> & Hn & ->).
    destruct (IH _ _ _ _ H) as (Hf & Hnd & Hl).
    split; [|split].
    + intros pt' [->|Hpt']%elem_of_cons; [done|]. specialize (Hf pt' Hpt').
      rewrite dom_insert_L in Hf. clear -Hf. set_solver.
    + rewrite fmap_cons. constructor; [|done].
      intros (pt' & Heq & Hin)%elem_of_list_fmap. apply (Hf pt' Hin).
      rewrite <- Heq, dom_insert_L. clear. set_solver.
    + intros k i. rewrite Hl. split.
      * intros [Hk|(pt' & Hin & -> & ->)].
        -- destruct (decide (k = pin inst pt.1)) as [->|Hne].
           ++ rewrite lookup_insert in Hk. simplify_eq. right. exists pt. split; [by left|done].
           ++ rewrite lookup_insert_ne in Hk by done. by left.
        -- right. exists pt'. split; [by right|done].
      * intros [Hk|(pt' & [->|Hin]%elem_of_cons & -> & ->)].
        -- left. rewrite lookup_insert_ne; [done|]. intros <-. apply Hn. apply elem_of_dom; eauto.
        -- left. by rewrite lookup_insert.
        -- right. eauto.
Qed.

Lemma fst_tag {A B} (b : B) (l : list A) : ((λ p, (p, b)) <$> l).*1 = l.
Proof. induction l as [|a l IH]; simpl; [done|]. by f_equal. Qed.

Lemma elem_of_pin_list ins outs pt :
  pt ∈ pin_list ins outs ↔ (∃ p, p ∈ ins ∧ pt = (p, BbIn)) ∨ (∃ p, p ∈ outs ∧ pt = (p, BbOut)).
Proof.
  unfold pin_list. rewrite elem_of_app, !elem_of_list_fmap. split.
  - intros [(p & -> & Hp)|(p & -> & Hp)]; eauto.
  - intros [(p & Hp & ->)|(p & Hp & ->)]; eauto.
Qed.

(* the graph after the pin loop: the old nodes plus one free node per pin *)
Lemma mkpins_done inst ins outs g g1 io :
  foldl (pin_step inst) (g, [], Done) (pin_list ins outs) = (g1, io, Done) →
  NoDup (ins ++ outs)%list ∧ (∀ p, p ∈ (ins ++ outs)%list → pin inst p ∉ dom g) ∧
  ∀ k i, g1 !! k = Some i ↔
         g !! k = Some i ∨
         (∃ p, p ∈ ins ∧ k = pin inst p ∧ i = mk_node BbIn false ∅) ∨
         (∃ p, p ∈ outs ∧ k = pin inst p ∧ i = mk_node BbOut false ∅).
Proof.
  intros H. destruct (pin_fold_done _ _ _ _ _ _ H) as (Hf & Hnd & Hl).
  split; [|split].
  - unfold pin_list in Hnd. by rewrite fmap_app, !fst_tag in Hnd.
  - intros p [Hp|Hp]%elem_of_app.
    + apply (Hf (p, BbIn)). apply elem_of_pin_list. left. eauto.
    + apply (Hf (p, BbOut)). apply elem_of_pin_list. right. eauto.
  - intros k i. rewrite Hl. split.
    + intros [?|(pt & [(p & Hp & ->)|(p & Hp & ->)]%elem_of_pin_list & -> & ->)]; [by left|right; left|right; right]; eauto.
    + intros [?|[(p & Hp & -> & ->)|(p & Hp & -> & ->)]]; [by left|right|right].
      * exists (p, BbIn). split; [|done]. apply elem_of_pin_list. left. eauto.
      * exists (p, BbOut). split; [|done]. apply elem_of_pin_list. right. eauto.
Qed.

(* ---------- A.3 the connection fold keeps shapes ---------- *)
Lemma bconn_step_shape d inst st kv : same_shape (bconn_step d inst st kv).1 st.1.
Proof.
  destruct st as [g [|e]]; simpl; [|done].
  repeat case_bool_decide; try apply connect_g_shape. done.
Qed.
Lemma bconn_fold_shape d inst conns st : same_shape (foldl (bconn_step d inst) st conns).1 st.1.
Proof.
  revert st. induction conns as [|kv conns IH]; intros st; simpl; [done|].
  eapply same_shape_trans; [apply IH|apply bconn_step_shape].
Qed.
Lemma bconn_fold_fail d inst conns g e : foldl (bconn_step d inst) (g, Fail e) conns = (g, Fail e).
Proof. induction conns as [|kv conns IH]; simpl; done. Qed.

(* ---------- A.4 add_blackbox unpacked ---------- *)
Lemma add_blackbox_inv P d inst ins outs conns P' :
  add_blackbox P d inst ins outs conns = (P', Done) →
  inst ∉ dom (c_bbs P) ∧ c_name P' = c_name P ∧ c_bbs P' = <[inst := d]> (c_bbs P) ∧
  ∃ g1 io, foldl (pin_step inst) (c_g P, [], Done) (pin_list ins outs) = (g1, io, Done) ∧
           foldl (bconn_step d inst) (g1, Done) conns = (c_g P', Done).
Proof.
  rewrite add_blackbox_unfold. case_bool_decide as Hinst; [done|]. cbv zeta.
  change (c_g (with_bbs P (<[inst:=d]> (c_bbs P)))) with (c_g P).
  destruct (foldl (pin_step inst) (c_g P, [], Done) (pin_list ins outs)) as [[g1 io] o] eqn:Hp.
  destruct o as [|e]; [|simpl; destruct e; done].
  destruct (foldl (bconn_step d inst) (g1, Done) conns) as [g' o'] eqn:Hc. simpl.
  destruct o' as [|e]; [|destruct e; done].
  intros [= <-]. simpl. split; [done|]. split; [done|]. split; [done|]. by exists g1, io.
Qed.

(* ---------- A.5 structure ---------- *)
Theorem add_blackbox_struct P d inst ins outs conns P' :
  add_blackbox P d inst ins outs conns = (P', Done) →
  inst ∉ dom (c_bbs P) ∧ c_name P' = c_name P ∧ c_bbs P' = <[inst := d]> (c_bbs P) ∧
  inputs (c_g P') = inputs (c_g P) ∧ outputs (c_g P') = outputs (c_g P) ∧
  dom (c_g P') = dom (c_g P) ∪ set_map (pin inst) (list_to_set ins ∪ list_to_set outs : gset string) ∧
  (∀ p, p ∈ ins → ty (c_g P') (pin inst p) = Some BbIn) ∧ (∀ p, p ∈ outs → ty (c_g P') (pin inst p) = Some BbOut) ∧
  (∀ n, n ∈ dom (c_g P) → ty (c_g P') n = ty (c_g P) n).
Proof.
  intros (Hinst & Hname & Hbbs & g1 & io & Hp & Hc)%add_blackbox_inv.
  destruct (mkpins_done _ _ _ _ _ _ Hp) as (_ & _ & Hl).
  pose proof (bconn_fold_shape d inst conns (g1, Done)) as Hsh. rewrite Hc in Hsh. simpl in Hsh.
  split; [done|]. split; [done|]. split; [done|].
  split; [|split; [|split; [|split; [|split]]]].
  - rewrite (same_shape_inputs _ _ Hsh). apply set_eq. intros k. rewrite !elem_of_inputs. split.
    + intros (i & Hi & Ht). apply Hl in Hi as [Hi|[(p & _ & -> & ->)|(p & _ & -> & ->)]]; [eauto|done|done].
    + intros (i & Hi & Ht). exists i. split; [|done]. apply Hl. by left.
  - rewrite (same_shape_outputs _ _ Hsh). apply set_eq. intros k. rewrite !elem_of_outputs. split.
    + intros (i & Hi & Ht). apply Hl in Hi as [Hi|[(p & _ & -> & ->)|(p & _ & -> & ->)]]; [eauto|done|done].
    + intros (i & Hi & Ht). exists i. split; [|done]. apply Hl. by left.
  - rewrite (same_shape_dom _ _ Hsh). apply set_eq. intros k.
    rewrite elem_of_union, elem_of_map, !elem_of_dom. split.
    + intros [i Hi]. apply Hl in Hi as [Hi|[(p & Hp' & -> & ->)|(p & Hp' & -> & ->)]]; [left; eauto|right|right];
        exists p; (split; [done|]); rewrite elem_of_union, !elem_of_list_to_set; auto.
    + intros [[i Hi]|(p & -> & Hp')].
      * exists i. apply Hl. by left.
      * rewrite elem_of_union, !elem_of_list_to_set in Hp'. destruct Hp' as [Hp'|Hp'].
        -- exists (mk_node BbIn false ∅). apply Hl. right. left. eauto.
        -- destruct (decide (p ∈ ins)) as [Hi|Hi].
           ++ exists (mk_node BbIn false ∅). apply Hl. right. left. eauto.
           ++ exists (mk_node BbOut false ∅). apply Hl. right. right. eauto.
  - intros p Hp'. rewrite (same_shape_ty _ _ _ Hsh). unfold ty.
    assert (g1 !! pin inst p = Some (mk_node BbIn false ∅)) as ->; [|done].
    apply Hl. right. left. eauto.
  - intros p Hp'. rewrite (same_shape_ty _ _ _ Hsh). unfold ty.
    assert (g1 !! pin inst p = Some (mk_node BbOut false ∅)) as ->; [|done].
    apply Hl. right. right. eauto.
  - intros n [i Hi]%elem_of_dom. rewrite (same_shape_ty _ _ _ Hsh). unfold ty. rewrite Hi.
    assert (g1 !! n = Some i) as ->; [|done]. apply Hl. by left.
Qed.

(* ---------- A.6 semantics ---------- *)
(* what one entry of the connection map demands of a valuation *)
Definition bconn_ok (d : bbdef) (inst : string) (v : val) (kv : string * list string) : Prop :=
  ∀ net, net ∈ kv.2 →
    (kv.1 ∈ bb_in d → v (pin inst kv.1) = v net) ∧
    (kv.1 ∉ bb_in d → v net = v (pin inst kv.1)).

(* on Done every key of the connection map is a pin of the blackbox *)
Lemma bconn_fold_keys d inst conns : ∀ g g',
  foldl (bconn_step d inst) (g, Done) conns = (g', Done) →
  ∀ kv, kv ∈ conns → kv.1 ∈ bb_in d ∨ kv.1 ∈ bb_out d.
Proof.
  induction conns as [|kv conns IH]; intros g g' Hf kv' Hkv'; [by apply elem_of_nil in Hkv'|].
  change (foldl (bconn_step d inst) (bconn_step d inst (g, Done) kv) conns = (g', Done)) in Hf.
  destruct (bconn_step d inst (g, Done) kv) as [g1 o1] eqn:Hstep.
  destruct o1 as [|e]; [|by rewrite bconn_fold_fail in Hf].
  apply elem_of_cons in Hkv' as [->|Hkv']; [|by eapply IH].
  unfold bconn_step in Hstep. repeat case_bool_decide; auto. done.
Qed.

Lemma bconn_fold_sem d inst g2 :
  (∀ io, io ∈ bb_in d → ty g2 (pin inst io) = Some BbIn) →
  ∀ conns,
  (∀ kv net, kv ∈ conns → kv.1 ∉ bb_in d → net ∈ kv.2 → ty g2 net = Some Buf ∨ ty g2 net = Some BbIn) →
  ∀ g g', same_shape g g2 →
  foldl (bconn_step d inst) (g, Done) conns = (g', Done) →
  ∀ v, consistent g' v ↔ consistent g v ∧ Forall (bconn_ok d inst v) conns.
Proof.
  intros Hin. induction conns as [|kv conns IH]; intros Hout g g' Hsh Hf v.
  { simpl in Hf. simplify_eq. split; [|tauto]. intros H. split; [done|]. constructor. }
  change (foldl (bconn_step d inst) (bconn_step d inst (g, Done) kv) conns = (g', Done)) in Hf.
  destruct (bconn_step d inst (g, Done) kv) as [g1 o1] eqn:Hstep.
  destruct o1 as [|e]; [|by rewrite bconn_fold_fail in Hf].
  assert (Hsh1 : same_shape g1 g2).
  { eapply same_shape_trans; [|exact Hsh]. pose proof (bconn_step_shape d inst (g, Done) kv) as H.
    by rewrite Hstep in H. }
  rewrite (IH (λ kv' net Hkv, Hout kv' net (elem_of_list_further _ _ _ Hkv)) g1 g' Hsh1 Hf v).
  rewrite Forall_cons.
  assert (Hone : consistent g1 v ↔ consistent g v ∧ bconn_ok d inst v kv); [|tauto].
  assert (Hty : ∀ n t, ty g2 n = Some t → ∃ i, g !! n = Some i ∧ n_ty i = t).
  { intros n t Ht. rewrite <- (same_shape_ty _ _ n Hsh) in Ht. unfold ty in Ht.
    destruct (g !! n) as [i|]; simplify_eq/=. eauto. }
  unfold bconn_step in Hstep. unfold bconn_ok. case_bool_decide as Hio.
  - destruct (Hty _ _ (Hin _ Hio)) as (i & Hi & Ht).
    rewrite (connect_in_sem g kv.2 (pin inst kv.1) g1 i Hi (or_intror Ht) Hstep v).
    split; intros [Hc H]; (split; [done|]).
    + intros net Hnet. split; [intros _; by apply H|done].
    + intros u Hu. by apply H.
  - case_bool_decide as Hoo; [|done].
    rewrite (connect_out_sem g (pin inst kv.1) kv.2 g1); [| |exact Hstep].
    + split; intros [Hc H]; (split; [done|]).
      * intros net Hnet. split; [done|intros _; by apply H].
      * intros x Hx. by apply H.
    + intros x Hx. destruct (Hout kv x) as [Hb|Hb]; [by left|done|done| |];
        destruct (Hty _ _ Hb) as (i & Hi & Ht); eauto.
Qed.

(* the fresh pin nodes are free: they constrain nothing *)
Lemma mkpins_sem inst ins outs g g1 io :
  foldl (pin_step inst) (g, [], Done) (pin_list ins outs) = (g1, io, Done) →
  ∀ v, consistent g1 v ↔ consistent g v.
Proof.
  intros Hp v. destruct (mkpins_done _ _ _ _ _ _ Hp) as (_ & _ & Hl). split.
  - intros H n i Hn. apply H. apply Hl. by left.
  - intros H k i Hk. apply Hl in Hk as [Hk|[(p & _ & -> & ->)|(p & _ & -> & ->)]]; [by apply H| |].
    + unfold node_ok, is_free. simpl. by rewrite bool_decide_eq_true_2.
    + unfold node_ok, is_free. simpl. done.
Qed.

Theorem add_blackbox_sem P d inst ins outs conns P' :
  add_blackbox P d inst ins outs conns = (P', Done) →
  list_to_set ins = bb_in d → list_to_set outs = bb_out d →
  (* nets attached to blackbox outputs are undriven buffers of the parent, as the API demands *)
  (∀ kv net, kv ∈ conns → kv.1 ∉ bb_in d → net ∈ kv.2 → free_buf (c_g P) net) →
  ∀ v, consistent (c_g P') v ↔
    consistent (c_g P) v ∧
    Forall (λ kv, ∀ net, net ∈ kv.2 → (kv.1 ∈ bb_in d → v (pin inst kv.1) = v net) ∧ (kv.1 ∉ bb_in d → v net = v (pin inst kv.1))) conns.
Proof.
  intros (_ & _ & _ & g1 & io & Hp & Hc)%add_blackbox_inv Hins Houts Hfree v.
  destruct (mkpins_done _ _ _ _ _ _ Hp) as (_ & _ & Hl).
  rewrite <- (mkpins_sem _ _ _ _ _ _ Hp v).
  change (consistent (c_g P') v ↔ consistent g1 v ∧ Forall (bconn_ok d inst v) conns).
  apply (bconn_fold_sem d inst g1) with (g := g1); [| |apply same_shape_refl|exact Hc].
  - intros p Hp'. rewrite <- Hins in Hp'. apply elem_of_list_to_set in Hp'. unfold ty.
    assert (g1 !! pin inst p = Some (mk_node BbIn false ∅)) as ->; [|done].
    apply Hl. right. left. eauto.
  - intros kv net Hkv Hio Hnet. destruct (Hfree kv net Hkv Hio Hnet) as (i & Hi & Hty & _).
    unfold ty. assert (g1 !! net = Some i) as ->; [apply Hl; by left|]. simpl.
    destruct Hty as [-> | ->]; auto.
Qed.

(* on success the pin lists are duplicate-free and disjoint, the pins are fresh, and every key of the
   connection map is a pin name of the blackbox *)
Theorem add_blackbox_wf P d inst ins outs conns P' :
  add_blackbox P d inst ins outs conns = (P', Done) →
  NoDup (ins ++ outs)%list ∧ (∀ p, p ∈ (ins ++ outs)%list → pin inst p ∉ dom (c_g P)) ∧
  ∀ kv, kv ∈ conns → kv.1 ∈ bb_in d ∨ kv.1 ∈ bb_out d.
Proof.
  intros (_ & _ & _ & g1 & io & Hp & Hc)%add_blackbox_inv.
  destruct (mkpins_done _ _ _ _ _ _ Hp) as (Hnd & Hfr & _).
  split; [done|]. split; [done|]. by eapply bconn_fold_keys.
Qed.

(* ================================================================== *)
(* B. fill_blackbox keeps the io lists of the parent                  *)
(* ================================================================== *)
Section fill_io.
  Context (inst : string) (d : bbdef) (Pg SCg : circuit).
  Local Notation ρ := (pin_to_node inst d).
  Local Notation g3 := (fill_graph inst d Pg SCg).
  Hypothesis Hin : inputs SCg = bb_in d.
  Hypothesis Hout : outputs SCg = bb_out d.
  Hypothesis Hfresh : ∀ n, n ∈ dom SCg → pre inst n ∉ dom Pg.

  (* every node of the filled graph is a child node (io stripped) or a parent node under its new name *)
  Lemma fill_lookup_cases k j : g3 !! k = Some j →
    (∃ m i', k = pre inst m ∧ SCg !! m = Some i' ∧
             n_ty j = (if decide (m ∈ bb_in d) then Buf else n_ty i') ∧
             n_out j = (if decide (m ∈ bb_out d) then false else n_out i')) ∨
    (∃ n i, k = ρ n ∧ Pg !! n = Some i ∧ n_ty j = n_ty i ∧ n_out j = n_out i).
  Proof.
    intros Hk. rewrite (fill_graph_lookup inst d Pg SCg Hin Hout Hfresh k) in Hk.
    destruct (rename (pre inst) SCg !! k) as [j'|] eqn:ES.
    - left. apply lookup_rename_Some in ES as (m & i' & -> & Hm & ->); [|apply _].
      exists m, i'. split; [done|]. split; [done|].
      rewrite !decide_set_map_pre in Hk.
      destruct (rename ρ Pg !! pre inst m) as [j0|]; simpl in Hk;
        destruct (decide (m ∈ bb_out d)), (decide (m ∈ bb_in d)); simpl in Hk; simplify_eq; done.
    - destruct (rename ρ Pg !! k) as [j'|] eqn:EP; [|simpl in Hk; repeat case_decide; done].
      right. apply lookup_rename_on_Some in EP as (n & i & -> & Hn & ->); [|exact (rho_inj_on inst d Pg SCg Hin Hout Hfresh)].
      assert (Hno : ∀ X : gset string, X ⊆ dom SCg → ρ n ∉ (set_map (pre inst) X : gset string)).
      { intros X HX (m & Hm & HmX)%elem_of_map. apply HX in HmX. apply elem_of_dom in HmX as [i' Hi'].
        rewrite Hm, lookup_rename, Hi' in ES by apply _. done. }
      rewrite decide_False in Hk.
      2:{ apply Hno. rewrite <- Hout. intros m (i' & ? & _)%elem_of_outputs. apply elem_of_dom; eauto. }
      rewrite decide_False in Hk.
      2:{ apply Hno. rewrite <- Hin. intros m (i' & ? & _)%elem_of_inputs. apply elem_of_dom; eauto. }
      simpl in Hk. simplify_eq. exists n, i. done.
  Qed.

  (* a parent node that is not a pin of this instance keeps its name, type and mark *)
  Lemma fill_lookup_parent n i :
    Pg !! n = Some i → (∀ p, p ∈ bb_in d ∪ bb_out d → n ≠ pin inst p) →
    g3 !! n = Some (ren_info ρ i).
  Proof.
    intros Hn Hnp.
    assert (Hρ : ρ n = n).
    { destruct (pin_to_node_cases inst d n) as [(p & Hp & -> & _)|[_ ?]]; [|done]. by destruct (Hnp p Hp). }
    assert (HS : rename (pre inst) SCg !! n = None).
    { destruct (rename (pre inst) SCg !! n) as [j|] eqn:E; [|done]. exfalso.
      apply lookup_rename_Some in E as (m & i' & -> & Hm & _); [|apply _].
      apply (Hfresh m); apply elem_of_dom; eauto. }
    assert (Hk : ∀ X : gset string, X ⊆ dom SCg → n ∉ (set_map (pre inst) X : gset string)).
    { intros X HX (m & -> & Hm)%elem_of_map. apply (Hfresh m); [by apply HX|]. apply elem_of_dom; eauto. }
    rewrite (fill_graph_lookup inst d Pg SCg Hin Hout Hfresh n).
    rewrite decide_False.
    2:{ apply Hk. rewrite <- Hout. intros m (i' & ? & _)%elem_of_outputs. apply elem_of_dom; eauto. }
    rewrite decide_False.
    2:{ apply Hk. rewrite <- Hin. intros m (i' & ? & _)%elem_of_inputs. apply elem_of_dom; eauto. }
    pose proof (parent_lookup inst d Pg SCg Hin Hout Hfresh n i Hn) as HP. rewrite Hρ in HP.
    by rewrite HP, HS.
  Qed.

  Hypothesis Hpins : ∀ p i, p ∈ bb_in d ∪ bb_out d → Pg !! pin inst p = Some i → n_ty i ≠ Input ∧ n_out i = false.

  Lemma fill_graph_inputs : inputs g3 = inputs Pg.
  Proof.
    apply set_eq. intros k. rewrite !elem_of_inputs. split.
    - intros (j & Hj & Ht). destruct (fill_lookup_cases k j Hj) as [(m & i' & -> & Hm & Hty & _)|(n & i & -> & Hn & Hty & _)].
      + exfalso. rewrite Ht in Hty. case_decide as Hmi; [done|].
        apply Hmi. rewrite <- Hin. apply elem_of_inputs. eauto.
      + destruct (pin_to_node_cases inst d n) as [(p & Hp & -> & _)|[_ ->]].
        * exfalso. destruct (Hpins p i Hp Hn) as [Hne _]. congruence.
        * exists i. split; [done|congruence].
    - intros (i & Hi & Ht). exists (ren_info ρ i). split; [|done].
      apply fill_lookup_parent; [done|]. intros p Hp ->. destruct (Hpins p i Hp Hi) as [Hne _]. done.
  Qed.

  Lemma fill_graph_outputs : outputs g3 = outputs Pg.
  Proof.
    apply set_eq. intros k. rewrite !elem_of_outputs. split.
    - intros (j & Hj & Ht). destruct (fill_lookup_cases k j Hj) as [(m & i' & -> & Hm & _ & Ho)|(n & i & -> & Hn & _ & Ho)].
      + exfalso. rewrite Ht in Ho. case_decide as Hmo; [done|].
        apply Hmo. rewrite <- Hout. apply elem_of_outputs. eauto.
      + destruct (pin_to_node_cases inst d n) as [(p & Hp & -> & _)|[_ ->]].
        * exfalso. destruct (Hpins p i Hp Hn) as [_ Hf]. congruence.
        * exists i. split; [done|congruence].
    - intros (i & Hi & Ht). exists (ren_info ρ i). split; [|done].
      apply fill_lookup_parent; [done|]. intros p Hp ->. destruct (Hpins p i Hp Hi) as [_ Hf]. congruence.
  Qed.
End fill_io.

Theorem fill_blackbox_io P inst SC P' d :
  c_bbs P !! inst = Some d → fill_blackbox P inst SC = (P', Done) →
  (∀ p i, p ∈ bb_in d ∪ bb_out d → c_g P !! pin inst p = Some i → n_ty i ≠ Input ∧ n_out i = false) →
  inputs (c_g P') = inputs (c_g P) ∧ outputs (c_g P') = outputs (c_g P).
Proof.
  intros Hd Hf Hpins.
  destruct (fill_blackbox_inv P inst SC P' d Hd Hf) as (_ & Hin & Hout & Hfresh & _ & _ & Hg).
  rewrite Hg. split.
  - by apply fill_graph_inputs.
  - by apply fill_graph_outputs.
Qed.

(* the pins created by add_blackbox satisfy the side condition of fill_blackbox_io *)
Corollary fill_blackbox_io_pins P inst SC P' d :
  c_bbs P !! inst = Some d → fill_blackbox P inst SC = (P', Done) →
  (∀ p i, p ∈ bb_in d ∪ bb_out d → c_g P !! pin inst p = Some i →
          (n_ty i = BbIn ∨ n_ty i = BbOut) ∧ n_out i = false) →
  inputs (c_g P') = inputs (c_g P) ∧ outputs (c_g P') = outputs (c_g P).
Proof.
  intros Hd Hf Hpins. eapply fill_blackbox_io; [done|done|].
  intros p i Hp Hi. destruct (Hpins p i Hp Hi) as [[Ht|Ht] Ho]; (split; [congruence|done]).
Qed.
