(* add_subcircuit / fill_blackbox return lint-clean circuits. *)
From Coq Require Import Ascii.
From stdpp Require Import strings gmap sets fin_sets.
From CG Require Import Base.Compose Base.Oracle Model.Compose6 Model.Lint Proofs.LintProofs Proofs.ComposeProofs Proofs.FillProofs Proofs.BlackboxProofs.
Open Scope string_scope.

(* ---------- glue (as in LimitLint.v) ---------- *)
Lemma lint_tables_ok : tables_ok gen_tables = true.
Proof. vm_compute. reflexivity. Qed.
Lemma lint_clean_iff C : lint_clean C ↔ ¬ violates C default_flags.
Proof. unfold lint_clean, lint. apply lint_ok_iff, lint_tables_ok. Qed.
Lemma has_dot_app a b : has_dot (a ++ b) = has_dot a || has_dot b.
Proof. induction a as [|ch a IH]; simpl; [done|]. destruct (Ascii.eqb ch "."); [done|apply IH]. Qed.
Lemma before_dot_app a b : has_dot a = true → before_dot (a ++ b) = before_dot a.
Proof. induction a as [|ch a IH]; simpl; [done|]. destruct (Ascii.eqb ch "."); [done|]. intros H. f_equal. by apply IH. Qed.
Lemma before_dot_app_nodot a b : has_dot a = false → before_dot (a ++ b) = a ++ before_dot b.
Proof.
  induction a as [|ch a IH]; simpl; [done|]. destruct (Ascii.eqb ch "."); [done|]. intros H.
  change (String ch (before_dot (a ++ b)) = String ch (a ++ before_dot b)). f_equal. by apply IH.
Qed.
Lemma str_app_assoc (a b c : string) : (a ++ b) ++ c = a ++ (b ++ c).
Proof. induction a as [|x a IH]; [done|]. change (String x ((a ++ b) ++ c) = String x (a ++ (b ++ c))). by f_equal. Qed.

Lemma has_dot_pre name n : has_dot name = false → has_dot (pre name n) = has_dot n.
Proof. intros H. unfold pre. rewrite has_dot_app, H. simpl. change ("_" ++ n) with (String "_" n). done. Qed.
Lemma before_dot_pre name n : has_dot name = false → before_dot (pre name n) = pre name (before_dot n).
Proof. intros H. unfold pre. rewrite before_dot_app_nodot by done. change ("_" ++ n) with (String "_" n). done. Qed.
Lemma pin_pre name b p : Lint.pin (pre name b) p = pre name (Lint.pin b p).
Proof. unfold Lint.pin, pre. by rewrite !str_app_assoc. Qed.

(* ---------- the default-flag rules, positively ---------- *)
Definition node_ok0 (bbs : gset string) (c : circuit) (n : string) (i : ninfo) : Prop :=
  n_ty i ∈ doc_supported ∧
  (has_dot n = true → before_dot n ∈ bbs) ∧
  (n_ty i ∈ doc_no_fanin → n_fi i = ∅) ∧
  (n_ty i = BbOut → size (fanout c n) ≤ 1 ∧ ∀ m, m ∈ fanout c n → ty c m = Some Buf) ∧
  (n_ty i ∈ doc_single → size (n_fi i) ≤ 1).
Definition rules0 (bbs : gset string) (c : circuit) : Prop := ∀ n i, c !! n = Some i → node_ok0 bbs c n i.
Definition driven (c : circuit) : Prop := ∀ n i, c !! n = Some i → n_ty i ∈ (doc_single ++ doc_multi)%list → n_fi i ≠ ∅.
Definition bbs_ok (c : circuit) (bbs : gmap string bbdef) : Prop :=
  ∀ inst d, bbs !! inst = Some d →
    (∀ p, p ∈ bb_in d → ty c (Lint.pin inst p) = Some BbIn) ∧ (∀ p, p ∈ bb_out d → ty c (Lint.pin inst p) = Some BbOut).

Lemma lint_clean_char C :
  lint_clean C ↔ rules0 (dom (c_bbs C)) (c_g C) ∧ driven (c_g C) ∧ bbs_ok (c_g C) (c_bbs C).
Proof.
  rewrite lint_clean_iff. split.
  - intros Hnv. split_and!.
    + intros n i Hn. unfold node_ok0. split_and!.
      * destruct (decide (n_ty i ∈ doc_supported)) as [|Hno]; [done|]. exfalso. apply Hnv. left. exists n, i. split; [done|]. by left.
      * intros Hd. destruct (decide (before_dot n ∈ dom (c_bbs C))) as [|Hno]; [done|]. exfalso. apply Hnv. left. exists n, i.
        split; [done|]. right; left. done.
      * intros Ht. destruct (decide (n_fi i = ∅)) as [|Hno]; [done|]. exfalso. apply Hnv. left. exists n, i.
        split; [done|]. right; right; left. done.
      * intros Ht. split.
        -- destruct (decide (size (fanout (c_g C) n) ≤ 1)) as [|Hno]; [done|]. exfalso. apply Hnv. left. exists n, i.
           split; [done|]. right; right; right; left. split; [done|]. left. lia.
        -- intros m Hm. destruct (decide (ty (c_g C) m = Some Buf)) as [|Hno]; [done|]. exfalso. apply Hnv. left. exists n, i.
           split; [done|]. right; right; right; left. split; [done|]. right. eauto.
      * intros Ht. destruct (decide (size (n_fi i) ≤ 1)) as [|Hno]; [done|]. exfalso. apply Hnv. left. exists n, i.
        split; [done|]. right; right; right; right; left. split; [done|]. lia.
    + intros n i Hn Ht He. apply Hnv. left. exists n, i. split; [done|]. right; right; right; right; right; left. done.
    + intros inst d Hd. split; intros p Hp.
      * destruct (decide (ty (c_g C) (Lint.pin inst p) = Some BbIn)) as [|Hno]; [done|]. exfalso. apply Hnv. right. exists inst, d.
        split; [done|]. left. eauto.
      * destruct (decide (ty (c_g C) (Lint.pin inst p) = Some BbOut)) as [|Hno]; [done|]. exfalso. apply Hnv. right. exists inst, d.
        split; [done|]. right. eauto.
  - intros (Hr & Hdr & Hbb) [(n & i & Hn & Hv)|(inst & d & Hd & Hv)].
    + destruct (Hr n i Hn) as (H1 & H2 & H3 & H4 & H5). unfold node_violates in Hv.
      destruct Hv as [H|[H|[H|[H|[H|[H|[H|H]]]]]]].
      * done.
      * destruct H as [Ha Hb]. by apply Hb, H2.
      * destruct H as [Ha Hb]. by apply Hb, H3.
      * destruct H as [Ha Hb]. destruct (H4 Ha) as [Hs Hm]. destruct Hb as [Hb|(m & Hm1 & Hm2)]; [lia|]. by apply Hm2, Hm.
      * destruct H as [Ha Hb]. specialize (H5 Ha). lia.
      * destruct H as (_ & Ha & Hb). by apply (Hdr n i Hn Ha).
      * destruct H as [H _]. done.
      * destruct H as [H _]. done.
    + destruct (Hbb inst d Hd) as [Hi Ho]. destruct Hv as [(p & Hp & Ht)|(p & Hp & Ht)]; [by apply Ht, Hi|by apply Ht, Ho].
Qed.

(* ---------- connect: what a successful call does ---------- *)
Lemma elem_of_pairs u v us vs : (u, v) ∈ pairs us vs ↔ u ∈ us ∧ v ∈ vs.
Proof.
  unfold pairs. rewrite elem_of_list_bind. split.
  - intros (u' & H & Hu). apply elem_of_list_bind in H as (v' & H & Hv). apply elem_of_list_singleton in H. by simplify_eq.
  - intros [Hu Hv]. exists u. split; [|done]. apply elem_of_list_bind. exists v. split; [|done]. by apply elem_of_list_singleton.
Qed.

Lemma add_edges_lookup l : ∀ c n,
  foldl (λ c' (p : string * string), add_edge c' p.1 p.2) c l !! n =
  upd_fi (λ s, list_to_set (fst <$> filter (λ p, p.2 = n) l) ∪ s) <$> c !! n.
Proof.
  induction l as [|[u v] l IH]; intros c n; simpl.
  - destruct (c !! n) as [[t o fi]|]; simpl; [|done]. unfold upd_fi; simpl. f_equal. f_equal. set_solver.
  - rewrite IH. unfold add_edge. rewrite filter_cons. simpl. destruct (decide (v = n)) as [->|Hne].
    + rewrite lookup_alter. destruct (c !! n) as [[t o fi]|]; simpl; [|done]. unfold upd_fi; simpl. f_equal. f_equal. set_solver.
    + rewrite lookup_alter_ne by done. done.
Qed.

Lemma connect_g_inv c us vs c' : connect_g c us vs = (c', Done) →
  (∀ n, ∃ X : gset string, c' !! n = upd_fi (λ s, X ∪ s) <$> c !! n ∧ ∀ u, u ∈ X ↔ u ∈ us ∧ n ∈ vs) ∧
  (us ≠ [] → vs ≠ [] → connect_check c us vs = true).
Proof.
  unfold connect_g. case_bool_decide as Hus; simpl.
  { intros [= <-]. split; [|done]. intros n. exists ∅. split; [|subst us; set_solver].
    destruct (c !! n) as [[t o fi]|]; simpl; [|done]. unfold upd_fi; simpl. f_equal. f_equal. set_solver. }
  case_bool_decide as Hvs; simpl.
  { intros [= <-]. split; [|done]. intros n. exists ∅. split; [|subst vs; set_solver].
    destruct (c !! n) as [[t o fi]|]; simpl; [|done]. unfold upd_fi; simpl. f_equal. f_equal. set_solver. }
  destruct (negb (forallb _ _)); [done|]. destruct (connect_check c us vs) eqn:Hck; simpl; [|done].
  intros [= <-]. split; [|done]. intros n. eexists. split; [apply add_edges_lookup|].
  intros u. rewrite elem_of_list_to_set, elem_of_list_fmap. split.
  - intros ([u' v'] & -> & H). apply elem_of_list_filter in H as [H1 H2]. simpl in *. subst. by apply elem_of_pairs.
  - intros [Hu Hv]. exists (u, n). split; [done|]. apply elem_of_list_filter. split; [done|]. by apply elem_of_pairs.
Qed.

Lemma connect_check_inv c us vs : connect_check c us vs = true →
  (∀ v, v ∈ vs → is_in (ty c v) conn_no_fanin = false ∧
                  (is_in (ty c v) conn_single_fanin = true → size (fanin c v) + length us ≤ 1)) ∧
  (∀ u, u ∈ us → is_in (ty c u) conn_no_fanout = false ∧
                  (is_in (ty c u) conn_bbout = true →
                     (∀ v, v ∈ vs → is_in (ty c v) [Buf] = true) ∧ size (fanout c u) + length vs ≤ 1)).
Proof.
  unfold connect_check. intros [H1 H2]%andb_true_iff. apply negb_true_iff in H1, H2. split.
  - intros v Hv. pose proof (existsb_false _ _ H1 v Hv) as H. simpl in H. apply orb_false_elim in H as [Ha Hb].
    split; [done|]. intros Hs. rewrite Hs in Hb. simpl in Hb. by apply Nat.ltb_ge in Hb.
  - intros u Hu. pose proof (existsb_false _ _ H2 u Hu) as H. simpl in H. apply orb_false_elim in H as [Ha Hb].
    split; [done|]. intros Hs. rewrite Hs in Hb. simpl in Hb. apply orb_false_elim in Hb as [Hb1 Hb2]. split.
    + intros v Hv. pose proof (existsb_false _ _ Hb1 v Hv) as H. simpl in H. by apply negb_false_iff in H.
    + by apply Nat.ltb_ge in Hb2.
Qed.

Lemma length_le1 {A} (l : list A) : l ≠ [] → length l ≤ 1 → ∃ x, l = [x].
Proof. destruct l as [|x [|y l]]; simpl; [done|eauto|lia]. Qed.
Lemma size0_empty (s : gset string) : size s = 0 → s = ∅.
Proof. intros H. by apply leibniz_equiv, size_empty_iff. Qed.

Lemma connect_g_keeps_rules bbs c us vs c' :
  connect_g c us vs = (c', Done) → rules0 bbs c → rules0 bbs c'.
Proof.
  intros Hc Hr. pose proof (connect_g_shape c us vs) as Hsh. rewrite Hc in Hsh. simpl in Hsh.
  apply connect_g_inv in Hc as [Hlk Hck].
  assert (Hty : ∀ m, ty c' m = ty c m) by (intros m; by apply same_shape_ty).
  (* fanout after the call *)
  assert (Hfo : ∀ n m, m ∈ fanout c' n ↔ m ∈ fanout c n ∨ (n ∈ us ∧ m ∈ vs ∧ m ∈ dom c)).
  { intros n m. rewrite !elem_of_fanout. destruct (Hlk m) as (X & Hm & HX). rewrite Hm.
    destruct (c !! m) as [j|] eqn:Hj; simpl.
    - split.
      + intros (? & [= <-] & Hin). simpl in Hin. apply elem_of_union in Hin as [Hin|Hin]; [|eauto].
        apply HX in Hin as [? ?]. right. split_and!; try done. apply elem_of_dom; eauto.
      + intros [(? & [= <-] & Hin)|(H1 & H2 & _)]; eexists; (split; [done|]); simpl; apply elem_of_union; [by right|left]. by apply HX.
    - split; [by intros (? & ? & _)|]. intros [(? & ? & _)|(_ & _ & Hd)]; [done|]. apply elem_of_dom in Hd as [? ?]. congruence. }
  intros n i' Hn'. destruct (Hlk n) as (X & Hn & HX). rewrite Hn' in Hn.
  destruct (c !! n) as [i|] eqn:Hi; simpl in Hn; [|done]. injection Hn as ->.
  destruct (Hr n i Hi) as (H1 & H2 & H3 & H4 & H5). unfold node_ok0. cbn [n_ty n_fi upd_fi].
  split_and!; [done|done| | |].
  - intros Ht. rewrite (H3 Ht). destruct (decide (X = ∅)) as [->|Hne]; [by rewrite (left_id_L ∅ (∪))|]. exfalso.
    apply set_choose_L in Hne as [u Hu]. apply HX in Hu as [Hu Hv].
    assert (us ≠ []) as Hus by (intros ->; by apply elem_of_nil in Hu).
    assert (vs ≠ []) as Hvs by (intros ->; by apply elem_of_nil in Hv).
    destruct (connect_check_inv _ _ _ (Hck Hus Hvs)) as [Hcv _]. destruct (Hcv n Hv) as [Hnf _].
    unfold ty in Hnf. rewrite Hi in Hnf. simpl in Hnf. apply bool_decide_eq_false in Hnf. by apply Hnf.
  - intros Ht. destruct (H4 Ht) as [Hsz Hbuf]. destruct (decide (n ∈ us)) as [Hu|Hu].
    + assert (us ≠ []) as Hus by (intros ->; by apply elem_of_nil in Hu).
      destruct (decide (vs = [])) as [->|Hvs].
      { assert (fanout c' n = fanout c n) as ->.
        { apply set_eq. intros m. rewrite Hfo. split; [|auto]. intros [?|(_ & Hm & _)]; [done|]. by apply elem_of_nil in Hm. }
        split; [done|]. intros m Hm. rewrite Hty. by apply Hbuf. }
      destruct (connect_check_inv _ _ _ (Hck Hus Hvs)) as [_ Hcu]. destruct (Hcu n Hu) as [_ Hbb].
      destruct Hbb as [Hallbuf Hsz2]. { unfold ty. rewrite Hi. simpl. rewrite Ht. reflexivity. }
      destruct (length_le1 vs Hvs) as [v ->]; [lia|]. simpl in Hsz2.
      assert (fanout c n = ∅) as He by (apply size0_empty; lia).
      split.
      * assert (fanout c' n ⊆ {[v]}) as Hsub.
        { intros m. rewrite Hfo, He. intros [Hm|(_ & Hm & _)]; [by apply elem_of_empty in Hm|]. apply elem_of_list_singleton in Hm. subst. by apply elem_of_singleton. }
        apply subseteq_size in Hsub. by rewrite size_singleton in Hsub.
      * intros m. rewrite Hfo, He. intros [Hm|(_ & Hm & _)]; [by apply elem_of_empty in Hm|]. rewrite Hty.
        specialize (Hallbuf m Hm). destruct (ty c m) as [t|]; simpl in *; [|done]. apply bool_decide_eq_true in Hallbuf.
        apply elem_of_list_singleton in Hallbuf. by subst.
    + assert (fanout c' n = fanout c n) as ->.
      { apply set_eq. intros m. rewrite Hfo. split; [|auto]. intros [?|(? & _)]; done. }
      split; [done|]. intros m Hm. rewrite Hty. by apply Hbuf.
  - intros Ht. specialize (H5 Ht). destruct (decide (X = ∅)) as [->|Hne].
    { by rewrite (left_id_L ∅ (∪)). }
    apply set_choose_L in Hne as [u Hu]. apply HX in Hu as [Hu Hv].
    assert (us ≠ []) as Hus by (intros ->; by apply elem_of_nil in Hu).
    assert (vs ≠ []) as Hvs by (intros ->; by apply elem_of_nil in Hv).
    destruct (connect_check_inv _ _ _ (Hck Hus Hvs)) as [Hcv _]. destruct (Hcv n Hv) as [_ Hsf].
    assert (size (fanin c n) + length us ≤ 1) as Hle.
    { apply Hsf. unfold ty. rewrite Hi. simpl. apply bool_decide_eq_true. clear -Ht. unfold doc_single, conn_single_fanin in *. set_solver. }
    destruct (length_le1 us Hus) as [u' ->]; [lia|]. simpl in Hle.
    assert (n_fi i = ∅) as He. { apply size0_empty. unfold fanin in Hle. rewrite Hi in Hle. simpl in Hle. lia. }
    rewrite He. assert (X ∪ ∅ ⊆ ({[u']} : gset string)) as Hsub.
    { intros z Hz. apply elem_of_union in Hz as [Hz|Hz]; [|by apply elem_of_empty in Hz]. apply HX in Hz as [Hz _]. apply elem_of_list_singleton in Hz. subst. by apply elem_of_singleton. }
    apply subseteq_size in Hsub. by rewrite size_singleton in Hsub.
Qed.

(* fan-ins only grow *)
Definition fi_grows (c c' : circuit) : Prop := ∀ n i i', c !! n = Some i → c' !! n = Some i' → n_fi i ⊆ n_fi i'.
Lemma connect_g_grows c us vs c' : connect_g c us vs = (c', Done) → fi_grows c c'.
Proof.
  intros [Hlk _]%connect_g_inv n i i' Hi Hi'. destruct (Hlk n) as (X & Hn & _). rewrite Hi, Hi' in Hn. simpl in Hn.
  injection Hn as ->. simpl. apply union_subseteq_r.
Qed.

Lemma conn_fold_rel (R : circuit → circuit → Prop) SC name :
  (∀ c, R c c) → (∀ c1 c2 c3, R c1 c2 → R c2 c3 → R c1 c3) →
  (∀ c us vs c', connect_g c us vs = (c', Done) → R c c') →
  ∀ conns g g', foldl (conn_step SC name) (g, Done) conns = (g', Done) → R g g'.
Proof.
  intros Hrefl Htrans Hstep. induction conns as [|kv conns IH]; intros g g' Hf; simpl in Hf.
  - by simplify_eq.
  - destruct (if bool_decide (kv.1 ∈ inputs (c_g SC)) then connect_g g kv.2 [pre name kv.1] else connect_g g [pre name kv.1] kv.2)
      as [g1 o1] eqn:Hs.
    destruct o1 as [|e]; [|by rewrite conn_fold_fail in Hf].
    eapply Htrans; [|by apply IH]. case_bool_decide; by eapply Hstep.
Qed.

Lemma conn_fold_keeps_rules bbs SC name conns g g' :
  foldl (conn_step SC name) (g, Done) conns = (g', Done) → rules0 bbs g → rules0 bbs g'.
Proof.
  apply (conn_fold_rel (λ c c', rules0 bbs c → rules0 bbs c')); [done|by auto|].
  intros c us vs c'. apply connect_g_keeps_rules.
Qed.
Lemma fi_grows_shape_trans c1 c2 c3 : same_shape c2 c1 → fi_grows c1 c2 → fi_grows c2 c3 → fi_grows c1 c3.
Proof.
  intros Hsh H12 H23 n i i3 Hi Hi3. destruct (same_shape_lookup _ _ _ _ (same_shape_sym _ _ Hsh) Hi) as (i2 & Hi2 & _).
  etrans; [by eapply H12|by eapply H23].
Qed.
Lemma conn_fold_grows SC name conns g g' :
  foldl (conn_step SC name) (g, Done) conns = (g', Done) → fi_grows g g'.
Proof.
  intros Hf.
  apply (conn_fold_rel (λ c c', same_shape c' c ∧ fi_grows c c') SC name) in Hf; [by destruct Hf| | |].
  - intros c. split; [done|]. intros n i i' Hi Hi'. by simplify_eq.
  - intros c1 c2 c3 [Hs1 H1] [Hs2 H2]. split; [by eapply same_shape_trans|by eapply fi_grows_shape_trans].
  - intros c us vs c' Hc. split; [|by eapply connect_g_grows].
    pose proof (connect_g_shape c us vs) as Hsh. by rewrite Hc in Hsh.
Qed.

(* an attached child input is driven at the end *)
Lemma conn_fold_driven SC name : ∀ conns g g',
  foldl (conn_step SC name) (g, Done) conns = (g', Done) →
  ∀ io nets, (io, nets) ∈ conns → io ∈ inputs (c_g SC) → nets ≠ [] → pre name io ∈ dom g →
  ∀ i', g' !! pre name io = Some i' → n_fi i' ≠ ∅.
Proof.
  induction conns as [|kv conns IH]; intros g g' Hf io nets Hin Hio Hne Hdom i' Hi'; [by apply elem_of_nil in Hin|].
  simpl in Hf.
  destruct (if bool_decide (kv.1 ∈ inputs (c_g SC)) then connect_g g kv.2 [pre name kv.1] else connect_g g [pre name kv.1] kv.2)
    as [g1 o1] eqn:Hs.
  destruct o1 as [|e]; [|by rewrite conn_fold_fail in Hf].
  assert (Hd1 : dom g1 = dom g).
  { case_bool_decide; [pose proof (connect_g_dom g kv.2 [pre name kv.1]) as Hd|pose proof (connect_g_dom g [pre name kv.1] kv.2) as Hd];
      by rewrite Hs in Hd. }
  apply elem_of_cons in Hin as [<-|Hin].
  - simpl in Hs. rewrite bool_decide_eq_true_2 in Hs by done.
    apply connect_g_inv in Hs as [Hlk _]. destruct (Hlk (pre name io)) as (X & Hx & HX).
    apply elem_of_dom in Hdom as [i Hi]. rewrite Hi in Hx. simpl in Hx.
    pose proof (conn_fold_grows _ _ _ _ _ Hf _ _ _ Hx Hi') as Hsub. simpl in Hsub.
    destruct nets as [|u nets]; [done|]. assert (u ∈ X) as Hu. { apply HX. split; [by left|by apply elem_of_list_singleton]. }
    intros He. rewrite He in Hsub. clear -Hsub Hu. set_solver.
  - eapply (IH g1 g' Hf io nets); eauto. by rewrite Hd1.
Qed.

(* ---------- the spliced graph before the connections ---------- *)
Lemma size_set_map_le1 (ρ : string → string) (s : gset string) : size s ≤ 1 → size (set_map ρ s : gset string) ≤ 1.
Proof.
  intros H. destruct (decide (size s = 0)) as [H0|H0].
  - apply size0_empty in H0 as ->. by rewrite set_map_empty, size_empty.
  - destruct (size_1_elem_of s) as [x Hx]; [lia|]. apply leibniz_equiv in Hx as ->. by rewrite set_map_singleton_L, size_singleton.
Qed.
Lemma size_set_map_inj (ρ : string → string) `{!Inj (=) (=) ρ} (s : gset string) : size (set_map ρ s : gset string) = size s.
Proof.
  induction s as [|x s Hx IH] using set_ind_L; [by rewrite set_map_empty|].
  rewrite set_map_union_L, set_map_singleton_L. rewrite !size_union, !size_singleton, IH; [done|set_solver|].
  apply disjoint_singleton_l. by rewrite elem_of_set_map_inj.
Qed.

Section spliced.
  Context (P SC : Circuit) (name : string).
  Hypothesis Hfresh : ∀ n, n ∈ dom (c_g SC) → pre name n ∉ dom (c_g P).
  Hypothesis HclP : closed (c_g P).
  Hypothesis HclSC : closed (c_g SC).
  Let g2 := c_g P ∪ rename (pre name) (strip_io (c_g SC)).

  Lemma spl_parent k j : c_g P !! k = Some j → g2 !! k = Some j.
  Proof. intros H. by apply lookup_union_Some_l. Qed.
  Lemma spl_child n i : c_g SC !! n = Some i → g2 !! pre name n = Some (ren_info (pre name) (strip_info i)).
  Proof.
    intros H. unfold g2. rewrite lookup_union_r.
    - rewrite lookup_rename by apply _. unfold strip_io. by rewrite lookup_fmap, H.
    - apply not_elem_of_dom, Hfresh. apply elem_of_dom; eauto.
  Qed.
  Lemma spl_cases k j : g2 !! k = Some j →
    c_g P !! k = Some j ∨ ∃ n i, k = pre name n ∧ c_g SC !! n = Some i ∧ j = ren_info (pre name) (strip_info i).
  Proof. by apply spliced_lookup_child. Qed.

  Lemma spl_fanout_parent k : k ∈ dom (c_g P) → fanout g2 k = fanout (c_g P) k.
  Proof.
    intros Hk. apply set_eq. intros m. rewrite !elem_of_fanout. split.
    - intros (j & Hj & Hin). apply spl_cases in Hj as [Hj|(n & i & -> & Hn & ->)]; [eauto|]. exfalso.
      simpl in Hin. apply elem_of_map in Hin as (f & -> & Hf). apply (Hfresh f); [|done]. by eapply HclSC.
    - intros (j & Hj & Hin). exists j. split; [by apply spl_parent|done].
  Qed.
  Lemma spl_fanout_child n m : n ∈ dom (c_g SC) →
    m ∈ fanout g2 (pre name n) ↔ ∃ m', m = pre name m' ∧ m' ∈ fanout (c_g SC) n.
  Proof.
    intros Hn. rewrite elem_of_fanout. split.
    - intros (j & Hj & Hin). apply spl_cases in Hj as [Hj|(m' & i & -> & Hm' & ->)].
      + exfalso. apply (Hfresh n Hn). by eapply HclP.
      + exists m'. split; [done|]. apply elem_of_fanout. exists i. split; [done|]. simpl in Hin.
        by apply elem_of_set_map_inj in Hin; [|apply _].
    - intros (m' & -> & (i & Hi & Hin)%elem_of_fanout). eexists. split; [by apply spl_child|]. simpl.
      by apply elem_of_set_map_inj; [apply _|].
  Qed.
  Lemma spl_fanout_child_eq n : n ∈ dom (c_g SC) → fanout g2 (pre name n) = set_map (pre name) (fanout (c_g SC) n).
  Proof. intros Hn. apply set_eq. intros m. rewrite spl_fanout_child by done. rewrite elem_of_map. done. Qed.

  Lemma spliced_rules :
    has_dot name = false →
    rules0 (dom (c_bbs P)) (c_g P) → rules0 (dom (c_bbs SC)) (c_g SC) →
    rules0 (set_map (pre name) (dom (c_bbs SC)) ∪ dom (c_bbs P)) g2.
  Proof.
    intros Hnd HrP HrSC k j Hk. apply spl_cases in Hk as [Hk|(n & i & -> & Hn & ->)].
    - destruct (HrP k j Hk) as (H1 & H2 & H3 & H4 & H5). unfold node_ok0. split_and!; [done| |done| |done].
      + intros Hd. apply elem_of_union_r. by apply H2.
      + intros Ht. destruct (H4 Ht) as [Hs Hb]. rewrite spl_fanout_parent by (apply elem_of_dom; eauto). split; [done|].
        intros m Hm. specialize (Hb m Hm). unfold ty in *. destruct (c_g P !! m) as [jm|] eqn:Hjm; [|done].
        by rewrite (spl_parent m jm Hjm).
    - destruct (HrSC n i Hn) as (H1 & H2 & H3 & H4 & H5).
      assert (Hnd' : n ∈ dom (c_g SC)) by (apply elem_of_dom; eauto).
      unfold node_ok0. cbn [n_ty n_fi ren_info strip_info]. split_and!.
      + case_bool_decide; [|done]. unfold doc_supported. set_solver.
      + rewrite has_dot_pre, before_dot_pre by done. intros Hd. apply elem_of_union_l. apply elem_of_set_map_inj; [apply _|]. by apply H2.
      + intros Ht. case_bool_decide as Hin.
        { exfalso. clear -Ht. unfold doc_no_fanin in Ht. set_solver. }
        rewrite (H3 Ht). apply set_map_empty.
      + intros Ht. case_bool_decide as Hin; [done|]. destruct (H4 Ht) as [Hs Hb].
        rewrite spl_fanout_child_eq by done. split; [by rewrite size_set_map_inj by apply _|].
        intros m (m' & -> & Hm')%elem_of_map. specialize (Hb m' Hm'). unfold ty in *.
        destruct (c_g SC !! m') as [jm|] eqn:Hjm; [|done]. rewrite (spl_child m' jm Hjm). simpl in *.
        injection Hb as ->. done.
      + intros Ht. rewrite size_set_map_inj by apply _. case_bool_decide as Hin.
        * assert (n_fi i = ∅) as ->; [|rewrite size_empty; lia]. apply H3. rewrite Hin. unfold doc_no_fanin. set_solver.
        * by apply H5.
  Qed.
End spliced.

(* ---------- PART 1 ---------- *)
Theorem add_subcircuit_lint_clean P SC name conns P' :
  add_subcircuit P SC name conns = (P', Done) →
  lint_clean P → lint_clean SC → closed (c_g P) → closed (c_g SC) →
  has_dot name = false →
  (∀ i, i ∈ inputs (c_g SC) → ∃ nets, (i, nets) ∈ conns ∧ nets ≠ []) →
  lint_clean P'.
Proof.
  intros Hadd HlP HlSC HclP HclSC Hnd Hatt.
  apply add_subcircuit_inv in Hadd as (Hbb & Hfresh & Hkv & Hname & Hbbs & Hf).
  apply lint_clean_char in HlP as (HrP & HdP & HbP). apply lint_clean_char in HlSC as (HrSC & HdSC & HbSC).
  apply lint_clean_char.
  set (g2 := c_g P ∪ rename (pre name) (strip_io (c_g SC))) in *.
  pose proof (conn_fold_shape SC name conns (g2, Done)) as Hsh. rewrite Hf in Hsh. simpl in Hsh.
  split_and!.
  - rewrite Hbbs, dom_union_L, dom_kmap_L by apply _. eapply conn_fold_keeps_rules; [exact Hf|].
    by apply spliced_rules.
  - intros n i' Hn' Ht He.
    destruct (same_shape_lookup _ _ _ _ Hsh Hn') as (j & Hj & Htj & _).
    pose proof (conn_fold_grows _ _ _ _ _ Hf n j i' Hj Hn') as Hsub.
    assert (n_fi j = ∅) as Hje. { rewrite He in Hsub. clear -Hsub. set_solver. }
    apply (spl_cases P SC name Hfresh) in Hj as [Hj|(m & i & -> & Hm & ->)].
    + apply (HdP n j Hj); [|done]. by rewrite Htj.
    + simpl in Htj, Hje. apply set_map_empty_iff in Hje; [|apply _]. case_bool_decide as Hin.
      * destruct (Hatt m) as (nets & Hnets & Hne). { apply elem_of_inputs. eauto. }
        eapply (conn_fold_driven SC name conns g2 (c_g P') Hf m nets); eauto.
        -- apply elem_of_inputs. eauto.
        -- apply elem_of_dom. eexists. apply (spl_child P SC name Hfresh m i Hm).
      * apply (HdSC m i Hm); [|done]. by rewrite Htj.
  - intros inst d Hd. rewrite Hbbs in Hd.
    assert (Hty : ∀ x, ty (c_g P') x = ty g2 x) by (intros x; by apply same_shape_ty). subst g2.
    apply lookup_union_Some_raw in Hd as [Hd|[_ Hd]].
    + apply lookup_kmap_Some in Hd as (b & -> & Hb); [|apply _]. destruct (HbSC b d Hb) as [Hi Ho].
      split; intros p Hp; rewrite Hty, pin_pre; [specialize (Hi p Hp)|specialize (Ho p Hp)]; unfold ty in *;
        (destruct (c_g SC !! Lint.pin b p) as [jp|] eqn:Hjp; [|done]); rewrite (spl_child P SC name Hfresh _ jp Hjp);
        simpl in *; injection Hi as ->||injection Ho as ->; done.
    + destruct (HbP inst d Hd) as [Hi Ho].
      split; intros p Hp; rewrite Hty; [specialize (Hi p Hp)|specialize (Ho p Hp)]; unfold ty in *;
        (destruct (c_g P !! Lint.pin inst p) as [jp|] eqn:Hjp; [|done]); by rewrite (spl_parent P SC name _ jp Hjp).
Qed.

(* ====================================================================== *)
(* PART 2: fill_blackbox                                                  *)
(* ====================================================================== *)
Lemma pin_eq : Lint.pin = Api.pin.
Proof. reflexivity. Qed.

Fixpoint after_dot (s : string) : string :=
  match s with EmptyString => EmptyString | String a r => if Ascii.eqb a "."%char then r else after_dot r end.
Lemma after_dot_app_nodot a b : has_dot a = false → after_dot (a ++ b) = after_dot b.
Proof. induction a as [|ch a IH]; simpl; [done|]. destruct (Ascii.eqb ch "."); [done|]. exact IH. Qed.
Lemma after_dot_app_dot a b : has_dot a = true → after_dot (a ++ b) = after_dot a ++ b.
Proof. induction a as [|ch a IH]; simpl; [done|]. destruct (Ascii.eqb ch "."); [done|]. exact IH. Qed.
Lemma str_app_nil_r (n : string) : n ++ "" = n.
Proof. induction n as [|a n IH]; [done|]. change (String a (n ++ "") = String a n). by f_equal. Qed.
Lemma before_dot_pin inst p : has_dot inst = false → before_dot (Api.pin inst p) = inst.
Proof.
  intros H. unfold Api.pin. rewrite before_dot_app_nodot by done. change ("." ++ p) with (String "." p). simpl. apply str_app_nil_r.
Qed.
Lemma has_dot_pin inst p : has_dot (Api.pin inst p) = true.
Proof. unfold Api.pin. rewrite has_dot_app. change ("." ++ p) with (String "." p). simpl. apply orb_true_r. Qed.
(* a pin of another instance is not a pin of a dot-free instance with dot-free pin names *)
Lemma pin_other inst inst' p q : has_dot inst = false → has_dot q = false → Api.pin inst' p = Api.pin inst q → inst' = inst.
Proof.
  intros Hi Hq Heq. destruct (has_dot inst') eqn:Hi'.
  - exfalso. apply (f_equal after_dot) in Heq. unfold Api.pin in Heq.
    rewrite after_dot_app_dot in Heq by done. rewrite (after_dot_app_nodot inst) in Heq by done.
    change (after_dot ("." ++ q)) with q in Heq. apply (f_equal has_dot) in Heq. rewrite has_dot_app, Hq in Heq.
    change ("." ++ p) with (String "." p) in Heq. simpl in Heq. by rewrite orb_true_r in Heq.
  - apply (f_equal before_dot) in Heq. by rewrite !before_dot_pin in Heq.
Qed.

Lemma fill_blackbox_out_not_pin P inst SC P' d :
  c_bbs P !! inst = Some d → fill_blackbox P inst SC = (P', Done) →
  ∀ q, q ∈ bb_out d → is_in (ty (c_g SC) q) [BbIn; BbOut] = false.
Proof.
  intros Hd. unfold fill_blackbox. rewrite Hd.
  destruct (existsb _ (elements (dom (c_bbs SC)))) eqn:E1; [done|].
  case_bool_decide as E2; simpl; [|done].
  case_bool_decide as E3; simpl; [|done].
  destruct (existsb _ (elements (dom (c_g SC)))) eqn:E4; [done|].
  destruct (existsb _ (elements (bb_in d))) eqn:E5; [done|].
  destruct (existsb _ (elements (bb_out d))) eqn:E6; [done|].
  intros _ q Hq. pose proof (existsb_false _ _ E6 q) as H. simpl in H.
  apply orb_false_elim in H as [_ H]; [done|]. by apply elem_of_elements.
Qed.

Section fill_lint.
  Context (inst : string) (d : bbdef) (Pg SCg : circuit).
  Local Notation ρ := (pin_to_node inst d).
  Local Notation pins := (bb_in d ∪ bb_out d).
  Local Notation g3 := (fill_graph inst d Pg SCg).
  Hypothesis Hin : inputs SCg = bb_in d.
  Hypothesis Hout : outputs SCg = bb_out d.
  Hypothesis Hfresh : ∀ n, n ∈ dom SCg → pre inst n ∉ dom Pg.
  Hypothesis HclP : closed Pg.
  Hypothesis HclSC : closed SCg.

  Local Lemma rinj : inj_on ρ (dom Pg).
  Proof. exact (rho_inj_on inst d Pg SCg Hin Hout Hfresh). Qed.
  Local Lemma rho_nonpin n : (∀ p, p ∈ pins → n ≠ Api.pin inst p) → ρ n = n.
  Proof. intros Hnp. destruct (pin_to_node_cases inst d n) as [(p & Hp & -> & _)|[_ ?]]; [|done]. by destruct (Hnp p Hp). Qed.

  (* every node of the filled graph, with type and fan-in *)
  Lemma fl_cases k j : g3 !! k = Some j →
    (∃ m i', k = pre inst m ∧ SCg !! m = Some i' ∧ n_ty j = (if decide (m ∈ bb_in d) then Buf else n_ty i') ∧
       ((m ∈ pins ∧ ∃ i, Pg !! Api.pin inst m = Some i ∧ n_fi j = set_map ρ (n_fi i) ∪ set_map (pre inst) (n_fi i')) ∨
        ((m ∉ pins ∨ Pg !! Api.pin inst m = None) ∧ n_fi j = set_map (pre inst) (n_fi i')))) ∨
    (∃ i, Pg !! k = Some i ∧ (∀ p, p ∈ pins → k ≠ Api.pin inst p) ∧ n_ty j = n_ty i ∧ n_fi j = set_map ρ (n_fi i)).
  Proof.
    intros Hk. rewrite (fill_graph_lookup inst d Pg SCg Hin Hout Hfresh k) in Hk.
    destruct (rename (pre inst) SCg !! k) as [j'|] eqn:ES.
    - left. apply lookup_rename_Some in ES as (m & i' & -> & Hm & ->); [|apply _].
      exists m, i'. split; [done|]. split; [done|].
      rewrite !decide_set_map_pre in Hk.
      destruct (rename ρ Pg !! pre inst m) as [j0|] eqn:EP.
      + apply lookup_rename_on_Some in EP as (n & i & Hn1 & Hn & ->); [|exact rinj].
        destruct (pin_to_node_cases inst d n) as [(p & Hp & -> & Hρ)|[_ Hρ]]; rewrite Hρ in Hn1.
        * apply (inj (pre inst)) in Hn1 as <-.
          split; [destruct (decide (m ∈ bb_out d)), (decide (m ∈ bb_in d)); simpl in Hk; simplify_eq; done|].
          left. split; [done|]. exists i. split; [done|].
          destruct (decide (m ∈ bb_out d)), (decide (m ∈ bb_in d)); simpl in Hk; simplify_eq; done.
        * subst n. exfalso. apply (Hfresh m); apply elem_of_dom; eauto.
      + split; [destruct (decide (m ∈ bb_out d)), (decide (m ∈ bb_in d)); simpl in Hk; simplify_eq; done|].
        right. split.
        * destruct (decide (m ∈ pins)) as [Hp|Hp]; [right|by left].
          destruct (Pg !! Api.pin inst m) as [i|] eqn:Hi; [|done]. exfalso.
          pose proof (parent_lookup inst d Pg SCg Hin Hout Hfresh _ _ Hi) as HP.
          rewrite (pin_to_node_pin inst d m Hp) in HP. congruence.
        * destruct (decide (m ∈ bb_out d)), (decide (m ∈ bb_in d)); simpl in Hk; simplify_eq; done.
    - destruct (rename ρ Pg !! k) as [j'|] eqn:EP; [|simpl in Hk; repeat case_decide; done].
      right. apply lookup_rename_on_Some in EP as (n & i & -> & Hn & ->); [|exact rinj].
      assert (Hnp : ∀ p, p ∈ pins → n ≠ Api.pin inst p).
      { intros p Hp ->. rewrite (pin_to_node_pin inst d p Hp) in ES.
        destruct (pins_dom d SCg Hin Hout p Hp) as [i' Hi']. rewrite child_lookup, Hi' in ES. done. }
      rewrite (rho_nonpin n Hnp) in *.
      assert (Hno : ∀ X : gset string, X ⊆ dom SCg → n ∉ (set_map (pre inst) X : gset string)).
      { intros X HX (m & -> & HmX)%elem_of_map. apply (Hfresh m); [by apply HX|]. apply elem_of_dom; eauto. }
      rewrite decide_False in Hk.
      2:{ apply Hno. rewrite <- Hout. intros m (i' & ? & _)%elem_of_outputs. apply elem_of_dom; eauto. }
      rewrite decide_False in Hk.
      2:{ apply Hno. rewrite <- Hin. intros m (i' & ? & _)%elem_of_inputs. apply elem_of_dom; eauto. }
      simpl in Hk. simplify_eq. exists i. done.
  Qed.

  (* a child node that is not an input keeps its type *)
  Lemma fl_child_ty m i' : SCg !! m = Some i' → m ∉ bb_in d → ty g3 (pre inst m) = Some (n_ty i').
  Proof.
    intros Hm Hni. unfold ty. rewrite (fill_graph_lookup inst d Pg SCg Hin Hout Hfresh).
    rewrite !decide_set_map_pre, child_lookup, Hm. rewrite (decide_False _ _ Hni).
    destruct (rename ρ Pg !! pre inst m); destruct (decide (m ∈ bb_out d)); done.
  Qed.

  (* membership in a relabelled fan-in *)
  Lemma rho_mem n x i : n ∈ dom Pg → ρ n = n → Pg !! x = Some i → n ∈ (set_map ρ (n_fi i) : gset string) → n ∈ n_fi i.
  Proof.
    intros Hn Hρ Hx (f & Hf & Hfi)%elem_of_map. rewrite <- Hρ in Hf. apply rinj in Hf; [by subst|done|]. by eapply HclP.
  Qed.
  Lemma rho_pre_mem m x i : m ∈ dom SCg → Pg !! x = Some i → pre inst m ∈ (set_map ρ (n_fi i) : gset string) →
    m ∈ pins ∧ Api.pin inst m ∈ n_fi i.
  Proof.
    intros Hm Hx (f & Hf & Hfi)%elem_of_map.
    destruct (pin_to_node_cases inst d f) as [(p & Hp & -> & Hρ)|[_ Hρ]]; rewrite Hρ in Hf.
    - apply (inj (pre inst)) in Hf as ->. done.
    - subst f. exfalso. apply (Hfresh m Hm). by eapply HclP.
  Qed.
End fill_lint.

Lemma in_nf_input : Input ∈ doc_no_fanin. Proof. unfold doc_no_fanin. set_solver. Qed.
Lemma in_nf_bbout : BbOut ∈ doc_no_fanin. Proof. unfold doc_no_fanin. set_solver. Qed.
Lemma in_sm_bbin : BbIn ∈ (doc_single ++ doc_multi)%list. Proof. unfold doc_single, doc_multi. set_solver. Qed.
Lemma in_s_bbin : BbIn ∈ doc_single. Proof. unfold doc_single. set_solver. Qed.
Lemma in_sup_buf : Buf ∈ doc_supported. Proof. unfold doc_supported. set_solver. Qed.
Lemma buf_not_nf : Buf ∉ doc_no_fanin. Proof. unfold doc_no_fanin. set_solver. Qed.

Theorem fill_blackbox_lint_clean P inst SC P' d :
  c_bbs P !! inst = Some d → fill_blackbox P inst SC = (P', Done) →
  lint_clean P → lint_clean SC → closed (c_g P) → closed (c_g SC) →
  has_dot inst = false → bb_in d ## bb_out d →
  (* added 1: pin names are dot-free (else a pin of another instance "inst.b" can coincide with a pin "b.p" of inst) *)
  (∀ p, p ∈ bb_in d ∪ bb_out d → has_dot p = false) →
  (* added 2: the only parent nodes named inst.x are the pins of d (the instance leaves the registry) *)
  (∀ n, n ∈ dom (c_g P) → has_dot n = true → before_dot n = inst → ∃ p, p ∈ bb_in d ∪ bb_out d ∧ n = Lint.pin inst p) →
  lint_clean P'.
Proof.
  intros Hd Hf HlP HlSC HclP HclSC Hnd Hdisj Hpd Hextra.
  pose proof (fill_blackbox_out_not_pin P inst SC P' d Hd Hf) as Hnobb.
  destruct (fill_blackbox_inv P inst SC P' d Hd Hf) as (Hbb & Hin & Hout & Hfresh & _ & Hbbs & Hg).
  change (c_g P' = fill_graph inst d (c_g P) (c_g SC)) in Hg.
  apply lint_clean_char in HlP as (HrP & HdP & HbP). apply lint_clean_char in HlSC as (HrSC & HdSC & HbSC).
  set (ρ := pin_to_node inst d). set (g3 := fill_graph inst d (c_g P) (c_g SC)) in *.
  assert (HpinI : ∀ p, p ∈ bb_in d → ∃ i, c_g P !! Api.pin inst p = Some i ∧ n_ty i = BbIn).
  { intros p Hp. destruct (HbP inst d Hd) as [H _]. specialize (H p Hp). rewrite pin_eq in H. unfold ty in H.
    destruct (c_g P !! Api.pin inst p) as [i|]; simplify_eq/=. eauto. }
  assert (HpinO : ∀ p, p ∈ bb_out d → ∃ i, c_g P !! Api.pin inst p = Some i ∧ n_ty i = BbOut).
  { intros p Hp. destruct (HbP inst d Hd) as [_ H]. specialize (H p Hp). rewrite pin_eq in H. unfold ty in H.
    destruct (c_g P !! Api.pin inst p) as [i|]; simplify_eq/=. eauto. }
  assert (FinSC : ∀ m i', c_g SC !! m = Some i' → m ∈ bb_in d ↔ n_ty i' = Input).
  { intros m i' Hm. rewrite <- Hin, elem_of_inputs. split; [intros (? & ? & ?); by simplify_eq|eauto]. }
  (* the nodes of the filled graph *)
  assert (Hnode : ∀ k j, g3 !! k = Some j →
     (∃ i, c_g P !! k = Some i ∧ (∀ p, p ∈ bb_in d ∪ bb_out d → k ≠ Api.pin inst p) ∧ n_ty j = n_ty i ∧ n_fi j = set_map ρ (n_fi i)) ∨
     (∃ p i i', k = pre inst p ∧ p ∈ bb_in d ∧ c_g P !! Api.pin inst p = Some i ∧ c_g SC !! p = Some i' ∧ n_ty i = BbIn ∧
                n_ty j = Buf ∧ n_fi j = set_map ρ (n_fi i)) ∨
     (∃ m i', k = pre inst m ∧ c_g SC !! m = Some i' ∧ m ∉ bb_in d ∧ n_ty i' ≠ Input ∧ n_ty j = n_ty i' ∧
              n_fi j = set_map (pre inst) (n_fi i'))).
  { intros k j Hk. destruct (fl_cases inst d (c_g P) (c_g SC) Hin Hout Hfresh k j Hk)
      as [(m & i' & -> & Hm & Hty & Hfi)|(i & Hi & Hnp & Hty & Hfi)]; [|left; eauto].
    right. destruct (decide (m ∈ bb_in d)) as [Hmi|Hmi].
    - left. destruct (HpinI m Hmi) as (i & Hi & Hti).
      assert (n_fi i' = ∅) as He.
      { destruct (HrSC m i' Hm) as (_ & _ & H3 & _). apply H3. rewrite (proj1 (FinSC m i' Hm) Hmi). apply in_nf_input. }
      destruct Hfi as [(_ & i0 & Hi0 & Hfi)|([Hnp|Hnone] & _)].
      + rewrite Hi in Hi0. injection Hi0 as <-. exists m, i, i'. split_and!; try done.
        rewrite Hfi, He, set_map_empty. by rewrite (right_id_L ∅ (∪)).
      + exfalso. apply Hnp. by apply elem_of_union_l.
      + congruence.
    - right. exists m, i'. split_and!; try done.
      { intros Ht. apply Hmi. by apply (FinSC m i' Hm). }
      destruct Hfi as [([Hmp|Hmp]%elem_of_union & i0 & Hi0 & Hfi)|(_ & Hfi)]; [done| |done].
      destruct (HpinO m Hmp) as (i & Hi & Hti). rewrite Hi in Hi0. injection Hi0 as <-.
      assert (n_fi i = ∅) as He.
      { destruct (HrP _ i Hi) as (_ & _ & H3 & _). apply H3. rewrite Hti. apply in_nf_bbout. }
      rewrite Hfi, He, set_map_empty. by rewrite (left_id_L ∅ (∪)). }
  assert (Hty3 : ∀ k j, g3 !! k = Some j → ty g3 k = Some (n_ty j)).
  { intros k j Hk. unfold ty. by rewrite Hk. }
  apply lint_clean_char. rewrite Hg, Hbbs. fold g3. split_and!.
  - (* node rules *)
    rewrite dom_union_L, dom_kmap_L, dom_delete_L by apply _.
    assert (HfoA : ∀ k i, c_g P !! k = Some i → (∀ p, p ∈ bb_in d ∪ bb_out d → k ≠ Api.pin inst p) → n_ty i = BbOut →
              ∀ m', m' ∈ fanout g3 k → m' ∈ fanout (c_g P) k ∧ ty g3 m' = Some Buf).
    { intros k i Hi Hnp Hti m' (j' & Hj' & Hin')%elem_of_fanout.
      destruct (HrP k i Hi) as (_ & _ & _ & H4 & _). destruct (H4 Hti) as [_ Hbuf].
      assert (Hkd : k ∈ dom (c_g P)) by (apply elem_of_dom; eauto).
      pose proof (rho_nonpin inst d k Hnp) as Hρk.
      rewrite (Hty3 m' j' Hj').
      destruct (Hnode m' j' Hj') as [(i2 & Hi2 & Hnp2 & Hty2 & Hfi2)|[(p & i2 & i2' & -> & Hp & Hi2 & Hi2' & Hti2 & Hty2 & Hfi2)|(m & i2' & -> & Hm & Hmi & Hnt & Hty2 & Hfi2)]];
        rewrite Hfi2 in Hin'.
      - apply (rho_mem inst d (c_g P) (c_g SC) Hin Hout Hfresh HclP k m' i2 Hkd Hρk Hi2) in Hin'.
        assert (m' ∈ fanout (c_g P) k) as Hfo by (apply elem_of_fanout; eauto).
        split; [done|]. specialize (Hbuf m' Hfo). unfold ty in Hbuf. rewrite Hi2 in Hbuf. simpl in Hbuf. congruence.
      - exfalso. apply (rho_mem inst d (c_g P) (c_g SC) Hin Hout Hfresh HclP k _ i2 Hkd Hρk Hi2) in Hin'.
        assert (Api.pin inst p ∈ fanout (c_g P) k) as Hfo by (apply elem_of_fanout; eauto).
        specialize (Hbuf _ Hfo). unfold ty in Hbuf. rewrite Hi2 in Hbuf. simpl in Hbuf. congruence.
      - exfalso. apply elem_of_map in Hin' as (f & -> & Hff). apply (Hfresh f); [by eapply HclSC|done]. }
    assert (HfoC : ∀ m i', c_g SC !! m = Some i' → n_ty i' = BbOut →
              ∀ m', m' ∈ fanout g3 (pre inst m) → m' ∈ (set_map (pre inst) (fanout (c_g SC) m) : gset string) ∧ ty g3 m' = Some Buf).
    { intros m i' Hm Hti m' (j' & Hj' & Hin')%elem_of_fanout.
      destruct (HrSC m i' Hm) as (_ & _ & _ & H4 & _). destruct (H4 Hti) as [_ Hbuf].
      assert (Hmd : m ∈ dom (c_g SC)) by (apply elem_of_dom; eauto).
      assert (Hmp : m ∉ bb_in d ∪ bb_out d).
      { intros [Hmi|Hmo]%elem_of_union.
        - apply (FinSC m i' Hm) in Hmi. congruence.
        - specialize (Hnobb m Hmo). unfold ty in Hnobb. rewrite Hm in Hnobb. simpl in Hnobb. rewrite Hti in Hnobb. vm_compute in Hnobb. done. }
      rewrite (Hty3 m' j' Hj').
      destruct (Hnode m' j' Hj') as [(i2 & Hi2 & Hnp2 & Hty2 & Hfi2)|[(p & i2 & i2' & -> & Hp & Hi2 & Hi2' & Hti2 & Hty2 & Hfi2)|(m2 & i2' & -> & Hm2 & Hmi & Hnt & Hty2 & Hfi2)]];
        rewrite Hfi2 in Hin'.
      - exfalso. apply Hmp. by apply (rho_pre_mem inst d (c_g P) (c_g SC) Hfresh HclP m m' i2 Hmd Hi2) in Hin' as [? _].
      - exfalso. apply Hmp. by apply (rho_pre_mem inst d (c_g P) (c_g SC) Hfresh HclP m _ i2 Hmd Hi2) in Hin' as [? _].
      - apply elem_of_set_map_inj in Hin'; [|apply _].
        assert (m2 ∈ fanout (c_g SC) m) as Hfo by (apply elem_of_fanout; eauto).
        split; [apply elem_of_map; eauto|]. specialize (Hbuf _ Hfo). unfold ty in Hbuf. rewrite Hm2 in Hbuf. simpl in Hbuf. congruence. }
    intros k j Hk. unfold node_ok0.
    destruct (Hnode k j Hk) as [(i & Hi & Hnp & Hty & Hfi)|[(p & i & i' & -> & Hp & Hi & Hi' & Hti & Hty & Hfi)|(m & i' & -> & Hm & Hmi & Hnt & Hty & Hfi)]];
      rewrite Hty, Hfi.
    + destruct (HrP k i Hi) as (H1 & H2 & H3 & H4 & H5). split_and!.
      * done.
      * intros Hdk. apply elem_of_union_r. apply elem_of_difference. split; [by apply H2|]. intros Heq%elem_of_singleton.
        destruct (Hextra k (elem_of_dom_2 _ _ _ Hi) Hdk Heq) as (p & Hp & ->). by apply (Hnp p Hp).
      * intros Ht. rewrite (H3 Ht). apply set_map_empty.
      * intros Ht. destruct (H4 Ht) as [Hs Hb]. split.
        -- etrans; [|exact Hs]. apply subseteq_size. intros m' Hm'. by apply (HfoA k i Hi Hnp Ht m' Hm').
        -- intros m' Hm'. by apply (HfoA k i Hi Hnp Ht m' Hm').
      * intros Ht. apply size_set_map_le1. by apply H5.
    + destruct (HrP _ i Hi) as (_ & _ & _ & _ & H5). destruct (HrSC p i' Hi') as (_ & H2 & _). split_and!.
      * apply in_sup_buf.
      * rewrite has_dot_pre, before_dot_pre by done. intros Hdk. apply elem_of_union_l. apply elem_of_set_map_inj; [apply _|]. by apply H2.
      * intros Ht. by apply buf_not_nf in Ht.
      * intros Ht. discriminate.
      * intros _. apply size_set_map_le1. apply H5. rewrite Hti. apply in_s_bbin.
    + destruct (HrSC m i' Hm) as (H1 & H2 & H3 & H4 & H5). split_and!.
      * done.
      * rewrite has_dot_pre, before_dot_pre by done. intros Hdk. apply elem_of_union_l. apply elem_of_set_map_inj; [apply _|]. by apply H2.
      * intros Ht. rewrite (H3 Ht). apply set_map_empty.
      * intros Ht. destruct (H4 Ht) as [Hs Hb]. split.
        -- etrans; [apply subseteq_size|].
           { intros m' Hm'. by apply (HfoC m i' Hm Ht m' Hm'). }
           by rewrite size_set_map_inj by apply _.
        -- intros m' Hm'. by apply (HfoC m i' Hm Ht m' Hm').
      * intros Ht. apply size_set_map_le1. by apply H5.
  - (* driven *)
    intros k j Hk Ht He.
    destruct (Hnode k j Hk) as [(i & Hi & Hnp & Hty & Hfi)|[(p & i & i' & -> & Hp & Hi & Hi' & Hti & Hty & Hfi)|(m & i' & -> & Hm & Hmi & Hnt & Hty & Hfi)]];
      rewrite Hfi in He; apply set_map_empty_iff' in He.
    + apply (HdP k i Hi); [by rewrite <- Hty|done].
    + apply (HdP _ i Hi); [rewrite Hti; apply in_sm_bbin|done].
    + apply (HdSC m i' Hm); [by rewrite <- Hty|done].
  - (* registry *)
    assert (HtyC : ∀ m t, ty (c_g SC) m = Some t → t ≠ Input → ty g3 (pre inst m) = Some t).
    { intros m t Ht Hne. unfold ty in Ht. destruct (c_g SC !! m) as [i'|] eqn:Hi'; simplify_eq/=.
      apply (fl_child_ty inst d (c_g P) (c_g SC) Hin Hout Hfresh m i' Hi'). intros Hmi. by apply (FinSC m i' Hi') in Hmi. }
    intros inst0 d0 Hd0. apply lookup_union_Some_raw in Hd0 as [Hd0|[_ Hd0]].
    + apply lookup_kmap_Some in Hd0 as (b & -> & Hb); [|apply _]. destruct (HbSC b d0 Hb) as [HI HO].
      split; intros p Hp; rewrite pin_pre; apply HtyC; auto.
    + apply lookup_delete_Some in Hd0 as [Hne Hd0]. destruct (HbP inst0 d0 Hd0) as [HI HO].
      assert (HtyA : ∀ p t, ty (c_g P) (Api.pin inst0 p) = Some t → ty g3 (Api.pin inst0 p) = Some t).
      { intros p t Ht. unfold ty in *. destruct (c_g P !! Api.pin inst0 p) as [i|] eqn:Hi; simplify_eq/=.
        rewrite (fill_lookup_parent inst d (c_g P) (c_g SC) Hin Hout Hfresh _ i Hi); [done|].
        intros q Hq Heq. apply Hne. symmetry. exact (pin_other inst inst0 p q Hnd (Hpd q Hq) Heq). }
      split; intros p Hp; rewrite pin_eq; apply HtyA; [apply (HI p Hp)|apply (HO p Hp)].
Qed.
