(* Specification of Api.add_subcircuit (= add_subcircuit_gen true): structure and semantics of the
   spliced parent.  Everything here is proved; no axioms. *)
From stdpp Require Import strings gmap sets fin_sets.
From CG Require Import Base.Compose Base.Oracle Model.Compose6.
Open Scope string_scope.

(* ---------- small list helpers ---------- *)
Lemma existsb_false {A} (f : A → bool) (l : list A) :
  existsb f l = false → ∀ x, x ∈ l → f x = false.
Proof.
  induction l as [|a l IH]; simpl; intros H x Hx.
  - by apply elem_of_nil in Hx.
  - apply orb_false_elim in H as [Ha Hl]. apply elem_of_cons in Hx as [->|Hx]; auto.
Qed.

Lemma pairs_singleton_l (y : string) (vs : list string) : pairs [y] vs = (λ x, (y, x)) <$> vs.
Proof.
  unfold pairs. simpl. rewrite app_nil_r.
  induction vs as [|x vs IH]; simpl; [done|]. by f_equal.
Qed.

(* ---------- 1. rename_g is rename ---------- *)
Lemma rename_g_eq ρ c : rename_g ρ c = rename ρ c.
Proof. reflexivity. Qed.

Lemma lookup_rename ρ `{!Inj (=) (=) ρ} (c : circuit) n : rename ρ c !! ρ n = ren_info ρ <$> c !! n.
Proof. unfold rename. rewrite lookup_kmap by apply _. by rewrite lookup_fmap. Qed.
Lemma lookup_rename_Some ρ `{!Inj (=) (=) ρ} (c : circuit) k j :
  rename ρ c !! k = Some j ↔ ∃ n i, k = ρ n ∧ c !! n = Some i ∧ j = ren_info ρ i.
Proof.
  unfold rename. rewrite lookup_kmap_Some by apply _. split.
  - intros (n & -> & Hn). rewrite lookup_fmap in Hn.
    destruct (c !! n) as [i|] eqn:Hc; simplify_eq/=. eauto.
  - intros (n & i & -> & Hn & ->). exists n. split; [done|]. by rewrite lookup_fmap, Hn.
Qed.
Lemma dom_rename ρ `{!Inj (=) (=) ρ} (c : circuit) : dom (rename ρ c) = set_map ρ (dom c).
Proof.
  apply set_eq. intros k. rewrite elem_of_dom, elem_of_map. split.
  - intros [j Hj]. apply lookup_rename_Some in Hj as (n & i & -> & Hn & _); [|done].
    exists n. split; [done|]. by apply elem_of_dom.
  - intros (n & -> & [i Hi]%elem_of_dom). exists (ren_info ρ i). rewrite lookup_rename by done. by rewrite Hi.
Qed.

(* ---------- 2. graph.update on disjoint graphs ---------- *)
Lemma update_g_disjoint c g : dom c ## dom g → update_g c g = c ∪ g.
Proof.
  intros Hd. apply map_eq. intros k. unfold update_g.
  rewrite lookup_union_with, lookup_union.
  destruct (c !! k) as [i|] eqn:Hc, (g !! k) as [j|] eqn:Hg; simpl; try done.
  exfalso. apply (Hd k); apply elem_of_dom; eauto.
Qed.

(* ---------- 3. folds of alter over a set ---------- *)
Lemma set_fold_alter_lookup (f : ninfo → ninfo) (ρ : string → string) `{!Inj (=) (=) ρ}
    (S : gset string) (g : circuit) k :
  set_fold (λ n g, alter f (ρ n) g) g S !! k =
    if decide (k ∈ (set_map ρ S : gset string)) then f <$> g !! k else g !! k.
Proof.
  revert k.
  set (P := λ (r : circuit) (X : gset string),
    ∀ k, r !! k = if decide (k ∈ (set_map ρ X : gset string)) then f <$> g !! k else g !! k).
  change (P (set_fold (λ n g, alter f (ρ n) g) g S) S).
  apply (set_fold_ind_L P); unfold P; clear P.
  - intros k. rewrite set_map_empty. by rewrite decide_False by set_solver.
  - intros x X r Hx IH k.
    assert (Hnot : ρ x ∉ (set_map ρ X : gset string)).
    { intros (y & Hy & Hin)%elem_of_map. apply (inj ρ) in Hy. by subst. }
    destruct (decide (k = ρ x)) as [->|Hne].
    + rewrite lookup_alter, IH. rewrite (decide_False _ _ Hnot).
      rewrite decide_True; [done|]. apply elem_of_map. exists x. set_solver.
    + rewrite lookup_alter_ne by done. rewrite IH.
      destruct (decide (k ∈ (set_map ρ X : gset string))) as [Hin|Hin].
      * rewrite decide_True; [done|]. rewrite set_map_union_L. set_solver.
      * rewrite decide_False; [done|]. rewrite set_map_union_L, set_map_singleton_L. set_solver.
Qed.

(* ---------- 8. the blackbox registry ---------- *)
Lemma registry_fold (name : string) (B0 B : gmap string bbdef) :
  map_fold (λ b d acc, <[pre name b := d]> acc) B0 B = kmap (pre name) B ∪ B0.
Proof.
  apply (map_fold_ind (λ (r : gmap string bbdef) (m : gmap string bbdef), r = kmap (pre name) m ∪ B0)).
  - by rewrite kmap_empty, (left_id_L ∅ (∪)).
  - intros i x m r Hi ->. rewrite kmap_insert by apply _. by rewrite insert_union_l.
Qed.

(* ---------- 4. the spliced graph before the connections ---------- *)
Lemma elem_of_set_map_inj (ρ : string → string) `{!Inj (=) (=) ρ} (X : gset string) n :
  ρ n ∈ (set_map ρ X : gset string) ↔ n ∈ X.
Proof.
  rewrite elem_of_map. split; [|by eauto].
  intros (y & Hy & Hin). apply (inj ρ) in Hy. by subst.
Qed.

Lemma spliced_graph P SC name :
  (∀ n, n ∈ dom (c_g SC) → pre name n ∉ dom (c_g P)) →
  let g0 := update_g (c_g P) (rename_g (pre name) (c_g SC)) in
  let g1 := set_fold (λ n g, alter (retype Buf) (pre name n) g) g0 (inputs (c_g SC)) in
  set_fold (λ n g, alter unmark (pre name n) g) g1 (outputs (c_g SC))
  = c_g P ∪ rename (pre name) (strip_io (c_g SC)).
Proof.
  intros Hfresh g0 g1.
  assert (Hg0 : g0 = c_g P ∪ rename (pre name) (c_g SC)).
  { unfold g0. rewrite rename_g_eq. apply update_g_disjoint.
    rewrite dom_rename by apply _. intros k Hk (n & -> & Hn)%elem_of_map. by apply (Hfresh n). }
  apply map_eq. intros k.
  rewrite set_fold_alter_lookup by apply _. unfold g1.
  rewrite set_fold_alter_lookup by apply _. rewrite Hg0. clear g0 g1 Hg0.
  destruct (c_g P !! k) as [i|] eqn:HP.
  - (* a parent node: not a renamed child name *)
    assert (Hk : ∀ X : gset string, X ⊆ dom (c_g SC) → k ∉ (set_map (pre name) X : gset string)).
    { intros X HX (n & -> & Hn)%elem_of_map. apply (Hfresh n); [by apply HX|]. apply elem_of_dom. eauto. }
    assert (Hin : inputs (c_g SC) ⊆ dom (c_g SC)).
    { intros n (j & Hj & _)%elem_of_inputs. apply elem_of_dom. eauto. }
    assert (Hout : outputs (c_g SC) ⊆ dom (c_g SC)).
    { intros n (j & Hj & _)%elem_of_outputs. apply elem_of_dom. eauto. }
    rewrite (decide_False _ _ (Hk _ Hout)), (decide_False _ _ (Hk _ Hin)).
    rewrite (lookup_union_Some_l _ _ _ _ HP). symmetry. by apply lookup_union_Some_l.
  - rewrite !lookup_union_r by done.
    destruct (rename (pre name) (c_g SC) !! k) as [j|] eqn:Hr.
    + apply lookup_rename_Some in Hr as (n & i & -> & Hn & ->); [|apply _].
      rewrite lookup_rename by apply _. unfold strip_io. rewrite lookup_fmap, Hn. simpl.
      destruct i as [t o fi].
      destruct (decide (pre name n ∈ (set_map (pre name) (outputs (c_g SC)) : gset string))) as [Ho|Ho];
      destruct (decide (pre name n ∈ (set_map (pre name) (inputs (c_g SC)) : gset string))) as [Hi|Hi];
        rewrite elem_of_set_map_inj in Ho, Hi by apply _; simpl; f_equal;
        unfold ren_info, strip_info, retype, unmark, set_out; simpl.
      * apply elem_of_inputs in Hi as (i' & Hi' & Hty). rewrite Hn in Hi'. simplify_eq/=. done.
      * assert (t ≠ Input). { intros ->. apply Hi, elem_of_inputs. eauto. }
        by rewrite bool_decide_eq_false_2.
      * apply elem_of_inputs in Hi as (i' & Hi' & Hty). rewrite Hn in Hi'. simplify_eq/=.
        destruct o; [|done]. exfalso. apply Ho, elem_of_outputs. eauto.
      * assert (t ≠ Input). { intros ->. apply Hi, elem_of_inputs. eauto. }
        rewrite bool_decide_eq_false_2 by done.
        destruct o; [|done]. exfalso. apply Ho, elem_of_outputs. eauto.
    + (* not a name of the spliced copy at all *)
      assert (Hnone : rename (pre name) (strip_io (c_g SC)) !! k = None).
      { destruct (rename (pre name) (strip_io (c_g SC)) !! k) as [j|] eqn:Hs; [|done].
        apply lookup_rename_Some in Hs as (n & i & -> & Hn & _); [|apply _].
        rewrite lookup_rename in Hr by apply _. unfold strip_io in Hn. rewrite lookup_fmap in Hn.
        destruct (c_g SC !! n); simplify_eq/=. }
      rewrite Hnone. by repeat case_decide.
Qed.

(* ---------- 5. driving a (nearly) free buffer ---------- *)
Lemma gate_val_buf_singleton t (v : val) u : t = Buf ∨ t = BbIn → gate_val t v {[u]} = v u.
Proof.
  intros Ht. unfold gate_val. rewrite elements_singleton. simpl.
  destruct Ht as [-> | ->]; simpl; by destruct (v u).
Qed.

Lemma node_ok_driven (v : val) x j u :
  (n_ty j = Buf ∨ n_ty j = BbIn) → n_fi j = {[u]} → node_ok v x j ↔ v x = v u.
Proof.
  intros Hty Hfi. unfold node_ok, is_free. rewrite Hfi.
  assert (bool_decide (({[u]} : gset string) = ∅) = false) as Hne.
  { apply bool_decide_eq_false. intros He.
    assert (u ∈ (∅ : gset string)) as Hu by (rewrite <- He; set_solver). set_solver. }
  destruct Hty as [-> | ->]; rewrite Hne, gate_val_buf_singleton by auto; done.
Qed.

Lemma drive_node c u x i v :
  c !! x = Some i → (n_ty i = Buf ∨ n_ty i = BbIn) → n_fi i ⊆ {[u]} →
  consistent (add_edge c u x) v ↔ consistent c v ∧ v x = v u.
Proof.
  intros Hx Hty Hfi. unfold add_edge.
  set (i' := upd_fi (λ s, {[u]} ∪ s) i).
  assert (Hok' : node_ok v x i' ↔ v x = v u).
  { apply node_ok_driven; [done|]. unfold i', upd_fi. simpl. apply set_eq. intros z. set_solver. }
  assert (Hok : v x = v u → node_ok v x i).
  { intros Hv. destruct (decide (n_fi i = ∅)) as [He|He].
    - unfold node_ok, is_free. destruct Hty as [-> | ->]; rewrite bool_decide_eq_true_2 by done; done.
    - apply (node_ok_driven v x i u); [done| |done].
      apply set_eq. intros z. split; [by apply Hfi|]. intros ->%elem_of_singleton.
      destruct (decide (u ∈ n_fi i)) as [|Hn]; [done|]. exfalso. apply He.
      apply set_eq. intros z. split; [|set_solver]. intros Hz.
      pose proof (Hfi z Hz) as ->%elem_of_singleton. done. }
  unfold consistent. split.
  - intros H. assert (v x = v u) as Hv.
    { apply Hok'. apply H. by rewrite lookup_alter, Hx. }
    split; [|done]. intros n j Hn. destruct (decide (n = x)) as [->|Hne].
    + rewrite Hx in Hn. simplify_eq. by apply Hok.
    + apply H. by rewrite lookup_alter_ne.
  - intros [H Hv] n j Hn. destruct (decide (n = x)) as [->|Hne].
    + rewrite lookup_alter, Hx in Hn. simpl in Hn. simplify_eq. by apply Hok'.
    + rewrite lookup_alter_ne in Hn by done. by apply H.
Qed.

(* ---------- 6. connections keep types, output marks and the domain ---------- *)
Definition shape (i : ninfo) : gtype * bool := (n_ty i, n_out i).
Definition same_shape (c c' : circuit) : Prop := ∀ n, shape <$> c !! n = shape <$> c' !! n.

Lemma same_shape_refl c : same_shape c c. Proof. done. Qed.
Lemma same_shape_trans c1 c2 c3 : same_shape c1 c2 → same_shape c2 c3 → same_shape c1 c3.
Proof. intros H1 H2 n. by rewrite H1. Qed.
Lemma same_shape_sym c1 c2 : same_shape c1 c2 → same_shape c2 c1.
Proof. intros H n. by rewrite H. Qed.

Lemma same_shape_lookup c c' n i : same_shape c c' → c !! n = Some i →
  ∃ i', c' !! n = Some i' ∧ n_ty i' = n_ty i ∧ n_out i' = n_out i.
Proof.
  intros H Hn. specialize (H n). rewrite Hn in H. simpl in H.
  destruct (c' !! n) as [i'|]; simpl in *; [|done]. unfold shape in H.
  exists i'. repeat split; congruence.
Qed.
Lemma same_shape_ty c c' n : same_shape c c' → ty c n = ty c' n.
Proof.
  intros H. unfold ty. specialize (H n).
  destruct (c !! n) as [i|], (c' !! n) as [i'|]; simpl in *; try done.
  unfold shape in H. congruence.
Qed.
Lemma same_shape_dom c c' : same_shape c c' → dom c = dom c'.
Proof.
  intros H. apply set_eq. intros n. rewrite !elem_of_dom. specialize (H n).
  destruct (c !! n), (c' !! n); simplify_eq/=; split; intros [? ?]; eauto; done.
Qed.
Lemma same_shape_inputs c c' : same_shape c c' → inputs c = inputs c'.
Proof.
  intros H. apply set_eq. intros n. rewrite !elem_of_inputs. split.
  - intros (i & Hi & Ht). destruct (same_shape_lookup _ _ _ _ H Hi) as (i' & ? & ? & ?). exists i'. split; congruence.
  - intros (i & Hi & Ht). destruct (same_shape_lookup _ _ _ _ (same_shape_sym _ _ H) Hi) as (i' & ? & ? & ?).
    exists i'. split; congruence.
Qed.
Lemma same_shape_outputs c c' : same_shape c c' → outputs c = outputs c'.
Proof.
  intros H. apply set_eq. intros n. rewrite !elem_of_outputs. split.
  - intros (i & Hi & Ht). destruct (same_shape_lookup _ _ _ _ H Hi) as (i' & ? & ? & ?). exists i'. split; congruence.
  - intros (i & Hi & Ht). destruct (same_shape_lookup _ _ _ _ (same_shape_sym _ _ H) Hi) as (i' & ? & ? & ?).
    exists i'. split; congruence.
Qed.

Lemma add_edge_shape c u x : same_shape (add_edge c u x) c.
Proof.
  intros n. unfold add_edge. destruct (decide (n = x)) as [->|Hne].
  - rewrite lookup_alter. by destruct (c !! x).
  - by rewrite lookup_alter_ne.
Qed.
Lemma add_edges_shape l c : same_shape (foldl (λ c' (p : string * string), add_edge c' p.1 p.2) c l) c.
Proof.
  revert c. induction l as [|p l IH]; intros c; simpl; [done|].
  eapply same_shape_trans; [apply IH|apply add_edge_shape].
Qed.
Lemma connect_g_shape c us vs : same_shape (connect_g c us vs).1 c.
Proof.
  unfold connect_g. repeat case_match; simpl; try done. apply add_edges_shape.
Qed.
Lemma connect_g_inputs c us vs : inputs (connect_g c us vs).1 = inputs c.
Proof. apply same_shape_inputs, connect_g_shape. Qed.
Lemma connect_g_outputs c us vs : outputs (connect_g c us vs).1 = outputs c.
Proof. apply same_shape_outputs, connect_g_shape. Qed.
Lemma connect_g_dom c us vs : dom (connect_g c us vs).1 = dom c.
Proof. apply same_shape_dom, connect_g_shape. Qed.

(* the connection fold of add_subcircuit_gen *)
Definition conn_step (SC : Circuit) (name : string) (st : circuit * outcome) (kv : string * list string)
  : circuit * outcome :=
  match st with
  | (g, Done) => if bool_decide (kv.1 ∈ inputs (c_g SC)) then connect_g g kv.2 [pre name kv.1]
                 else connect_g g [pre name kv.1] kv.2
  | _ => st end.

Lemma conn_step_shape SC name st kv : same_shape (conn_step SC name st kv).1 st.1.
Proof.
  destruct st as [g [|e]]; simpl; [|done]. case_bool_decide; apply connect_g_shape.
Qed.
Lemma conn_fold_shape SC name conns st : same_shape (foldl (conn_step SC name) st conns).1 st.1.
Proof.
  revert st. induction conns as [|kv conns IH]; intros st; simpl; [done|].
  eapply same_shape_trans; [apply IH|apply conn_step_shape].
Qed.
Lemma conn_fold_inputs SC name conns st : inputs (foldl (conn_step SC name) st conns).1 = inputs st.1.
Proof. apply same_shape_inputs, conn_fold_shape. Qed.
Lemma conn_fold_outputs SC name conns st : outputs (foldl (conn_step SC name) st conns).1 = outputs st.1.
Proof. apply same_shape_outputs, conn_fold_shape. Qed.
Lemma conn_fold_dom SC name conns st : dom (foldl (conn_step SC name) st conns).1 = dom st.1.
Proof. apply same_shape_dom, conn_fold_shape. Qed.
Lemma conn_fold_fail SC name conns g e : foldl (conn_step SC name) (g, Fail e) conns = (g, Fail e).
Proof. induction conns as [|kv conns IH]; simpl; done. Qed.

(* ---------- 7. semantics of the connections ---------- *)
(* one source, many (nearly) free targets; duplicates in vs are harmless *)
Lemma add_edges_sem y vs : ∀ c,
  (∀ x, x ∈ vs → ∃ i, c !! x = Some i ∧ (n_ty i = Buf ∨ n_ty i = BbIn) ∧ n_fi i ⊆ {[y]}) →
  ∀ v, consistent (foldl (λ c' (p : string * string), add_edge c' p.1 p.2) c ((λ x, (y, x)) <$> vs)) v
       ↔ consistent c v ∧ ∀ x, x ∈ vs → v x = v y.
Proof.
  induction vs as [|x vs IH]; intros c Hfree v; simpl.
  - split; [|tauto]. intros H. split; [done|]. intros x Hx. by apply elem_of_nil in Hx.
  - destruct (Hfree x) as (i & Hx & Hty & Hfi); [by left|].
    rewrite IH.
    + rewrite (drive_node c y x i v Hx Hty Hfi). split.
      * intros [[Hc Hv] Hall]. split; [done|]. intros z [->|Hz]%elem_of_cons; auto.
      * intros [Hc Hall]. split; [split; [done|]|].
        -- apply Hall. by left.
        -- intros z Hz. apply Hall. by right.
    + intros z Hz. destruct (Hfree z) as (j & Hj & Htj & Hfj); [by right|].
      unfold add_edge. destruct (decide (z = x)) as [->|Hne].
      * rewrite lookup_alter, Hx. simpl. eexists. split; [done|]. unfold upd_fi; simpl.
        split; [done|]. clear -Hfi. set_solver.
      * rewrite lookup_alter_ne by done. eauto.
Qed.

Lemma fanin_empty c x i : c !! x = Some i → size (fanin c x) = 0 → n_fi i = ∅.
Proof.
  intros Hx Hs. apply size_empty_inv in Hs. apply leibniz_equiv in Hs.
  unfold fanin in Hs. by rewrite Hx in Hs.
Qed.

(* the target check of connect: a Buf/BbIn target accepts at most one driver in total *)
Lemma connect_check_target c us vs x i :
  connect_check c us vs = true → x ∈ vs → c !! x = Some i → (n_ty i = Buf ∨ n_ty i = BbIn) →
  size (fanin c x) + length us ≤ 1.
Proof.
  unfold connect_check. intros [H1 _]%andb_true_iff Hx Hi Hty.
  apply negb_true_iff in H1. pose proof (existsb_false _ _ H1 x Hx) as H. simpl in H.
  apply orb_false_elim in H as [_ H].
  assert (is_in (ty c x) conn_single_fanin = true) as Hin.
  { unfold ty. rewrite Hi. simpl. destruct Hty as [-> | ->]; reflexivity. }
  rewrite Hin in H. simpl in H. apply Nat.ltb_ge in H. done.
Qed.

Lemma connect_out_sem c y vs c' :
  (∀ x, x ∈ vs → ∃ i, c !! x = Some i ∧ (n_ty i = Buf ∨ n_ty i = BbIn)) →
  connect_g c [y] vs = (c', Done) →
  ∀ v, consistent c' v ↔ consistent c v ∧ ∀ x, x ∈ vs → v x = v y.
Proof.
  intros Hty. unfold connect_g. rewrite pairs_singleton_l.
  rewrite (bool_decide_eq_false_2 ([y] = [])) by done. rewrite orb_false_l.
  case_bool_decide as Hvs.
  { intros [= <-] v. subst vs. split; [|tauto]. intros H. split; [done|].
    intros x Hx. by apply elem_of_nil in Hx. }
  destruct (negb (forallb _ _)); [done|].
  destruct (connect_check c [y] vs) eqn:Hck; simpl; [|done].
  intros [= <-] v. apply add_edges_sem.
  intros x Hx. destruct (Hty x Hx) as (i & Hi & Ht). exists i. split; [done|]. split; [done|].
  pose proof (connect_check_target c [y] vs x i Hck Hx Hi Ht) as Hle. simpl in Hle.
  rewrite (fanin_empty c x i Hi) by lia. set_solver.
Qed.

Lemma connect_in_sem c us x c' i :
  c !! x = Some i → (n_ty i = Buf ∨ n_ty i = BbIn) →
  connect_g c us [x] = (c', Done) →
  ∀ v, consistent c' v ↔ consistent c v ∧ ∀ u, u ∈ us → v x = v u.
Proof.
  intros Hi Hty Hc.
  destruct us as [|u us].
  { unfold connect_g in Hc. simpl in Hc. simplify_eq. intros v. split; [|tauto]. intros H. split; [done|].
    intros x' Hx'. by apply elem_of_nil in Hx'. }
  assert (us = []) as ->.
  { unfold connect_g in Hc.
    rewrite (bool_decide_eq_false_2 (u :: us = [])), (bool_decide_eq_false_2 ([x] = [])) in Hc by done.
    cbn [orb] in Hc. destruct (negb (forallb _ _)); [done|].
    destruct (connect_check c (u :: us) [x]) eqn:Hck; [|done].
    assert (x ∈ [x]) as Hx by (by left).
    pose proof (connect_check_target c (u :: us) [x] x i Hck Hx Hi Hty) as Hle. simpl in Hle.
    destruct us; [done|]. simpl in Hle. lia. }
  intros v. rewrite (connect_out_sem c u [x] c'); [|by intros z ->%elem_of_list_singleton; eauto|done].
  split; intros [Hcv H]; (split; [done|]).
  - intros z ->%elem_of_list_singleton. apply H. by left.
  - intros z ->%elem_of_list_singleton. apply H. by left.
Qed.

(* the whole connection fold *)
Lemma conn_fold_sem SC name g2 :
  (∀ io, io ∈ inputs (c_g SC) → ty g2 (pre name io) = Some Buf) →
  ∀ conns,
  (∀ kv net, kv ∈ conns → kv.1 ∉ inputs (c_g SC) → net ∈ kv.2 → ty g2 net = Some Buf ∨ ty g2 net = Some BbIn) →
  ∀ g g', same_shape g g2 →
  foldl (conn_step SC name) (g, Done) conns = (g', Done) →
  ∀ v, consistent g' v ↔ consistent g v ∧ Forall (conn_ok SC name v) conns.
Proof.
  intros Hin. induction conns as [|kv conns IH]; intros Hout g g' Hsh Hf v.
  { simpl in Hf. simplify_eq. split; [|tauto]. intros H. split; [done|]. constructor. }
  change (foldl (conn_step SC name) (conn_step SC name (g, Done) kv) conns = (g', Done)) in Hf.
  destruct (conn_step SC name (g, Done) kv) as [g1 o1] eqn:Hstep.
  destruct o1 as [|e]; [|by rewrite conn_fold_fail in Hf].
  assert (Hsh1 : same_shape g1 g2).
  { eapply same_shape_trans; [|exact Hsh]. pose proof (conn_step_shape SC name (g, Done) kv) as H.
    by rewrite Hstep in H. }
  rewrite (IH (λ kv' net Hkv, Hout kv' net (elem_of_list_further _ _ _ Hkv)) g1 g' Hsh1 Hf v).
  rewrite Forall_cons.
  assert (Hone : consistent g1 v ↔ consistent g v ∧ conn_ok SC name v kv); [|tauto].
  assert (Hty : ∀ n t, ty g2 n = Some t → ∃ i, g !! n = Some i ∧ n_ty i = t).
  { intros n t Ht. rewrite <- (same_shape_ty _ _ n Hsh) in Ht. unfold ty in Ht.
    destruct (g !! n) as [i|]; simplify_eq/=. eauto. }
  unfold conn_step in Hstep. unfold conn_ok. case_bool_decide as Hio.
  - destruct (Hty _ _ (Hin _ Hio)) as (i & Hi & Ht).
    rewrite (connect_in_sem g kv.2 (pre name kv.1) g1 i Hi (or_introl Ht) Hstep v).
    split; intros [Hc H]; (split; [done|]).
    + intros net Hnet. split; [intros _; by apply H|done].
    + intros u Hu. by apply H.
  - rewrite (connect_out_sem g (pre name kv.1) kv.2 g1); [| |exact Hstep].
    + split; intros [Hc H]; (split; [done|]).
      * intros net Hnet. split; [done|intros _; by apply H].
      * intros x Hx. by apply H.
    + intros x Hx. destruct (Hout kv x) as [Hb|Hb]; [by left|done|done| |];
        destruct (Hty _ _ Hb) as (i & Hi & Ht); eauto.
Qed.

(* ---------- add_subcircuit unpacked ---------- *)
Lemma add_subcircuit_unfold C SC name conns :
  add_subcircuit C SC name conns =
  if existsb (λ b, bool_decide (pre name b ∈ dom (c_bbs C))) (elements (dom (c_bbs SC))) then (C, Fail ValueError) else
  if existsb (λ n, bool_decide (pre name n ∈ dom (c_g C))) (elements (dom (c_g SC))) then (C, Fail ValueError) else
  if existsb (λ kv : string * list string,
                negb (bool_decide (kv.1 ∈ inputs (c_g SC))) && negb (bool_decide (kv.1 ∈ outputs (c_g SC)))) conns
  then (C, Fail ValueError) else
  let g0 := update_g (c_g C) (rename_g (pre name) (c_g SC)) in
  let g1 := set_fold (λ n g, alter (retype Buf) (pre name n) g) g0 (inputs (c_g SC)) in
  let g2 := set_fold (λ n g, alter unmark (pre name n) g) g1 (outputs (c_g SC)) in
  let r := foldl (conn_step SC name) (g2, Done) conns in
  match r.2 with
  | Fail ValueError =>
      ({| c_name := c_name C; c_g := remove_g r.1 (pre name <$> elements (dom (c_g SC))); c_bbs := c_bbs C |}, r.2)
  | _ => ({| c_name := c_name C; c_g := r.1;
             c_bbs := map_fold (λ b d acc, <[pre name b := d]> acc) (c_bbs C) (c_bbs SC) |}, r.2)
  end.
Proof. reflexivity. Qed.

Lemma add_subcircuit_inv P SC name conns P' :
  add_subcircuit P SC name conns = (P', Done) →
  (∀ b, b ∈ dom (c_bbs SC) → pre name b ∉ dom (c_bbs P)) ∧
  (∀ n, n ∈ dom (c_g SC) → pre name n ∉ dom (c_g P)) ∧
  (∀ kv, kv ∈ conns → kv.1 ∈ inputs (c_g SC) ∨ kv.1 ∈ outputs (c_g SC)) ∧
  c_name P' = c_name P ∧
  c_bbs P' = kmap (pre name) (c_bbs SC) ∪ c_bbs P ∧
  foldl (conn_step SC name) (c_g P ∪ rename (pre name) (strip_io (c_g SC)), Done) conns = (c_g P', Done).
Proof.
  rewrite add_subcircuit_unfold.
  destruct (existsb _ (elements (dom (c_bbs SC)))) eqn:E1; [done|].
  destruct (existsb _ (elements (dom (c_g SC)))) eqn:E2; [done|].
  destruct (existsb _ conns) eqn:E3; [done|].
  assert (H1 : ∀ b, b ∈ dom (c_bbs SC) → pre name b ∉ dom (c_bbs P)).
  { intros b Hb. pose proof (existsb_false _ _ E1 b) as H. simpl in H.
    eapply bool_decide_eq_false_1. apply H. by apply elem_of_elements. }
  assert (H2 : ∀ n, n ∈ dom (c_g SC) → pre name n ∉ dom (c_g P)).
  { intros n Hn. pose proof (existsb_false _ _ E2 n) as H. simpl in H.
    eapply bool_decide_eq_false_1. apply H. by apply elem_of_elements. }
  assert (H3 : ∀ kv, kv ∈ conns → kv.1 ∈ inputs (c_g SC) ∨ kv.1 ∈ outputs (c_g SC)).
  { intros kv Hkv. pose proof (existsb_false _ _ E3 kv Hkv) as H. simpl in H.
    apply andb_false_iff in H as [H|H]; apply negb_false_iff, bool_decide_eq_true in H; auto. }
  pose proof (spliced_graph P SC name H2) as Hg. cbv zeta in Hg.
  cbv zeta. rewrite Hg. rewrite registry_fold.
  destruct (foldl (conn_step SC name) _ conns) as [g' o] eqn:Hf. simpl.
  destruct o as [|e]; [|destruct e; done].
  intros [= <-]. simpl. done.
Qed.

Lemma dom_spliced P SC name :
  dom (c_g P ∪ rename (pre name) (strip_io (c_g SC))) = dom (c_g P) ∪ set_map (pre name) (dom (c_g SC)).
Proof.
  rewrite dom_union_L, dom_rename by apply _. unfold strip_io. by rewrite dom_fmap_L.
Qed.

Lemma spliced_lookup_child P SC name k j :
  (∀ n, n ∈ dom (c_g SC) → pre name n ∉ dom (c_g P)) →
  (c_g P ∪ rename (pre name) (strip_io (c_g SC))) !! k = Some j →
  c_g P !! k = Some j ∨
  ∃ n i, k = pre name n ∧ c_g SC !! n = Some i ∧ j = ren_info (pre name) (strip_info i).
Proof.
  intros Hfresh [Hl|[_ Hr]]%lookup_union_Some_raw; [by left|right].
  apply lookup_rename_Some in Hr as (n & i & -> & Hn & ->); [|apply _].
  unfold strip_io in Hn. rewrite lookup_fmap in Hn.
  destruct (c_g SC !! n) as [i0|] eqn:Hi; simplify_eq/=. eauto.
Qed.

Lemma inputs_spliced P SC name :
  (∀ n, n ∈ dom (c_g SC) → pre name n ∉ dom (c_g P)) →
  inputs (c_g P ∪ rename (pre name) (strip_io (c_g SC))) = inputs (c_g P).
Proof.
  intros Hfresh. apply set_eq. intros k. rewrite !elem_of_inputs. split.
  - intros (j & Hj & Ht). destruct (spliced_lookup_child P SC name k j Hfresh Hj) as [Hj'|(n & i & -> & Hn & ->)]; [eauto|].
    exfalso. simpl in Ht. case_bool_decide; congruence.
  - intros (j & Hj & Ht). exists j. split; [|done]. by apply lookup_union_Some_l.
Qed.
Lemma outputs_spliced P SC name :
  (∀ n, n ∈ dom (c_g SC) → pre name n ∉ dom (c_g P)) →
  outputs (c_g P ∪ rename (pre name) (strip_io (c_g SC))) = outputs (c_g P).
Proof.
  intros Hfresh. apply set_eq. intros k. rewrite !elem_of_outputs. split.
  - intros (j & Hj & Ht). destruct (spliced_lookup_child P SC name k j Hfresh Hj) as [Hj'|(n & i & -> & Hn & ->)]; [eauto|].
    exfalso. simpl in Ht. done.
  - intros (j & Hj & Ht). exists j. split; [|done]. by apply lookup_union_Some_l.
Qed.

(* ---------- FINAL THEOREMS ---------- *)
Theorem add_subcircuit_struct P SC name conns P' :
  add_subcircuit P SC name conns = (P', Done) →
  c_name P' = c_name P ∧
  c_bbs P' = kmap (pre name) (c_bbs SC) ∪ c_bbs P ∧
  (∀ b d, c_bbs SC !! b = Some d → c_bbs P' !! pre name b = Some d) ∧
  (∀ b d, c_bbs P !! b = Some d → c_bbs P' !! b = Some d) ∧
  inputs (c_g P') = inputs (c_g P) ∧ outputs (c_g P') = outputs (c_g P) ∧
  dom (c_g P') = dom (c_g P) ∪ set_map (pre name) (dom (c_g SC)).
Proof.
  intros (Hbb & Hfresh & _ & Hname & Hbbs & Hf)%add_subcircuit_inv.
  pose proof (conn_fold_shape SC name conns (c_g P ∪ rename (pre name) (strip_io (c_g SC)), Done)) as Hsh.
  rewrite Hf in Hsh. simpl in Hsh.
  split; [done|]. split; [done|]. split; [|split]; [| |split; [|split]].
  - intros b d Hb. rewrite Hbbs. apply lookup_union_Some_l. rewrite lookup_kmap by apply _. done.
  - intros b d Hb. rewrite Hbbs. rewrite lookup_union_r; [done|].
    apply lookup_kmap_None; [apply _|]. intros b' ->.
    destruct (c_bbs SC !! b') as [d'|] eqn:Hb'; [|done]. exfalso.
    apply (Hbb b'); apply elem_of_dom; eauto.
  - rewrite (same_shape_inputs _ _ Hsh). by apply inputs_spliced.
  - rewrite (same_shape_outputs _ _ Hsh). by apply outputs_spliced.
  - rewrite (same_shape_dom _ _ Hsh). apply dom_spliced.
Qed.

Theorem add_subcircuit_sem P SC name conns P' :
  add_subcircuit P SC name conns = (P', Done) → out_targets_free P SC conns →
  ∀ v, consistent (c_g P') v ↔
       consistent (c_g P) v ∧ consistent (strip_io (c_g SC)) (v ∘ pre name) ∧ Forall (conn_ok SC name v) conns.
Proof.
  intros (_ & Hfresh & _ & _ & _ & Hf)%add_subcircuit_inv Hfree v.
  set (g2 := c_g P ∪ rename (pre name) (strip_io (c_g SC))) in *.
  assert (Hdisj : dom (c_g P) ## dom (rename (pre name) (strip_io (c_g SC)))).
  { rewrite dom_rename by apply _. unfold strip_io. rewrite dom_fmap_L.
    intros k Hk (n & -> & Hn)%elem_of_map. by apply (Hfresh n). }
  rewrite (conn_fold_sem SC name g2) with (conns := conns) (g := g2) (g' := c_g P');
    [| | |apply same_shape_refl|exact Hf].
  - unfold g2. rewrite consistent_union by done. rewrite consistent_rename by apply _. tauto.
  - (* child inputs are buffers in the spliced graph *)
    intros io (i & Hi & Hty)%elem_of_inputs. unfold ty, g2.
    rewrite lookup_union_r.
    + rewrite lookup_rename by apply _. unfold strip_io. rewrite lookup_fmap, Hi. simpl.
      by rewrite Hty, bool_decide_eq_true_2.
    + apply not_elem_of_dom. apply Hfresh. apply elem_of_dom. eauto.
  - (* targets of child outputs are free buffers of the parent, untouched by the splice *)
    intros kv net Hkv Hio Hnet. destruct (Hfree kv net Hkv Hio Hnet) as (i & Hi & Hty & _).
    unfold ty, g2. rewrite (lookup_union_Some_l _ _ _ _ Hi). simpl.
    destruct Hty as [-> | ->]; auto.
Qed.
