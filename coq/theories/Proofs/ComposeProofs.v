(* Specification of Api.add_subcircuit (= add_subcircuit_gen true): structure and semantics of the
   spliced parent.  Everything here is proved; no axioms. *)
From stdpp Require Import strings gmap sets fin_sets.
From CG Require Import Base.Compose Base.Oracle Model.Compose6.
Open Scope string_scope.

(* ---------- small list helpers ---------- *)
Lemma existsb_false {A} (f : A → bool) (l : list A) :
  existsb f l = false → ∀ x, x ∈ l → f x = false.
Proof.
  induction l as [|a l IH]; simpl; intros H x Hx.
  - by apply elem_of_nil in Hx.
  - apply orb_false_elim in H as [Ha Hl]. apply elem_of_cons in Hx as [->|Hx]; auto.
Qed.

Lemma pairs_singleton_l (y : string) (vs : list string) : pairs [y] vs = (λ x, (y, x)) <$> vs.
Proof.
  unfold pairs. simpl. rewrite app_nil_r.
  induction vs as [|x vs IH]; simpl; [done|]. by f_equal.
Qed.

(* ---------- 1. rename_g is rename ---------- *)
Lemma rename_g_eq ρ c : rename_g ρ c = rename ρ c.
Proof. reflexivity. Qed.

Lemma lookup_rename ρ `{!Inj (=) (=) ρ} (c : circuit) n : rename ρ c !! ρ n = ren_info ρ <$> c !! n.
Proof. unfold rename. rewrite lookup_kmap by apply _. by rewrite lookup_fmap. Qed.
Lemma lookup_rename_Some ρ `{!Inj (=) (=) ρ} (c : circuit) k j :
  rename ρ c !! k = Some j ↔ ∃ n i, k = ρ n ∧ c !! n = Some i ∧ j = ren_info ρ i.
Proof.
  unfold rename. rewrite lookup_kmap_Some by apply _. split.
  - intros (n & -> & Hn). rewrite lookup_fmap in Hn.
    destruct (c !! n) as [i|] eqn:Hc; simplify_eq/=. eauto.
  - intros (n & i & -> & Hn & ->). exists n. split; [done|]. by rewrite lookup_fmap, Hn.
Qed.
Lemma dom_rename ρ `{!Inj (=) (=) ρ} (c : circuit) : dom (rename ρ c) = set_map ρ (dom c).
Proof.
  apply set_eq. intros k. rewrite elem_of_dom, elem_of_map. split.
  - intros [j Hj]. apply lookup_rename_Some in Hj as (n & i & -> & Hn & _); [|done].
    exists n. split; [done|]. by apply elem_of_dom.
  - intros (n & -> & [i Hi]%elem_of_dom). exists (ren_info ρ i). rewrite lookup_rename by done. by rewrite Hi.
Qed.

(* ---------- 2. graph.update on disjoint graphs ---------- *)
Lemma update_g_disjoint c g : dom c ## dom g → update_g c g = c ∪ g.
Proof.
  intros Hd. apply map_eq. intros k. unfold update_g.
  rewrite lookup_union_with, lookup_union.
  destruct (c !! k) as [i|] eqn:Hc, (g !! k) as [j|] eqn:Hg; simpl; try done.
  exfalso. apply (Hd k); apply elem_of_dom; eauto.
Qed.

(* ---------- 3. folds of alter over a set ---------- *)
Lemma set_fold_alter_lookup (f : ninfo → ninfo) (ρ : string → string) `{!Inj (=) (=) ρ}
    (S : gset string) (g : circuit) k :
  set_fold (λ n g, alter f (ρ n) g) g S !! k =
    if decide (k ∈ (set_map ρ S : gset string)) then f <$> g !! k else g !! k.
Proof.
  revert k.
  set (P := λ (r : circuit) (X : gset string),
    ∀ k, r !! k = if decide (k ∈ (set_map ρ X : gset string)) then f <$> g !! k else g !! k).
  change (P (set_fold (λ n g, alter f (ρ n) g) g S) S).
  apply (set_fold_ind_L P); unfold P; clear P.
  - intros k. rewrite set_map_empty. by rewrite decide_False by set_solver.
  - intros x X r Hx IH k.
    assert (Hnot : ρ x ∉ (set_map ρ X : gset string)).
    { intros (y & Hy & Hin)%elem_of_map. apply (inj ρ) in Hy. by subst. }
    destruct (decide (k = ρ x)) as [->|Hne].
    + rewrite lookup_alter, IH. rewrite (decide_False _ _ Hnot).
      rewrite decide_True; [done|]. apply elem_of_map. exists x. set_solver.
    + rewrite lookup_alter_ne by done. rewrite IH.
      destruct (decide (k ∈ (set_map ρ X : gset string))) as [Hin|Hin].
      * rewrite decide_True; [done|]. rewrite set_map_union_L. set_solver.
      * rewrite decide_False; [done|]. rewrite set_map_union_L, set_map_singleton_L. set_solver.
Qed.

(* ---------- 8. the blackbox registry ---------- *)
Lemma registry_fold (name : string) (B0 B : gmap string bbdef) :
  map_fold (λ b d acc, <[pre name b := d]> acc) B0 B = kmap (pre name) B ∪ B0.
Proof.
  apply (map_fold_ind (λ (r : gmap string bbdef) (m : gmap string bbdef), r = kmap (pre name) m ∪ B0)).
  - by rewrite kmap_empty, (left_id_L ∅ (∪)).
  - intros i x m r Hi ->. rewrite kmap_insert by apply _. by rewrite insert_union_l.
Qed.

(* ---------- 4. the spliced graph before the connections ---------- *)
Lemma elem_of_set_map_inj (ρ : string → string) `{!Inj (=) (=) ρ} (X : gset string) n :
  ρ n ∈ (set_map ρ X : gset string) ↔ n ∈ X.
Proof.
  rewrite elem_of_map. split; [|by eauto].
  intros (y & Hy & Hin). apply (inj ρ) in Hy. by subst.
Qed.

Lemma spliced_graph P SC name :
  (∀ n, n ∈ dom (c_g SC) → pre name n ∉ dom (c_g P)) →
  let g0 := update_g (c_g P) (rename_g (pre name) (c_g SC)) in
  let g1 := set_fold (λ n g, alter (retype Buf) (pre name n) g) g0 (inputs (c_g SC)) in
  set_fold (λ n g, alter unmark (pre name n) g) g1 (outputs (c_g SC))
  = c_g P ∪ rename (pre name) (strip_io (c_g SC)).
Proof.
  intros Hfresh g0 g1.
  assert (Hg0 : g0 = c_g P ∪ rename (pre name) (c_g SC)).
  { unfold g0. rewrite rename_g_eq. apply update_g_disjoint.
    rewrite dom_rename by apply _. intros k Hk (n & -> & Hn)%elem_of_map. by apply (Hfresh n). }
  apply map_eq. intros k.
  rewrite set_fold_alter_lookup by apply _. unfold g1.
  rewrite set_fold_alter_lookup by apply _. rewrite Hg0. clear g0 g1 Hg0.
  destruct (c_g P !! k) as [i|] eqn:HP.
  - (* a parent node: not a renamed child name *)
    assert (Hk : ∀ X : gset string, X ⊆ dom (c_g SC) → k ∉ (set_map (pre name) X : gset string)).
    { intros X HX (n & -> & Hn)%elem_of_map. apply (Hfresh n); [by apply HX|]. apply elem_of_dom. eauto. }
    assert (Hin : inputs (c_g SC) ⊆ dom (c_g SC)).
    { intros n (j & Hj & _)%elem_of_inputs. apply elem_of_dom. eauto. }
    assert (Hout : outputs (c_g SC) ⊆ dom (c_g SC)).
    { intros n (j & Hj & _)%elem_of_outputs. apply elem_of_dom. eauto. }
    rewrite (decide_False _ _ (Hk _ Hout)), (decide_False _ _ (Hk _ Hin)).
    rewrite (lookup_union_Some_l _ _ _ _ HP). symmetry. by apply lookup_union_Some_l.
  - rewrite !lookup_union_r by done.
    destruct (rename (pre name) (c_g SC) !! k) as [j|] eqn:Hr.
    + apply lookup_rename_Some in Hr as (n & i & -> & Hn & ->); [|apply _].
      rewrite lookup_rename by apply _. unfold strip_io. rewrite lookup_fmap, Hn. simpl.
      destruct i as [t o fi].
      destruct (decide (pre name n ∈ (set_map (pre name) (outputs (c_g SC)) : gset string))) as [Ho|Ho];
      destruct (decide (pre name n ∈ (set_map (pre name) (inputs (c_g SC)) : gset string))) as [Hi|Hi];
        rewrite elem_of_set_map_inj in Ho, Hi by apply _; simpl; f_equal;
        unfold ren_info, strip_info, retype, unmark, set_out; simpl.
      * apply elem_of_inputs in Hi as (i' & Hi' & Hty). rewrite Hn in Hi'. simplify_eq/=. done.
      * assert (t ≠ Input). { intros ->. apply Hi, elem_of_inputs. eauto. }
        by rewrite bool_decide_eq_false_2.
      * apply elem_of_inputs in Hi as (i' & Hi' & Hty). rewrite Hn in Hi'. simplify_eq/=.
        destruct o; [|done]. exfalso. apply Ho, elem_of_outputs. eauto.
      * assert (t ≠ Input). { intros ->. apply Hi, elem_of_inputs. eauto. }
        rewrite bool_decide_eq_false_2 by done.
        destruct o; [|done]. exfalso. apply Ho, elem_of_outputs. eauto.
    + (* not a name of the spliced copy at all *)
      assert (Hnone : rename (pre name) (strip_io (c_g SC)) !! k = None).
      { destruct (rename (pre name) (strip_io (c_g SC)) !! k) as [j|] eqn:Hs; [|done].
        apply lookup_rename_Some in Hs as (n & i & -> & Hn & _); [|apply _].
        rewrite lookup_rename in Hr by apply _. unfold strip_io in Hn. rewrite lookup_fmap in Hn.
        destruct (c_g SC !! n); simplify_eq/=. }
      rewrite Hnone. by repeat case_decide.
Qed.

(* ---------- 5. driving a (nearly) free buffer ---------- *)
Lemma gate_val_buf_singleton t (v : val) u : t = Buf ∨ t = BbIn → gate_val t v {[u]} = v u.
Proof.
  intros Ht. unfold gate_val. rewrite elements_singleton. simpl.
  destruct Ht as [-> | ->]; simpl; by destruct (v u).
Qed.

Lemma node_ok_driven (v : val) x j u :
  (n_ty j = Buf ∨ n_ty j = BbIn) → n_fi j = {[u]} → node_ok v x j ↔ v x = v u.
Proof.
  intros Hty Hfi. unfold node_ok, is_free. rewrite Hfi.
  assert (bool_decide (({[u]} : gset string) = ∅) = false) as Hne.
  { apply bool_decide_eq_false. intros He.
    assert (u ∈ (∅ : gset string)) as Hu by (rewrite <- He; set_solver). set_solver. }
  destruct Hty as [-> | ->]; rewrite Hne, gate_val_buf_singleton by auto; done.
Qed.

Lemma drive_node c u x i v :
  c !! x = Some i → (n_ty i = Buf ∨ n_ty i = BbIn) → n_fi i ⊆ {[u]} →
  consistent (add_edge c u x) v ↔ consistent c v ∧ v x = v u.
Proof.
  intros Hx Hty Hfi. unfold add_edge.
  set (i' := upd_fi (λ s, {[u]} ∪ s) i).
  assert (Hok' : node_ok v x i' ↔ v x = v u).
  { apply node_ok_driven; [done|]. unfold i', upd_fi. simpl. apply set_eq. intros z. set_solver. }
  assert (Hok : v x = v u → node_ok v x i).
  { intros Hv. destruct (decide (n_fi i = ∅)) as [He|He].
    - unfold node_ok, is_free. destruct Hty as [-> | ->]; rewrite bool_decide_eq_true_2 by done; done.
    - apply (node_ok_driven v x i u); [done| |done].
      apply set_eq. intros z. split; [by apply Hfi|]. intros ->%elem_of_singleton.
      destruct (decide (u ∈ n_fi i)) as [|Hn]; [done|]. exfalso. apply He.
      apply set_eq. intros z. split; [|set_solver]. intros Hz.
      pose proof (Hfi z Hz) as ->%elem_of_singleton. done. }
  unfold consistent. split.
  - intros H. assert (v x = v u) as Hv.
    { apply Hok'. apply H. by rewrite lookup_alter, Hx. }
    split; [|done]. intros n j Hn. destruct (decide (n = x)) as [->|Hne].
    + rewrite Hx in Hn. simplify_eq. by apply Hok.
    + apply H. by rewrite lookup_alter_ne.
  - intros [H Hv] n j Hn. destruct (decide (n = x)) as [->|Hne].
    + rewrite lookup_alter, Hx in Hn. simpl in Hn. simplify_eq. by apply Hok'.
    + rewrite lookup_alter_ne in Hn by done. by apply H.
Qed.

(* ---------- 6. connections keep types, output marks and the domain ---------- *)
Definition shape (i : ninfo) : gtype * bool := (n_ty i, n_out i).
Definition same_shape (c c' : circuit) : Prop := ∀ n, shape <$> c !! n = shape <$> c' !! n.

Lemma same_shape_refl c : same_shape c c. Proof. done. Qed.
Lemma same_shape_trans c1 c2 c3 : same_shape c1 c2 → same_shape c2 c3 → same_shape c1 c3.
Proof. intros H1 H2 n. by rewrite H1. Qed.
Lemma same_shape_sym c1 c2 : same_shape c1 c2 → same_shape c2 c1.
Proof. intros H n. by rewrite H. Qed.

Lemma same_shape_lookup c c' n i : same_shape c c' → c !! n = Some i →
  ∃ i', c' !! n = Some i' ∧ n_ty i' = n_ty i ∧ n_out i' = n_out i.
Proof.
  intros H Hn. specialize (H n). rewrite Hn in H. simpl in H.
  destruct (c' !! n) as [i'|]; simplify_eq/=. unfold shape in H. simplify_eq. eauto.
Qed.
Lemma same_shape_ty c c' n : same_shape c c' → ty c n = ty c' n.
Proof.
  intros H. unfold ty. specialize (H n).
  destruct (c !! n) as [i|], (c' !! n) as [i'|]; simplify_eq/=; try done.
  unfold shape in H. by simplify_eq.
Qed.
Lemma same_shape_dom c c' : same_shape c c' → dom c = dom c'.
Proof.
  intros H. apply set_eq. intros n. rewrite !elem_of_dom. specialize (H n).
  destruct (c !! n), (c' !! n); simplify_eq/=; split; intros [? ?]; eauto; done.
Qed.
Lemma same_shape_inputs c c' : same_shape c c' → inputs c = inputs c'.
Proof.
  intros H. apply set_eq. intros n. rewrite !elem_of_inputs. split.
  - intros (i & Hi & Ht). destruct (same_shape_lookup _ _ _ _ H Hi) as (i' & ? & ? & ?). exists i'. split; congruence.
  - intros (i & Hi & Ht). destruct (same_shape_lookup _ _ _ _ (same_shape_sym _ _ H) Hi) as (i' & ? & ? & ?).
    exists i'. split; congruence.
Qed.
Lemma same_shape_outputs c c' : same_shape c c' → outputs c = outputs c'.
Proof.
  intros H. apply set_eq. intros n. rewrite !elem_of_outputs. split.
  - intros (i & Hi & Ht). destruct (same_shape_lookup _ _ _ _ H Hi) as (i' & ? & ? & ?). exists i'. split; congruence.
  - intros (i & Hi & Ht). destruct (same_shape_lookup _ _ _ _ (same_shape_sym _ _ H) Hi) as (i' & ? & ? & ?).
    exists i'. split; congruence.
Qed.

Lemma add_edge_shape c u x : same_shape (add_edge c u x) c.
Proof.
  intros n. unfold add_edge. destruct (decide (n = x)) as [->|Hne].
  - rewrite lookup_alter. by destruct (c !! x).
  - by rewrite lookup_alter_ne.
Qed.
Lemma add_edges_shape l c : same_shape (foldl (λ c' (p : string * string), add_edge c' p.1 p.2) c l) c.
Proof.
  revert c. induction l as [|p l IH]; intros c; simpl; [done|].
  eapply same_shape_trans; [apply IH|apply add_edge_shape].
Qed.
Lemma connect_g_shape c us vs : same_shape (connect_g c us vs).1 c.
Proof.
  unfold connect_g. repeat case_match; simpl; try done. apply add_edges_shape.
Qed.
Lemma connect_g_inputs c us vs : inputs (connect_g c us vs).1 = inputs c.
Proof. apply same_shape_inputs, connect_g_shape. Qed.
Lemma connect_g_outputs c us vs : outputs (connect_g c us vs).1 = outputs c.
Proof. apply same_shape_outputs, connect_g_shape. Qed.
Lemma connect_g_dom c us vs : dom (connect_g c us vs).1 = dom c.
Proof. apply same_shape_dom, connect_g_shape. Qed.

(* the connection fold of add_subcircuit_gen *)
Definition conn_step (SC : Circuit) (name : string) (st : circuit * outcome) (kv : string * list string)
  : circuit * outcome :=
  match st with
  | (g, Done) => if bool_decide (kv.1 ∈ inputs (c_g SC)) then connect_g g kv.2 [pre name kv.1]
                 else connect_g g [pre name kv.1] kv.2
  | _ => st end.

Lemma conn_step_shape SC name st kv : same_shape (conn_step SC name st kv).1 st.1.
Proof.
  destruct st as [g [|e]]; simpl; [|done]. case_bool_decide; apply connect_g_shape.
Qed.
Lemma conn_fold_shape SC name conns st : same_shape (foldl (conn_step SC name) st conns).1 st.1.
Proof.
  revert st. induction conns as [|kv conns IH]; intros st; simpl; [done|].
  eapply same_shape_trans; [apply IH|apply conn_step_shape].
Qed.
Lemma conn_fold_fail SC name conns g e : foldl (conn_step SC name) (g, Fail e) conns = (g, Fail e).
Proof. induction conns as [|kv conns IH]; simpl; done. Qed.
