(* Specification of Api.add_subcircuit (= add_subcircuit_gen true): structure and semantics of the
   spliced parent.  Everything here is proved; no axioms. *)
From stdpp Require Import strings gmap sets fin_sets.
From CG Require Import Base.Compose Base.Oracle Model.Compose6.
Open Scope string_scope.

(* ---------- small list helpers ---------- *)
Lemma existsb_false {A} (f : A → bool) (l : list A) :
  existsb f l = false → ∀ x, x ∈ l → f x = false.
Proof.
  induction l as [|a l IH]; simpl; intros H x Hx.
  - by apply elem_of_nil in Hx.
  - apply orb_false_elim in H as [Ha Hl]. apply elem_of_cons in Hx as [->|Hx]; auto.
Qed.

Lemma pairs_singleton_l (y : string) (vs : list string) : pairs [y] vs = (λ x, (y, x)) <$> vs.
Proof.
  unfold pairs. simpl. rewrite app_nil_r.
  induction vs as [|x vs IH]; simpl; [done|]. by f_equal.
Qed.

(* ---------- 1. rename_g is rename ---------- *)
Lemma rename_g_eq ρ c : rename_g ρ c = rename ρ c.
Proof. reflexivity. Qed.

Lemma lookup_rename ρ `{!Inj (=) (=) ρ} (c : circuit) n : rename ρ c !! ρ n = ren_info ρ <$> c !! n.
Proof. unfold rename. rewrite lookup_kmap by apply _. by rewrite lookup_fmap. Qed.
Lemma lookup_rename_Some ρ `{!Inj (=) (=) ρ} (c : circuit) k j :
  rename ρ c !! k = Some j ↔ ∃ n i, k = ρ n ∧ c !! n = Some i ∧ j = ren_info ρ i.
Proof.
  unfold rename. rewrite lookup_kmap_Some by apply _. split.
  - intros (n & -> & Hn). rewrite lookup_fmap in Hn.
    destruct (c !! n) as [i|] eqn:Hc; simplify_eq/=. eauto.
  - intros (n & i & -> & Hn & ->). exists n. split; [done|]. by rewrite lookup_fmap, Hn.
Qed.
Lemma dom_rename ρ `{!Inj (=) (=) ρ} (c : circuit) : dom (rename ρ c) = set_map ρ (dom c).
Proof.
  apply set_eq. intros k. rewrite elem_of_dom, elem_of_map. split.
  - intros [j Hj]. apply lookup_rename_Some in Hj as (n & i & -> & Hn & _); [|done].
    exists n. split; [done|]. by apply elem_of_dom.
  - intros (n & -> & [i Hi]%elem_of_dom). exists (ren_info ρ i). rewrite lookup_rename by done. by rewrite Hi.
Qed.

(* ---------- 2. graph.update on disjoint graphs ---------- *)
Lemma update_g_disjoint c g : dom c ## dom g → update_g c g = c ∪ g.
Proof.
  intros Hd. apply map_eq. intros k. unfold update_g.
  rewrite lookup_union_with, lookup_union.
  destruct (c !! k) as [i|] eqn:Hc, (g !! k) as [j|] eqn:Hg; simpl; try done.
  exfalso. apply (Hd k); apply elem_of_dom; eauto.
Qed.

(* ---------- 3. folds of alter over a set ---------- *)
Lemma set_fold_alter_lookup (f : ninfo → ninfo) (ρ : string → string) `{!Inj (=) (=) ρ}
    (S : gset string) (g : circuit) k :
  set_fold (λ n g, alter f (ρ n) g) g S !! k =
    if decide (k ∈ (set_map ρ S : gset string)) then f <$> g !! k else g !! k.
Proof.
  revert k.
  apply (set_fold_ind_L (λ (r : circuit) (X : gset string),
    ∀ k, r !! k = if decide (k ∈ (set_map ρ X : gset string)) then f <$> g !! k else g !! k)).
  - intros k. rewrite set_map_empty. by rewrite decide_False by set_solver.
  - intros x X r Hx IH k.
    assert (Hnot : ρ x ∉ (set_map ρ X : gset string)).
    { intros (y & Hy & Hin)%elem_of_map. apply (inj ρ) in Hy. by subst. }
    destruct (decide (k = ρ x)) as [->|Hne].
    + rewrite lookup_alter, IH. rewrite (decide_False _ _ Hnot).
      rewrite decide_True; [done|]. apply elem_of_map. exists x. set_solver.
    + rewrite lookup_alter_ne by done. rewrite IH.
      destruct (decide (k ∈ (set_map ρ X : gset string))) as [Hin|Hin].
      * rewrite decide_True; [done|]. rewrite set_map_union_L. set_solver.
      * rewrite decide_False; [done|]. rewrite set_map_union_L, set_map_singleton_L. set_solver.
Qed.

(* ---------- 8. the blackbox registry ---------- *)
Lemma registry_fold (name : string) (B0 B : gmap string bbdef) :
  map_fold (λ b d acc, <[pre name b := d]> acc) B0 B = kmap (pre name) B ∪ B0.
Proof.
  apply (map_fold_ind (λ (r : gmap string bbdef) (m : gmap string bbdef), r = kmap (pre name) m ∪ B0)).
  - by rewrite kmap_empty, (left_id_L ∅ (∪)).
  - intros i x m r Hi ->. rewrite kmap_insert by apply _. by rewrite insert_union_l.
Qed.
