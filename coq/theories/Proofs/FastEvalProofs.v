(* The compiled checks of Model/FastEval.v mean what Oracle.consistentb means: a program compiled from a circuit G
   (names read through f) is satisfied by a value table T exactly when the valuation read off T, composed with f,
   passes consistentb on G -- hence (consistentb_spec) exactly when it is a consistent valuation of G. *)
From stdpp Require Import strings gmap pmap sets fin_sets.
From CG Require Import Base.Oracle Model.FastEval.
Open Scope string_scope.

Definition tab_val (T : Pmap bool) (ix : index) : val := λ x, look T (ix x).

Lemma cnode_ok_spec T (ix : index) f p :
  cnode_ok T (compile_node ix f p) = node_okb (tab_val T ix ∘ f) p.1 p.2.
Proof.
  destruct p as [n i]. unfold cnode_ok, node_okb, compile_node, cnode_val, gate_of, gate_val, tab_val. simpl.
  destruct (is_free i); [done|]. simpl.
  rewrite <- list_fmap_compose.
  destruct (n_ty i); reflexivity.
Qed.

(* with a skip set: the equations of the skipped nodes are simply not demanded *)
Lemma check_prog_compile_skip T (ix : index) f G (skip : gset string) :
  check_prog T (compile ix f G skip) =
  forallb (λ p, bool_decide (p.1 ∈ skip) || node_okb (tab_val T ix ∘ f) p.1 p.2) (map_to_list G).
Proof.
  unfold check_prog, compile. induction (map_to_list G) as [|p l IH]; [done|].
  rewrite filter_cons. destruct (decide (p.1 ∉ skip)) as [Hin|Hin].
  - rewrite fmap_cons. cbn [forallb]. rewrite IH, cnode_ok_spec.
    rewrite bool_decide_false by done. done.
  - cbn [forallb]. rewrite <- IH. rewrite bool_decide_true; [done|]. by apply dec_stable.
Qed.

Lemma check_prog_compile T (ix : index) f G :
  check_prog T (compile ix f G ∅) = consistentb G (tab_val T ix ∘ f).
Proof.
  rewrite check_prog_compile_skip. unfold consistentb.
  induction (map_to_list G) as [|p l IH]; [done|].
  simpl. rewrite bool_decide_false by set_solver. simpl. by rewrite IH.
Qed.

Corollary check_prog_consistent T (ix : index) f G :
  check_prog T (compile ix f G ∅) = true ↔ consistent G (tab_val T ix ∘ f).
Proof. rewrite check_prog_compile. apply consistentb_spec. Qed.
