(* the instance pattern recovers (gate, instance name, operand text) from `gate inst(ops);` with arbitrary blanks at the allowed places *)
From Coq Require Import Ascii.
From stdpp Require Import strings.
From CG Require Import Model.FastVerilogText Model.FastVerilogInst Proofs.FastVerilogTextProofs.
Open Scope string_scope.

Definition ident_ok (s : string) : bool := match s with String c r => is_alpha_ c && all_chars is_word r | EmptyString => false end.

Lemma span_app P a b : all_chars P a = true → match b with String c _ => P c = false | EmptyString => True end → span P (a ++ b) = (a, b).
Proof.
  intros Ha Hb. induction a as [|x a IH]; rewrite ?sapp_cons, ?sapp_nil.
  - destruct b as [|c r]; [done|]. cbn [span]. by rewrite Hb.
  - cbn [all_chars] in Ha. apply andb_true_iff in Ha as [Hx Ha]. cbn [span]. rewrite Hx, (IH Ha). done.
Qed.
Lemma scan_ident_app g b : ident_ok g = true → match b with String c _ => is_word c = false | EmptyString => True end →
  scan_ident (g ++ b) = Some (g, b).
Proof.
  destruct g as [|c r]; [done|]. cbn [ident_ok]. intros [Hc Hr]%andb_true_iff Hb. rewrite sapp_cons. cbn [scan_ident]. rewrite Hc.
  by rewrite (span_app is_word r b Hr Hb).
Qed.
Lemma strip_last_snoc s c : strip_last (s ++ String c EmptyString) = Some (s, c).
Proof.
  induction s as [|x s IH]; [done|]. rewrite sapp_cons. cbn [strip_last]. rewrite IH.
  destruct (s ++ String c "") eqn:E; [|done]. destruct s; discriminate.
Qed.
Lemma ws_not_word c : is_ws c = true → is_word c = false.
Proof.
  unfold is_ws, is_word, is_alpha_. cbv zeta. generalize (nat_of_ascii c). intros k H.
  rewrite orb_true_iff, !andb_true_iff, !Nat.leb_le in H.
  rewrite !orb_false_iff, !andb_false_iff, !Nat.leb_gt, Nat.eqb_neq. lia.
Qed.

Theorem scan_inst_render g w1 i w2 ops rest :
  ident_ok g = true → ident_ok i = true → blanks w1 = true → w1 ≠ EmptyString → blanks w2 = true →
  ops ≠ EmptyString → no_char ";"%char ops = true →
  scan_inst (g ++ w1 ++ i ++ w2 ++ "(" ++ ops ++ ");" ++ rest) = Some (g, i, ops).
Proof.
  intros Hg Hi Hw1 Hne Hw2 Hops Hsemi. unfold scan_inst.
  assert (Hw1h : match w1 ++ i ++ w2 ++ "(" ++ ops ++ ");" ++ rest with String c _ => is_word c = false | EmptyString => True end).
  { destruct w1 as [|c r]; [done|]. rewrite sapp_cons. unfold blanks in Hw1. cbn [all_chars] in Hw1. apply andb_true_iff in Hw1 as [Hc _]. by apply ws_not_word. }
  rewrite (scan_ident_app g _ Hg Hw1h).
  assert (Hih : match i ++ w2 ++ "(" ++ ops ++ ");" ++ rest with String c _ => is_ws c = false | EmptyString => True end).
  { destruct i as [|c r]; [done|]. rewrite sapp_cons. cbn [ident_ok] in Hi. apply andb_true_iff in Hi as [Hc _].
    destruct (is_ws c) eqn:E; [|done]. apply ws_not_word in E. unfold is_word in E. by rewrite Hc in E. }
  rewrite (span_app is_ws w1 _ Hw1 Hih). rewrite bool_decide_eq_false_2 by done.
  assert (Hw2h : match w2 ++ "(" ++ ops ++ ");" ++ rest with String c _ => is_word c = false | EmptyString => True end).
  { destruct w2 as [|c r]; [by vm_compute|]. rewrite sapp_cons. unfold blanks in Hw2. cbn [all_chars] in Hw2. apply andb_true_iff in Hw2 as [Hc _]. by apply ws_not_word. }
  rewrite (scan_ident_app i _ Hi Hw2h).
  rewrite (span_app is_ws w2 ("(" ++ ops ++ ");" ++ rest) Hw2) by (by vm_compute).
  change ("(" ++ ops ++ ");" ++ rest) with (String "("%char (ops ++ ");" ++ rest)). cbv beta iota. rewrite Ascii.eqb_refl.
  change (ops ++ ");" ++ rest) with (ops ++ String ")"%char (String ";"%char rest)).
  replace (ops ++ String ")"%char (String ";"%char rest)) with ((ops ++ String ")"%char EmptyString) ++ String ";"%char rest).
  2:{ clear. induction ops as [|c r IH]; [done|]. rewrite !sapp_cons. by rewrite IH. }
  rewrite (span_app (λ c, negb (Ascii.eqb c ";"%char)) (ops ++ String ")"%char EmptyString) (String ";"%char rest)).
  - rewrite strip_last_snoc, Ascii.eqb_refl. cbn [andb]. rewrite bool_decide_eq_false_2 by done. done.
  - rewrite all_chars_app. unfold no_char in Hsemi. rewrite Hsemi. by vm_compute.
  - by vm_compute.
Qed.
