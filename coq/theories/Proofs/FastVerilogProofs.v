(* C14 proofs: what is proved for all inputs about the two reader models.
   - cancel_parity_sound / parity_gate_val: cancelling pairs of equal operands (both readers, repaired) preserves the parity of
     the operand LIST, and the gate built over the remaining operand SET computes exactly that parity;
   - tie_name_fresh / uid_in_fresh: the names both readers pick for their constant nodes avoid every identifier of the text;
   - obligations on the regenerated tables of Gen_fastv.v (patterns, constant spellings, tie names, parity list);
   - case_decides_instance: a correspondence case inside the subset on which `agree` and `holds` evaluate to true is an
     instance of the full agreement statement. *)
From stdpp Require Import strings gmap sets pretty.
From CG Require Import Model.FastVerilog Base.Sem Base.Fold Base.Compose Gen.Gen_fastv.
Open Scope string_scope.

(* parity of an operand list under a valuation: what `xor g(o, l...)` denotes *)
Definition par (v : string → bool) (l : list string) : bool := foldr xorb false (v <$> l).
Lemma filter_ext_in (P Q : string → bool) (D : list string) :
  (∀ x, x ∈ D → Q x = P x) → filter (λ x, Q x) D = filter (λ x, P x) D.
Proof.
  induction D as [|d D IH]; intros H; [done|].
  rewrite !filter_cons, (H d) by left. rewrite IH; [done|]. intros x Hx. apply H. by right.
Qed.

Lemma par_cons v x l : par v (x :: l) = xorb (v x) (par v l).
Proof. done. Qed.

Lemma par_toggle (v : string → bool) (P Q : string → bool) (a : string) (D : list string) :
  NoDup D → a ∈ D → Q a = negb (P a) → (∀ x, x ≠ a → Q x = P x) →
  par v (filter (λ x, Q x) D) = xorb (v a) (par v (filter (λ x, P x) D)).
Proof.
  intros Hnd Ha Hqa Hne. induction D as [|d D IH]; [by apply elem_of_nil in Ha|].
  apply NoDup_cons in Hnd as [Hd Hnd].
  rewrite !filter_cons. destruct (decide (d = a)) as [->|Hda].
  - assert (Heq : filter (λ x, Q x) D = filter (λ x, P x) D).
    { apply filter_ext_in. intros x Hx. apply Hne. intros ->. done. }
    rewrite Heq, Hqa. destruct (P a); simpl.
    + destruct (decide (Is_true false)) as [[]|]. destruct (decide (Is_true true)) as [_|[]]; [|done].
      rewrite par_cons. by rewrite <- xorb_assoc, xorb_nilpotent, xorb_false_l.
    + destruct (decide (Is_true false)) as [[]|]. destruct (decide (Is_true true)) as [_|[]]; [|done]. by rewrite par_cons.
  - apply elem_of_cons in Ha as [->|Ha]; [done|]. rewrite (Hne d Hda).
    destruct (decide (P d)); rewrite ?par_cons, (IH Hnd Ha); [|done].
    rewrite <- !xorb_assoc. f_equal. apply xorb_comm.
Qed.

Lemma occ_count_cons f a r : occ_count f (a :: r) = (if decide (a = f) then S (occ_count f r) else occ_count f r).
Proof. unfold occ_count. rewrite filter_cons. destruct (decide (a = f)); done. Qed.

Lemma par_filter_odd v l D : NoDup D → (∀ x, x ∈ l → x ∈ D) →
  par v l = par v (filter (λ f, Nat.odd (occ_count f l)) D).
Proof.
  revert D. induction l as [|a r IH]; intros D Hnd Hin.
  - unfold occ_count. simpl. clear. induction D as [|d D IHD]; [done|]. rewrite filter_cons.
    destruct (decide (Is_true (Nat.odd (length (filter (λ x, x = d) []))))) as [H|]; [|done]. by simpl in H.
  - rewrite par_cons. rewrite (IH D Hnd) by (intros; apply Hin; by right).
    symmetry. apply (par_toggle v (λ f, Nat.odd (occ_count f r)) (λ f, Nat.odd (occ_count f (a :: r)))); [done|apply Hin; left| |].
    + rewrite occ_count_cons. rewrite decide_True by done. by rewrite Nat.odd_succ, <- Nat.negb_odd.
    + intros x Hx. rewrite occ_count_cons. by rewrite decide_False by done.
Qed.

Theorem cancel_parity_sound v l : par v (cancel_pairs l) = par v l.
Proof.
  symmetry. unfold cancel_pairs. apply par_filter_odd; [apply NoDup_remove_dups|]. intros x. by rewrite elem_of_remove_dups.
Qed.
Lemma par_perm v l l' : l ≡ₚ l' → par v l = par v l'.
Proof.
  intros H. unfold par. apply (foldr_permutation_proper (=) xorb false).
  - intros a1 a2 b. destruct a1, a2, b; done.
  - by apply fmap_Permutation.
Qed.

Lemma cancel_nodup l : NoDup (cancel_pairs l).
Proof. unfold cancel_pairs. apply NoDup_filter, NoDup_remove_dups. Qed.

Lemma parity_gate_val t v l : is_parity t = true →
  gate_val t v (list_to_set (cancel_pairs l)) = xorb (g_inv t) (par v (cancel_pairs l)).
Proof.
  intros Ht. unfold gate_val. f_equal.
  assert (g_op t = xorb ∧ g_unit t = false) as [-> ->].
  { unfold is_parity in Ht. apply orb_true_iff in Ht as [H|H]; apply bool_decide_eq_true in H; subst; done. }
  apply (par_perm v). apply elements_list_to_set, cancel_nodup.
Qed.

(* ---- tie names of the fast reader are fresh *)
Definition cand (b : string) (i : N) := pre b (pretty i).
Lemma tie_loop_in f R b i : tie_loop f R b i ∈ R → ∀ j, (i ≤ j ≤ i + N.of_nat f)%N → cand b j ∈ R.
Proof.
  revert i. induction f as [|f IH]; intros i H j Hj.
  - simpl in H. assert (j = i) as -> by lia. done.
  - simpl in H. case_bool_decide as Hc.
    + destruct (decide (j = i)) as [->|]; [done|]. apply (IH (i + 1)%N H). lia.
    + done.
Qed.

Lemma nodup_bound (l : list string) (R : gset string) : NoDup l → (∀ x, x ∈ l → x ∈ R) → length l ≤ size R.
Proof.
  intros Hnd Hin. rewrite <- (size_list_to_set (C := gset string) l Hnd). apply subseteq_size.
  intros x Hx. apply elem_of_list_to_set in Hx. auto.
Qed.

Theorem tie_name_fresh R b : tie_name R b ∉ R.
Proof.
  unfold tie_name. case_bool_decide as Hb; [|done]. intros H.
  pose proof (tie_loop_in _ _ _ _ H) as Hall.
  set (js := (λ k, N.of_nat k) <$> seq 0 (S (S (size R)))).
  assert (Hlen : length (cand b <$> js) ≤ size R).
  { apply nodup_bound.
    - apply NoDup_fmap_2; [intros x y Hxy; unfold cand in Hxy; apply (inj (pre b)) in Hxy; by apply (inj pretty) in Hxy|].
      apply NoDup_fmap_2; [intros x y; lia|]. apply NoDup_seq.
    - intros x Hx. apply elem_of_list_fmap in Hx as (j & -> & Hj). apply Hall.
      apply elem_of_list_fmap in Hj as (k & -> & Hk). apply elem_of_seq in Hk. lia. }
  subst js. rewrite !fmap_length, seq_length in Hlen. lia.
Qed.

(* the gate a reader builds for `xor/xnor g(o, l...)` computes the parity of the operand list, however often an operand repeats *)
Theorem parity_gate_denotes t v l : is_parity t = true → cancel_pairs l ≠ [] →
  gate_val t v (list_to_set (cancel_pairs l)) = xorb (g_inv t) (par v l).
Proof. intros Ht _. by rewrite parity_gate_val, cancel_parity_sound. Qed.
(* ... and when every operand cancels, the constant the readers tie the net to is that parity *)
Theorem parity_all_cancel v l : cancel_pairs l = [] → par v l = false.
Proof. intros H. by rewrite <- cancel_parity_sound, H. Qed.

(* ---- tie names of the full reader (Circuit.uid over graph + reserved) are fresh *)
Definition nxt (i : N) : N := if (i <? 10)%N then (i + 1)%N else (i * 7)%N.
Lemma nxt_gt i : (i < nxt i)%N.
Proof. unfold nxt. destruct (N.ltb_spec i 10); lia. Qed.
Lemma iter_nxt_mono k i : (i + N.of_nat k ≤ Nat.iter k nxt i)%N.
Proof. induction k as [|k IH]; simpl; [lia|]. pose proof (nxt_gt (Nat.iter k nxt i)). lia. Qed.
Lemma iter_nxt_lt k k' i : k < k' → (Nat.iter k nxt i < Nat.iter k' nxt i)%N.
Proof.
  induction 1 as [|k' _ IH]; simpl; [apply nxt_gt|]. pose proof (nxt_gt (Nat.iter k' nxt i)). lia.
Qed.
Lemma iter_nxt_shift k i : Nat.iter k nxt (nxt i) = Nat.iter (S k) nxt i.
Proof. induction k as [|k IH]; simpl; [done|]. by rewrite IH. Qed.
Lemma uid_loop_in f U n i : uid_loop f U n i ∈ U → ∀ k, k ≤ f → cand n (Nat.iter k nxt i) ∈ U.
Proof.
  revert i. induction f as [|f IH]; intros i H k Hk.
  - assert (k = 0) as -> by lia. done.
  - simpl in H. case_bool_decide as Hc; [|done].
    destruct k as [|k]; [done|]. rewrite <- iter_nxt_shift. apply IH; [exact H|lia].
Qed.
Theorem uid_in_fresh U n : uid_in U n ∉ U.
Proof.
  unfold uid_in. case_bool_decide as Hb; [|done]. intros H.
  pose proof (uid_loop_in _ _ _ _ H) as Hall.
  set (ks := seq 0 (S (S (size U)))).
  assert (Hlen : length ((λ k, cand n (Nat.iter k nxt 0%N)) <$> ks) ≤ size U).
  { apply nodup_bound.
    - apply NoDup_fmap_2; [|apply NoDup_seq].
      intros x y Hxy. unfold cand in Hxy. apply (inj (pre n)) in Hxy. apply (inj pretty) in Hxy.
      destruct (lt_eq_lt_dec x y) as [[Hl|Hl]|Hl]; [|done|]; apply (iter_nxt_lt _ _ 0%N) in Hl; lia.
    - intros x Hx. apply elem_of_list_fmap in Hx as (k & -> & Hk). apply Hall. subst ks. apply elem_of_seq in Hk. lia. }
  subst ks. rewrite fmap_length, seq_length in Hlen. lia.
Qed.

(* both readers: the constant nodes never take the name of an identifier of the text *)
Corollary fast_ties_fresh a : tie_name (idents a) fast_tie0 ∉ idents a ∧ tie_name (idents a) fast_tie1 ∉ idents a.
Proof. split; apply tie_name_fresh. Qed.
Corollary full_ties_fresh a (g : circuit) base : uid_in (dom g ∪ idents a) base ∉ idents a.
Proof. intros H. apply (uid_in_fresh (dom g ∪ idents a) base). set_solver. Qed.

(* ---- obligations on the regenerated tables *)
Definition prefixb (p s : string) : bool := bool_decide (String.substring 0 (String.length p) s = p).
Fixpoint containsb (fuel : nat) (p s : string) : bool :=
  prefixb p s || match fuel, s with S f, String _ r => containsb f p r | _, _ => false end.
Definition contains (p s : string) : bool := containsb (String.length s) p s.
(* the documented patterns, in call order (flags: 16 = DOTALL) *)
Definition documented_patterns : list (string * nat) :=
  [ ("module\s+(.+?)\s*\(.*?\);", 16); ("endmodule", 16); ("\b(input)\s(.+?);", 16); ("[A-Za-z_][A-Za-z0-9_$]*", 0);
    ("([a-zA-Z_][a-zA-Z\d_]*)\s+([a-zA-Z_][a-zA-Z\d_]*)\s*\(([^;]+)\);", 16);
    ("\.\s*([^\s(]+)\s*\(\s*([^\s)]*)\s*\)", 0);
    ("assign\s+([a-zA-Z_][a-zA-Z\d_]*)\s*=\s*([a-zA-Z\d_][a-zA-Z\d_']*)\s*;", 0); ("\b(output)\s(.+?);", 16) ].
Definition fastv_tables_ok : bool :=
  (* keyword patterns are anchored at a word boundary *)
  prefixb "\b(input)\s" fast_re_input && prefixb "\b(output)\s" fast_re_output &&
  (* blanks between instance name and `(` are optional; identifiers may start with an underscore *)
  contains ")\s*\(" fast_re_inst && prefixb "([a-zA-Z_]" fast_re_inst && contains "\s+([a-zA-Z_]" fast_re_inst &&
  contains "assign\s+([a-zA-Z_]" fast_re_assign && contains "=\s*([a-zA-Z\d_]" fast_re_assign &&
  (* pin and net names stop at blanks and parentheses; the net may be empty *)
  contains "([^\s(]+)" fast_re_pin && contains "([^\s)]*)" fast_re_pin &&
  (* whole patterns as documented *)
  bool_decide (fast_patterns = documented_patterns) &&
  (* constant spellings: what the fast reader replaces is a constant of the same value for the grammar of the full reader;
     the documented spellings 1'b0 / 1'b1 are replaced at all three places *)
  bool_decide (fast_gate_c0 ∈ full_c0) && bool_decide (fast_gate_c1 ∈ full_c1) &&
  bool_decide (fast_pin_c0 ∈ full_c0) && bool_decide (fast_pin_c1 ∈ full_c1) &&
  bool_decide (fast_gate_c0 = "1'b0") && bool_decide (fast_gate_c1 = "1'b1") &&
  bool_decide (fast_pin_c0 = "1'b0") && bool_decide (fast_pin_c1 = "1'b1") &&
  bool_decide ("1'b0" ∈ fast_assign_c0) && bool_decide ("1'b1" ∈ fast_assign_c1) &&
  bool_decide ("1'b0" ∈ full_c0) && bool_decide ("1'b1" ∈ full_c1) &&
  bool_decide (list_to_set fast_assign_c0 ## (list_to_set fast_assign_c1 : gset string)) &&
  bool_decide (list_to_set full_c0 ## (list_to_set full_c1 : gset string)) &&
  (* tie base names are distinct, non-empty, and differ between 0 and 1 *)
  negb (bool_decide (fast_tie0 = fast_tie1)) && negb (bool_decide (full_tie0 = full_tie1)) &&
  negb (bool_decide (full_tie0 = full_tiex)) && negb (bool_decide (full_tie1 = full_tiex)) &&
  (* the parity list of the cancellation rule is exactly xor, xnor *)
  forallb (λ t, bool_decide (bool_decide (parity_name t ∈ fast_parity) = is_parity t))
          [Buf; And; Or; Xor; Not; Nand; Nor; Xnor].

(* ---- the full statement and its per-case decision *)
Definition agreement (a : ast) (bbs : list bbdef) : Prop :=
  ∃ Cf Cl, fast_sem a bbs = Ok Cf ∧ full_sem a bbs = Ok Cl ∧ untie Cf = untie Cl.
Definition agreementb (a : ast) (bbs : list bbdef) : bool :=
  match fast_sem a bbs, full_sem a bbs with Ok Cf, Ok Cl => bool_decide (untie Cf = untie Cl) | _, _ => false end.
Lemma agreementb_spec a bbs : agreementb a bbs = true ↔ agreement a bbs.
Proof.
  unfold agreementb, agreement. split.
  - destruct (fast_sem a bbs) as [Cf| | |], (full_sem a bbs) as [Cl| | |]; try done.
    intros H%bool_decide_eq_true. eauto.
  - intros (Cf & Cl & -> & -> & H). by apply bool_decide_eq_true.
Qed.
(* equality of the untied graphs already contains: same name, same registry, same inputs / outputs / types up to the constants *)
Lemma untie_eq_registry Cf Cl : untie Cf = untie Cl → c_name Cf = c_name Cl ∧ c_bbs Cf = c_bbs Cl.
Proof. unfold untie, with_g. intros [= H1 _ H2]. done. Qed.

(* ---- the exhaustive-evaluation oracle decides the functional clause of the property *)
Lemma endpoints_dom c n : n ∈ endpoints c → n ∈ dom c.
Proof.
  unfold endpoints. rewrite elem_of_union, elem_of_outputs, elem_of_of_type.
  intros [(i & Hi & _)|(i & Hi & _)]; by apply elem_of_dom.
Qed.
Theorem same_function_sound Cf Cl : same_function Cf Cl = true → same_function_decided Cf Cl = true →
  ∀ vf vl, consistent (c_g Cf) vf → consistent (c_g Cl) vl → agrees (free_nodes (c_g Cf)) vf vl →
    agrees (endpoints (c_g Cf)) vf vl.
Proof.
  unfold same_function, same_function_decided. intros H Hd. rewrite Hd in H.
  apply andb_true_iff in H as [H Hall]. apply andb_true_iff in H as [Hfree Hend].
  apply bool_decide_eq_true in Hfree. apply bool_decide_eq_true in Hend.
  repeat (apply andb_true_iff in Hd as [Hd ?]).
  intros vf vl Hvf Hvl Hag n Hn.
  destruct (all_vals_complete (elements (free_nodes (c_g Cf))) vf) as (w & Hw & Hwv).
  rewrite forallb_forall in Hall. specialize (Hall w). rewrite <- elem_of_list_In in Hall. specialize (Hall Hw).
  repeat (apply andb_true_iff in Hall as [Hall ?]).
  match goal with H : eq_on (elements (endpoints _)) _ _ = true |- _ => rename H into Heq end.
  match goal with H : eq_on _ (fev (c_g Cl) _ _) w = true |- _ => rename H into Hlw end.
  match goal with H : eq_on _ (fev (c_g Cf) _ _) w = true |- _ => rename H into Hfw end.
  match goal with H : consistentb (c_g Cl) _ = true |- _ => rename H into Hcl end.
  rename Hall into Hcf.
  rewrite eq_on_spec in Heq, Hlw, Hfw. apply consistentb_spec in Hcf, Hcl.
  assert (Hf : agrees (dom (c_g Cf)) vf (fev (c_g Cf) (node_order (c_g Cf)) w)).
  { destruct (acyclicb_sound (c_g Cf)) as [rank Hr]; [done|].
    apply (consistent_unique (c_g Cf) rank Hr); [by apply closedb_spec|done|done|].
    intros m Hm. rewrite Hfw by by apply elem_of_elements. symmetry. apply Hwv. by apply elem_of_elements. }
  assert (Hl : agrees (dom (c_g Cl)) vl (fev (c_g Cl) (node_order (c_g Cl)) w)).
  { destruct (acyclicb_sound (c_g Cl)) as [rank Hr]; [done|].
    apply (consistent_unique (c_g Cl) rank Hr); [by apply closedb_spec|done|done|].
    intros m Hm. rewrite <- Hfree in Hm. rewrite Hlw by by apply elem_of_elements.
    rewrite <- (Hag m Hm). symmetry. apply Hwv. by apply elem_of_elements. }
  rewrite (Hf n) by by apply endpoints_dom. rewrite (Hl n) by (apply endpoints_dom; by rewrite <- Hend).
  apply Heq. by apply elem_of_elements.
Qed.

(* ---- both readers register the same blackbox instances under the same module name (no guard on the AST) *)
Lemma rbind_ok {A B} (x : res A) (f : A → res B) b : rbind x f = Ok b → ∃ a, x = Ok a ∧ f a = Ok b.
Proof. destruct x; simpl; try done. eauto. Qed.
Lemma foldl_rbind_not_ok {A B} (f : A → B → res A) l (x : res A) :
  (∀ a, x ≠ Ok a) → ∀ a, foldl (λ st it, rbind st (λ s, f s it)) x l ≠ Ok a.
Proof. revert x. induction l as [|y l IH]; intros x Hx a; simpl; [apply Hx|]. apply IH. intros a'. destruct x; simpl; try done. by destruct (Hx a0). Qed.

Definition reg_item (look : string → option bbdef) (it : item) : list (string * bbdef) :=
  match it with IInst bb inst _ => match look bb with Some d => [(inst, d)] | None => [] end | _ => [] end.

Lemma fast_pins_bbs t0 t1 inst d conns (st : res scan) s2 :
  foldl (λ (st : res scan) (c : string * option opd),
     match st, c.2 with
     | Ok s, Some o =>
         let net := fast_pin_opd t0 t1 o in
         if bool_decide (c.1 ∈ bb_in d) then
           Ok {| s_adds := s_adds s; s_edges := s_edges s ++ [(net, pin inst c.1)]; s_bbs := s_bbs s |}
         else if bool_decide (c.1 ∈ bb_out d) then
           Ok {| s_adds := s_adds s ++ [(Buf, net)]; s_edges := s_edges s ++ [(pin inst c.1, net)]; s_bbs := s_bbs s |}
         else Raise ValueError
     | st, _ => st end) st conns = Ok s2 → ∃ s1, st = Ok s1 ∧ s_bbs s2 = s_bbs s1.
Proof.
  revert st. induction conns as [|c conns IH]; intros st H; simpl in H; [eauto|].
  apply IH in H as (s1 & H1 & H2). destruct st as [s| | |]; try (destruct c.2; done).
  exists s. split; [done|]. rewrite H2. destruct c.2; [|by injection H1 as <-].
  repeat case_bool_decide; try done; injection H1 as <-; done.
Qed.

Lemma fast_inst_bbs t0 t1 bbs s it s' : fast_inst t0 t1 bbs s it = Ok s' →
  s_bbs s' = (s_bbs s ++ reg_item (find_bb_first bbs) it)%list.
Proof.
  destruct it as [ns|ns|ns|t inst ops|l r|bb inst conns]; simpl; try (intros [= <-]; by rewrite app_nil_r).
  - destruct (fast_gate_opd t0 t1 <$> ops) as [|out ins]; [done|].
    destruct (if bool_decide (parity_name t ∈ Gen_fastv.fast_parity) then _ else _) as [t' ins']. intros [= <-]. simpl. by rewrite app_nil_r.
  - destruct (find_bb_first bbs bb) as [d|]; [|done]. intros H. apply rbind_ok in H as (s2 & H2 & [= <-]). simpl.
    apply fast_pins_bbs in H2 as (s1 & [= <-] & ->). done.
Qed.

Lemma fast_scan_bbs t0 t1 bbs items s0 s' :
  foldl (λ st it, rbind st (λ s, fast_inst t0 t1 bbs s it)) (Ok s0) items = Ok s' →
  s_bbs s' = (s_bbs s0 ++ (items ≫= reg_item (find_bb_first bbs)))%list.
Proof.
  revert s0. induction items as [|it items IH]; intros s0 H; simpl in *; [injection H as <-; by rewrite app_nil_r|].
  destruct (fast_inst t0 t1 bbs s0 it) as [s1| | |] eqn:E; try (by eapply foldl_rbind_not_ok in H).
  apply IH in H. rewrite H. apply fast_inst_bbs in E. rewrite E. by rewrite <- app_assoc.
Qed.
Lemma fast_assign_bbs t0 t1 items s : s_bbs (foldl (fast_assign t0 t1) s items) = s_bbs s.
Proof. revert s. induction items as [|it items IH]; intros s; simpl; [done|]. rewrite IH. by destruct it. Qed.

Lemma fast_sem_bbs a bbs C : fast_sem a bbs = Ok C →
  c_name C = a_name a ∧ c_bbs C = foldl (λ m p, <[p.1 := p.2]> m) ∅ (a_items a ≫= reg_item (find_bb_first bbs)).
Proof.
  unfold fast_sem. intros H. apply rbind_ok in H as (s1 & Hs & H).
  destruct (set_output_g _ _ _) as [g4 o]. destruct o; [|done]. injection H as <-. simpl. split; [done|].
  rewrite fast_assign_bbs. apply fast_scan_bbs in Hs. by rewrite Hs.
Qed.

Lemma rmap_ok {A B} (f : A → B) x b : rmap f x = Ok b → ∃ a, x = Ok a ∧ b = f a.
Proof. unfold rmap. intros H. apply rbind_ok in H as (a & -> & [= <-]). eauto. Qed.

Lemma add_blackbox_bbs C d inst ins outs conns C' : add_blackbox C d inst ins outs conns = (C', Done) →
  c_bbs C' = <[inst := d]> (c_bbs C).
Proof.
  unfold add_blackbox. case_bool_decide; [done|].
  destruct (foldl _ _ _) as [[g io] o].
  match goal with |- context [match ?r.2 with _ => _ end] => set (rr := r) end.
  destruct (rr.2) as [|e] eqn:E.
  - intros [= <-]. done.
  - destruct e; intros [= <- ?]; done.
Qed.

Lemma full_item_bbs t0 t1 tx bbs C it C' : full_item t0 t1 tx bbs C it = Ok C' →
  c_bbs C' = foldl (λ m p, <[p.1 := p.2]> m) (c_bbs C) (reg_item (find_bb_last bbs) it).
Proof.
  destruct it as [ns|ns|ns|t inst ops|l r|bb inst conns]; simpl.
  - intros H. apply rmap_ok in H as (g & _ & ->). done.
  - by intros [= <-].
  - by intros [= <-].
  - intros H. apply rbind_ok in H as (names & _ & H). destruct names as [|out ins]; [done|].
    destruct (if is_parity t then _ else _) as [t' ins']. apply rmap_ok in H as (g & _ & ->). done.
  - intros H. apply rbind_ok in H as (e & _ & H). case_bool_decide; [by injection H as <-|].
    apply rmap_ok in H as (g & _ & ->). done.
  - intros H. apply rbind_ok in H as (cs & _ & H). destruct (find_bb_last bbs bb) as [d|]; [|done].
    apply rbind_ok in H as (g1 & _ & H). apply rbind_ok in H as (g2 & _ & H).
    destruct (add_blackbox _ _ _ _ _ _) as [C2 o] eqn:E. destruct o; [|done]. injection H as <-.
    apply add_blackbox_bbs in E. done.
Qed.

Lemma full_items_bbs t0 t1 tx bbs items C0 C' :
  foldl (λ st it, rbind st (λ C, full_item t0 t1 tx bbs C it)) (Ok C0) items = Ok C' →
  c_bbs C' = foldl (λ m p, <[p.1 := p.2]> m) (c_bbs C0) (items ≫= reg_item (find_bb_last bbs)).
Proof.
  revert C0. induction items as [|it items IH]; intros C0 H; simpl in *; [by injection H as <-|].
  destruct (full_item t0 t1 tx bbs C0 it) as [C1| | |] eqn:E; try (by eapply foldl_rbind_not_ok in H).
  apply IH in H. rewrite H. apply full_item_bbs in E. rewrite E. by rewrite foldl_app.
Qed.

Lemma full_sem_bbs a bbs C : full_sem a bbs = Ok C →
  c_name C = a_name a ∧ c_bbs C = foldl (λ m p, <[p.1 := p.2]> m) ∅ (a_items a ≫= reg_item (find_bb_last bbs)).
Proof.
  unfold full_sem. intros H.
  apply rbind_ok in H as (g0 & _ & H). apply rbind_ok in H as (g1 & _ & H). apply rbind_ok in H as (g2 & _ & H).
  apply rbind_ok in H as (C1 & HC & H).
  destruct (negb _ || negb _ || negb _); [done|].
  destruct (set_output_g _ _ _) as [g4 o]. destruct o; [|done]. injection H as <-. simpl. split; [done|].
  apply full_items_bbs in HC. done.
Qed.

(* with unambiguous blackbox definitions both lookups coincide *)
Lemma nodup_fmap_inj_on {A B} (f : A → B) (l : list A) x y : NoDup (f <$> l) → x ∈ l → y ∈ l → f x = f y → x = y.
Proof.
  induction l as [|z l IH]; intros Hnd Hx Hy Hf; [by apply elem_of_nil in Hx|].
  rewrite fmap_cons in Hnd. apply NoDup_cons in Hnd as [Hz Hnd].
  apply elem_of_cons in Hx as [->|Hx], Hy as [->|Hy]; [done| | |by apply IH].
  - exfalso. apply Hz. rewrite Hf. by apply elem_of_list_fmap_1.
  - exfalso. apply Hz. rewrite <- Hf. by apply elem_of_list_fmap_1.
Qed.
Lemma find_bb_first_spec bbs n d : NoDup (bb_name <$> bbs) → find_bb_first bbs n = Some d ↔ d ∈ bbs ∧ bb_name d = n.
Proof.
  intros Hnd. unfold find_bb_first. split.
  - destruct (list_find _ bbs) as [[i d']|] eqn:E; [|done]. intros [= <-]. apply list_find_Some in E as (Hi & Hn & _).
    split; [by eapply elem_of_list_lookup_2|done].
  - intros [Hd Hn]. destruct (list_find_elem_of (λ d, bb_name d = n) bbs d Hd Hn) as [[i d'] E]. rewrite E. simpl. f_equal.
    apply list_find_Some in E as (Hi & Hn' & _). apply (nodup_fmap_inj_on bb_name bbs); [done|by eapply elem_of_list_lookup_2|done|congruence].
Qed.
Lemma find_bb_first_last bbs n : NoDup (bb_name <$> bbs) → find_bb_last bbs n = find_bb_first bbs n.
Proof.
  intros Hnd. unfold find_bb_last.
  assert (Hnd' : NoDup (bb_name <$> reverse bbs)) by (rewrite fmap_reverse; apply (NoDup_Permutation_proper _ _ (reverse_Permutation _)); done).
  destruct (find_bb_first bbs n) as [d|] eqn:E.
  - apply find_bb_first_spec in E as [Hd Hn]; [|done]. apply find_bb_first_spec; [done|]. split; [by rewrite elem_of_reverse|done].
  - destruct (find_bb_first (reverse bbs) n) as [d|] eqn:E'; [|done].
    apply find_bb_first_spec in E' as [Hd Hn]; [|done]. rewrite elem_of_reverse in Hd.
    assert (find_bb_first bbs n = Some d) by (apply find_bb_first_spec; [done|split; done]). congruence.
Qed.

Theorem registry_agree a bbs Cf Cl : NoDup (bb_name <$> bbs) → fast_sem a bbs = Ok Cf → full_sem a bbs = Ok Cl →
  c_name Cf = c_name Cl ∧ c_bbs Cf = c_bbs Cl.
Proof.
  intros Hnd [Hn1 Hb1]%fast_sem_bbs [Hn2 Hb2]%full_sem_bbs. split; [congruence|]. rewrite Hb1, Hb2. f_equal.
  clear Hb1 Hb2. induction (a_items a) as [|it items IH]; [done|]. rewrite !bind_cons, IH. f_equal.
  destruct it; simpl; try done. by rewrite find_bb_first_last.
Qed.

(* ---- graphs identical up to the names of the constant nodes have the same consistent valuations *)
Definition support (c : circuit) : gset string := dom c ∪ map_fold (λ _ i acc, n_fi i ∪ acc) ∅ c.
Lemma support_dom c n : n ∈ dom c → n ∈ support c.
Proof. unfold support. set_solver. Qed.
Lemma support_fi c n i f : c !! n = Some i → f ∈ n_fi i → f ∈ support c.
Proof.
  intros Hn Hf. unfold support. apply elem_of_union_r. revert n i Hn Hf.
  apply (map_fold_ind (λ acc c, ∀ n i, c !! n = Some i → f ∈ n_fi i → f ∈ acc)); [done|].
  intros k j m acc Hk IH n i Hn Hf. apply lookup_insert_Some in Hn as [[-> ->]|[_ Hn]]; [set_solver|].
  apply elem_of_union_r. eauto.
Qed.

Lemma set_map_ext_in (ρ σ : string → string) (s : gset string) :
  (∀ x, x ∈ s → ρ x = σ x) → (set_map ρ s : gset string) = set_map σ s.
Proof.
  intros H. apply set_eq. intros y. rewrite !elem_of_map. split; intros (x & -> & Hx); exists x; split; auto.
  symmetry; auto.
Qed.

Lemma rename_g_ext (ρ σ : string → string) `{!Inj (=) (=) σ} (c : circuit) :
  (∀ n, n ∈ support c → ρ n = σ n) → rename_g ρ c = rename σ c.
Proof.
  intros H. unfold rename_g, rename.
  assert (Hf : upd_fi (set_map ρ) <$> c = ren_info σ <$> c).
  { apply map_fmap_ext. intros n i Hn. unfold upd_fi, ren_info. f_equal.
    apply set_map_ext_in. intros x Hx. apply H. by eapply support_fi. }
  rewrite Hf. unfold kmap. f_equal. apply list_fmap_ext. intros k [n i] Hk. unfold prod_map. simpl. f_equal.
  apply H, support_dom. apply elem_of_list_lookup_2 in Hk. apply elem_of_map_to_list in Hk.
  rewrite lookup_fmap in Hk. apply elem_of_dom. destruct (c !! n); [eauto|done].
Qed.

(* the renaming of one reader's constant nodes as a global involution: three transpositions *)
Definition tie_swap (t0 t1 tx : string) (n : string) : string :=
  if decide (n = t0) then "1'b0" else if decide (n = "1'b0") then t0 else
  if decide (n = t1) then "1'b1" else if decide (n = "1'b1") then t1 else
  if decide (n = tx) then "1'bx" else if decide (n = "1'bx") then tx else n.
Definition distinct6 (t0 t1 tx : string) : Prop := NoDup [t0; t1; tx; "1'b0"; "1'b1"; "1'bx"].
Lemma tie_swap_invol t0 t1 tx n : distinct6 t0 t1 tx → tie_swap t0 t1 tx (tie_swap t0 t1 tx n) = n.
Proof.
  unfold distinct6. rewrite !NoDup_cons. rewrite !elem_of_cons. intros H.
  unfold tie_swap. repeat (case_decide; subst; try done); exfalso; naive_solver.
Qed.
Lemma tie_swap_inj t0 t1 tx : distinct6 t0 t1 tx → Inj (=) (=) (tie_swap t0 t1 tx).
Proof. intros H a b Hab. rewrite <- (tie_swap_invol t0 t1 tx a H), Hab. by apply tie_swap_invol. Qed.
Lemma tie_swap_id t0 t1 tx n : n ∉ [t0; t1; tx; "1'b0"; "1'b1"; "1'bx"] → tie_swap t0 t1 tx n = n.
Proof. rewrite !elem_of_cons. intros H. unfold tie_swap. repeat (case_decide; subst; try done); exfalso; naive_solver. Qed.

(* shape of a reader's result: on every name the graph mentions, the canonical renaming is that involution *)
Definition tie_shape (c : circuit) (t0 t1 tx : string) : Prop :=
  distinct6 t0 t1 tx ∧ ∀ n, n ∈ support c → cname c n = tie_swap t0 t1 tx n.

Lemma consistent_ext c (v v' : val) : (∀ n, v n = v' n) → consistent c v → consistent c v'.
Proof.
  intros H Hc n i Hn. specialize (Hc n i Hn). unfold node_ok in *. destruct (is_free i); [done|]. rewrite <- (H n).
  destruct (n_ty i); try done; rewrite <- (gate_val_ext _ v v'); try done; intros m _; apply H.
Qed.

Theorem untie_same_function cf cl f0 f1 fx l0 l1 lx :
  tie_shape cf f0 f1 fx → tie_shape cl l0 l1 lx → untie_g cf = untie_g cl →
  ∀ vf, consistent cf vf → ∃ vl, consistent cl vl ∧
    ∀ n, n ∉ [f0; f1; fx; "1'b0"; "1'b1"; "1'bx"] → n ∉ [l0; l1; lx; "1'b0"; "1'b1"; "1'bx"] → vl n = vf n.
Proof.
  intros [Hdf Hf] [Hdl Hl] Heq vf Hvf.
  pose proof (tie_swap_inj _ _ _ Hdf) as Hif. pose proof (tie_swap_inj _ _ _ Hdl) as Hil.
  assert (E1 : untie_g cf = rename (tie_swap f0 f1 fx) cf) by (apply (rename_g_ext _ _ cf); exact Hf).
  assert (E2 : untie_g cl = rename (tie_swap l0 l1 lx) cl) by (apply (rename_g_ext _ _ cl); exact Hl).
  rewrite E1, E2 in Heq.
  exists (vf ∘ tie_swap f0 f1 fx ∘ tie_swap l0 l1 lx). split.
  - apply (proj1 (consistent_rename (tie_swap l0 l1 lx) cl (vf ∘ tie_swap f0 f1 fx))). rewrite <- Heq.
    apply (proj2 (consistent_rename (tie_swap f0 f1 fx) cf (vf ∘ tie_swap f0 f1 fx))).
    apply (consistent_ext cf vf); [|done]. intros m. simpl. by rewrite tie_swap_invol.
  - intros n Hnf Hnl. simpl. by rewrite (tie_swap_id l0 l1 lx), (tie_swap_id f0 f1 fx).
Qed.

(* executable version for the oracle / examples: the tie names are read off the graph *)
Definition pick_tie (c : circuit) (t : gtype) (d : string) : string :=
  match elements (of_type c (is_ty t)) with [n] => n | _ => d end.
Definition tie_shapeb (c : circuit) : bool :=
  let t0 := pick_tie c C0 "?0" in let t1 := pick_tie c C1 "?1" in let tx := pick_tie c CX "?x" in
  bool_decide (NoDup [t0; t1; tx; "1'b0"; "1'b1"; "1'bx"]) &&
  forallb (λ n, bool_decide (cname c n = tie_swap t0 t1 tx n)) (elements (support c)).
Lemma tie_shapeb_spec c : tie_shapeb c = true → ∃ t0 t1 tx, tie_shape c t0 t1 tx.
Proof.
  unfold tie_shapeb. intros [Hd Hall]%andb_true_iff. apply bool_decide_eq_true in Hd.
  eexists _, _, _. split; [exact Hd|]. intros n Hn. rewrite forallb_forall in Hall.
  specialize (Hall n). rewrite <- elem_of_list_In, elem_of_elements in Hall. apply Hall in Hn. by apply bool_decide_eq_true in Hn.
Qed.

(* ---- the fast reader's scans never raise inside the subset *)
Lemma fast_pins_ok t0 t1 inst d conns s :
  forallb (λ c : string * option opd, (bool_decide (c.1 ∈ bb_in d) || bool_decide (c.1 ∈ bb_out d)) &&
                        match c.2 with None => true | Some o => const_ok o && (is_net o || bool_decide (c.1 ∈ bb_in d)) end) conns = true →
  ∃ s2, foldl (λ (st : res scan) (c : string * option opd),
     match st, c.2 with
     | Ok s, Some o =>
         let net := fast_pin_opd t0 t1 o in
         if bool_decide (c.1 ∈ bb_in d) then
           Ok {| s_adds := s_adds s; s_edges := s_edges s ++ [(net, pin inst c.1)]; s_bbs := s_bbs s |}
         else if bool_decide (c.1 ∈ bb_out d) then
           Ok {| s_adds := s_adds s ++ [(Buf, net)]; s_edges := s_edges s ++ [(pin inst c.1, net)]; s_bbs := s_bbs s |}
         else Raise ValueError
     | st, _ => st end) (Ok s) conns = Ok s2.
Proof.
  revert s. induction conns as [|c conns IH]; intros s H; simpl in *; [eauto|].
  apply andb_true_iff in H as [Hc H]. apply andb_true_iff in Hc as [Hpin _].
  destruct c.2 as [o|]; [|by apply IH].
  apply orb_true_iff in Hpin. repeat case_bool_decide; try (by apply IH). by destruct Hpin.
Qed.

Lemma fast_inst_ok t0 t1 bbs s it : item_ok bbs it = true → ∃ s', fast_inst t0 t1 bbs s it = Ok s'.
Proof.
  destruct it as [ns|ns|ns|t inst ops|l r|bb inst conns]; simpl; eauto.
  - intros H. repeat (apply andb_true_iff in H as [H ?]).
    destruct ops as [|o ops]; [done|]. simpl.
    destruct (if bool_decide (parity_name t ∈ Gen_fastv.fast_parity) then _ else _) as [t' ins']. eauto.
  - destruct (find_bb_first bbs bb) as [d|]; [|done]. intros H. repeat (apply andb_true_iff in H as [H ?]).
    match goal with Hf : forallb _ conns = true |- _ => eapply (fast_pins_ok t0 t1 inst d conns) in Hf as [s2 Hs2] end.
    rewrite Hs2. simpl. eauto.
Qed.

Lemma fast_scan_ok t0 t1 bbs items s0 : forallb (item_ok bbs) items = true →
  ∃ s', foldl (λ st it, rbind st (λ s, fast_inst t0 t1 bbs s it)) (Ok s0) items = Ok s'.
Proof.
  revert s0. induction items as [|it items IH]; intros s0 H; simpl in *; [eauto|].
  apply andb_true_iff in H as [Hi H]. destruct (fast_inst_ok t0 t1 bbs s0 it Hi) as [s1 ->]. by apply IH.
Qed.

Lemma ident_gate_opd t0 t1 s : is_ident s = true → fast_gate_opd t0 t1 (ONet s) = s.
Proof.
  intros H. unfold fast_gate_opd. simpl. repeat case_bool_decide; subst; try done; vm_compute in H; discriminate.
Qed.
Lemma ident_pin_opd t0 t1 s : is_ident s = true → fast_pin_opd t0 t1 (ONet s) = s.
Proof.
  intros H. unfold fast_pin_opd. simpl. repeat case_bool_decide; subst; try done; vm_compute in H; discriminate.
Qed.

Definition names (s : scan) : list string := snd <$> s_adds s.

(* nets driven by the pins of one instance end up in all_nets *)
Lemma fast_pins_adds t0 t1 inst d conns (st : res scan) s2 :
  foldl (λ (st : res scan) (c : string * option opd),
     match st, c.2 with
     | Ok s, Some o =>
         let net := fast_pin_opd t0 t1 o in
         if bool_decide (c.1 ∈ bb_in d) then
           Ok {| s_adds := s_adds s; s_edges := s_edges s ++ [(net, pin inst c.1)]; s_bbs := s_bbs s |}
         else if bool_decide (c.1 ∈ bb_out d) then
           Ok {| s_adds := s_adds s ++ [(Buf, net)]; s_edges := s_edges s ++ [(pin inst c.1, net)]; s_bbs := s_bbs s |}
         else Raise ValueError
     | st, _ => st end) st conns = Ok s2 → bb_in d ∩ bb_out d = ∅ →
  ∃ s1, st = Ok s1 ∧ (∀ n, n ∈ names s1 → n ∈ names s2) ∧
    ∀ p n, (p, Some (ONet n)) ∈ conns → p ∈ bb_out d → is_ident n = true → n ∈ names s2.
Proof.
  intros H Hdisj. revert st H. induction conns as [|c conns IH]; intros st H; simpl in H.
  - exists s2. split; [done|]. split; [done|]. intros p n Hin. by apply elem_of_nil in Hin.
  - apply IH in H as (s1 & H1 & Hmono & Hpins). destruct st as [s| | |]; try (destruct c.2; done).
    exists s. split; [done|]. destruct c as [p o]. simpl in *. destruct o as [o|].
    + assert (Hstep : (∀ n, n ∈ names s → n ∈ names s1) ∧
                      (p ∈ bb_out d → ∀ n, o = ONet n → is_ident n = true → n ∈ names s1)).
      { repeat case_bool_decide; try done; injection H1 as <-; unfold names; simpl.
        - split; [done|]. intros Hp. set_solver.
        - split; [intros n Hn; rewrite fmap_app; apply elem_of_app; by left|].
          intros _ n -> Hid. replace (fast_pin_opd t0 t1 (ONet n)) with n by (symmetry; by apply ident_pin_opd). rewrite fmap_app. apply elem_of_app. right. simpl. by left. }
      destruct Hstep as [Hm1 Hp1]. split; [auto|].
      intros p' n Hin Hp' Hid. apply elem_of_cons in Hin as [[= -> <-]|Hin]; [apply Hmono; by eapply Hp1|by eapply Hpins].
    + injection H1 as <-. split; [done|]. intros p' n Hin Hp' Hid.
      apply elem_of_cons in Hin as [Hin|Hin]; [done|by eapply Hpins].
Qed.

(* nets driven by instances (gates, blackbox output pins) are appended to all_nets *)
Definition inst_drivers (bbs : list bbdef) (it : item) : list string :=
  match it with IAssign _ _ => [] | _ => item_drivers bbs it end.
Lemma fast_inst_adds t0 t1 bbs s it s' : fast_inst t0 t1 bbs s it = Ok s' → item_ok bbs it = true →
  (∀ n, n ∈ names s → n ∈ names s') ∧ ∀ n, n ∈ inst_drivers bbs it → is_ident n = true → n ∈ names s'.
Proof.
  destruct it as [ns|ns|ns|t inst ops|l r|bb inst conns]; simpl;
    try (intros [= <-] _; split; [done|]; intros n Hn; by apply elem_of_nil in Hn).
  - destruct ops as [|o ops]; [done|]. simpl.
    destruct (if bool_decide (parity_name t ∈ Gen_fastv.fast_parity) then _ else _) as [t' ins']. intros [= <-] _.
    unfold names. simpl. split; [intros n Hn; rewrite fmap_app; apply elem_of_app; by left|].
    intros n Hn Hid. destruct o as [o|o]; [|by apply elem_of_nil in Hn]. apply elem_of_list_singleton in Hn as ->.
    rewrite fmap_app. apply elem_of_app. right. simpl. rewrite ident_gate_opd by done. by left.
  - destruct (find_bb_first bbs bb) as [d|]; [|done]. intros H Hok. apply rbind_ok in H as (s2 & H2 & [= <-]).
    repeat (apply andb_true_iff in Hok as [Hok ?]).
    match goal with Hd : bool_decide (bb_in d ∩ bb_out d = ∅) = true |- _ => apply bool_decide_eq_true in Hd; rename Hd into Hdisj end.
    apply fast_pins_adds in H2 as (s1 & [= <-] & Hmono & Hpins); [|done]. unfold names in *. simpl in *. split.
    + intros n Hn. apply Hmono. rewrite !fmap_app. apply elem_of_app. by left.
    + intros n Hn Hid. apply elem_of_list_bind in Hn as ([p o] & Hn & Hc). simpl in Hn.
      destruct o as [[o|o]|]; try (by apply elem_of_nil in Hn). case_bool_decide; [|by apply elem_of_nil in Hn].
      apply elem_of_list_singleton in Hn as ->. by eapply Hpins.
Qed.

Lemma fast_scan_adds t0 t1 bbs items s0 s' :
  foldl (λ st it, rbind st (λ s, fast_inst t0 t1 bbs s it)) (Ok s0) items = Ok s' → forallb (item_ok bbs) items = true →
  (∀ n, n ∈ names s0 → n ∈ names s') ∧ ∀ n, n ∈ items ≫= inst_drivers bbs → is_ident n = true → n ∈ names s'.
Proof.
  revert s0. induction items as [|it items IH]; intros s0 H Hok; simpl in *.
  - injection H as <-. split; [done|]. intros n Hn. by apply elem_of_nil in Hn.
  - apply andb_true_iff in Hok as [Hi Hok].
    destruct (fast_inst t0 t1 bbs s0 it) as [s1| | |] eqn:E; try (by eapply foldl_rbind_not_ok in H).
    apply fast_inst_adds in E as [Hm1 Hd1]; [|done]. apply IH in H as [Hm2 Hd2]; [|done]. split; [auto|].
    intros n Hn Hid. apply elem_of_app in Hn as [Hn|Hn]; auto.
Qed.

Lemma fast_assign_adds t0 t1 items s :
  (∀ n, n ∈ names s → n ∈ names (foldl (fast_assign t0 t1) s items)) ∧
  ∀ l r, IAssign l r ∈ items → l ∈ names (foldl (fast_assign t0 t1) s items).
Proof.
  revert s. induction items as [|it items IH]; intros s; simpl.
  - split; [done|]. intros l r H. by apply elem_of_nil in H.
  - destruct (IH (fast_assign t0 t1 s it)) as [Hm Ha].
    assert (Hs : ∀ n, n ∈ names s → n ∈ names (fast_assign t0 t1 s it)).
    { intros n Hn. destruct it; try done. unfold names. simpl. rewrite fmap_app. apply elem_of_app. by left. }
    split; [auto|]. intros l r Hin. apply elem_of_cons in Hin as [<-|Hin]; [|by eapply Ha].
    apply Hm. unfold names. simpl. rewrite fmap_app. apply elem_of_app. right. by left.
Qed.

(* ---- graph construction keeps every node *)
Lemma foldl_insert_dom {A} (f : A → string) (h : A → ninfo) (l : list A) (g : circuit) n :
  n ∈ dom (foldl (λ g p, <[f p := h p]> g) g l) ↔ n ∈ dom g ∨ n ∈ f <$> l.
Proof.
  revert g. induction l as [|p l IH]; intros g; simpl.
  - split; [auto|]. intros [?|H]; [done|]. by apply elem_of_nil in H.
  - rewrite IH, dom_insert, elem_of_union, elem_of_singleton, elem_of_cons. tauto.
Qed.
Lemma grouped_elem (adds : list (gtype * string)) p : p ∈ grouped adds ↔ p ∈ adds.
Proof.
  unfold grouped. rewrite elem_of_list_bind. split.
  - intros (k & Hp & _). by apply elem_of_list_filter in Hp as [_ ?].
  - intros Hp. exists p.1. split; [by apply elem_of_list_filter|].
    apply elem_of_remove_dups. by apply elem_of_list_fmap_1.
Qed.
Lemma nx_add_edge_dom g e n : n ∈ dom g → n ∈ dom (nx_add_edge g e).
Proof.
  intros H. unfold nx_add_edge, add_edge. apply elem_of_dom. rewrite lookup_alter_is_Some. apply elem_of_dom.
  unfold ensure. repeat case_match; rewrite ?dom_insert; set_solver.
Qed.
Lemma foldl_nx_dom edges g n : n ∈ dom g → n ∈ dom (foldl nx_add_edge g edges).
Proof. revert g. induction edges as [|e edges IH]; intros g H; simpl; [done|]. by apply IH, nx_add_edge_dom. Qed.
Lemma set_output_ok outs (g : circuit) : (∀ o, o ∈ outs → o ∈ dom g) → ∃ g', set_output_g g outs true = (g', Done).
Proof.
  unfold set_output_g. revert g. induction outs as [|o outs IH]; intros g H; simpl; [eauto|].
  assert (Ho : o ∈ dom g) by (apply H; by left). apply elem_of_dom in Ho as [i Hi]. rewrite Hi.
  apply IH. intros o' Ho'. rewrite dom_insert. apply elem_of_union_r. apply H. by right.
Qed.

Lemma decl_outputs_idents a o : o ∈ decl_outputs a → o ∈ idents a.
Proof.
  unfold decl_outputs, idents. intros H. apply elem_of_list_bind in H as (it & Ho & Hit).
  apply elem_of_list_to_set. right. apply elem_of_app. right. apply elem_of_list_bind. exists it. split; [|done].
  destruct it; try (by apply elem_of_nil in Ho). done.
Qed.

(* the fast reader never raises inside the documented subset (no ValueError for an unknown blackbox or pin, no KeyError at the
   output marking) *)
Theorem fast_sem_succeeds a bbs : in_subset a bbs = true → ∃ C, fast_sem a bbs = Ok C.
Proof.
  unfold in_subset. intros H. repeat (apply andb_true_iff in H as [H ?]).
  rename H into Hitems.
  match goal with Hx : forallb _ (elements (idents a)) = true |- _ => rename Hx into Hids end.
  match goal with Hx : bool_decide (list_to_set (decl_outputs a) ⊆ _) = true |- _ => apply bool_decide_eq_true in Hx; rename Hx into Houts end.
  unfold fast_sem.
  set (t0 := tie_name (idents a) Gen_fastv.fast_tie0). set (t1 := tie_name (idents a) Gen_fastv.fast_tie1).
  destruct (fast_scan_ok t0 t1 bbs (a_items a) scan0 Hitems) as [s1 Hs1]. rewrite Hs1. simpl.
  pose proof (fast_scan_adds _ _ _ _ _ _ Hs1 Hitems) as [_ Hdrv].
  pose proof (fast_assign_adds t0 t1 (a_items a) s1) as [Hmono Hasg].
  set (s := foldl (fast_assign t0 t1) s1 (a_items a)) in *.
  match goal with |- context [set_output_g ?g _ _] => set (g3 := g) end.
  destruct (set_output_ok (decl_outputs a) g3) as [g4 Hg4]; [|rewrite Hg4; eauto].
  intros o Ho. subst g3. apply foldl_nx_dom.
  apply (foldl_insert_dom snd (λ p, mk_node p.1 false ∅)).
  assert (Hid : is_ident o = true).
  { rewrite forallb_forall in Hids. specialize (Hids o). rewrite <- elem_of_list_In, elem_of_elements in Hids.
    apply decl_outputs_idents, Hids in Ho. by apply andb_true_iff in Ho as [? _]. }
  assert (Hin : o ∈ (list_to_set (decl_outputs a) : gset string)) by by apply elem_of_list_to_set.
  apply Houts in Hin. apply elem_of_union in Hin as [Hin|Hin]; apply elem_of_list_to_set in Hin.
  - right. assert (Hn : o ∈ names s).
    { apply elem_of_list_bind in Hin as (it & Hoit & Hit). destruct it as [ns|ns|ns|t inst ops|l r|bb inst conns].
      1-3: by apply elem_of_nil in Hoit.
      - apply Hmono, Hdrv; [|done]. apply elem_of_list_bind. eexists. split; [|exact Hit]. done.
      - simpl in Hoit. apply elem_of_list_singleton in Hoit as ->. by eapply Hasg.
      - apply Hmono, Hdrv; [|done]. apply elem_of_list_bind. eexists. split; [|exact Hit]. done. }
    unfold names in Hn. apply elem_of_list_fmap in Hn as (p & -> & Hp). apply elem_of_list_fmap. exists p. split; [done|].
    by apply grouped_elem.
  - left. rewrite !dom_insert. apply elem_of_union_r, elem_of_union_r.
    apply (foldl_insert_dom (λ n : string, n) (λ _, mk_node Input false ∅)). right. by rewrite list_fmap_id.
Qed.

