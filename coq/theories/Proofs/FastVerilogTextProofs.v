(* C14, character level: split(",") + strip() + constant replacement recover the operand list from every rendering with
   arbitrary blanks around the operands. *)
From Coq Require Import Ascii.
From stdpp Require Import strings.
From CG Require Import Gen.Gen_fastv Model.FastVerilogText Model.FastVerilog.
Open Scope string_scope.

Fixpoint all_chars (P : ascii → bool) (s : string) : bool :=
  match s with EmptyString => true | String x r => P x && all_chars P r end.
Definition blanks := all_chars is_ws.
Definition no_ws := all_chars (λ c, negb (is_ws c)).
Definition no_char (c : ascii) := all_chars (λ x, negb (Ascii.eqb x c)).

Lemma sapp_cons x s t : String x s ++ t = String x (s ++ t). Proof. reflexivity. Qed.
Lemma sapp_nil t : EmptyString ++ t = t. Proof. reflexivity. Qed.
Ltac sapp := rewrite ?sapp_cons, ?sapp_nil; cbn [all_chars split_on lstrip rstrip blanks no_ws no_char].

Lemma all_chars_app P s t : all_chars P (s ++ t) = all_chars P s && all_chars P t.
Proof. induction s as [|x s IH]; sapp; [done|]. by rewrite IH, andb_assoc. Qed.

Lemma split_nosep c p : no_char c p = true → split_on c p = [p].
Proof.
  induction p as [|x p IH]; simpl; [done|]. intros [Hx Hp]%andb_true_iff. apply negb_true_iff in Hx. rewrite Hx, (IH Hp). done.
Qed.
Lemma split_app c p rest : no_char c p = true → split_on c (p ++ String c rest) = p :: split_on c rest.
Proof.
  induction p as [|x p IH]; sapp.
  - intros _. by rewrite Ascii.eqb_refl.
  - unfold no_char. cbn [all_chars]. intros [Hx Hp]%andb_true_iff. apply negb_true_iff in Hx. rewrite Hx, (IH Hp). done.
Qed.
Theorem split_join c ps : ps ≠ [] → Forall (λ p, no_char c p = true) ps → split_on c (join_with c ps) = ps.
Proof.
  induction ps as [|p ps IH]; [done|]. intros _ Hall. apply Forall_cons in Hall as [Hp Hps].
  destruct ps as [|q ps]; [by apply split_nosep|]. change (join_with c (p :: q :: ps)) with (p ++ String c (join_with c (q :: ps))).
  rewrite split_app by done. f_equal. by apply IH.
Qed.

Lemma lstrip_blanks l s : blanks l = true → lstrip (l ++ s) = lstrip s.
Proof. induction l as [|x l IH]; sapp; [done|]. unfold blanks; cbn [all_chars]. intros [Hx Hl]%andb_true_iff. rewrite Hx. by apply IH. Qed.
Lemma lstrip_no_ws s : no_ws s = true → lstrip s = s.
Proof. destruct s as [|x s]; simpl; [done|]. intros [Hx _]%andb_true_iff. apply negb_true_iff in Hx. by rewrite Hx. Qed.
Lemma rstrip_blanks r : blanks r = true → rstrip r = EmptyString.
Proof. induction r as [|x r IH]; simpl; [done|]. intros [Hx Hr]%andb_true_iff. rewrite (IH Hr), Hx. done. Qed.
Lemma rstrip_core s r : no_ws s = true → blanks r = true → rstrip (s ++ r) = s.
Proof.
  intros Hs Hr. induction s as [|x s IH]; sapp; [by apply rstrip_blanks|].
  unfold no_ws in Hs; cbn [all_chars] in Hs. fold (no_ws s) in Hs. apply andb_true_iff in Hs as [Hx Hs]. apply negb_true_iff in Hx. rewrite Hx, (IH Hs). done.
Qed.
Lemma lstrip_blanks_nil l : blanks l = true → lstrip l = EmptyString.
Proof. induction l as [|x l IH]; simpl; [done|]. intros [Hx Hl]%andb_true_iff. rewrite Hx. by apply IH. Qed.
Theorem strip_pad l s r : blanks l = true → no_ws s = true → blanks r = true → strip (l ++ s ++ r) = s.
Proof.
  intros Hl Hs Hr. unfold strip. rewrite lstrip_blanks by done. destruct s as [|x s].
  - rewrite sapp_nil, lstrip_blanks_nil by done. done.
  - assert (Hls : lstrip (String x s ++ r) = String x s ++ r).
    { rewrite sapp_cons. cbn [lstrip]. unfold no_ws in Hs; cbn [all_chars] in Hs. apply andb_true_iff in Hs as [Hx _]. apply negb_true_iff in Hx. by rewrite Hx. }
    rewrite Hls. by apply rstrip_core.
Qed.

(* operands: no comma, no blank inside (identifiers, 1'b0, 1'b1); blanks: whitespace other than nothing special *)
Definition operand_ok (s : string) : bool := no_ws s && no_char ","%char s.
Lemma blanks_no_comma l : blanks l = true → no_char ","%char l = true.
Proof.
  unfold blanks, no_char. induction l as [|x l IH]; cbn [all_chars]; [done|]. intros [Hx Hl]%andb_true_iff. rewrite (IH Hl), andb_true_r. apply negb_true_iff.
  destruct (Ascii.eqb_spec x ","%char) as [->|]; [by vm_compute in Hx|done].
Qed.
Definition pad_ok (x : string * string * string) : Prop := blanks x.1.1 = true ∧ operand_ok x.1.2 = true ∧ blanks x.2 = true.

Theorem fast_split_render (xs : list (string * string * string)) : xs ≠ [] → Forall pad_ok xs →
  fast_split (join_with ","%char (pad <$> xs)) = (λ x, x.1.2) <$> xs.
Proof.
  intros Hne Hall. unfold fast_split. rewrite split_join.
  - rewrite <- list_fmap_compose. apply Forall_fmap_ext_1. eapply Forall_impl; [exact Hall|].
    intros [[l s] r] (Hl & Hs & Hr). simpl in *. apply andb_true_iff in Hs as [Hs _]. unfold pad. simpl. by apply strip_pad.
  - by destruct xs.
  - apply Forall_fmap. eapply Forall_impl; [exact Hall|]. intros [[l s] r] (Hl & Hs & Hr). simpl in *. unfold pad. simpl.
    apply andb_true_iff in Hs as [_ Hs]. unfold no_char. rewrite !all_chars_app. fold (no_char ","%char l). fold (no_char ","%char s). fold (no_char ","%char r).
    by rewrite (blanks_no_comma l Hl), Hs, (blanks_no_comma r Hr).
Qed.

(* with the constant replacement: the scan of a rendered operand list is the operand list the AST-level model starts from *)
Definition padded (ops : list opd) (ws : list (string * string)) : list (string * string * string) :=
  zip_with (λ o w, (w.1, opd_text o, w.2)) ops ws.
Lemma padded_facts ops : ∀ ws, length ws = length ops →
  Forall (λ o, operand_ok (opd_text o) = true) ops → Forall (λ w, blanks w.1 = true ∧ blanks w.2 = true) ws →
  (λ x, x.1.2) <$> padded ops ws = opd_text <$> ops ∧ Forall pad_ok (padded ops ws) ∧ (ops ≠ [] → padded ops ws ≠ []).
Proof.
  induction ops as [|o ops IH]; intros [|w ws] Hlen Hops Hws; try done.
  { split; [done|]. split; [constructor|done]. }
  apply Forall_cons in Hops as [Ho Hops]. apply Forall_cons in Hws as [[Hw1 Hw2] Hws].
  destruct (IH ws) as (H1 & H2 & _); [by injection Hlen|done|done|].
  unfold padded in *. cbn [zip_with fmap list_fmap]. split; [by rewrite H1|]. split; [|done]. constructor; [|done]. done.
Qed.
Theorem fast_nets_render t0 t1 (ops : list opd) (ws : list (string * string)) : ops ≠ [] → length ws = length ops →
  Forall (λ o, operand_ok (opd_text o) = true) ops → Forall (λ w, blanks w.1 = true ∧ blanks w.2 = true) ws →
  fast_nets t0 t1 (join_with ","%char (pad <$> padded ops ws)) = fast_gate_opd t0 t1 <$> ops.
Proof.
  intros Hne Hlen Hops Hws. destruct (padded_facts ops ws Hlen Hops Hws) as (H1 & H2 & H3).
  unfold fast_nets. rewrite fast_split_render by auto. rewrite H1, <- list_fmap_compose. done.
Qed.
