(* Specification of tx.strip_blackboxes (Model/Compose6.v) and Api.fill_blackbox (Base/Api.v).
   Core tool: renaming with a function that is injective only on the names that occur.
   Everything here is proved; no axioms. *)
From stdpp Require Import strings gmap sets fin_sets.
From CG Require Import Base.Compose Base.Oracle Model.Compose6 Proofs.ComposeProofs.
Open Scope string_scope.

(* ================================================================== *)
(* 1. renaming with a function injective on the occurring names       *)
(* ================================================================== *)
Definition inj_on (ρ : string → string) (X : gset string) : Prop :=
  ∀ x y, x ∈ X → y ∈ X → ρ x = ρ y → x = y.

Lemma inj_on_mono ρ (X Y : gset string) : X ⊆ Y → inj_on ρ Y → inj_on ρ X.
Proof. intros HXY H x y Hx Hy. apply H; by apply HXY. Qed.
Lemma inj_on_inj ρ `{!Inj (=) (=) ρ} (X : gset string) : inj_on ρ X.
Proof. intros x y _ _. apply (inj ρ). Qed.

Lemma option_eq_Some {A} (a b : option A) : (∀ j, a = Some j ↔ b = Some j) → a = b.
Proof.
  intros H. destruct a as [x|], b as [y|]; try done.
  - symmetry. by apply H.
  - symmetry. by apply H.
  - by apply H.
Qed.

Lemma lookup_rename_on_Some ρ (c : circuit) k j : inj_on ρ (dom c) →
  rename ρ c !! k = Some j ↔ ∃ n i, k = ρ n ∧ c !! n = Some i ∧ j = ren_info ρ i.
Proof.
  intros Hinj. unfold rename, kmap.
  rewrite <- elem_of_list_to_map.
  - rewrite elem_of_list_fmap. split.
    + intros ([n i'] & Heq & Hin). apply elem_of_map_to_list in Hin. rewrite lookup_fmap in Hin.
      destruct (c !! n) as [i|] eqn:Hc; simplify_eq/=. eauto.
    + intros (n & i & -> & Hn & ->). exists (n, ren_info ρ i). split; [done|].
      apply elem_of_map_to_list. by rewrite lookup_fmap, Hn.
  - rewrite <- list_fmap_compose.
    assert (Heq : (fst ∘ prod_map ρ id) <$> map_to_list (ren_info ρ <$> c)
                  = ρ <$> (map_to_list (ren_info ρ <$> c)).*1).
    { rewrite <- list_fmap_compose. apply list_fmap_ext. by intros ? [? ?]. }
    rewrite Heq. apply NoDup_fmap_2_strong; [|apply NoDup_fst_map_to_list].
    intros x y Hx Hy. apply Hinj.
    + apply elem_of_list_fmap in Hx as ([? ?] & -> & Hx). apply elem_of_map_to_list in Hx.
      rewrite lookup_fmap in Hx. apply elem_of_dom. simpl. destruct (c !! s); [eauto|done].
    + apply elem_of_list_fmap in Hy as ([? ?] & -> & Hy). apply elem_of_map_to_list in Hy.
      rewrite lookup_fmap in Hy. apply elem_of_dom. simpl. destruct (c !! s); [eauto|done].
Qed.

Lemma lookup_rename_on ρ (c : circuit) n : inj_on ρ (dom c) → n ∈ dom c →
  rename ρ c !! ρ n = ren_info ρ <$> c !! n.
Proof.
  intros Hinj [i Hi]%elem_of_dom. rewrite Hi. simpl.
  apply lookup_rename_on_Some; [done|]. eauto.
Qed.

Lemma dom_rename_on ρ (c : circuit) : inj_on ρ (dom c) → dom (rename ρ c) = set_map ρ (dom c).
Proof.
  intros Hinj. apply set_eq. intros k. rewrite elem_of_dom, elem_of_map. split.
  - intros [j Hj]. apply lookup_rename_on_Some in Hj as (n & i & -> & Hn & _); [|done].
    exists n. split; [done|]. by apply elem_of_dom.
  - intros (n & -> & Hn). rewrite lookup_rename_on by done.
    apply elem_of_dom in Hn as [i Hi]. rewrite Hi. by eexists.
Qed.

Lemma elements_set_map_perm_on ρ (s : gset string) : inj_on ρ s →
  elements (set_map ρ s : gset string) ≡ₚ ρ <$> elements s.
Proof.
  induction s as [|x s Hx IH] using set_ind_L; intros Hinj.
  - by rewrite set_map_empty, !elements_empty.
  - rewrite set_map_union_L, set_map_singleton_L.
    rewrite !elements_union_singleton; [|done|].
    + simpl. rewrite IH; [done|]. eapply inj_on_mono; [|exact Hinj]. set_solver.
    + intros [y [Hy Hin]]%elem_of_map. apply Hinj in Hy; [by subst|set_solver|set_solver].
Qed.

Lemma gate_val_rename_on ρ t (v : val) (s : gset string) : inj_on ρ s →
  gate_val t v (set_map ρ s) = gate_val t (v ∘ ρ) s.
Proof.
  intros Hinj. unfold gate_val. f_equal. fold (gfold t).
  change (gfold t (v <$> elements (set_map ρ s : gset string)) = gfold t ((v ∘ ρ) <$> elements s)).
  rewrite (gfold_perm t _ (v <$> (ρ <$> elements s))).
  - by rewrite <- list_fmap_compose.
  - by apply fmap_Permutation, elements_set_map_perm_on.
Qed.

Lemma set_map_empty_iff' ρ (s : gset string) : (set_map ρ s : gset string) = ∅ ↔ s = ∅.
Proof.
  split; [|intros ->; apply set_map_empty].
  intros H. apply set_eq. intros x. split; [|set_solver]. intros Hx. exfalso.
  assert (ρ x ∈ (set_map ρ s : gset string)) as Hin by (apply elem_of_map; eauto).
  rewrite H in Hin. set_solver.
Qed.
Lemma is_free_rename' ρ i : is_free (ren_info ρ i) = is_free i.
Proof.
  unfold is_free, ren_info; simpl. destruct (n_ty i); try done; apply bool_decide_ext, set_map_empty_iff'.
Qed.

Lemma node_ok_rename_on ρ (v : val) n i : inj_on ρ (n_fi i) →
  node_ok v (ρ n) (ren_info ρ i) ↔ node_ok (v ∘ ρ) n i.
Proof.
  intros Hinj. unfold node_ok. rewrite is_free_rename'. destruct (is_free i); [done|].
  cbn [n_ty n_fi ren_info]. destruct (n_ty i); rewrite ?gate_val_rename_on by done; done.
Qed.

Lemma closed_fi_sub (c : circuit) n i : closed c → c !! n = Some i → n_fi i ⊆ dom c.
Proof. intros Hcl Hn f Hf. eapply Hcl; eauto. Qed.

Lemma consistent_rename_on' ρ (c : circuit) (v : val) :
  closed c → inj_on ρ (dom c) → consistent (rename ρ c) v ↔ consistent c (v ∘ ρ).
Proof.
  intros Hcl Hinj. unfold consistent. split.
  - intros H n i Hn. apply node_ok_rename_on.
    + eapply inj_on_mono; [|exact Hinj]. by eapply closed_fi_sub.
    + apply H. apply lookup_rename_on_Some; [done|]. eauto.
  - intros H k j Hk. apply lookup_rename_on_Some in Hk as (n & i & -> & Hn & ->); [|done].
    apply node_ok_rename_on; [|by apply H].
    eapply inj_on_mono; [|exact Hinj]. by eapply closed_fi_sub.
Qed.

Lemma consistent_rename_on (ρ : string → string) (c : circuit) (v : val) :
  closed c → (∀ x y, x ∈ dom c → y ∈ dom c → ρ x = ρ y → x = y) →
  consistent (rename ρ c) v ↔ consistent c (v ∘ ρ).
Proof. apply consistent_rename_on'. Qed.

(* ================================================================== *)
(* 2. tx.strip_blackboxes                                             *)
(* ================================================================== *)
Lemma lookup_remove_g (c : circuit) ns n :
  remove_g c ns !! n =
    if decide (n ∈ (list_to_set ns : gset string)) then None
    else upd_fi (λ fi, fi ∖ list_to_set ns) <$> c !! n.
Proof.
  unfold remove_g. cbv zeta. rewrite lookup_fmap.
  destruct (decide (n ∈ (list_to_set ns : gset string))) as [Hin|Hin].
  - rewrite map_filter_lookup_None_2; [done|]. right. intros i _. simpl. tauto.
  - destruct (c !! n) as [i|] eqn:Hc.
    + erewrite map_filter_lookup_Some_2; [done|done|done].
    + rewrite map_filter_lookup_None_2; [done|]. by left.
Qed.

Lemma closed_remove_g (c : circuit) ns : closed c → closed (remove_g c ns).
Proof.
  intros Hcl n i f Hn Hf. rewrite lookup_remove_g in Hn. case_decide as Hin; [done|].
  destruct (c !! n) as [i0|] eqn:Hc; simplify_eq/=.
  apply elem_of_difference in Hf as [Hf Hfs].
  pose proof (Hcl n i0 f Hc Hf) as [j Hj]%elem_of_dom.
  apply elem_of_dom. rewrite lookup_remove_g. rewrite decide_False by done. rewrite Hj. by eexists.
Qed.

Lemma remove_g_nil (c : circuit) : remove_g c [] = c.
Proof.
  apply map_eq. intros n. rewrite lookup_remove_g. rewrite decide_False by set_solver.
  destruct (c !! n) as [[t o fi]|]; simpl; [|done]. unfold upd_fi; simpl. f_equal. f_equal. set_solver.
Qed.

Lemma is_free_expose i : is_free (expose_info i) = is_free i.
Proof. unfold is_free, expose_info. destruct (n_ty i) eqn:E; simpl; rewrite ?E; done. Qed.
Lemma node_ok_expose v n i : node_ok v n (expose_info i) ↔ node_ok v n i.
Proof.
  unfold node_ok. rewrite is_free_expose. destruct (is_free i) eqn:Hf; [done|].
  unfold expose_info. destruct (n_ty i) eqn:E; simpl; rewrite ?E; try done.
  all: unfold is_free in Hf; by rewrite E in Hf.
Qed.
Lemma consistent_expose (c : circuit) v : consistent (expose_info <$> c) v ↔ consistent c v.
Proof.
  unfold consistent. split.
  - intros H n i Hn. apply node_ok_expose, H. by rewrite lookup_fmap, Hn.
  - intros H n j Hn. rewrite lookup_fmap in Hn. destruct (c !! n) as [i|] eqn:Hc; simplify_eq/=.
    apply node_ok_expose. by apply H.
Qed.
Lemma n_fi_expose i : n_fi (expose_info i) = n_fi i.
Proof. unfold expose_info. by destruct (n_ty i). Qed.
Lemma closed_expose (c : circuit) : closed c → closed (expose_info <$> c).
Proof.
  intros Hcl n j f Hn Hf. rewrite lookup_fmap in Hn. destruct (c !! n) as [i|] eqn:Hc; simplify_eq/=.
  rewrite n_fi_expose in Hf. rewrite dom_fmap_L. eapply Hcl; eauto.
Qed.

Lemma NoDup_fmap_elem_inj {A B} (f : A → B) (l : list A) x y :
  NoDup (f <$> l) → x ∈ l → y ∈ l → f x = f y → x = y.
Proof.
  induction l as [|a l IH]; simpl; intros Hnd Hx Hy Hf; [by apply elem_of_nil in Hx|].
  apply NoDup_cons in Hnd as [Ha Hnd].
  apply elem_of_cons in Hx as [->|Hx]; apply elem_of_cons in Hy as [->|Hy]; auto.
  - exfalso. apply Ha. rewrite Hf. by apply elem_of_list_fmap_1.
  - exfalso. apply Ha. rewrite <- Hf. by apply elem_of_list_fmap_1.
Qed.

Lemma elem_of_bb_pins (g : circuit) n :
  n ∈ bb_pins g ↔ ∃ i, g !! n = Some i ∧ (n_ty i = BbIn ∨ n_ty i = BbOut).
Proof.
  unfold bb_pins. rewrite elem_of_union, !elem_of_of_type. unfold is_ty.
  setoid_rewrite bool_decide_eq_true. split.
  - intros [(i & ? & ?)|(i & ? & ?)]; eauto.
  - intros (i & ? & [?|?]); eauto.
Qed.

Lemma pin_rho_inj_on (kept : gset string) (c : circuit) :
  (∀ n, n ∈ kept → undot n ∉ dom c) → NoDup (undot <$> elements kept) →
  inj_on (pin_rho kept) (dom c).
Proof.
  intros Hfresh Hnd x y Hx Hy. unfold pin_rho. repeat case_bool_decide.
  - intros Heq. eapply (NoDup_fmap_elem_inj undot); [exact Hnd| | |exact Heq]; by apply elem_of_elements.
  - intros Heq. exfalso. apply (Hfresh x); [done|]. by rewrite Heq.
  - intros Heq. exfalso. apply (Hfresh y); [done|]. by rewrite <- Heq.
  - done.
Qed.

Lemma strip_blackboxes_inv C ign R :
  strip_blackboxes C ign = Ok R →
  let g := c_g C in let kept := kept_pins g ign in
  let pruned := remove_g g (elements (ignored_pins g ign)) in
  (∀ n, n ∈ kept → undot n ∉ dom pruned) ∧ NoDup (undot <$> elements kept) ∧
  R = {| c_name := c_name C; c_g := rename (pin_rho kept) (expose_info <$> pruned); c_bbs := ∅ |}.
Proof.
  unfold strip_blackboxes. cbv zeta.
  destruct (existsb _ _) eqn:E1; [done|].
  case_bool_decide as E2; simpl; [|done].
  intros [= <-]. split; [|split; [done|]].
  - intros n Hn. pose proof (existsb_false _ _ E1 (undot n)) as H. simpl in H.
    rewrite dom_fmap_L in H. eapply bool_decide_eq_false_1, H.
    apply elem_of_list_fmap_1. by apply elem_of_elements.
  - by rewrite rename_g_eq.
Qed.

Lemma dom_remove_g (c : circuit) ns n :
  n ∈ dom (remove_g c ns) ↔ n ∈ dom c ∧ n ∉ (list_to_set ns : gset string).
Proof.
  rewrite !elem_of_dom, lookup_remove_g. case_decide as Hin.
  - split; [by intros [? ?]|]. intros [_ ?]. done.
  - destruct (c !! n); simpl; split; try (intros [? ?]; done); eauto.
Qed.

Theorem strip_blackboxes_spec C ign R :
  closed (c_g C) → strip_blackboxes C ign = Ok R →
  let g := c_g C in let kept := kept_pins g ign in let ρ := pin_rho kept in
  let pruned := remove_g g (elements (ignored_pins g ign)) in
  c_name R = c_name C ∧ c_bbs R = ∅ ∧
  dom (c_g R) = set_map ρ (dom pruned) ∧
  (∀ n, n ∈ kept → n ∈ of_type g (is_ty BbIn) →
     ρ n = undot n ∧ undot n ∈ outputs (c_g R) ∧ ty (c_g R) (undot n) = Some Buf) ∧
  (∀ n, n ∈ kept → n ∈ of_type g (is_ty BbOut) → undot n ∈ inputs (c_g R)) ∧
  (∀ n, n ∈ ignored_pins g ign → n ∉ dom pruned) ∧
  ∀ v, consistent (c_g R) v ↔ consistent pruned (v ∘ ρ).
Proof.
  intros Hcl Hs g kept ρ pruned.
  apply strip_blackboxes_inv in Hs. cbv zeta in Hs. destruct Hs as (Hfresh & Hnd & ->).
  fold g kept pruned in Hfresh, Hnd |- *. fold ρ. cbn [c_name c_g c_bbs].
  assert (Hclp : closed pruned) by by apply closed_remove_g.
  assert (Hinj : inj_on ρ (dom (expose_info <$> pruned))).
  { rewrite dom_fmap_L. by apply pin_rho_inj_on. }
  (* a kept pin survives the pruning, with its type *)
  assert (Hkept : ∀ n, n ∈ kept → ρ n = undot n ∧ ∃ i, g !! n = Some i ∧
             pruned !! n = Some (upd_fi (λ fi, fi ∖ list_to_set (elements (ignored_pins g ign))) i)).
  { intros n Hn. split; [unfold ρ, pin_rho; by rewrite bool_decide_eq_true_2|].
    unfold kept, kept_pins in Hn. apply elem_of_difference in Hn as [Hp Hni].
    apply elem_of_bb_pins in Hp as (i & Hi & _). exists i. split; [done|].
    unfold pruned. rewrite lookup_remove_g. rewrite decide_False by set_solver. by rewrite Hi. }
  assert (Hlk : ∀ n, n ∈ kept → ∃ i, g !! n = Some i ∧
             rename ρ (expose_info <$> pruned) !! undot n =
               Some (ren_info ρ (expose_info (upd_fi (λ fi, fi ∖ list_to_set (elements (ignored_pins g ign))) i)))).
  { intros n Hn. destruct (Hkept n Hn) as (Hρ & i & Hi & Hp). exists i. split; [done|].
    rewrite <- Hρ. rewrite lookup_rename_on; [|done|].
    - by rewrite lookup_fmap, Hp.
    - rewrite dom_fmap_L. apply elem_of_dom. eauto. }
  split; [done|]. split; [done|]. split; [|split; [|split; [|split]]].
  - rewrite dom_rename_on by done. by rewrite dom_fmap_L.
  - intros n Hn (i & Hi & Hty)%elem_of_of_type. apply bool_decide_eq_true in Hty.
    destruct (Hkept n Hn) as (Hρ & _). destruct (Hlk n Hn) as (i' & Hi' & Hl).
    rewrite Hi in Hi'. simplify_eq. split; [done|]. split.
    + apply elem_of_outputs. eexists. split; [exact Hl|].
      unfold expose_info, upd_fi; simpl. by rewrite <- Hty.
    + unfold ty. rewrite Hl. simpl. unfold expose_info, upd_fi; simpl. by rewrite <- Hty.
  - intros n Hn (i & Hi & Hty)%elem_of_of_type. apply bool_decide_eq_true in Hty.
    destruct (Hlk n Hn) as (i' & Hi' & Hl). rewrite Hi in Hi'. simplify_eq.
    apply elem_of_inputs. eexists. split; [exact Hl|].
    unfold expose_info, upd_fi; simpl. by rewrite <- Hty.
  - intros n Hn. unfold pruned. rewrite dom_remove_g. intros [_ Hnot]. apply Hnot.
    apply elem_of_list_to_set. by apply elem_of_elements.
  - intros v. rewrite consistent_rename_on'; [|by apply closed_expose|done].
    apply consistent_expose.
Qed.

Lemma ignored_pins_nil (g : circuit) : ignored_pins g [] = ∅.
Proof.
  unfold ignored_pins. apply set_eq. intros n. rewrite elem_of_filter. split; [|set_solver].
  intros [H _]. by apply elem_of_nil in H.
Qed.

Corollary strip_blackboxes_spec_noignore C R :
  closed (c_g C) → strip_blackboxes C [] = Ok R →
  let g := c_g C in let ρ := pin_rho (bb_pins g) in
  c_name R = c_name C ∧ c_bbs R = ∅ ∧
  dom (c_g R) = set_map ρ (dom g) ∧
  (∀ n, n ∈ of_type g (is_ty BbIn) →
     ρ n = undot n ∧ undot n ∈ outputs (c_g R) ∧ ty (c_g R) (undot n) = Some Buf) ∧
  (∀ n, n ∈ of_type g (is_ty BbOut) → undot n ∈ inputs (c_g R)) ∧
  ∀ v, consistent (c_g R) v ↔ consistent (c_g C) (v ∘ ρ).
Proof.
  intros Hcl Hs g ρ.
  pose proof (strip_blackboxes_spec C [] R Hcl Hs) as H. cbv zeta in H. fold g in H.
  assert (Hk : kept_pins g [] = bb_pins g).
  { unfold kept_pins. rewrite ignored_pins_nil. set_solver. }
  rewrite Hk in H. fold ρ in H. rewrite ignored_pins_nil, elements_empty, remove_g_nil in H.
  destruct H as (H1 & H2 & H3 & H4 & H5 & _ & H7).
  split; [done|]. split; [done|]. split; [done|]. split; [|split; [|done]].
  - intros n Hn. apply H4; [|done]. unfold bb_pins. set_solver.
  - intros n Hn. apply H5; [|done]. unfold bb_pins. set_solver.
Qed.

(* ================================================================== *)
(* 3. fill_blackbox: structure                                        *)
(* ================================================================== *)
Lemma str_app_empty_r (s : string) : s ++ "" = s.
Proof.
  induction s as [|a s IH]; [done|].
  change (String a (s ++ "") = String a s). by rewrite IH.
Qed.
Lemma pre_ne inst b : pre inst b ≠ inst.
Proof.
  unfold pre. intros H. rewrite <- (str_app_empty_r inst) in H at 2.
  apply (inj (String.append inst)) in H. discriminate.
Qed.
Global Instance pin_inj inst : Inj (=) (=) (pin inst).
Proof. intros a b H. unfold pin in H. by simplify_list_eq. Qed.

Lemma fill_blackbox_inv P inst SC P' d :
  c_bbs P !! inst = Some d → fill_blackbox P inst SC = (P', Done) →
  (∀ b, b ∈ dom (c_bbs SC) → pre inst b ∉ dom (c_bbs P)) ∧
  inputs (c_g SC) = bb_in d ∧ outputs (c_g SC) = bb_out d ∧
  (∀ n, n ∈ dom (c_g SC) → pre inst n ∉ dom (c_g P)) ∧
  c_name P' = c_name P ∧
  c_bbs P' = kmap (pre inst) (c_bbs SC) ∪ delete inst (c_bbs P) ∧
  c_g P' =
    set_fold (λ n g, alter unmark (pre inst n) g)
      (set_fold (λ n g, alter (retype Buf) (pre inst n) g)
         (update_g (relabel_pins inst d (c_g P)) (rename (pre inst) (c_g SC))) (bb_in d)) (bb_out d).
Proof.
  intros Hd. unfold fill_blackbox. rewrite Hd.
  destruct (existsb _ (elements (dom (c_bbs SC)))) eqn:E1; [done|].
  case_bool_decide as E2; simpl; [|done].
  case_bool_decide as E3; simpl; [|done].
  destruct (existsb _ (elements (dom (c_g SC)))) eqn:E4; [done|].
  destruct (existsb _ (elements (bb_in d))) eqn:E5; [done|].
  destruct (existsb _ (elements (bb_out d))) eqn:E6; [done|].
  intros [= <-]. cbn [c_name c_g c_bbs]. rewrite registry_fold.
  split; [|split; [done|split; [done|split; [|done]]]].
  - intros b Hb. pose proof (existsb_false _ _ E1 b) as H. simpl in H.
    eapply bool_decide_eq_false_1. apply H. by apply elem_of_elements.
  - intros n Hn. pose proof (existsb_false _ _ E4 n) as H. simpl in H.
    eapply bool_decide_eq_false_1. apply H. by apply elem_of_elements.
Qed.

Theorem fill_blackbox_struct P inst SC P' d :
  c_bbs P !! inst = Some d → fill_blackbox P inst SC = (P', Done) →
  c_name P' = c_name P ∧ c_bbs P' = kmap (pre inst) (c_bbs SC) ∪ delete inst (c_bbs P) ∧
  c_bbs P' !! inst = None ∧
  (∀ b e, c_bbs SC !! b = Some e → c_bbs P' !! pre inst b = Some e) ∧
  inputs (c_g SC) = bb_in d ∧ outputs (c_g SC) = bb_out d.
Proof.
  intros Hd Hf. destruct (fill_blackbox_inv P inst SC P' d Hd Hf) as (_ & Hin & Hout & _ & Hname & Hbbs & _).
  split; [done|]. split; [done|]. split; [|split; [|done]].
  - rewrite Hbbs. apply lookup_union_None. split; [|apply lookup_delete].
    apply lookup_kmap_None; [apply _|]. intros b Hb. exfalso. by apply (pre_ne inst b).
  - intros b e Hb. rewrite Hbbs. apply lookup_union_Some_l. by rewrite lookup_kmap by apply _.
Qed.

(* ================================================================== *)
(* 4. fill_blackbox: semantics                                        *)
(* ================================================================== *)
(* ---- pin_to_node ---- *)
Lemma pin_to_node_pin inst d p :
  p ∈ bb_in d ∪ bb_out d → pin_to_node inst d (pin inst p) = pre inst p.
Proof.
  intros Hp. unfold pin_to_node.
  destruct (list_find _ _) as [[k q]|] eqn:E.
  - apply list_find_Some in E as (_ & Hq & _). apply (inj (pin inst)) in Hq. by subst.
  - apply list_find_None in E. rewrite Forall_forall in E. exfalso.
    apply (E p); [by apply elem_of_elements|done].
Qed.
Lemma pin_to_node_cases inst d n :
  (∃ p, p ∈ bb_in d ∪ bb_out d ∧ n = pin inst p ∧ pin_to_node inst d n = pre inst p) ∨
  ((∀ p, p ∈ bb_in d ∪ bb_out d → n ≠ pin inst p) ∧ pin_to_node inst d n = n).
Proof.
  unfold pin_to_node. destruct (list_find _ _) as [[k q]|] eqn:E.
  - left. apply list_find_Some in E as (Hq & Hn & _). exists q. split; [|done].
    apply elem_of_elements. by eapply elem_of_list_lookup_2.
  - right. split; [|done]. apply list_find_None in E. rewrite Forall_forall in E.
    intros p Hp. apply E. by apply elem_of_elements.
Qed.

(* ---- relabel_pins is a rename when the relabelling is injective on the nodes ---- *)
Lemma relabel_pins_lookup_Some inst d (c : circuit) : inj_on (pin_to_node inst d) (dom c) →
  ∀ k j, relabel_pins inst d c !! k = Some j ↔
         ∃ n i, k = pin_to_node inst d n ∧ c !! n = Some i ∧ j = ren_info (pin_to_node inst d) i.
Proof.
  unfold relabel_pins.
  apply (map_fold_ind (λ (r m : circuit), inj_on (pin_to_node inst d) (dom m) →
    ∀ k j, r !! k = Some j ↔
           ∃ n i, k = pin_to_node inst d n ∧ m !! n = Some i ∧ j = ren_info (pin_to_node inst d) i)).
  - intros _ k j. rewrite lookup_empty. split; [done|]. intros (n & i & _ & Hn & _). by rewrite lookup_empty in Hn.
  - intros n x m r Hn IH Hinj k j.
    assert (Hinj' : inj_on (pin_to_node inst d) (dom m)).
    { eapply inj_on_mono; [|exact Hinj]. rewrite dom_insert_L. set_solver. }
    specialize (IH Hinj').
    destruct (decide (k = pin_to_node inst d n)) as [->|Hne].
    + rewrite lookup_insert. split.
      * intros [= <-]. exists n, x. by rewrite lookup_insert.
      * intros (n' & i & Heq & Hn' & ->).
        assert (n = n') as <-.
        { apply Hinj; [rewrite dom_insert_L; set_solver| |done]. apply elem_of_dom. eauto. }
        rewrite lookup_insert in Hn'. by simplify_eq.
    + rewrite lookup_insert_ne by done. rewrite IH. split.
      * intros (n' & i & -> & Hn' & ->). exists n', i. split; [done|]. split; [|done].
        rewrite lookup_insert_ne; [done|]. intros ->. done.
      * intros (n' & i & -> & Hn' & ->). exists n', i. split; [done|]. split; [|done].
        rewrite lookup_insert_ne in Hn'; [done|]. intros ->. done.
Qed.

Lemma relabel_pins_rename inst d (c : circuit) : inj_on (pin_to_node inst d) (dom c) →
  relabel_pins inst d c = rename (pin_to_node inst d) c.
Proof.
  intros Hinj. apply map_eq. intros k. apply option_eq_Some. intros j.
  rewrite relabel_pins_lookup_Some by done. by rewrite lookup_rename_on_Some by done.
Qed.

(* ---- node equations up to type/fan-in ---- *)
Lemma node_ok_parent ρ (v : val) n i j : inj_on ρ (n_fi i) →
  (n_ty j = n_ty i ∨ (n_ty j = Buf ∧ n_ty i = BbIn)) → n_fi j = set_map ρ (n_fi i) →
  node_ok v (ρ n) j ↔ node_ok (v ∘ ρ) n i.
Proof.
  intros Hinj Hty Hfi. rewrite <- node_ok_rename_on by done.
  unfold node_ok, is_free. cbn [ren_info n_ty n_fi]. rewrite Hfi.
  destruct Hty as [->|[-> ->]]; done.
Qed.
Lemma node_ok_child inst (v : val) m i' j :
  n_ty j = n_ty (strip_info i') → n_fi j = set_map (pre inst) (n_fi i') →
  node_ok v (pre inst m) j ↔ node_ok (v ∘ pre inst) m (strip_info i').
Proof.
  intros Hty Hfi. rewrite <- (node_ok_rename_on (pre inst)) by (apply inj_on_inj; apply _).
  unfold node_ok, is_free. rewrite Hty, Hfi. done.
Qed.

Definition fill_graph (inst : string) (d : bbdef) (Pg SCg : circuit) : circuit :=
  set_fold (λ n g, alter unmark (pre inst n) g)
    (set_fold (λ n g, alter (retype Buf) (pre inst n) g)
       (update_g (relabel_pins inst d Pg) (rename (pre inst) SCg)) (bb_in d)) (bb_out d).

Definition merge_info (old new : ninfo) : ninfo :=
  {| n_ty := n_ty new; n_out := n_out new; n_fi := n_fi old ∪ n_fi new |}.

Section fill_sem.
  Context (inst : string) (d : bbdef) (Pg SCg : circuit).
  Local Notation ρ := (pin_to_node inst d).
  Local Notation pins := (bb_in d ∪ bb_out d).
  Local Notation g3 := (fill_graph inst d Pg SCg).
  Hypothesis Hcl : closed Pg.
  Hypothesis Hund : ∀ n i, SCg !! n = Some i → n_ty i = Input → n_fi i = ∅.
  Hypothesis Hdisj : bb_in d ## bb_out d.
  Hypothesis HinP : ∀ p i, p ∈ bb_in d → Pg !! pin inst p = Some i → n_ty i = BbIn.
  Hypothesis HoutP : ∀ q i, q ∈ bb_out d → Pg !! pin inst q = Some i → n_ty i = BbOut ∧ n_fi i = ∅.
  Hypothesis Hin : inputs SCg = bb_in d.
  Hypothesis Hout : outputs SCg = bb_out d.
  Hypothesis Hfresh : ∀ n, n ∈ dom SCg → pre inst n ∉ dom Pg.

  Lemma pins_dom p : p ∈ pins → ∃ i', SCg !! p = Some i'.
  Proof.
    intros [Hp|Hp]%elem_of_union.
    - rewrite <- Hin in Hp. apply elem_of_inputs in Hp as (i & ? & _); eauto.
    - rewrite <- Hout in Hp. apply elem_of_outputs in Hp as (i & ? & _); eauto.
  Qed.
  Lemma fresh_lookup m i' : SCg !! m = Some i' → Pg !! pre inst m = None.
  Proof. intros Hm. apply not_elem_of_dom, Hfresh. apply elem_of_dom. eauto. Qed.

  Lemma rho_inj_on : inj_on ρ (dom Pg).
  Proof.
    intros x y Hx Hy Heq.
    destruct (pin_to_node_cases inst d x) as [(p & Hp & -> & Hρx)|[Hnx Hρx]],
             (pin_to_node_cases inst d y) as [(q & Hq & -> & Hρy)|[Hny Hρy]]; rewrite Hρx, Hρy in Heq.
    - apply (inj (pre inst)) in Heq. by subst.
    - exfalso. destruct (pins_dom p Hp) as [i' Hi']. apply not_elem_of_dom in Hy; [done|].
      rewrite <- Heq. by eapply fresh_lookup.
    - exfalso. destruct (pins_dom q Hq) as [i' Hi']. apply not_elem_of_dom in Hx; [done|].
      rewrite Heq. by eapply fresh_lookup.
    - done.
  Qed.

  Lemma fill_graph_lookup k :
    g3 !! k =
      (if decide (k ∈ (set_map (pre inst) (bb_out d) : gset string)) then fmap unmark else id)
        ((if decide (k ∈ (set_map (pre inst) (bb_in d) : gset string)) then fmap (retype Buf) else id)
           (union_with (λ old new, Some (merge_info old new))
              (rename ρ Pg !! k) (rename (pre inst) SCg !! k))).
  Proof.
    unfold fill_graph. rewrite !set_fold_alter_lookup by apply _.
    unfold update_g. rewrite lookup_union_with.
    rewrite relabel_pins_rename by apply rho_inj_on.
    repeat case_decide; done.
  Qed.

  Lemma parent_lookup n i : Pg !! n = Some i → rename ρ Pg !! ρ n = Some (ren_info ρ i).
  Proof. intros Hn. apply lookup_rename_on_Some; [apply rho_inj_on|]. eauto. Qed.
  Lemma child_lookup m : rename (pre inst) SCg !! pre inst m = ren_info (pre inst) <$> SCg !! m.
  Proof. by rewrite lookup_rename by apply _. Qed.

  Lemma fi_inj_on n i : Pg !! n = Some i → inj_on ρ (n_fi i).
  Proof. intros Hn. eapply inj_on_mono; [|apply rho_inj_on]. by eapply closed_fi_sub. Qed.

  (* a node of the parent that is not a pin of this instance *)
  Lemma fill_node_parent n i :
    Pg !! n = Some i → (∀ p, p ∈ pins → n ≠ pin inst p) →
    ∃ j, g3 !! n = Some j ∧ ∀ v, node_ok v n j ↔ node_ok (v ∘ ρ) n i.
  Proof.
    intros Hn Hnp.
    assert (Hρ : ρ n = n).
    { destruct (pin_to_node_cases inst d n) as [(p & Hp & -> & _)|[_ ?]]; [|done]. by destruct (Hnp p Hp). }
    assert (Hnc : ∀ m, m ∈ dom SCg → n ≠ pre inst m).
    { intros m Hm ->. apply (Hfresh m Hm). apply elem_of_dom; eauto. }
    assert (HS : rename (pre inst) SCg !! n = None).
    { destruct (rename (pre inst) SCg !! n) as [j|] eqn:E; [|done]. exfalso.
      apply lookup_rename_Some in E as (m & i' & -> & Hm & _); [|apply _].
      apply (Hnc m); [|done]. apply elem_of_dom; eauto. }
    assert (Hk : ∀ X : gset string, X ⊆ pins → n ∉ (set_map (pre inst) X : gset string)).
    { intros X HX (m & -> & Hm)%elem_of_map. destruct (pins_dom m (HX m Hm)) as [i' Hi'].
      apply (Hnc m); [|done]. apply elem_of_dom; eauto. }
    exists (ren_info ρ i). split.
    - rewrite fill_graph_lookup. rewrite decide_False by (apply Hk; set_solver).
      rewrite decide_False by (apply Hk; set_solver).
      pose proof (parent_lookup n i Hn) as HP. rewrite Hρ in HP. by rewrite HP, HS.
    - intros v. rewrite <- Hρ at 1. apply node_ok_parent; [by eapply fi_inj_on|by left|done].
  Qed.

  (* a pin of this instance that exists in the parent: the merged node *)
  Lemma fill_node_pin p i i' :
    p ∈ pins → Pg !! pin inst p = Some i → SCg !! p = Some i' →
    ∃ j, g3 !! pre inst p = Some j ∧
         ∀ v, node_ok v (pre inst p) j ↔
              node_ok (v ∘ ρ) (pin inst p) i ∧ node_ok (v ∘ pre inst) p (strip_info i').
  Proof.
    intros Hp Hi Hi'.
    pose proof (parent_lookup _ _ Hi) as HP. rewrite (pin_to_node_pin inst d p Hp) in HP.
    pose proof (child_lookup p) as HS. rewrite Hi' in HS. simpl in HS.
    pose proof (fill_graph_lookup (pre inst p)) as HL. rewrite HP, HS in HL. simpl in HL.
    rewrite <- (pin_to_node_pin inst d p Hp).
    destruct (decide (p ∈ bb_in d)) as [Hpi|Hpi].
    - (* input pin: Buf with the parent-side fan-in *)
      assert (Hty' : n_ty i' = Input).
      { rewrite <- Hin in Hpi. apply elem_of_inputs in Hpi as (? & ? & ?). by simplify_eq. }
      pose proof (Hund _ _ Hi' Hty') as Hfi'. pose proof (HinP _ _ Hpi Hi) as Hty.
      rewrite (decide_True (P := pre inst p ∈ (set_map (pre inst) (bb_in d) : gset string))) in HL
        by (by apply elem_of_set_map_inj; [apply _|]).
      rewrite (decide_False (P := pre inst p ∈ (set_map (pre inst) (bb_out d) : gset string))) in HL
        by (rewrite elem_of_set_map_inj by apply _; set_solver).
      simpl in HL. eexists. split; [rewrite (pin_to_node_pin inst d p Hp); exact HL|].
      intros v.
      assert (HB : node_ok (v ∘ pre inst) p (strip_info i')).
      { unfold node_ok, is_free, strip_info. simpl. rewrite Hty', Hfi'. done. }
      assert (HAB : ∀ A B : Prop, B → (A ↔ A ∧ B)) by tauto.
      etrans; [|apply HAB, HB].
      apply node_ok_parent; [by eapply fi_inj_on|by right|].
      simpl. rewrite Hfi', set_map_empty. set_solver.
    - (* output pin: the child's node *)
      assert (Hpo : p ∈ bb_out d) by set_solver.
      destruct (HoutP _ _ Hpo Hi) as [Hty Hfi].
      assert (Hty' : n_ty i' ≠ Input).
      { intros Ht. apply Hpi. rewrite <- Hin. apply elem_of_inputs. eauto. }
      rewrite (decide_False (P := pre inst p ∈ (set_map (pre inst) (bb_in d) : gset string))) in HL
        by (by rewrite elem_of_set_map_inj by apply _).
      rewrite (decide_True (P := pre inst p ∈ (set_map (pre inst) (bb_out d) : gset string))) in HL
        by (by rewrite elem_of_set_map_inj by apply _).
      simpl in HL. eexists. split; [rewrite (pin_to_node_pin inst d p Hp); exact HL|].
      intros v.
      assert (HA : node_ok (v ∘ ρ) (pin inst p) i).
      { unfold node_ok, is_free. rewrite Hty. done. }
      rewrite (pin_to_node_pin inst d p Hp).
      assert (HAB : ∀ A B : Prop, A → (B ↔ A ∧ B)) by tauto.
      etrans; [|apply HAB, HA].
      apply node_ok_child.
      + simpl. by rewrite bool_decide_eq_false_2.
      + simpl. rewrite Hfi, set_map_empty. set_solver.
  Qed.

  Lemma decide_set_map_pre {A} (X : gset string) m (a b : A) :
    (if decide (pre inst m ∈ (set_map (pre inst) X : gset string)) then a else b)
    = (if decide (m ∈ X) then a else b).
  Proof.
    destruct (decide (pre inst m ∈ (set_map (pre inst) X : gset string))) as [H|H],
             (decide (m ∈ X)) as [H'|H']; try done;
      rewrite elem_of_set_map_inj in H by apply _; done.
  Qed.

  (* a node of the child that does not meet a pin of the parent *)
  Lemma fill_node_child m i' :
    SCg !! m = Some i' → (m ∉ pins ∨ Pg !! pin inst m = None) →
    ∃ j, g3 !! pre inst m = Some j ∧
         ∀ v, node_ok v (pre inst m) j ↔ node_ok (v ∘ pre inst) m (strip_info i').
  Proof.
    intros Hi' Hnp.
    assert (HG : rename ρ Pg !! pre inst m = None).
    { destruct (rename ρ Pg !! pre inst m) as [j|] eqn:E; [|done]. exfalso.
      apply lookup_rename_on_Some in E as (n & i & Hk & Hn & _); [|apply rho_inj_on].
      destruct (pin_to_node_cases inst d n) as [(p & Hp & -> & Hρ)|[_ Hρ]]; rewrite Hρ in Hk.
      - apply (inj (pre inst)) in Hk. subst p. destruct Hnp as [?|Hnone]; [done|]. by rewrite Hnone in Hn.
      - subst n. by rewrite (fresh_lookup m i' Hi') in Hn. }
    pose proof (child_lookup m) as HS. rewrite Hi' in HS. simpl in HS.
    pose proof (fill_graph_lookup (pre inst m)) as HL. rewrite HG, HS in HL. simpl in HL.
    rewrite !decide_set_map_pre in HL.
    assert (Hty1 : m ∈ bb_in d → n_ty i' = Input).
    { rewrite <- Hin. intros (? & ? & ?)%elem_of_inputs. by simplify_eq. }
    assert (Hty2 : m ∉ bb_in d → n_ty i' ≠ Input).
    { intros Hm Ht. apply Hm. rewrite <- Hin. apply elem_of_inputs. eauto. }
    destruct (decide (m ∈ bb_out d)) as [Ho|Ho], (decide (m ∈ bb_in d)) as [Hi|Hi]; simpl in HL;
      (eexists; split; [exact HL|]); intros v; apply node_ok_child; simpl; try done.
    - by rewrite bool_decide_eq_true_2 by auto.
    - by rewrite bool_decide_eq_false_2 by auto.
    - by rewrite bool_decide_eq_true_2 by auto.
    - by rewrite bool_decide_eq_false_2 by auto.
  Qed.

  Theorem fill_graph_sem v :
    consistent g3 v ↔ consistent Pg (v ∘ ρ) ∧ consistent (strip_io SCg) (v ∘ pre inst).
  Proof.
    split.
    - intros H. split.
      + intros n i Hn. destruct (pin_to_node_cases inst d n) as [(p & Hp & -> & _)|[Hnp _]].
        * destruct (pins_dom p Hp) as [i' Hi'].
          destruct (fill_node_pin p i i' Hp Hn Hi') as (j & Hj & Hok).
          exact (proj1 (proj1 (Hok v) (H _ _ Hj))).
        * destruct (fill_node_parent n i Hn Hnp) as (j & Hj & Hok).
          exact (proj1 (Hok v) (H _ _ Hj)).
      + intros m j0 Hm. unfold strip_io in Hm. rewrite lookup_fmap in Hm.
        destruct (SCg !! m) as [i'|] eqn:Hi'; simplify_eq/=.
        destruct (decide (m ∈ pins)) as [Hp|Hp]; [destruct (Pg !! pin inst m) as [i|] eqn:Hi|].
        * destruct (fill_node_pin m i i' Hp Hi Hi') as (j & Hj & Hok).
          exact (proj2 (proj1 (Hok v) (H _ _ Hj))).
        * destruct (fill_node_child m i' Hi' (or_intror Hi)) as (j & Hj & Hok).
          exact (proj1 (Hok v) (H _ _ Hj)).
        * destruct (fill_node_child m i' Hi' (or_introl Hp)) as (j & Hj & Hok).
          exact (proj1 (Hok v) (H _ _ Hj)).
    - intros [HP HS] k j Hk.
      assert (HSs : ∀ m i', SCg !! m = Some i' → node_ok (v ∘ pre inst) m (strip_info i')).
      { intros m i' Hi'. apply HS. unfold strip_io. by rewrite lookup_fmap, Hi'. }
      assert (Hpin : ∀ p i i', p ∈ pins → Pg !! pin inst p = Some i → SCg !! p = Some i' →
                g3 !! pre inst p = Some j → node_ok v (pre inst p) j).
      { intros p i i' Hp Hi Hi' Hkp.
        destruct (fill_node_pin p i i' Hp Hi Hi') as (j' & Hj' & Hok).
        rewrite Hkp in Hj'. simplify_eq. apply (Hok v). split; [by apply HP|by apply HSs]. }
      assert (Hsome : is_Some (rename ρ Pg !! k) ∨ is_Some (rename (pre inst) SCg !! k)).
      { rewrite fill_graph_lookup in Hk.
        destruct (rename ρ Pg !! k), (rename (pre inst) SCg !! k); eauto.
        exfalso. simpl in Hk. repeat case_decide; done. }
      destruct Hsome as [[j' E]|[j' E]].
      + apply lookup_rename_on_Some in E as (n & i & -> & Hn & _); [|apply rho_inj_on].
        destruct (pin_to_node_cases inst d n) as [(p & Hp & -> & Hρ)|[Hnp Hρ]]; rewrite Hρ in Hk |- *.
        * destruct (pins_dom p Hp) as [i' Hi']. by eapply Hpin.
        * destruct (fill_node_parent n i Hn Hnp) as (j'' & Hj'' & Hok).
          rewrite Hk in Hj''. simplify_eq. apply (Hok v). by apply HP.
      + apply lookup_rename_Some in E as (m & i' & -> & Hm & _); [|apply _].
        destruct (decide (m ∈ pins)) as [Hp|Hp]; [destruct (Pg !! pin inst m) as [i|] eqn:Hi|].
        * by eapply Hpin.
        * destruct (fill_node_child m i' Hm (or_intror Hi)) as (j'' & Hj'' & Hok).
          rewrite Hk in Hj''. simplify_eq. apply (Hok v). by apply HSs.
        * destruct (fill_node_child m i' Hm (or_introl Hp)) as (j'' & Hj'' & Hok).
          rewrite Hk in Hj''. simplify_eq. apply (Hok v). by apply HSs.
  Qed.
End fill_sem.

Theorem fill_blackbox_relabel_is_rename P inst SC P' d :
  c_bbs P !! inst = Some d → fill_blackbox P inst SC = (P', Done) →
  inj_on (pin_to_node inst d) (dom (c_g P)) ∧
  relabel_pins inst d (c_g P) = rename (pin_to_node inst d) (c_g P).
Proof.
  intros Hd Hf. destruct (fill_blackbox_inv P inst SC P' d Hd Hf) as (_ & Hin & Hout & Hfresh & _).
  assert (Hinj : inj_on (pin_to_node inst d) (dom (c_g P))) by by eapply rho_inj_on.
  split; [done|]. by apply relabel_pins_rename.
Qed.

Theorem fill_blackbox_sem P inst SC P' d :
  closed (c_g P) →
  (∀ n i, c_g SC !! n = Some i → n_ty i = Input → n_fi i = ∅) →
  bb_in d ## bb_out d →
  (∀ p i, p ∈ bb_in d → c_g P !! pin inst p = Some i → n_ty i = BbIn) →
  (∀ q i, q ∈ bb_out d → c_g P !! pin inst q = Some i → n_ty i = BbOut ∧ n_fi i = ∅) →
  c_bbs P !! inst = Some d → fill_blackbox P inst SC = (P', Done) →
  ∀ v, consistent (c_g P') v ↔
       consistent (c_g P) (v ∘ pin_to_node inst d) ∧ consistent (strip_io (c_g SC)) (v ∘ pre inst).
Proof.
  intros Hcl Hund Hdisj HinP HoutP Hd Hf v.
  destruct (fill_blackbox_inv P inst SC P' d Hd Hf) as (_ & Hin & Hout & Hfresh & _ & _ & Hg).
  rewrite Hg. by apply fill_graph_sem.
Qed.

(* bonus: the node set of the filled parent *)
Theorem fill_blackbox_dom P inst SC P' d :
  c_bbs P !! inst = Some d → fill_blackbox P inst SC = (P', Done) →
  dom (c_g P') = set_map (pin_to_node inst d) (dom (c_g P)) ∪ set_map (pre inst) (dom (c_g SC)).
Proof.
  intros Hd Hf.
  destruct (fill_blackbox_inv P inst SC P' d Hd Hf) as (_ & Hin & Hout & Hfresh & _ & _ & Hg).
  assert (Hinj : inj_on (pin_to_node inst d) (dom (c_g P))) by by eapply rho_inj_on.
  rewrite <- (dom_rename_on _ _ Hinj), <- (dom_rename (pre inst)) by apply _.
  apply set_eq. intros k. rewrite elem_of_union, !elem_of_dom, Hg.
  change (is_Some (fill_graph inst d (c_g P) (c_g SC) !! k) ↔
          is_Some (rename (pin_to_node inst d) (c_g P) !! k) ∨ is_Some (rename (pre inst) (c_g SC) !! k)).
  rewrite (fill_graph_lookup inst d (c_g P) (c_g SC) Hin Hout Hfresh k).
  destruct (rename (pin_to_node inst d) (c_g P) !! k), (rename (pre inst) (c_g SC) !! k);
    simpl; repeat case_decide; simpl; split; eauto; try (intros [? ?]; done); intros [[? ?]|[? ?]]; done.
Qed.
