(* C09, sequential circuits, stage S2b/S3: the run of the stripped circuit (what sequential_unroll unrolls) IS the cycle-accurate
   run `flop_run` of the flop circuit itself, read through the pin renaming <inst>.<pin> -> <inst>_<pin>.
   Chain of graphs:  g = c_g C --remove ignored pins--> pruned --expose + rename--> h --remove non-D inputs--> g1
   --remove non-Q outputs--> g2 --unloaded-input sweep--> g3 = c_g CS.  Every link only deletes nodes that no kept node reads, so a
   consistent valuation of g restricts (through the inverse renaming) to one of g3, and a free node of g3 is a free node of g.
   The flop circuit's run therefore restricts to a run of g3 (induction on the step), and runs are unique. *)
From Coq Require Import Ascii.
From stdpp Require Import strings gmap sets fin_sets.
From CG Require Import Proofs.ApiProofs.
From CG Require Import Base.Api Base.Compose Base.Oracle Model.Compose6 Model.Unroll Model.Lint Proofs.LintProofs Proofs.ComposeProofs
  Proofs.FillProofs Proofs.UnrollProofs Proofs.UnrollSteps Proofs.UnrollLink Proofs.UnrollModelTotal Proofs.FlopSemantics Proofs.RemoveNodes.
Open Scope string_scope.

(* ---------- strings: dots ---------- *)
Lemma str_has_dot_app a b : str_has_dot (a ++ b) = str_has_dot a || str_has_dot b.
Proof. induction a as [|ch a IH]; simpl; [done|]. destruct (Ascii.eqb ch "."); [done|exact IH]. Qed.
Lemma undot_app a b : undot (a ++ b) = undot a ++ undot b.
Proof. induction a as [|ch a IH]; [done|]. change (String ch a ++ b) with (String ch (a ++ b)). cbn [undot]. by rewrite IH. Qed.
Lemma undot_nodot a : str_has_dot a = false → undot a = a.
Proof. induction a as [|ch a IH]; simpl; [done|]. destruct (Ascii.eqb ch "."); [done|]. intros H. by rewrite IH. Qed.
Lemma undot_pin b p : str_has_dot b = false → str_has_dot p = false → undot (Api.pin b p) = pre b p.
Proof. intros Hb Hp. unfold Api.pin, pre. rewrite !undot_app, (undot_nodot b), (undot_nodot p) by done. done. Qed.
Lemma last_seg_pin b p : str_has_dot p = false → last_seg (Api.pin b p) = p.
Proof.
  intros Hp. unfold Api.pin. induction b as [|ch b IH].
  - change ("" ++ "." ++ p) with (String "." p). simpl. by rewrite Hp.
  - change (String ch b ++ "." ++ p) with (String ch (b ++ "." ++ p)). simpl.
    rewrite str_has_dot_app. change ("." ++ p) with (String "." p). simpl. by rewrite orb_true_r.
Qed.
Lemma str_has_dot_undot a : str_has_dot (undot a) = false.
Proof. induction a as [|ch a IH]; simpl; [done|]. destruct (Ascii.eqb ch ".") eqn:E; simpl; [done|]. by rewrite E. Qed.
Lemma str_has_dot_pin b p : str_has_dot (Api.pin b p) = true.
Proof. unfold Api.pin. rewrite str_has_dot_app. change ("." ++ p) with (String "." p). simpl. by rewrite orb_true_r. Qed.

(* ---------- consistency only looks at the nodes of the graph ---------- *)
Lemma consistent_agrees c v v' : closed c → agrees (dom c) v v' → consistent c v → consistent c v'.
Proof.
  intros Hcl Ha Hv n i Hn. specialize (Hv n i Hn). unfold node_ok in *. destruct (is_free i); [done|].
  assert (Hg : ∀ t, gate_val t v (n_fi i) = gate_val t v' (n_fi i)).
  { intros t. apply gate_val_ext. intros f Hf. apply Ha. eapply Hcl; eauto. }
  rewrite <- (Ha n) by (apply elem_of_dom; eauto). destruct (n_ty i); rewrite <- ?Hg; done.
Qed.
Lemma free_nodes_dom c n : n ∈ free_nodes c → n ∈ dom c.
Proof. unfold free_nodes. rewrite !elem_of_dom. intros [i Hi]. apply map_filter_lookup_Some in Hi as [Hi _]. eauto. Qed.
Lemma elem_of_free_nodes c n : n ∈ free_nodes c ↔ ∃ i, c !! n = Some i ∧ is_free i = true.
Proof.
  unfold free_nodes. rewrite elem_of_dom. split.
  - intros [i Hi]. apply map_filter_lookup_Some in Hi as [? ?]. eauto.
  - intros (i & ? & ?). exists i. by apply map_filter_lookup_Some.
Qed.

(* ---------- an inverse of a renaming that is injective on the names that occur ---------- *)
Definition rinv (ρ : string → string) (X : gset string) (k : string) : string :=
  match list_find (λ n, ρ n = k) (elements X) with Some (_, n) => n | None => k end.
Lemma rinv_ok ρ X n : inj_on ρ X → n ∈ X → rinv ρ X (ρ n) = n.
Proof.
  intros Hinj Hn. unfold rinv. destruct (list_find _ _) as [[j n']|] eqn:E.
  - apply list_find_Some in E as (Hj & He & _). apply Hinj; [|done|done]. apply elem_of_elements. by eapply elem_of_list_lookup_2.
  - exfalso. eapply list_find_None in E. rewrite Forall_forall in E. apply (E n); [by apply elem_of_elements|done].
Qed.

(* ---------- state pairs through a renaming ---------- *)
Lemma state_src_map (ρ : string → string) (fp : list (string * string)) i :
  (∀ kv, kv ∈ fp → ρ kv.2 = ρ i → kv.2 = i) →
  state_src ((λ kv, (ρ kv.1, ρ kv.2)) <$> fp) (ρ i) = ρ <$> state_src fp i.
Proof.
  unfold state_src. induction fp as [|kv l IH]; intros H; [done|].
  rewrite fmap_cons. simpl. destruct (decide (kv.2 = i)) as [E|E].
  - rewrite decide_True by (by rewrite E). done.
  - rewrite decide_False by (intros E'; apply E, H; [by left|done]).
    specialize (IH (λ kv' Hkv', H kv' (elem_of_list_further _ _ _ Hkv'))).
    destruct (list_find _ l) as [[j kv']|], (list_find _ (_ <$> l)) as [[j2 kv2]|]; simpl in *; congruence.
Qed.

(* ---------- the abstract link: a graph g3 that is "g seen through ρ with irrelevant nodes dropped" has the same runs ---------- *)
Section link.
  Context (g g3 : circuit) (ρ : string → string) (fp : list (string * string)).
  Let sio := (λ kv : string * string, (ρ kv.1, ρ kv.2)) <$> fp.
  Let R := rinv ρ (dom g).
  Context (Hcl : closed g) (Hac : acyclic g) (Hcl3 : closed g3) (Hac3 : acyclic g3).
  Context (Hinj : inj_on ρ (dom g)).
  Context (Hfp : ∀ kv, kv ∈ fp → kv.1 ∈ dom g ∧ kv.2 ∈ dom g).
  Context (Hkeys3 : ∀ kv, kv ∈ fp → ρ kv.1 ∈ dom g3).
  Context (Hcons : ∀ y, consistent g y → consistent g3 (y ∘ R)).
  Context (Hfree : ∀ k, k ∈ free_nodes g3 → ∃ i, i ∈ free_nodes g ∧ k = ρ i).

  Lemma link_step_in prev st insT i : i ∈ dom g →
    step_in sio ((λ p : val, p ∘ R) <$> prev) st insT (ρ i) = step_in fp prev (st ∘ ρ) (insT ∘ ρ) i.
  Proof.
    intros Hi. unfold step_in, sio. rewrite state_src_map.
    - destruct (state_src fp i) as [k|] eqn:E; simpl; [|done]. destruct prev as [p|]; simpl; [|done].
      unfold R. rewrite rinv_ok; [done|done|].
      unfold state_src in E. destruct (list_find _ fp) as [[j kv]|] eqn:E'; simpl in E; [|done]. injection E as <-.
      apply list_find_Some in E' as (Hj & _ & _). apply Hfp. by eapply elem_of_list_lookup_2.
    - intros kv Hkv. apply Hinj; [by apply Hfp|done].
  Qed.

  Lemma link_is_runF st ins t :
    is_runF g3 sio st ins t (run g fp t (st ∘ ρ) (λ t, ins t ∘ ρ) ∘ R).
  Proof.
    induction t as [|t IH]; cbn [is_runF run].
    - split; [by apply Hcons, evalc_consistent|]. intros k (i & Hi & ->)%Hfree.
      pose proof (free_nodes_dom _ _ Hi) as Hd. cbn [compose]. unfold R at 1. rewrite rinv_ok by done.
      rewrite evalc_free by done. symmetry. apply (link_step_in None st (ins 0) i Hd).
    - split; [by apply Hcons, evalc_consistent|]. eexists. split; [exact IH|]. intros k (i & Hi & ->)%Hfree.
      pose proof (free_nodes_dom _ _ Hi) as Hd. cbn [compose]. unfold R at 1. rewrite rinv_ok by done.
      rewrite evalc_free by done. symmetry.
      apply (link_step_in (Some (run g fp t (st ∘ ρ) (λ t, ins t ∘ ρ))) st (ins (S t)) i Hd).
  Qed.

  Theorem link_run st ins t n : n ∈ dom g → ρ n ∈ dom g3 →
    run g fp t (st ∘ ρ) (λ t, ins t ∘ ρ) n = run g3 sio t st ins (ρ n).
  Proof.
    intros Hn Hn3.
    assert (Hk : ∀ kv, kv ∈ sio → kv.1 ∈ dom g3).
    { intros kv (kv0 & -> & Hkv0)%elem_of_list_fmap. by apply Hkeys3. }
    pose proof (is_runF_unique g3 sio Hcl3 Hac3 Hk st ins t _ _ (link_is_runF st ins t) (run_is_runF g3 sio Hcl3 Hac3 st ins t)) as Hu.
    rewrite <- (Hu (ρ n) Hn3). cbn [compose]. unfold R. by rewrite rinv_ok.
  Qed.
End link.

(* ---------- inversion of seq_stripped ---------- *)
Lemma seq_stripped_inv C d q ign ru CS sio : seq_stripped C d q ign ru = Ok (CS, sio) →
  ∃ R bb, strip_blackboxes C ign = Ok R ∧
    (∀ b bb', c_bbs C !! b = Some bb' → bb_in bb' = bb_in bb ∧ bb_out bb' = bb_out bb) ∧ d ∈ bb_in bb ∧ q ∈ bb_out bb ∧
    let insts := elements (dom (c_bbs C)) in
    let g1 := remove_g (c_g R) (p ← elements (bb_in bb ∖ {[d]} ∖ list_to_set ign); (λ b, pre b p) <$> insts) in
    let g2 := remove_g g1 (p ← elements (bb_out bb ∖ {[q]} ∖ list_to_set ign); (λ b, pre b p) <$> insts) in
    let qs : gset string := list_to_set ((λ b, pre b q) <$> insts) in
    CS = with_g R (remove_g g2 (if ru then elements (filter (λ i, fanout g2 i = ∅ ∧ i ∉ qs ∧ is_output g2 i = false) (inputs g2)) else [])) ∧
    sio = (λ b, (pre b d, pre b q)) <$> insts.
Proof.
  unfold seq_stripped. destruct (strip_blackboxes C ign) as [R| | |]; simpl; try done.
  destruct (map_to_list (c_bbs C)) as [|[b0 bb] rest] eqn:El; [done|].
  destruct (forallb _ _) eqn:Ef; simpl; [|done].
  case_bool_decide as Hd; simpl; [|done]. case_bool_decide as Hq; simpl; [|done]. intros [= <- <-].
  exists R, bb. split; [done|]. split; [|split; [done|split; [done|]]].
  - intros b bb' Hb. rewrite forallb_forall in Ef.
    assert (In (b, bb') ((b0, bb) :: rest)) as Hin by (apply elem_of_list_In; rewrite <- El; by apply elem_of_map_to_list).
    specialize (Ef _ Hin). cbn beta iota zeta delta [fst snd] in Ef. by rewrite andb_true_iff, !bool_decide_eq_true in Ef.
  - cbv zeta. split; [|done]. destruct ru; [done|]. by rewrite remove_g_nil.
Qed.

(* no pin other than D / Q survives the two pin removals (whatever is ignored) *)
Lemma no_pin_after_removal (h : circuit) (bb : bbdef) (insts U ign : list string) d q b p :
  b ∈ insts → p ∈ bb_pinset bb → p ≠ d → p ≠ q → p ∉ ign →
  pre b p ∉ dom (remove_g (remove_g (remove_g h (p ← elements (bb_in bb ∖ {[d]} ∖ list_to_set ign); (λ b, pre b p) <$> insts))
                                    (p ← elements (bb_out bb ∖ {[q]} ∖ list_to_set ign); (λ b, pre b p) <$> insts)) U).
Proof.
  intros Hb Hp Hpd Hpq Hpi Hin. apply dom_remove_g in Hin as [Hin _]. apply dom_remove_g in Hin as [Hin HnB]. apply dom_remove_g in Hin as [_ HnA].
  assert (p ∉ (list_to_set ign : gset string)) by by rewrite elem_of_list_to_set.
  apply elem_of_union in Hp as [Hp|Hp].
  - apply HnA. apply elem_of_list_to_set, elem_of_list_bind. exists p.
    split; [apply elem_of_list_fmap; by exists b|apply elem_of_elements; set_solver].
  - apply HnB. apply elem_of_list_to_set, elem_of_list_bind. exists p.
    split; [apply elem_of_list_fmap; by exists b|apply elem_of_elements; set_solver].
Qed.

(* ---------- the concrete chain ---------- *)
Section chain.
  Context (C : Circuit) (d q : string) (ign : list string) (bb : bbdef) (U : list string).
  Let g := c_g C.
  Let I := ignored_pins g ign.
  Let kept := kept_pins g ign.
  Let ρ := pin_rho kept.
  Let pruned := remove_g g (elements I).
  Let h := rename ρ (expose_info <$> pruned).
  Let insts := elements (dom (c_bbs C)).
  Let A := p ← elements (bb_in bb ∖ {[d]} ∖ list_to_set ign); (λ b, pre b p) <$> insts.
  Let B := p ← elements (bb_out bb ∖ {[q]} ∖ list_to_set ign); (λ b, pre b p) <$> insts.
  Let g1 := remove_g h A.
  Let g2 := remove_g g1 B.
  Let g3 := remove_g g2 U.
  Context (HU : ∀ u, u ∈ U → fanout g2 u = ∅).
  Context (Hcl : closed g) (Hlint : lint_clean C) (Hnames : flop_names_ok C ign) (Hwire : flop_wiring_ok C q).
  Context (Hsame : ∀ b bb', c_bbs C !! b = Some bb' → bb_in bb' = bb_in bb ∧ bb_out bb' = bb_out bb).
  Context (Hd : d ∈ bb_in bb) (Hq : q ∈ bb_out bb) (Hdi : d ∉ ign) (Hqi : q ∉ ign).

  (* --- the guards, unpacked --- *)
  Lemma reg_bb b : b ∈ dom (c_bbs C) → ∃ bb', c_bbs C !! b = Some bb' ∧ bb_pinset bb' = bb_pinset bb.
  Proof. intros [bb' Hb]%elem_of_dom. exists bb'. split; [done|]. destruct (Hsame b bb' Hb) as [E1 E2]. unfold bb_pinset. by rewrite E1, E2. Qed.
  Lemma nm_dot b : b ∈ dom (c_bbs C) → str_has_dot b = false.
  Proof. intros [bb' Hb]%elem_of_dom. destruct Hnames as [H _]. by destruct (H b bb' Hb). Qed.
  Lemma nm_pin b p : b ∈ dom (c_bbs C) → p ∈ bb_pinset bb → str_has_dot p = false ∧ (p ∉ ign → pre b p ∉ dom g).
  Proof.
    intros (bb' & Hb & E)%reg_bb Hp. destruct Hnames as [H _]. destruct (H b bb' Hb) as (_ & H2 & _). apply H2. by rewrite E.
  Qed.
  Lemma nm_flat b b' p p' : b ∈ dom (c_bbs C) → b' ∈ dom (c_bbs C) → p ∈ bb_pinset bb → p' ∈ bb_pinset bb →
    pre b p = pre b' p' → b = b' ∧ p = p'.
  Proof.
    intros (bb1 & Hb & E)%reg_bb (bb2 & Hb' & E')%reg_bb Hp Hp'. destruct Hnames as [H _]. destruct (H b bb1 Hb) as (_ & _ & H3).
    apply (H3 b' bb2 Hb'); by rewrite ?E, ?E'.
  Qed.
  Lemma nm_reg n : n ∈ bb_pins g → ∃ b p, b ∈ dom (c_bbs C) ∧ p ∈ bb_pinset bb ∧ n = Api.pin b p.
  Proof.
    intros Hn. destruct Hnames as [_ H]. specialize (H n Hn). cbv beta in H. unfold all_pins in H.
    apply elem_of_list_to_set, elem_of_list_bind in H as ([b bb'] & Hin & Hm). apply elem_of_map_to_list in Hm.
    apply elem_of_list_fmap in Hin as (p & -> & Hp%elem_of_elements). simpl in *.
    assert (b ∈ dom (c_bbs C)) as Hb by (apply elem_of_dom; eauto).
    exists b, p. split; [done|]. split; [|done]. destruct (Hsame b bb' Hm) as [E1 E2]. unfold bb_pinset in *. by rewrite <- E1, <- E2.
  Qed.
  Lemma wire_q n i f : g !! n = Some i → f ∈ n_fi i → f ∈ bb_pins g → ∃ b, b ∈ dom (c_bbs C) ∧ f = Api.pin b q.
  Proof.
    intros Hn Hf Hp. specialize (Hwire n i Hn f Hf Hp). cbv beta in Hwire. unfold q_pins in Hwire.
    apply elem_of_list_to_set, elem_of_list_fmap in Hwire as (b & -> & Hb%elem_of_elements). eauto.
  Qed.
  (* lint: the pins of every instance exist with their pin type *)
  Lemma pin_ty_in b p : b ∈ dom (c_bbs C) → p ∈ bb_in bb → ty g (Api.pin b p) = Some BbIn.
  Proof.
    intros [bb' Hb]%elem_of_dom Hp. destruct (Hsame b bb' Hb) as [E1 _].
    assert (gen_ok : tables_ok gen_tables = true) by (vm_compute; reflexivity).
    apply (lint_ok_iff gen_tables gen_ok) in Hlint.
    destruct (decide (ty g (Api.pin b p) = Some BbIn)) as [|Hne]; [done|]. exfalso. apply Hlint. right. exists b, bb'. split; [done|].
    left. exists p. split; [by rewrite E1|done].
  Qed.
  Lemma pin_ty_out b p : b ∈ dom (c_bbs C) → p ∈ bb_out bb → ty g (Api.pin b p) = Some BbOut.
  Proof.
    intros [bb' Hb]%elem_of_dom Hp. destruct (Hsame b bb' Hb) as [_ E2].
    assert (gen_ok : tables_ok gen_tables = true) by (vm_compute; reflexivity).
    apply (lint_ok_iff gen_tables gen_ok) in Hlint.
    destruct (decide (ty g (Api.pin b p) = Some BbOut)) as [|Hne]; [done|]. exfalso. apply Hlint. right. exists b, bb'. split; [done|].
    right. exists p. split; [by rewrite E2|done].
  Qed.
  Lemma ty_dom (c : circuit) n t : ty c n = Some t → ∃ i, c !! n = Some i ∧ n_ty i = t.
  Proof. unfold ty. destruct (c !! n) as [i|]; simpl; [|done]. intros [= <-]. eauto. Qed.
  Lemma pin_is_pin b p : b ∈ dom (c_bbs C) → p ∈ bb_pinset bb → Api.pin b p ∈ bb_pins g.
  Proof.
    intros Hb [Hp|Hp]%elem_of_union; apply elem_of_bb_pins.
    - destruct (ty_dom _ _ _ (pin_ty_in b p Hb Hp)) as (i & Hi & Ht). eauto.
    - destruct (ty_dom _ _ _ (pin_ty_out b p Hb Hp)) as (i & Hi & Ht). eauto.
  Qed.

  (* --- the renaming --- *)
  Lemma kept_form x : x ∈ kept → ∃ b p, b ∈ dom (c_bbs C) ∧ p ∈ bb_pinset bb ∧ x = Api.pin b p ∧ ρ x = pre b p ∧ p ∉ ign.
  Proof.
    intros Hx. assert (x ∈ bb_pins g ∧ x ∉ ignored_pins g ign) as [Hp Hni] by (unfold kept, kept_pins in Hx; by apply elem_of_difference in Hx).
    destruct (nm_reg x Hp) as (b & p & Hb & Hpp & ->). exists b, p. split; [done|]. split; [done|]. split; [done|].
    split; [|intros Hi; apply Hni; unfold ignored_pins; apply elem_of_filter; split; [|done]; by rewrite last_seg_pin by by apply (nm_pin b p)].
    unfold ρ, pin_rho. rewrite bool_decide_eq_true_2 by done. apply undot_pin; [by apply nm_dot|by apply (nm_pin b p)].
  Qed.
  Lemma rho_notkept x : x ∉ kept → ρ x = x.
  Proof. intros Hx. unfold ρ, pin_rho. by rewrite bool_decide_eq_false_2. Qed.
  Lemma rho_pre x b p : x ∈ dom g → b ∈ dom (c_bbs C) → p ∈ bb_pinset bb → p ∉ ign → ρ x = pre b p → x = Api.pin b p.
  Proof.
    intros Hx Hb Hp Hpi E. destruct (decide (x ∈ kept)) as [Hk|Hk].
    - destruct (kept_form x Hk) as (b' & p' & Hb' & Hp' & -> & E' & _). rewrite E' in E.
      by destruct (nm_flat _ _ _ _ Hb' Hb Hp' Hp E) as [-> ->].
    - rewrite rho_notkept in E by done. subst x. exfalso. by apply (nm_pin b p Hb Hp).
  Qed.
  Lemma rho_inj : inj_on ρ (dom g).
  Proof.
    intros x y Hx Hy E. destruct (decide (x ∈ kept)) as [Hk|Hk].
    - destruct (kept_form x Hk) as (b & p & Hb & Hp & -> & E' & Hpi). rewrite E' in E. symmetry. by eapply rho_pre.
    - rewrite (rho_notkept x) in E by done. destruct (decide (y ∈ kept)) as [Hk'|Hk']; [|by rewrite (rho_notkept y) in E].
      destruct (kept_form y Hk') as (b & p & Hb & Hp & -> & E' & Hpi). rewrite E' in E. subst x. exfalso. by apply (nm_pin b p Hb Hp).
  Qed.
  Lemma pin_kept b p : b ∈ dom (c_bbs C) → p ∈ bb_pinset bb → p ∉ ign → Api.pin b p ∈ kept ∧ ρ (Api.pin b p) = pre b p.
  Proof.
    intros Hb Hp Hi. assert (Api.pin b p ∈ kept) as Hk.
    { unfold kept, kept_pins. apply elem_of_difference. split; [by apply pin_is_pin|].
      unfold ignored_pins. rewrite elem_of_filter. intros [Hl _]. rewrite last_seg_pin in Hl by by apply (nm_pin b p). done. }
    split; [done|]. destruct (kept_form _ Hk) as (b' & p' & Hb' & Hp' & E & E' & _). rewrite E'.
    destruct (kept_form _ Hk) as (b2 & p2 & _ & _ & E2 & E2' & _). rewrite E2' in E'.
    unfold ρ, pin_rho in E2'. rewrite bool_decide_eq_true_2 in E2' by done. rewrite undot_pin in E2'; [|by apply nm_dot|by apply (nm_pin b p)].
    congruence.
  Qed.

  (* --- no kept node reads a removed node, link by link --- *)
  Lemma Hdis0 n i : g !! n = Some i → n ∉ (list_to_set (elements I) : gset string) → n_fi i ## (list_to_set (elements I) : gset string).
  Proof.
    intros Hn _. apply elem_of_disjoint. intros f Hf HfI. rewrite elem_of_list_to_set, elem_of_elements in HfI.
    unfold I, ignored_pins in HfI. apply elem_of_filter in HfI as [Hl Hp].
    destruct (wire_q n i f Hn Hf Hp) as (b & Hb & ->). rewrite last_seg_pin in Hl; [done|].
    apply (nm_pin b q Hb). unfold bb_pinset. set_solver.
  Qed.
  Lemma pruned_lookup n i : pruned !! n = Some i → g !! n = Some i ∧ n ∉ I.
  Proof.
    intros Hn. assert (n ∉ (list_to_set (elements I) : gset string)) as HnI.
    { intros Hin. unfold pruned in Hn. rewrite remove_lookup, decide_True in Hn by done. done. }
    unfold pruned in Hn. rewrite (remove_kept_lookup g (elements I) Hdis0) in Hn by done. split; [done|].
    by rewrite elem_of_list_to_set, elem_of_elements in HnI.
  Qed.
  Lemma pruned_closed : closed pruned.
  Proof. by apply closed_remove_g. Qed.
  Lemma pruned_dom n : n ∈ dom pruned → n ∈ dom g.
  Proof. intros [i Hi]%elem_of_dom. apply pruned_lookup in Hi as [Hi _]. apply elem_of_dom. eauto. Qed.
  Lemma h_inj : inj_on ρ (dom (expose_info <$> pruned)).
  Proof. rewrite dom_fmap_L. intros x y Hx Hy. apply rho_inj; by apply pruned_dom. Qed.
  Lemma h_lookup k j : h !! k = Some j → ∃ n i, k = ρ n ∧ g !! n = Some i ∧ n ∉ I ∧ j = ren_info ρ (expose_info i).
  Proof.
    intros Hk. unfold h in Hk. apply lookup_rename_on_Some in Hk as (n & i' & -> & Hn & ->); [|apply h_inj].
    rewrite lookup_fmap in Hn. destruct (pruned !! n) as [i|] eqn:E; simpl in Hn; [|done]. injection Hn as <-.
    apply pruned_lookup in E as [E1 E2]. eauto 10.
  Qed.
  Lemma fi_h k j f' : h !! k = Some j → f' ∈ n_fi j → ∃ n i f, g !! n = Some i ∧ f ∈ n_fi i ∧ f ∈ dom g ∧ f' = ρ f.
  Proof.
    intros Hk Hf. apply h_lookup in Hk as (n & i & -> & Hn & _ & ->). cbn [ren_info n_fi] in Hf. rewrite n_fi_expose in Hf.
    apply elem_of_map in Hf as (f & -> & Hf). exists n, i, f. split; [done|]. split; [done|]. split; [|done]. eapply Hcl; eauto.
  Qed.
  Lemma in_A x : x ∈ (list_to_set A : gset string) → ∃ b p, b ∈ dom (c_bbs C) ∧ p ∈ bb_in bb ∧ p ≠ d ∧ p ∉ ign ∧ x = pre b p.
  Proof.
    rewrite elem_of_list_to_set. unfold A. intros (p & Hx & Hp%elem_of_elements)%elem_of_list_bind.
    apply elem_of_list_fmap in Hx as (b & -> & Hb%elem_of_elements). exists b, p.
    apply elem_of_difference in Hp as [[Hp Hne]%elem_of_difference Hpi]. rewrite elem_of_list_to_set in Hpi. set_solver.
  Qed.
  Lemma in_B x : x ∈ (list_to_set B : gset string) → ∃ b p, b ∈ dom (c_bbs C) ∧ p ∈ bb_out bb ∧ p ≠ q ∧ p ∉ ign ∧ x = pre b p.
  Proof.
    rewrite elem_of_list_to_set. unfold B. intros (p & Hx & Hp%elem_of_elements)%elem_of_list_bind.
    apply elem_of_list_fmap in Hx as (b & -> & Hb%elem_of_elements). exists b, p.
    apply elem_of_difference in Hp as [[Hp Hne]%elem_of_difference Hpi]. rewrite elem_of_list_to_set in Hpi. set_solver.
  Qed.
  Lemma read_not_A n i f : g !! n = Some i → f ∈ n_fi i → f ∈ dom g → ρ f ∉ (list_to_set A : gset string).
  Proof.
    intros Hn Hf Hfd (b & p & Hb & Hp & _ & Hpi & E)%in_A.
    assert (p ∈ bb_pinset bb) as Hpp by (unfold bb_pinset; set_solver).
    apply rho_pre in E; [|done..]. subst f. pose proof (pin_ty_in b p Hb Hp) as Ht.
    destruct (wire_q n i _ Hn Hf (pin_is_pin b p Hb Hpp)) as (b' & Hb' & E'). rewrite E' in Ht.
    rewrite (pin_ty_out b' q Hb' Hq) in Ht. done.
  Qed.
  Lemma read_not_B n i f : g !! n = Some i → f ∈ n_fi i → f ∈ dom g → ρ f ∉ (list_to_set B : gset string).
  Proof.
    intros Hn Hf Hfd (b & p & Hb & Hp & Hne & Hpi & E)%in_B.
    assert (p ∈ bb_pinset bb) as Hpp by (unfold bb_pinset; set_solver).
    pose proof E as E0. apply rho_pre in E; [|done..]. subst f.
    destruct (wire_q n i _ Hn Hf (pin_is_pin b p Hb Hpp)) as (b' & Hb' & E').
    assert (q ∈ bb_pinset bb) as Hqq by (unfold bb_pinset; set_solver).
    destruct (pin_kept b' q Hb' Hqq Hqi) as [_ Er]. rewrite E', Er in E0.
    destruct (nm_flat _ _ _ _ Hb' Hb Hqq Hpp E0) as [_ ->]. done.
  Qed.
  Lemma Hdis1 k j : h !! k = Some j → k ∉ (list_to_set A : gset string) → n_fi j ## (list_to_set A : gset string).
  Proof.
    intros Hk _. apply elem_of_disjoint. intros f' Hf HA. destruct (fi_h k j f' Hk Hf) as (n & i & f & Hn & Hfi & Hfd & ->).
    by apply (read_not_A n i f).
  Qed.
  Lemma g1_lookup k j : g1 !! k = Some j → h !! k = Some j ∧ k ∉ (list_to_set A : gset string).
  Proof.
    intros Hk. assert (k ∉ (list_to_set A : gset string)) as HkA.
    { intros Hin. unfold g1 in Hk. rewrite remove_lookup, decide_True in Hk by done. done. }
    unfold g1 in Hk. by rewrite (remove_kept_lookup h A Hdis1) in Hk.
  Qed.
  Lemma Hdis2 k j : g1 !! k = Some j → k ∉ (list_to_set B : gset string) → n_fi j ## (list_to_set B : gset string).
  Proof.
    intros [Hk _]%g1_lookup _. apply elem_of_disjoint. intros f' Hf HB. destruct (fi_h k j f' Hk Hf) as (n & i & f & Hn & Hfi & Hfd & ->).
    by apply (read_not_B n i f).
  Qed.
  Lemma Hdis3 k j : g2 !! k = Some j → k ∉ (list_to_set U : gset string) → n_fi j ## (list_to_set U : gset string).
  Proof.
    intros Hk _. apply elem_of_disjoint. intros f Hf HfU. rewrite elem_of_list_to_set in HfU. specialize (HU f HfU).
    assert (k ∈ fanout g2 f) as Hin by (apply elem_of_fanout; eauto). rewrite HU in Hin. set_solver.
  Qed.

  (* --- consistent valuations restrict along the chain; free nodes of g3 come from free nodes of g --- *)
  Lemma chain_cons y : consistent g y → consistent g3 (y ∘ rinv ρ (dom g)).
  Proof.
    intros Hy. apply (remove_consistent_restrict g2 U Hdis3). apply (remove_consistent_restrict g1 B Hdis2).
    apply (remove_consistent_restrict h A Hdis1). unfold h.
    apply consistent_rename_on'; [apply closed_expose, pruned_closed|apply h_inj|]. apply consistent_expose.
    apply (consistent_agrees pruned y); [apply pruned_closed| |by apply (remove_consistent_restrict g (elements I) Hdis0)].
    intros n Hn. cbn [compose]. rewrite rinv_ok; [done|apply rho_inj|by apply pruned_dom].
  Qed.
  Lemma chain_free k : k ∈ free_nodes g3 → ∃ i, i ∈ free_nodes g ∧ k = ρ i.
  Proof.
    intros [Hk _]%(remove_free g2 U Hdis3). apply (remove_free g1 B Hdis2) in Hk as [Hk _]. apply (remove_free h A Hdis1) in Hk as [Hk _].
    apply elem_of_free_nodes in Hk as (j & Hj & Hf). apply h_lookup in Hj as (n & i & -> & Hn & _ & ->).
    rewrite is_free_rename', is_free_expose in Hf. exists n. split; [|done]. apply elem_of_free_nodes. eauto.
  Qed.
  Lemma chain_dom k : k ∈ dom g3 → ∃ n, n ∈ dom g ∧ n ∉ I ∧ k = ρ n.
  Proof.
    intros [j Hj]%elem_of_dom. unfold g3 in Hj. rewrite remove_lookup in Hj. destruct (decide _) as [|N3]; [done|].
    destruct (g2 !! k) as [j2|] eqn:E2; [|done]. unfold g2 in E2. rewrite remove_lookup in E2. destruct (decide _) as [|N2]; [done|].
    destruct (g1 !! k) as [j1|] eqn:E1; [|done]. apply g1_lookup in E1 as [E1 _]. apply h_lookup in E1 as (n & i & -> & Hn & HnI & _).
    exists n. split; [apply elem_of_dom; eauto|done].
  Qed.

  Lemma chain_dq b : b ∈ dom (c_bbs C) → ρ (Api.pin b d) = pre b d ∧ ρ (Api.pin b q) = pre b q.
  Proof.
    intros Hb. destruct (pin_kept b d Hb) as [_ ->]; [apply elem_of_union; by left|done|].
    destruct (pin_kept b q Hb) as [_ ->]; [apply elem_of_union; by right|done|]. done.
  Qed.

  (* --- a primary output of the flop circuit (not a pin) survives, under its own name, as an output --- *)
  Lemma n_out_expose i : n_out i = true → n_out (expose_info i) = true.
  Proof. unfold expose_info. by destruct (n_ty i). Qed.
  Lemma chain_output o : (∀ u, u ∈ U → is_output g2 u = false) → o ∈ outputs g → o ∉ bb_pins g → ρ o = o ∧ o ∈ outputs g3.
  Proof.
    intros HU2 (i & Hi & Ho)%elem_of_outputs Hnp.
    assert (o ∉ kept) as Hk by (unfold kept, kept_pins; rewrite elem_of_difference; tauto).
    assert (Hr : ρ o = o) by by apply rho_notkept.
    split; [done|].
    assert (HoI : o ∉ (list_to_set (elements I) : gset string)).
    { rewrite elem_of_list_to_set, elem_of_elements. unfold I, ignored_pins. rewrite elem_of_filter. tauto. }
    assert (Hp : pruned !! o = Some i) by (unfold pruned; by rewrite (remove_kept_lookup g (elements I) Hdis0)).
    assert (Hh : h !! o = Some (ren_info ρ (expose_info i))).
    { rewrite <- Hr at 1. unfold h. rewrite lookup_rename_on; [|apply h_inj|rewrite dom_fmap_L; apply elem_of_dom; eauto].
      by rewrite lookup_fmap, Hp. }
    assert (Hod : o ∈ dom g) by (apply elem_of_dom; eauto).
    assert (HoA : o ∉ (list_to_set A : gset string)).
    { intros (b & p & Hb & Hp' & _ & Hpi & E)%in_A. subst o. destruct (nm_pin b p Hb) as [_ Hn]; [apply elem_of_union; by left|]. by apply Hn. }
    assert (HoB : o ∉ (list_to_set B : gset string)).
    { intros (b & p & Hb & Hp' & _ & Hpi & E)%in_B. subst o. destruct (nm_pin b p Hb) as [_ Hn]; [apply elem_of_union; by right|]. by apply Hn. }
    assert (H1 : g1 !! o = Some (ren_info ρ (expose_info i))) by (unfold g1; by rewrite (remove_kept_lookup h A Hdis1)).
    assert (H2 : g2 !! o = Some (ren_info ρ (expose_info i))) by (unfold g2; by rewrite (remove_kept_lookup g1 B Hdis2)).
    assert (Hout : n_out (ren_info ρ (expose_info i)) = true) by (cbn [ren_info n_out]; by apply n_out_expose).
    assert (HoU : o ∉ (list_to_set U : gset string)).
    { rewrite elem_of_list_to_set. intros Hu. specialize (HU2 o Hu). unfold is_output in HU2. rewrite H2 in HU2. change (n_out (expose_info i) = false) in HU2.
      by rewrite (n_out_expose i Ho) in HU2. }
    apply elem_of_outputs. exists (ren_info ρ (expose_info i)). split; [|done]. unfold g3. by rewrite (remove_kept_lookup g2 U Hdis3).
  Qed.

  (* --- the run of g3 is the flop circuit's run --- *)
  Context (Hac : acyclic g) (Hcl3 : closed g3) (Hac3 : acyclic g3).
  Context (Hkeys3 : ∀ b, b ∈ dom (c_bbs C) → pre b d ∈ dom g3).
  Lemma chain_sio : (λ b, (pre b d, pre b q)) <$> insts = (λ kv : string * string, (ρ kv.1, ρ kv.2)) <$> flop_pairs C d q.
  Proof.
    unfold flop_pairs. rewrite <- list_fmap_compose. apply list_fmap_ext. intros j b Hb. cbn.
    assert (b ∈ dom (c_bbs C)) as Hbd by (apply elem_of_elements; by eapply elem_of_list_lookup_2).
    destruct (pin_kept b d Hbd) as [_ ->]; [apply elem_of_union; by left|done|].
    destruct (pin_kept b q Hbd) as [_ ->]; [apply elem_of_union; by right|done|]. done.
  Qed.
  Theorem chain_run st ins t n : n ∈ dom g → ρ n ∈ dom g3 →
    flop_run C d q t (st ∘ ρ) (λ t, ins t ∘ ρ) n = run g3 ((λ b, (pre b d, pre b q)) <$> insts) t st ins (ρ n).
  Proof.
    intros Hn Hn3. rewrite chain_sio. unfold flop_run.
    apply (link_run g g3 ρ (flop_pairs C d q) Hcl Hac Hcl3 Hac3 rho_inj); try done.
    - intros kv (b & -> & Hb%elem_of_elements)%elem_of_list_fmap. cbn.
      split; [destruct (ty_dom _ _ _ (pin_ty_in b d Hb Hd)) as (i & Hi & _)|destruct (ty_dom _ _ _ (pin_ty_out b q Hb Hq)) as (i & Hi & _)];
        apply elem_of_dom; eauto.
    - intros kv (b & -> & Hb%elem_of_elements)%elem_of_list_fmap. cbn.
      destruct (pin_kept b d Hb) as [_ ->]; [apply elem_of_union; by left|done|]. by apply Hkeys3.
    - apply chain_cons.
    - apply chain_free.
  Qed.
End chain.

(* ---------- S2b: the stripped circuit's run is the flop circuit's run read through the pin renaming ---------- *)
Theorem stripped_is_flop_run C d q ign ru CS sio st ins t n :
  seq_stripped C d q ign ru = Ok (CS, sio) → lint_clean C → closed (c_g C) → acyclic (c_g C) → closed (c_g CS) → acyclic (c_g CS) →
  flop_names_ok C ign → flop_wiring_ok C q → d ∉ ign → q ∉ ign → (∀ kv, kv ∈ sio → kv.1 ∈ dom (c_g CS)) →
  let ρ := pin_rho (kept_pins (c_g C) ign) in
  n ∈ dom (c_g C) → ρ n ∈ dom (c_g CS) →
  flop_run C d q t (st ∘ ρ) (λ t, ins t ∘ ρ) n = run (c_g CS) sio t st ins (ρ n).
Proof.
  intros Hs Hl Hcl Hac Hcl3 Hac3 Hnm Hw Hdi Hqi Hk ρ Hn Hn3.
  destruct (seq_stripped_inv _ _ _ _ _ _ _ Hs) as (R & bb & HR & Hsame & Hd & Hq & HCS & Hsio). cbv zeta in HCS.
  apply strip_blackboxes_inv in HR as (_ & _ & ->). cbn [c_g] in HCS.
  subst CS sio. cbn [c_g with_g] in *.
  eapply chain_run; try done.
  - intros u Hu. destruct ru; [|by apply elem_of_nil in Hu]. apply elem_of_elements, elem_of_filter in Hu as [[Hu _] _]. exact Hu.
  - intros b Hb. apply (Hk (pre b d, pre b q)). apply elem_of_list_fmap. exists b. split; [done|]. by apply elem_of_elements.
Qed.

(* ---------- S3a: what sequential_unroll returns simulates the FLOP CIRCUIT cycle by cycle; io map: D and Q of every flop, no other pin ---------- *)
Lemma io_of_dom (c : circuit) o : o ∈ io_of c → o ∈ dom c.
Proof. unfold io_of. intros [(i & Hi & _)%elem_of_inputs|(i & Hi & _)%elem_of_outputs]%elem_of_union; apply elem_of_dom; eauto. Qed.

Theorem seq_flop_correct C n d q ign afo iv ru prefix CS sio :
  seq_stripped C d q ign ru = Ok (CS, sio) →
  lint_clean C → closed (c_g C) → acyclic (c_g C) → flop_names_ok C ign → flop_wiring_ok C q → d ∉ ign → q ∉ ign →
  lint_clean CS → c_bbs CS = ∅ → closed (c_g CS) → acyclic (c_g CS) → plain (c_g CS) → valid_names (c_g CS) → free_are_inputs (c_g CS) →
  1 ≤ n → sio_ok (c_g CS) sio → unroll_names_ok (c_g CS) n sio prefix → iv_ok C iv → iv_addable iv →
  let ρ := pin_rho (kept_pins (c_g C) ign) in
  ∃ U m, sequential_unroll C n d q ign afo iv ru prefix = Ok (U, m) ∧ dom m = io_of (c_g CS) ∧
    (∀ b, b ∈ dom (c_bbs C) → ρ (Api.pin b d) = pre b d ∧ ρ (Api.pin b q) = pre b q ∧ pre b d ∈ dom m ∧ pre b q ∈ dom m) ∧
    (∀ b bb p, c_bbs C !! b = Some bb → p ∈ bb_pinset bb → p ≠ d → p ≠ q → p ∉ ign → pre b p ∉ dom (c_g CS) ∧ pre b p ∉ dom m) ∧
    (∀ k, k ∈ dom (c_g CS) → ∃ x, x ∈ dom (c_g C) ∧ x ∉ ignored_pins (c_g C) ign ∧ k = ρ x) ∧
    (∀ o, o ∈ outputs (c_g C) → o ∉ bb_pins (c_g C) → ρ o = o ∧ o ∈ outputs (c_g CS) ∧ o ∈ dom m) ∧
    ∀ w, consistent (c_g U) w →
      let st := λ v, w (io_name (ρ v) prefix 0) in
      let ins := λ t i, w (io_name (ρ i) prefix t) in
      ∀ x t, x ∈ dom (c_g C) → ρ x ∈ dom m → t < n →
        m !! ρ x ≫= (.!! t) = Some (io_name (ρ x) prefix t) ∧ w (io_name (ρ x) prefix t) = flop_run C d q t st ins x.
Proof.
  intros Hs Hl Hcl Hac Hnm Hw Hdi Hqi Hl3 Hb3 Hcl3 Hac3 Hpl Hvn Hfr Hn Hsio Hun Hiv Hadd ρ.
  destruct (seq_correct C n d q ign afo iv ru prefix CS sio Hs Hl3 Hb3 Hcl3 Hac3 Hpl Hvn Hfr Hn Hsio Hun Hiv Hadd) as (U & m & HU & Hdom & Hsim).
  exists U, m. split; [done|]. split; [done|].
  assert (Hk : ∀ kv, kv ∈ sio → kv.1 ∈ dom (c_g CS) ∧ kv.1 ∈ io_of (c_g CS) ∧ kv.2 ∈ io_of (c_g CS)).
  { intros kv Hkv. destruct Hsio as (Hs1 & _). rewrite Forall_forall in Hs1. destruct (Hs1 kv Hkv) as [H1 H2].
    assert (kv.1 ∈ io_of (c_g CS)) by (apply elem_of_union; by right). split; [by apply io_of_dom|]. split; [done|]. apply elem_of_union; by left. }
  split; [|split; [|split; [|split]]].
  - intros b Hb. destruct (seq_stripped_inv _ _ _ _ _ _ _ Hs) as (R & bb & HR & Hsame & Hd & Hq & HCS & Esio). cbv zeta in HCS.
    assert ((pre b d, pre b q) ∈ sio) as Hin by (rewrite Esio; apply elem_of_list_fmap; exists b; split; [done|by apply elem_of_elements]).
    destruct (Hk _ Hin) as (_ & H1 & H2). rewrite Hdom. simpl in H1, H2.
    assert (ρ (Api.pin b d) = pre b d ∧ ρ (Api.pin b q) = pre b q) as [E1 E2]; [|done].
    eapply (chain_dq C d q ign bb); try done.
  - intros b bb' p Hb Hp Hpd Hpq Hpi.
    assert (pre b p ∉ dom (c_g CS)) as Hno; [|split; [done|rewrite Hdom; by intros Hin%io_of_dom]].
    destruct (seq_stripped_inv _ _ _ _ _ _ _ Hs) as (R & bb & HR & Hsame & Hd & Hq & HCS & Esio). cbv zeta in HCS.
    apply strip_blackboxes_inv in HR as (_ & _ & ->). cbn [c_g] in HCS. subst CS. cbn [c_g with_g].
    apply (no_pin_after_removal _ bb); try done; [apply elem_of_elements, elem_of_dom; eauto|].
    destruct (Hsame b bb' Hb) as [E1 E2]. unfold bb_pinset in *. by rewrite <- E1, <- E2.
  - intros k Hk'.
    destruct (seq_stripped_inv _ _ _ _ _ _ _ Hs) as (R & bb & HR & Hsame & Hd & Hq & HCS & Esio). cbv zeta in HCS.
    apply strip_blackboxes_inv in HR as (_ & _ & ->). cbn [c_g] in HCS. subst CS. cbn [c_g with_g] in Hk'.
    eapply (chain_dom C d q ign bb); try done.
    intros u Hu. destruct ru; [|by apply elem_of_nil in Hu]. apply elem_of_elements, elem_of_filter in Hu as [[Hu _] _]. exact Hu.
  - intros o Ho Hnp.
    assert (ρ o = o ∧ o ∈ outputs (c_g CS)) as [E1 E2]; [|split; [done|split; [done|rewrite Hdom; apply elem_of_union; by right]]].
    destruct (seq_stripped_inv _ _ _ _ _ _ _ Hs) as (R & bb & HR & Hsame & Hd & Hq & HCS & Esio). cbv zeta in HCS.
    apply strip_blackboxes_inv in HR as (_ & _ & ->). cbn [c_g] in HCS. subst CS. cbn [c_g with_g].
    eapply (chain_output C d q ign bb); try done.
    + intros u Hu. destruct ru; [|by apply elem_of_nil in Hu]. apply elem_of_elements, elem_of_filter in Hu as [[Hu _] _]. exact Hu.
    + intros u Hu. destruct ru; [|by apply elem_of_nil in Hu]. apply elem_of_elements, elem_of_filter in Hu as [(_ & _ & Hu) _]. exact Hu.
  - intros w Hcw. cbv zeta. intros x t Hx Hm Ht. rewrite Hdom in Hm. destruct (Hsim w Hcw (ρ x) t Hm Ht) as [H1 H2]. split; [done|].
    rewrite H2. symmetry.
    apply (stripped_is_flop_run C d q ign ru CS sio (λ v, w (io_name v prefix 0)) (λ t i, w (io_name i prefix t)) t x); try done.
    + intros kv Hkv. by apply Hk.
    + by apply io_of_dom.
Qed.

(* ---------- S3b: output marks and initial values of what sequential_unroll returns ---------- *)
Lemma so_fold_out (m : iomap) (key : string → string) afo (l : list string) : ∀ g g',
  foldl (λ st b, match st with
                 | (g, Done) => match m !! key b with Some l => set_output_g g l afo | None => (g, Fail KeyError) end
                 | _ => st end) (g, Done) l = (g', Done) →
  ∀ x, ((∀ b lst, b ∈ l → m !! key b = Some lst → x ∉ lst) → n_out <$> g' !! x = n_out <$> g !! x) ∧
       (∀ b lst, b ∈ l → m !! key b = Some lst → x ∈ lst → n_out <$> g' !! x = Some afo).
Proof.
  induction l as [|b l IH] using rev_ind; intros g g' H x.
  - simpl in H. injection H as <-. split; [done|]. intros b lst Hb. by apply elem_of_nil in Hb.
  - rewrite foldl_app in H. simpl in H. destruct (foldl _ (g, Done) l) as [g1 o1] eqn:E1. destruct o1 as [|e]; [|done].
    destruct (m !! key b) as [lst|] eqn:Em; [|done]. apply set_output_done in H as [H Hd]. destruct (IH g g1 E1 x) as [I1 I2]. split.
    + intros Hno. rewrite H. rewrite decide_False by (apply (Hno b lst); [apply elem_of_app; right; by left|done]).
      apply I1. intros b' lst' Hb'. apply Hno. apply elem_of_app. by left.
    + intros b' lst' Hb' Em' Hx. rewrite H. destruct (decide (x ∈ lst)) as [Hin|Hnin].
      * specialize (Hd x Hin). apply elem_of_dom in Hd as [j Hj]. by rewrite Hj.
      * apply elem_of_app in Hb' as [Hb'|Hb']; [by eapply I2|]. apply elem_of_list_singleton in Hb' as ->. congruence.
Qed.
Lemma st_fold_out (ts : list (string * gtype)) : ∀ g g',
  foldl (λ st xt, match st with (g, Done) => set_type_g g [xt.1] xt.2 | _ => st end) (g, Done) ts = (g', Done) →
  ∀ x, n_out <$> g' !! x = n_out <$> g !! x.
Proof.
  induction ts as [|b l IH] using rev_ind; intros g g' H x.
  - simpl in H. by injection H as <-.
  - rewrite foldl_app in H. simpl in H. destruct (foldl _ (g, Done) l) as [g1 o1] eqn:E1. destruct o1 as [|e]; [|done].
    apply set_type_done in H as [H _]. rewrite H, <- (IH g g1 E1 x). destruct (decide _); [|done]. by destruct (g1 !! x).
Qed.
Lemma st_fold_ty (ts : list (string * gtype)) : ∀ g g',
  foldl (λ st xt, match st with (g, Done) => set_type_g g [xt.1] xt.2 | _ => st end) (g, Done) ts = (g', Done) →
  NoDup ts.*1 → ∀ x t, (x, t) ∈ ts → n_ty <$> g' !! x = Some t.
Proof.
  induction ts as [|b l IH] using rev_ind; intros g g' H Hnd x t Hin; [by apply elem_of_nil in Hin|].
  rewrite foldl_app in H. simpl in H. destruct (foldl _ (g, Done) l) as [g1 o1] eqn:E1. destruct o1 as [|e]; [|done].
  apply set_type_done in H as [H Hd]. rewrite fmap_app in Hnd. apply NoDup_app in Hnd as (Hnd1 & Hnd2 & _).
  rewrite H. apply elem_of_app in Hin as [Hin|Hin].
  - rewrite decide_False; [by apply (IH g g1 E1 Hnd1)|]. intros ->%elem_of_list_singleton.
    apply (Hnd2 b.1); [apply elem_of_list_fmap; by exists (b.1, t)|simpl; by left].
  - apply elem_of_list_singleton in Hin as <-. simpl. rewrite decide_True by by left.
    assert (x ∈ dom g1) as [j Hj]%elem_of_dom by (apply Hd; by left). by rewrite Hj.
Qed.
Lemma targets_exact {A} (m : iomap) (key : A → string) (val : A → gtype) (f : A → string) (L : list A) : ∀ ts,
  (∀ a, a ∈ L → lookup0 m (key a) = Ok (f a)) →
  foldr (λ a acc, rbind (lookup0 m (key a)) (λ x, rmap (cons (x, val a)) acc)) (Ok []) L = Ok ts →
  ts = (λ a, (f a, val a)) <$> L.
Proof.
  induction L as [|a L IH]; intros ts Hl H; simpl in H; [by injection H as <-|].
  rewrite (Hl a) in H by by left. simpl in H. destruct (foldr _ (Ok []) L) as [ts'| | |] eqn:E'; simpl in H; try done. injection H as <-.
  rewrite fmap_cons. f_equal. apply IH; [|done]. intros a' Ha'. apply Hl. by right.
Qed.

Theorem seq_marks C n d q ign afo iv ru prefix U m CS sio :
  seq_stripped C d q ign ru = Ok (CS, sio) →
  inputs_undriven (c_g CS) → sio_ok (c_g CS) sio → unroll_names_ok (c_g CS) n sio prefix → iv_ok C iv → iv_nodup iv → 1 ≤ n →
  sequential_unroll C n d q ign afo iv ru prefix = Ok (U, m) →
  let G := unroll_closed (c_g CS) n sio prefix in
  (∀ x, ((∀ b t, b ∈ dom (c_bbs C) → t < n → x ≠ io_name (pre b d) prefix t) → n_out <$> c_g U !! x = n_out <$> G !! x) ∧
        (∀ b t, b ∈ dom (c_bbs C) → t < n → x = io_name (pre b d) prefix t → n_out <$> c_g U !! x = Some afo)) ∧
  (∀ b, b ∈ dom (c_bbs C) → n_ty <$> c_g U !! io_name (pre b q) prefix 0 = Some (default Input (init_of iv b))).
Proof.
  intros Hstrip Hin0 (Hs1 & Hs2 & Hs3) Hnm Hiv Hivn Hn. pose proof (seq_stripped_sio _ _ _ _ _ _ _ Hstrip) as Hsio.
  rewrite Forall_forall in Hs1.
  assert (Hvals : ∀ kv, kv ∈ sio → kv.2 ∈ inputs (c_g CS)) by (intros kv Hkv; by apply Hs1).
  unfold sequential_unroll. rewrite Hstrip. simpl.
  destruct (unroll CS n sio prefix) as [[U0 m0]| | |] eqn:Eu; simpl; try done.
  apply unroll_closed_form in Eu as [-> ->]; try done. simpl.
  set (cs := c_g CS) in *. set (G := unroll_closed cs n sio prefix). set (M := unroll_iomap cs n prefix).
  set (insts := elements (dom (c_bbs C))) in *.
  destruct (foldl _ (G, Done) insts) as [g4 o4] eqn:E4. destruct o4 as [|e]; [|done].
  destruct (match iv with IvNone => _ | IvAll t => _ | IvDict l => _ end) as [ts| | |] eqn:Et; simpl; try done.
  destruct (foldl _ (g4, Done) ts) as [g5 o5] eqn:E5. destruct o5 as [|e]; [|done]. intros [= <- <-]. cbn [c_g with_g].
  assert (Hio_dq : ∀ b, b ∈ insts → pre b d ∈ io_of cs ∧ pre b q ∈ io_of cs ∧ pre b q ∈ inputs cs).
  { intros b Hb. assert ((pre b d, pre b q) ∈ sio) as Hin by (rewrite Hsio; apply elem_of_list_fmap; eauto).
    destruct (Hs1 _ Hin) as [H1 H2]. simpl in *. split; [apply elem_of_union; by right|]. split; [apply elem_of_union; by left|done]. }
  assert (HM : ∀ b, b ∈ insts → M !! pre b d = Some ((λ t, io_name (pre b d) prefix t) <$> seq 0 n)).
  { intros b Hb. unfold M. rewrite unroll_iomap_full, decide_True; [done|]. by apply Hio_dq. }
  split.
  - intros x. pose proof (so_fold_out M (λ b, pre b d) afo insts G g4 E4 x) as [O1 O2].
    rewrite (st_fold_out ts g4 g5 E5 x). split.
    + intros Hno. apply O1. intros b lst Hb Hm. rewrite (HM b Hb) in Hm. injection Hm as <-.
      intros (t & -> & Ht%elem_of_seq)%elem_of_list_fmap. apply (Hno b t); [by apply elem_of_elements|lia|done].
    + intros b t Hb%elem_of_elements Ht ->. apply (O2 b _ Hb (HM b Hb)). apply elem_of_list_fmap. exists t. split; [done|]. apply elem_of_seq. lia.
  - intros b Hb%elem_of_elements. set (x0 := λ b, io_name (pre b q) prefix 0).
    change (n_ty <$> g5 !! x0 b = Some (default Input (init_of iv b))).
    (* the step-0 Q node is an input of the plain unrolling *)
    assert (HG : n_ty <$> g4 !! x0 b = Some Input).
    { pose proof (so_fold_tf M (λ b, pre b d) afo insts G g4 E4 (x0 b)) as H4.
      assert ((x0 b, io_node cs sio prefix 0 (pre b q)) ∈ unroll_nodes cs n sio prefix) as Hnode by (apply in_io_node; [lia|by apply Hio_dq]).
      apply (elem_of_list_to_map (M := gmap string)) in Hnode; [|apply Hnm]. fold (unroll_closed cs n sio prefix) in Hnode. fold G in Hnode.
      rewrite Hnode in H4. destruct (g4 !! x0 b) as [j4|]; [|done]. simpl in *. injection H4 as Hty _. rewrite Hty.
      unfold io_node. rewrite bool_decide_eq_true_2 by by apply Hio_dq. by destruct (state_src sio (pre b q)). }
    (* x0 is injective on the instances *)
    assert (Hx0 : ∀ a a', a ∈ insts → a' ∈ insts → x0 a = x0 a' → a = a').
    { intros a a' Ha Ha' E. apply (io_name_inj_on cs n sio prefix) in E; [|apply Hnm|lia|by apply Hio_dq..].
      rewrite Hsio, <- list_fmap_compose in Hs3. by apply (NoDup_fmap_elem_inj _ _ _ _ Hs3 Ha Ha'). }
    assert (Hl0 : ∀ a, a ∈ insts → lookup0 M (pre a q) = Ok (x0 a)).
    { intros a Ha. unfold lookup0, M. rewrite unroll_iomap_full, decide_True by by apply Hio_dq. destruct n as [|n']; [lia|]. done. }
    pose proof (st_fold_tf ts g4 g5 E5 (x0 b)) as [_ Hkeep].
    destruct iv as [|t|l]; simpl in Et |- *.
    + injection Et as <-. rewrite Hkeep by set_solver. done.
    + apply (targets_exact M (λ b, pre b q) (λ _, t) x0 insts ts Hl0) in Et.
      apply (st_fold_ty ts g4 g5 E5).
      * rewrite Et, <- list_fmap_compose. apply NoDup_fmap_2_strong; [done|apply NoDup_elements].
      * rewrite Et. apply elem_of_list_fmap. by exists b.
    + assert (Hkt : ∀ kt, kt ∈ l → kt.1 ∈ insts) by (intros kt Hkt; apply elem_of_elements; by apply Hiv).
      apply (targets_exact M (λ kt : string * gtype, pre kt.1 q) (λ kt, kt.2) (λ kt, x0 kt.1) l ts) in Et; [|intros kt Hk; by apply Hl0, Hkt].
      destruct (list_find (λ kt, kt.1 = b) l) as [[j kt]|] eqn:Ef; simpl.
      * apply list_find_Some in Ef as (Hj & <- & _). apply elem_of_list_lookup_2 in Hj.
        apply (st_fold_ty ts g4 g5 E5).
        -- rewrite Et, <- list_fmap_compose. simpl in Hivn.
           apply (NoDup_fmap_2_strong (λ kt : string * gtype, x0 kt.1)); [|by eapply NoDup_fmap_1].
           intros k1 k2 H1 H2 E. cbn in E. apply Hx0 in E; [|by apply Hkt..].
           apply (NoDup_fmap_elem_inj fst l k1 k2 Hivn H1 H2 E).
        -- rewrite Et. apply elem_of_list_fmap. by exists kt.
      * rewrite Hkeep; [done|]. rewrite Et, <- list_fmap_compose. intros (kt & E & Hkt')%elem_of_list_fmap. cbn in E.
        apply Hx0 in E; [|done|by apply Hkt]. eapply list_find_None in Ef. rewrite Forall_forall in Ef. by apply (Ef kt).
Qed.

(* outputs of the plain unrolling: the per-step copies of the outputs *)
Lemma unroll_closed_outputs c n sio prefix x : NoDup (unroll_nodes c n sio prefix).*1 →
  x ∈ outputs (unroll_closed c n sio prefix) ↔ ∃ t o, t < n ∧ o ∈ outputs c ∧ x = io_name o prefix t.
Proof.
  intros Hnd. rewrite elem_of_outputs. split.
  - intros (j & Hj & Ho). unfold unroll_closed in Hj. apply elem_of_list_to_map in Hj; [|done].
    apply in_unroll_nodes_inv in Hj as (t & Ht & [(io & Hio & -> & ->)|(m & info & Hm & -> & ->)]).
    + exists t, io. split; [done|]. split; [|done]. apply elem_of_outputs.
      assert (n_out (io_node c sio prefix t io) = is_output c io) as E.
      { unfold io_node. case_bool_decide; [|done]. destruct (state_src sio io); [destruct t|]; done. }
      rewrite E in Ho. unfold is_output in Ho. destruct (c !! io) as [i|]; simpl in Ho; [eauto|done].
    + unfold ucopy_info in Ho. by case_bool_decide.
  - intros (t & o & Ht & (i & Hi & Hout)%elem_of_outputs & ->). exists (io_node c sio prefix t o). split.
    + unfold unroll_closed. apply elem_of_list_to_map; [done|]. apply in_io_node; [done|]. apply elem_of_union. right. apply elem_of_outputs. eauto.
    + assert (is_output c o = true) as E by (unfold is_output; by rewrite Hi).
      unfold io_node. case_bool_decide; [|done]. destruct (state_src sio o); [destruct t|]; done.
Qed.

(* ---------- C09, sequential clause, assembled ---------- *)
Theorem seq_flop_full C n d q ign afo iv ru prefix CS sio :
  seq_stripped C d q ign ru = Ok (CS, sio) →
  lint_clean C → closed (c_g C) → acyclic (c_g C) → flop_names_ok C ign → flop_wiring_ok C q → d ∉ ign → q ∉ ign →
  lint_clean CS → c_bbs CS = ∅ → closed (c_g CS) → acyclic (c_g CS) → plain (c_g CS) → valid_names (c_g CS) → free_are_inputs (c_g CS) →
  1 ≤ n → sio_ok (c_g CS) sio → unroll_names_ok (c_g CS) n sio prefix → iv_ok C iv → iv_addable iv → iv_nodup iv →
  let ρ := pin_rho (kept_pins (c_g C) ign) in
  ∃ U m, sequential_unroll C n d q ign afo iv ru prefix = Ok (U, m) ∧ dom m = io_of (c_g CS) ∧
    (* io map: D and Q pin of every flop (under their flattened names), no other pin, ignored or not *)
    (∀ b, b ∈ dom (c_bbs C) → ρ (Api.pin b d) = pre b d ∧ ρ (Api.pin b q) = pre b q ∧ pre b d ∈ dom m ∧ pre b q ∈ dom m) ∧
    (∀ b bb p, c_bbs C !! b = Some bb → p ∈ bb_pinset bb → p ≠ d → p ≠ q → p ∉ ign → pre b p ∉ dom (c_g CS) ∧ pre b p ∉ dom m) ∧
    (∀ k, k ∈ dom (c_g CS) → ∃ x, x ∈ dom (c_g C) ∧ x ∉ ignored_pins (c_g C) ign ∧ k = ρ x) ∧
    (* (the two lines above: no kept non-D/Q pin survives, and every node of the stripped circuit stems from a node that is not an ignored pin) *)
    (* every primary output of the flop circuit is an io of the stripped circuit under its own name *)
    (∀ o, o ∈ outputs (c_g C) → o ∉ bb_pins (c_g C) → ρ o = o ∧ o ∈ outputs (c_g CS) ∧ o ∈ dom m) ∧
    (* cycle-accurate simulation of the flop circuit: state = Q pins, next state = D pins *)
    (∀ w, consistent (c_g U) w →
      let st := λ v, w (io_name (ρ v) prefix 0) in
      let ins := λ t i, w (io_name (ρ i) prefix t) in
      ∀ x t, x ∈ dom (c_g C) → ρ x ∈ dom m → t < n →
        m !! ρ x ≫= (.!! t) = Some (io_name (ρ x) prefix t) ∧ w (io_name (ρ x) prefix t) = flop_run C d q t st ins x) ∧
    (* initial values: the step-0 Q node is an input (free initial state) or the given constant *)
    (∀ b, b ∈ dom (c_bbs C) → ty (c_g U) (io_name (pre b q) prefix 0) = Some (default Input (init_of iv b))) ∧
    (∀ w, consistent (c_g U) w → ∀ b, b ∈ dom (c_bbs C) →
       (init_of iv b = Some C0 → w (io_name (pre b q) prefix 0) = false) ∧ (init_of iv b = Some C1 → w (io_name (pre b q) prefix 0) = true)) ∧
    (* outputs: the flop data outputs exactly when requested, and the per-step copies of the other outputs *)
    (∀ b t, b ∈ dom (c_bbs C) → t < n → io_name (pre b d) prefix t ∈ outputs (c_g U) ↔ afo = true) ∧
    (∀ x, (∀ b t, b ∈ dom (c_bbs C) → t < n → x ≠ io_name (pre b d) prefix t) →
       x ∈ outputs (c_g U) ↔ ∃ t o, t < n ∧ o ∈ outputs (c_g CS) ∧ x = io_name o prefix t).
Proof.
  intros Hs Hl Hcl Hac Hnm Hw Hdi Hqi Hl3 Hb3 Hcl3 Hac3 Hpl Hvn Hfr Hn Hsio Hun Hiv Hadd Hivn ρ.
  destruct (seq_flop_correct C n d q ign afo iv ru prefix CS sio Hs Hl Hcl Hac Hnm Hw Hdi Hqi Hl3 Hb3 Hcl3 Hac3 Hpl Hvn Hfr Hn Hsio Hun Hiv Hadd)
    as (U & m & HU & Hdom & Hdq & Hnop & Hnodes & Hpo & Hsim).
  destruct (seq_marks C n d q ign afo iv ru prefix U m CS sio Hs (lint_clean_inputs_undriven9 CS Hl3) Hsio Hun Hiv Hivn Hn HU) as [Hout Hty].
  exists U, m. do 7 (split; [done|]).
  assert (Hty' : ∀ b, b ∈ dom (c_bbs C) → ty (c_g U) (io_name (pre b q) prefix 0) = Some (default Input (init_of iv b))) by (intros b Hb; by apply Hty).
  split; [done|]. split; [|split].
  - intros w Hcw b Hb. specialize (Hty' b Hb). apply ty_dom in Hty' as (j & Hj & Ht). specialize (Hcw _ _ Hj). unfold node_ok, is_free in Hcw.
    split; intros E; rewrite E in Ht; simpl in Ht; rewrite Ht in Hcw; exact Hcw.
  - intros b t Hb Ht. destruct (Hout (io_name (pre b d) prefix t)) as [_ O2]. specialize (O2 b t Hb Ht eq_refl).
    rewrite elem_of_outputs. split.
    + intros (j & Hj & Ho). rewrite Hj in O2. simpl in O2. congruence.
    + intros ->. destruct (c_g U !! io_name (pre b d) prefix t) as [j|]; simpl in O2; [|done]. exists j. split; [done|congruence].
  - intros x Hno. destruct (Hout x) as [O1 _]. specialize (O1 Hno). rewrite <- (unroll_closed_outputs _ _ sio) by apply Hun.
    rewrite !elem_of_outputs. split.
    + intros (j & Hj & Ho). rewrite Hj in O1. simpl in O1. destruct (unroll_closed (c_g CS) n sio prefix !! x) as [j'|]; simpl in O1; [|done].
      exists j'. split; [done|congruence].
    + intros (j & Hj & Ho). rewrite Hj in O1. simpl in O1. destruct (c_g U !! x) as [j'|]; simpl in O1; [|done].
      exists j'. split; [done|congruence].
Qed.
