(* C09, sequential circuits: the cycle-accurate semantics `flop_run` (Model/Unroll.v) is the unique run of the flop circuit over
   its free nodes.  Stage S1 of C09_sequential_unroll_full (see docs/C09-handover.md for the remaining stages). *)
From stdpp Require Import strings gmap sets fin_sets.
From CG Require Import Base.Compose Base.Oracle Model.Unroll Proofs.UnrollProofs.
Open Scope string_scope.

Section runsF.
  Context (c : circuit) (sio : list (string * string)).
  Context (Hcl : closed c) (Hac : acyclic c).
  Context (Hkeys : ∀ kv, kv ∈ sio → kv.1 ∈ dom c).

  Lemma run_is_runF st ins t : is_runF c sio st ins t (run c sio t st ins).
  Proof.
    induction t as [|t IH]; simpl.
    - split; [by apply evalc_consistent|]. intros i Hi. by apply evalc_free.
    - split; [by apply evalc_consistent|]. eexists. split; [exact IH|]. intros i Hi. by apply evalc_free.
  Qed.
  Lemma state_src_keyF v k : state_src sio v = Some k → k ∈ dom c.
  Proof.
    unfold state_src. destruct (list_find _ sio) as [[j kv]|] eqn:E; simpl; [|done]. intros [= <-].
    apply list_find_Some in E as (Hj & _ & _). apply Hkeys. by eapply elem_of_list_lookup_2.
  Qed.
  Lemma is_runF_unique st ins t x y : is_runF c sio st ins t x → is_runF c sio st ins t y → agrees (dom c) x y.
  Proof.
    destruct Hac as [rank Hr]. revert x y. induction t as [|t IH]; simpl; intros x y [Hx Hxa] [Hy Hya].
    - eapply (consistent_unique c rank Hr); eauto. intros i Hi. by rewrite Hxa, Hya.
    - destruct Hxa as (x' & Hx' & Hxa), Hya as (y' & Hy' & Hya).
      eapply (consistent_unique c rank Hr); eauto. intros i Hi. rewrite Hxa, Hya by done.
      unfold step_in. destruct (state_src sio i) as [k|] eqn:E; [|done].
      eapply IH; eauto. by eapply state_src_keyF.
  Qed.
End runsF.

(* the flop circuit's cycle-accurate run exists and is unique *)
Theorem flop_run_is_run C d q st ins t : closed (c_g C) → acyclic (c_g C) →
  is_runF (c_g C) (flop_pairs C d q) st ins t (flop_run C d q t st ins).
Proof. intros. by apply run_is_runF. Qed.
Theorem flop_run_unique C d q st ins t x : closed (c_g C) → acyclic (c_g C) →
  (∀ b, b ∈ dom (c_bbs C) → pin b d ∈ dom (c_g C)) →
  is_runF (c_g C) (flop_pairs C d q) st ins t x → agrees (dom (c_g C)) x (flop_run C d q t st ins).
Proof.
  intros Hcl Hac Hd Hx. eapply (is_runF_unique (c_g C) (flop_pairs C d q) Hcl Hac); [|exact Hx|by apply run_is_runF].
  intros kv (b & -> & Hb%elem_of_elements)%elem_of_list_fmap. by apply Hd.
Qed.
