(* C14 phase 2: agreement of the two reader models on the documented subset (part A0) *)
(* Lemmas about the construction API model that the C14 proofs use: copies of the corresponding lemmas of Proofs/ApiProofs.v (C07),
   kept here so that the C14 development depends only on Base/Api.v. *)
From stdpp Require Import strings gmap sets fin_sets pretty.
From CG Require Import Base.Api.
Open Scope string_scope.

Lemma is_in_true o l : is_in o l = true ↔ ∃ t, o = Some t ∧ t ∈ l.
Proof.
  destruct o as [t|]; simpl.
  - rewrite bool_decide_eq_true. split; [eauto|by intros (? & [= <-] & ?)].
  - split; [done|by intros (? & ? & _)].
Qed.
Lemma remove_lookup c ns n :
  remove_g c ns !! n = if decide (n ∈ (list_to_set ns : gset string)) then None else upd_fi (λ fi, fi ∖ list_to_set ns) <$> c !! n.
Proof.
  unfold remove_g. rewrite lookup_fmap. destruct (decide (n ∈ (list_to_set ns : gset string))) as [Hin|Hin].
  - rewrite map_filter_lookup_None_2; [done|]. right. intros i _ Hn. simpl in Hn. done.
  - destruct (c !! n) as [i|] eqn:E.
    + by rewrite (map_filter_lookup_Some_2 _ _ _ _ E Hin).
    + rewrite map_filter_lookup_None_2; [done|]. by left.
Qed.
Lemma add_edge_lookup c u v n : add_edge c u v !! n = if decide (n = v) then upd_fi (λ s, {[u]} ∪ s) <$> c !! n else c !! n.
Proof. unfold add_edge. destruct (decide (n = v)) as [->|Hne]; [by rewrite lookup_alter|by rewrite lookup_alter_ne]. Qed.
Definition drivers_of (ps : list (string * string)) (n : string) : gset string := list_to_set (fst <$> filter (λ p, p.2 = n) ps).
Lemma add_edges_lookup c ps n :
  foldl (λ c' p, add_edge c' p.1 p.2) c ps !! n = upd_fi (λ s, s ∪ drivers_of ps n) <$> c !! n.
Proof.
  revert c. induction ps as [|[u v] ps IH]; intros c; simpl.
  - destruct (c !! n) as [[t o fi]|]; simpl; [|done]. unfold upd_fi, drivers_of. simpl. do 2 f_equal. set_solver.
  - rewrite IH, add_edge_lookup. unfold drivers_of. simpl. rewrite filter_cons. simpl.
    destruct (decide (n = v)) as [->|Hne].
    + rewrite decide_True by done. destruct (c !! v) as [[t o fi]|]; simpl; [|done]. unfold upd_fi. simpl. do 2 f_equal. set_solver.
    + rewrite decide_False by done. done.
Qed.
Lemma elem_of_drivers_of ps n f : f ∈ drivers_of ps n ↔ (f, n) ∈ ps.
Proof.
  unfold drivers_of. rewrite elem_of_list_to_set, elem_of_list_fmap. split.
  - intros ([a b] & -> & [Hp Hin]%elem_of_list_filter). simpl in *. by subst.
  - intros Hin. exists (f, n). split; [done|]. by apply elem_of_list_filter.
Qed.
Lemma elem_of_pairs us vs u v : (u, v) ∈ pairs us vs ↔ u ∈ us ∧ v ∈ vs.
Proof.
  unfold pairs. rewrite elem_of_list_bind. split.
  - intros (u' & (v' & Hp & Hv)%elem_of_list_bind & Hu). apply elem_of_list_singleton in Hp as [= -> ->]. done.
  - intros [Hu Hv]. exists u. split; [|done]. apply elem_of_list_bind. exists v. split; [|done]. by apply elem_of_list_singleton.
Qed.
Lemma connect_g_lookup c us vs m :
  (connect_g c us vs).2 = Done →
  (connect_g c us vs).1 !! m = upd_fi (λ s, s ∪ (if decide (m ∈ vs) then list_to_set us else ∅)) <$> c !! m.
Proof.
  assert (Hid : ∀ X : gset string, X = ∅ → c !! m = upd_fi (λ s, s ∪ X) <$> c !! m).
  { intros X ->. destruct (c !! m) as [[t o fi]|]; simpl; [|done]. unfold upd_fi. simpl. do 2 f_equal. set_solver. }
  unfold connect_g.
  destruct (bool_decide (us = []) || bool_decide (vs = [])) eqn:Hemp.
  { intros _. simpl. apply Hid. apply orb_true_iff in Hemp as [->%bool_decide_eq_true| ->%bool_decide_eq_true].
    - by destruct (decide _). - rewrite decide_False; [done|set_solver]. }
  destruct (negb (forallb _ _)); [done|]. destruct (negb (connect_check c us vs)); [done|]. intros _. simpl.
  rewrite add_edges_lookup. destruct (c !! m) as [[t o fi]|]; simpl; [|done]. unfold upd_fi. simpl. do 3 f_equal.
  apply set_eq. intros f. rewrite elem_of_drivers_of, elem_of_pairs. destruct (decide (m ∈ vs)); set_solver.
Qed.
Lemma add_g_nil c n t :
  add_g c n t [] [] af_default =
    if bool_decide (n ∈ dom c) then (c, Fail ValueError, n) else
    if negb (bool_decide (t ∈ supported_types)) then (c, Fail ValueError, n) else
    if bool_decide (n = "") then (c, Fail ValueError, n) else
    if starts_digit n then (c, Fail ValueError, n) else (<[n := mk_node t false (fanin c n)]> c, Done, n).
Proof.
  unfold add_g. simpl. rewrite andb_true_r. destruct (bool_decide (n ∈ dom c)); [done|].
  destruct (negb (bool_decide (t ∈ supported_types))); [done|]. simpl.
  destruct (bool_decide (n = "")); [done|]. destruct (starts_digit n); [done|]. done.
Qed.
