(* C14 phase 2: agreement of the two reader models on the documented subset (part A1) *)
From stdpp Require Import strings gmap sets pretty.
From CG Require Import Proofs.FvA0.
From CG Require Import Model.FastVerilog Proofs.FastVerilogProofs.
Open Scope string_scope.

Definition okname (n : string) : Prop := n ≠ "" ∧ starts_digit n = false.

Lemma prim_tables t : t ∈ primitive_gates →
  bool_decide (t ∈ supported_types) = true ∧ bool_decide (t ∈ add_no_fanin) = false ∧
  is_in (Some t) conn_no_fanin = false ∧ is_in (Some t) conn_no_fanout = false ∧ is_in (Some t) conn_bbout = false ∧
  is_in (Some t) conn_single_fanin = bool_decide (t ∈ add_single_fanin).
Proof.
  intros H. unfold primitive_gates in H. repeat (apply elem_of_cons in H as [->|H]); try (by apply elem_of_nil in H); vm_compute; done.
Qed.

(* add_connected_nodes: operands not seen yet become undriven buffers *)
Definition ph_step (st : circuit * outcome) (f : string) : circuit * outcome :=
  match st with (g, Done) => if bool_decide (f ∈ dom g) then (g, Done) else add_plain_buf g f | _ => st end.
Lemma placeholders_spec l g : (∀ f, f ∈ l → okname f) →
  ∃ g', foldl ph_step (g, Done) l = (g', Done) ∧
    ∀ m, g' !! m = if decide (m ∈ l ∧ m ∉ dom g) then Some (mk_node Buf false ∅) else g !! m.
Proof.
  revert g. induction l as [|f l IH]; intros g Hok; cbn [foldl ph_step].
  - exists g. split; [done|]. intros m. destruct (decide (m ∈ [] ∧ m ∉ dom g)) as [[H _]|]; [by apply elem_of_nil in H|done].
  - assert (Hf : okname f) by (apply Hok; by left). assert (Hl : ∀ x, x ∈ l → okname x) by (intros; apply Hok; by right).
    case_bool_decide as Hd.
    + destruct (IH g Hl) as (g' & -> & Hg'). exists g'. split; [done|]. intros m. rewrite Hg'.
      destruct (decide (m ∈ l ∧ m ∉ dom g)) as [[? ?]|Hn].
      * rewrite decide_True; [done|]. split; [by right|done].
      * rewrite decide_False; [done|]. intros [Hin Hnd]. apply elem_of_cons in Hin as [->|Hin]; [done|]. by apply Hn.
    + unfold add_plain_buf. destruct Hf as [Hne Hdig]. rewrite bool_decide_eq_false_2 by done. rewrite Hdig.
      destruct (IH (<[f := mk_node Buf false ∅]> g) Hl) as (g' & -> & Hg'). exists g'. split; [done|]. intros m. rewrite Hg'.
      destruct (decide (m = f)) as [->|Hmf].
      * rewrite decide_False by (intros [_ Hx]; apply Hx; rewrite dom_insert; set_solver).
        rewrite lookup_insert. rewrite decide_True; [done|]. split; [by left|done].
      * rewrite lookup_insert_ne by done.
        destruct (decide (m ∈ l ∧ m ∉ dom (<[f:=mk_node Buf false ∅]> g))) as [[H1 H2]|Hn].
        -- rewrite decide_True; [done|]. split; [by right|]. rewrite dom_insert in H2. set_solver.
        -- rewrite decide_False; [done|]. intros [Hin Hnd]. apply Hn. split.
           ++ apply elem_of_cons in Hin as [->|Hin]; done.
           ++ rewrite dom_insert. set_solver.
Qed.

Lemma fanout_empty_iff g t : fanout g t = ∅ ↔ ∀ m i, g !! m = Some i → t ∉ n_fi i.
Proof.
  split.
  - intros H m i Hi Hin. assert (m ∈ fanout g t) by (apply elem_of_fanout; eauto). set_solver.
  - intros H. apply set_eq. intros x. rewrite elem_of_fanout. split; [|set_solver]. intros (i & Hi & Hin). by destruct (H x i Hi).
Qed.
