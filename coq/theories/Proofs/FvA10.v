(* C14 phase 2: agreement of the two reader models on the documented subset (part A10) *)
From stdpp Require Import strings gmap sets pretty.
From CG Require Import Model.FastVerilog Proofs.FastVerilogProofs Gen.Gen_fastv.
From CG Require Import Proofs.FvA0 Proofs.FvA1 Proofs.FvA2 Proofs.FvP1 Proofs.FvE1 Proofs.FvE2 Proofs.FvE3 Proofs.FvE4 Proofs.FvA3 Proofs.FvE5 Proofs.FvE6 Proofs.FvE7 Proofs.FvA4 Proofs.FvA5 Proofs.FvA6 Proofs.FvA7 Proofs.FvA8 Proofs.FvA9.
Open Scope string_scope.

Definition ft0 (a : ast) := uid_in (idents a) full_tie0.
Definition fg1 (a : ast) : circuit := <[ft0 a := mk_node C0 false ∅]> ∅.
Definition ft1 (a : ast) := uid_in (dom (fg1 a) ∪ idents a) full_tie1.
Definition fg2 (a : ast) : circuit := <[ft1 a := mk_node C1 false ∅]> (fg1 a).
Definition ftx (a : ast) := uid_in (dom (fg2 a) ∪ idents a) full_tiex.
Definition fg3 (a : ast) : circuit := <[ftx a := mk_node CX false ∅]> (fg2 a).
Definition s0 : st := {| sG := ∅; sI := ∅; sU := ∅ |}.
Definition sF (t0 t1 : string) (bbs : list bbdef) (a : ast) : st := foldl (stp t0 t1 bbs) s0 (a_items a).
Definition drop3 (g : circuit) (t0 t1 tx : string) : circuit :=
  drop_unused_full (drop_unused_full (drop_unused_full g t0) t1) tx.
Definition mark (outs : list string) (g : circuit) (m : string) : option ninfo :=
  (λ i, if decide (m ∈ outs) then set_out true i else i) <$> g !! m.


Lemma full_ties_facts a :
  (okname (ft0 a) ∧ okname (ft1 a) ∧ okname (ftx a)) ∧ (ft0 a ∉ idents a ∧ ft1 a ∉ idents a ∧ ftx a ∉ idents a) ∧
  ft0 a ≠ ft1 a ∧ ft0 a ≠ ftx a ∧ ft1 a ≠ ftx a.
Proof.
  pose proof (uid_in_fresh (idents a) full_tie0) as H0.
  pose proof (uid_in_fresh (dom (fg1 a) ∪ idents a) full_tie1) as H1.
  pose proof (uid_in_fresh (dom (fg2 a) ∪ idents a) full_tiex) as Hx.
  fold (ft0 a) in H0. fold (ft1 a) in H1. fold (ftx a) in Hx.
  unfold fg2, fg1 in *. rewrite ?dom_insert, ?dom_empty in *.
  split; [|split; [set_solver|set_solver]].
  split; [|split]; apply uid_in_okname; split; vm_compute; done.
Qed.

Lemma full_ties_nodot a : dotted (ft0 a) = false ∧ dotted (ft1 a) = false ∧ dotted (ftx a) = false.
Proof. split; [|split]; apply uid_in_not_dotted; by vm_compute. Qed.

Theorem full_sem_char a bbs : in_subset a bbs = true →
  ∃ C1 g1, rel (ft0 a) (ft1 a) (ftx a) (c_g C1) (sF (ft0 a) (ft1 a) bbs a) ∧
    (∀ m, g1 !! m = mark (decl_outputs a) (c_g C1) m) ∧
    full_sem a bbs = Ok {| c_name := a_name a; c_g := drop3 g1 (ft0 a) (ft1 a) (ftx a); c_bbs := c_bbs C1 |}.
Proof.
  intros Hsub. pose proof (in_subset_facts a bbs Hsub) as HF.
  destruct (full_ties_facts a) as (Hties & Hfresh & H01 & H0x & H1x).
  pose proof Hties as (Hk0 & Hk1 & Hkx).
  unfold full_sem. fold (ft0 a).
  rewrite (add_plain_fresh ∅ (ft0 a) C0); [|rewrite dom_empty; set_solver|vm_compute; set_solver|done]. cbn [rbind].
  fold (fg1 a). fold (ft1 a).
  rewrite (add_plain_fresh (fg1 a) (ft1 a) C1); [|unfold fg1; rewrite dom_insert, dom_empty; set_solver|vm_compute; set_solver|done]. cbn [rbind].
  fold (fg2 a). fold (ftx a).
  rewrite (add_plain_fresh (fg2 a) (ftx a) CX); [|unfold fg2, fg1; rewrite !dom_insert, dom_empty; set_solver|vm_compute; set_solver|done]. cbn [rbind].
  fold (fg3 a).
  set (C0' := {| c_name := ""; c_g := fg3 a; c_bbs := ∅ |}).
  destruct (full_fold (ft0 a) (ft1 a) (ftx a) bbs Hties (full_ties_nodot a) (a_items a) C0' s0) as (C1 & Hfold & Hrel & HG & Hb).
  { intros m. cbn [c_g C0']. unfold fg3, fg2, fg1, look. cbn [sG sI sU].
    destruct (decide (m = ft0 a)) as [->|]; [by rewrite !lookup_insert_ne, lookup_insert by done|].
    destruct (decide (m = ft1 a)) as [->|]; [by rewrite lookup_insert_ne, lookup_insert by done|].
    destruct (decide (m = ftx a)) as [->|]; [by rewrite lookup_insert|].
    rewrite !lookup_insert_ne, !lookup_empty by done. rewrite decide_False by set_solver. by rewrite decide_False by set_solver. }
  { split; cbn [sG sI sU s0]; intros *; try (by rewrite lookup_empty); set_solver. }
  { intros it Hit. by eapply good_of. }
  { by apply (nodup_keys a bbs (ft0 a) (ft1 a) (ftx a)). }
  { by apply (nodup_insts a bbs). }
  { intros o Ho. cbn [sG sI s0]. rewrite lookup_empty. split; [done|]. split; [set_solver|].
    rewrite inputs_eq. by apply (key_not_input a bbs (ft0 a) (ft1 a) (ftx a) HF Hfresh). }
  { intros n _. cbn [sG s0]. by rewrite lookup_empty. }
  { intros i _. cbn [c_bbs C0']. set_solver. }
  rewrite Hfold. cbn [rbind]. fold (sF (ft0 a) (ft1 a) bbs a) in Hrel, HG.
  pose proof (sf_ports a bbs HF) as Hports.
  rewrite (bool_decide_eq_true_2 (list_to_set (decl_inputs a) ⊆ list_to_set (a_ports a))) by (rewrite Hports; set_solver).
  rewrite (bool_decide_eq_true_2 (list_to_set (decl_outputs a) ⊆ list_to_set (a_ports a))) by (rewrite Hports; set_solver).
  rewrite (bool_decide_eq_true_2 (list_to_set (a_ports a) ⊆ list_to_set (decl_inputs a) ∪ list_to_set (decl_outputs a))) by (rewrite Hports; set_solver).
  cbn [negb orb].
  destruct (set_output_lookup (decl_outputs a) (c_g C1)) as (g1 & Hso & Hg1).
  { intros o Ho. apply elem_of_dom. rewrite Hrel.
    assert (Hoi : o ∈ idents a) by by apply decl_outputs_idents.
    destruct (ident_facts a bbs _ _ _ HF Hfresh o Hoi) as [_ Hnt]. rewrite look_nontie by done. unfold look_rest.
    destruct (sf_outs a bbs HF o Ho) as [Hd|Hi].
    - apply elem_of_list_bind in Hd as (it & Hd & Hit).
      pose proof (drivers_sub a bbs (ft0 a) (ft1 a) (ftx a) HF Hfresh it o Hit Hd) as Hk. unfold it_driver in Hk. apply elem_of_list_fmap in Hk as ([o' v] & -> & Hv).
      assert (HGv : sG (sF (ft0 a) (ft1 a) bbs a) !! o' = Some v).
      { apply stp_fold_G; [by apply (nodup_keys a bbs (ft0 a) (ft1 a) (ftx a))|intros; apply lookup_empty|]. right. eauto. }
      cbn [fst]. rewrite HGv. destruct v as [??]. eauto.
    - destruct (sG _ !! o) as [[??]|]; [eauto|]. rewrite decide_True; [eauto|].
      unfold sF. rewrite stp_fold_I, inputs_eq. set_solver. }
  rewrite Hso. exists C1, g1. done.
Qed.
