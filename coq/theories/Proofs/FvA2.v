(* C14 phase 2: agreement of the two reader models on the documented subset (part A2) *)
From stdpp Require Import strings gmap sets pretty.
From CG Require Import Model.FastVerilog Proofs.FastVerilogProofs.
From CG Require Import Proofs.FvA0 Proofs.FvA1.
Open Scope string_scope.

Lemma connect_nil_r c us : connect_g c us [] = (c, Done).
Proof. unfold connect_g. rewrite (bool_decide_eq_true_2 ([] = [])) by done. by rewrite orb_true_r. Qed.

(* the transformer's add_node on a net that has no driver yet *)
Lemma add_node_spec g out t fi :
  t ∈ primitive_gates → (t ∈ add_single_fanin → length fi ≤ 1) →
  okname out → (∀ f, f ∈ fi → okname f) → fanin g out = ∅ →
  (∀ f, f ∈ fi → ty g f ≠ Some BbIn ∧ ty g f ≠ Some BbOut) →
  ∃ g', add_node g out t fi = Ok g' ∧ ∀ m, g' !! m =
     if decide (m = out) then Some (mk_node t false (list_to_set fi))
     else if decide (m ∈ fi ∧ m ∉ dom g) then Some (mk_node Buf false ∅) else g !! m.
Proof.
  intros Ht Hsingle [Hne Hdig] Hfi Hfan Hty.
  destruct (prim_tables t Ht) as (Hsup & Hnof & Hcnf & Hcnfo & Hcbb & Hcsf).
  unfold add_node, add_g. cbn [af_uid af_redef af_conn af_out fl_parse negb]. rewrite andb_false_r.
  rewrite Hsup. cbn [negb]. rewrite Hnof, andb_false_r.
  assert (Hs1 : ((1 <? length fi)%nat && bool_decide (t ∈ add_single_fanin)) = false).
  { destruct (bool_decide (t ∈ add_single_fanin)) eqn:E; [|by rewrite andb_false_r].
    apply bool_decide_eq_true in E. specialize (Hsingle E). rewrite andb_true_r. apply Nat.ltb_ge. lia. }
  rewrite Hs1. rewrite (bool_decide_eq_false_2 (out = "")) by done. rewrite Hdig.
  set (c1 := <[out := mk_node t false (fanin g out)]> g).
  rewrite app_nil_r.
  destruct (placeholders_spec fi c1 Hfi) as (c1' & Hfold & Hc1'). unfold ph_step in Hfold. rewrite Hfold.
  rewrite connect_nil_r.
  assert (Hlook : ∀ m, c1' !! m = if decide (m = out) then Some (mk_node t false ∅)
                                  else if decide (m ∈ fi ∧ m ∉ dom g) then Some (mk_node Buf false ∅) else g !! m).
  { intros m. rewrite Hc1'. subst c1. destruct (decide (m = out)) as [->|Hmo].
    - rewrite decide_False by (intros [_ Hx]; apply Hx; rewrite dom_insert; set_solver). by rewrite lookup_insert, Hfan.
    - rewrite lookup_insert_ne by done. destruct (decide (m ∈ fi ∧ m ∉ dom g)) as [[H1 H2]|Hn].
      + rewrite decide_True; [done|]. split; [done|]. rewrite dom_insert. set_solver.
      + rewrite decide_False; [done|]. intros [H1 H2]. apply Hn. split; [done|]. rewrite dom_insert in H2. set_solver. }
  assert (Hdone : (connect_g c1' fi [out]).2 = Done).
  { unfold connect_g. destruct (bool_decide (fi = []) || bool_decide ([out] = [])) eqn:E0; [done|].
    assert (Hdom : forallb (λ n, bool_decide (n ∈ dom c1')) (fi ++ [out]) = true).
    { apply forallb_forall. intros x Hx%elem_of_list_In. apply bool_decide_eq_true, elem_of_dom. rewrite Hlook.
      destruct (decide (x = out)); [eauto|]. apply elem_of_app in Hx as [Hx|Hx]; [|apply elem_of_list_singleton in Hx; done].
      destruct (decide (x ∈ fi ∧ x ∉ dom g)) as [|Hn]; [eauto|]. apply elem_of_dom. destruct (decide (x ∈ dom g)); [done|]. destruct Hn. done. }
    rewrite Hdom. cbn [negb].
    assert (Hchk : connect_check c1' fi [out] = true).
    { unfold connect_check. apply andb_true_iff. split.
      - cbn [existsb]. rewrite orb_false_r. unfold ty, fanin. rewrite Hlook, decide_True by done. cbn [fmap option_fmap option_map mk_node n_ty n_fi default].
        rewrite Hcnf, Hcsf. cbn [orb]. rewrite size_empty. destruct (bool_decide (t ∈ add_single_fanin)) eqn:E; [|done].
        apply bool_decide_eq_true in E. specialize (Hsingle E). cbn [andb negb]. apply negb_true_iff, Nat.ltb_ge. lia.
      - apply negb_true_iff. apply not_true_iff_false. intros (u & Hu%elem_of_list_In & Hb)%existsb_exists.
        assert (Htu : ty c1' u ≠ Some BbIn ∧ ty c1' u ≠ Some BbOut).
        { unfold ty. rewrite Hlook. destruct (decide (u = out)); [simpl; split; intros [= ->]; vm_compute in Hsup; by vm_compute in Ht|].
          destruct (decide (u ∈ fi ∧ u ∉ dom g)); [simpl; split; done|]. apply Hty. done. }
        destruct Htu as [H1 H2]. apply orb_true_iff in Hb as [Hb|Hb].
        + apply is_in_true in Hb as (t' & Ht' & Hin). unfold conn_no_fanout in Hin. apply elem_of_list_singleton in Hin as ->. done.
        + apply andb_true_iff in Hb as [Hb _]. apply is_in_true in Hb as (t' & Ht' & Hin). unfold conn_bbout in Hin. apply elem_of_list_singleton in Hin as ->. done. }
    rewrite Hchk. done. }
  destruct (connect_g c1' fi [out]) as [c3 o3] eqn:Ec. simpl in Hdone. subst o3.
  eexists. split; [done|]. intros m.
  pose proof (connect_g_lookup c1' fi [out] m) as Hl. rewrite Ec in Hl. simpl in Hl. rewrite Hl by done. rewrite Hlook.
  destruct (decide (m = out)) as [->|Hmo].
  - rewrite decide_True by set_solver. simpl. unfold upd_fi, mk_node. simpl. do 2 f_equal. set_solver.
  - rewrite (decide_False (P := m ∈ [out])) by set_solver.
    destruct (decide (m ∈ fi ∧ m ∉ dom g)); simpl.
    + unfold upd_fi, mk_node. simpl. do 2 f_equal. set_solver.
    + destruct (g !! m) as [[ty0 o0 fi0]|]; simpl; [|done]. unfold upd_fi. simpl. do 2 f_equal. set_solver.
Qed.

Lemma add_plain_fresh g n t : n ∉ dom g → t ∈ supported_types → okname n → add_plain g n t = Ok (<[n := mk_node t false ∅]> g).
Proof.
  intros Hn Ht [Hne Hd]. unfold add_plain. rewrite add_g_nil. rewrite (bool_decide_eq_false_2 _ Hn), (bool_decide_eq_true_2 _ Ht).
  cbn [negb]. rewrite (bool_decide_eq_false_2 _ Hne), Hd. unfold fanin. apply not_elem_of_dom in Hn. by rewrite Hn.
Qed.
