(* C14 phase 2: agreement of the two reader models on the documented subset (part A3) *)
From stdpp Require Import strings gmap sets pretty.
From CG Require Import Model.FastVerilog Proofs.FastVerilogProofs Gen.Gen_fastv.
From CG Require Import Proofs.FvA0 Proofs.FvA1 Proofs.FvA2 Proofs.FvP1 Proofs.FvE1 Proofs.FvE2 Proofs.FvE3 Proofs.FvE4.
Open Scope string_scope.

Lemma add_input_spec g n : okname n → add_node g n Input [] = Ok (<[n := mk_node Input false (fanin g n)]> g).
Proof.
  intros [Hne Hdig]. unfold add_node, add_g. cbn [af_uid af_redef af_conn af_out fl_parse negb]. rewrite andb_false_r.
  rewrite (bool_decide_eq_true_2 (Input ∈ supported_types)) by (vm_compute; set_solver). cbn [negb length Nat.ltb Nat.leb andb].
  rewrite (bool_decide_eq_true_2 (@nil string = [])) by done. cbn [negb andb].
  rewrite (bool_decide_eq_false_2 (n = "")) by done. rewrite Hdig. cbn [app foldl].
  rewrite connect_nil_r. unfold connect_g. rewrite (bool_decide_eq_true_2 (@nil string = [])) by done. cbn [orb]. done.
Qed.

Section sem.
  Variables (t0 t1 tx : string) (bbs : list bbdef).
  Definition nm (o : opd) : string := match o with ONet s => s | OConst s => if bool_decide (s = "1'b0") then t0 else t1 end.
  Definition norm (t : gtype) (ins : list string) : gtype * list string :=
    if is_parity t then
      let c := cancel_pairs ins in if bool_decide (c = []) then (Buf, [if bool_decide (t = Xor) then t0 else t1]) else (t, c)
    else (t, ins).
  Definition gate_view (it : item) : option (string * (gtype * list string)) :=
    match it with
    | IGate t _ (ONet o :: ins) => Some (o, norm t (nm <$> ins))
    | IAssign l r => Some (l, (Buf, [nm r]))
    | _ => None end.

  (* a blackbox instance as a list of node entries: its pins, and the nets on its connected output pins *)
  Definition conn_dict (conns : list (string * option opd)) : list (string * string) :=
    omap (λ c : string * option opd, (λ o, (c.1, nm o)) <$> c.2) conns.
  Definition inst_views (d : bbdef) (inst : string) (conns : list (string * option opd)) : list (string * (gtype * list string)) :=
    let dict := conn_dict conns in
    ((λ pt : string * gtype, (pin inst pt.1, (pt.2, snd <$> filter (λ c : string * string, c.1 = pt.1 ∧ c.1 ∈ bb_in d) dict))) <$> pin_list d) ++
    ((λ c : string * string, (c.2, (Buf, [pin inst c.1]))) <$> filter (λ c : string * string, c.1 ∉ bb_in d) dict).
  Definition views (it : item) : list (string * (gtype * list string)) :=
    match it with
    | IInst bb inst conns => match find_bb_first bbs bb with Some d => inst_views d inst conns | None => [] end
    | _ => match gate_view it with Some e => [e] | None => [] end
    end.
  (* operand names of a statement (for an instance: the nets on its input pins) *)
  Definition uses (it : item) : list string :=
    match it with
    | IInst bb inst conns => match find_bb_first bbs bb with
                             | Some d => snd <$> filter (λ c : string * string, c.1 ∈ bb_in d) (conn_dict conns) | None => [] end
    | _ => match gate_view it with Some (_, (_, fis)) => fis | None => [] end
    end.

  Record st := { sG : gmap string (gtype * list string); sI : gset string; sU : gset string }.
  Definition stp (s : st) (it : item) : st :=
    match it with
    | IInput ns => {| sG := sG s; sI := sI s ∪ list_to_set ns; sU := sU s |}
    | _ => {| sG := foldl (λ G e, <[e.1 := e.2]> G) (sG s) (views it); sI := sI s; sU := sU s ∪ list_to_set (uses it) |}
    end.
  Definition look (s : st) (m : string) : option ninfo :=
    if decide (m = t0) then Some (mk_node C0 false ∅) else if decide (m = t1) then Some (mk_node C1 false ∅) else
    if decide (m = tx) then Some (mk_node CX false ∅) else
    match sG s !! m with
    | Some (t, fis) => Some (mk_node t false (list_to_set fis))
    | None => if decide (m ∈ sI s) then Some (mk_node Input false ∅) else
              if decide (m ∈ sU s) then Some (mk_node Buf false ∅) else None
    end.
  Definition rel (g : circuit) (s : st) : Prop := ∀ m, g !! m = look s m.
  Definition tie (m : string) : Prop := m = t0 ∨ m = t1 ∨ m = tx.
  Definition Gok (s : st) : Prop := ∀ o t fis, sG s !! o = Some (t, fis) → t ∈ primitive_gates.

  Lemma look_ty s m i : Gok s → look s m = Some i → n_ty i ≠ BbIn ∧ n_ty i ≠ BbOut.
  Proof.
    intros HG H. unfold look in H.
    destruct (decide (m = t0)); [by simplify_eq/=|]. destruct (decide (m = t1)); [by simplify_eq/=|].
    destruct (decide (m = tx)); [by simplify_eq/=|].
    destruct (sG s !! m) as [[t fis]|] eqn:E.
    - simplify_eq/=. apply HG in E. split; intros ->; vm_compute in E; set_solver.
    - destruct (decide (m ∈ sI s)); [by simplify_eq/=|]. destruct (decide (m ∈ sU s)); by simplify_eq/=.
  Qed.
  Definition look_rest (s : st) (m : string) : option ninfo :=
    match sG s !! m with
    | Some (t, fis) => Some (mk_node t false (list_to_set fis))
    | None => if decide (m ∈ sI s) then Some (mk_node Input false ∅) else
              if decide (m ∈ sU s) then Some (mk_node Buf false ∅) else None
    end.
  Lemma look_nontie s m : ¬ tie m → look s m = look_rest s m.
  Proof.
    unfold look, tie. intros H. rewrite (decide_False (P := m = t0)), (decide_False (P := m = t1)), (decide_False (P := m = tx)) by tauto. done.
  Qed.
  Lemma look_tie s m : tie m → ∃ i, look s m = Some i ∧ n_fi i = ∅ ∧ (n_ty i = C0 ∨ n_ty i = C1 ∨ n_ty i = CX).
  Proof.
    unfold look. intros H. destruct (decide (m = t0)); [eexists; split; [done|]; simpl; tauto|].
    destruct (decide (m = t1)); [eexists; split; [done|]; simpl; tauto|].
    destruct (decide (m = tx)); [eexists; split; [done|]; simpl; tauto|]. unfold tie in H. tauto.
  Qed.
  Lemma look_fanin_undriven s m : ¬ tie m → sG s !! m = None → default ∅ (n_fi <$> look s m) = ∅.
  Proof.
    intros Ht HG. rewrite look_nontie by done. unfold look_rest. rewrite HG.
    destruct (decide (m ∈ sI s)); [done|]. destruct (decide (m ∈ sU s)); done.
  Qed.

  (* one gate-like statement *)
  Lemma gate_step g s o t fis :
    rel g s → (∀ f i, f ∈ fis → look s f = Some i → n_ty i ≠ BbIn ∧ n_ty i ≠ BbOut) → t ∈ primitive_gates → (t ∈ add_single_fanin → length fis ≤ 1) →
    okname o → (∀ f, f ∈ fis → okname f) → ¬ tie o → sG s !! o = None → o ∉ sI s →
    ∃ g', add_node g o t fis = Ok g' ∧
          rel g' {| sG := <[o := (t, fis)]> (sG s); sI := sI s; sU := sU s ∪ list_to_set fis |}.
  Proof.
    intros Hrel HG Ht Hsf Hon Hfn Hnt HGo HIo.
    destruct (add_node_spec g o t fis Ht Hsf Hon Hfn) as (g' & Hadd & Hg').
    - unfold fanin. rewrite Hrel. by apply look_fanin_undriven.
    - intros f Hf. unfold ty. rewrite Hrel. destruct (look s f) as [i|] eqn:E; simpl; [|done].
      destruct (HG f i Hf E). split; congruence.
    - exists g'. split; [done|]. intros m. rewrite Hg'.
      destruct (decide (tie m)) as [Htm|Htm].
      { assert (m ≠ o) by (intros ->; done). rewrite decide_False by done.
        destruct (look_tie s m Htm) as (i & Hi & _). rewrite decide_False.
        - rewrite Hrel. unfold look, tie in *. cbn [sG sI sU].
          destruct (decide (m = t0)); [done|]. destruct (decide (m = t1)); [done|]. destruct (decide (m = tx)); [done|]. tauto.
        - intros [_ Hd]. apply Hd. apply elem_of_dom. rewrite Hrel. eauto. }
      rewrite (look_nontie _ m Htm). unfold look_rest. cbn [sG sI sU].
      destruct (decide (m = o)) as [->|Hmo]; [by rewrite lookup_insert|].
      rewrite lookup_insert_ne by done.
      assert (Hg : g !! m = look_rest s m) by (rewrite Hrel; by apply look_nontie).
      destruct (decide (m ∈ fis ∧ m ∉ dom g)) as [[Hmf Hmd]|Hn].
      * apply not_elem_of_dom in Hmd. rewrite Hg in Hmd. unfold look_rest in Hmd.
        destruct (sG s !! m) as [[??]|]; [done|]. destruct (decide (m ∈ sI s)); [done|].
        rewrite decide_True by set_solver. done.
      * rewrite Hg. unfold look_rest. destruct (sG s !! m) as [[??]|] eqn:E; [done|]. destruct (decide (m ∈ sI s)); [done|].
        destruct (decide (m ∈ sU s)); [rewrite decide_True by set_solver; done|].
        rewrite decide_False; [done|]. intros Hin. apply Hn. split; [set_solver|]. apply not_elem_of_dom. rewrite Hg. unfold look_rest.
        rewrite E. rewrite decide_False by done. by rewrite decide_False.
  Qed.

  Lemma input_step g s n : rel g s → okname n → ¬ tie n → sG s !! n = None →
    ∃ g', add_node g n Input [] = Ok g' ∧ rel g' {| sG := sG s; sI := sI s ∪ {[n]}; sU := sU s |}.
  Proof.
    intros Hrel Hon Hnt HG. rewrite add_input_spec by done. eexists. split; [done|]. intros m.
    destruct (decide (m = n)) as [->|Hmn].
    - rewrite lookup_insert. unfold fanin. rewrite Hrel, look_fanin_undriven by done.
      rewrite look_nontie by done. unfold look_rest. cbn [sG sI sU]. rewrite HG. rewrite decide_True by set_solver. done.
    - rewrite lookup_insert_ne by done. rewrite Hrel. unfold look. cbn [sG sI sU].
      destruct (decide (m = t0)); [done|]. destruct (decide (m = t1)); [done|]. destruct (decide (m = tx)); [done|].
      destruct (sG s !! m) as [[??]|]; [done|].
      destruct (decide (m ∈ sI s)); [rewrite (decide_True (P := m ∈ sI s ∪ {[n]})) by (apply elem_of_union_l; done); done|].
      rewrite (decide_False (P := m ∈ sI s ∪ {[n]})) by (rewrite elem_of_union, elem_of_singleton; tauto). done.
  Qed.
End sem.
