(* C14 phase 2: agreement of the two reader models on modules without blackbox instances (part A4) *)
From stdpp Require Import strings gmap sets pretty.
From CG Require Import Model.FastVerilog Proofs.FastVerilogProofs Gen.Gen_fastv.
From CG Require Import Proofs.FvA0 Proofs.FvA1 Proofs.FvA2 Proofs.FvA3.
Open Scope string_scope.

Section fold.
  Variables (t0 t1 tx : string).
  Hypothesis Hties : okname t0 ∧ okname t1 ∧ okname tx.
  Notation nm := (nm t0 t1). Notation norm := (norm t0 t1). Notation gate_view := (gate_view t0 t1).
  Notation stp := (stp t0 t1). Notation rel := (rel t0 t1 tx). Notation tie := (tie t0 t1 tx).

  Lemma mapM_full_opd ops : forallb const_ok ops = true → mapM_res (full_opd t0 t1 tx) ops = Ok (nm <$> ops).
  Proof.
    induction ops as [|o ops IH]; [done|]. cbn [forallb]. intros [Ho Hops]%andb_true_iff. cbn [mapM_res fmap list_fmap].
    rewrite (IH Hops). destruct o as [s|s]; [done|]. simpl in Ho.
    apply orb_true_iff in Ho as [->%bool_decide_eq_true| ->%bool_decide_eq_true]; vm_compute; done.
  Qed.

  Lemma nm_okname o : (∀ s, o = ONet s → okname s) → okname (nm o).
  Proof. destruct o as [s|s]; simpl; [auto|]. intros _. destruct Hties as (? & ? & ?). by case_bool_decide. Qed.
  Lemma cancel_sub l f : f ∈ cancel_pairs l → f ∈ l.
  Proof. unfold cancel_pairs. intros [_ H]%elem_of_list_filter. by apply elem_of_remove_dups. Qed.
  Lemma norm_facts t l : t ∈ primitive_gates → (t ∈ add_single_fanin → length l ≤ 1) → (∀ f, f ∈ l → okname f) →
    (norm t l).1 ∈ primitive_gates ∧ ((norm t l).1 ∈ add_single_fanin → length (norm t l).2 ≤ 1) ∧ ∀ f, f ∈ (norm t l).2 → okname f.
  Proof.
    intros Ht Hs Hl. unfold norm. destruct (is_parity t) eqn:Hp; [|done].
    case_bool_decide as Hc; simpl.
    - split; [vm_compute; set_solver|]. split; [done|]. intros f ->%elem_of_list_singleton. destruct Hties as (? & ? & ?). by case_bool_decide.
    - split; [done|]. split.
      + intros Hsf. exfalso. unfold is_parity in Hp. apply orb_true_iff in Hp as [->%bool_decide_eq_true| ->%bool_decide_eq_true]; vm_compute in Hsf; set_solver.
      + intros f Hf%cancel_sub. auto.
  Qed.

  Definition good (it : item) : Prop :=
    match it with
    | IInput ns => ∀ n, n ∈ ns → okname n ∧ ¬ tie n
    | IOutput _ | IWire _ => True
    | IGate t _ ops => ∃ o ins, ops = ONet o :: ins ∧ t ∈ primitive_gates ∧ forallb const_ok ins = true ∧
                        (t ∈ add_single_fanin → length ins ≤ 1) ∧ okname o ∧ ¬ tie o ∧ ∀ s, ONet s ∈ ins → okname s
    | IAssign l r => const_ok r = true ∧ okname l ∧ ¬ tie l ∧ ∀ s, r = ONet s → okname s
    | IInst _ _ _ => False
    end.
  Definition it_inputs (it : item) : list string := match it with IInput ns => ns | _ => [] end.
  Definition it_driver (it : item) : list string := match gate_view it with Some (o, _) => [o] | None => [] end.

  Lemma inputs_step ns : ∀ g s, rel g s → (∀ n, n ∈ ns → okname n ∧ ¬ tie n ∧ sG s !! n = None) →
    ∃ g', foldl (λ st n, rbind st (λ g, add_node g n Input [])) (Ok g) ns = Ok g' ∧
          rel g' {| sG := sG s; sI := sI s ∪ list_to_set ns; sU := sU s |}.
  Proof.
    induction ns as [|n ns IH]; intros g s Hrel Hns; cbn [foldl rbind].
    - exists g. split; [done|]. rewrite list_to_set_nil, (right_id_L ∅ (∪)). by destruct s.
    - destruct (Hns n) as (Hon & Hnt & HG); [by left|].
      destruct (input_step t0 t1 tx g s n Hrel Hon Hnt HG) as (g1 & -> & Hrel1).
      destruct (IH g1 _ Hrel1) as (g' & -> & Hrel'); [intros m Hm; apply Hns; by right|].
      exists g'. split; [done|]. cbn [sG sI sU] in Hrel'. rewrite list_to_set_cons, (assoc_L (∪)). done.
  Qed.

  Lemma Gok_insert s o t fis I U : Gok s → t ∈ primitive_gates → Gok {| sG := <[o := (t, fis)]> (sG s); sI := I; sU := U |}.
  Proof. intros HG Ht o' t' fis'. cbn [sG]. intros [[_ [= <- _]]|[_ H]]%lookup_insert_Some; [done|by eapply HG]. Qed.

  Lemma full_item_step bbs C s it : rel (c_g C) s → Gok s → good it →
    (∀ o, o ∈ it_driver it → sG s !! o = None ∧ o ∉ sI s) → (∀ n, n ∈ it_inputs it → sG s !! n = None) →
    ∃ C', full_item t0 t1 tx bbs C it = Ok C' ∧ rel (c_g C') (stp s it) ∧ Gok (stp s it) ∧ c_bbs C' = c_bbs C.
  Proof.
    intros Hrel HG Hgood Hdrv Hin. destruct it as [ns|ns|ns|t inst ops|l r|bb inst conns]; cbn [good] in Hgood.
    - cbn [full_item stp]. destruct (inputs_step ns (c_g C) s Hrel) as (g' & -> & Hrel').
      { intros n Hn. destruct (Hgood n Hn). split; [done|]. split; [done|]. apply Hin. done. }
      eexists. split; [done|]. split; [done|]. split; [|done]. intros o t fis. cbn [sG]. apply HG.
    - eexists. split; [done|]. done.
    - eexists. split; [done|]. done.
    - destruct Hgood as (o & ins & -> & Ht & Hc & Hsf & Hon & Hnt & Hnets).
      cbn [full_item]. rewrite (mapM_full_opd (ONet o :: ins)) by (cbn [forallb const_ok]; done). cbn [rbind fmap list_fmap FvA3.nm].
      destruct (norm_facts t (nm <$> ins) Ht) as (Ht' & Hsf' & Hok').
      { rewrite fmap_length. done. }
      { intros f (x & -> & Hx)%elem_of_list_fmap. apply nm_okname. intros s' ->. auto. }
      unfold FvA3.norm in *. destruct (if is_parity t then _ else _) as [t' ins'] eqn:En. cbn [fst snd] in *.
      destruct (Hdrv o) as [HGo HIo]. { unfold it_driver. cbn [FvA3.gate_view]. by left. }
      destruct (gate_step t0 t1 tx (c_g C) s o t' ins' Hrel HG Ht' Hsf' Hon Hok' Hnt HGo HIo) as (g' & -> & Hrel').
      eexists. split; [done|]. cbn [stp FvA3.stp FvA3.gate_view]. unfold FvA3.norm. rewrite En. split; [done|]. split; [|done]. by apply Gok_insert.
    - destruct Hgood as (Hc & Hon & Hnt & Hnets). cbn [full_item].
      pose proof (mapM_full_opd [r]) as Hm. cbn [forallb mapM_res] in Hm. rewrite Hc in Hm. specialize (Hm eq_refl).
      destruct (full_opd t0 t1 tx r) as [e| | |] eqn:Er; try done. cbn [rbind fmap list_fmap] in Hm. injection Hm as ->. cbn [rbind].
      rewrite bool_decide_eq_false_2 by (unfold FvA3.tie in Hnt; set_solver).
      destruct (Hdrv l) as [HGo HIo]. { unfold it_driver. cbn [FvA3.gate_view]. by left. }
      destruct (gate_step t0 t1 tx (c_g C) s l Buf [nm r] Hrel HG) as (g' & -> & Hrel'); try done.
      { vm_compute. set_solver. } { intros f ->%elem_of_list_singleton. by apply nm_okname. }
      eexists. split; [done|]. cbn [stp FvA3.stp FvA3.gate_view]. split; [done|]. split; [|done]. apply Gok_insert; [done|]. vm_compute. set_solver.
    - done.
  Qed.
End fold.
