(* C14 phase 2: agreement of the two reader models on the documented subset (part A4) *)
From stdpp Require Import strings gmap sets pretty.
From CG Require Import Model.FastVerilog Proofs.FastVerilogProofs Gen.Gen_fastv.
From CG Require Import Proofs.FvA0 Proofs.FvA1 Proofs.FvA2 Proofs.FvP1 Proofs.FvE1 Proofs.FvE2 Proofs.FvE3 Proofs.FvE4 Proofs.FvA3 Proofs.FvE5 Proofs.FvE6 Proofs.FvE7.
Open Scope string_scope.

Section fold.
  Variables (t0 t1 tx : string) (bbs : list bbdef).
  Hypothesis Hties : okname t0 ∧ okname t1 ∧ okname tx.
  Hypothesis Hnd : dotted t0 = false ∧ dotted t1 = false ∧ dotted tx = false.
  Notation nm := (nm t0 t1). Notation norm := (norm t0 t1). Notation gate_view := (gate_view t0 t1).
  Notation stp := (stp t0 t1 bbs). Notation views := (views t0 t1 bbs). Notation rel := (rel t0 t1 tx). Notation tie := (tie t0 t1 tx).

  Lemma mapM_full_opd ops : forallb const_ok ops = true → mapM_res (full_opd t0 t1 tx) ops = Ok (nm <$> ops).
  Proof.
    induction ops as [|o ops IH]; [done|]. cbn [forallb]. intros [Ho Hops]%andb_true_iff. cbn [mapM_res fmap list_fmap].
    rewrite (IH Hops). destruct o as [s|s]; [done|]. simpl in Ho.
    apply orb_true_iff in Ho as [->%bool_decide_eq_true| ->%bool_decide_eq_true]; vm_compute; done.
  Qed.

  Lemma nm_okname o : (∀ s, o = ONet s → okname s) → okname (nm o).
  Proof. destruct o as [s|s]; simpl; [auto|]. intros _. destruct Hties as (? & ? & ?). by case_bool_decide. Qed.
  Lemma cancel_sub l f : f ∈ cancel_pairs l → f ∈ l.
  Proof. unfold cancel_pairs. intros [_ H]%elem_of_list_filter. by apply elem_of_remove_dups. Qed.
  Lemma norm_facts t l : t ∈ primitive_gates → (t ∈ add_single_fanin → length l ≤ 1) → (∀ f, f ∈ l → okname f) →
    (norm t l).1 ∈ primitive_gates ∧ ((norm t l).1 ∈ add_single_fanin → length (norm t l).2 ≤ 1) ∧ ∀ f, f ∈ (norm t l).2 → okname f.
  Proof.
    intros Ht Hs Hl. unfold norm. destruct (is_parity t) eqn:Hp; [|done].
    case_bool_decide as Hc; simpl.
    - split; [vm_compute; set_solver|]. split; [done|]. intros f ->%elem_of_list_singleton. destruct Hties as (? & ? & ?). by case_bool_decide.
    - split; [done|]. split.
      + intros Hsf. exfalso. unfold is_parity in Hp. apply orb_true_iff in Hp as [->%bool_decide_eq_true| ->%bool_decide_eq_true]; vm_compute in Hsf; set_solver.
      + intros f Hf%cancel_sub. auto.
  Qed.

  Lemma nm_nodot o : (∀ s, o = ONet s → dotted s = false) → dotted (nm o) = false.
  Proof. destruct o as [s|s]; simpl; [auto|]. intros _. destruct Hnd as (? & ? & ?). by case_bool_decide. Qed.
  Lemma norm_nodot t l : (∀ f, f ∈ l → dotted f = false) → ∀ f, f ∈ (norm t l).2 → dotted f = false.
  Proof.
    intros Hl. unfold FvA3.norm. destruct (is_parity t); [|done]. case_bool_decide; simpl.
    - intros f ->%elem_of_list_singleton. destruct Hnd as (? & ? & ?). by case_bool_decide.
    - intros f Hf%cancel_sub. auto.
  Qed.
  Definition netok (s : string) : Prop := okname s ∧ dotted s = false.
  Definition good (it : item) : Prop :=
    match it with
    | IInput ns => ∀ n, n ∈ ns → netok n ∧ ¬ tie n
    | IOutput _ | IWire _ => True
    | IGate t _ ops => ∃ o ins, ops = ONet o :: ins ∧ t ∈ primitive_gates ∧ forallb const_ok ins = true ∧
                        (t ∈ add_single_fanin → length ins ≤ 1) ∧ netok o ∧ ¬ tie o ∧ ∀ s, ONet s ∈ ins → netok s
    | IAssign l r => const_ok r = true ∧ netok l ∧ ¬ tie l ∧ ∀ s, r = ONet s → netok s
    | IInst bb inst conns => ∃ d, find_bb_first bbs bb = Some d ∧ find_bb_last bbs bb = Some d ∧ netok inst ∧ bb_in d ## bb_out d ∧
                        NoDup (fst <$> conns) ∧ (∀ p o, (p, o) ∈ conns → p ∈ bb_in d ∨ p ∈ bb_out d) ∧
                        (∀ p o, (p, Some o) ∈ conns → const_ok o = true ∧ (p ∉ bb_in d → is_net o = true) ∧
                                                      ∀ s, o = ONet s → netok s ∧ ¬ tie s)
    end.
  Definition it_inputs (it : item) : list string := match it with IInput ns => ns | _ => [] end.
  Definition it_driver (it : item) : list string := fst <$> views it.
  Definition it_insts (it : item) : list string := match it with IInst _ inst _ => [inst] | _ => [] end.

  (* shape of the state: node types, and where dotted names (pins) may occur *)
  Record sinv (s : st) (B : gset string) : Prop := {
    si_ty : ∀ o t fis, sG s !! o = Some (t, fis) → t ∈ primitive_gates ∨ dotted o = true;
    si_fis : ∀ o t fis f, sG s !! o = Some (t, fis) → f ∈ fis → dotted f = false ∨ ∃ i' q, f = pin i' q ∧ i' ∈ B ∧ dotted i' = false;
    si_U : ∀ u, u ∈ sU s → dotted u = false;
    si_I : ∀ u, u ∈ sI s → dotted u = false }.
  Lemma sinv_mono s B B' : B ⊆ B' → sinv s B → sinv s B'.
  Proof. intros HB [H1 H2 H3 H4]. split; try done. intros o t fis f HG Hf. destruct (H2 o t fis f HG Hf) as [?|(i' & q & ? & ? & ?)]; [by left|right]. exists i', q. set_solver. Qed.
  Lemma look_notbb s B f i : sinv s B → dotted f = false → look t0 t1 tx s f = Some i → n_ty i ≠ BbIn ∧ n_ty i ≠ BbOut.
  Proof.
    intros Hs Hf. unfold FvA3.look. destruct (decide (f = t0)); [by intros [= <-]|]. destruct (decide (f = t1)); [by intros [= <-]|].
    destruct (decide (f = tx)); [by intros [= <-]|]. destruct (sG s !! f) as [[t fis]|] eqn:E.
    - intros [= <-]. simpl. destruct (si_ty s B Hs f t fis E) as [Ht|Hd]; [|congruence]. split; intros ->; vm_compute in Ht; set_solver.
    - destruct (decide (f ∈ sI s)); [by intros [= <-]|]. destruct (decide (f ∈ sU s)); [by intros [= <-]|done].
  Qed.
  Lemma tie_nodot m : tie m → dotted m = false.
  Proof. destruct Hnd as (? & ? & ?). unfold FvA3.tie. intros [->|[->| ->]]; done. Qed.
  Lemma inputs_step ns : ∀ g s, rel g s → (∀ n, n ∈ ns → okname n ∧ ¬ tie n ∧ sG s !! n = None) →
    ∃ g', foldl (λ st n, rbind st (λ g, add_node g n Input [])) (Ok g) ns = Ok g' ∧
          rel g' {| sG := sG s; sI := sI s ∪ list_to_set ns; sU := sU s |}.
  Proof.
    induction ns as [|n ns IH]; intros g s Hrel Hns; cbn [foldl rbind].
    - exists g. split; [done|]. rewrite list_to_set_nil, (right_id_L ∅ (∪)). by destruct s.
    - destruct (Hns n) as (Hon & Hnt & HG); [by left|].
      destruct (input_step t0 t1 tx g s n Hrel Hon Hnt HG) as (g1 & -> & Hrel1).
      destruct (IH g1 _ Hrel1) as (g' & -> & Hrel'); [intros m Hm; apply Hns; by right|].
      exists g'. split; [done|]. cbn [sG sI sU] in Hrel'. rewrite list_to_set_cons, (assoc_L (∪)). done.
  Qed.

  Lemma sinv_gate s B o t fis : sinv s B → t ∈ primitive_gates → (∀ f, f ∈ fis → dotted f = false) →
    sinv {| sG := <[o := (t, fis)]> (sG s); sI := sI s; sU := sU s ∪ list_to_set fis |} B.
  Proof.
    intros [H1 H2 H3 H4] Ht Hf. split; cbn [sG sI sU]; [| | |done].
    - intros o' t' fis' [[_ [= <- _]]|[_ H]]%lookup_insert_Some; [by left|by eapply H1].
    - intros o' t' fis' f [[_ [= _ <-]]|[_ H]]%lookup_insert_Some Hin; [left; auto|by eapply H2].
    - intros u [?|?%elem_of_list_to_set]%elem_of_union; auto.
  Qed.

  Lemma stp_output s ns : stp s (IOutput ns) = s.
  Proof. destruct s. unfold FvA3.stp. simpl. f_equal. set_solver. Qed.
  Lemma stp_wire s ns : stp s (IWire ns) = s.
  Proof. destruct s. unfold FvA3.stp. simpl. f_equal. set_solver. Qed.

  Lemma full_item_step C s it : rel (c_g C) s → sinv s (dom (c_bbs C)) → good it → NoDup (it_driver it) →
    (∀ o, o ∈ it_driver it → sG s !! o = None ∧ o ∉ sI s) → (∀ n, n ∈ it_inputs it → sG s !! n = None) →
    (∀ i, i ∈ it_insts it → i ∉ dom (c_bbs C)) →
    ∃ C', full_item t0 t1 tx bbs C it = Ok C' ∧ rel (c_g C') (stp s it) ∧ sinv (stp s it) (dom (c_bbs C')) ∧
          dom (c_bbs C') = dom (c_bbs C) ∪ list_to_set (it_insts it).
  Proof.
    intros Hrel HG Hgood Hndk Hdrv Hin Hinst. destruct it as [ns|ns|ns|t inst ops|l r|bb inst conns]; cbn [good] in Hgood.
    - cbn [full_item stp]. destruct (inputs_step ns (c_g C) s Hrel) as (g' & -> & Hrel').
      { intros n Hn. destruct (Hgood n Hn) as [[? ?] ?]. split; [done|]. split; [done|]. apply Hin. done. }
      eexists. split; [done|]. split; [done|]. cbn [c_bbs with_g it_insts]. split; [|set_solver]. destruct HG as [H1 H2 H3 H4]. split; try done.
      cbn [sI]. intros u [?|Hu%elem_of_list_to_set]%elem_of_union; [auto|]. by destruct (Hgood u Hu) as [[? ?] ?].
    - eexists. split; [done|]. rewrite stp_output. cbn [it_insts]. split; [done|]. split; [done|set_solver].
    - eexists. split; [done|]. rewrite stp_wire. cbn [it_insts]. split; [done|]. split; [done|set_solver].
    - destruct Hgood as (o & ins & -> & Ht & Hc & Hsf & [Hon Hod] & Hnt & Hnets).
      cbn [full_item]. rewrite (mapM_full_opd (ONet o :: ins)) by (cbn [forallb const_ok]; done). cbn [rbind fmap list_fmap FvA3.nm].
      destruct (norm_facts t (nm <$> ins) Ht) as (Ht' & Hsf' & Hok').
      { rewrite fmap_length. done. }
      { intros f (x & -> & Hx)%elem_of_list_fmap. apply nm_okname. intros s' ->. by destruct (Hnets s' Hx). }
      assert (Hdot' : ∀ f, f ∈ (norm t (nm <$> ins)).2 → dotted f = false).
      { apply norm_nodot. intros f (x & -> & Hx)%elem_of_list_fmap. apply nm_nodot. intros s' ->. by destruct (Hnets s' Hx). }
      unfold FvA3.norm in *. destruct (if is_parity t then _ else _) as [t' ins'] eqn:En. cbn [fst snd] in *.
      destruct (Hdrv o) as [HGo HIo]. { unfold it_driver. cbn [FvA3.views FvA3.gate_view]. unfold FvA3.norm. rewrite En. by left. }
      destruct (gate_step t0 t1 tx (c_g C) s o t' ins' Hrel) as (g' & -> & Hrel'); try done.
      { intros f i Hf. apply (look_notbb s _ f i HG). auto. }
      eexists. split; [done|]. unfold FvA3.stp. cbn [FvA3.views FvA3.uses FvA3.gate_view foldl fst snd]. unfold FvA3.norm. rewrite En. cbn [foldl fst snd].
      split; [done|]. cbn [c_bbs with_g it_insts]. split; [by apply sinv_gate|set_solver].
    - destruct Hgood as (Hc & [Hon Hod] & Hnt & Hnets). cbn [full_item].
      pose proof (mapM_full_opd [r]) as Hm. cbn [forallb mapM_res] in Hm. rewrite Hc in Hm. specialize (Hm eq_refl).
      destruct (full_opd t0 t1 tx r) as [e| | |] eqn:Er; try done. cbn [rbind fmap list_fmap] in Hm. injection Hm as ->. cbn [rbind].
      rewrite bool_decide_eq_false_2 by (unfold FvA3.tie in Hnt; set_solver).
      destruct (Hdrv l) as [HGo HIo]. { unfold it_driver. cbn [FvA3.views FvA3.gate_view]. by left. }
      assert (Hrd : dotted (nm r) = false) by (apply nm_nodot; intros s' ->; by destruct (Hnets s' eq_refl)).
      destruct (gate_step t0 t1 tx (c_g C) s l Buf [nm r] Hrel) as (g' & -> & Hrel'); try done.
      { intros f i ->%elem_of_list_singleton. by apply (look_notbb s _ _ i HG). }
      { vm_compute. set_solver. } { intros f ->%elem_of_list_singleton. apply nm_okname. intros s' ->. by destruct (Hnets s' eq_refl). }
      eexists. split; [done|]. unfold FvA3.stp. cbn [FvA3.views FvA3.uses FvA3.gate_view foldl fst snd]. split; [done|]. cbn [c_bbs with_g it_insts].
      split; [|set_solver]. apply sinv_gate; [done|vm_compute; set_solver|]. by intros f ->%elem_of_list_singleton.
    - destruct Hgood as (d & Hfirst & Hlast & [Hion Hiod] & Hdisj & Hcn & Hpins & Hcs).
      assert (Hnew : inst ∉ dom (c_bbs C)) by (apply Hinst; by left).
      set (dict := conn_dict t0 t1 conns).
      assert (Hdict : ∀ p n, (p, n) ∈ dict → netok n ∧ (p ∉ bb_in d → ¬ tie n ∧ n ∈ it_driver (IInst bb inst conns))).
      { intros p n (o & Hin' & ->)%conn_dict_elem. destruct (Hcs p o Hin') as (Hc & Hnet & Hs). split.
        - split; [apply nm_okname; intros s' ->; by destruct (Hs s' eq_refl) as [[? ?] ?]|apply nm_nodot; intros s' ->; by destruct (Hs s' eq_refl) as [[? ?] ?]].
        - intros Hp. specialize (Hnet Hp). destruct o as [s'|s']; [|done]. destruct (Hs s' eq_refl) as [_ Hnt]. split; [done|].
          unfold it_driver. cbn [FvA3.views]. rewrite Hfirst. unfold FvA3.inst_views. rewrite fmap_app. apply elem_of_app. right.
          apply elem_of_list_fmap. exists (s', (Buf, [pin inst p])). split; [done|]. apply elem_of_list_fmap. exists (p, s'). split; [done|].
          apply elem_of_list_filter. split; [done|]. apply conn_dict_elem. eauto. }
      destruct (inst_step t0 t1 tx bbs s C bb inst conns d Hrel) as (C' & HC' & Hrel' & Hbbs).
      { split; try done.
        - intros p o Hin'. by destruct (Hcs p o Hin').
        - intros p Hp. assert (Hk : pin inst p ∈ it_driver (IInst bb inst conns)).
          { unfold it_driver. cbn [FvA3.views]. rewrite Hfirst. unfold FvA3.inst_views. rewrite fmap_app. apply elem_of_app. left.
            rewrite <- list_fmap_compose. apply elem_of_list_fmap.
            destruct Hp as [Hp|Hp]; [exists (p, BbIn)|exists (p, BbOut)]; (split; [done|]); apply pin_list_elem; auto. }
          assert (Hnt : ¬ tie (pin inst p)). { intros Ht%tie_nodot. by rewrite pin_dotted in Ht. }
          split; [|done]. rewrite look_nontie by done. unfold look_rest. destruct (Hdrv _ Hk) as [-> HI]. rewrite decide_False by done.
          rewrite decide_False; [done|]. intros Hu. pose proof (si_U s _ HG _ Hu) as Hd. by rewrite pin_dotted in Hd.
        - intros o t fis q HGo Hf. destruct (si_fis s _ HG o t fis _ HGo Hf) as [Hd|(i' & q' & Heq & Hi' & Hdi')]; [by rewrite pin_dotted in Hd|].
          apply pin_inj2 in Heq as [-> _]; done.
        - intros p n Hin'. destruct (Hdict p n Hin') as ([Hok Hdot] & Ho). split; [done|]. split; [intros q ->; by rewrite pin_dotted in Hdot|]. split.
          + intros _ i. by apply (look_notbb s _ n i HG).
          + intros Hp. destruct (Ho Hp) as [Hnt Hk]. split; [done|]. by apply Hdrv.
        - intros p n p' n' H1 H2 Hp Hp' Hne ->. unfold it_driver in Hndk. cbn [FvA3.views] in Hndk. rewrite Hfirst in Hndk. unfold FvA3.inst_views in Hndk.
          rewrite fmap_app in Hndk. apply NoDup_app in Hndk as (_ & _ & Hndk). rewrite <- list_fmap_compose in Hndk.
          assert (Heq : (p, n') = (p', n')); [|by injection Heq].
          apply (nodup_fmap_inj_on _ _ _ _ Hndk); [by apply elem_of_list_filter|by apply elem_of_list_filter|done]. }
      exists C'. split; [done|]. split; [done|]. cbn [it_insts]. rewrite Hbbs, dom_insert_L. split; [|set_solver].
      (* the shape invariant of the new state *)
      unfold FvA3.stp. cbn [FvA3.views FvA3.uses]. rewrite Hfirst. fold dict. destruct HG as [H1 H2 H3 H4]. split; cbn [sG sI sU]; [| | |done].
      + intros o t fis Ho. destruct (decide (o ∈ fst <$> inst_views t0 t1 d inst conns)) as [Hk|Hk].
        * apply elem_of_list_fmap in Hk as ([k v] & -> & Hkv). unfold FvA3.inst_views in Hkv. fold dict in Hkv. apply elem_of_app in Hkv as [Hkv|Hkv].
          -- apply elem_of_list_fmap in Hkv as ([p' t'] & [= -> ->] & _). right. apply pin_dotted.
          -- apply elem_of_list_fmap in Hkv as ([p' n'] & [= -> ->] & Hfil). cbn [fst snd] in *. left.
             assert (Hndk' : NoDup (fst <$> inst_views t0 t1 d inst conns)).
             { unfold it_driver in Hndk. cbn [FvA3.views] in Hndk. by rewrite Hfirst in Hndk. }
             rewrite (foldl_ins_in _ (sG s) n' (Buf, [pin inst p']) Hndk') in Ho.
             ++ injection Ho as <- _. vm_compute. set_solver.
             ++ unfold FvA3.inst_views. fold dict. apply elem_of_app. right. apply elem_of_list_fmap. exists (p', n'). split; [done|]. exact Hfil.
        * rewrite foldl_ins_other in Ho by done. by eapply H1.
      + intros o t fis f Ho Hf. destruct (decide (o ∈ fst <$> inst_views t0 t1 d inst conns)) as [Hk|Hk].
        * assert (Hndk' : NoDup (fst <$> inst_views t0 t1 d inst conns)).
          { unfold it_driver in Hndk. cbn [FvA3.views] in Hndk. by rewrite Hfirst in Hndk. }
          apply elem_of_list_fmap in Hk as ([k v] & -> & Hkv). cbn [fst snd] in *. rewrite (foldl_ins_in _ (sG s) k v Hndk' Hkv) in Ho. injection Ho as ->.
          unfold FvA3.inst_views in Hkv. fold dict in Hkv. apply elem_of_app in Hkv as [Hkv|Hkv].
          -- apply elem_of_list_fmap in Hkv as ([p' t'] & [= _ -> ->] & _). apply elem_of_list_fmap in Hf as ([p'' n''] & -> & [_ Hin']%elem_of_list_filter).
             left. by destruct (Hdict p'' n'' Hin') as [[? ?] _].
          -- apply elem_of_list_fmap in Hkv as ([p' n'] & [= _ -> ->] & _). apply elem_of_list_singleton in Hf as ->. right. exists inst, p'. split; [done|]. split; [set_solver|done].
        * rewrite foldl_ins_other in Ho by done. destruct (H2 o t fis f Ho Hf) as [?|(i' & q & ? & ? & ?)]; [by left|right]. exists i', q. set_solver.
      + intros u [?|Hu%elem_of_list_to_set]%elem_of_union; [auto|]. apply elem_of_list_fmap in Hu as ([p' n'] & -> & [_ Hin']%elem_of_list_filter).
        by destruct (Hdict p' n' Hin') as [[? ?] _].
  Qed.
End fold.
