(* C14 phase 2: agreement of the two reader models on modules without blackbox instances (part A5) *)
From stdpp Require Import strings gmap sets pretty.
From CG Require Import Model.FastVerilog Proofs.FastVerilogProofs Gen.Gen_fastv.
From CG Require Import Proofs.FvA0 Proofs.FvA1 Proofs.FvA2 Proofs.FvA3 Proofs.FvA4.
Open Scope string_scope.

Section fold2.
  Variables (t0 t1 tx : string).
  Hypothesis Hties : okname t0 ∧ okname t1 ∧ okname tx.
  Notation stp := (stp t0 t1). Notation rel := (rel t0 t1 tx). Notation it_driver := (it_driver t0 t1). Notation good := (good t0 t1 tx).

  Lemma stp_G_None s it m : sG s !! m = None → m ∉ it_driver it → sG (stp s it) !! m = None.
  Proof.
    intros HG Hm. unfold FvA3.stp, FvA4.it_driver in *. destruct it; try done; destruct (FvA3.gate_view t0 t1 _) as [[o [t' fis]]|]; try done;
      cbn [sG]; rewrite lookup_insert_ne; [done|set_solver|done|set_solver].
  Qed.
  Lemma stp_I s it m : m ∉ sI s → m ∉ it_inputs it → m ∉ sI (stp s it).
  Proof.
    intros HI Hm. unfold FvA3.stp, it_inputs in *. destruct it; try (destruct (FvA3.gate_view t0 t1 _) as [[o [t' fis]]|]; done).
    cbn [sI]. rewrite elem_of_union, elem_of_list_to_set. tauto.
  Qed.

  Lemma full_fold bbs rest : ∀ C s, rel (c_g C) s → Gok s → (∀ it, it ∈ rest → good it) →
    NoDup (rest ≫= it_driver) →
    (∀ o, o ∈ rest ≫= it_driver → sG s !! o = None ∧ o ∉ sI s ∧ o ∉ rest ≫= it_inputs) →
    (∀ n, n ∈ rest ≫= it_inputs → sG s !! n = None) →
    ∃ C', foldl (λ st it, rbind st (λ C, full_item t0 t1 tx bbs C it)) (Ok C) rest = Ok C' ∧
          rel (c_g C') (foldl stp s rest) ∧ Gok (foldl stp s rest) ∧ c_bbs C' = c_bbs C.
  Proof.
    induction rest as [|it rest IH]; intros C s Hrel HG Hgood Hnd Hdrv Hin; cbn [foldl rbind].
    - eauto.
    - rewrite bind_cons in Hnd. apply NoDup_app in Hnd as (Hnd1 & Hnd12 & Hnd2).
      destruct (full_item_step t0 t1 tx Hties bbs C s it Hrel HG) as (C1 & -> & Hrel1 & HG1 & Hb1).
      { apply Hgood. by left. }
      { intros o Ho. destruct (Hdrv o) as (? & ? & ?); [rewrite bind_cons; apply elem_of_app; by left|split; done]. }
      { intros n Hn. apply Hin. rewrite bind_cons. apply elem_of_app. by left. }
      assert (Hg' : ∀ it', it' ∈ rest → good it') by (intros it' Hit'; apply Hgood; by right).
      assert (Hd' : ∀ o, o ∈ rest ≫= it_driver → sG (stp s it) !! o = None ∧ o ∉ sI (stp s it) ∧ o ∉ rest ≫= it_inputs).
      { intros o Ho. destruct (Hdrv o) as (H1 & H2 & H3); [rewrite bind_cons; apply elem_of_app; by right|].
        rewrite bind_cons, elem_of_app in H3. split; [|split; [|tauto]].
        * apply stp_G_None; [done|]. intros Hx. by apply (Hnd12 o).
        * apply stp_I; [done|tauto]. }
      assert (Hi' : ∀ n, n ∈ rest ≫= it_inputs → sG (stp s it) !! n = None).
      { intros n Hn. apply stp_G_None; [apply Hin; rewrite bind_cons; apply elem_of_app; by right|].
        intros Hx. destruct (Hdrv n) as (_ & _ & H3); [rewrite bind_cons; apply elem_of_app; by left|].
        apply H3. rewrite bind_cons. apply elem_of_app. by right. }
      destruct (IH C1 (stp s it) Hrel1 HG1 Hg' Hnd2 Hd' Hi') as (C' & -> & Hrel' & HG' & Hb').
      exists C'. split; [done|]. split; [done|]. split; [done|]. congruence.
  Qed.
End fold2.
