(* C14 phase 2: agreement of the two reader models on the documented subset (part A5) *)
From stdpp Require Import strings gmap sets pretty.
From CG Require Import Model.FastVerilog Proofs.FastVerilogProofs Gen.Gen_fastv.
From CG Require Import Proofs.FvA0 Proofs.FvA1 Proofs.FvA2 Proofs.FvP1 Proofs.FvE1 Proofs.FvE2 Proofs.FvE3 Proofs.FvE4 Proofs.FvA3 Proofs.FvE5 Proofs.FvE6 Proofs.FvE7 Proofs.FvA4.
Open Scope string_scope.

Section fold2.
  Variables (t0 t1 tx : string) (bbs : list bbdef).
  Hypothesis Hties : okname t0 ∧ okname t1 ∧ okname tx.
  Hypothesis Hnd : dotted t0 = false ∧ dotted t1 = false ∧ dotted tx = false.
  Notation stp := (stp t0 t1 bbs). Notation rel := (rel t0 t1 tx). Notation it_driver := (it_driver t0 t1 bbs). Notation good := (good t0 t1 tx bbs).

  Lemma stp_G_None s it m : sG s !! m = None → m ∉ it_driver it → sG (stp s it) !! m = None.
  Proof.
    intros HG Hm. unfold FvA3.stp, FvA4.it_driver in *. destruct it; try done; cbn [sG]; by rewrite foldl_ins_other.
  Qed.
  Lemma stp_I s it m : m ∉ sI s → m ∉ it_inputs it → m ∉ sI (stp s it).
  Proof.
    intros HI Hm. unfold FvA3.stp, it_inputs in *. destruct it; try done.
    cbn [sI]. rewrite elem_of_union, elem_of_list_to_set. tauto.
  Qed.

  Lemma full_fold rest : ∀ C s, rel (c_g C) s → sinv s (dom (c_bbs C)) → (∀ it, it ∈ rest → good it) →
    NoDup (rest ≫= it_driver) → NoDup (rest ≫= it_insts) →
    (∀ o, o ∈ rest ≫= it_driver → sG s !! o = None ∧ o ∉ sI s ∧ o ∉ rest ≫= it_inputs) →
    (∀ n, n ∈ rest ≫= it_inputs → sG s !! n = None) →
    (∀ i, i ∈ rest ≫= it_insts → i ∉ dom (c_bbs C)) →
    ∃ C', foldl (λ st it, rbind st (λ C, full_item t0 t1 tx bbs C it)) (Ok C) rest = Ok C' ∧
          rel (c_g C') (foldl stp s rest) ∧ sinv (foldl stp s rest) (dom (c_bbs C')) ∧
          dom (c_bbs C') = dom (c_bbs C) ∪ list_to_set (rest ≫= it_insts).
  Proof.
    induction rest as [|it rest IH]; intros C s Hrel HG Hgood Hndk Hndi Hdrv Hin Hinst; cbn [foldl rbind].
    - exists C. split; [done|]. split; [done|]. split; [done|]. set_solver.
    - rewrite bind_cons in Hndk. apply NoDup_app in Hndk as (Hnd1 & Hnd12 & Hnd2).
      rewrite bind_cons in Hndi. apply NoDup_app in Hndi as (Hni1 & Hni12 & Hni2).
      destruct (full_item_step t0 t1 tx bbs Hties Hnd C s it Hrel HG) as (C1 & -> & Hrel1 & HG1 & Hb1).
      { apply Hgood. by left. } { done. }
      { intros o Ho. destruct (Hdrv o) as (? & ? & ?); [rewrite bind_cons; apply elem_of_app; by left|split; done]. }
      { intros n Hn. apply Hin. rewrite bind_cons. apply elem_of_app. by left. }
      { intros i Hi. apply Hinst. rewrite bind_cons. apply elem_of_app. by left. }
      assert (Hg' : ∀ it', it' ∈ rest → good it') by (intros it' Hit'; apply Hgood; by right).
      assert (Hd' : ∀ o, o ∈ rest ≫= it_driver → sG (stp s it) !! o = None ∧ o ∉ sI (stp s it) ∧ o ∉ rest ≫= it_inputs).
      { intros o Ho. destruct (Hdrv o) as (H1 & H2 & H3); [rewrite bind_cons; apply elem_of_app; by right|].
        rewrite bind_cons, elem_of_app in H3. split; [|split; [|tauto]].
        * apply stp_G_None; [done|]. intros Hx. by apply (Hnd12 o).
        * apply stp_I; [done|tauto]. }
      assert (Hi' : ∀ n, n ∈ rest ≫= it_inputs → sG (stp s it) !! n = None).
      { intros n Hn. apply stp_G_None; [apply Hin; rewrite bind_cons; apply elem_of_app; by right|].
        intros Hx. destruct (Hdrv n) as (_ & _ & H3); [rewrite bind_cons; apply elem_of_app; by left|].
        apply H3. rewrite bind_cons. apply elem_of_app. by right. }
      assert (Hn' : ∀ i, i ∈ rest ≫= it_insts → i ∉ dom (c_bbs C1)).
      { intros i Hi. rewrite Hb1. apply not_elem_of_union. split; [apply Hinst; rewrite bind_cons; apply elem_of_app; by right|].
        rewrite elem_of_list_to_set. intros Hx. by apply (Hni12 i). }
      destruct (IH C1 (stp s it) Hrel1 HG1 Hg' Hnd2 Hni2 Hd' Hi' Hn') as (C' & -> & Hrel' & HG' & Hb').
      exists C'. split; [done|]. split; [done|]. split; [done|]. rewrite Hb', Hb1, bind_cons, list_to_set_app_L. set_solver.
  Qed.
End fold2.
