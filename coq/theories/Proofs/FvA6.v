(* C14 phase 2: agreement of the two reader models on the documented subset (part A6) *)
From Coq Require Import Ascii.
From stdpp Require Import strings gmap sets pretty.
From CG Require Import Model.FastVerilog Proofs.FastVerilogProofs Gen.Gen_fastv.
From CG Require Import Proofs.FvA0 Proofs.FvA1 Proofs.FvA2 Proofs.FvA3 Proofs.FvA4 Proofs.FvA5.
Open Scope string_scope.

Definition no_inst (a : ast) : bool := forallb (λ it, match it with IInst _ _ _ => false | _ => true end) (a_items a).

Lemma is_ident_okname s : is_ident s = true → okname s.
Proof.
  destruct s as [|c r]; [done|]. simpl. intros [Hl _]%andb_true_iff. split; [done|].
  unfold is_letter in Hl. cbv zeta in Hl. apply andb_false_iff.
  destruct (48 <=? nat_of_ascii c)%nat eqn:E1; [right|by left]. apply Nat.leb_le in E1. apply Nat.leb_gt.
  apply orb_true_iff in Hl as [Hl|Hl]; [apply orb_true_iff in Hl as [Hl|Hl]|].
  - apply andb_true_iff in Hl as [H1%Nat.leb_le _]. lia.
  - apply andb_true_iff in Hl as [H1%Nat.leb_le _]. lia.
  - apply Nat.eqb_eq in Hl. lia.
Qed.
Lemma idents_item a it s : it ∈ a_items a → s ∈ item_ids it → s ∈ idents a.
Proof.
  intros Hit Hs. unfold idents. apply elem_of_list_to_set. right. apply elem_of_app. right. apply elem_of_list_bind. eauto.
Qed.
Lemma uid_in_okname U base : okname base → okname (uid_in U base).
Proof.
  intros [Hne Hd]. unfold uid_in. case_bool_decide; [|done].
  assert (H' : ∀ x, okname (base ++ x)).
  { intros x. destruct base as [|c r]; [done|]. split; [done|]. exact Hd. }
  generalize (S (size U)) 0%N. intros f. induction f as [|f IH]; intros i; simpl; [apply H'|]. case_bool_decide; [apply IH|apply H'].
Qed.
