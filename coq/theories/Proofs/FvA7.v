(* C14 phase 2: agreement of the two reader models on the documented subset (part A7) *)
From stdpp Require Import strings gmap sets pretty.
From CG Require Import Model.FastVerilog Proofs.FastVerilogProofs Gen.Gen_fastv.
From CG Require Import Proofs.FvA0 Proofs.FvA1 Proofs.FvA2 Proofs.FvP1 Proofs.FvE1 Proofs.FvE2 Proofs.FvE3 Proofs.FvE4 Proofs.FvA3 Proofs.FvE5 Proofs.FvE6 Proofs.FvE7 Proofs.FvA4 Proofs.FvA5 Proofs.FvA6.
Open Scope string_scope.

Lemma set_output_lookup outs : ∀ g, (∀ o, o ∈ outs → o ∈ dom g) →
  ∃ g', set_output_g g outs true = (g', Done) ∧
        ∀ m, g' !! m = (λ i, if decide (m ∈ outs) then set_out true i else i) <$> g !! m.
Proof.
  unfold set_output_g. induction outs as [|o outs IH]; intros g H; cbn [foldl].
  - exists g. split; [done|]. intros m. destruct (g !! m); simpl; [|done]. destruct (decide (m ∈ [])) as [H'|]; [by apply elem_of_nil in H'|done].
  - assert (Ho : o ∈ dom g) by (apply H; by left). apply elem_of_dom in Ho as [i Hi]. rewrite Hi.
    destruct (IH (<[o := set_out true i]> g)) as (g' & -> & Hg').
    { intros o' Ho'. rewrite dom_insert. apply elem_of_union_r. apply H. by right. }
    exists g'. split; [done|]. intros m. rewrite Hg'. destruct (decide (m = o)) as [->|Hmo].
    + rewrite lookup_insert, Hi. simpl. rewrite (decide_True (P := o ∈ o :: outs)) by (by left).
      destruct (decide (o ∈ outs)); done.
    + rewrite lookup_insert_ne by done. destruct (g !! m); simpl; [|done]. f_equal.
      destruct (decide (m ∈ outs)); [rewrite decide_True by (by right)|rewrite decide_False by (rewrite elem_of_cons; tauto)]; done.
Qed.

Section stpfold.
  Variables (t0 t1 : string) (bbs : list bbdef).
  Notation stp := (stp t0 t1 bbs). Notation it_driver := (it_driver t0 t1 bbs). Notation views := (views t0 t1 bbs).
  Notation it_uses := (uses t0 t1 bbs).

  Lemma stp_G_None' s it m : sG s !! m = None → m ∉ it_driver it → sG (stp s it) !! m = None.
  Proof. intros HG Hm. unfold FvA3.stp, FvA4.it_driver in *. destruct it; try done; cbn [sG]; by rewrite foldl_ins_other. Qed.
  Lemma stp_fold_I items : ∀ s, sI (foldl stp s items) = sI s ∪ list_to_set (items ≫= it_inputs).
  Proof.
    induction items as [|it items IH]; intros s; cbn [foldl]; [set_solver|]. rewrite IH, bind_cons, list_to_set_app_L.
    assert (sI (stp s it) = sI s ∪ list_to_set (it_inputs it)) as ->; [|set_solver].
    unfold FvA3.stp, it_inputs. destruct it; cbn [sI]; set_solver.
  Qed.
  Lemma stp_fold_U items : ∀ s, sU (foldl stp s items) = sU s ∪ list_to_set (items ≫= it_uses).
  Proof.
    induction items as [|it items IH]; intros s; cbn [foldl]; [set_solver|]. rewrite IH, bind_cons, list_to_set_app_L.
    assert (sU (stp s it) = sU s ∪ list_to_set (it_uses it)) as ->; [|set_solver].
    unfold FvA3.stp. destruct it; cbn [sU]; try done. cbn [FvA3.uses]. set_solver.
  Qed.
  Lemma stp_fold_G items : ∀ s o v, NoDup (items ≫= it_driver) → (∀ d, d ∈ items ≫= it_driver → sG s !! d = None) →
    sG (foldl stp s items) !! o = Some v ↔ sG s !! o = Some v ∨ ∃ it, it ∈ items ∧ (o, v) ∈ views it.
  Proof.
    induction items as [|it items IH]; intros s o v Hnd Hfresh; cbn [foldl].
    - split; [auto|]. intros [?|(it & Hit & _)]; [done|]. by apply elem_of_nil in Hit.
    - rewrite bind_cons in Hnd. apply NoDup_app in Hnd as (Hnd1 & Hnd12 & Hnd2). rewrite IH; [|done|].
      + assert (Hs : sG (stp s it) !! o = Some v ↔ sG s !! o = Some v ∨ (o, v) ∈ views it).
        { assert (Hgen : foldl (λ G e, <[e.1 := e.2]> G) (sG s) (views it) !! o = Some v ↔ sG s !! o = Some v ∨ (o, v) ∈ views it).
          { destruct (decide (o ∈ fst <$> views it)) as [Hk|Hk].
            - apply elem_of_list_fmap in Hk as ([k v'] & -> & Hkv). cbn [fst]. rewrite (foldl_ins_in (views it) (sG s) k v' Hnd1 Hkv). split.
              + intros [= ->]. by right.
              + intros [H|Hin]; [rewrite Hfresh in H; [done|]; rewrite bind_cons; apply elem_of_app; left; apply elem_of_list_fmap; by exists (k, v')|].
                f_equal. by eapply nodup_fst_fun.
            - rewrite foldl_ins_other by done. split; [auto|]. intros [?|Hin]; [done|]. exfalso. apply Hk. apply elem_of_list_fmap. by exists (o, v). }
          unfold FvA3.stp. destruct it; cbn [sG]; exact Hgen. }
        rewrite Hs. split.
        * intros [[?|?]|(it' & ? & ?)]; [auto|right; exists it; split; [by left|done]|right; exists it'; split; [by right|done]].
        * intros [?|(it' & [->|?]%elem_of_cons & ?)]; [auto|auto|right; eauto].
      + intros d Hd. apply stp_G_None'; [apply Hfresh; rewrite bind_cons; apply elem_of_app; by right|]. intros Hx. by apply (Hnd12 d).
  Qed.
End stpfold.
