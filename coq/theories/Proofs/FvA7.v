(* C14 phase 2: agreement of the two reader models on modules without blackbox instances (part A7) *)
From stdpp Require Import strings gmap sets pretty.
From CG Require Import Model.FastVerilog Proofs.FastVerilogProofs Gen.Gen_fastv.
From CG Require Import Proofs.FvA0 Proofs.FvA1 Proofs.FvA2 Proofs.FvA3 Proofs.FvA4 Proofs.FvA5 Proofs.FvA6.
Open Scope string_scope.

Lemma set_output_lookup outs : ∀ g, (∀ o, o ∈ outs → o ∈ dom g) →
  ∃ g', set_output_g g outs true = (g', Done) ∧
        ∀ m, g' !! m = (λ i, if decide (m ∈ outs) then set_out true i else i) <$> g !! m.
Proof.
  unfold set_output_g. induction outs as [|o outs IH]; intros g H; cbn [foldl].
  - exists g. split; [done|]. intros m. destruct (g !! m); simpl; [|done]. destruct (decide (m ∈ [])) as [H'|]; [by apply elem_of_nil in H'|done].
  - assert (Ho : o ∈ dom g) by (apply H; by left). apply elem_of_dom in Ho as [i Hi]. rewrite Hi.
    destruct (IH (<[o := set_out true i]> g)) as (g' & -> & Hg').
    { intros o' Ho'. rewrite dom_insert. apply elem_of_union_r. apply H. by right. }
    exists g'. split; [done|]. intros m. rewrite Hg'. destruct (decide (m = o)) as [->|Hmo].
    + rewrite lookup_insert, Hi. simpl. rewrite (decide_True (P := o ∈ o :: outs)) by (by left).
      destruct (decide (o ∈ outs)); done.
    + rewrite lookup_insert_ne by done. destruct (g !! m); simpl; [|done]. f_equal.
      destruct (decide (m ∈ outs)); [rewrite decide_True by (by right)|rewrite decide_False by (rewrite elem_of_cons; tauto)]; done.
Qed.

Section stpfold.
  Variables (t0 t1 : string).
  Notation stp := (stp t0 t1). Notation it_driver := (it_driver t0 t1). Notation gate_view := (gate_view t0 t1).
  Definition it_uses (it : item) : list string := match gate_view it with Some (_, (_, fis)) => fis | None => [] end.

  Lemma stp_G_None' s it m : sG s !! m = None → m ∉ it_driver it → sG (stp s it) !! m = None.
  Proof.
    intros HG Hm. unfold FvA3.stp, FvA4.it_driver in *. destruct it; try done; destruct (FvA3.gate_view t0 t1 _) as [[o [t' fis]]|]; try done;
      cbn [sG]; rewrite lookup_insert_ne; [done|set_solver|done|set_solver].
  Qed.
  Lemma stp_fold_I items : ∀ s, sI (foldl stp s items) = sI s ∪ list_to_set (items ≫= it_inputs).
  Proof.
    induction items as [|it items IH]; intros s; cbn [foldl]; [set_solver|]. rewrite IH, bind_cons, list_to_set_app_L.
    assert (sI (stp s it) = sI s ∪ list_to_set (it_inputs it)) as ->; [|set_solver].
    unfold FvA3.stp, it_inputs. destruct it; try (destruct (FvA3.gate_view t0 t1 _) as [[o [t' fis]]|]; cbn [sI]; set_solver). done.
  Qed.
  Lemma stp_fold_U items : ∀ s, sU (foldl stp s items) = sU s ∪ list_to_set (items ≫= it_uses).
  Proof.
    induction items as [|it items IH]; intros s; cbn [foldl]; [set_solver|]. rewrite IH, bind_cons, list_to_set_app_L.
    assert (sU (stp s it) = sU s ∪ list_to_set (it_uses it)) as ->; [|set_solver].
    unfold FvA3.stp, it_uses. destruct it; try (destruct (FvA3.gate_view t0 t1 _) as [[o [t' fis]]|]; cbn [sU]; set_solver). cbn [FvA3.gate_view sU]. set_solver.
  Qed.
  Lemma stp_fold_G items : ∀ s o v, NoDup (items ≫= it_driver) → (∀ d, d ∈ items ≫= it_driver → sG s !! d = None) →
    sG (foldl stp s items) !! o = Some v ↔ sG s !! o = Some v ∨ ∃ it, it ∈ items ∧ gate_view it = Some (o, v).
  Proof.
    induction items as [|it items IH]; intros s o v Hnd Hfresh; cbn [foldl].
    - split; [auto|]. intros [?|(it & Hit & _)]; [done|]. by apply elem_of_nil in Hit.
    - rewrite bind_cons in Hnd. apply NoDup_app in Hnd as (Hnd1 & Hnd12 & Hnd2). rewrite IH; [|done|].
      + assert (Hs : sG (stp s it) !! o = Some v ↔ sG s !! o = Some v ∨ gate_view it = Some (o, v)).
        { unfold FvA3.stp. destruct it as [ns|ns|ns|t inst ops|l r|bb inst conns]; try (cbn [FvA3.gate_view]; split; [auto|]; intros [?|?]; done).
          - destruct (FvA3.gate_view t0 t1 (IGate t inst ops)) as [[o' [t' fis]]|] eqn:E; [|split; [auto|]; intros [?|?]; done].
            cbn [sG]. rewrite lookup_insert_Some. split.
            + intros [[-> <-]|[_ ?]]; auto.
            + intros [H|[= -> ->]]; [|auto]. right. split; [|done]. intros ->.
              rewrite Hfresh in H; [done|]. rewrite bind_cons. apply elem_of_app. left. unfold FvA4.it_driver. rewrite E. by left.
          - destruct (FvA3.gate_view t0 t1 (IAssign l r)) as [[o' [t' fis]]|] eqn:E; [|split; [auto|]; intros [?|?]; done].
            cbn [sG]. rewrite lookup_insert_Some. split.
            + intros [[-> <-]|[_ ?]]; auto.
            + intros [H|[= -> ->]]; [|auto]. right. split; [|done]. intros ->.
              rewrite Hfresh in H; [done|]. rewrite bind_cons. apply elem_of_app. left. unfold FvA4.it_driver. rewrite E. by left. }
        rewrite Hs. split.
        * intros [[?|?]|(it' & ? & ?)]; [auto|right; exists it; split; [by left|done]|right; exists it'; split; [by right|done]].
        * intros [?|(it' & [->|?]%elem_of_cons & ?)]; [auto|auto|right; eauto].
      + intros d Hd. apply stp_G_None'; [apply Hfresh; rewrite bind_cons; apply elem_of_app; by right|]. intros Hx. by apply (Hnd12 d).
  Qed.
End stpfold.
