(* C14 phase 2: agreement of the two reader models on the documented subset (part A8) *)
From stdpp Require Import strings gmap sets pretty.
From CG Require Import Model.FastVerilog Proofs.FastVerilogProofs Gen.Gen_fastv.
From CG Require Import Proofs.FvA0 Proofs.FvA1 Proofs.FvA2 Proofs.FvP1 Proofs.FvE1 Proofs.FvE2 Proofs.FvE3 Proofs.FvE4 Proofs.FvA3 Proofs.FvE5 Proofs.FvE6 Proofs.FvE7 Proofs.FvA4 Proofs.FvA5 Proofs.FvA6 Proofs.FvA7.
Open Scope string_scope.

Record subset_facts (a : ast) (bbs : list bbdef) : Prop := {
  sf_items : forallb (item_ok bbs) (a_items a) = true;
  sf_ident : ∀ s, s ∈ idents a → is_ident s = true;
  sf_nodup : NoDup (a_items a ≫= item_drivers bbs);
  sf_drv_in : ∀ d, d ∈ a_items a ≫= item_drivers bbs → d ∉ decl_inputs a;
  sf_outs : ∀ o, o ∈ decl_outputs a → o ∈ a_items a ≫= item_drivers bbs ∨ o ∈ decl_inputs a;
  sf_uses : ∀ u, u ∈ a_items a ≫= item_uses bbs → u ∈ a_items a ≫= item_drivers bbs ∨ u ∈ decl_inputs a;
  sf_bbs : NoDup (bb_name <$> bbs);
  sf_insts : NoDup (inst_names a);
  sf_ports : (list_to_set (a_ports a) : gset string) = list_to_set (decl_inputs a) ∪ list_to_set (decl_outputs a) }.

Lemma in_subset_facts a bbs : in_subset a bbs = true → subset_facts a bbs.
Proof.
  unfold in_subset. intros H. rewrite !andb_true_iff in H.
  destruct H as (((((((((((H1 & H2) & H3) & H4) & H5) & H6) & H7) & H8) & H9) & H10) & H11) & H12).
  apply bool_decide_eq_true in H3, H4, H7, H8, H9, H10, H12.
  split; try done.
  - intros s Hs. rewrite forallb_forall in H2. specialize (H2 s).
    rewrite <- elem_of_list_In, elem_of_elements in H2. apply H2 in Hs. by apply andb_true_iff in Hs as [? _].
  - intros d Hd Hi. apply (H8 d); by apply elem_of_list_to_set.
  - intros o Ho. specialize (H9 o). rewrite elem_of_union, !elem_of_list_to_set in H9. auto.
  - intros u Hu. specialize (H10 u). rewrite elem_of_union, !elem_of_list_to_set in H10. auto.
Qed.
