(* C14 phase 2: agreement of the two reader models on the documented subset (part A9) *)
From stdpp Require Import strings gmap sets pretty.
From CG Require Import Model.FastVerilog Proofs.FastVerilogProofs Gen.Gen_fastv.
From CG Require Import Proofs.FvA0 Proofs.FvA1 Proofs.FvA2 Proofs.FvP1 Proofs.FvE1 Proofs.FvE2 Proofs.FvE3 Proofs.FvE4 Proofs.FvA3 Proofs.FvE5 Proofs.FvE6 Proofs.FvE7 Proofs.FvA4 Proofs.FvA5 Proofs.FvA6 Proofs.FvA7 Proofs.FvA8.
Open Scope string_scope.

Lemma item_ok_gate bbs t inst ops : item_ok bbs (IGate t inst ops) = true →
  ∃ o ins, ops = ONet o :: ins ∧ t ∈ primitive_gates ∧ forallb const_ok ins = true ∧ (t ∈ add_single_fanin → length ins ≤ 1).
Proof.
  cbn [item_ok]. rewrite !andb_true_iff. intros ((((Hp & Hlen) & Hc) & Hhd) & Hs).
  destruct ops as [|[o|o] ins]; try done. exists o, ins. split; [done|]. unfold is_prim in Hp. apply bool_decide_eq_true in Hp.
  split; [done|]. cbn [forallb] in Hc. apply andb_true_iff in Hc as [_ Hc]. split; [done|].
  intros Hsf. rewrite (bool_decide_eq_true_2 _ Hsf) in Hs. apply bool_decide_eq_true in Hs. simpl in Hs. lia.
Qed.

Lemma item_ok_inst bbs bb inst conns : item_ok bbs (IInst bb inst conns) = true →
  ∃ d, find_bb_first bbs bb = Some d ∧ NoDup (fst <$> conns) ∧ bb_in d ## bb_out d ∧
    ∀ p o, (p, o) ∈ conns → (p ∈ bb_in d ∨ p ∈ bb_out d) ∧ ∀ o', o = Some o' → const_ok o' = true ∧ (p ∉ bb_in d → is_net o' = true).
Proof.
  cbn [item_ok]. destruct (find_bb_first bbs bb) as [d|]; [|done]. rewrite !andb_true_iff. intros (((_ & Hnd) & Hall) & Hdisj).
  apply bool_decide_eq_true in Hnd, Hdisj. exists d. split; [done|]. split; [done|]. split; [set_solver|].
  intros p o Hin. rewrite forallb_forall in Hall. specialize (Hall (p, o)). rewrite <- elem_of_list_In in Hall. specialize (Hall Hin). cbn [fst snd] in Hall.
  apply andb_true_iff in Hall as [Hp Ho]. split.
  - apply orb_true_iff in Hp as [?%bool_decide_eq_true|?%bool_decide_eq_true]; auto.
  - intros o' ->. apply andb_true_iff in Ho as [Hc Hn]. split; [done|]. intros Hpi. apply orb_true_iff in Hn as [?|?%bool_decide_eq_true]; done.
Qed.
Lemma NoDup_bind_elem {A} (f : A → list string) (l : list A) x : NoDup (l ≫= f) → x ∈ l → NoDup (f x).
Proof.
  induction l as [|y l IH]; intros Hnd Hx; [by apply elem_of_nil in Hx|]. rewrite bind_cons in Hnd. apply NoDup_app in Hnd as (H1 & _ & H3).
  apply elem_of_cons in Hx as [->|Hx]; [done|by apply IH].
Qed.

Section derive.
  Variables (a : ast) (bbs : list bbdef) (t0 t1 tx : string).
  Hypothesis HF : subset_facts a bbs.
  Hypothesis Hfresh : t0 ∉ idents a ∧ t1 ∉ idents a ∧ tx ∉ idents a.
  Notation it_driver := (it_driver t0 t1 bbs). Notation good := (good t0 t1 tx bbs). Notation views := (views t0 t1 bbs).

  Lemma ident_facts s : s ∈ idents a → netok s ∧ ¬ tie t0 t1 tx s.
  Proof.
    intros Hs. pose proof (sf_ident a bbs HF s Hs) as Hi. split; [split; [by apply is_ident_okname|by apply ident_not_dotted]|]. unfold tie. destruct Hfresh as (? & ? & ?).
    intros [Hx|[Hx|Hx]]; subst s; done.
  Qed.
  Lemma item_ok_of it : it ∈ a_items a → item_ok bbs it = true.
  Proof. intros Hit. pose proof (sf_items a bbs HF) as H. rewrite forallb_forall in H. apply H. by apply elem_of_list_In. Qed.

  Lemma good_of it : it ∈ a_items a → good it.
  Proof.
    intros Hit. pose proof (item_ok_of it Hit) as Hok.
    destruct it as [ns|ns|ns|t inst ops|l r|bb inst conns]; cbn [FvA4.good]; try done.
    - intros n Hn'. apply ident_facts. eapply idents_item; [exact Hit|done].
    - destruct (item_ok_gate _ _ _ _ Hok) as (o & ins & -> & Ht & Hc & Hs). exists o, ins. split; [done|]. split; [done|]. split; [done|]. split; [done|].
      assert (Ho : o ∈ idents a). { eapply idents_item; [exact Hit|]. cbn [item_ids]. right. rewrite bind_cons. apply elem_of_app. left. by left. }
      destruct (ident_facts o Ho). split; [done|]. split; [done|]. intros s Hs'. apply ident_facts. eapply idents_item; [exact Hit|].
      cbn [item_ids]. right. rewrite bind_cons. apply elem_of_app. right. apply elem_of_list_bind. exists (ONet s). split; [by left|done].
    - cbn [item_ok] in Hok. split; [done|].
      assert (Hl : l ∈ idents a). { eapply idents_item; [exact Hit|]. by left. }
      destruct (ident_facts l Hl). split; [done|]. split; [done|]. intros s ->. apply ident_facts. eapply idents_item; [exact Hit|]. right. by left.
    - destruct (item_ok_inst _ _ _ _ Hok) as (d & Hfirst & Hnd & Hdisj & Hc). exists d. split; [done|].
      split; [rewrite find_bb_first_last; [done|apply (sf_bbs a bbs HF)]|].
      assert (Hi : inst ∈ idents a). { eapply idents_item; [exact Hit|]. right. by left. }
      split; [by destruct (ident_facts inst Hi)|]. split; [done|]. split; [done|]. split; [intros p o Hin; by destruct (Hc p o Hin)|].
      intros p o Hin. destruct (Hc p (Some o) Hin) as [_ Ho]. destruct (Ho o eq_refl) as [H1 H2]. split; [done|]. split; [done|].
      intros s ->. apply ident_facts. eapply idents_item; [exact Hit|]. cbn [item_ids]. right. right. apply elem_of_list_bind. exists (p, Some (ONet s)). split; [|done].
      cbn [fst snd from_option opd_ids]. right. by left.
  Qed.

  (* keys of a statement: the nets it drives (undotted) and, for an instance, its pins (dotted) *)
  Lemma nm_net s : nm t0 t1 (ONet s) = s. Proof. done. Qed.
  Lemma outnets_eq d inst conns : item_ok bbs (IInst d inst conns) = true → ∀ dd, find_bb_first bbs d = Some dd →
    snd <$> filter (λ c : string * string, c.1 ∉ bb_in dd) (conn_dict t0 t1 conns) = item_drivers bbs (IInst d inst conns).
  Proof.
    intros Hok dd Hfirst. destruct (item_ok_inst _ _ _ _ Hok) as (d' & Hf' & _ & Hdisj & Hc). rewrite Hfirst in Hf'. injection Hf' as <-.
    cbn [item_drivers]. rewrite Hfirst. clear Hok.
    induction conns as [|[p [o|]] conns IH]; [done| |].
    - rewrite conn_dict_cons_some, filter_cons, bind_cons. cbn [fst snd].
      destruct (Hc p (Some o)) as [Hp Ho]; [by left|]. destruct (Ho o eq_refl) as [_ Hn].
      destruct (decide (p ∉ bb_in dd)) as [Hpi|Hpi].
      + specialize (Hn Hpi). destruct o as [s|s]; [|done]. rewrite bool_decide_eq_true_2 by (destruct Hp; done). rewrite fmap_cons. cbn [snd FvA3.nm]. f_equal. apply IH. intros; apply Hc; by right.
      + assert (Hpi' : p ∈ bb_in dd) by (destruct (decide (p ∈ bb_in dd)); done). assert (p ∉ bb_out dd) by set_solver.
        destruct o as [s|s]; [rewrite bool_decide_eq_false_2 by done|]; simpl; apply IH; intros; apply Hc; by right.
    - rewrite conn_dict_cons_none, bind_cons. simpl. apply IH. intros; apply Hc; by right.
  Qed.
  Lemma keys_split it k : it ∈ a_items a → k ∈ it_driver it →
    (dotted k = false ∧ k ∈ item_drivers bbs it) ∨ (dotted k = true ∧ ∃ bb inst conns p, it = IInst bb inst conns ∧ k = pin inst p).
  Proof.
    intros Hit Hk. pose proof (item_ok_of it Hit) as Hok. pose proof (good_of it Hit) as Hg. unfold FvA4.it_driver in Hk.
    destruct it as [ns|ns|ns|t inst ops|l r|bb inst conns]; cbn [FvA3.views FvA3.gate_view] in Hk; try (by apply elem_of_nil in Hk).
    - destruct Hg as (o & ins & -> & _ & _ & _ & [_ Hod] & _). cbn [FvA3.gate_view fmap list_fmap fst] in Hk. apply elem_of_list_singleton in Hk as ->.
      left. split; [done|]. by left.
    - destruct Hg as (_ & [_ Hod] & _). cbn [fmap list_fmap fst] in Hk. apply elem_of_list_singleton in Hk as ->. left. split; [done|]. by left.
    - destruct Hg as (d & Hfirst & _ & _ & _ & _ & _ & Hcs). rewrite Hfirst in Hk. unfold FvA3.inst_views in Hk. rewrite fmap_app, <- !list_fmap_compose in Hk. apply elem_of_app in Hk as [Hk|Hk].
      + apply elem_of_list_fmap in Hk as ([p t] & -> & _). right. split; [apply pin_dotted|]. eauto 6.
      + assert (Hk' : k ∈ snd <$> filter (λ c : string * string, c.1 ∉ bb_in d) (conn_dict t0 t1 conns)).
        { apply elem_of_list_fmap in Hk as (c & -> & Hc). apply elem_of_list_fmap. eauto. }
        left. split; [|by rewrite <- (outnets_eq bb inst conns Hok d Hfirst)].
        apply elem_of_list_fmap in Hk' as ([p n] & -> & [Hpi Hin]%elem_of_list_filter). cbn [fst snd] in *.
        apply conn_dict_elem in Hin as (o & Hin & ->). destruct (Hcs p o Hin) as (_ & Hnet & Hs). specialize (Hnet Hpi).
        destruct o as [s|s]; [|done]. by destruct (Hs s eq_refl) as [[_ ?] _].
  Qed.
  Lemma drivers_sub it k : it ∈ a_items a → k ∈ item_drivers bbs it → k ∈ it_driver it.
  Proof.
    intros Hit Hk. pose proof (item_ok_of it Hit) as Hok. pose proof (good_of it Hit) as Hg. unfold FvA4.it_driver.
    destruct it as [ns|ns|ns|t inst ops|l r|bb inst conns]; try (by apply elem_of_nil in Hk).
    - destruct Hg as (o & ins & -> & _). cbn [item_drivers] in Hk. cbn [FvA3.views FvA3.gate_view fmap list_fmap fst]. done.
    - cbn [item_drivers] in Hk. cbn [FvA3.views FvA3.gate_view fmap list_fmap fst]. done.
    - destruct Hg as (d & Hfirst & _). cbn [FvA3.views]. rewrite Hfirst. rewrite <- (outnets_eq bb inst conns Hok d Hfirst) in Hk.
      unfold FvA3.inst_views. rewrite fmap_app. apply elem_of_app. right. rewrite <- list_fmap_compose.
      apply elem_of_list_fmap in Hk as (c & -> & Hc). apply elem_of_list_fmap. eauto.
  Qed.

  Lemma nodup_item_keys it : it ∈ a_items a → NoDup (it_driver it).
  Proof.
    intros Hit. pose proof (item_ok_of it Hit) as Hok. pose proof (good_of it Hit) as Hg. unfold FvA4.it_driver.
    destruct it as [ns|ns|ns|t inst ops|l r|bb inst conns]; cbn [FvA3.views FvA3.gate_view]; try (by constructor).
    - destruct Hg as (o & ins & -> & _). apply NoDup_singleton.
    - apply NoDup_singleton.
    - destruct Hg as (d & Hfirst & _ & _ & Hdisj & _ & _ & Hcs). rewrite Hfirst. unfold FvA3.inst_views. rewrite fmap_app, <- !list_fmap_compose. apply NoDup_app. split; [|split].
      + apply (NoDup_fmap_2_strong _ (pin_list d)); [|by apply NoDup_fmap_1 with fst, pin_list_nodup].
        intros [p t] [p' t'] H1 H2 Heq%pin_inj. simpl in Heq. subst p'. f_equal. by eapply nodup_fst_fun; [apply pin_list_nodup|..].
      + intros k ([p t] & Hk1 & _)%elem_of_list_fmap Hk2. simpl in Hk1. subst k.
        assert (Hkk : pin inst p ∈ it_driver (IInst bb inst conns)).
        { unfold FvA4.it_driver. cbn [FvA3.views]. rewrite Hfirst. unfold FvA3.inst_views. rewrite fmap_app, <- !list_fmap_compose. apply elem_of_app. by right. }
        assert (Hd : dotted (pin inst p) = false).
        { apply elem_of_list_fmap in Hk2 as ([p' n] & Heq & [Hpi Hin]%elem_of_list_filter). cbn [fst snd] in *. rewrite Heq.
          apply conn_dict_elem in Hin as (o & Hin & ->). destruct (Hcs p' o Hin) as (_ & Hnet & Hs). specialize (Hnet Hpi).
          destruct o as [s|s]; [|done]. by destruct (Hs s eq_refl) as [[_ ?] _]. }
        by rewrite pin_dotted in Hd.
      + match goal with |- NoDup (?f <$> ?L) => replace (f <$> L) with (snd <$> L) by (apply list_fmap_ext; done) end.
        rewrite (outnets_eq bb inst conns Hok d Hfirst). apply (NoDup_bind_elem _ (a_items a)); [apply (sf_nodup a bbs HF)|done].
  Qed.
  Lemma insts_sub it i : i ∈ it_insts it → i ∈ (λ it, match it with IGate _ i _ | IInst _ i _ => [i] | _ => [] end) it.
  Proof. destruct it; cbn [it_insts]; intros H; try (by apply elem_of_nil in H). done. Qed.
  Lemma nodup_keys : NoDup (a_items a ≫= it_driver).
  Proof.
    apply NoDup_bind_pos; [intros; by apply nodup_item_keys|].
    intros i j x y k Hij Hi Hj Hkx Hky.
    assert (Hx : x ∈ a_items a) by by eapply elem_of_list_lookup_2. assert (Hy : y ∈ a_items a) by by eapply elem_of_list_lookup_2.
    destruct (keys_split x k Hx Hkx) as [[Hd1 Hk1]|[Hd1 (bb1 & i1 & c1 & p1 & Ex & Ek1)]], (keys_split y k Hy Hky) as [[Hd2 Hk2]|[Hd2 (bb2 & i2 & c2 & p2 & Ey & Ek2)]]; try congruence.
    - by apply (NoDup_bind_inv (item_drivers bbs) (a_items a) i j x y k (sf_nodup a bbs HF)).
    - subst x y. destruct (good_of _ Hx) as (d1 & _ & _ & [_ Hn1] & _). destruct (good_of _ Hy) as (d2 & _ & _ & [_ Hn2] & _).
      rewrite Ek1 in Ek2. apply pin_inj2 in Ek2 as [-> _]; [|done|done].
      apply (NoDup_bind_inv (λ it, match it with IGate _ i _ | IInst _ i _ => [i] | _ => [] end) (a_items a) i j _ _ i2 (sf_insts a bbs HF) Hij Hi Hj); by left.
  Qed.
  Lemma nodup_insts : NoDup (a_items a ≫= it_insts).
  Proof.
    apply NoDup_bind_pos; [intros x _; destruct x; cbn [it_insts]; try apply NoDup_nil_2; apply NoDup_singleton|].
    intros i j x y k Hij Hi Hj Hkx Hky.
    apply (NoDup_bind_inv (λ it, match it with IGate _ i _ | IInst _ i _ => [i] | _ => [] end) (a_items a) i j x y k (sf_insts a bbs HF) Hij Hi Hj); by apply insts_sub.
  Qed.
  Lemma inputs_eq : a_items a ≫= it_inputs = decl_inputs a.
  Proof. unfold decl_inputs. induction (a_items a) as [|it l IH]; [done|]. rewrite !bind_cons, IH. by destruct it. Qed.
  Lemma key_not_input k : k ∈ a_items a ≫= it_driver → k ∉ decl_inputs a.
  Proof.
    intros (it & Hk & Hit)%elem_of_list_bind Hin. destruct (keys_split it k Hit Hk) as [[_ Hd]|[Hd _]].
    - apply (sf_drv_in a bbs HF k); [|done]. apply elem_of_list_bind. eauto.
    - assert (Hi : k ∈ idents a).
      { unfold decl_inputs in Hin. apply elem_of_list_bind in Hin as (it' & Hi & Hit'). eapply idents_item; [exact Hit'|]. destruct it'; try (by apply elem_of_nil in Hi). done. }
      destruct (ident_facts k Hi) as [[_ Hx] _]. congruence.
  Qed.

  (* every operand of a normalised statement is a tie or a net the guard knows as used *)
  Lemma uses_sub it u : it ∈ a_items a → u ∈ uses t0 t1 bbs it → u = t0 ∨ u = t1 ∨ u ∈ item_uses bbs it.
  Proof.
    intros Hit Hu. pose proof (item_ok_of it Hit) as Hok. pose proof (good_of it Hit) as Hg.
    destruct it as [ns|ns|ns|t inst ops|l r|bb inst conns]; cbn [FvA3.uses FvA3.gate_view] in Hu; try (by apply elem_of_nil in Hu).
    - destruct (item_ok_gate _ _ _ _ Hok) as (o & ins & -> & _). cbn [FvA3.gate_view item_uses] in *.
      assert (Hsub : u = t0 ∨ u = t1 ∨ u ∈ nm t0 t1 <$> ins).
      { unfold norm in Hu. destruct (is_parity t); [|auto]. case_bool_decide; cbn [snd] in Hu.
        - apply elem_of_list_singleton in Hu as ->. case_bool_decide; auto.
        - apply cancel_sub in Hu. auto. }
      destruct Hsub as [?|[?|Hsub]]; [auto|auto|]. apply elem_of_list_fmap in Hsub as (x & -> & Hx).
      destruct x as [s|s]; cbn [nm]; [|case_bool_decide; auto]. right. right. apply elem_of_list_bind. exists (ONet s). split; [by left|done].
    - cbn [snd item_uses] in *. apply elem_of_list_singleton in Hu as ->. destruct r as [s|s]; cbn [nm opd_ids]; [right; right; by left|case_bool_decide; auto].
    - destruct Hg as (d & Hfirst & _). rewrite Hfirst in Hu. cbn [item_uses]. rewrite Hfirst.
      apply elem_of_list_fmap in Hu as ([p n] & -> & [Hpi Hin]%elem_of_list_filter). cbn [fst snd] in *.
      apply conn_dict_elem in Hin as (o & Hin & ->). destruct o as [s|s]; cbn [nm]; [|case_bool_decide; auto].
      right. right. apply elem_of_list_bind. exists (p, Some (ONet s)). split; [|done]. cbn [fst snd]. rewrite bool_decide_eq_true_2 by done. by left.
  Qed.
End derive.
