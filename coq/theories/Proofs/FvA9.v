(* C14 phase 2: agreement of the two reader models on modules without blackbox instances (part A9) *)
From stdpp Require Import strings gmap sets pretty.
From CG Require Import Model.FastVerilog Proofs.FastVerilogProofs Gen.Gen_fastv.
From CG Require Import Proofs.FvA0 Proofs.FvA1 Proofs.FvA2 Proofs.FvA3 Proofs.FvA4 Proofs.FvA5 Proofs.FvA6 Proofs.FvA7 Proofs.FvA8.
Open Scope string_scope.

Lemma item_ok_gate bbs t inst ops : item_ok bbs (IGate t inst ops) = true →
  ∃ o ins, ops = ONet o :: ins ∧ t ∈ primitive_gates ∧ forallb const_ok ins = true ∧ (t ∈ add_single_fanin → length ins ≤ 1).
Proof.
  cbn [item_ok]. rewrite !andb_true_iff. intros ((((Hp & Hlen) & Hc) & Hhd) & Hs).
  destruct ops as [|[o|o] ins]; try done. exists o, ins. split; [done|]. unfold is_prim in Hp. apply bool_decide_eq_true in Hp.
  split; [done|]. cbn [forallb] in Hc. apply andb_true_iff in Hc as [_ Hc]. split; [done|].
  intros Hsf. rewrite (bool_decide_eq_true_2 _ Hsf) in Hs. apply bool_decide_eq_true in Hs. simpl in Hs. lia.
Qed.

Section derive.
  Variables (a : ast) (bbs : list bbdef) (t0 t1 tx : string).
  Hypothesis HF : subset_facts a bbs.
  Hypothesis Hni : no_inst a = true.
  Hypothesis Hfresh : t0 ∉ idents a ∧ t1 ∉ idents a ∧ tx ∉ idents a.

  Lemma ident_facts s : s ∈ idents a → okname s ∧ ¬ tie t0 t1 tx s.
  Proof.
    intros Hs. split; [apply is_ident_okname, (sf_ident a bbs HF), Hs|]. unfold tie. destruct Hfresh as (? & ? & ?).
    intros [Hx|[Hx|Hx]]; subst s; done.
  Qed.
  Lemma not_inst it : it ∈ a_items a → match it with IInst _ _ _ => False | _ => True end.
  Proof.
    intros Hit. unfold no_inst in Hni. rewrite forallb_forall in Hni. specialize (Hni it). rewrite <- elem_of_list_In in Hni.
    specialize (Hni Hit). by destruct it.
  Qed.
  Lemma item_ok_of it : it ∈ a_items a → item_ok bbs it = true.
  Proof. intros Hit. pose proof (sf_items a bbs HF) as H. rewrite forallb_forall in H. apply H. by apply elem_of_list_In. Qed.

  Lemma good_of it : it ∈ a_items a → good t0 t1 tx it.
  Proof.
    intros Hit. pose proof (not_inst it Hit) as Hn. pose proof (item_ok_of it Hit) as Hok.
    destruct it as [ns|ns|ns|t inst ops|l r|bb inst conns]; cbn [good]; try done.
    - intros n Hn'. apply ident_facts. eapply idents_item; [exact Hit|done].
    - destruct (item_ok_gate _ _ _ _ Hok) as (o & ins & -> & Ht & Hc & Hs). exists o, ins. split; [done|]. split; [done|]. split; [done|]. split; [done|].
      assert (Ho : o ∈ idents a). { eapply idents_item; [exact Hit|]. cbn [item_ids]. right. rewrite bind_cons. apply elem_of_app. left. by left. }
      destruct (ident_facts o Ho). split; [done|]. split; [done|]. intros s Hs'. apply ident_facts. eapply idents_item; [exact Hit|].
      cbn [item_ids]. right. rewrite bind_cons. apply elem_of_app. right. apply elem_of_list_bind. exists (ONet s). split; [by left|done].
    - cbn [item_ok] in Hok. split; [done|].
      assert (Hl : l ∈ idents a). { eapply idents_item; [exact Hit|]. by left. }
      destruct (ident_facts l Hl). split; [done|]. split; [done|]. intros s ->. apply ident_facts. eapply idents_item; [exact Hit|]. right. by left.
  Qed.

  Lemma driver_eq it : it ∈ a_items a → item_drivers bbs it = it_driver t0 t1 it.
  Proof.
    intros Hit. pose proof (not_inst it Hit) as Hn. pose proof (item_ok_of it Hit) as Hok.
    destruct it as [ns|ns|ns|t inst ops|l r|bb inst conns]; try done.
    destruct (item_ok_gate _ _ _ _ Hok) as (o & ins & -> & _). done.
  Qed.
  Lemma drivers_eq : a_items a ≫= item_drivers bbs = a_items a ≫= it_driver t0 t1.
  Proof.
    assert (H : ∀ l, (∀ it, it ∈ l → it ∈ a_items a) → l ≫= item_drivers bbs = l ≫= it_driver t0 t1).
    { induction l as [|it l IH]; intros Hl; [done|]. rewrite !bind_cons, IH by (intros; apply Hl; by right). f_equal. apply driver_eq, Hl. by left. }
    by apply H.
  Qed.
  Lemma inputs_eq : a_items a ≫= it_inputs = decl_inputs a.
  Proof. unfold decl_inputs. induction (a_items a) as [|it l IH]; [done|]. rewrite !bind_cons, IH. by destruct it. Qed.

  (* every operand of a normalised gate is a tie or a net the guard knows as used *)
  Lemma uses_sub it u : it ∈ a_items a → u ∈ it_uses t0 t1 it → u = t0 ∨ u = t1 ∨ u ∈ item_uses bbs it.
  Proof.
    intros Hit Hu. pose proof (not_inst it Hit) as Hn. pose proof (item_ok_of it Hit) as Hok. unfold it_uses in Hu.
    destruct it as [ns|ns|ns|t inst ops|l r|bb inst conns]; cbn [gate_view] in Hu; try (by apply elem_of_nil in Hu).
    - destruct (item_ok_gate _ _ _ _ Hok) as (o & ins & -> & _). cbn [gate_view item_uses] in *.
      assert (Hsub : u = t0 ∨ u = t1 ∨ u ∈ nm t0 t1 <$> ins).
      { unfold norm in Hu. destruct (is_parity t); [|auto]. case_bool_decide; cbn [snd] in Hu.
        - apply elem_of_list_singleton in Hu as ->. case_bool_decide; auto.
        - apply cancel_sub in Hu. auto. }
      destruct Hsub as [?|[?|Hsub]]; [auto|auto|]. apply elem_of_list_fmap in Hsub as (x & -> & Hx).
      destruct x as [s|s]; cbn [nm]; [|case_bool_decide; auto]. right. right. apply elem_of_list_bind. exists (ONet s). split; [by left|done].
    - cbn [snd item_uses] in *. apply elem_of_list_singleton in Hu as ->. destruct r as [s|s]; cbn [nm opd_ids]; [right; right; by left|case_bool_decide; auto].
  Qed.
End derive.
