(* C14 phase 2: agreement of the two reader models on the documented subset (part B1) *)
From stdpp Require Import strings gmap sets pretty.
From CG Require Import Model.FastVerilog Proofs.FastVerilogProofs Gen.Gen_fastv.
From CG Require Import Proofs.FvA0 Proofs.FvA1 Proofs.FvA2 Proofs.FvP1 Proofs.FvE1 Proofs.FvE2 Proofs.FvE3 Proofs.FvE4 Proofs.FvA3 Proofs.FvE5 Proofs.FvE6 Proofs.FvE7 Proofs.FvA4 Proofs.FvA5 Proofs.FvA6 Proofs.FvA7 Proofs.FvA8 Proofs.FvA9.
Open Scope string_scope.

(* ---- the fast reader's scans on good items, as exact lists *)
Section fastscan.
  Variables (t0 t1 : string) (bbs : list bbdef).
  Notation nm := (nm t0 t1). Notation gate_view := (gate_view t0 t1). Notation views := (views t0 t1 bbs).

  Lemma fast_gate_opd_nm o : const_ok o = true → (∀ s, o = ONet s → is_ident s = true) → fast_gate_opd t0 t1 o = nm o.
  Proof.
    intros Hc Hi. destruct o as [s|s]; [apply ident_gate_opd; auto|]. simpl in Hc. unfold fast_gate_opd. cbn [opd_text FvA3.nm].
    apply orb_true_iff in Hc as [->%bool_decide_eq_true| ->%bool_decide_eq_true]; vm_compute; done.
  Qed.
  Lemma fast_assign_opd_nm o : const_ok o = true → (∀ s, o = ONet s → is_ident s = true) → fast_assign_opd t0 t1 o = nm o.
  Proof.
    intros Hc Hi. destruct o as [s|s].
    - specialize (Hi s eq_refl). unfold fast_assign_opd. cbn [opd_text FvA3.nm].
      repeat case_bool_decide; try done; exfalso.
      + unfold fast_assign_c0 in *. repeat (match goal with H : _ ∈ _ :: _ |- _ => apply elem_of_cons in H as [->|H] end); try (vm_compute in Hi; discriminate). by apply elem_of_nil in H.
      + unfold fast_assign_c1 in *. repeat (match goal with H : _ ∈ _ :: _ |- _ => apply elem_of_cons in H as [->|H] end); try (vm_compute in Hi; discriminate). by apply elem_of_nil in H0.
    - simpl in Hc. unfold fast_assign_opd. cbn [opd_text FvA3.nm].
      apply orb_true_iff in Hc as [->%bool_decide_eq_true| ->%bool_decide_eq_true]; vm_compute; done.
  Qed.

  Definition gadd (it : item) : list (gtype * string) :=
    match it with IGate _ _ _ => match gate_view it with Some (o, (t, _)) => [(t, o)] | None => [] end | _ => [] end.
  Definition gedge (it : item) : list (string * string) :=
    match it with IGate _ _ _ => match gate_view it with Some (o, (_, fis)) => (λ i, (i, o)) <$> fis | None => [] end | _ => [] end.
  Definition aadd (it : item) : list (gtype * string) :=
    match it with IAssign _ _ => match gate_view it with Some (o, (t, _)) => [(t, o)] | None => [] end | _ => [] end.
  Definition aedge (it : item) : list (string * string) :=
    match it with IAssign _ _ => match gate_view it with Some (o, (_, fis)) => (λ i, (i, o)) <$> fis | None => [] end | _ => [] end.

  (* what the guard gives per item, for the fast reader *)
  Definition fgood (it : item) : Prop :=
    match it with
    | IGate t _ ops => ∃ o ins, ops = ONet o :: ins ∧ t ∈ primitive_gates ∧ forallb const_ok ins = true ∧ is_ident o = true ∧
                        ∀ s, ONet s ∈ ins → is_ident s = true
    | IAssign l r => const_ok r = true ∧ ∀ s, r = ONet s → is_ident s = true
    | IInst bb inst conns => ∃ d, find_bb_first bbs bb = Some d ∧ bb_in d ## bb_out d ∧
                        ∀ p o, (p, o) ∈ conns → (p ∈ bb_in d ∨ p ∈ bb_out d) ∧
                          ∀ o', o = Some o' → const_ok o' = true ∧ ∀ s, o' = ONet s → is_ident s = true
    | _ => True end.

  Lemma fast_pin_opd_nm o : const_ok o = true → (∀ s, o = ONet s → is_ident s = true) → fast_pin_opd t0 t1 o = nm o.
  Proof.
    intros Hc Hi. destruct o as [s|s]; [apply ident_pin_opd; auto|]. simpl in Hc. unfold fast_pin_opd. cbn [opd_text FvA3.nm].
    apply orb_true_iff in Hc as [->%bool_decide_eq_true| ->%bool_decide_eq_true]; vm_compute; done.
  Qed.
  Definition cadd (d : bbdef) (c : string * option opd) : list (gtype * string) :=
    match c.2 with Some o => if bool_decide (c.1 ∈ bb_in d) then [] else [(Buf, nm o)] | None => [] end.
  Definition cedge (d : bbdef) (inst : string) (c : string * option opd) : list (string * string) :=
    match c.2 with Some o => if bool_decide (c.1 ∈ bb_in d) then [(nm o, pin inst c.1)] else [(pin inst c.1, nm o)] | None => [] end.
  Definition iadd (it : item) : list (gtype * string) :=
    match it with IInst bb inst conns => match find_bb_first bbs bb with
      | Some d => ((λ p, (BbIn, pin inst p)) <$> elements (bb_in d)) ++ ((λ p, (BbOut, pin inst p)) <$> elements (bb_out d)) ++ (conns ≫= cadd d)
      | None => [] end | _ => [] end.
  Definition iedge (it : item) : list (string * string) :=
    match it with IInst bb inst conns => match find_bb_first bbs bb with Some d => conns ≫= cedge d inst | None => [] end | _ => [] end.
  Definition ibbs (it : item) : list (string * bbdef) :=
    match it with IInst bb inst conns => match find_bb_first bbs bb with Some d => [(inst, d)] | None => [] end | _ => [] end.

  Lemma pins_fold_good d inst conns : ∀ s,
    (∀ p o, (p, o) ∈ conns → (p ∈ bb_in d ∨ p ∈ bb_out d) ∧ ∀ o', o = Some o' → const_ok o' = true ∧ ∀ s, o' = ONet s → is_ident s = true) →
    foldl (λ (st : res scan) (c : string * option opd),
       match st, c.2 with
       | Ok s, Some o =>
           let net := fast_pin_opd t0 t1 o in
           if bool_decide (c.1 ∈ bb_in d) then
             Ok {| s_adds := s_adds s; s_edges := s_edges s ++ [(net, pin inst c.1)]; s_bbs := s_bbs s |}
           else if bool_decide (c.1 ∈ bb_out d) then
             Ok {| s_adds := s_adds s ++ [(Buf, net)]; s_edges := s_edges s ++ [(pin inst c.1, net)]; s_bbs := s_bbs s |}
           else Raise ValueError
       | st, _ => st end) (Ok s) conns
    = Ok {| s_adds := s_adds s ++ (conns ≫= cadd d); s_edges := s_edges s ++ (conns ≫= cedge d inst); s_bbs := s_bbs s |}.
  Proof.
    induction conns as [|[p o] conns IH]; intros s Hg; cbn [foldl].
    - rewrite !app_nil_r. by destruct s.
    - destruct (Hg p o) as [Hp Ho]; [by left|]. assert (Hg' : ∀ p' o', (p', o') ∈ conns → (p' ∈ bb_in d ∨ p' ∈ bb_out d) ∧ ∀ o'', o' = Some o'' → const_ok o'' = true ∧ ∀ s, o'' = ONet s → is_ident s = true) by (intros; apply Hg; by right).
      rewrite !bind_cons. unfold cadd at 1, cedge at 1. cbn [fst snd]. destruct o as [o|].
      + destruct (Ho o eq_refl) as [Hc Hi]. rewrite (fast_pin_opd_nm o Hc Hi). case_bool_decide as Hpi.
        * rewrite IH by done. cbn [s_adds s_edges s_bbs]. by rewrite app_nil_l, <- app_assoc.
        * rewrite bool_decide_eq_true_2 by (destruct Hp; done). rewrite IH by done. cbn [s_adds s_edges s_bbs]. by rewrite <- !app_assoc.
      + rewrite IH by done. by rewrite !app_nil_l.
  Qed.

  Lemma parity_table t : t ∈ primitive_gates → bool_decide (parity_name t ∈ fast_parity) = is_parity t.
  Proof. intros H. unfold primitive_gates in H. repeat (apply elem_of_cons in H as [->|H]); try (by apply elem_of_nil in H); vm_compute; done. Qed.

  Lemma fast_inst_good s it : fgood it →
    fast_inst t0 t1 bbs s it = Ok {| s_adds := s_adds s ++ (gadd it ++ iadd it); s_edges := s_edges s ++ (gedge it ++ iedge it); s_bbs := s_bbs s ++ ibbs it |}.
  Proof.
    destruct it as [ns|ns|ns|t inst ops|l r|bb inst conns]; cbn [fgood fast_inst gadd gedge iadd iedge ibbs]; try (intros _; rewrite !app_nil_r; by destruct s).
    - intros (o & ins & -> & Ht & Hc & Hio & Hnets).
      assert (Hops : fast_gate_opd t0 t1 <$> (ONet o :: ins) = o :: (nm <$> ins)).
      { cbn [fmap list_fmap]. f_equal; [by apply ident_gate_opd|]. apply list_fmap_ext. intros i x Hx.
        apply fast_gate_opd_nm.
        - rewrite forallb_forall in Hc. apply Hc, elem_of_list_In. by eapply elem_of_list_lookup_2.
        - intros s' ->. apply Hnets. by eapply elem_of_list_lookup_2. }
      rewrite Hops. rewrite (parity_table t Ht). cbn [FvA3.gate_view]. unfold FvA3.norm.
      destruct (if is_parity t then _ else _) as [t' ins']. by rewrite !app_nil_r.
    - intros (d & -> & Hdisj & Hg). rewrite (pins_fold_good d inst conns) by done. cbn [rbind s_adds s_edges s_bbs]. by rewrite !app_nil_l, <- !app_assoc.
  Qed.
  Lemma fast_assign_good s it : fgood it →
    fast_assign t0 t1 s it = {| s_adds := s_adds s ++ aadd it; s_edges := s_edges s ++ aedge it; s_bbs := s_bbs s |}.
  Proof.
    destruct it as [ns|ns|ns|t inst ops|l r|bb inst conns]; cbn [fgood fast_assign aadd aedge]; try (intros _; rewrite !app_nil_r; by destruct s); try done.
    intros [Hc Hi]. cbn [FvA3.gate_view fmap list_fmap]. by rewrite fast_assign_opd_nm.
  Qed.

  Definition gadd' (it : item) := (gadd it ++ iadd it)%list.
  Definition gedge' (it : item) := (gedge it ++ iedge it)%list.
  Lemma fast_scan_good items : ∀ s, (∀ it, it ∈ items → fgood it) →
    foldl (λ st it, rbind st (λ s, fast_inst t0 t1 bbs s it)) (Ok s) items =
      Ok {| s_adds := s_adds s ++ (items ≫= gadd'); s_edges := s_edges s ++ (items ≫= gedge'); s_bbs := s_bbs s ++ (items ≫= ibbs) |}.
  Proof.
    induction items as [|it items IH]; intros s Hg; cbn [foldl rbind].
    - rewrite !app_nil_r. by destruct s.
    - rewrite fast_inst_good by (apply Hg; by left). rewrite IH by (intros; apply Hg; by right). cbn [s_adds s_edges s_bbs].
      unfold gadd', gedge'. by rewrite !bind_cons, !app_assoc.
  Qed.
  Lemma fast_assigns_good items : ∀ s, (∀ it, it ∈ items → fgood it) →
    foldl (fast_assign t0 t1) s items =
      {| s_adds := s_adds s ++ (items ≫= aadd); s_edges := s_edges s ++ (items ≫= aedge); s_bbs := s_bbs s |}.
  Proof.
    induction items as [|it items IH]; intros s Hg; cbn [foldl].
    - rewrite !app_nil_r. by destruct s.
    - rewrite fast_assign_good by (apply Hg; by left). rewrite IH by (intros; apply Hg; by right). cbn [s_adds s_edges s_bbs].
      by rewrite !bind_cons, !app_assoc.
  Qed.

  (* membership in the accumulated lists = being a view of some statement *)
  Lemma views_gate it e : match it with IInst _ _ _ => False | _ => True end → e ∈ views it ↔ gate_view it = Some e.
  Proof. intros Hn. destruct it; try done; cbn [FvA3.views]; destruct (FvA3.gate_view t0 t1 _) as [e'|]; split; try done; try (intros ->%elem_of_list_singleton; done); try (intros [= ->]; by left); intros H; by apply elem_of_nil in H. Qed.
  Lemma inst_adds bb inst conns d t o : find_bb_first bbs bb = Some d → bb_in d ## bb_out d → (∀ p o, (p, o) ∈ conns → p ∈ bb_in d ∨ p ∈ bb_out d) →
    (t, o) ∈ iadd (IInst bb inst conns) ↔ ∃ fis, (o, (t, fis)) ∈ views (IInst bb inst conns).
  Proof.
    intros Hf Hdisj Hp. cbn [iadd FvA3.views]. rewrite Hf. unfold FvA3.inst_views. rewrite !elem_of_app, !elem_of_list_fmap. split.
    - intros [(p & [= -> ->] & Hpe%elem_of_elements)|[(p & [= -> ->] & Hpe%elem_of_elements)|Hc]].
      + eexists. rewrite elem_of_app. left. apply elem_of_list_fmap. exists (p, BbIn). split; [done|]. apply pin_list_elem. auto.
      + eexists. rewrite elem_of_app. left. apply elem_of_list_fmap. exists (p, BbOut). split; [done|]. apply pin_list_elem. auto.
      + apply elem_of_list_bind in Hc as ([p oo] & Hc & Hin). unfold cadd in Hc. cbn [fst snd] in Hc. destruct oo as [o'|]; [|by apply elem_of_nil in Hc].
        case_bool_decide as Hpi; [by apply elem_of_nil in Hc|]. apply elem_of_list_singleton in Hc as [= -> ->].
        eexists. rewrite elem_of_app. right. apply elem_of_list_fmap. exists (p, nm o'). split; [done|]. apply elem_of_list_filter. split; [done|]. apply conn_dict_elem. eauto.
    - intros (fis & [Hv|Hv]%elem_of_app).
      + apply elem_of_list_fmap in Hv as ([p t'] & [= -> -> ->] & [[Hpe ->]|[Hpe ->]]%pin_list_elem).
        * left. exists p. split; [done|by apply elem_of_elements].
        * right. left. exists p. split; [done|by apply elem_of_elements].
      + apply elem_of_list_fmap in Hv as ([p n] & [= -> -> ->] & [Hpi Hin]%elem_of_list_filter). cbn [fst snd] in *. apply conn_dict_elem in Hin as (o' & Hin & ->).
        right. right. apply elem_of_list_bind. exists (p, Some o'). split; [|done]. unfold cadd. cbn [fst snd]. rewrite bool_decide_eq_false_2 by done. by left.
  Qed.
  Lemma inst_edges bb inst conns d u v : find_bb_first bbs bb = Some d → bb_in d ## bb_out d → (∀ p o, (p, o) ∈ conns → p ∈ bb_in d ∨ p ∈ bb_out d) →
    (u, v) ∈ iedge (IInst bb inst conns) ↔ ∃ t fis, (v, (t, fis)) ∈ views (IInst bb inst conns) ∧ u ∈ fis.
  Proof.
    intros Hf Hdisj Hp. cbn [iedge FvA3.views]. rewrite Hf. unfold FvA3.inst_views. rewrite elem_of_list_bind. split.
    - intros ([p oo] & Hc & Hin). unfold cedge in Hc. cbn [fst snd] in Hc. destruct oo as [o'|]; [|by apply elem_of_nil in Hc].
      case_bool_decide as Hpi; apply elem_of_list_singleton in Hc as [= -> ->].
      + exists BbIn. eexists. split; [apply elem_of_app; left; apply elem_of_list_fmap; exists (p, BbIn); split; [done|apply pin_list_elem; auto]|].
        cbn [fst]. apply elem_of_list_fmap. exists (p, nm o'). split; [done|]. apply elem_of_list_filter. split; [done|]. apply conn_dict_elem. eauto.
      + exists Buf, [pin inst p]. split; [|by left]. apply elem_of_app. right. apply elem_of_list_fmap. exists (p, nm o'). split; [done|].
        apply elem_of_list_filter. split; [done|]. apply conn_dict_elem. eauto.
    - intros (t & fis & [Hv|Hv]%elem_of_app & Hu).
      + apply elem_of_list_fmap in Hv as ([p t'] & [= -> -> ->] & _). cbn [fst] in Hu.
        apply elem_of_list_fmap in Hu as ([p' n] & -> & [[Heq Hpi] Hin]%elem_of_list_filter). cbn [fst snd] in *. subst p'.
        apply conn_dict_elem in Hin as (o' & Hin & ->). exists (p, Some o'). split; [|done]. unfold cedge. cbn [fst snd]. rewrite bool_decide_eq_true_2 by done. by left.
      + apply elem_of_list_fmap in Hv as ([p n] & [= -> -> ->] & [Hpi Hin]%elem_of_list_filter). cbn [fst snd] in *. apply elem_of_list_singleton in Hu as ->.
        apply conn_dict_elem in Hin as (o' & Hin & ->). exists (p, Some o'). split; [|done]. unfold cedge. cbn [fst snd]. rewrite bool_decide_eq_false_2 by done. by left.
  Qed.

  Lemma adds_elem items t o : (∀ it, it ∈ items → fgood it) →
    (t, o) ∈ ((items ≫= gadd') ++ (items ≫= aadd))%list ↔ ∃ it fis, it ∈ items ∧ (o, (t, fis)) ∈ views it.
  Proof.
    intros Hg. rewrite elem_of_app, !elem_of_list_bind. split.
    - intros [(it & Hin & Hit)|(it & Hin & Hit)].
      + unfold gadd' in Hin. apply elem_of_app in Hin as [Hin|Hin].
        * exists it. destruct it; cbn [gadd] in Hin; try (by apply elem_of_nil in Hin).
          destruct (FvA3.gate_view t0 t1 _) as [[o' [t' fis]]|] eqn:E; [|by apply elem_of_nil in Hin]. apply elem_of_list_singleton in Hin as [= -> ->].
          exists fis. split; [done|]. by apply views_gate.
        * destruct it; cbn [iadd] in Hin; try (by apply elem_of_nil in Hin). destruct (Hg _ Hit) as (d & Hf & Hdisj & Hc).
          apply (inst_adds _ _ _ d) in Hin as [fis Hv]; [eauto|done|done|intros p' o'' Hx; by destruct (Hc p' o'' Hx)].
      + exists it. destruct it; cbn [aadd] in Hin; try (by apply elem_of_nil in Hin).
        destruct (FvA3.gate_view t0 t1 _) as [[o' [t' fis]]|] eqn:E; [|by apply elem_of_nil in Hin]. apply elem_of_list_singleton in Hin as [= -> ->].
        exists fis. split; [done|]. by apply views_gate.
    - intros (it & fis & Hit & Hv). destruct it as [ns|ns|ns|t' inst ops|l r|bb inst conns].
      1-3: cbn [FvA3.views FvA3.gate_view] in Hv; by apply elem_of_nil in Hv.
      + left. exists (IGate t' inst ops). split; [|done]. apply views_gate in Hv; [|done]. unfold gadd'. apply elem_of_app. left. cbn [gadd]. rewrite Hv. by left.
      + right. exists (IAssign l r). split; [|done]. apply views_gate in Hv; [|done]. cbn [aadd]. rewrite Hv. by left.
      + left. exists (IInst bb inst conns). split; [|done]. unfold gadd'. apply elem_of_app. right. destruct (Hg _ Hit) as (d & Hf & Hdisj & Hc).
        apply (inst_adds _ _ _ d); [done|done|intros p' o'' Hx; by destruct (Hc p' o'' Hx)|eauto].
  Qed.
  Lemma edges_elem items u v : (∀ it, it ∈ items → fgood it) →
    (u, v) ∈ ((items ≫= gedge') ++ (items ≫= aedge))%list ↔ ∃ it t fis, it ∈ items ∧ (v, (t, fis)) ∈ views it ∧ u ∈ fis.
  Proof.
    intros Hg. rewrite elem_of_app, !elem_of_list_bind. split.
    - intros [(it & Hin & Hit)|(it & Hin & Hit)].
      + unfold gedge' in Hin. apply elem_of_app in Hin as [Hin|Hin].
        * exists it. destruct it; cbn [gedge] in Hin; try (by apply elem_of_nil in Hin).
          destruct (FvA3.gate_view t0 t1 _) as [[o' [t' fis]]|] eqn:E; [|by apply elem_of_nil in Hin]. apply elem_of_list_fmap in Hin as (i & [= -> ->] & Hi).
          exists t', fis. split; [done|]. split; [by apply views_gate|done].
        * destruct it; cbn [iedge] in Hin; try (by apply elem_of_nil in Hin). destruct (Hg _ Hit) as (d & Hf & Hdisj & Hc).
          apply (inst_edges _ _ _ d) in Hin as (t' & fis & Hv & Hu); [eauto 7|done|done|intros p' o'' Hx; by destruct (Hc p' o'' Hx)].
      + exists it. destruct it; cbn [aedge] in Hin; try (by apply elem_of_nil in Hin).
        destruct (FvA3.gate_view t0 t1 _) as [[o' [t' fis]]|] eqn:E; [|by apply elem_of_nil in Hin]. apply elem_of_list_fmap in Hin as (i & [= -> ->] & Hi).
        exists t', fis. split; [done|]. split; [by apply views_gate|done].
    - intros (it & t & fis & Hit & Hv & Hu). destruct it as [ns|ns|ns|t' inst ops|l r|bb inst conns].
      1-3: cbn [FvA3.views FvA3.gate_view] in Hv; by apply elem_of_nil in Hv.
      + left. exists (IGate t' inst ops). split; [|done]. apply views_gate in Hv; [|done]. unfold gedge'. apply elem_of_app. left. cbn [gedge]. rewrite Hv. apply elem_of_list_fmap. eauto.
      + right. exists (IAssign l r). split; [|done]. apply views_gate in Hv; [|done]. cbn [aedge]. rewrite Hv. apply elem_of_list_fmap. eauto.
      + left. exists (IInst bb inst conns). split; [|done]. unfold gedge'. apply elem_of_app. right. destruct (Hg _ Hit) as (d & Hf & Hdisj & Hc).
        apply (inst_edges _ _ _ d); [done|done|intros p' o'' Hx; by destruct (Hc p' o'' Hx)|eauto].
  Qed.
End fastscan.
