(* C14 phase 2: agreement of the two reader models on modules without blackbox instances (part B1) *)
From stdpp Require Import strings gmap sets pretty.
From CG Require Import Model.FastVerilog Proofs.FastVerilogProofs Gen.Gen_fastv.
From CG Require Import Proofs.FvA0 Proofs.FvA1 Proofs.FvA2 Proofs.FvA3 Proofs.FvA4 Proofs.FvA5 Proofs.FvA6 Proofs.FvA7 Proofs.FvA8 Proofs.FvA9.
Open Scope string_scope.

(* ---- the fast reader's scans on good items, as exact lists *)
Section fastscan.
  Variables (t0 t1 : string).
  Notation nm := (nm t0 t1). Notation gate_view := (gate_view t0 t1).

  Lemma fast_gate_opd_nm o : const_ok o = true → (∀ s, o = ONet s → is_ident s = true) → fast_gate_opd t0 t1 o = nm o.
  Proof.
    intros Hc Hi. destruct o as [s|s]; [apply ident_gate_opd; auto|]. simpl in Hc. unfold fast_gate_opd. cbn [opd_text FvA3.nm].
    apply orb_true_iff in Hc as [->%bool_decide_eq_true| ->%bool_decide_eq_true]; vm_compute; done.
  Qed.
  Lemma fast_assign_opd_nm o : const_ok o = true → (∀ s, o = ONet s → is_ident s = true) → fast_assign_opd t0 t1 o = nm o.
  Proof.
    intros Hc Hi. destruct o as [s|s].
    - specialize (Hi s eq_refl). unfold fast_assign_opd. cbn [opd_text FvA3.nm].
      repeat case_bool_decide; try done; exfalso.
      + unfold fast_assign_c0 in *. repeat (match goal with H : _ ∈ _ :: _ |- _ => apply elem_of_cons in H as [->|H] end); try (vm_compute in Hi; discriminate). by apply elem_of_nil in H.
      + unfold fast_assign_c1 in *. repeat (match goal with H : _ ∈ _ :: _ |- _ => apply elem_of_cons in H as [->|H] end); try (vm_compute in Hi; discriminate). by apply elem_of_nil in H0.
    - simpl in Hc. unfold fast_assign_opd. cbn [opd_text FvA3.nm].
      apply orb_true_iff in Hc as [->%bool_decide_eq_true| ->%bool_decide_eq_true]; vm_compute; done.
  Qed.

  Definition gadd (it : item) : list (gtype * string) :=
    match it with IGate _ _ _ => match gate_view it with Some (o, (t, _)) => [(t, o)] | None => [] end | _ => [] end.
  Definition gedge (it : item) : list (string * string) :=
    match it with IGate _ _ _ => match gate_view it with Some (o, (_, fis)) => (λ i, (i, o)) <$> fis | None => [] end | _ => [] end.
  Definition aadd (it : item) : list (gtype * string) :=
    match it with IAssign _ _ => match gate_view it with Some (o, (t, _)) => [(t, o)] | None => [] end | _ => [] end.
  Definition aedge (it : item) : list (string * string) :=
    match it with IAssign _ _ => match gate_view it with Some (o, (_, fis)) => (λ i, (i, o)) <$> fis | None => [] end | _ => [] end.

  (* what the guard gives per item, for the fast reader *)
  Definition fgood (it : item) : Prop :=
    match it with
    | IGate t _ ops => ∃ o ins, ops = ONet o :: ins ∧ t ∈ primitive_gates ∧ forallb const_ok ins = true ∧ is_ident o = true ∧
                        ∀ s, ONet s ∈ ins → is_ident s = true
    | IAssign l r => const_ok r = true ∧ ∀ s, r = ONet s → is_ident s = true
    | IInst _ _ _ => False
    | _ => True end.

  Lemma parity_table t : t ∈ primitive_gates → bool_decide (parity_name t ∈ fast_parity) = is_parity t.
  Proof. intros H. unfold primitive_gates in H. repeat (apply elem_of_cons in H as [->|H]); try (by apply elem_of_nil in H); vm_compute; done. Qed.

  Lemma fast_inst_good bbs s it : fgood it →
    fast_inst t0 t1 bbs s it = Ok {| s_adds := s_adds s ++ gadd it; s_edges := s_edges s ++ gedge it; s_bbs := s_bbs s |}.
  Proof.
    destruct it as [ns|ns|ns|t inst ops|l r|bb inst conns]; cbn [fgood fast_inst gadd gedge]; try (intros _; rewrite !app_nil_r; by destruct s); try done.
    intros (o & ins & -> & Ht & Hc & Hio & Hnets).
    assert (Hops : fast_gate_opd t0 t1 <$> (ONet o :: ins) = o :: (nm <$> ins)).
    { cbn [fmap list_fmap]. f_equal; [by apply ident_gate_opd|]. apply list_fmap_ext. intros i x Hx.
      apply fast_gate_opd_nm.
      - rewrite forallb_forall in Hc. apply Hc, elem_of_list_In. by eapply elem_of_list_lookup_2.
      - intros s' ->. apply Hnets. by eapply elem_of_list_lookup_2. }
    rewrite Hops. rewrite (parity_table t Ht). cbn [FvA3.gate_view]. unfold FvA3.norm.
    destruct (if is_parity t then _ else _) as [t' ins']. done.
  Qed.
  Lemma fast_assign_good s it : fgood it →
    fast_assign t0 t1 s it = {| s_adds := s_adds s ++ aadd it; s_edges := s_edges s ++ aedge it; s_bbs := s_bbs s |}.
  Proof.
    destruct it as [ns|ns|ns|t inst ops|l r|bb inst conns]; cbn [fgood fast_assign aadd aedge]; try (intros _; rewrite !app_nil_r; by destruct s); try done.
    intros [Hc Hi]. cbn [FvA3.gate_view fmap list_fmap]. by rewrite fast_assign_opd_nm.
  Qed.

  Lemma fast_scan_good bbs items : ∀ s, (∀ it, it ∈ items → fgood it) →
    foldl (λ st it, rbind st (λ s, fast_inst t0 t1 bbs s it)) (Ok s) items =
      Ok {| s_adds := s_adds s ++ (items ≫= gadd); s_edges := s_edges s ++ (items ≫= gedge); s_bbs := s_bbs s |}.
  Proof.
    induction items as [|it items IH]; intros s Hg; cbn [foldl rbind].
    - rewrite !app_nil_r. by destruct s.
    - rewrite fast_inst_good by (apply Hg; by left). rewrite IH by (intros; apply Hg; by right). cbn [s_adds s_edges s_bbs].
      by rewrite !bind_cons, !app_assoc.
  Qed.
  Lemma fast_assigns_good items : ∀ s, (∀ it, it ∈ items → fgood it) →
    foldl (fast_assign t0 t1) s items =
      {| s_adds := s_adds s ++ (items ≫= aadd); s_edges := s_edges s ++ (items ≫= aedge); s_bbs := s_bbs s |}.
  Proof.
    induction items as [|it items IH]; intros s Hg; cbn [foldl].
    - rewrite !app_nil_r. by destruct s.
    - rewrite fast_assign_good by (apply Hg; by left). rewrite IH by (intros; apply Hg; by right). cbn [s_adds s_edges s_bbs].
      by rewrite !bind_cons, !app_assoc.
  Qed.

  (* membership in the accumulated lists = being the view of some statement *)
  Lemma adds_elem items t o : (t, o) ∈ ((items ≫= gadd) ++ (items ≫= aadd))%list ↔ ∃ it fis, it ∈ items ∧ gate_view it = Some (o, (t, fis)).
  Proof.
    rewrite elem_of_app, !elem_of_list_bind. split.
    - intros [(it & Hin & Hit)|(it & Hin & Hit)]; exists it; destruct it; cbn [gadd aadd] in Hin; try (by apply elem_of_nil in Hin);
        destruct (FvA3.gate_view t0 t1 _) as [[o' [t' fis]]|]; try (by apply elem_of_nil in Hin); apply elem_of_list_singleton in Hin as [= -> ->]; eauto.
    - intros (it & fis & Hit & Hv). destruct it; try done; [left|right]; eexists; (split; [|exact Hit]); cbn [gadd aadd]; rewrite Hv; by left.
  Qed.
  Lemma edges_elem items u v : (u, v) ∈ ((items ≫= gedge) ++ (items ≫= aedge))%list ↔ ∃ it t fis, it ∈ items ∧ gate_view it = Some (v, (t, fis)) ∧ u ∈ fis.
  Proof.
    rewrite elem_of_app, !elem_of_list_bind. split.
    - intros [(it & Hin & Hit)|(it & Hin & Hit)]; exists it; destruct it; cbn [gedge aedge] in Hin; try (by apply elem_of_nil in Hin);
        destruct (FvA3.gate_view t0 t1 _) as [[o' [t' fis]]|]; try (by apply elem_of_nil in Hin);
        apply elem_of_list_fmap in Hin as (i & [= -> ->] & Hi); eauto 6.
    - intros (it & t & fis & Hit & Hv & Hu). destruct it; try done; [left|right]; eexists; (split; [|exact Hit]); cbn [gedge aedge]; rewrite Hv;
        apply elem_of_list_fmap; eauto.
  Qed.
End fastscan.
