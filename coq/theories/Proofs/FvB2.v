(* C14 phase 2: agreement of the two reader models on the documented subset (part B2) *)
From stdpp Require Import strings gmap sets pretty.
From CG Require Import Proofs.FvA0.
From CG Require Import Model.FastVerilog Proofs.FastVerilogProofs Gen.Gen_fastv.
Open Scope string_scope.

Lemma foldl_insert_other {A} (f : A → string) (h : A → ninfo) (l : list A) : ∀ (g : circuit) m,
  m ∉ f <$> l → foldl (λ g p, <[f p := h p]> g) g l !! m = g !! m.
Proof.
  induction l as [|p l IH]; intros g m Hm; cbn [foldl]; [done|]. rewrite fmap_cons, not_elem_of_cons in Hm. destruct Hm as [Hne Hm].
  rewrite IH by done. by rewrite lookup_insert_ne.
Qed.
Lemma foldl_insert_last {A} (f : A → string) (h : A → ninfo) (l : list A) : ∀ (g : circuit) m v,
  (∃ p, p ∈ l ∧ f p = m) → (∀ p, p ∈ l → f p = m → h p = v) → foldl (λ g p, <[f p := h p]> g) g l !! m = Some v.
Proof.
  induction l as [|p l IH]; intros g m v (q & Hq & Hfq) Hall; [by apply elem_of_nil in Hq|]. cbn [foldl].
  destruct (decide (m ∈ f <$> l)) as [Hin|Hnin].
  - apply IH; [|intros; apply Hall; [by right|done]]. apply elem_of_list_fmap in Hin as (p' & -> & Hp'). eauto.
  - rewrite foldl_insert_other by done. apply elem_of_cons in Hq as [->|Hq].
    + rewrite Hfq, lookup_insert. f_equal. apply Hall; [by left|done].
    + exfalso. apply Hnin. apply elem_of_list_fmap. eauto.
Qed.

Lemma add_edge_dom c u v : dom (add_edge c u v) = dom c.
Proof. unfold add_edge. apply set_eq. intros x. by rewrite !elem_of_dom, lookup_alter_is_Some. Qed.
Lemma nx_fold_eq edges : ∀ g, (∀ e, e ∈ edges → e.1 ∈ dom g ∧ e.2 ∈ dom g) →
  foldl nx_add_edge g edges = foldl (λ c p, add_edge c p.1 p.2) g edges.
Proof.
  induction edges as [|e edges IH]; intros g H; cbn [foldl]; [done|].
  destruct (H e) as [H1 H2]; [by left|].
  assert (Hnx : nx_add_edge g e = add_edge g e.1 e.2).
  { unfold nx_add_edge, ensure. apply elem_of_dom in H1 as [i1 Hi1]. rewrite Hi1. apply elem_of_dom in H2 as [i2 Hi2]. by rewrite Hi2. }
  rewrite Hnx. apply IH. intros e' He'. rewrite add_edge_dom. apply H. by right.
Qed.

(* dropping an unused constant node *)
Lemma drop_unused_lookup g t m : drop_unused g t !! m = if decide (m = t ∧ fanout g t = ∅) then None else g !! m.
Proof.
  unfold drop_unused. case_bool_decide as Hf.
  - rewrite remove_lookup. destruct (decide (m = t)) as [->|Hne].
    + rewrite decide_True by set_solver. by rewrite decide_True.
    + rewrite decide_False by set_solver. rewrite decide_False by tauto.
      destruct (g !! m) as [i|] eqn:E; [|done]. simpl. f_equal. destruct i as [ty0 o0 fi0]. unfold upd_fi. simpl. f_equal.
      assert (t ∉ fi0). { intros Hin. assert (m ∈ fanout g t) by (apply elem_of_fanout; eauto). set_solver. }
      set_solver.
  - rewrite decide_False by tauto. done.
Qed.
Lemma drop_unused_full_eq g t : drop_unused_full g t = drop_unused g t.
Proof. done. Qed.
