(* C14 phase 2: agreement of the two reader models on the documented subset (part B3) *)
From stdpp Require Import strings gmap sets pretty.
From CG Require Import Model.FastVerilog Proofs.FastVerilogProofs Gen.Gen_fastv.
From CG Require Import Proofs.FvA0 Proofs.FvA1 Proofs.FvA2 Proofs.FvP1 Proofs.FvE1 Proofs.FvE2 Proofs.FvE3 Proofs.FvE4 Proofs.FvA3 Proofs.FvE5 Proofs.FvE6 Proofs.FvE7 Proofs.FvA4 Proofs.FvA5 Proofs.FvA6 Proofs.FvA7 Proofs.FvA8 Proofs.FvA9 Proofs.FvA10 Proofs.FvB1 Proofs.FvB2.
Open Scope string_scope.

Definition kt0 (a : ast) := tie_name (idents a) fast_tie0.
Definition kt1 (a : ast) := tie_name (idents a) fast_tie1.

(* what the fast reader's graph looks like before the output marking *)
Definition lookF (t0 t1 : string) (s : st) (m : string) : option ninfo :=
  if decide (m = t0) then Some (mk_node C0 false ∅) else if decide (m = t1) then Some (mk_node C1 false ∅) else
  match sG s !! m with
  | Some (t, fis) => Some (mk_node t false (list_to_set fis))
  | None => if decide (m ∈ sI s) then Some (mk_node Input false ∅) else None
  end.

Section common.
  Variables (a : ast) (bbs : list bbdef).
  Hypothesis Hsub : in_subset a bbs = true.
  Let HF := in_subset_facts a bbs Hsub.
  Variables (t0 t1 : string).
  Hypothesis Hfr : t0 ∉ idents a ∧ t1 ∉ idents a.
  Let SS := sF t0 t1 bbs a.
  Notation views := (views t0 t1 bbs). Notation it_driver := (it_driver t0 t1 bbs).
  Let Hfr3 : t0 ∉ idents a ∧ t1 ∉ idents a ∧ t1 ∉ idents a := conj (proj1 Hfr) (conj (proj2 Hfr) (proj2 Hfr)).

  Lemma fgood_of it : it ∈ a_items a → fgood bbs it.
  Proof.
    intros Hit. pose proof (item_ok_of a bbs HF it Hit) as Hok.
    destruct it as [ns|ns|ns|t inst ops|l r|bb inst conns]; cbn [fgood]; try done.
    - destruct (item_ok_gate _ _ _ _ Hok) as (o & ins & -> & Ht & Hc & Hs). exists o, ins. split; [done|]. split; [done|]. split; [done|]. split.
      + apply (sf_ident a bbs HF). eapply idents_item; [exact Hit|]. cbn [item_ids]. right. rewrite bind_cons. apply elem_of_app. left. by left.
      + intros s Hs'. apply (sf_ident a bbs HF). eapply idents_item; [exact Hit|].
        cbn [item_ids]. right. rewrite bind_cons. apply elem_of_app. right. apply elem_of_list_bind. exists (ONet s). split; [by left|done].
    - cbn [item_ok] in Hok. split; [done|]. intros s ->. apply (sf_ident a bbs HF). eapply idents_item; [exact Hit|]. right. by left.
    - destruct (item_ok_inst _ _ _ _ Hok) as (d & Hfirst & Hnd & Hdisj & Hc). exists d. split; [done|]. split; [done|].
      intros p o Hin. destruct (Hc p o Hin) as [Hp Ho]. split; [done|]. intros o' ->. destruct (Ho o' eq_refl) as [Hco _]. split; [done|].
      intros s ->. apply (sf_ident a bbs HF). eapply idents_item; [exact Hit|]. cbn [item_ids]. right. right. apply elem_of_list_bind. exists (p, Some (ONet s)). split; [|done].
      cbn [fst snd from_option opd_ids]. right. by left.
  Qed.

  Lemma nodup_drv : NoDup (a_items a ≫= it_driver).
  Proof. by apply (nodup_keys a bbs t0 t1 t1 HF). Qed.
  Lemma G_iff o v : sG SS !! o = Some v ↔ ∃ it, it ∈ a_items a ∧ (o, v) ∈ views it.
  Proof.
    unfold SS, sF. rewrite stp_fold_G; [|apply nodup_drv|intros; apply lookup_empty]. cbn [sG s0]. rewrite lookup_empty. split; [intros [?|?]; done|auto].
  Qed.
  Lemma drivers_idents it k : it ∈ a_items a → k ∈ item_drivers bbs it → k ∈ idents a.
  Proof.
    intros Hit Hk. eapply idents_item; [exact Hit|]. destruct it as [ns|ns|ns|t inst [|[o'|o'] ins]|l r|bb inst conns]; cbn [item_drivers] in Hk; try (by apply elem_of_nil in Hk).
    - apply elem_of_list_singleton in Hk as ->. cbn [item_ids]. right. rewrite bind_cons. apply elem_of_app. left. by left.
    - apply elem_of_list_singleton in Hk as ->. by left.
    - destruct (find_bb_first bbs bb) as [d|]; [|by apply elem_of_nil in Hk]. apply elem_of_list_bind in Hk as ([p o] & Hk & Hin). cbn [fst snd] in Hk.
      destruct o as [[s|s]|]; try (by apply elem_of_nil in Hk). case_bool_decide; [|by apply elem_of_nil in Hk]. apply elem_of_list_singleton in Hk as ->.
      cbn [item_ids]. right. right. apply elem_of_list_bind. exists (p, Some (ONet s)). split; [|done]. cbn [fst snd from_option opd_ids]. right. by left.
  Qed.
  (* a key of the state is never a declared input; it is an identifier of the text or a (dotted) pin name *)
  Lemma key_facts it o v : it ∈ a_items a → (o, v) ∈ views it → o ∉ decl_inputs a ∧ (dotted o = true ∨ o ∈ idents a).
  Proof.
    intros Hit Hv. assert (Hk : o ∈ it_driver it) by (unfold FvA4.it_driver; apply elem_of_list_fmap; by exists (o, v)).
    split; [apply (key_not_input a bbs t0 t1 t1 HF Hfr3); apply elem_of_list_bind; eauto|].
    destruct (keys_split a bbs t0 t1 t1 HF Hfr3 it o Hit Hk) as [[_ Hd]|[Hd _]]; [right; by eapply drivers_idents|by left].
  Qed.
  Lemma G_key o v : sG SS !! o = Some v → o ∉ decl_inputs a ∧ (dotted o = true ∨ o ∈ idents a).
  Proof. intros (it & Hit & Hv)%G_iff. by eapply key_facts. Qed.
End common.
