(* C14 phase 2: agreement of the two reader models on modules without blackbox instances (part B3) *)
From stdpp Require Import strings gmap sets pretty.
From CG Require Import Model.FastVerilog Proofs.FastVerilogProofs Gen.Gen_fastv.
From CG Require Import Proofs.FvA0 Proofs.FvA1 Proofs.FvA2 Proofs.FvA3 Proofs.FvA4 Proofs.FvA5 Proofs.FvA6 Proofs.FvA7 Proofs.FvA8 Proofs.FvA9 Proofs.FvA10 Proofs.FvB1 Proofs.FvB2.
Open Scope string_scope.

Definition kt0 (a : ast) := tie_name (idents a) fast_tie0.
Definition kt1 (a : ast) := tie_name (idents a) fast_tie1.

(* what the fast reader's graph looks like before the output marking *)
Definition lookF (t0 t1 : string) (s : st) (m : string) : option ninfo :=
  if decide (m = t0) then Some (mk_node C0 false ∅) else if decide (m = t1) then Some (mk_node C1 false ∅) else
  match sG s !! m with
  | Some (t, fis) => Some (mk_node t false (list_to_set fis))
  | None => if decide (m ∈ sI s) then Some (mk_node Input false ∅) else None
  end.

Section common.
  Variables (a : ast) (bbs : list bbdef).
  Hypothesis Hsub : in_subset a bbs = true.
  Hypothesis Hni : no_inst a = true.
  Let HF := in_subset_facts a bbs Hsub.
  Variables (t0 t1 : string).
  Let S := sF t0 t1 a.

  Lemma fgood_of it : it ∈ a_items a → fgood it.
  Proof.
    intros Hit. pose proof (not_inst a Hni it Hit) as Hn. pose proof (item_ok_of a bbs HF it Hit) as Hok.
    destruct it as [ns|ns|ns|t inst ops|l r|bb inst conns]; cbn [fgood]; try done.
    - destruct (item_ok_gate _ _ _ _ Hok) as (o & ins & -> & Ht & Hc & Hs). exists o, ins. split; [done|]. split; [done|]. split; [done|]. split.
      + apply (sf_ident a bbs HF). eapply idents_item; [exact Hit|]. cbn [item_ids]. right. rewrite bind_cons. apply elem_of_app. left. by left.
      + intros s Hs'. apply (sf_ident a bbs HF). eapply idents_item; [exact Hit|].
        cbn [item_ids]. right. rewrite bind_cons. apply elem_of_app. right. apply elem_of_list_bind. exists (ONet s). split; [by left|done].
    - cbn [item_ok] in Hok. split; [done|]. intros s ->. apply (sf_ident a bbs HF). eapply idents_item; [exact Hit|]. right. by left.
  Qed.

  Lemma nodup_drv : NoDup (a_items a ≫= it_driver t0 t1).
  Proof. rewrite <- (drivers_eq a bbs) by done. apply (sf_nodup a bbs HF). Qed.
  Lemma G_iff o v : sG S !! o = Some v ↔ ∃ it, it ∈ a_items a ∧ gate_view t0 t1 it = Some (o, v).
  Proof.
    unfold S, sF. rewrite stp_fold_G; [|apply nodup_drv|intros; apply lookup_empty]. cbn [sG s0]. rewrite lookup_empty. split; [intros [?|?]; done|auto].
  Qed.
  Lemma driver_ident it o v : it ∈ a_items a → gate_view t0 t1 it = Some (o, v) → o ∈ idents a ∧ o ∉ decl_inputs a.
  Proof.
    intros Hit Hv. assert (Hd : o ∈ a_items a ≫= item_drivers bbs).
    { rewrite (drivers_eq a bbs t0 t1) by done. apply elem_of_list_bind. exists it. split; [|done]. unfold it_driver. rewrite Hv. by left. }
    split; [|by apply (sf_drv_in a bbs HF)].
    eapply idents_item; [exact Hit|]. destruct it as [ns|ns|ns|t inst [|[o'|o'] ins]|l r|bb inst conns]; cbn [FvA3.gate_view] in Hv; try done.
    - injection Hv as <- _. cbn [item_ids]. right. rewrite bind_cons. apply elem_of_app. left. by left.
    - injection Hv as <- _. by left.
  Qed.
End common.
