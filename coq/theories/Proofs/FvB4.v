(* C14 phase 2: agreement of the two reader models on modules without blackbox instances (part B4) *)
From stdpp Require Import strings gmap sets pretty.
From CG Require Import Model.FastVerilog Proofs.FastVerilogProofs Gen.Gen_fastv.
From CG Require Import Proofs.FvA0 Proofs.FvA1 Proofs.FvA2 Proofs.FvA3 Proofs.FvA4 Proofs.FvA5 Proofs.FvA6 Proofs.FvA7 Proofs.FvA8 Proofs.FvA9 Proofs.FvA10 Proofs.FvB1 Proofs.FvB2 Proofs.FvB3.
Open Scope string_scope.

Section fastchar.
  Variables (a : ast) (bbs : list bbdef).
  Hypothesis Hsub : in_subset a bbs = true.
  Hypothesis Hni : no_inst a = true.
  Let HF := in_subset_facts a bbs Hsub.
  Let t0 := kt0 a. Let t1 := kt1 a.
  Let SS := sF t0 t1 a.
  Let adds := ((a_items a ≫= gadd t0 t1) ++ (a_items a ≫= aadd t0 t1))%list.
  Let edges := ((a_items a ≫= gedge t0 t1) ++ (a_items a ≫= aedge t0 t1))%list.

  Lemma fast_fresh : t0 ∉ idents a ∧ t1 ∉ idents a.
  Proof. split; apply tie_name_fresh. Qed.
  Lemma tie_name_cases R b : tie_name R b = b ∨ ∃ j, tie_name R b = cand b j.
  Proof.
    unfold tie_name. case_bool_decide; [right|by left].
    generalize (S (size R)) 0%N. intros f. induction f as [|f IH]; intros i; simpl; [eauto|]. case_bool_decide; eauto.
  Qed.
  Lemma fast_ne : t0 ≠ t1.
  Proof.
    unfold t0, t1, kt0, kt1.
    destruct (tie_name_cases (idents a) fast_tie0) as [->|[i ->]]; destruct (tie_name_cases (idents a) fast_tie1) as [->|[j ->]];
      unfold cand, pre; vm_compute fast_tie0; vm_compute fast_tie1; simpl; intros H; simplify_eq/=.
  Qed.

  Lemma sI_S : sI SS = list_to_set (decl_inputs a).
  Proof. unfold SS, sF. rewrite stp_fold_I, (inputs_eq a). cbn [sI s0]. set_solver. Qed.

  Definition fg0 : circuit := foldl (λ g n, <[n := mk_node Input false ∅]> g) ∅ (decl_inputs a).
  Definition fgt : circuit := <[t1 := mk_node C1 false ∅]> (<[t0 := mk_node C0 false ∅]> fg0).
  Definition fg2 : circuit := foldl (λ g p, <[p.2 := mk_node p.1 false ∅]> g) fgt (grouped adds).
  Definition fg3' : circuit := foldl nx_add_edge fg2 edges.

  Lemma fg0_lookup m : fg0 !! m = if decide (m ∈ decl_inputs a) then Some (mk_node Input false ∅) else None.
  Proof.
    unfold fg0. destruct (decide (m ∈ decl_inputs a)) as [Hin|Hnin].
    - apply (foldl_insert_last (λ n : string, n) (λ _, mk_node Input false ∅)); [eauto|done].
    - rewrite (foldl_insert_other (λ n : string, n) (λ _, mk_node Input false ∅)) by (by rewrite list_fmap_id). apply lookup_empty.
  Qed.
  Lemma view_G it o v : it ∈ a_items a → gate_view t0 t1 it = Some (o, v) → sG SS !! o = Some v.
  Proof. intros. apply (G_iff a bbs Hsub Hni). eauto. Qed.
  Lemma not_driver_tie m : m ∉ idents a → sG SS !! m = None.
  Proof.
    intros Hm. destruct (sG SS !! m) as [v|] eqn:E; [|done]. apply (G_iff a bbs Hsub Hni) in E as (it & Hit & Hv).
    destruct (driver_ident a bbs Hsub Hni t0 t1 it m v Hit Hv). done.
  Qed.
  Lemma fg2_lookup m : fg2 !! m = match sG SS !! m with Some (t, _) => Some (mk_node t false ∅) | None => fgt !! m end.
  Proof.
    unfold fg2. destruct (sG SS !! m) as [[t fis]|] eqn:E.
    - apply (foldl_insert_last snd (λ p, mk_node p.1 false ∅)).
      + exists (t, m). split; [|done]. apply (proj2 (grouped_elem _ _)). apply (adds_elem t0 t1). apply (G_iff a bbs Hsub Hni) in E as (it & Hit & Hv). eauto.
      + intros [t' m'] Hp Hm'. simpl in Hm'. subst m'. apply (proj1 (grouped_elem _ _)) in Hp. apply (adds_elem t0 t1) in Hp as (it & fis' & Hit & Hv).
        rewrite (view_G it m _ Hit Hv) in E. by injection E as ->.
    - apply (foldl_insert_other snd (λ p, mk_node p.1 false ∅)). intros Hin. apply elem_of_list_fmap in Hin as ([t' m'] & Hm' & Hp). simpl in Hm'. subst m'.
      apply (proj1 (grouped_elem _ _)) in Hp. apply (adds_elem t0 t1) in Hp as (it & fis' & Hit & Hv). by rewrite (view_G it m _ Hit Hv) in E.
  Qed.
  Lemma fgt_lookup m : fgt !! m = if decide (m = t1) then Some (mk_node C1 false ∅) else if decide (m = t0) then Some (mk_node C0 false ∅) else fg0 !! m.
  Proof. unfold fgt. destruct (decide (m = t1)) as [->|]; [by rewrite lookup_insert|]. rewrite lookup_insert_ne by done.
         destruct (decide (m = t0)) as [->|]; [by rewrite lookup_insert|]. by rewrite lookup_insert_ne. Qed.

  Lemma edges_dom e : e ∈ edges → e.1 ∈ dom fg2 ∧ e.2 ∈ dom fg2.
  Proof.
    destruct e as [u v]. intros He. apply (edges_elem t0 t1) in He as (it & t & fis & Hit & Hv & Hu). cbn [fst snd]. split.
    - assert (Huu : u ∈ it_uses t0 t1 it) by (unfold it_uses; by rewrite Hv).
      apply elem_of_dom. rewrite fg2_lookup. destruct (sG SS !! u) as [[??]|] eqn:E; [eauto|]. rewrite fgt_lookup.
      destruct (decide (u = t1)); [eauto|]. destruct (decide (u = t0)); [eauto|].
      destruct (uses_sub a bbs t0 t1 HF Hni it u Hit Huu) as [?|[?|Hiu]]; [done|done|].
      destruct (sf_uses a bbs HF u) as [Hd|Hi]; [apply elem_of_list_bind; eauto| |].
      + rewrite (drivers_eq a bbs t0 t1) in Hd by done. apply elem_of_list_bind in Hd as (it' & Hd & Hit').
        unfold it_driver in Hd. destruct (gate_view t0 t1 it') as [[o' v']|] eqn:Ev; [|by apply elem_of_nil in Hd].
        apply elem_of_list_singleton in Hd as ->. by rewrite (view_G it' o' v' Hit' Ev) in E.
      + rewrite fg0_lookup, decide_True by done. eauto.
    - apply elem_of_dom. rewrite fg2_lookup, (view_G it v _ Hit Hv). eauto.
  Qed.

  Theorem fast_g3_lookup m : fg3' !! m = lookF t0 t1 SS m.
  Proof.
    unfold fg3'. rewrite nx_fold_eq by (intros e He; by apply edges_dom). rewrite add_edges_lookup, fg2_lookup. unfold lookF.
    destruct fast_fresh as [Hf0 Hf1].
    assert (Hnoedge : sG SS !! m = None → drivers_of edges m = ∅).
    { intros HG. apply set_eq. intros u. rewrite elem_of_drivers_of. split; [|set_solver]. intros He.
      apply (edges_elem t0 t1) in He as (it & t & fis & Hit & Hv & Hu). by rewrite (view_G it m _ Hit Hv) in HG. }
    destruct (decide (m = t0)) as [->|Hm0].
    { rewrite (not_driver_tie t0 Hf0) in *. rewrite fgt_lookup. rewrite decide_False by apply fast_ne. rewrite decide_True by done.
      simpl. rewrite Hnoedge by done. unfold upd_fi, mk_node. simpl. do 2 f_equal. set_solver. }
    destruct (decide (m = t1)) as [->|Hm1].
    { rewrite (not_driver_tie t1 Hf1) in *. rewrite fgt_lookup. rewrite decide_True by done.
      simpl. rewrite Hnoedge by done. unfold upd_fi, mk_node. simpl. do 2 f_equal. set_solver. }
    destruct (sG SS !! m) as [[t fis]|] eqn:E.
    - simpl. unfold upd_fi, mk_node. simpl. do 2 f_equal. apply set_eq. intros u. rewrite elem_of_union, elem_of_drivers_of, elem_of_list_to_set.
      split.
      + intros [?|He]; [set_solver|]. apply (edges_elem t0 t1) in He as (it & t' & fis' & Hit & Hv & Hu).
        rewrite (view_G it m _ Hit Hv) in E. by injection E as _ ->.
      + intros Hu. right. apply (edges_elem t0 t1). apply (G_iff a bbs Hsub Hni) in E as (it & Hit & Hv). eauto 7.
    - rewrite fgt_lookup, decide_False, decide_False, fg0_lookup by done. rewrite sI_S.
      destruct (decide (m ∈ decl_inputs a)).
      + rewrite decide_True by (by apply elem_of_list_to_set). simpl. rewrite Hnoedge by done. unfold upd_fi, mk_node. simpl. do 2 f_equal. set_solver.
      + rewrite decide_False by (by rewrite elem_of_list_to_set). done.
  Qed.
End fastchar.
